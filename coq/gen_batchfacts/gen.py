import re,sys
src=open('/tmp/c11x/block.txt').read()
# split into functions
parts=[p for p in re.split(r'\n(?=with )', src) if p.strip()]
funs=[]
for p in parts:
    lines=p.split('\n')
    # drop leading comment lines
    lines=[l for l in lines if not re.match(r'^\(\*.*\*\)$',l)]
    hdr=lines[0]
    m=re.match(r'(Fixpoint|with) (\w+) \(f : nat\) (.*) \{struct f\} : (.*) :=',hdr)
    assert m,hdr
    name,args,ret=m.group(2),m.group(3),m.group(4)
    assert lines[1].strip()=='match f with', lines[1]
    assert lines[2].strip()=='| O => Err OutOfFuel s'
    assert lines[3].strip()=="| S f' =>"
    body=lines[4:]
    while body and body[-1].strip()=='' : body=body[:-1]
    assert body[-1]=='  end' or body[-1]=='  end.', body[-1]
    body=body[:-1]
    funs.append((name,args,ret,body))
names=[f[0] for f in funs]
ren={n:'b'+n for n in names}
def rn(t):
    t=re.sub(r'\b(exec1|exec|run_body|create_computation|dispose_children|dispose_list|dispose|run_cleanups)\b', lambda m:'b'+m.group(1), t)
    t=re.sub(r'\bfx\b','true',t)
    for g in ['create_empty','link','provide','try_use_context','unsubscribe']:
        t=re.sub(r'\b'+g+r' ', g+' true ', t)
    return t
SSET_OLD="""              do _, s2 <- update_silent id v s1;
              do _, s3 <- propagate_updates f' id s2;
              Ok en s3"""
SSET_NEW="""              do _, s2 <- update_silent id v s1;
              (* propagate_updates while batching: queue the node (one unit of fuel, as in the model) *)
              match f' with
              | O => Err OutOfFuel s2
              | S _ => Ok en (set_queue (queue s2 ++ [id]) s2)
              end"""
SB_OLD="""          let was := batching s in
          do _, s1 <- bexec f' en ss (emit (EvBatch true) (set_batching true s));
          if true && was then Ok en (emit (EvBatch false) s1)
          else
            let q := queue s1 in
            do _, s2 <- propagate f' q (set_queue [] (set_batching false (emit (EvBatch false) s1)));
            Ok en s2"""
SB_NEW="""          (* an inner batch: no propagation at its end *)
          do _, s1 <- bexec f' en ss (emit (EvBatch true) (set_batching true s));
          Ok en (emit (EvBatch false) s1)"""
out=[]
lem=[]
for i,(name,args,ret,body) in enumerate(funs):
    b=rn('\n'.join(body))
    if name=='exec1':
        assert SSET_OLD in b
        b=b.replace(SSET_OLD,SSET_NEW)
        assert SB_OLD in b, b
        b=b.replace(SB_OLD,SB_NEW)
    kw='Fixpoint' if i==0 else 'with'
    out.append("%s %s (f : nat) %s {struct f} : %s :=\n  match f with\n  | O => Err OutOfFuel s\n  | S f' =>\n%s\n  end" % (kw,'b'+name,args,ret,b))
    argnames=' '.join(re.findall(r'\((\w+) :',args))
    lem.append("Lemma b%s_S (f' : nat) %s :\n  b%s (S f') %s =\n%s.\nProof. reflexivity. Qed.\n\nLemma b%s_O %s : b%s O %s = Err OutOfFuel s.\nProof. reflexivity. Qed.\n" % (name,args,name,argnames,b,name,args,name,argnames))
open('/tmp/c11x/bblock.v','w').write('\n\n'.join(out)+'.\n\n'+'\n'.join(lem))
