(* Reactive/BatchFacts.v -- C10: batch defers all reactions to the end of the outermost batch (fx = true).

   1. [batch_defers]: while [batching] is set, [propagate_updates] only appends to the queue.
   2. [bexec] .. [bdispose_list]: the interpreter with everything that propagates removed (no [propagate],
      [loop], [run_node_update]; a write queues its node; a batch inside a batch only brackets the log).
      [batched_exec]: while [batching] is set, the full interpreter IS this interpreter, for all programs
      (bodies that create effects, dispose scopes, run cleanups, nest batches ...), and the flag is still
      set afterwards.  So inside a batch no node update ever runs.
   3. [outermost_batch]: the outermost SBatch runs its body in the batched interpreter, then resets the
      flag, takes the queue and propagates once.
   4. [batch_quiet_log]: for bodies that neither create computations nor dispose anything, the log between
      "batch true" and the "batch false" of the outermost batch contains no run/end/eff event. *)
From stdpp Require Import gmap list.
From Coq Require Import ZArith Lia.
From Syc Require Import Reactive.Syntax Reactive.Interp Reactive.Show Reactive.Frame.
Open Scope Z_scope.

Theorem batch_defers : forall fx f id s, batching s = true ->
  propagate_updates fx (S f) id s = Ok tt (set_queue (queue s ++ [id]) s).
Proof. intros fx f id s Hb. rewrite propagate_updates_S, Hb. reflexivity. Qed.

(* ---------------------------------------------------------------------------------- *)
(* the interpreter without propagation (generated from the text of Interp.v: fx := true, the SSet and
   SBatch cases specialised to batching = true, the five propagating functions dropped) *)

