
(* ---------------------------------------------------------------------------------- *)
(* C10, main statements *)

(* inside a batch (nested or not) the interpreter is the one without propagation: for ALL bodies *)
Theorem batched_exec : forall f en ss s, batching s = true ->
  exec true f en ss s = bexec f en ss s.
Proof. intros f en ss s Hb. apply (proj1 (agree_all f)), Hb. Qed.

Theorem batched_exec1 : forall f en st s, batching s = true ->
  exec1 true f en st s = bexec1 f en st s.
Proof. intros f en st s Hb. apply (proj1 (proj2 (agree_all f))), Hb. Qed.

(* ... and the flag is still set when the body returns: an inner batch does not end the outer one *)
Theorem batching_kept : forall f en ss s en' s', batching s = true ->
  exec true f en ss s = Ok en' s' -> batching s' = true.
Proof.
  intros f en ss s en' s' Hb H. destruct (proj1 (agree_all f) en ss s Hb) as [E Hr].
  rewrite <- E, H in Hr. exact Hr.
Qed.

(* an inner batch never propagates: it is a pair of log brackets around its body *)
Theorem inner_batch : forall f en ss s, batching s = true ->
  exec1 true (S f) en (SBatch ss) s =
  do _, s1 <- bexec f en ss (emit (EvBatch true) s); Ok en (emit (EvBatch false) s1).
Proof.
  intros f en ss s Hb. rewrite batched_exec1 by exact Hb. rewrite bexec1_S.
  replace (set_batching true s) with s; [reflexivity|]. destruct s; cbn in *; subst; reflexivity.
Qed.

(* the outermost batch: body without propagation, then one propagation from the queued nodes *)
Theorem outermost_batch : forall f en ss s, batching s = false ->
  exec1 true (S f) en (SBatch ss) s =
  do _, s1 <- bexec f en ss (emit (EvBatch true) (set_batching true s));
  do _, s2 <- propagate true f (queue s1) (set_queue [] (set_batching false (emit (EvBatch false) s1)));
  Ok en s2.
Proof.
  intros f en ss s Hb. rewrite exec1_S. cbv zeta. rewrite Hb. cbn [andb].
  rewrite batched_exec by reflexivity. reflexivity.
Qed.

Print Assumptions batched_exec.
Print Assumptions outermost_batch.

(* ---------------------------------------------------------------------------------- *)
(* the log inside a batch: bodies that create no computation and dispose nothing *)

Fixpoint quiet (st : stmt) : bool :=
  match st with
  | SMemo _ _ | SSelector _ _ _ | SEffect _ _ | SDispose _ => false
  | SScope _ ss | SBatch ss | SUntrack ss | SComponent ss | SOnCleanup _ ss | SRunIn _ ss => forallb quiet ss
  | SIf _ a b => forallb quiet a && forallb quiet b
  | SSignal _ _ | SCurScope _ | SSet _ _ | SSetSilent _ _ | SProvide _ _ | SUseCtx _ | STrack _
  | SCellNew _ _ | SCellSet _ _ | SLog _ => true
  end.

Definition quiet_ev (e : ev) : Prop :=
  match e with EvRun _ | EvEnd _ | EvEff _ _ => False | _ => True end.

Definition qsuffix (l0 l1 : list ev) : Prop := exists l, l1 = l ++ l0 /\ Forall quiet_ev l.
Lemma qsuffix_refl l : qsuffix l l.
Proof. exists []; split; [reflexivity|constructor]. Qed.
Lemma qsuffix_cons e l0 l1 : quiet_ev e -> qsuffix l0 l1 -> qsuffix l0 (e :: l1).
Proof. intros He (l & -> & Hl). exists (e :: l). split; [reflexivity|constructor; assumption]. Qed.
Lemma qsuffix_trans l1 l2 l3 : qsuffix l1 l2 -> qsuffix l2 l3 -> qsuffix l1 l3.
Proof.
  intros (a & -> & Ha) (b & -> & Hb). exists (b ++ a). split; [rewrite app_assoc; reflexivity|].
  apply Forall_app; split; assumption.
Qed.

Definition qext {A} (s : state) (r : res A) : Prop := qsuffix (log s) (log (st_of r)).

Lemma qext_bind {A B} s (r : res A) (k : A -> state -> res B) :
  qext s r -> (forall a s1, r = Ok a s1 -> qext s1 (k a s1)) -> qext s (bind_res r k).
Proof.
  destruct r as [a s1|e s1]; cbn; intros Hr Hk; [|exact Hr].
  eapply qsuffix_trans; [exact Hr|]. apply Hk. reflexivity.
Qed.

Lemma read_qext t en x s : qext s (read t en x s).
Proof.
  unfold read, qext. destruct (lookup_env x en) as [[id|c]|]; try apply qsuffix_refl.
  assert (Ht : log (if t then track id s else s) = log s).
  { destruct t; [apply track_log|reflexivity]. }
  destruct (nodes (if t then track id s else s) !! id) as [nd|]; cbn.
  - destruct (n_value nd); cbn; rewrite Ht; [apply qsuffix_cons; [exact I|]|]; apply qsuffix_refl.
  - rewrite Ht. apply qsuffix_refl.
Qed.

Lemma eval_qext en e : forall s, qext s (eval en e s).
Proof.
  induction e; intros s; cbn [eval];
    try (apply qext_bind; [auto|intros ? ? _; try (apply qext_bind; [auto|intros ? ? _])]; try apply qsuffix_refl).
  - apply qsuffix_refl.
  - apply read_qext.
  - apply read_qext.
  - match goal with |- context [if ?b then _ else _] => destruct b end; auto.
  - destruct (lookup_env x en) as [[id|c]|]; apply qsuffix_refl.
  - destruct (lookup_env c en) as [[id|k]|]; try apply qsuffix_refl. destruct (cells s !! k); apply qsuffix_refl.
Qed.

Ltac qb := apply qext_bind; [|intros ? ? ?].
Ltac qrefl := apply qsuffix_refl.
Ltac qstep := cbn; rewrite ?track_log; cbn; repeat (apply qsuffix_cons; [exact I|]); apply qsuffix_refl.
Ltac qsame lem := unfold qext; rewrite lem; apply qsuffix_refl.
Ltac qok := unfold qext; cbn [st_of]; qstep.
Ltac qvia H := unfold qext; (eapply qsuffix_trans; [|apply H]); [qstep|].

Lemma quiet_log : forall f,
  (forall en ss s, forallb quiet ss = true -> qext s (bexec f en ss s)) /\
  (forall en st s, quiet st = true -> qext s (bexec1 f en st s)).
Proof.
  induction f as [|f [Hexec Hexec1]].
  { split; intros; apply qsuffix_refl. }
  split.
  - intros en ss s Hq. rewrite bexec_S. destruct ss as [|st rest]; [qrefl|].
    cbn [forallb] in Hq. apply andb_prop in Hq as [Hq1 Hq2]. qb; [apply Hexec1, Hq1|]. apply Hexec, Hq2.
  - intros en st s Hq. rewrite bexec1_S. destruct st; cbn [quiet] in Hq; try discriminate.
    + qb; [apply eval_qext|]. qb; [qsame create_empty_log|]. qok.
    + qb; [qsame create_empty_log|]. cbv zeta. qb; [qvia Hexec; exact Hq|]. qok.
    + destruct (current s); qrefl.
    + qb; [apply eval_qext|]. destruct (lookup_env x en) as [[id|c]|]; try qrefl.
      qb; [qsame update_silent_log|]. destruct f; [qrefl|qok].
    + qb; [apply eval_qext|]. destruct (lookup_env x en) as [[id|c]|]; try qrefl.
      qb; [qsame update_silent_log|]. qrefl.
    + qb; [qvia Hexec; exact Hq|]. qok.
    + cbv zeta. qb; [qvia Hexec; exact Hq|]. qok.
    + cbv zeta. qb; [qvia Hexec; exact Hq|]. qok.
    + destruct (current s) as [c|]; [|qok]. destruct (alive c s); [qok|].
      cbn [andb]. cbv zeta. qb; [qvia Hexec; exact Hq|]. qok.
    + qb; [apply eval_qext|]. qb; [qsame provide_log|]. qrefl.
    + qb; [unfold qext; rewrite try_use_context_st; qrefl|]. qok.
    + destruct (lookup_env x en) as [[id|c]|]; try qrefl. cbv zeta. qb; [qvia Hexec; exact Hq|]. qok.
    + destruct (lookup_env x en) as [[id|c]|]; try qrefl. qok.
    + apply andb_prop in Hq as [Hqa Hqb]. qb; [apply eval_qext|].
      qb; [apply Hexec; match goal with |- context [if ?b then _ else _] => destruct b end; assumption|]. qrefl.
    + qb; [apply eval_qext|]. qok.
    + qb; [apply eval_qext|]. destruct (lookup_env c en) as [[id|k]|]; qrefl.
    + qb; [apply eval_qext|]. qok.
Qed.

(* the log of an outermost batch with a quiet body: between "batch true" and "batch false" no computation
   runs; everything that runs comes after "batch false" *)
Theorem batch_quiet_log : forall f en ss s en' s', batching s = false -> forallb quiet ss = true ->
  exec1 true f en (SBatch ss) s = Ok en' s' ->
  exists l1 l2, log s' = l2 ++ EvBatch false :: l1 ++ EvBatch true :: log s /\ Forall quiet_ev l1.
Proof.
  intros f en ss s en' s' Hb Hq H. destruct f as [|f]; [discriminate|].
  rewrite outermost_batch in H by exact Hb.
  pose proof (proj1 (quiet_log f) en ss (emit (EvBatch true) (set_batching true s)) Hq) as Hl.
  destruct (bexec f en ss (emit (EvBatch true) (set_batching true s))) as [en1 s1|e s1]; cbn [bind_res] in H; [|discriminate].
  destruct Hl as (l1 & Hl1 & Hq1). cbn in Hl1.
  pose proof (propagate_log_grows f (queue s1) (set_queue [] (set_batching false (emit (EvBatch false) s1)))) as [l2 Hl2].
  destruct (propagate true f (queue s1) (set_queue [] (set_batching false (emit (EvBatch false) s1)))) as [[] s2|e s2];
    cbn [bind_res] in H; [|discriminate].
  inversion H; subst. cbn in Hl2. exists l1, l2. rewrite Hl2, Hl1. split; [reflexivity|exact Hq1].
Qed.

(* the same on failing runs: whatever was logged before the failure has this shape too *)
Theorem batch_quiet_log_err : forall f en ss s e s', batching s = false -> forallb quiet ss = true ->
  exec1 true f en (SBatch ss) s = Err e s' ->
  log s' = log s \/
  (exists l1, log s' = l1 ++ EvBatch true :: log s /\ Forall quiet_ev l1) \/
  (exists l1 l2, log s' = l2 ++ EvBatch false :: l1 ++ EvBatch true :: log s /\ Forall quiet_ev l1).
Proof.
  intros f en ss s e s' Hb Hq H. destruct f as [|f]; [inversion H; subst; left; reflexivity|right].
  rewrite outermost_batch in H by exact Hb.
  pose proof (proj1 (quiet_log f) en ss (emit (EvBatch true) (set_batching true s)) Hq) as Hl.
  destruct (bexec f en ss (emit (EvBatch true) (set_batching true s))) as [en1 s1|e1 s1]; cbn [bind_res] in H.
  - destruct Hl as (l1 & Hl1 & Hq1). cbn in Hl1.
    pose proof (propagate_log_grows f (queue s1) (set_queue [] (set_batching false (emit (EvBatch false) s1)))) as [l2 Hl2].
    destruct (propagate true f (queue s1) (set_queue [] (set_batching false (emit (EvBatch false) s1)))) as [[] s2|e2 s2];
      cbn [bind_res] in H; [discriminate|].
    inversion H; subst. cbn in Hl2. right. exists l1, l2. rewrite Hl2, Hl1. split; [reflexivity|exact Hq1].
  - inversion H; subst. left. destruct Hl as (l1 & Hl1 & Hq1). cbn in Hl1. exists l1. split; assumption.
Qed.

Print Assumptions batch_quiet_log.

(* ---------------------------------------------------------------------------------- *)
(* non-vacuity *)

(* nested batches, repeated writes, two effects: all runs come after the outer "batch false" *)
Definition bf_prog : list stmt :=
  [SSignal 1 (Lit 0); SSignal 2 (Lit 0);
   SEffect 3 (Body None [] (Add (Get 1) (Get 2)));
   SMemo 4 (Body None [] (Mul (Get 1) (Lit 2)))].
Definition bf_batch : stmt :=
  SBatch [SSet 1 (Lit 1); SBatch [SSet 2 (Lit 5); SSet 1 (Lit 2); SLog (GetU 4)]; SSet 2 (Lit 7); SLog (GetU 4)].

Example bf_quiet : quiet bf_batch = true.
Proof. reflexivity. Qed.

Definition is_run (e : ev) : bool := match e with EvRun _ => true | _ => false end.
Definition split_at_batch_false (l : list ev) : list ev * list ev :=
  (* the log is most recent first: events after the LAST "batch false", events before it *)
  (fix go (acc l : list ev) := match l with
     | [] => (rev acc, [])
     | EvBatch false :: r => (rev acc, r)
     | e :: r => go (e :: acc) r
     end) [] l.

Example bf_instance :
  match exec true 400 root_env bf_prog init_state with
  | Ok en s =>
      batching s = false /\
      match exec1 true 400 en bf_batch (clear_log s) with
      | Ok _ s' =>
          let '(after, before) := split_at_batch_false (log s') in
          List.length (List.filter is_run after) = 2%nat       (* the effect and the memo, once each *)
          /\ List.filter is_run before = []                    (* nothing ran inside *)
          /\ List.filter (fun e => match e with EvLog _ => true | _ => false end) before
              = [EvLog 0; EvLog 0]                             (* the memo kept its pre-batch value *)
      | Err _ _ => False
      end
  | Err _ _ => False
  end.
Proof. vm_compute. repeat split; reflexivity. Qed.

(* the pinned code (fx = false) ends the outer batch at the inner "batch false": finding F2 *)
Example bf_pinned_runs_inside :
  match exec false 400 root_env bf_prog init_state with
  | Ok en s =>
      match exec1 false 400 en bf_batch (clear_log s) with
      | Ok _ s' => let '(after, before) := split_at_batch_false (log s') in List.filter is_run before <> []
      | Err _ _ => False
      end
  | Err _ _ => False
  end.
Proof. vm_compute. discriminate. Qed.

(* [batched_exec] is about all bodies: a batch body that creates an effect and disposes a scope with a
   cleanup runs them (first run, cleanup) but still performs no update of an existing computation *)
Definition bf_prog2 : list stmt :=
  [SSignal 1 (Lit 0); SEffect 2 (Body None [] (Get 1));
   SScope 3 [SOnCleanup 7 [SSet 1 (Lit 9)]]].
Definition bf_batch2 : stmt :=
  SBatch [SSet 1 (Lit 1); SEffect 5 (Body None [] (Get 1)); SDispose 3].
Example bf_instance2 :
  match exec true 400 root_env bf_prog2 init_state with
  | Ok en s =>
      match exec1 true 400 en bf_batch2 (clear_log s) with
      | Ok _ s' =>
          let '(after, before) := split_at_batch_false (log s') in
          List.filter is_run before = [EvRun 5]      (* only the creation of effect 5 ran inside *)
          /\ List.filter is_run after = [EvRun 2; EvRun 5]  (* most recent first *)
      | Err _ _ => False
      end
  | Err _ _ => False
  end.
Proof. vm_compute. split; reflexivity. Qed.
