
(* ---------------------------------------------------------------------------------- *)
(* the basic operations keep the flag *)

Definition batched {A} (r : res A) : Prop :=
  match r with Ok _ s => batching s = true | Err _ _ => True end.
Definition agree {A} (r r' : res A) : Prop := r = r' /\ batched r'.

Lemma agree_refl {A} (r : res A) : batched r -> agree r r.
Proof. intros H; split; [reflexivity|exact H]. Qed.

Lemma agree_bind {A B} (r r' : res A) (k k' : A -> state -> res B) :
  agree r r' -> (forall a s, batching s = true -> agree (k a s) (k' a s)) ->
  agree (bind_res r k) (bind_res r' k').
Proof.
  intros [-> Hb] Hk. destruct r' as [a s|e s]; cbn in *; [apply Hk, Hb|split; [reflexivity|exact I]].
Qed.

Lemma read_batching t en x s v s' : read t en x s = Ok v s' -> batching s' = batching s.
Proof.
  unfold read. destruct (lookup_env x en) as [[id|c]|]; try discriminate.
  assert (Ht : batching (if t then track id s else s) = batching s).
  { destruct t; [|reflexivity]. unfold track. destruct (tracker s); reflexivity. }
  destruct (nodes (if t then track id s else s) !! id) as [nd|]; [|discriminate].
  destruct (n_value nd); [|discriminate]. intros H; inversion H; subst. cbn. exact Ht.
Qed.

Lemma eval_batching en e : forall s v s', eval en e s = Ok v s' -> batching s' = batching s.
Proof.
  induction e; intros s v s' H; cbn [eval] in H;
    try (destruct (eval en e1 s) as [va s1|? ?] eqn:E1; cbn [bind_res] in H; [|discriminate];
         destruct (eval en e2 s1) as [vb s2|? ?] eqn:E2; cbn [bind_res] in H; [|discriminate];
         inversion H; subst; rewrite (IHe2 _ _ _ E2); apply (IHe1 _ _ _ E1)).
  - inversion H; subst; reflexivity.
  - eapply read_batching; eassumption.
  - eapply read_batching; eassumption.
  - destruct (eval en e s) as [va s1|? ?] eqn:E1; cbn [bind_res] in H; [|discriminate].
    inversion H; subst. apply (IHe _ _ _ E1).
  - destruct (eval en e1 s) as [vc s1|? ?] eqn:E1; cbn [bind_res] in H; [|discriminate].
    destruct (vc =? 0); [rewrite (IHe3 _ _ _ H)|rewrite (IHe2 _ _ _ H)]; apply (IHe1 _ _ _ E1).
  - destruct (lookup_env x en) as [[id|c]|]; try discriminate. inversion H; subst; reflexivity.
  - destruct (lookup_env c en) as [[id|k]|]; try discriminate. destruct (cells s !! k); [|discriminate].
    inversion H; subst; reflexivity.
Qed.

Lemma eval_batched en e s : batching s = true -> batched (eval en e s).
Proof. intros Hb. destruct (eval en e s) as [v s'|] eqn:E; [|exact I]. cbn. rewrite (eval_batching _ _ _ _ _ E). exact Hb. Qed.

Lemma create_empty_batching fx s id s' : create_empty fx s = Ok id s' -> batching s' = batching s.
Proof.
  unfold create_empty. destruct (current s) as [c|].
  - match goal with |- context [if ?b then _ else _] => destruct b end.
    + intros H; inversion H; subst; reflexivity.
    + destruct fx; [|discriminate]. intros H; inversion H; subst; reflexivity.
  - intros H; inversion H; subst; reflexivity.
Qed.

Lemma create_empty_batched fx s : batching s = true -> batched (create_empty fx s).
Proof. intros Hb. destruct (create_empty fx s) as [v s'|] eqn:E; [|exact I]. cbn. rewrite (create_empty_batching _ _ _ _ E). exact Hb. Qed.

Lemma update_silent_batching id v s u s' : update_silent id v s = Ok u s' -> batching s' = batching s.
Proof.
  unfold update_silent. destruct (nodes s !! id) as [nd|]; [|discriminate]. destruct (n_value nd); [|discriminate].
  intros H; inversion H; subst; reflexivity.
Qed.

Lemma update_silent_batched id v s : batching s = true -> batched (update_silent id v s).
Proof. intros Hb. destruct (update_silent id v s) as [u s'|] eqn:E; [|exact I]. cbn. rewrite (update_silent_batching _ _ _ _ _ E). exact Hb. Qed.

Lemma push_dependents_batching fx n : forall ts s u s', push_dependents fx n ts s = Ok u s' -> batching s' = batching s.
Proof.
  induction ts as [|d r IH]; intros s u s' H; cbn [push_dependents] in H.
  - inversion H; subst; reflexivity.
  - destruct (alive d s).
    + rewrite (IH _ _ _ H). reflexivity.
    + destruct fx; [|discriminate]. apply (IH _ _ _ H).
Qed.

Lemma link_batching fx n ts s u s' : link fx n ts s = Ok u s' -> batching s' = batching s.
Proof.
  unfold link. destruct (push_dependents fx n ts s) as [[] s1|] eqn:E; cbn [bind_res]; [|discriminate].
  pose proof (push_dependents_batching _ _ _ _ _ _ E) as H1.
  destruct (alive n s1).
  - intros H; inversion H; subst. cbn. exact H1.
  - destruct fx; [|discriminate]. intros H; inversion H; subst. exact H1.
Qed.

Lemma link_batched fx n ts s : batching s = true -> batched (link fx n ts s).
Proof. intros Hb. destruct (link fx n ts s) as [u s'|] eqn:E; [|exact I]. cbn. rewrite (link_batching _ _ _ _ _ _ E). exact Hb. Qed.

Lemma provide_batching fx ty v s u s' : provide fx ty v s = Ok u s' -> batching s' = batching s.
Proof.
  unfold provide. destruct (current s) as [c|].
  - destruct (nodes s !! c) as [nd|].
    + match goal with |- context [if ?b then _ else _] => destruct b end; [discriminate|].
      intros H; inversion H; subst; reflexivity.
    + destruct fx; [|discriminate]. intros H; inversion H; subst; reflexivity.
  - destruct fx; [|discriminate]. intros H; inversion H; subst; reflexivity.
Qed.

Lemma provide_batched fx ty v s : batching s = true -> batched (provide fx ty v s).
Proof. intros Hb. destruct (provide fx ty v s) as [u s'|] eqn:E; [|exact I]. cbn. rewrite (provide_batching _ _ _ _ _ _ E). exact Hb. Qed.

Lemma use_ctx_from_same fx g : forall ty id first s r s', use_ctx_from fx g ty id first s = Ok r s' -> s' = s.
Proof.
  intros ty id first s r s' H. pose proof (use_ctx_from_st fx g ty id first s) as E. rewrite H in E. exact E.
Qed.

Lemma try_use_context_same fx ty s r s' : try_use_context fx ty s = Ok r s' -> s' = s.
Proof.
  unfold try_use_context. destruct (current s) as [c|].
  - destruct (fx && negb (alive c s)); [intros H; inversion H; reflexivity|apply use_ctx_from_same].
  - destruct fx; [|discriminate]. intros H; inversion H; reflexivity.
Qed.

Lemma try_use_context_batched fx ty s : batching s = true -> batched (try_use_context fx ty s).
Proof. intros Hb. destruct (try_use_context fx ty s) as [u s'|] eqn:E; [|exact I]. cbn. rewrite (try_use_context_same _ _ _ _ _ E). exact Hb. Qed.

Lemma batching_foldr_upd (g : nat -> node -> node) l s :
  batching (foldr (fun d acc => upd d (g d) acc) s l) = batching s.
Proof. induction l as [|d l IH]; cbn [foldr]; [reflexivity|]. exact IH. Qed.

Lemma unsubscribe_batching fx id s : batching (unsubscribe fx id s) = batching s.
Proof.
  unfold unsubscribe. destruct fx; [|reflexivity]. destruct (nodes s !! id) as [this|]; [|reflexivity].
  rewrite batching_foldr_upd. reflexivity.
Qed.

Lemma on_track_batching c deps : forall (a : option state) s1,
  fold_left (fun (r : option state) x =>
     match r with
     | Some s => match lookup_env x (c_env c) with
                 | Some (BNode id) => Some (emit (EvTrack x) (track id s))
                 | _ => None
                 end
     | None => None
     end) deps a = Some s1 ->
  exists s0, a = Some s0 /\ batching s1 = batching s0.
Proof.
  induction deps as [|x deps IH]; intros a s1 H; cbn [fold_left] in H; [eauto|].
  destruct (IH _ _ H) as [s0 [H0 Hb]]. destruct a as [s|]; [|discriminate].
  destruct (lookup_env x (c_env c)) as [[id|k]|]; try discriminate.
  inversion H0; subst. eexists; split; [reflexivity|]. rewrite Hb. cbn.
  unfold track. destruct (tracker s); reflexivity.
Qed.

(* ---------------------------------------------------------------------------------- *)
(* while batching, the full interpreter is the interpreter without propagation *)

Definition agree_at (f : nat) : Prop :=
  (forall en ss s, batching s = true -> agree (exec true f en ss s) (bexec f en ss s)) /\
  (forall en st s, batching s = true -> agree (exec1 true f en st s) (bexec1 f en st s)) /\
  (forall c s, batching s = true -> agree (run_body true f c s) (brun_body f c s)) /\
  (forall en x k b s, batching s = true ->
     agree (create_computation true f en x k b s) (bcreate_computation f en x k b s)) /\
  (forall id s, batching s = true -> agree (dispose true f id s) (bdispose f id s)) /\
  (forall id s, batching s = true -> agree (dispose_children true f id s) (bdispose_children f id s)) /\
  (forall cs s, batching s = true -> agree (run_cleanups true f cs s) (brun_cleanups f cs s)) /\
  (forall ids s, batching s = true -> agree (dispose_list true f ids s) (bdispose_list f ids s)).

Ltac ab := apply agree_bind; [|intros ? ? ?].
Ltac aok := split; [reflexivity|cbn; try rewrite batching_foldr_upd; cbn; assumption].
Ltac aerr := split; [reflexivity|exact I].

Lemma agree_all : forall f, agree_at f.
Proof.
  induction f as [|f IH].
  { repeat split. }
  destruct IH as (Hexec & Hexec1 & Hbody & Hcc & Hdisp & Hdc & Hrc & Hdl).
  unfold agree_at. repeat apply conj.
  - (* exec *)
    intros en ss s Hb. rewrite exec_S, bexec_S. destruct ss as [|st rest]; [aok|]. ab; auto.
  - (* exec1 *)
    intros en st s Hb. rewrite exec1_S, bexec1_S. destruct st.
    + ab; [apply agree_refl, eval_batched, Hb|]. ab; [apply agree_refl, create_empty_batched; assumption|]. aok.
    + apply Hcc, Hb.
    + apply Hcc, Hb.
    + apply Hcc, Hb.
    + ab; [apply agree_refl, create_empty_batched, Hb|]. cbv zeta. ab; [apply Hexec; cbn; assumption|]. aok.
    + destruct (current s); [aok|aerr].
    + ab; [apply agree_refl, eval_batched, Hb|]. destruct (lookup_env x en) as [[id|c]|]; try aerr.
      ab; [apply agree_refl, update_silent_batched; assumption|].
      destruct f as [|f]; [rewrite propagate_updates_O; cbn; aerr|].
      rewrite propagate_updates_S. match goal with H : batching ?s2 = true |- context [batching ?s2] => rewrite H end.
      cbn [bind_res]. aok.
    + ab; [apply agree_refl, eval_batched, Hb|]. destruct (lookup_env x en) as [[id|c]|]; try aerr.
      ab; [apply agree_refl, update_silent_batched; assumption|]. aok.
    + destruct (lookup_env x en) as [[id|c]|]; try aerr. ab; [apply Hdisp, Hb|]. aok.
    + cbv zeta. rewrite Hb. cbn [andb]. ab; [apply Hexec; reflexivity|]. aok.
    + cbv zeta. ab; [apply Hexec; exact Hb|]. aok.
    + cbv zeta. ab; [apply Hexec; exact Hb|]. aok.
    + destruct (current s) as [c|]; [|aok]. destruct (alive c s); [aok|].
      cbv zeta. ab; [apply Hexec; exact Hb|]. aok.
    + ab; [apply agree_refl, eval_batched, Hb|]. ab; [apply agree_refl, provide_batched; assumption|]. aok.
    + ab; [apply agree_refl, try_use_context_batched, Hb|]. aok.
    + destruct (lookup_env x en) as [[id|c]|]; try aerr. cbv zeta. ab; [apply Hexec; exact Hb|]. aok.
    + destruct (lookup_env x en) as [[id|c]|]; try aerr. split; [reflexivity|]. cbn.
      unfold track. destruct (tracker s); exact Hb.
    + ab; [apply agree_refl, eval_batched, Hb|]. ab; [apply Hexec; assumption|]. aok.
    + ab; [apply agree_refl, eval_batched, Hb|]. aok.
    + ab; [apply agree_refl, eval_batched, Hb|]. destruct (lookup_env c en) as [[id|k]|]; try aerr. aok.
    + ab; [apply agree_refl, eval_batched, Hb|]. aok.
  - (* run_body *)
    intros c s Hb. rewrite run_body_S, brun_body_S. destruct (c_body c) as [on ss ret]. cbv zeta.
    destruct on as [deps|].
    + match goal with |- context [fold_left ?g deps ?a] => destruct (fold_left g deps a) as [s1|] eqn:Ef end; [|aerr].
      destruct (on_track_batching _ _ _ _ Ef) as [s0 [E0 Hb1]]. inversion E0; subst s0. cbn in Hb1.
      ab; [apply Hexec; cbn; congruence|]. ab; [apply agree_refl, eval_batched; assumption|].
      split; [reflexivity|]. destruct (c_kind c); cbn; assumption.
    + ab; [apply Hexec; exact Hb|]. ab; [apply agree_refl, eval_batched; assumption|].
      split; [reflexivity|]. destruct (c_kind c); cbn; assumption.
  - (* create_computation *)
    intros en x k b s Hb. rewrite create_computation_S, bcreate_computation_S.
    ab; [apply agree_refl, create_empty_batched, Hb|]. cbv zeta. ab; [apply Hbody; cbn; assumption|].
    match goal with |- context [true && negb ?b] => destruct b end; cbn [andb negb]; [|aok].
    ab; [apply agree_refl, link_batched; cbn; assumption|].
    match goal with |- context [if ?b then _ else _] => destruct b end; [aok|aerr].
  - (* dispose *)
    intros id s Hb. rewrite dispose_S, bdispose_S. ab; [apply Hdc; rewrite unsubscribe_batching; exact Hb|].
    match goal with |- context [nodes ?s1 !! id] => destruct (nodes s1 !! id) as [this|] end; [|aok].
    split; [reflexivity|]. cbn. rewrite batching_foldr_upd, batching_foldr_upd. cbn. assumption.
  - (* dispose_children *)
    intros id s Hb. rewrite dispose_children_S, bdispose_children_S. destruct (nodes s !! id) as [nd|]; [|aok].
    cbv zeta. ab; [apply Hrc; exact Hb|]. ab; [apply Hdl; cbn; assumption|].
    match goal with |- context [nodes ?s4 !! id] => destruct (nodes s4 !! id) as [nd'|] end; [|aok].
    match goal with |- context [if ?b then _ else _] => destruct b end; [apply Hdc; assumption|aok].
  - (* run_cleanups *)
    intros cs s Hb. rewrite run_cleanups_S, brun_cleanups_S. destruct cs as [|c r]; [aok|].
    ab; [apply Hexec; exact Hb|]. apply Hrc; assumption.
  - (* dispose_list *)
    intros ids s Hb. rewrite dispose_list_S, bdispose_list_S. destruct ids as [|i r]; [aok|].
    ab; [apply Hdisp, Hb|]. apply Hdl; assumption.
Qed.
