(* Async/ResourceSus.v -- a Resource (Async/Resource.v) created and read, by an effect, under a suspense boundary: the
   bookkeeping of resource.rs that keeps the boundary's task counter (SuspenseScope.tasks_remaining) up:
     - every fetch task holds one guard while it is pending (create_suspense_task); an aborted fetch releases it when the
       executor drops the cancelled task;
     - a read while loading (Resource::deref) pushes a guard into `guards`; a read while not loading registers the boundary
       in `scopes`;
     - a refetch turns every registered scope into a guard (`scopes.take()`), and is_loading.set(true) re-runs the reader
       (it subscribes to is_loading through deref), which reads while loading: one more guard;
     - the completion of the latest fetch clears `guards` inside its batch; the reader re-runs after the batch (not loading:
       registers the scope); the finished task drops its own guard.
   The boundary reports loading iff the counter is positive. Definitions only. *)
From Coq Require Import List ZArith Bool String Arith.
From Syc Require Import Common.Show Async.Resource.
Import ListNotations.

Record sstate := SState {
  s_res : rstate;
  s_counter : nat;       (* tasks_remaining of the boundary *)
  s_guards : nat;        (* length of Resource.guards *)
  s_scopes : nat }.      (* length of Resource.scopes *)

(* creation under the boundary: the fetch task's guard, then the reader's first read (loading): one guard *)
Definition sinit : sstate := SState rinit 2 1 0.

Definition latest_live (s : rstate) : bool :=
  match rev (r_fetches s) with (_, b) :: _ => b | [] => false end.

Definition sstep_fn (s : sstate) (e : rstep) : sstate :=
  let r := s_res s in
  match e with
  | RWrite _ =>
      let released := if latest_live r then 1 else 0 in          (* the superseded fetch is aborted: its task guard goes *)
      SState (rstep_fn r e)
             (s_counter s - released + 1 + s_scopes s + 1)        (* reader re-reads while loading; scopes -> guards; new task *)
             (s_guards s + 1 + s_scopes s) 0
  | RComplete k =>
      match nth_error (r_fetches r) k with
      | Some (_, true) =>
          SState (rstep_fn r e) (s_counter s - s_guards s - 1) 0 (s_scopes s + 1)
      | _ => SState (rstep_fn r e) (s_counter s) (s_guards s) (s_scopes s)
      end
  end.

Definition srun (es : list rstep) : sstate := fold_left sstep_fn es sinit.
Definition sus_loading (s : sstate) : bool := Nat.ltb 0 (s_counter s).

Open Scope string_scope.
Definition show_sstate (s : sstate) : string :=
  String.concat "" [show_rstate (s_res s); " sus="; show_bool (sus_loading s)].
Fixpoint strace (s : sstate) (es : list rstep) : list string :=
  match es with
  | [] => []
  | e :: r => let s' := sstep_fn s e in show_sstate s' :: strace s' r
  end.
Definition run_resource_sus (es : list rstep) : string := lines (show_sstate sinit :: strace sinit es).
Definition run_resources_sus (l : list (list rstep)) : string :=
  join (String.concat "" [nl; "=="; nl]) (map run_resource_sus l).
