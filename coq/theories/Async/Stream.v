(* Async/Stream.v -- the rendering half of C13: views made of static content, Suspense boundaries and async
   components gated on a completion event, rendered in the three SSR modes of sycamore-web
   (packages/sycamore-web/src/suspense.rs, node/ssr_render.rs): sync (fallbacks only), blocking
   (render_to_string_await_suspense: returns when no boundary has a pending task) and streaming
   (render_to_string_stream: the shell, then one fragment per boundary once it is no longer loading and its
   parent has been sent; the inline script replaces the fallback between the boundary's markers).
   Observations are abstract: boundary ids instead of suspense keys, documents as trees with holes instead of
   bytes (tools/susrender.py extracts the same observations from the real output). Definitions only. *)
From Coq Require Import List Arith Bool String.
From Syc Require Import Common.Show.
Import ListNotations.
Open Scope string_scope.
Open Scope list_scope.

Inductive sview :=
| SText (s : string)
| SEl (tag : string) (ch : list sview)
| SSus (id : nat) (fb : string) (ch : list sview)     (* Suspense(fallback = text fb) { ch } *)
| SAsync (g : nat) (res : list sview).                (* async component: awaits gate g, then returns res *)

Definition fired (F : list nat) (g : nat) : bool := existsb (Nat.eqb g) F.

(* number of unresolved async components reachable without crossing a boundary: tasks_remaining *)
Fixpoint pending (F : list nat) (v : sview) : nat :=
  match v with
  | SText _ => 0
  | SEl _ ch => (fix go l := match l with [] => 0 | x :: r => pending F x + go r end) ch
  | SSus _ _ _ => 0
  | SAsync g res =>
      if fired F g then (fix go l := match l with [] => 0 | x :: r => pending F x + go r end) res else 1
  end.
Definition pending_list (F : list nat) (l : list sview) : nat :=
  (fix go l := match l with [] => 0 | x :: r => pending F x + go r end) l.

(* the boundaries that exist (their enclosing async components have resolved), in creation (pre-)order:
   id, enclosing boundary, own pending count *)
Fixpoint boundaries (F : list nat) (parent : option nat) (v : sview) : list (nat * option nat * nat) :=
  match v with
  | SText _ => []
  | SEl _ ch => (fix go l := match l with [] => [] | x :: r => boundaries F parent x ++ go r end) ch
  | SSus id _ ch =>
      (id, parent, pending_list F ch)
      :: (fix go l := match l with [] => [] | x :: r => boundaries F (Some id) x ++ go r end) ch
  | SAsync g res =>
      if fired F g then (fix go l := match l with [] => [] | x :: r => boundaries F parent x ++ go r end) res else []
  end.
Definition boundaries_list (F : list nat) (parent : option nat) (l : list sview) :=
  (fix go l := match l with [] => [] | x :: r => boundaries F parent x ++ go r end) l.

(* documents: trees with holes (a boundary showing its fallback between its markers) *)
Inductive doc := DText (s : string) | DEl (tag : string) (ch : list doc) | DHole (id : nat) (fb : string).

(* what a view currently renders to, boundaries as holes *)
Fixpoint content (F : list nat) (v : sview) : list doc :=
  match v with
  | SText s => [DText s]
  | SEl t ch => [DEl t ((fix go l := match l with [] => [] | x :: r => content F x ++ go r end) ch)]
  | SSus id fb _ => [DHole id fb]
  | SAsync g res => if fired F g then (fix go l := match l with [] => [] | x :: r => content F x ++ go r end) res else []
  end.
Definition content_list (F : list nat) (l : list sview) : list doc :=
  (fix go l := match l with [] => [] | x :: r => content F x ++ go r end) l.

(* blocking mode: boundaries render their children, never the fallback *)
Fixpoint deep (F : list nat) (v : sview) : list doc :=
  match v with
  | SText s => [DText s]
  | SEl t ch => [DEl t ((fix go l := match l with [] => [] | x :: r => deep F x ++ go r end) ch)]
  | SSus _ _ ch => (fix go l := match l with [] => [] | x :: r => deep F x ++ go r end) ch
  | SAsync g res => if fired F g then (fix go l := match l with [] => [] | x :: r => deep F x ++ go r end) res else []
  end.
Definition deep_list (F : list nat) (l : list sview) : list doc :=
  (fix go l := match l with [] => [] | x :: r => deep F x ++ go r end) l.

(* everything resolved *)
Fixpoint full (v : sview) : list doc :=
  match v with
  | SText s => [DText s]
  | SEl t ch => [DEl t ((fix go l := match l with [] => [] | x :: r => full x ++ go r end) ch)]
  | SSus _ _ ch => (fix go l := match l with [] => [] | x :: r => full x ++ go r end) ch
  | SAsync _ res => (fix go l := match l with [] => [] | x :: r => full x ++ go r end) res
  end.
Definition full_list (l : list sview) : list doc := (fix go l := match l with [] => [] | x :: r => full x ++ go r end) l.

(* the children of boundary [id], if it exists *)
Fixpoint find_sus (F : list nat) (id : nat) (v : sview) : option (list sview) :=
  match v with
  | SText _ => None
  | SEl _ ch => (fix go l := match l with [] => None | x :: r => match find_sus F id x with Some c => Some c | None => go r end end) ch
  | SSus i _ ch =>
      if Nat.eqb i id then Some ch
      else (fix go l := match l with [] => None | x :: r => match find_sus F id x with Some c => Some c | None => go r end end) ch
  | SAsync g res =>
      if fired F g then (fix go l := match l with [] => None | x :: r => match find_sus F id x with Some c => Some c | None => go r end end) res
      else None
  end.
Definition find_sus_list (F : list nat) (id : nat) (l : list sview) : option (list sview) :=
  (fix go l := match l with [] => None | x :: r => match find_sus F id x with Some c => Some c | None => go r end end) l.

(* the inline script: replace the hole of boundary [id] by the fragment; None = the markers are not in the document *)
Fixpoint has_hole (id : nat) (d : doc) : bool :=
  match d with
  | DText _ => false
  | DEl _ ch => existsb (has_hole id) ch
  | DHole i _ => Nat.eqb i id
  end.
Fixpoint subst (id : nat) (frag : list doc) (d : doc) : list doc :=
  match d with
  | DText s => [DText s]
  | DEl t ch => [DEl t (flat_map (subst id frag) ch)]
  | DHole i fb => if Nat.eqb i id then frag else [DHole i fb]
  end.
Definition apply_fragment (d : list doc) (id : nat) (frag : list doc) : option (list doc) :=
  if existsb (has_hole id) d then Some (flat_map (subst id frag) d) else None.

(* ---- blocking ---- *)
Definition global_pending (F : list nat) (vs : list sview) : nat :=
  fold_right (fun b acc => snd b + acc) 0 (boundaries_list F None vs).

(* first step (number of gates opened) at which the blocking render returns *)
Fixpoint blocking_step (vs : list sview) (F : list nat) (rest : list nat) (k : nat) : option nat :=
  if Nat.eqb (global_pending F vs) 0 then Some k
  else match rest with
       | [] => None
       | g :: r => blocking_step vs (F ++ [g]) r (S k)
       end.
Definition blocking_fired (sched : list nat) (k : nat) : list nat := firstn k sched.

(* ---- streaming ---- *)
Record sstate := SState { s_fired : list nat; s_sent : list nat; s_doc : option (list doc) }.

Definition memn (x : nat) (l : list nat) : bool := existsb (Nat.eqb x) l.
Definition lookup_loading (l : list (nat * bool)) (id : nat) : bool :=
  match find (fun p => Nat.eqb (fst p) id) l with Some p => snd p | None => false end.

(* one pass over the boundaries in creation order: emit every boundary that is not loading, not yet sent and
   whose parent has been sent *)
Definition emit_pass (vs : list sview) (st : sstate) : sstate * list nat :=
  let F := s_fired st in
  let '(st', _, out) :=
    fold_left (fun '(st, loads, out) '(id, parent, pend) =>
                 let ld := Nat.ltb 0 pend || match parent with Some p => lookup_loading loads p | None => false end in
                 let loads' := (id, ld) :: loads in
                 let parent_sent := match parent with Some p => memn p (s_sent st) | None => true end in
                 if negb ld && negb (memn id (s_sent st)) && parent_sent then
                   let frag := match find_sus_list F id vs with Some ch => content_list F ch | None => [] end in
                   let d' := match s_doc st with Some d => apply_fragment d id frag | None => None end in
                   (SState F (s_sent st ++ [id]) d', loads', out ++ [id])
                 else (st, loads', out))
              (boundaries_list F None vs) (st, [], []) in
  (st', out).

Definition stream_init (vs : list sview) : sstate * list nat :=
  emit_pass vs (SState [] [] (Some (content_list [] vs))).
Definition stream_step (vs : list sview) (st : sstate) (g : nat) : sstate * list nat :=
  emit_pass vs (SState (s_fired st ++ [g]) (s_sent st) (s_doc st)).

Fixpoint stream_run (vs : list sview) (st : sstate) (sched : list nat) : sstate * list (list nat) :=
  match sched with
  | [] => (st, [])
  | g :: r => let '(st1, out) := stream_step vs st g in let '(st2, outs) := stream_run vs st1 r in (st2, out :: outs)
  end.

(* ---- printing ---- *)
Definition cat (l : list string) : string := String.concat "" l.
Fixpoint show_doc (d : doc) : string :=
  match d with
  | DText s => s
  | DEl t ch => cat ["<"; t; ">"; cat (map show_doc ch); "</"; t; ">"]
  | DHole _ fb => fb
  end.
Definition show_docs (l : list doc) : string := cat (map show_doc l).

Definition run_render (vs : list sview) (sched : list nat) : string :=
  let sync := show_docs (content_list [] vs) in
  let blk := match blocking_step vs [] sched 0 with
             | Some k => cat ["B "; show_nat k; " "; show_docs (deep_list (blocking_fired sched k) vs)]
             | None => "B never"
             end in
  let '(st0, out0) := stream_init vs in
  let '(st, outs) := stream_run vs st0 sched in
  lines [cat ["X "; sync]; blk;
         cat ["S "; join " ; " (map (fun l => join " " (map show_nat l)) (out0 :: outs))];
         cat ["D "; match s_doc st with Some d => show_docs d | None => "SCRIPT-ERROR" end]].
Definition run_render_all (l : list (list sview * list nat)) : string :=
  join (cat [nl; "=="; nl]) (map (fun '(v, s) => run_render v s) l).
