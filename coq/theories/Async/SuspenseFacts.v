(* Async/SuspenseFacts.v -- C14 (and the counter part of C13) on the transition system of Async/Suspense.v *)
From Coq Require Import List Arith Bool Lia.
From Syc Require Import Async.Suspense.
Import ListNotations.

Definition status (st : astate) (t : nat) : option tstatus :=
  match aget (progress st) t with Some (_, s) => Some s | None => None end.

Lemma aget_aset {A} (l : list (nat * A)) k v k' :
  aget (aset l k v) k' = if Nat.eqb k' k then Some v else aget l k'.
Proof.
  induction l as [|[k0 v0] r IH]; cbn.
  - destruct (Nat.eqb k' k); reflexivity.
  - destruct (Nat.eqb k k0) eqn:E.
    + apply Nat.eqb_eq in E; subst. cbn. destruct (Nat.eqb k' k0); reflexivity.
    + cbn. destruct (Nat.eqb k' k0) eqn:E2.
      * apply Nat.eqb_eq in E2; subst. rewrite Nat.eqb_sym, E. reflexivity.
      * exact IH.
Qed.

Lemma drop_guard_progress fx st ti : progress (fst (drop_guard fx st ti)) = progress st.
Proof.
  unfold drop_guard. destruct (t_sus ti) as [s|]; [|reflexivity].
  destruct (counter_alive st s); [reflexivity|]. destruct fx; reflexivity.
Qed.

(* with the fix, dropping a guard never panics *)
Lemma drop_guard_no_panic st ti : ~ In EvPanic (snd (drop_guard true st ti)).
Proof.
  unfold drop_guard. destruct (t_sus ti) as [s|]; [|intros []].
  destruct (counter_alive st s); intros [].
Qed.

Definition mentions (t : nat) (e : aev) : bool :=
  match e with EvPoll t' _ | EvDone t' => Nat.eqb t t' | EvPanic => false end.

Lemma drop_guard_mentions fx st ti t : existsb (mentions t) (snd (drop_guard fx st ti)) = false.
Proof.
  unfold drop_guard. destruct (t_sus ti) as [s|]; [|reflexivity].
  destruct (counter_alive st s); [reflexivity|]. destruct fx; reflexivity.
Qed.

(* ---- step_go ---- *)
Lemma step_go_status fx st t t' x :
  status st t' = Some x -> x <> Pending -> status (fst (step_go fx st t)) t' = Some x.
Proof.
  intros Hs Hx. unfold step_go.
  destruct (task_of st t) as [ti|]; [|exact Hs].
  destruct (aget (progress st) t) as [[i [| |]]|] eqn:E; try exact Hs.
  assert (Hne : t' <> t).
  { intros ->. unfold status in Hs. rewrite E in Hs. inversion Hs; subst. contradiction. }
  destruct (Nat.ltb (S i) (t_gates ti)).
  - cbn. unfold status. cbn. rewrite aget_aset. destruct (Nat.eqb_spec t' t); [contradiction|exact Hs].
  - destruct (drop_guard fx (set_progress st t (S i, Finished)) ti) as [st2 lg2] eqn:Ed. cbn.
    unfold status. replace (progress st2) with (progress (fst (drop_guard fx (set_progress st t (S i, Finished)) ti))) by (rewrite Ed; reflexivity).
    rewrite drop_guard_progress. cbn. rewrite aget_aset. destruct (Nat.eqb_spec t' t); [contradiction|exact Hs].
Qed.

Lemma step_go_events fx st t t' :
  existsb (mentions t') (snd (step_go fx st t)) = true -> status st t' = Some Pending.
Proof.
  unfold step_go. destruct (task_of st t) as [ti|]; [|discriminate].
  destruct (aget (progress st) t) as [[i [| |]]|] eqn:E; try discriminate.
  destruct (Nat.eqb_spec t' t) as [->|Hne]; [intros _; unfold status; rewrite E; reflexivity|].
  assert (Hf : Nat.eqb t' t = false) by (apply Nat.eqb_neq; exact Hne).
  destruct (Nat.ltb (S i) (t_gates ti)).
  - cbn. rewrite Hf. discriminate.
  - destruct (drop_guard fx (set_progress st t (S i, Finished)) ti) as [st2 lg2] eqn:Ed. cbn. rewrite Hf. cbn.
    pose proof (drop_guard_mentions fx (set_progress st t (S i, Finished)) ti t') as Hd. rewrite Ed in Hd. cbn in Hd.
    rewrite Hd. discriminate.
Qed.

Lemma step_go_no_panic st t : ~ In EvPanic (snd (step_go true st t)).
Proof.
  unfold step_go. destruct (task_of st t) as [ti|]; [|intros []].
  destruct (aget (progress st) t) as [[i [| |]]|]; try (intros []).
  destruct (Nat.ltb (S i) (t_gates ti)).
  - cbn. intros [H|[H|[]]]; discriminate.
  - destruct (drop_guard true (set_progress st t (S i, Finished)) ti) as [st2 lg2] eqn:Ed. cbn.
    intros [H|[H|H]]; try discriminate.
    pose proof (drop_guard_no_panic (set_progress st t (S i, Finished)) ti) as Hd. rewrite Ed in Hd. exact (Hd H).
Qed.

(* ---- cancel_tasks ---- *)
Section Cancel.
Variables (fx : bool) (doomed : task_info -> bool).

Notation cancel_one := (Suspense.cancel_one fx doomed).

Lemma cancel_tasks_fold st : cancel_tasks fx st doomed = fold_left cancel_one (tasks st) (st, []).
Proof. reflexivity. Qed.

Lemma cancel_one_status acc ti t x :
  status (fst acc) t = Some x -> x <> Pending -> status (fst (cancel_one acc ti)) t = Some x.
Proof.
  destruct acc as [st lg]. cbn [fst]. intros Hs Hx. unfold cancel_one.
  destruct (aget (progress st) (t_id ti)) as [[i [| |]]|] eqn:E; try exact Hs.
  destruct (doomed ti); [|exact Hs].
  destruct (drop_guard fx (set_progress st (t_id ti) (i, Cancelled)) ti) as [st2 lg2] eqn:Ed. cbn.
  unfold status. replace (progress st2) with (progress (fst (drop_guard fx (set_progress st (t_id ti) (i, Cancelled)) ti))) by (rewrite Ed; reflexivity).
  rewrite drop_guard_progress. cbn. rewrite aget_aset.
  destruct (Nat.eqb_spec t (t_id ti)) as [->|Hne]; [|exact Hs].
  unfold status in Hs. rewrite E in Hs. inversion Hs; subst. contradiction.
Qed.

Lemma cancel_one_mentions acc ti t :
  existsb (mentions t) (snd acc) = false -> existsb (mentions t) (snd (cancel_one acc ti)) = false.
Proof.
  destruct acc as [st lg]. cbn [snd]. intros Hl. unfold cancel_one.
  destruct (aget (progress st) (t_id ti)) as [[i [| |]]|]; try exact Hl.
  destruct (doomed ti); [|exact Hl].
  destruct (drop_guard fx (set_progress st (t_id ti) (i, Cancelled)) ti) as [st2 lg2] eqn:Ed. cbn.
  rewrite existsb_app, Hl. pose proof (drop_guard_mentions fx (set_progress st (t_id ti) (i, Cancelled)) ti t) as Hd.
  rewrite Ed in Hd. exact Hd.
Qed.

Lemma fold_cancel_status l : forall acc t x,
  status (fst acc) t = Some x -> x <> Pending -> status (fst (fold_left cancel_one l acc)) t = Some x.
Proof.
  induction l as [|ti l IH]; intros acc t x Hs Hx; cbn; [exact Hs|]. apply IH; [|exact Hx].
  apply cancel_one_status; assumption.
Qed.

Lemma fold_cancel_mentions l : forall acc t,
  existsb (mentions t) (snd acc) = false -> existsb (mentions t) (snd (fold_left cancel_one l acc)) = false.
Proof.
  induction l as [|ti l IH]; intros acc t H; cbn; [exact H|]. apply IH. apply cancel_one_mentions. exact H.
Qed.

(* a doomed pending task ends up cancelled (task ids are unique) *)
Lemma cancel_one_keeps_pending acc ti t :
  t <> t_id ti -> status (fst (cancel_one acc ti)) t = status (fst acc) t.
Proof.
  destruct acc as [st lg]. cbn [fst]. intros Hne. unfold cancel_one.
  destruct (aget (progress st) (t_id ti)) as [[i [| |]]|]; try reflexivity.
  destruct (doomed ti); [|reflexivity].
  destruct (drop_guard fx (set_progress st (t_id ti) (i, Cancelled)) ti) as [st2 lg2] eqn:Ed. cbn.
  unfold status. replace (progress st2) with (progress (fst (drop_guard fx (set_progress st (t_id ti) (i, Cancelled)) ti))) by (rewrite Ed; reflexivity).
  rewrite drop_guard_progress. cbn. rewrite aget_aset. destruct (Nat.eqb_spec t (t_id ti)); [contradiction|reflexivity].
Qed.

Lemma cancel_one_cancels acc ti :
  status (fst acc) (t_id ti) = Some Pending -> doomed ti = true -> status (fst (cancel_one acc ti)) (t_id ti) = Some Cancelled.
Proof.
  destruct acc as [st lg]. cbn [fst]. intros Hs Hd. unfold cancel_one. unfold status in Hs.
  destruct (aget (progress st) (t_id ti)) as [[i s]|] eqn:E; [|discriminate]. inversion Hs; subst. rewrite Hd.
  destruct (drop_guard fx (set_progress st (t_id ti) (i, Cancelled)) ti) as [st2 lg2] eqn:Ed. cbn.
  unfold status. replace (progress st2) with (progress (fst (drop_guard fx (set_progress st (t_id ti) (i, Cancelled)) ti))) by (rewrite Ed; reflexivity).
  rewrite drop_guard_progress. cbn. rewrite aget_aset, Nat.eqb_refl. reflexivity.
Qed.

Lemma fold_cancel_cancels l : forall acc ti,
  NoDup (map t_id l) -> In ti l -> status (fst acc) (t_id ti) = Some Pending -> doomed ti = true ->
  status (fst (fold_left cancel_one l acc)) (t_id ti) = Some Cancelled.
Proof.
  induction l as [|x l IH]; intros acc ti Hnd Hin Hs Hd; [destruct Hin|].
  cbn in Hnd. inversion Hnd as [|? ? Hx Hnd']; subst. cbn. destruct Hin as [->|Hin].
  - apply fold_cancel_status; [|discriminate]. apply cancel_one_cancels; assumption.
  - apply IH; try assumption.
    rewrite cancel_one_keeps_pending; [exact Hs|].
    intros Heq. apply Hx. rewrite <- Heq. apply in_map. exact Hin.
Qed.
End Cancel.

Lemma fold_cancel_no_panic doomed l : forall acc,
  ~ In EvPanic (snd acc) -> ~ In EvPanic (snd (fold_left (Suspense.cancel_one true doomed) l acc)).
Proof.
  induction l as [|ti l IH]; intros acc H; cbn; [exact H|]. apply IH.
  destruct acc as [st lg]. cbn in *. unfold cancel_one.
  destruct (aget (progress st) (t_id ti)) as [[i [| |]]|]; try exact H.
  destruct (doomed ti); [|exact H].
  destruct (drop_guard true (set_progress st (t_id ti) (i, Cancelled)) ti) as [st2 lg2] eqn:Ed. cbn.
  intros Hin. apply in_app_or in Hin as [Hin|Hin]; [exact (H Hin)|].
  pose proof (drop_guard_no_panic (set_progress st (t_id ti) (i, Cancelled)) ti) as Hd. rewrite Ed in Hd. exact (Hd Hin).
Qed.

(* ---- whole steps ---- *)
Lemma step_status fx st s t x :
  status st t = Some x -> x <> Pending -> status (fst (step fx st s)) t = Some x.
Proof.
  intros Hs Hx. destruct s as [t0|id]; cbn [step].
  - apply step_go_status; assumption.
  - unfold step_dispose. destruct (mem id (alive st)); [|exact Hs].
    rewrite cancel_tasks_fold. apply fold_cancel_status; [exact Hs|exact Hx].
Qed.

Lemma step_events fx st s t :
  existsb (mentions t) (snd (step fx st s)) = true -> status st t = Some Pending.
Proof.
  destruct s as [t0|id]; cbn [step].
  - apply step_go_events.
  - unfold step_dispose. destruct (mem id (alive st)); [|discriminate].
    rewrite cancel_tasks_fold. intros H.
    rewrite (fold_cancel_mentions fx _ (tasks st) _ t) in H by reflexivity. discriminate.
Qed.

Lemma step_no_panic st s : ~ In EvPanic (snd (step true st s)).
Proof.
  destruct s as [t0|id]; cbn [step]; [apply step_go_no_panic|].
  unfold step_dispose. destruct (mem id (alive st)); [|intros []].
  rewrite cancel_tasks_fold. apply fold_cancel_no_panic. intros [].
Qed.

Lemma step_end_no_panic st : ~ In EvPanic (snd (step_end true st)).
Proof. unfold step_end. rewrite cancel_tasks_fold. apply fold_cancel_no_panic. intros []. Qed.

(* all events of a schedule *)
Fixpoint trace (fx : bool) (st : astate) (ss : list astep) : list aev :=
  match ss with
  | [] => snd (step_end fx st)
  | s :: rest => let '(st', lg) := step fx st s in lg ++ trace fx st' rest
  end.

(* a task that is no longer pending is never polled again, whatever happens afterwards *)
Theorem never_polled_again fx ss : forall st t x,
  status st t = Some x -> x <> Pending -> existsb (mentions t) (trace fx st ss) = false.
Proof.
  induction ss as [|s rest IH]; intros st t x Hs Hx; cbn [trace].
  - unfold step_end. rewrite cancel_tasks_fold. apply fold_cancel_mentions. reflexivity.
  - destruct (step fx st s) as [st' lg] eqn:E. rewrite existsb_app.
    assert (Hl : existsb (mentions t) lg = false).
    { destruct (existsb (mentions t) lg) eqn:El; [|reflexivity].
      pose proof (step_events fx st s t) as H. rewrite E in H. cbn in H. specialize (H El). congruence. }
    rewrite Hl. cbn. apply (IH st' t x); [|exact Hx].
    pose proof (step_status fx st s t x Hs Hx) as H. rewrite E in H. exact H.
Qed.

(* disposing a scope cancels every pending task spawned under it ... *)
Theorem dispose_cancels fx st id ti :
  mem id (alive st) = true -> NoDup (map t_id (tasks st)) -> In ti (tasks st) ->
  status st (t_id ti) = Some Pending ->
  in_subtree (S (length (scopes st))) st id (t_owner ti) = true ->
  status (fst (step fx st (DisposeS id))) (t_id ti) = Some Cancelled.
Proof.
  intros Ha Hnd Hin Hs Hsub. cbn [step]. unfold step_dispose. rewrite Ha.
  rewrite cancel_tasks_fold. apply fold_cancel_cancels; assumption.
Qed.

(* ... and such a task is never polled after that, for any continuation of the schedule *)
Theorem no_poll_after_dispose fx st id ti ss :
  mem id (alive st) = true -> NoDup (map t_id (tasks st)) -> In ti (tasks st) ->
  status st (t_id ti) = Some Pending ->
  in_subtree (S (length (scopes st))) st id (t_owner ti) = true ->
  existsb (mentions (t_id ti)) (trace fx (fst (step fx st (DisposeS id))) ss) = false.
Proof.
  intros Ha Hnd Hin Hs Hsub. eapply never_polled_again; [eapply dispose_cancels; eassumption|discriminate].
Qed.

(* with the fix, no step of any schedule panics: neither at disposal, nor when cancelled tasks are dropped, nor at the end *)
Theorem no_panic ss : forall st, ~ In EvPanic (trace true st ss).
Proof.
  induction ss as [|s rest IH]; intros st; cbn [trace]; [apply step_end_no_panic|].
  destruct (step true st s) as [st' lg] eqn:E. intros H. apply in_app_or in H as [H|H].
  - pose proof (step_no_panic st s) as Hn. rewrite E in Hn. exact (Hn H).
  - exact (IH st' H).
Qed.

(* as pinned, the guard drop panicked *)
Example pinned_panics :
  let '(st, _) := init [AScope 9 [ASus 1 [ATask 1 2]]] in
  In EvPanic (snd (step false st (DisposeS 9))) /\ ~ In EvPanic (snd (step true st (DisposeS 9))).
Proof. cbn. split; [left; reflexivity|intros []]. Qed.
