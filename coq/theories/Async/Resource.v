(* Async/Resource.v -- transition system of sycamore-web's Resource (resource.rs, always_refetch): the effect
   re-runs on every dependency write, which aborts the task of the previous fetch (it was spawned in the effect's
   scope) and starts a new one; a completion is applied only if its fetch is still live. Definitions only. *)
From Coq Require Import List ZArith Bool String Arith.
From Syc Require Import Common.Show.
Import ListNotations.

Record rstate := RState {
  r_value : option Z;
  r_loading : bool;
  r_fetches : list (Z * bool) }.      (* per fetch, in start order: the dependency value it was started for, still live? *)

Inductive rstep := RWrite (v : Z) | RComplete (k : nat).

Definition rinit : rstate := RState None true [(0%Z, true)].

Fixpoint set_dead (k : nat) (l : list (Z * bool)) : list (Z * bool) :=
  match l, k with
  | [], _ => []
  | (d, _) :: r, O => (d, false) :: r
  | x :: r, S k' => x :: set_dead k' r
  end.

Definition rstep_fn (s : rstate) (e : rstep) : rstate :=
  match e with
  | RWrite v => RState (r_value s) true (map (fun p => (fst p, false)) (r_fetches s) ++ [(v, true)])
  | RComplete k =>
      match nth_error (r_fetches s) k with
      | Some (d, true) => RState (Some d) false (set_dead k (r_fetches s))
      | _ => s
      end
  end.

Definition rrun (es : list rstep) : rstate := fold_left rstep_fn es rinit.

(* a feedback edge from the value to the dependency (an effect behind a selector: when the installed value ends in 7 the
   dependency is moved on to value + 1): just another write, issued right after the completion that installed the value *)
Definition feeds (d : Z) : bool := Z.eqb (Z.modulo d 10) 7.
Definition rstep_fb (s : rstate) (e : rstep) : rstate :=
  let s' := rstep_fn s e in
  match e with
  | RComplete k =>
      match nth_error (r_fetches s) k with
      | Some (d, true) => if feeds d && negb (match r_value s with Some v => Z.eqb v d | None => false end)
                          then rstep_fn s' (RWrite (d + 1)) else s'
      | _ => s'
      end
  | RWrite _ => s'
  end.

(* the fetch itself moves the dependency on (to d + 1, when d ends in 7) in its last poll, before it returns its value: the
   fetch is superseded before it can deliver, so the completion amounts to that dependency write alone *)
Definition rstep_self (s : rstate) (e : rstep) : rstate :=
  match e with
  | RComplete k =>
      match nth_error (r_fetches s) k with
      | Some (d, true) => if feeds d then rstep_fn s (RWrite (d + 1)) else rstep_fn s e
      | _ => rstep_fn s e
      end
  | RWrite _ => rstep_fn s e
  end.

Open Scope string_scope.
Definition show_rstate (s : rstate) : string :=
  String.concat "" ["value="; match r_value s with Some v => show_Z v | None => "none" end;
                    " loading="; show_bool (r_loading s); " started="; show_nat (List.length (r_fetches s))].
Fixpoint rtrace (s : rstate) (es : list rstep) : list string :=
  match es with
  | [] => []
  | e :: r => let s' := rstep_fn s e in show_rstate s' :: rtrace s' r
  end.
Definition run_resource (es : list rstep) : string := lines (show_rstate rinit :: rtrace rinit es).
Fixpoint rtrace_fb (s : rstate) (es : list rstep) : list string :=
  match es with
  | [] => []
  | e :: r => let s' := rstep_fb s e in show_rstate s' :: rtrace_fb s' r
  end.
Definition run_resource_fb (es : list rstep) : string := lines (show_rstate rinit :: rtrace_fb rinit es).
Fixpoint rtrace_self (s : rstate) (es : list rstep) : list string :=
  match es with
  | [] => []
  | e :: r => let s' := rstep_self s e in show_rstate s' :: rtrace_self s' r
  end.
Definition run_resource_self (es : list rstep) : string := lines (show_rstate rinit :: rtrace_self rinit es).
Definition run_resources_self (l : list (list rstep)) : string :=
  join (String.concat "" [nl; "=="; nl]) (map run_resource_self l).
Definition run_resources_fb (l : list (list rstep)) : string :=
  join (String.concat "" [nl; "=="; nl]) (map run_resource_fb l).
Definition run_resources (l : list (list rstep)) : string :=
  join (String.concat "" [nl; "=="; nl]) (map run_resource l).
