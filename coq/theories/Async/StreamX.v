(* Async/StreamX.v -- the view vocabulary of the suspense renders of harness/ssr-driver (tools/susrender.py) and its
   translation into the views of Async/Stream.v. The translation is a modelling decision for each construct -- stated
   here, inside the development, and exercised by the correspondence run on every generated view:
     dynamic blocks are transparent; a Transition is a boundary (on the server);
     a Resource read by a dynamic view that shows [vs] once it has a value is an async component on its gate;
     a task that sets a flag is an async component without content, and a dynamic view that shows [vs] once the flag is
     set is an async component on the same gate;
     content shown only UNTIL a resource arrives / a flag is set is an async component without content resp. nothing:
     the gates inside gate nothing that survives; a client resource shows nothing on the server.
   Definitions only. *)
From Coq Require Import List Arith Bool String.
From Syc Require Import Common.Show Async.Stream.
Import ListNotations.
Open Scope string_scope.
Open Scope list_scope.

Inductive xview :=
| XText (s : string)
| XEl (tag : string) (ch : list xview)
| XSus (id : nat) (fb : string) (ch : list xview)
| XTrans (id : nat) (fb : string) (ch : list xview)   (* Transition *)
| XAsync (g : nat) (res : list xview)
| XDyn (ch : list xview)                              (* (move || view) *)
| XResv (g : nat) (vs : list xview)                   (* resource: nothing while loading, vs afterwards *)
| XResu (g : nat) (vs : list xview)                   (* resource: vs while loading, nothing afterwards *)
| XCres (vs : list xview)                             (* client resource read on the server *)
| XLive                                               (* dynamic text "alive" that a cleanup would change *)
| XFlip (g : nat)                                     (* suspense task: sets flag g when gate g opens *)
| XWhen (g : nat) (vs : list xview)                   (* vs once flag g is set *)
| XUnless (g : nat) (vs : list xview).                (* vs until flag g is set *)

Fixpoint translate (v : xview) : list sview :=
  let tl := fix tl (l : list xview) : list sview := match l with [] => [] | x :: r => translate x ++ tl r end in
  match v with
  | XText s => [SText s]
  | XEl t ch => [SEl t (tl ch)]
  | XSus id fb ch | XTrans id fb ch => [SSus id fb (tl ch)]
  | XAsync g res | XResv g res | XWhen g res => [SAsync g (tl res)]
  | XDyn ch => tl ch
  | XResu g _ | XFlip g => [SAsync g []]
  | XCres _ | XUnless _ _ => []
  | XLive => [SText "alive"]
  end.
Definition translate_list (l : list xview) : list sview :=
  (fix tl (l : list xview) : list sview := match l with [] => [] | x :: r => translate x ++ tl r end) l.

(* the driver wraps several top-level views into one <main> element (and so does a single view that renders to
   several nodes or to none) *)
Definition wrap (l : list xview) : list sview :=
  match l, translate_list l with
  | [_], [v] => [v]
  | _, vs => [SEl "main" vs]
  end.

Definition run_render_x (l : list xview) (sched : list nat) : string := run_render (wrap l) sched.
Definition run_render_x_all (l : list (list xview * list nat)) : string :=
  join (cat [nl; "=="; nl]) (map (fun '(v, s) => run_render_x v s) l).
