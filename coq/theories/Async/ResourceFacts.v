(* Async/ResourceFacts.v -- C15: a resource holds the result of the latest fetch only *)
From Coq Require Import List ZArith Bool Arith Lia.
From Syc Require Import Async.Resource.
Import ListNotations.

(* at most the most recently started fetch is live; loading <=> it is *)
Definition rinv (s : rstate) : Prop :=
  exists older d b, r_fetches s = older ++ [(d, b)] /\ Forall (fun p => snd p = false) older /\ r_loading s = b.

Lemma rinv_init : rinv rinit.
Proof. exists [], 0%Z, true. repeat split; constructor. Qed.

Lemma set_dead_app_last older d b : set_dead (length older) (older ++ [(d, b)]) = older ++ [(d, false)].
Proof. induction older as [|[x y] r IH]; cbn; [reflexivity|]. rewrite IH. reflexivity. Qed.

Lemma nth_older_dead older (x : Z * bool) k d :
  Forall (fun p => snd p = false) older -> k < length older -> nth_error (older ++ [x]) k <> Some (d, true).
Proof.
  intros Hf Hk. rewrite nth_error_app1 by exact Hk. intros H.
  apply nth_error_In in H. rewrite Forall_forall in Hf. specialize (Hf _ H). discriminate.
Qed.

Lemma rinv_step s e : rinv s -> rinv (rstep_fn s e).
Proof.
  intros (older & d & b & Hf & Hold & Hl). destruct e as [v|k]; cbn.
  - exists (map (fun p => (fst p, false)) (r_fetches s)), v, true. repeat split.
    apply Forall_forall. intros p Hp. apply in_map_iff in Hp as (q & <- & _). reflexivity.
  - destruct (nth_error (r_fetches s) k) as [[d' [|]]|] eqn:E.
    + (* a live fetch: it can only be the last one *)
      rewrite Hf in E.
      assert (k = length older).
      { destruct (Nat.lt_trichotomy k (length older)) as [Hlt|[Heq|Hgt]]; [|exact Heq|].
        - exfalso. exact (nth_older_dead older (d, b) k d' Hold Hlt E).
        - exfalso. assert (nth_error (older ++ [(d, b)]) k = None).
          { apply nth_error_None. rewrite app_length. cbn. lia. } congruence. }
      subst k. exists older, d, false. cbn. rewrite Hf, set_dead_app_last. repeat split; assumption.
    + exists older, d, b. repeat split; assumption.
    + exists older, d, b. repeat split; assumption.
Qed.

Theorem rinv_reachable es : rinv (rrun es).
Proof.
  unfold rrun. generalize rinit rinv_init. induction es as [|e es IH]; intros s Hs; cbn; [exact Hs|].
  apply IH. apply rinv_step. exact Hs.
Qed.

(* is_loading is true exactly while the latest fetch is outstanding *)
Theorem loading_iff_latest_outstanding es :
  exists older d, r_fetches (rrun es) = older ++ [(d, r_loading (rrun es))] /\ Forall (fun p => snd p = false) older.
Proof. destruct (rinv_reachable es) as (older & d & b & Hf & Hold & Hl). exists older, d. rewrite Hl. split; assumption. Qed.

(* a completion of anything but the latest live fetch changes nothing *)
Theorem stale_completion_ignored es k older d b :
  r_fetches (rrun es) = older ++ [(d, b)] -> k <> length older -> rstep_fn (rrun es) (RComplete k) = rrun es.
Proof.
  intros Hf Hk. destruct (rinv_reachable es) as (older' & d' & b' & Hf' & Hold & _).
  rewrite Hf in Hf'. apply app_inj_tail in Hf' as [-> _].
  cbn. destruct (nth_error (r_fetches (rrun es)) k) as [[dd [|]]|] eqn:E; try reflexivity.
  exfalso. rewrite Hf in E.
  destruct (Nat.lt_trichotomy k (length older')) as [Hlt|[Heq|Hgt]]; [|contradiction|].
  - exact (nth_older_dead older' (d, b) k dd Hold Hlt E).
  - assert (nth_error (older' ++ [(d, b)]) k = None) by (apply nth_error_None; rewrite app_length; cbn; lia). congruence.
Qed.

(* the completion of the latest outstanding fetch installs its result and ends loading *)
Theorem latest_completion_wins es older d :
  r_fetches (rrun es) = older ++ [(d, true)] ->
  let s' := rstep_fn (rrun es) (RComplete (length older)) in r_value s' = Some d /\ r_loading s' = false.
Proof.
  intros Hf. cbn. rewrite Hf, nth_error_app2, Nat.sub_diag by lia. cbn. split; reflexivity.
Qed.

(* a dependency write keeps the previous value readable and starts loading *)
Theorem old_value_readable es v :
  r_value (rstep_fn (rrun es) (RWrite v)) = r_value (rrun es) /\ r_loading (rstep_fn (rrun es) (RWrite v)) = true.
Proof. split; reflexivity. Qed.

(* the value is always the result of some fetch, i.e. a dependency value that was written (or the initial one) *)
Theorem value_is_some_fetch es v : r_value (rrun es) = Some v -> In v (map fst (r_fetches (rrun es))).
Proof.
  unfold rrun. assert (G : forall s, (forall v, r_value s = Some v -> In v (map fst (r_fetches s))) ->
                         forall v, r_value (fold_left rstep_fn es s) = Some v -> In v (map fst (r_fetches (fold_left rstep_fn es s)))).
  { induction es as [|e es IH]; intros s Hs; cbn; [exact Hs|]. apply IH.
    intros w Hw. destruct e as [x|k]; cbn in *.
    - rewrite map_app, map_map. cbn. apply in_or_app. left. rewrite map_ext with (g := fst) by reflexivity. apply Hs. exact Hw.
    - destruct (nth_error (r_fetches s) k) as [[dd [|]]|] eqn:E; cbn in *; try (apply Hs; exact Hw).
      inversion Hw; subst. clear Hw Hs IH. revert k E. induction (r_fetches s) as [|[d0 b0] r IHr]; intros k E; destruct k; cbn in *; try discriminate.
      + inversion E; subst. left; reflexivity.
      + right. eapply IHr. exact E. }
  apply G. cbn. discriminate.
Qed.

(* the feedback variant (an effect that moves the dependency on when a value is installed) adds nothing new: every history
   with feedback is a history of plain writes and completions, so all the statements above apply to it *)
Lemma fb_is_plain : forall es s, exists es', fold_left rstep_fb es s = fold_left rstep_fn es' s.
Proof.
  induction es as [|e es IH]; intros s; [exists []; reflexivity|]. cbn [fold_left].
  destruct (IH (rstep_fb s e)) as [es' H]. unfold rstep_fb in *.
  destruct e as [v|k].
  - exists (RWrite v :: es'). exact H.
  - destruct (nth_error (r_fetches s) k) as [[d [|]]|] eqn:E.
    + destruct (feeds d && negb match r_value s with Some v => Z.eqb v d | None => false end).
      * exists (RComplete k :: RWrite (d + 1) :: es'). exact H.
      * exists (RComplete k :: es'). exact H.
    + exists (RComplete k :: es'). exact H.
    + exists (RComplete k :: es'). exact H.
Qed.

(* the same for a fetch that moves the dependency on itself before returning: one step is one plain step *)
Lemma self_step_plain s e : exists e', rstep_self s e = rstep_fn s e'.
Proof.
  destruct e as [v|k]; cbn [rstep_self]; [exists (RWrite v); reflexivity|].
  destruct (nth_error (r_fetches s) k) as [[d [|]]|]; try (exists (RComplete k); reflexivity).
  destruct (feeds d); [exists (RWrite (d + 1)%Z) | exists (RComplete k)]; reflexivity.
Qed.

Lemma self_is_plain : forall es s, exists es', fold_left rstep_self es s = fold_left rstep_fn es' s.
Proof.
  induction es as [|e es IH]; intros s; [exists []; reflexivity|].
  cbn [fold_left]. destruct (self_step_plain s e) as [e' He]. rewrite He.
  destruct (IH (rstep_fn s e')) as [es' Hes]. exists (e' :: es'). exact Hes.
Qed.
