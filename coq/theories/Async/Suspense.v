(* Async/Suspense.v -- labelled transition system for sycamore-futures: reactive scopes, suspense scopes with
   their task counters, scoped tasks made of chained awaits, cancellation on disposal
   (packages/sycamore-futures/src/{lib,suspense}.rs). The executor is replaced by an explicit schedule.
   [fx = false] is the code as pinned (SuspenseTaskGuard::drop decrements unconditionally: a panic when the
   counter signal has been disposed); [fx = true] the code after the fix. Definitions only. *)
From Coq Require Import List Arith Bool String.
From Syc Require Import Common.Show.
Import ListNotations.
Open Scope string_scope.
Open Scope list_scope.
Definition cat (l : list string) : string := String.concat "" l.

Inductive anode :=
| ASus (id : nat) (children : list anode)       (* create_suspense_scope *)
| AScope (id : nat) (children : list anode)     (* create_child_scope *)
| ATask (t : nat) (n : nat)                     (* create_suspense_task: n chained awaits *)
| ASpawn (t : nat) (n : nat).                   (* spawn_local_scoped, no suspense guard *)

Inductive astep := Go (t : nat) | DisposeS (id : nat).

(* static description computed at construction *)
Record scope_info := ScopeInfo {
  s_id : nat;
  s_parent : option nat;          (* owning scope (None = the root scope) *)
  s_is_sus : bool;
  s_sus_parent : option nat }.    (* for a suspense scope: the enclosing suspense scope *)
Record task_info := TaskInfo {
  t_id : nat;
  t_gates : nat;
  t_owner : option nat;           (* scope in which the task was spawned *)
  t_sus : option nat;             (* suspense scope whose counter it holds (None: unguarded) *)
}.

Inductive tstatus := Pending | Finished | Cancelled.

(* what the instrumented futures and the panic hook observe *)
Inductive aev := EvPoll (t i : nat) | EvDone (t : nat) | EvPanic.

Record astate := AState {
  scopes : list scope_info;
  tasks : list task_info;
  alive : list nat;                       (* ids of live scopes *)
  root_alive : bool;
  progress : list (nat * (nat * tstatus)); (* task id -> gates passed, status *)
  counters : list (nat * nat);            (* suspense scope id -> tasks_remaining *)
}.

(* ---- construction ---- *)
Fixpoint collect (owner sus : option nat) (ns : list anode) (fuel : nat) : list scope_info * list task_info :=
  match fuel with
  | O => ([], [])
  | S f =>
      match ns with
      | [] => ([], [])
      | n :: rest =>
          let '(s1, t1) :=
            match n with
            | ASus id ch =>
                let '(s, t) := collect (Some id) (Some id) ch f in
                (ScopeInfo id owner true sus :: s, t)
            | AScope id ch =>
                let '(s, t) := collect (Some id) sus ch f in
                (ScopeInfo id owner false None :: s, t)
            | ATask t n => ([], [TaskInfo t n owner sus])
            | ASpawn t n => ([], [TaskInfo t n owner None])
            end in
          let '(s2, t2) := collect owner sus rest f in
          ((s1 ++ s2), (t1 ++ t2))
      end
  end.

Fixpoint anode_size (n : anode) : nat :=
  match n with
  | ASus _ ch | AScope _ ch => S (fold_right (fun c acc => anode_size c + acc) 0 ch)
  | _ => 1
  end.
Definition prog_size (p : list anode) : nat := S (fold_right (fun c acc => anode_size c + acc) 0 p).

Fixpoint aget {A} (l : list (nat * A)) (k : nat) : option A :=
  match l with [] => None | (k', v) :: r => if Nat.eqb k k' then Some v else aget r k end.
Fixpoint aset {A} (l : list (nat * A)) (k : nat) (v : A) : list (nat * A) :=
  match l with
  | [] => [(k, v)]
  | (k', v') :: r => if Nat.eqb k k' then (k, v) :: r else (k', v') :: aset r k v
  end.
Definition mem (k : nat) (l : list nat) : bool := existsb (Nat.eqb k) l.

Definition find_scope (st : astate) (id : nat) : option scope_info :=
  find (fun s => Nat.eqb (s_id s) id) (scopes st).

(* the scope that owns the counter of suspense scope [id]: its owner (the root if None) *)
Definition owner_alive (st : astate) (o : option nat) : bool :=
  match o with None => root_alive st | Some p => mem p (alive st) end.
Definition counter_alive (st : astate) (sus : nat) : bool :=
  match find_scope st sus with Some s => owner_alive st (s_parent s) | None => false end.

Definition count_pending_guards (ts : list task_info) (sus : nat) : nat :=
  List.length (filter (fun t => match t_sus t with Some s => Nat.eqb s sus | None => false end) ts).

(* the first poll of every task happens right after construction *)
Definition initial_progress (ts : list task_info) : list (nat * (nat * tstatus)) * list aev :=
  fold_left (fun '(pr, lg) t =>
               if Nat.eqb (t_gates t) 0 then ((pr ++ [(t_id t, (0, Finished))]), (lg ++ [EvDone (t_id t)]))
               else ((pr ++ [(t_id t, (0, Pending))]), (lg ++ [EvPoll (t_id t) 0])))
            ts ([], []).

Definition init (p : list anode) : astate * list aev :=
  let '(ss, ts) := collect None None p (prog_size p) in
  let '(pr, lg) := initial_progress ts in
  let pending := filter (fun t => negb (Nat.eqb (t_gates t) 0)) ts in
  (AState ss ts (map s_id ss) true pr
          (map (fun s => (s_id s, count_pending_guards pending (s_id s))) (filter s_is_sus ss)),
   lg).

(* ---- observations ---- *)
Definition counter (st : astate) (sus : nat) : nat := match aget (counters st) sus with Some c => c | None => 0 end.

(* SuspenseScope::_is_loading: own counter, or an enclosing boundary is loading *)
Fixpoint is_loading (fuel : nat) (st : astate) (sus : nat) : bool :=
  match fuel with
  | O => false
  | S f =>
      (Nat.ltb 0 (counter st sus)) ||
      match find_scope st sus with
      | Some s => match s_sus_parent s with Some p => is_loading f st p | None => false end
      | None => false
      end
  end.

Definition show_load (st : astate) (s : scope_info) : string :=
  let id := s_id s in
  let outer := if owner_alive st (s_parent s) then show_bool (is_loading (S (List.length (scopes st))) st id) else "dead" in
  let inner := if mem id (alive st) then show_bool (is_loading (S (List.length (scopes st))) st id) else "dead" in
  cat [show_nat id; "="; (if String.eqb outer inner then outer else cat [outer; "/"; inner])].

Fixpoint insert_by_id (s : scope_info) (l : list scope_info) : list scope_info :=
  match l with
  | [] => [s]
  | x :: r => if Nat.leb (s_id s) (s_id x) then s :: l else x :: insert_by_id s r
  end.
Definition show_aev (e : aev) : string :=
  match e with
  | EvPoll t i => cat ["poll:"; show_nat t; ":"; show_nat i]
  | EvDone t => cat ["done:"; show_nat t]
  | EvPanic => "PANIC:signal_was_disposed"
  end.
Definition observe (st : astate) (lg : list aev) : string :=
  cat ["log "; join " " (map show_aev lg); " ; load ";
       join " " (map (show_load st) (fold_right insert_by_id [] (filter s_is_sus (scopes st))))].

(* ---- transitions ---- *)
Definition task_of (st : astate) (t : nat) : option task_info := find (fun x => Nat.eqb (t_id x) t) (tasks st).

Definition dec_counter (st : astate) (sus : nat) : astate :=
  AState (scopes st) (tasks st) (alive st) (root_alive st) (progress st) (aset (counters st) sus (counter st sus - 1)).
Definition set_progress (st : astate) (t : nat) (p : nat * tstatus) : astate :=
  AState (scopes st) (tasks st) (alive st) (root_alive st) (aset (progress st) t p) (counters st).

(* dropping the guard of a task: the decrement of SuspenseTaskGuard::drop *)
Definition drop_guard (fx : bool) (st : astate) (ti : task_info) : astate * list aev :=
  match t_sus ti with
  | None => (st, [])
  | Some sus =>
      if counter_alive st sus then (dec_counter st sus, [])
      else if fx then (st, []) else (st, [EvPanic])
  end.

Definition step_go (fx : bool) (st : astate) (t : nat) : astate * list aev :=
  match task_of st t, aget (progress st) t with
  | Some ti, Some (i, Pending) =>
      let lg := [EvPoll t i] in
      if Nat.ltb (S i) (t_gates ti) then (set_progress st t (S i, Pending), (lg ++ [EvPoll t (S i)]))
      else
        let st1 := set_progress st t (S i, Finished) in
        let '(st2, lg2) := drop_guard fx st1 ti in
        (st2, (lg ++ [EvDone t] ++ lg2))
  | _, _ => (st, [])
  end.

(* is [id] in the subtree of scope [root]? *)
Fixpoint in_subtree (fuel : nat) (st : astate) (root : nat) (id : option nat) : bool :=
  match fuel with
  | O => false
  | S f =>
      match id with
      | None => false
      | Some i => Nat.eqb i root || match find_scope st i with Some s => in_subtree f st root (s_parent s) | None => false end
      end
  end.

Definition cancel_one (fx : bool) (doomed : task_info -> bool) (acc : astate * list aev) (ti : task_info) : astate * list aev :=
  let '(st, lg) := acc in
  match aget (progress st) (t_id ti) with
  | Some (i, Pending) =>
      if doomed ti then
        let st1 := set_progress st (t_id ti) (i, Cancelled) in
        let '(st2, lg2) := drop_guard fx st1 ti in (st2, (lg ++ lg2))
      else (st, lg)
  | _ => (st, lg)
  end.
Definition cancel_tasks (fx : bool) (st : astate) (doomed : task_info -> bool) : astate * list aev :=
  fold_left (cancel_one fx doomed) (tasks st) (st, []).

Definition step_dispose (fx : bool) (st : astate) (id : nat) : astate * list aev :=
  if mem id (alive st) then
    let fuel := S (List.length (scopes st)) in
    let dead := fun i => in_subtree fuel st id (Some i) in
    let st1 := AState (scopes st) (tasks st) (filter (fun i => negb (dead i)) (alive st)) (root_alive st) (progress st) (counters st) in
    cancel_tasks fx st1 (fun ti => in_subtree fuel st id (t_owner ti))
  else (st, []).

(* RootHandle::dispose at the end: everything dies *)
Definition step_end (fx : bool) (st : astate) : astate * list aev :=
  let st1 := AState (scopes st) (tasks st) [] false (progress st) (counters st) in
  cancel_tasks fx st1 (fun _ => true).

Definition step (fx : bool) (st : astate) (s : astep) : astate * list aev :=
  match s with Go t => step_go fx st t | DisposeS id => step_dispose fx st id end.

Fixpoint run_steps (fx : bool) (st : astate) (ss : list astep) : list string :=
  match ss with
  | [] => let '(_, lg) := step_end fx st in [cat ["end "; join " " (map show_aev lg)]]
  | s :: rest => let '(st', lg) := step fx st s in observe st' lg :: run_steps fx st' rest
  end.

(* use_is_loading_global(): the scan of the global list of counters; the counters of disposed scopes are not listed (any more) *)
Definition global_loading (st : astate) : bool :=
  existsb (fun s => s_is_sus s && counter_alive st (s_id s) && Nat.ltb 0 (counter st (s_id s))) (scopes st).

Fixpoint glob_steps (fx : bool) (st : astate) (ss : list astep) : list bool :=
  match ss with
  | [] => []
  | s :: rest => let st' := fst (step fx st s) in global_loading st' :: glob_steps fx st' rest
  end.
Definition run_glob (fx : bool) (p : list anode) (ss : list astep) : string :=
  let st := fst (init p) in join " " (map show_bool (global_loading st :: glob_steps fx st ss)).
Definition run_glob_all (fx : bool) (l : list (list anode * list astep)) : string :=
  lines (map (fun '(p, ss) => run_glob fx p ss) l).

Definition run (fx : bool) (p : list anode) (ss : list astep) : string :=
  let '(st, lg) := init p in lines (observe st lg :: run_steps fx st ss).
Definition run_all (fx : bool) (l : list (list anode * list astep)) : string :=
  join (cat [nl; "=="; nl]) (map (fun '(p, ss) => run fx p ss) l).
