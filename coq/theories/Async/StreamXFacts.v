(* Async/StreamXFacts.v -- facts about the translation of Async/StreamX.v: it is conservative (a view that uses none of
   the extra constructs is translated to itself), dynamic blocks are transparent, and what is shown only until an event
   contributes no gate and no boundary; hence every theorem of StreamFacts.v speaks about every translated view. *)
From Coq Require Import List Arith Bool String Lia.
From Syc Require Import Common.Show Async.Stream Async.StreamFacts Async.StreamX.
Import ListNotations.
Open Scope list_scope.

Fixpoint embed (v : sview) : xview :=
  match v with
  | SText s => XText s
  | SEl t ch => XEl t (map embed ch)
  | SSus id fb ch => XSus id fb (map embed ch)
  | SAsync g res => XAsync g (map embed res)
  end.

Lemma translate_list_cons x r : translate_list (x :: r) = translate x ++ translate_list r.
Proof. reflexivity. Qed.
Lemma translate_list_app l1 l2 : translate_list (l1 ++ l2) = translate_list l1 ++ translate_list l2.
Proof. induction l1 as [|x r IH]; [reflexivity|]. cbn [app]. rewrite !translate_list_cons, IH, app_assoc. reflexivity. Qed.

Lemma translate_El t ch : translate (XEl t ch) = [SEl t (translate_list ch)]. Proof. reflexivity. Qed.
Lemma translate_Sus i fb ch : translate (XSus i fb ch) = [SSus i fb (translate_list ch)]. Proof. reflexivity. Qed.
Lemma translate_Trans i fb ch : translate (XTrans i fb ch) = [SSus i fb (translate_list ch)]. Proof. reflexivity. Qed.
Lemma translate_Async g res : translate (XAsync g res) = [SAsync g (translate_list res)]. Proof. reflexivity. Qed.
Lemma translate_Resv g vs : translate (XResv g vs) = [SAsync g (translate_list vs)]. Proof. reflexivity. Qed.
Lemma translate_When g vs : translate (XWhen g vs) = [SAsync g (translate_list vs)]. Proof. reflexivity. Qed.
Lemma translate_Dyn ch : translate (XDyn ch) = translate_list ch. Proof. reflexivity. Qed.

(* conservative: the views of Stream.v are translated to themselves *)
Theorem translate_embed : (forall v, translate (embed v) = [v]) /\ (forall l, translate_list (map embed l) = l).
Proof.
  apply sview_mutind.
  - reflexivity.
  - intros t ch IH. cbn [embed]. rewrite translate_El, IH. reflexivity.
  - intros id fb ch IH. cbn [embed]. rewrite translate_Sus, IH. reflexivity.
  - intros g res IH. cbn [embed]. rewrite translate_Async, IH. reflexivity.
  - reflexivity.
  - intros x r Hx Hr. cbn [map]. rewrite translate_list_cons, Hx, Hr. reflexivity.
Qed.

(* dynamic blocks, at any depth of nesting, are transparent *)
Theorem dyn_transparent l1 ch l2 :
  translate_list (l1 ++ XDyn ch :: l2) = translate_list (l1 ++ ch ++ l2).
Proof. rewrite !translate_list_app, translate_list_cons, translate_Dyn. reflexivity. Qed.

(* a Transition is a boundary *)
Theorem transition_is_boundary i fb ch : translate (XTrans i fb ch) = translate (XSus i fb ch).
Proof. reflexivity. Qed.

(* what is shown only until an event: no boundary and no pending task of its content survives in the model, whatever it
   contains; of [XResu] only the task on its own gate remains *)
Theorem until_contributes_nothing g vs F parent :
  translate (XUnless g vs) = [] /\
  boundaries_list F parent (translate (XResu g vs)) = [] /\
  pending_list F (translate (XResu g vs)) = (if fired F g then 0 else 1).
Proof.
  repeat split; cbn; destruct (fired F g); reflexivity.
Qed.

(* a flag-setting task and the view waiting for the flag are tasks on the same gate: once the gate has opened the pair
   contributes exactly what the unlocked views contribute *)
Theorem flip_when_after g vs F : fired F g = true ->
  pending_list F (translate (XFlip g) ++ translate (XWhen g vs)) = pending_list F (translate_list vs) /\
  content_list F (translate (XFlip g) ++ translate (XWhen g vs)) = content_list F (translate_list vs).
Proof.
  intros H. change (translate (XFlip g)) with [SAsync g []]. rewrite translate_When. cbn [app]. split.
  - rewrite !pending_cons, !pending_Async, H. cbn. lia.
  - cbn [content_list content]. rewrite H. cbn [app]. rewrite app_nil_r. reflexivity.
Qed.
Theorem flip_when_before g vs F : fired F g = false ->
  pending_list F (translate (XFlip g) ++ translate (XWhen g vs)) = 2 /\
  content_list F (translate (XFlip g) ++ translate (XWhen g vs)) = [].
Proof.
  intros H. change (translate (XFlip g)) with [SAsync g []]. rewrite translate_When. cbn [app]. split.
  - rewrite !pending_cons, !pending_Async, H. reflexivity.
  - cbn [content_list content]. rewrite H. reflexivity.
Qed.

Example wrap_examples :
  wrap [XSus 1 "F1" [XDyn [XAsync 1 [XText "a"]]]] = [SSus 1 "F1" [SAsync 1 [SText "a"]]] /\
  wrap [XDyn [XUnless 1 [XSus 1 "F1" []]]; XSus 2 "F2" [XFlip 1]] = [SEl "main" [SSus 2 "F2" [SAsync 1 []]]] /\
  wrap [XUnless 1 []] = [SEl "main" []].
Proof. repeat split; reflexivity. Qed.
