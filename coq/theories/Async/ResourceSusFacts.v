(* Async/ResourceSusFacts.v -- the boundary under which a resource is read reports loading exactly while the resource's
   latest fetch is outstanding, after every history of dependency writes and completions. *)
From Coq Require Import List ZArith Bool Arith Lia.
From Syc Require Import Async.Resource Async.ResourceFacts Async.ResourceSus.
Import ListNotations.

(* counter = guards held by `guards` + the guard of the fetch task if the latest fetch is pending; nothing held when idle *)
Definition sinv (s : sstate) : Prop :=
  rinv (s_res s)
  /\ s_counter s = s_guards s + (if r_loading (s_res s) then 1 else 0)
  /\ (r_loading (s_res s) = false -> s_guards s = 0).

Lemma rinv_latest_live r : rinv r -> latest_live r = r_loading r.
Proof.
  intros (older & d & b & Hf & _ & Hl). unfold latest_live. rewrite Hf, rev_app_distr. cbn. symmetry; exact Hl.
Qed.

Lemma sinv_init : sinv sinit.
Proof. unfold sinv, sinit; cbn. repeat split; try reflexivity; try (intros; discriminate). exact rinv_init. Qed.

Lemma sinv_step s e : sinv s -> sinv (sstep_fn s e).
Proof.
  intros (Hr & Hc & Hg). pose proof (rinv_step _ e Hr) as Hr'. pose proof (rinv_latest_live _ Hr) as Hl.
  destruct e as [v | k].
  - unfold sinv, sstep_fn; cbn [s_res s_counter s_guards s_scopes].
    split; [exact Hr'|]. cbn [rstep_fn r_loading]. split; [|intros; discriminate].
    rewrite Hl. destruct (r_loading (s_res s)) eqn:E; lia.
  - unfold sstep_fn. destruct (nth_error (r_fetches (s_res s)) k) as [[d [|]]|] eqn:En.
    + (* a live fetch completes: by rinv it is the latest one, and the resource was loading *)
      unfold sinv; cbn [s_res s_counter s_guards s_scopes]. split; [exact Hr'|].
      assert (Hs : rstep_fn (s_res s) (RComplete k) = RState (Some d) false (set_dead k (r_fetches (s_res s)))).
      { cbn [rstep_fn]. rewrite En. reflexivity. }
      rewrite Hs. cbn [r_loading].
      destruct Hr as (older & d0 & b & Hf & Hold & Hb).
      assert (Hld : r_loading (s_res s) = true).
      { rewrite Hf in En. destruct (Nat.lt_ge_cases k (length older)) as [Hlt|Hge].
        - exfalso. exact (nth_older_dead older (d0, b) k d Hold Hlt En).
        - rewrite nth_error_app2 in En by lia.
          destruct (k - length older) as [|m] eqn:Ek; cbn in En; [|destruct m; discriminate].
          injection En as _ Hb'. rewrite Hb. exact Hb'. }
      rewrite Hld in Hc. split; [lia | intros _; reflexivity].
    + assert (Hs : rstep_fn (s_res s) (RComplete k) = s_res s) by (cbn [rstep_fn]; rewrite En; reflexivity).
      unfold sinv; cbn [s_res s_counter s_guards s_scopes]. rewrite Hs. repeat split; assumption.
    + assert (Hs : rstep_fn (s_res s) (RComplete k) = s_res s) by (cbn [rstep_fn]; rewrite En; reflexivity).
      unfold sinv; cbn [s_res s_counter s_guards s_scopes]. rewrite Hs. repeat split; assumption.
Qed.

Theorem sinv_reachable es : sinv (srun es).
Proof.
  unfold srun. generalize sinv_init. generalize sinit.
  induction es as [|e es IH]; cbn [fold_left]; intros s Hs; [exact Hs|]. apply IH, sinv_step, Hs.
Qed.

(* the resource component of the extended run is the plain run *)
Lemma srun_res es : s_res (srun es) = rrun es.
Proof.
  unfold srun, rrun. change rinit with (s_res sinit). generalize sinit.
  induction es as [|e es IH]; cbn [fold_left]; intros s; [reflexivity|].
  rewrite IH. f_equal. destruct e as [v|k]; unfold sstep_fn; cbn [s_res]; [reflexivity|].
  destruct (nth_error (r_fetches (s_res s)) k) as [[d [|]]|]; reflexivity.
Qed.

Theorem boundary_loading_iff_resource_loading es :
  sus_loading (srun es) = r_loading (rrun es).
Proof.
  destruct (sinv_reachable es) as (_ & Hc & Hg). rewrite <- srun_res.
  unfold sus_loading. destruct (r_loading (s_res (srun es))) eqn:E.
  - apply Nat.ltb_lt. lia.
  - rewrite (Hg eq_refl) in Hc. apply Nat.ltb_ge. lia.
Qed.
