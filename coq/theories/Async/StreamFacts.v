(* Async/StreamFacts.v -- theorems about the rendering model of Async/Stream.v (property C13, rendering half),
   for all views and all schedules:
   B1 blocking_step returns the first step at which no boundary has a pending task;
   B2 at such a step the blocking content is the fully resolved content;
   S1 a boundary is streamed at most once, and the emission lists concatenated are the sent list;
   S2 a boundary is never streamed before its lexical parent;
   S3 (unique boundary ids, no async component outside the boundaries) the inline script always finds its
      markers, and once every task has finished shell + fragments = the blocking result = the full content. *)
From Coq Require Import List Arith Bool Lia.
From Syc Require Import Async.Stream.
Import ListNotations.
Open Scope list_scope.

(* ------------------------------------------------------------------------------------------------------ *)
(* induction over views and lists of views at once                                                         *)
Section SviewInd.
  Variables (P : sview -> Prop) (Q : list sview -> Prop).
  Hypothesis HText : forall s, P (SText s).
  Hypothesis HEl : forall t ch, Q ch -> P (SEl t ch).
  Hypothesis HSus : forall id fb ch, Q ch -> P (SSus id fb ch).
  Hypothesis HAsync : forall g res, Q res -> P (SAsync g res).
  Hypothesis Hnil : Q [].
  Hypothesis Hcons : forall x r, P x -> Q r -> Q (x :: r).

  Fixpoint sview_both (v : sview) : P v :=
    match v with
    | SText s => HText s
    | SEl t ch => HEl t ch ((fix go l : Q l := match l with [] => Hnil | x :: r => Hcons x r (sview_both x) (go r) end) ch)
    | SSus id fb ch => HSus id fb ch ((fix go l : Q l := match l with [] => Hnil | x :: r => Hcons x r (sview_both x) (go r) end) ch)
    | SAsync g res => HAsync g res ((fix go l : Q l := match l with [] => Hnil | x :: r => Hcons x r (sview_both x) (go r) end) res)
    end.
  Definition sview_both_list : forall l, Q l :=
    fix go l : Q l := match l with [] => Hnil | x :: r => Hcons x r (sview_both x) (go r) end.
  Lemma sview_mutind : (forall v, P v) /\ (forall l, Q l).
  Proof. split; [exact sview_both|exact sview_both_list]. Qed.
End SviewInd.

(* one-step equations (all by computation: the inner fixes are the _list definitions) *)
Lemma fired_app : forall F G g, fired (F ++ G) g = fired F g || fired G g.
Proof. intros. unfold fired. apply existsb_app. Qed.
Lemma fired_mono : forall F G g, fired F g = true -> fired (F ++ G) g = true.
Proof. intros F G g H. rewrite fired_app, H. reflexivity. Qed.
Lemma memn_app : forall x l1 l2, memn x (l1 ++ l2) = memn x l1 || memn x l2.
Proof. intros. unfold memn. apply existsb_app. Qed.
Lemma memn_In : forall x l, memn x l = true <-> In x l.
Proof.
  intros x l. unfold memn. rewrite existsb_exists. split.
  - intros [y [Hy He]]. apply Nat.eqb_eq in He. subst. exact Hy.
  - intros Hi. exists x. split; [exact Hi|apply Nat.eqb_refl].
Qed.
Lemma memn_false : forall x l, memn x l = false <-> ~ In x l.
Proof. intros x l. rewrite <- memn_In. destruct (memn x l); split; congruence. Qed.
Lemma memn_single : forall x y, memn x [y] = Nat.eqb x y.
Proof. intros. unfold memn. cbn [existsb]. apply orb_false_r. Qed.

Lemma pending_El : forall F t ch, pending F (SEl t ch) = pending_list F ch. Proof. reflexivity. Qed.
Lemma pending_Sus : forall F i fb ch, pending F (SSus i fb ch) = 0. Proof. reflexivity. Qed.
Lemma pending_Async : forall F g res, pending F (SAsync g res) = if fired F g then pending_list F res else 1.
Proof. reflexivity. Qed.
Lemma pending_cons : forall F x r, pending_list F (x :: r) = pending F x + pending_list F r. Proof. reflexivity. Qed.

Lemma boundaries_El : forall F p t ch, boundaries F p (SEl t ch) = boundaries_list F p ch. Proof. reflexivity. Qed.
Lemma boundaries_Sus : forall F p i fb ch,
  boundaries F p (SSus i fb ch) = (i, p, pending_list F ch) :: boundaries_list F (Some i) ch.
Proof. reflexivity. Qed.
Lemma boundaries_Async : forall F p g res,
  boundaries F p (SAsync g res) = if fired F g then boundaries_list F p res else [].
Proof. reflexivity. Qed.
Lemma boundaries_cons : forall F p x r, boundaries_list F p (x :: r) = boundaries F p x ++ boundaries_list F p r.
Proof. reflexivity. Qed.

Lemma content_El : forall F t ch, content F (SEl t ch) = [DEl t (content_list F ch)]. Proof. reflexivity. Qed.
Lemma content_Async : forall F g res, content F (SAsync g res) = if fired F g then content_list F res else [].
Proof. reflexivity. Qed.
Lemma content_cons : forall F x r, content_list F (x :: r) = content F x ++ content_list F r. Proof. reflexivity. Qed.

Lemma deep_El : forall F t ch, deep F (SEl t ch) = [DEl t (deep_list F ch)]. Proof. reflexivity. Qed.
Lemma deep_Sus : forall F i fb ch, deep F (SSus i fb ch) = deep_list F ch. Proof. reflexivity. Qed.
Lemma deep_Async : forall F g res, deep F (SAsync g res) = if fired F g then deep_list F res else [].
Proof. reflexivity. Qed.
Lemma deep_cons : forall F x r, deep_list F (x :: r) = deep F x ++ deep_list F r. Proof. reflexivity. Qed.

Lemma full_El : forall t ch, full (SEl t ch) = [DEl t (full_list ch)]. Proof. reflexivity. Qed.
Lemma full_Sus : forall i fb ch, full (SSus i fb ch) = full_list ch. Proof. reflexivity. Qed.
Lemma full_Async : forall g res, full (SAsync g res) = full_list res. Proof. reflexivity. Qed.
Lemma full_cons : forall x r, full_list (x :: r) = full x ++ full_list r. Proof. reflexivity. Qed.

Lemma find_sus_El : forall F id t ch, find_sus F id (SEl t ch) = find_sus_list F id ch. Proof. reflexivity. Qed.
Lemma find_sus_Sus : forall F id i fb ch,
  find_sus F id (SSus i fb ch) = if Nat.eqb i id then Some ch else find_sus_list F id ch.
Proof. reflexivity. Qed.
Lemma find_sus_Async : forall F id g res,
  find_sus F id (SAsync g res) = if fired F g then find_sus_list F id res else None.
Proof. reflexivity. Qed.
Lemma find_sus_cons : forall F id x r,
  find_sus_list F id (x :: r) = match find_sus F id x with Some c => Some c | None => find_sus_list F id r end.
Proof. reflexivity. Qed.

(* ------------------------------------------------------------------------------------------------------ *)
(* B1, B2: blocking                                                                                        *)
Definition sum_pend (l : list (nat * option nat * nat)) : nat := fold_right (fun b acc => snd b + acc) 0 l.
Lemma global_pending_eq : forall F vs, global_pending F vs = sum_pend (boundaries_list F None vs).
Proof. reflexivity. Qed.
Lemma sum_pend_app : forall l1 l2, sum_pend (l1 ++ l2) = sum_pend l1 + sum_pend l2.
Proof. induction l1 as [|b l1 IH]; intros l2; cbn [sum_pend fold_right app]; [reflexivity|]. fold (sum_pend (l1 ++ l2)). fold (sum_pend l1). rewrite IH. lia. Qed.
Lemma sum_pend_cons : forall b l, sum_pend (b :: l) = snd b + sum_pend l.
Proof. reflexivity. Qed.
Lemma sum_pend_0 : forall l, sum_pend l = 0 <-> (forall b, In b l -> snd b = 0).
Proof.
  induction l as [|b l IH]; [split; [intros _ b []|reflexivity]|].
  rewrite sum_pend_cons. split.
  - intros H b' [<-|Hi]; [lia|]. apply IH; [lia|exact Hi].
  - intros H. rewrite (H b (or_introl eq_refl)). apply IH. intros b' Hb'. apply H. right. exact Hb'.
Qed.

Theorem blocking_step_first : forall vs rest F k k',
  blocking_step vs F rest k = Some k' ->
  k <= k' /\ k' - k <= length rest /\
  global_pending (F ++ firstn (k' - k) rest) vs = 0 /\
  forall j, k <= j < k' -> global_pending (F ++ firstn (j - k) rest) vs <> 0.
Proof.
  intros vs rest. induction rest as [|g r IH]; intros F k k' H; cbn [blocking_step] in H.
  - destruct (Nat.eqb (global_pending F vs) 0) eqn:E; [|discriminate]. injection H as <-.
    apply Nat.eqb_eq in E. rewrite Nat.sub_diag. cbn [firstn]. rewrite app_nil_r.
    repeat split; [lia|cbn; lia|exact E|intros j Hj; lia].
  - destruct (Nat.eqb (global_pending F vs) 0) eqn:E.
    + injection H as <-. apply Nat.eqb_eq in E. rewrite Nat.sub_diag. cbn [firstn]. rewrite app_nil_r.
      repeat split; [lia|cbn; lia|exact E|intros j Hj; lia].
    + apply Nat.eqb_neq in E. destruct (IH _ _ _ H) as [Hle [Hlen [H0 Hj]]].
      assert (Hk : k' - k = S (k' - S k)) by lia. rewrite Hk. cbn [firstn length].
      repeat split; [lia|lia| |].
      * rewrite <- app_assoc in H0. exact H0.
      * intros j Hjr. destruct (Nat.eq_dec j k) as [->|Hne].
        -- rewrite Nat.sub_diag. cbn [firstn]. rewrite app_nil_r. exact E.
        -- assert (Hjk : j - k = S (j - S k)) by lia. rewrite Hjk. cbn [firstn].
           specialize (Hj j ltac:(lia)). rewrite <- app_assoc in Hj. exact Hj.
Qed.

(* completeness: the blocking render hangs only if no prefix of the schedule finishes every task *)
Theorem blocking_step_none : forall vs rest F k,
  blocking_step vs F rest k = None ->
  forall j, j <= length rest -> global_pending (F ++ firstn j rest) vs <> 0.
Proof.
  intros vs rest. induction rest as [|g r IH]; intros F k H j Hj; cbn [blocking_step] in H;
    destruct (Nat.eqb (global_pending F vs) 0) eqn:E; try discriminate; apply Nat.eqb_neq in E.
  - cbn [length] in Hj. assert (j = 0) as -> by lia. cbn [firstn]. rewrite app_nil_r. exact E.
  - destruct j as [|j]; [cbn [firstn]; rewrite app_nil_r; exact E|].
    cbn [firstn]. cbn [length] in Hj. specialize (IH _ _ H j ltac:(lia)). rewrite <- app_assoc in IH. exact IH.
Qed.

Lemma deep_full_both : forall F,
  (forall v p, pending F v = 0 -> sum_pend (boundaries F p v) = 0 -> deep F v = full v) /\
  (forall l p, pending_list F l = 0 -> sum_pend (boundaries_list F p l) = 0 -> deep_list F l = full_list l).
Proof.
  intros F. apply sview_mutind.
  - reflexivity.
  - intros t ch IH p Hp Hs. rewrite deep_El, full_El. rewrite (IH p); [reflexivity|exact Hp|exact Hs].
  - intros i fb ch IH p _ Hs. rewrite boundaries_Sus, sum_pend_cons in Hs. cbn [snd] in Hs.
    rewrite deep_Sus, full_Sus. apply (IH (Some i)); lia.
  - intros g res IH p Hp Hs. rewrite pending_Async in Hp. rewrite boundaries_Async in Hs.
    rewrite deep_Async, full_Async. destruct (fired F g); [|discriminate]. apply (IH p); assumption.
  - reflexivity.
  - intros x r IHx IHr p Hp Hs. rewrite pending_cons in Hp. rewrite boundaries_cons, sum_pend_app in Hs.
    rewrite deep_cons, full_cons. rewrite (IHx p), (IHr p); try lia. reflexivity.
Qed.

Theorem blocking_content_full : forall F vs,
  pending_list F vs = 0 -> global_pending F vs = 0 -> deep_list F vs = full_list vs.
Proof. intros F vs Hp Hg. apply (proj2 (deep_full_both F) vs None Hp). exact Hg. Qed.

(* ------------------------------------------------------------------------------------------------------ *)
(* the streaming pass: the fold body of emit_pass, named                                                   *)
Definition emit_acc := (sstate * list (nat * bool) * list nat)%type.
Definition emit_body (F : list nat) (vs : list sview) : emit_acc -> nat * option nat * nat -> emit_acc :=
  fun '(st, loads, out) '(id, parent, pend) =>
    let ld := Nat.ltb 0 pend || match parent with Some p => lookup_loading loads p | None => false end in
    let loads' := (id, ld) :: loads in
    let parent_sent := match parent with Some p => memn p (s_sent st) | None => true end in
    if negb ld && negb (memn id (s_sent st)) && parent_sent then
      let frag := match find_sus_list F id vs with Some ch => content_list F ch | None => [] end in
      let d' := match s_doc st with Some d => apply_fragment d id frag | None => None end in
      (SState F (s_sent st ++ [id]) d', loads', out ++ [id])
    else (st, loads', out).

Lemma emit_pass_eq : forall vs st,
  emit_pass vs st =
  let '(st', _, out) := fold_left (emit_body (s_fired st) vs) (boundaries_list (s_fired st) None vs) (st, [], []) in
  (st', out).
Proof. reflexivity. Qed.

Lemma fold_left_inv : forall (A B : Type) (f : A -> B -> A) (P : A -> Prop) (l : list B),
  (forall a b, In b l -> P a -> P (f a b)) -> forall a, P a -> P (fold_left f l a).
Proof.
  intros A B f P l. induction l as [|b l IH]; intros Hf a Ha; [exact Ha|].
  cbn [fold_left]. apply IH.
  - intros a' b' Hb'. apply Hf. right. exact Hb'.
  - apply Hf; [left; reflexivity|exact Ha].
Qed.

(* a step of the fold either leaves the state alone or emits the boundary *)
Definition par_ok (sent : list nat) (par : option nat) : Prop :=
  match par with None => True | Some p => memn p sent = true end.

Lemma emit_body_cases : forall F vs st loads out id par n,
  exists ld,
    (emit_body F vs (st, loads, out) (id, par, n) = (st, (id, ld) :: loads, out)) \/
    (n = 0 /\ ld = false /\ memn id (s_sent st) = false /\ par_ok (s_sent st) par /\
     emit_body F vs (st, loads, out) (id, par, n) =
       (SState F (s_sent st ++ [id])
          match s_doc st with
          | Some d => apply_fragment d id match find_sus_list F id vs with Some ch => content_list F ch | None => [] end
          | None => None
          end, (id, ld) :: loads, out ++ [id])).
Proof.
  intros F vs st loads out id par n. cbn [emit_body].
  set (ld := Nat.ltb 0 n || match par with Some p => lookup_loading loads p | None => false end).
  exists ld.
  destruct (negb ld && negb (memn id (s_sent st)) && match par with Some p => memn p (s_sent st) | None => true end) eqn:E.
  - right. apply andb_prop in E. destruct E as [E E3]. apply andb_prop in E. destruct E as [E1 E2].
    apply negb_true_iff in E1, E2.
    assert (Hn : n = 0).
    { unfold ld in E1. apply orb_false_elim in E1. destruct E1 as [E1 _]. apply Nat.ltb_ge in E1. lia. }
    repeat split; try assumption. destruct par; [exact E3|exact I].
  - left. reflexivity.
Qed.

(* ---- S1: at most once; the emission lists are the sent list ---- *)
Definition s1_inv (F : list nat) (sent0 : list nat) (a : emit_acc) : Prop :=
  let '(st, _, out) := a in s_fired st = F /\ s_sent st = sent0 ++ out /\ (NoDup sent0 -> NoDup (s_sent st)).

Lemma NoDup_snoc : forall (l : list nat) x, NoDup l -> ~ In x l -> NoDup (l ++ [x]).
Proof.
  intros l x Hl Hx. apply NoDup_rev in Hl. rewrite <- (rev_involutive (l ++ [x])). apply NoDup_rev.
  rewrite rev_app_distr. cbn [rev app]. constructor; [|exact Hl]. rewrite <- in_rev. exact Hx.
Qed.

Lemma emit_pass_s1 : forall vs st st' out,
  emit_pass vs st = (st', out) ->
  s_fired st' = s_fired st /\ s_sent st' = s_sent st ++ out /\ (NoDup (s_sent st) -> NoDup (s_sent st')).
Proof.
  intros vs st st' out H. rewrite emit_pass_eq in H.
  pose proof (fold_left_inv _ _ (emit_body (s_fired st) vs) (s1_inv (s_fired st) (s_sent st))
                (boundaries_list (s_fired st) None vs)) as Hinv.
  destruct (fold_left _ _ _) as [[st2 loads2] out2] eqn:Ef. injection H as <- <-.
  change (s1_inv (s_fired st) (s_sent st) (st2, loads2, out2)). rewrite <- Ef. apply Hinv.
  - intros [[sa la] oa] [[id par] n] _ [Hf [Hs Hnd]].
    destruct (emit_body_cases (s_fired st) vs sa la oa id par n) as [ld [-> | [_ [_ [Hm [_ ->]]]]]].
    + repeat split; assumption.
    + cbn [s1_inv s_fired s_sent]. repeat split.
      * rewrite Hs, app_assoc. reflexivity.
      * intros H0. apply NoDup_snoc; [apply Hnd; exact H0|]. apply memn_false. exact Hm.
  - cbn [s1_inv]. repeat split; [rewrite app_nil_r; reflexivity|trivial].
Qed.

(* the state reached from the shell by a schedule, and the per-step emission lists *)
Definition reach (vs : list sview) (sched : list nat) : sstate := fst (stream_run vs (fst (stream_init vs)) sched).
Definition emitted (vs : list sview) (sched : list nat) : list (list nat) :=
  snd (stream_init vs) :: snd (stream_run vs (fst (stream_init vs)) sched).

Lemma stream_run_cons : forall vs st g r,
  stream_run vs st (g :: r) =
  (fst (stream_run vs (fst (stream_step vs st g)) r),
   snd (stream_step vs st g) :: snd (stream_run vs (fst (stream_step vs st g)) r)).
Proof.
  intros. cbn [stream_run]. destruct (stream_step vs st g) as [st1 out]. cbn [fst snd].
  destruct (stream_run vs st1 r) as [st2 outs]. reflexivity.
Qed.

Lemma stream_run_app : forall vs s1 s2 st,
  stream_run vs st (s1 ++ s2) =
  (fst (stream_run vs (fst (stream_run vs st s1)) s2),
   snd (stream_run vs st s1) ++ snd (stream_run vs (fst (stream_run vs st s1)) s2)).
Proof.
  intros vs s1. induction s1 as [|g r IH]; intros s2 st.
  - cbn [app stream_run fst snd]. destruct (stream_run vs st s2); reflexivity.
  - cbn [app]. rewrite !stream_run_cons. cbn [fst snd]. rewrite IH. reflexivity.
Qed.

Lemma reach_nil : forall vs, reach vs [] = fst (stream_init vs).
Proof. reflexivity. Qed.
Lemma reach_snoc : forall vs sched g, reach vs (sched ++ [g]) = fst (stream_step vs (reach vs sched) g).
Proof.
  intros. unfold reach. rewrite stream_run_app. cbn [fst]. rewrite stream_run_cons. reflexivity.
Qed.

(* an invariant of the initial pass and of every step holds in every reachable state *)
Lemma reach_ind : forall vs (P : list nat -> sstate -> Prop),
  P [] (fst (stream_init vs)) ->
  (forall sched st g, P sched st -> P (sched ++ [g]) (fst (stream_step vs st g))) ->
  forall sched, P sched (reach vs sched).
Proof.
  intros vs P H0 Hs sched. induction sched as [|g sched IH] using rev_ind.
  - exact H0.
  - rewrite reach_snoc. apply Hs. exact IH.
Qed.

Lemma stream_run_s1 : forall vs sched st,
  let r := stream_run vs st sched in
  s_fired (fst r) = s_fired st ++ sched /\ s_sent (fst r) = s_sent st ++ concat (snd r) /\
  (NoDup (s_sent st) -> NoDup (s_sent (fst r))).
Proof.
  intros vs sched. induction sched as [|g r IH]; intros st.
  - cbn [stream_run fst snd concat]. rewrite !app_nil_r. repeat split; trivial.
  - cbn zeta. rewrite stream_run_cons. cbn [fst snd concat].
    destruct (stream_step vs st g) as [st1 out] eqn:E. unfold stream_step in E.
    apply emit_pass_s1 in E. cbn [s_fired s_sent] in E. destruct E as [Ef [Es Hnd]]. cbn [fst snd].
    destruct (IH st1) as [If [Is Ind]]. repeat split.
    + rewrite If, Ef, <- app_assoc. reflexivity.
    + rewrite Is, Es, <- app_assoc. reflexivity.
    + intros H0. apply Ind, Hnd, H0.
Qed.

Theorem stream_sent_once : forall vs sched,
  NoDup (s_sent (reach vs sched)) /\ s_sent (reach vs sched) = concat (emitted vs sched) /\
  s_fired (reach vs sched) = sched.
Proof.
  intros vs sched. unfold reach, emitted.
  destruct (stream_init vs) as [st0 out0] eqn:E0. unfold stream_init in E0. apply emit_pass_s1 in E0.
  cbn [s_fired s_sent app] in E0. destruct E0 as [Ef [Es Hnd]]. cbn [fst snd concat].
  destruct (stream_run_s1 vs sched st0) as [Rf [Rs Rnd]]. repeat split.
  - apply Rnd, Hnd. constructor.
  - rewrite Rs, Es. reflexivity.
  - rewrite Rf, Ef. reflexivity.
Qed.

(* ------------------------------------------------------------------------------------------------------ *)
(* the lexical structure of a view: boundary ids and their enclosing boundary, whatever has fired           *)
Fixpoint parents (p : option nat) (v : sview) : list (nat * option nat) :=
  match v with
  | SText _ => []
  | SEl _ ch => (fix go l := match l with [] => [] | x :: r => parents p x ++ go r end) ch
  | SSus id _ ch => (id, p) :: (fix go l := match l with [] => [] | x :: r => parents (Some id) x ++ go r end) ch
  | SAsync _ res => (fix go l := match l with [] => [] | x :: r => parents p x ++ go r end) res
  end.
Definition parents_list (p : option nat) (l : list sview) : list (nat * option nat) :=
  (fix go l := match l with [] => [] | x :: r => parents p x ++ go r end) l.

Fixpoint ids (v : sview) : list nat :=
  match v with
  | SText _ => []
  | SEl _ ch => (fix go l := match l with [] => [] | x :: r => ids x ++ go r end) ch
  | SSus id _ ch => id :: (fix go l := match l with [] => [] | x :: r => ids x ++ go r end) ch
  | SAsync _ res => (fix go l := match l with [] => [] | x :: r => ids x ++ go r end) res
  end.
Definition ids_list (l : list sview) : list nat := (fix go l := match l with [] => [] | x :: r => ids x ++ go r end) l.

Fixpoint gates (v : sview) : list nat :=
  match v with
  | SText _ => []
  | SEl _ ch => (fix go l := match l with [] => [] | x :: r => gates x ++ go r end) ch
  | SSus _ _ ch => (fix go l := match l with [] => [] | x :: r => gates x ++ go r end) ch
  | SAsync g res => g :: (fix go l := match l with [] => [] | x :: r => gates x ++ go r end) res
  end.
Definition gates_list (l : list sview) : list nat := (fix go l := match l with [] => [] | x :: r => gates x ++ go r end) l.

(* the client document: a sent boundary shows its children, an unsent one its hole *)
Fixpoint vis (sent F : list nat) (v : sview) : list doc :=
  match v with
  | SText s => [DText s]
  | SEl t ch => [DEl t ((fix go l := match l with [] => [] | x :: r => vis sent F x ++ go r end) ch)]
  | SSus id fb ch =>
      if memn id sent then (fix go l := match l with [] => [] | x :: r => vis sent F x ++ go r end) ch
      else [DHole id fb]
  | SAsync g res =>
      if fired F g then (fix go l := match l with [] => [] | x :: r => vis sent F x ++ go r end) res else []
  end.
Definition vis_list (sent F : list nat) (l : list sview) : list doc :=
  (fix go l := match l with [] => [] | x :: r => vis sent F x ++ go r end) l.

(* unresolved async components in the visible part (outside the boundaries and inside the sent ones) *)
Fixpoint vpending (sent F : list nat) (v : sview) : nat :=
  match v with
  | SText _ => 0
  | SEl _ ch => (fix go l := match l with [] => 0 | x :: r => vpending sent F x + go r end) ch
  | SSus id _ ch =>
      if memn id sent then (fix go l := match l with [] => 0 | x :: r => vpending sent F x + go r end) ch else 0
  | SAsync g res =>
      if fired F g then (fix go l := match l with [] => 0 | x :: r => vpending sent F x + go r end) res else 1
  end.
Definition vpending_list (sent F : list nat) (l : list sview) : nat :=
  (fix go l := match l with [] => 0 | x :: r => vpending sent F x + go r end) l.

Lemma parents_El : forall p t ch, parents p (SEl t ch) = parents_list p ch. Proof. reflexivity. Qed.
Lemma parents_Sus : forall p i fb ch, parents p (SSus i fb ch) = (i, p) :: parents_list (Some i) ch. Proof. reflexivity. Qed.
Lemma parents_Async : forall p g res, parents p (SAsync g res) = parents_list p res. Proof. reflexivity. Qed.
Lemma parents_cons : forall p x r, parents_list p (x :: r) = parents p x ++ parents_list p r. Proof. reflexivity. Qed.
Lemma ids_El : forall t ch, ids (SEl t ch) = ids_list ch. Proof. reflexivity. Qed.
Lemma ids_Sus : forall i fb ch, ids (SSus i fb ch) = i :: ids_list ch. Proof. reflexivity. Qed.
Lemma ids_Async : forall g res, ids (SAsync g res) = ids_list res. Proof. reflexivity. Qed.
Lemma ids_cons : forall x r, ids_list (x :: r) = ids x ++ ids_list r. Proof. reflexivity. Qed.
Lemma gates_El : forall t ch, gates (SEl t ch) = gates_list ch. Proof. reflexivity. Qed.
Lemma gates_Sus : forall i fb ch, gates (SSus i fb ch) = gates_list ch. Proof. reflexivity. Qed.
Lemma gates_Async : forall g res, gates (SAsync g res) = g :: gates_list res. Proof. reflexivity. Qed.
Lemma gates_cons : forall x r, gates_list (x :: r) = gates x ++ gates_list r. Proof. reflexivity. Qed.
Lemma vis_El : forall sent F t ch, vis sent F (SEl t ch) = [DEl t (vis_list sent F ch)]. Proof. reflexivity. Qed.
Lemma vis_Sus : forall sent F i fb ch,
  vis sent F (SSus i fb ch) = if memn i sent then vis_list sent F ch else [DHole i fb]. Proof. reflexivity. Qed.
Lemma vis_Async : forall sent F g res,
  vis sent F (SAsync g res) = if fired F g then vis_list sent F res else []. Proof. reflexivity. Qed.
Lemma vis_cons : forall sent F x r, vis_list sent F (x :: r) = vis sent F x ++ vis_list sent F r. Proof. reflexivity. Qed.
Lemma vpending_El : forall sent F t ch, vpending sent F (SEl t ch) = vpending_list sent F ch. Proof. reflexivity. Qed.
Lemma vpending_Sus : forall sent F i fb ch,
  vpending sent F (SSus i fb ch) = if memn i sent then vpending_list sent F ch else 0. Proof. reflexivity. Qed.
Lemma vpending_Async : forall sent F g res,
  vpending sent F (SAsync g res) = if fired F g then vpending_list sent F res else 1. Proof. reflexivity. Qed.
Lemma vpending_cons : forall sent F x r,
  vpending_list sent F (x :: r) = vpending sent F x + vpending_list sent F r. Proof. reflexivity. Qed.

Lemma ids_parents_both :
  (forall v p, map fst (parents p v) = ids v) /\ (forall l p, map fst (parents_list p l) = ids_list l).
Proof.
  apply sview_mutind.
  - reflexivity.
  - intros t ch IH p. rewrite parents_El, ids_El. apply IH.
  - intros i fb ch IH p. rewrite parents_Sus, ids_Sus. cbn [map fst]. rewrite IH. reflexivity.
  - intros g res IH p. rewrite parents_Async, ids_Async. apply IH.
  - reflexivity.
  - intros x r IHx IHr p. rewrite parents_cons, ids_cons, map_app, IHx, IHr. reflexivity.
Qed.
Lemma ids_parents_list : forall l p, map fst (parents_list p l) = ids_list l.
Proof. exact (proj2 ids_parents_both). Qed.

Lemma parents_in_ids : forall i q p l, In (i, q) (parents_list p l) -> In i (ids_list l).
Proof. intros i q p l H. rewrite <- (ids_parents_list l p). apply (in_map fst) in H. exact H. Qed.

(* the boundaries that exist are among the lexical ones, with the same parent *)
Definition strip (t : nat * option nat * nat) : nat * option nat := fst t.

Lemma boundaries_parents_both : forall F,
  (forall v p t, In t (boundaries F p v) -> In (strip t) (parents p v)) /\
  (forall l p t, In t (boundaries_list F p l) -> In (strip t) (parents_list p l)).
Proof.
  intros F. apply sview_mutind.
  - intros s p t [].
  - intros t ch IH p b H. rewrite boundaries_El in H. rewrite parents_El. apply IH, H.
  - intros i fb ch IH p b H. rewrite boundaries_Sus in H. rewrite parents_Sus. destruct H as [<-|H].
    + left. reflexivity.
    + right. apply IH, H.
  - intros g res IH p b H. rewrite boundaries_Async in H. rewrite parents_Async.
    destruct (fired F g); [apply IH, H|destruct H].
  - intros p t [].
  - intros x r IHx IHr p b H. rewrite boundaries_cons in H. rewrite parents_cons. apply in_app_or in H.
    apply in_or_app. destruct H as [H|H]; [left; apply IHx, H|right; apply IHr, H].
Qed.
Lemma boundaries_parents : forall F vs id par n,
  In (id, par, n) (boundaries_list F None vs) -> In (id, par) (parents_list None vs).
Proof. intros F vs id par n H. apply (proj2 (boundaries_parents_both F) vs None _ H). Qed.

(* and they are exactly the lexical ones once every gate of the view has fired *)
Lemma parents_all_fired_both : forall F,
  (forall v p, (forall g, In g (gates v) -> fired F g = true) -> map strip (boundaries F p v) = parents p v) /\
  (forall l p, (forall g, In g (gates_list l) -> fired F g = true) -> map strip (boundaries_list F p l) = parents_list p l).
Proof.
  intros F. apply sview_mutind.
  - reflexivity.
  - intros t ch IH p H. rewrite boundaries_El, parents_El. apply IH, H.
  - intros i fb ch IH p H. rewrite boundaries_Sus, parents_Sus. cbn [map]. rewrite IH; [reflexivity|exact H].
  - intros g res IH p H. rewrite boundaries_Async, parents_Async. rewrite gates_Async in H.
    rewrite (H g (or_introl eq_refl)). apply IH. intros g' Hg'. apply H. right. exact Hg'.
  - reflexivity.
  - intros x r IHx IHr p H. rewrite gates_cons in H. rewrite boundaries_cons, parents_cons, map_app, IHx, IHr; [reflexivity| |];
      intros g Hg; apply H, in_or_app; [right|left]; exact Hg.
Qed.
Lemma fired_self : forall G g, In g G -> fired G g = true.
Proof. intros G g H. apply memn_In in H. exact H. Qed.
Theorem parents_all_fired : forall vs,
  parents_list None vs = map strip (boundaries_list (gates_list vs) None vs).
Proof. intros vs. symmetry. apply (proj2 (parents_all_fired_both (gates_list vs))). intros g Hg. apply fired_self, Hg. Qed.

(* ---- S2: never before its parent ---- *)
Definition sent_ordered (vs : list sview) (sent : list nat) : Prop :=
  forall l1 id l2, sent = l1 ++ id :: l2 ->
  exists par, In (id, par) (parents_list None vs) /\ match par with None => True | Some p => In p l1 end.

Lemma sent_ordered_snoc : forall vs sent id par,
  sent_ordered vs sent -> In (id, par) (parents_list None vs) -> par_ok sent par -> sent_ordered vs (sent ++ [id]).
Proof.
  intros vs sent id par Ho Hin Hp l1 x l2 E.
  destruct (exists_last (l := x :: l2)) as [l2' [y E2]]; [discriminate|].
  rewrite E2, app_assoc in E. apply app_inj_tail in E. destruct E as [E ->].
  destruct l2' as [|z l2'].
  - cbn [app] in E2. injection E2 as -> _. rewrite app_nil_r in E. subst l1. exists par. split; [exact Hin|].
    destruct par; [apply memn_In; exact Hp|exact I].
  - cbn [app] in E2. injection E2 as -> E2. apply (Ho l1 z l2'). exact E.
Qed.

Definition s2_inv (vs : list sview) (a : emit_acc) : Prop := let '(st, _, _) := a in sent_ordered vs (s_sent st).

Lemma emit_pass_s2 : forall vs st,
  sent_ordered vs (s_sent st) -> sent_ordered vs (s_sent (fst (emit_pass vs st))).
Proof.
  intros vs st H. rewrite emit_pass_eq.
  pose proof (fold_left_inv _ _ (emit_body (s_fired st) vs) (s2_inv vs) (boundaries_list (s_fired st) None vs)) as Hinv.
  destruct (fold_left _ _ _) as [[st2 loads2] out2] eqn:Ef. cbn [fst].
  change (s2_inv vs (st2, loads2, out2)). rewrite <- Ef. apply Hinv; [|exact H].
  intros [[sa la] oa] [[id par] n] Hb Ha.
  destruct (emit_body_cases (s_fired st) vs sa la oa id par n) as [ld [-> | [_ [_ [_ [Hp ->]]]]]]; [exact Ha|].
  cbn [s2_inv s_sent]. apply (sent_ordered_snoc vs _ id par Ha); [|exact Hp].
  apply (boundaries_parents (s_fired st) vs id par n Hb).
Qed.

Lemma reach_sent_ordered : forall vs sched, sent_ordered vs (s_sent (reach vs sched)).
Proof.
  intros vs. apply (reach_ind vs (fun _ st => sent_ordered vs (s_sent st))).
  - unfold stream_init. apply emit_pass_s2. intros l1 id l2 E. destruct l1; discriminate.
  - intros sched st g H. unfold stream_step. apply emit_pass_s2. exact H.
Qed.

Definition uniq_ids (vs : list sview) : Prop := NoDup (ids_list vs).

Lemma NoDup_fst_inj : forall (A B : Type) (l : list (A * B)) a b b',
  NoDup (map fst l) -> In (a, b) l -> In (a, b') l -> b = b'.
Proof.
  intros A B l a b b'. induction l as [|[x y] l IH]; intros Hnd H1 H2; [destruct H1|].
  cbn [map fst] in Hnd. inversion Hnd as [|? ? Hx Hl]; subst.
  destruct H1 as [H1|H1], H2 as [H2|H2].
  - congruence.
  - injection H1 as -> ->. exfalso. apply Hx. apply (in_map fst) in H2. exact H2.
  - injection H2 as -> ->. exfalso. apply Hx. apply (in_map fst) in H1. exact H1.
  - apply IH; assumption.
Qed.

Lemma uniq_parent : forall vs i q q',
  uniq_ids vs -> In (i, q) (parents_list None vs) -> In (i, q') (parents_list None vs) -> q = q'.
Proof.
  intros vs i q q' Hu. apply NoDup_fst_inj. rewrite ids_parents_list. exact Hu.
Qed.

(* every streamed boundary is a boundary of the view and, whatever the ids, one of its lexical parents
   (the one under which it was emitted) was streamed before it *)
Theorem stream_parent_first_any : forall vs sched l1 id l2,
  s_sent (reach vs sched) = l1 ++ id :: l2 ->
  exists par, In (id, par) (parents_list None vs) /\ match par with None => True | Some p => In p l1 end.
Proof. intros vs sched l1 id l2 E. exact (reach_sent_ordered vs sched l1 id l2 E). Qed.

Theorem stream_parent_first : forall vs sched l1 id l2 p,
  uniq_ids vs ->
  s_sent (reach vs sched) = l1 ++ id :: l2 ->
  In (id, Some p) (parents_list None vs) ->
  In p l1.
Proof.
  intros vs sched l1 id l2 p Hu E Hin.
  destruct (reach_sent_ordered vs sched l1 id l2 E) as [par [Hpar Hp]].
  rewrite (uniq_parent vs id par (Some p) Hu Hpar Hin) in Hp. exact Hp.
Qed.

(* ------------------------------------------------------------------------------------------------------ *)
(* S3: the client document is [vis sent F]                                                                 *)
Lemma NoDup_app_l : forall (l1 l2 : list nat), NoDup (l1 ++ l2) -> NoDup l1.
Proof. intros l1 l2 H. induction l1 as [|x l1 IH]; [constructor|]. cbn [app] in H. inversion H as [|? ? Hx Hl]; subst.
  constructor; [intros Hi; apply Hx, in_or_app; left; exact Hi|apply IH, Hl]. Qed.
Lemma NoDup_app_r : forall (l1 l2 : list nat), NoDup (l1 ++ l2) -> NoDup l2.
Proof. intros l1 l2 H. induction l1 as [|x l1 IH]; [exact H|]. cbn [app] in H. inversion H; subst. apply IH. assumption. Qed.
Lemma NoDup_app_disj : forall (l1 l2 : list nat) x, NoDup (l1 ++ l2) -> In x l1 -> ~ In x l2.
Proof.
  intros l1 l2 x H. induction l1 as [|y l1 IH]; intros H1 H2; [destruct H1|].
  cbn [app] in H. inversion H as [|? ? Hy Hl]; subst. destruct H1 as [->|H1].
  - apply Hy, in_or_app. right. exact H2.
  - exact (IH Hl H1 H2).
Qed.

(* nothing sent inside: the document part is the plain content *)
Lemma vis_none_both : forall sent F,
  (forall v, (forall i, In i (ids v) -> memn i sent = false) -> vis sent F v = content F v /\ vpending sent F v = pending F v) /\
  (forall l, (forall i, In i (ids_list l) -> memn i sent = false) ->
             vis_list sent F l = content_list F l /\ vpending_list sent F l = pending_list F l).
Proof.
  intros sent F. apply sview_mutind.
  - intros s _. split; reflexivity.
  - intros t ch IH H. rewrite ids_El in H. destruct (IH H) as [E1 E2].
    rewrite vis_El, content_El, vpending_El, pending_El, E1, E2. split; reflexivity.
  - intros i fb ch IH H. rewrite ids_Sus in H. rewrite vis_Sus, vpending_Sus, (H i (or_introl eq_refl)). split; reflexivity.
  - intros g res IH H. rewrite ids_Async in H. destruct (IH H) as [E1 E2].
    rewrite vis_Async, content_Async, vpending_Async, pending_Async, E1, E2. split; reflexivity.
  - intros _. split; reflexivity.
  - intros x r IHx IHr H. rewrite ids_cons in H.
    destruct IHx as [E1 E2]; [intros i Hi; apply H, in_or_app; left; exact Hi|].
    destruct IHr as [E3 E4]; [intros i Hi; apply H, in_or_app; right; exact Hi|].
    rewrite vis_cons, content_cons, vpending_cons, pending_cons, E1, E2, E3, E4. split; reflexivity.
Qed.
Lemma vis_nil_list : forall F l, vis_list [] F l = content_list F l /\ vpending_list [] F l = pending_list F l.
Proof. intros F l. apply (proj2 (vis_none_both [] F)). intros i _. reflexivity. Qed.

(* once nothing visible is pending, later gates do not change the visible part *)
Lemma vis_step_both : forall sent F G,
  (forall v, vpending sent F v = 0 -> vis sent (F ++ G) v = vis sent F v /\ vpending sent (F ++ G) v = 0) /\
  (forall l, vpending_list sent F l = 0 -> vis_list sent (F ++ G) l = vis_list sent F l /\ vpending_list sent (F ++ G) l = 0).
Proof.
  intros sent F G. apply sview_mutind.
  - intros s _. split; reflexivity.
  - intros t ch IH H. rewrite vpending_El in H. destruct (IH H) as [E1 E2].
    rewrite !vis_El, vpending_El, E1, E2. split; reflexivity.
  - intros i fb ch IH H. rewrite vpending_Sus in H. rewrite !vis_Sus, vpending_Sus.
    destruct (memn i sent); [apply IH, H|split; reflexivity].
  - intros g res IH H. rewrite vpending_Async in H. rewrite !vis_Async, vpending_Async.
    destruct (fired F g) eqn:E; [|discriminate]. rewrite (fired_mono F G g E). apply IH, H.
  - intros _. split; reflexivity.
  - intros x r IHx IHr H. rewrite vpending_cons in H.
    destruct IHx as [E1 E2]; [lia|]. destruct IHr as [E3 E4]; [lia|].
    rewrite !vis_cons, vpending_cons, E1, E2, E3, E4. split; reflexivity.
Qed.

Lemma pending_nil_both : forall F,
  (forall v, pending [] v = 0 -> pending F v = 0) /\ (forall l, pending_list [] l = 0 -> pending_list F l = 0).
Proof.
  intros F. apply sview_mutind.
  - reflexivity.
  - intros t ch IH H. rewrite pending_El in *. apply IH, H.
  - reflexivity.
  - intros g res IH H. rewrite pending_Async in H. cbn in H. discriminate.
  - reflexivity.
  - intros x r IHx IHr H. rewrite pending_cons in *. rewrite IHx, IHr; lia.
Qed.

(* find_sus and the boundary list *)
Lemma find_sus_ids_both : forall F id,
  (forall v ch, find_sus F id v = Some ch -> In id (ids v)) /\
  (forall l ch, find_sus_list F id l = Some ch -> In id (ids_list l)).
Proof.
  intros F id. apply sview_mutind.
  - intros s ch H. discriminate.
  - intros t c IH ch H. rewrite find_sus_El in H. rewrite ids_El. apply (IH ch H).
  - intros i fb c IH ch H. rewrite find_sus_Sus in H. rewrite ids_Sus. destruct (Nat.eqb i id) eqn:E.
    + left. apply Nat.eqb_eq, E.
    + right. apply (IH ch H).
  - intros g res IH ch H. rewrite find_sus_Async in H. rewrite ids_Async. destruct (fired F g); [apply (IH ch H)|discriminate].
  - intros ch H. discriminate.
  - intros x r IHx IHr ch H. rewrite find_sus_cons in H. rewrite ids_cons. apply in_or_app.
    destruct (find_sus F id x) as [c|] eqn:E; [left; apply (IHx c eq_refl)|right; apply (IHr ch H)].
Qed.
Lemma find_sus_not_in : forall F id v, ~ In id (ids v) -> find_sus F id v = None.
Proof. intros F id v H. destruct (find_sus F id v) as [c|] eqn:E; [|reflexivity]. exfalso. apply H, (proj1 (find_sus_ids_both F id) v c E). Qed.
Lemma find_sus_list_not_in : forall F id l, ~ In id (ids_list l) -> find_sus_list F id l = None.
Proof. intros F id l H. destruct (find_sus_list F id l) as [c|] eqn:E; [|reflexivity]. exfalso. apply H, (proj2 (find_sus_ids_both F id) l c E). Qed.

Lemma boundaries_in_ids : forall F v p t, In t (boundaries F p v) -> In (fst (fst t)) (ids v).
Proof.
  intros F v p t H. apply (proj1 (boundaries_parents_both F)) in H. rewrite <- (proj1 ids_parents_both v p).
  apply (in_map fst) in H. exact H.
Qed.
Lemma boundaries_list_in_ids : forall F l p t, In t (boundaries_list F p l) -> In (fst (fst t)) (ids_list l).
Proof.
  intros F l p t H. apply (proj2 (boundaries_parents_both F)) in H. rewrite <- (ids_parents_list l p).
  apply (in_map fst) in H. exact H.
Qed.

Lemma tuple_find_both : forall F id par n,
  (forall v p, NoDup (ids v) -> In (id, par, n) (boundaries F p v) ->
               exists ch, find_sus F id v = Some ch /\ n = pending_list F ch) /\
  (forall l p, NoDup (ids_list l) -> In (id, par, n) (boundaries_list F p l) ->
               exists ch, find_sus_list F id l = Some ch /\ n = pending_list F ch).
Proof.
  intros F id par n. apply sview_mutind.
  - intros s p _ [].
  - intros t c IH p Hnd H. rewrite ids_El in Hnd. rewrite boundaries_El in H. rewrite find_sus_El. apply (IH p Hnd H).
  - intros i fb c IH p Hnd H. rewrite ids_Sus in Hnd. rewrite boundaries_Sus in H. rewrite find_sus_Sus.
    inversion Hnd as [|? ? Hi Hc]; subst. destruct H as [H|H].
    + injection H as -> _ <-. rewrite Nat.eqb_refl. exists c. split; reflexivity.
    + assert (Hid : In id (ids_list c)) by apply (boundaries_list_in_ids F c (Some i) _ H).
      destruct (Nat.eqb i id) eqn:E; [apply Nat.eqb_eq in E; subst; contradiction|]. apply (IH (Some i) Hc H).
  - intros g res IH p Hnd H. rewrite ids_Async in Hnd. rewrite boundaries_Async in H. rewrite find_sus_Async.
    destruct (fired F g); [apply (IH p Hnd H)|destruct H].
  - intros p _ [].
  - intros x r IHx IHr p Hnd H. rewrite ids_cons in Hnd. rewrite boundaries_cons in H. rewrite find_sus_cons.
    apply in_app_or in H. destruct H as [H|H].
    + destruct (IHx p (NoDup_app_l _ _ Hnd) H) as [ch [E En]]. rewrite E. exists ch. split; [reflexivity|exact En].
    + assert (Hid : In id (ids_list r)) by apply (boundaries_list_in_ids F r p _ H).
      rewrite (find_sus_not_in F id x).
      * apply (IHr p (NoDup_app_r _ _ Hnd) H).
      * intros Hx. exact (NoDup_app_disj _ _ id Hnd Hx Hid).
Qed.

(* the sent set is closed under lexical parents *)
Definition closed (sent : list nat) (L : list (nat * option nat)) : Prop :=
  forall i q, In (i, q) L -> memn i sent = true -> par_ok sent q.

Lemma closed_app : forall sent L1 L2, closed sent (L1 ++ L2) -> closed sent L1 /\ closed sent L2.
Proof. intros sent L1 L2 H. split; intros i q Hi; apply H, in_or_app; [left|right]; exact Hi. Qed.

Lemma parents_par_both :
  (forall v p i q, In (i, q) (parents p v) -> q = p \/ exists j, q = Some j /\ In j (ids v)) /\
  (forall l p i q, In (i, q) (parents_list p l) -> q = p \/ exists j, q = Some j /\ In j (ids_list l)).
Proof.
  apply sview_mutind.
  - intros s p i q [].
  - intros t c IH p i q H. rewrite parents_El in H. rewrite ids_El. apply (IH p i q H).
  - intros k fb c IH p i q H. rewrite parents_Sus in H. rewrite ids_Sus. destruct H as [H|H].
    + injection H as _ <-. left. reflexivity.
    + right. destruct (IH (Some k) i q H) as [->|[j [-> Hj]]].
      * exists k. split; [reflexivity|left; reflexivity].
      * exists j. split; [reflexivity|right; exact Hj].
  - intros g res IH p i q H. rewrite parents_Async in H. rewrite ids_Async. apply (IH p i q H).
  - intros p i q [].
  - intros x r IHx IHr p i q H. rewrite parents_cons in H. rewrite ids_cons. apply in_app_or in H. destruct H as [H|H].
    + destruct (IHx p i q H) as [->|[j [-> Hj]]]; [left; reflexivity|right; exists j; split; [reflexivity|apply in_or_app; left; exact Hj]].
    + destruct (IHr p i q H) as [->|[j [-> Hj]]]; [left; reflexivity|right; exists j; split; [reflexivity|apply in_or_app; right; exact Hj]].
Qed.

(* below an unsent boundary nothing is sent *)
Lemma unsent_sub_both : forall sent,
  (forall v k, memn k sent = false -> closed sent (parents (Some k) v) -> forall j, In j (ids v) -> memn j sent = false) /\
  (forall l k, memn k sent = false -> closed sent (parents_list (Some k) l) -> forall j, In j (ids_list l) -> memn j sent = false).
Proof.
  intros sent. apply sview_mutind.
  - intros s k _ _ j [].
  - intros t c IH k Hk Hc j Hj. rewrite parents_El in Hc. rewrite ids_El in Hj. apply (IH k Hk Hc j Hj).
  - intros i fb c IH k Hk Hc j Hj. rewrite parents_Sus in Hc. rewrite ids_Sus in Hj.
    assert (Hi : memn i sent = false).
    { destruct (memn i sent) eqn:E; [|reflexivity]. specialize (Hc i (Some k) (or_introl eq_refl) E). cbn [par_ok] in Hc. congruence. }
    destruct Hj as [<-|Hj]; [exact Hi|]. apply (IH i Hi); [|exact Hj].
    intros a q Ha. apply Hc. right. exact Ha.
  - intros g res IH k Hk Hc j Hj. rewrite parents_Async in Hc. rewrite ids_Async in Hj. apply (IH k Hk Hc j Hj).
  - intros k _ _ j [].
  - intros x r IHx IHr k Hk Hc j Hj. rewrite parents_cons in Hc. rewrite ids_cons in Hj. apply closed_app in Hc.
    destruct Hc as [Hc1 Hc2]. apply in_app_or in Hj. destruct Hj as [Hj|Hj]; [apply (IHx k Hk Hc1 j Hj)|apply (IHr k Hk Hc2 j Hj)].
Qed.

(* a boundary that exists, is not sent, and whose parent is sent (or that has none) has its hole in the document *)
Lemma hole_present_both : forall sent F id par n,
  memn id sent = false -> par_ok sent par ->
  (forall v p, closed sent (parents p v) -> In (id, par, n) (boundaries F p v) ->
               existsb (has_hole id) (vis sent F v) = true) /\
  (forall l p, closed sent (parents_list p l) -> In (id, par, n) (boundaries_list F p l) ->
               existsb (has_hole id) (vis_list sent F l) = true).
Proof.
  intros sent F id par n Hid Hpar. apply sview_mutind.
  - intros s p _ [].
  - intros t c IH p Hc H. rewrite parents_El in Hc. rewrite boundaries_El in H. rewrite vis_El.
    cbn [existsb has_hole]. rewrite (IH p Hc H). reflexivity.
  - intros i fb c IH p Hc H. rewrite parents_Sus in Hc. rewrite boundaries_Sus in H. rewrite vis_Sus.
    destruct H as [H|H].
    + injection H as -> _ _. rewrite Hid. cbn [existsb has_hole]. rewrite Nat.eqb_refl. reflexivity.
    + assert (Hc' : closed sent (parents_list (Some i) c)) by (intros a q Ha; apply Hc; right; exact Ha).
      destruct (memn i sent) eqn:Ei; [apply (IH (Some i) Hc' H)|]. exfalso.
      pose proof (proj2 (unsent_sub_both sent) c i Ei Hc') as Hun.
      apply (proj2 (boundaries_parents_both F)) in H. cbn [strip fst] in H.
      destruct (proj2 parents_par_both c (Some i) id par H) as [->|[j [-> Hj]]]; cbn [par_ok] in Hpar.
      * congruence.
      * rewrite (Hun j Hj) in Hpar. discriminate.
  - intros g res IH p Hc H. rewrite parents_Async in Hc. rewrite boundaries_Async in H. rewrite vis_Async.
    destruct (fired F g); [apply (IH p Hc H)|destruct H].
  - intros p _ [].
  - intros x r IHx IHr p Hc H. rewrite parents_cons in Hc. rewrite boundaries_cons in H. rewrite vis_cons, existsb_app.
    apply closed_app in Hc. destruct Hc as [Hc1 Hc2]. apply in_app_or in H. destruct H as [H|H].
    + rewrite (IHx p Hc1 H). reflexivity.
    + rewrite (IHr p Hc2 H). apply orb_true_r.
Qed.

(* sending a boundary that does not exist in this part changes nothing here *)
Lemma vis_absent_both : forall sent F id frag,
  (forall v, find_sus F id v = None ->
     vis (sent ++ [id]) F v = vis sent F v /\ flat_map (subst id frag) (vis sent F v) = vis sent F v /\
     vpending (sent ++ [id]) F v = vpending sent F v) /\
  (forall l, find_sus_list F id l = None ->
     vis_list (sent ++ [id]) F l = vis_list sent F l /\ flat_map (subst id frag) (vis_list sent F l) = vis_list sent F l /\
     vpending_list (sent ++ [id]) F l = vpending_list sent F l).
Proof.
  intros sent F id frag. apply sview_mutind.
  - intros s _. repeat split; reflexivity.
  - intros t c IH H. rewrite find_sus_El in H. destruct (IH H) as [E1 [E2 E3]].
    rewrite !vis_El, !vpending_El, E1, E3. cbn [flat_map subst app]. rewrite E2. repeat split; reflexivity.
  - intros i fb c IH H. rewrite find_sus_Sus in H. destruct (Nat.eqb i id) eqn:E; [discriminate|].
    rewrite !vis_Sus, !vpending_Sus, memn_app, memn_single, E, orb_false_r.
    destruct (memn i sent); [apply IH, H|]. cbn [flat_map subst app]. rewrite E. repeat split; reflexivity.
  - intros g res IH H. rewrite find_sus_Async in H. rewrite !vis_Async, !vpending_Async.
    destruct (fired F g); [apply IH, H|repeat split; reflexivity].
  - intros _. repeat split; reflexivity.
  - intros x r IHx IHr H. rewrite find_sus_cons in H. destruct (find_sus F id x) eqn:E; [discriminate|].
    destruct (IHx eq_refl) as [E1 [E2 E3]]. destruct (IHr H) as [E4 [E5 E6]].
    rewrite !vis_cons, !vpending_cons, flat_map_app, E1, E2, E3, E4, E5, E6. repeat split; reflexivity.
Qed.

(* sending an existing unsent boundary: the script puts its current content in place of its hole *)
Lemma vis_emit_both : forall sent F id ch,
  memn id sent = false ->
  (forall v p, find_sus F id v = Some ch -> NoDup (ids v) -> closed sent (parents p v) ->
     flat_map (subst id (content_list F ch)) (vis sent F v) = vis (sent ++ [id]) F v /\
     (pending_list F ch = 0 -> vpending sent F v = 0 -> vpending (sent ++ [id]) F v = 0)) /\
  (forall l p, find_sus_list F id l = Some ch -> NoDup (ids_list l) -> closed sent (parents_list p l) ->
     flat_map (subst id (content_list F ch)) (vis_list sent F l) = vis_list (sent ++ [id]) F l /\
     (pending_list F ch = 0 -> vpending_list sent F l = 0 -> vpending_list (sent ++ [id]) F l = 0)).
Proof.
  intros sent F id ch Hid. apply sview_mutind.
  - intros s p H. discriminate.
  - intros t c IH p H Hnd Hc. rewrite find_sus_El in H. rewrite ids_El in Hnd. rewrite parents_El in Hc.
    destruct (IH p H Hnd Hc) as [E1 E2]. rewrite !vis_El, !vpending_El. cbn [flat_map subst app]. rewrite E1.
    split; [reflexivity|exact E2].
  - intros i fb c IH p H Hnd Hc. rewrite find_sus_Sus in H. rewrite ids_Sus in Hnd. rewrite parents_Sus in Hc.
    inversion Hnd as [|? ? Hi Hndc]; subst.
    assert (Hc' : closed sent (parents_list (Some i) c)) by (intros a q Ha; apply Hc; right; exact Ha).
    rewrite !vis_Sus, !vpending_Sus, memn_app, memn_single.
    destruct (Nat.eqb i id) eqn:E.
    + apply Nat.eqb_eq in E. subst i. injection H as <-. rewrite Hid. cbn [orb flat_map subst app].
      rewrite Nat.eqb_refl, app_nil_r.
      destruct (proj2 (vis_none_both (sent ++ [id]) F) c) as [E1 E2].
      { intros j Hj. rewrite memn_app, memn_single.
        rewrite (proj2 (unsent_sub_both sent) c id Hid Hc' j Hj). cbn [orb].
        apply Nat.eqb_neq. intros ->. contradiction. }
      rewrite E1, E2. split; [reflexivity|intros H0 _; exact H0].
    + rewrite orb_false_r. destruct (memn i sent); [apply (IH (Some i) H Hndc Hc')|].
      cbn [flat_map subst app]. rewrite E. split; reflexivity.
  - intros g res IH p H Hnd Hc. rewrite find_sus_Async in H. rewrite ids_Async in Hnd. rewrite parents_Async in Hc.
    rewrite !vis_Async, !vpending_Async. destruct (fired F g); [apply (IH p H Hnd Hc)|discriminate].
  - intros p H. discriminate.
  - intros x r IHx IHr p H Hnd Hc. rewrite find_sus_cons in H. rewrite ids_cons in Hnd. rewrite parents_cons in Hc.
    apply closed_app in Hc. destruct Hc as [Hc1 Hc2].
    rewrite !vis_cons, !vpending_cons, flat_map_app.
    destruct (find_sus F id x) as [c'|] eqn:E.
    + injection H as ->. destruct (IHx p eq_refl (NoDup_app_l _ _ Hnd) Hc1) as [E1 E2].
      assert (Hr : find_sus_list F id r = None).
      { apply find_sus_list_not_in. apply (NoDup_app_disj _ _ id Hnd). apply (proj1 (find_sus_ids_both F id) x ch E). }
      destruct (proj2 (vis_absent_both sent F id (content_list F ch)) r Hr) as [E3 [E4 E5]].
      rewrite E1, E3, E4, E5. split; [reflexivity|]. intros H0 Hv. rewrite E2; lia.
    + destruct (proj1 (vis_absent_both sent F id (content_list F ch)) x E) as [E3 [E4 E5]].
      destruct (IHr p H (NoDup_app_r _ _ Hnd) Hc2) as [E1 E2].
      rewrite E1, E3, E4, E5. split; [reflexivity|]. intros H0 Hv. rewrite E2; lia.
Qed.

Lemma par_ok_app : forall sent l q, par_ok sent q -> par_ok (sent ++ l) q.
Proof. intros sent l [p|] H; [|exact I]. cbn [par_ok] in *. rewrite memn_app, H. reflexivity. Qed.

Definition no_top_async (vs : list sview) : Prop := pending_list [] vs = 0.

Definition s3_state (vs : list sview) (st : sstate) : Prop :=
  s_doc st = Some (vis_list (s_sent st) (s_fired st) vs) /\
  vpending_list (s_sent st) (s_fired st) vs = 0 /\
  closed (s_sent st) (parents_list None vs).
Definition s3_inv (vs : list sview) (F : list nat) (a : emit_acc) : Prop :=
  let '(st, _, _) := a in s_fired st = F /\ s3_state vs st.

Lemma emit_body_s3 : forall vs F a id par n,
  uniq_ids vs -> In (id, par, n) (boundaries_list F None vs) -> s3_inv vs F a -> s3_inv vs F (emit_body F vs a (id, par, n)).
Proof.
  intros vs F [[sa la] oa] id par n Hu Hb [HF [Hd [Hv Hc]]]. rewrite HF in Hd, Hv.
  destruct (emit_body_cases F vs sa la oa id par n) as [ld [-> | [Hn [_ [Hm [Hp ->]]]]]].
  - split; [exact HF|]. unfold s3_state. rewrite HF. repeat split; assumption.
  - subst n. destruct (proj2 (tuple_find_both F id par 0) vs None Hu Hb) as [ch [Hfind Hpend]].
    destruct (proj2 (vis_emit_both (s_sent sa) F id ch Hm) vs None Hfind Hu Hc) as [Evis Evp].
    cbn [s3_inv]. split; [reflexivity|]. unfold s3_state. cbn [s_fired s_sent s_doc]. repeat split.
    + rewrite Hd, Hfind. unfold apply_fragment.
      rewrite (proj2 (hole_present_both (s_sent sa) F id par 0 Hm Hp) vs None Hc Hb), Evis. reflexivity.
    + apply Evp; [symmetry; exact Hpend|exact Hv].
    + intros i q Hi Hmi. rewrite memn_app, memn_single in Hmi. apply orb_prop in Hmi. destruct Hmi as [Hmi|Hmi].
      * apply par_ok_app. apply (Hc i q Hi Hmi).
      * apply Nat.eqb_eq in Hmi. subst i. apply par_ok_app.
        rewrite (uniq_parent vs id q par Hu Hi (boundaries_parents F vs id par 0 Hb)). exact Hp.
Qed.

Lemma emit_pass_s3 : forall vs st,
  uniq_ids vs -> s3_state vs st -> s3_state vs (fst (emit_pass vs st)).
Proof.
  intros vs st Hu H. rewrite emit_pass_eq.
  pose proof (fold_left_inv _ _ (emit_body (s_fired st) vs) (s3_inv vs (s_fired st)) (boundaries_list (s_fired st) None vs)) as Hinv.
  destruct (fold_left _ _ _) as [[st2 loads2] out2] eqn:Ef. cbn [fst].
  assert (H2 : s3_inv vs (s_fired st) (st2, loads2, out2)).
  { rewrite <- Ef. apply Hinv; [|split; [reflexivity|exact H]].
    intros a [[id par] n] Hb Ha. apply emit_body_s3; assumption. }
  exact (proj2 H2).
Qed.

Lemma s3_state_init : forall vs, no_top_async vs -> s3_state vs (SState [] [] (Some (content_list [] vs))).
Proof.
  intros vs Hn. unfold s3_state. cbn [s_doc s_sent s_fired]. destruct (vis_nil_list [] vs) as [E1 E2].
  rewrite E1, E2. repeat split; [exact Hn|]. intros i q _ Hm. discriminate.
Qed.

Lemma s3_state_fire : forall vs st g,
  s3_state vs st -> s3_state vs (SState (s_fired st ++ [g]) (s_sent st) (s_doc st)).
Proof.
  intros vs st g [Hd [Hv Hc]]. unfold s3_state. cbn [s_doc s_sent s_fired].
  destruct (proj2 (vis_step_both (s_sent st) (s_fired st) [g]) vs Hv) as [E1 E2].
  rewrite E1, E2. repeat split; assumption.
Qed.

Lemma reach_s3 : forall vs sched, uniq_ids vs -> no_top_async vs -> s3_state vs (reach vs sched).
Proof.
  intros vs sched Hu Hn. revert sched. apply (reach_ind vs (fun _ st => s3_state vs st)).
  - unfold stream_init. apply emit_pass_s3; [exact Hu|]. apply s3_state_init, Hn.
  - intros sched st g H. unfold stream_step. apply emit_pass_s3; [exact Hu|]. apply s3_state_fire, H.
Qed.

(* the script never fails: the document of every reachable state is defined, and it is [vis] *)
Theorem stream_doc_defined : forall vs sched,
  uniq_ids vs -> no_top_async vs ->
  s_doc (reach vs sched) = Some (vis_list (s_sent (reach vs sched)) sched vs).
Proof.
  intros vs sched Hu Hn. destruct (reach_s3 vs sched Hu Hn) as [Hd _].
  rewrite (proj2 (proj2 (stream_sent_once vs sched))) in Hd. exact Hd.
Qed.

(* ---- liveness of a pass: every existing boundary that is not loading has been sent ---- *)
(* the loading table the pass computes (it does not depend on the state) *)
Definition load_step (loads : list (nat * bool)) (t : nat * option nat * nat) : list (nat * bool) :=
  let '(id, parent, pend) := t in
  (id, Nat.ltb 0 pend || match parent with Some p => lookup_loading loads p | None => false end) :: loads.
Definition loading_table (F : list nat) (vs : list sview) : list (nat * bool) :=
  fold_left load_step (boundaries_list F None vs) [].

Lemma emit_body_loads : forall F vs st loads out t,
  snd (fst (emit_body F vs (st, loads, out) t)) = load_step loads t.
Proof.
  intros F vs st loads out [[id par] n]. cbn [emit_body load_step].
  destruct (negb _ && negb _ && _); reflexivity.
Qed.

(* creation order: the parent of a boundary comes before it *)
Fixpoint pfirst (seen : list nat) (l : list (nat * option nat * nat)) : Prop :=
  match l with
  | [] => True
  | t :: r => match snd (fst t) with None => True | Some p => In p seen end /\ pfirst (fst (fst t) :: seen) r
  end.

Lemma pfirst_incl : forall l seen seen', incl seen seen' -> pfirst seen l -> pfirst seen' l.
Proof.
  induction l as [|t r IH]; intros seen seen' Hi H; [exact I|]. cbn [pfirst] in *. destruct H as [H1 H2]. split.
  - destruct (snd (fst t)); [apply Hi, H1|exact I].
  - apply (IH (fst (fst t) :: seen)); [|exact H2]. intros x [<-|Hx]; [left; reflexivity|right; apply Hi, Hx].
Qed.
Lemma pfirst_app : forall l1 l2 seen, pfirst seen l1 -> pfirst seen l2 -> pfirst seen (l1 ++ l2).
Proof.
  induction l1 as [|t r IH]; intros l2 seen H1 H2; [exact H2|]. cbn [app pfirst] in *. destruct H1 as [Ha Hb].
  split; [exact Ha|]. apply IH; [exact Hb|]. apply (pfirst_incl l2 seen); [intros x Hx; right; exact Hx|exact H2].
Qed.

Lemma boundaries_pfirst_both : forall F,
  (forall v p seen, match p with None => True | Some q => In q seen end -> pfirst seen (boundaries F p v)) /\
  (forall l p seen, match p with None => True | Some q => In q seen end -> pfirst seen (boundaries_list F p l)).
Proof.
  intros F. apply sview_mutind.
  - intros s p seen _. exact I.
  - intros t c IH p seen H. rewrite boundaries_El. apply IH, H.
  - intros i fb c IH p seen H. rewrite boundaries_Sus. cbn [pfirst fst snd]. split; [exact H|].
    apply IH. left. reflexivity.
  - intros g res IH p seen H. rewrite boundaries_Async. destruct (fired F g); [apply IH, H|exact I].
  - intros p seen _. exact I.
  - intros x r IHx IHr p seen H. rewrite boundaries_cons. apply pfirst_app; [apply IHx, H|apply IHr, H].
Qed.

Lemma lookup_loading_false : forall loads p,
  In p (map fst loads) -> lookup_loading loads p = false -> In (p, false) loads.
Proof.
  intros loads p Hin Hl. unfold lookup_loading in Hl. destruct (find _ loads) as [[a b]|] eqn:E.
  - apply find_some in E. destruct E as [Hi He]. cbn [fst snd] in *. apply Nat.eqb_eq in He. subst. exact Hi.
  - apply in_map_iff in Hin. destruct Hin as [[a b] [Ha Hi]]. cbn [fst] in Ha. subst a.
    pose proof (find_none _ _ E _ Hi) as Hn. cbn [fst] in Hn. rewrite Nat.eqb_refl in Hn. discriminate.
Qed.

Definition live (sent : list nat) (loads : list (nat * bool)) : Prop :=
  forall i, In (i, false) loads -> memn i sent = true.

Lemma emit_fold_live : forall F vs l st loads out,
  pfirst (map fst loads) l -> live (s_sent st) loads ->
  let r := fold_left (emit_body F vs) l (st, loads, out) in
  snd (fst r) = fold_left load_step l loads /\ live (s_sent (fst (fst r))) (snd (fst r)).
Proof.
  intros F vs l. induction l as [|[[id par] n] l IH]; intros st loads out Hpf Hlive.
  - cbn [fold_left fst snd]. split; [reflexivity|exact Hlive].
  - cbn [fold_left]. cbn [pfirst fst snd] in Hpf. destruct Hpf as [Hpar Hpf].
    pose proof (emit_body_loads F vs st loads out (id, par, n)) as Hloads.
    destruct (emit_body F vs (st, loads, out) (id, par, n)) as [[st1 loads1] out1] eqn:Eb. cbn [fst snd] in Hloads.
    assert (Hlive1 : live (s_sent st1) loads1).
    { destruct (emit_body_cases F vs st loads out id par n) as [ld [E | [Hn [Hld [Hm [Hp E]]]]]];
        rewrite Eb in E; injection E as -> El ->.
      - (* not emitted *)
        rewrite Hloads in El. cbn [load_step] in El. injection El as Eld.
        rewrite Hloads. cbn [load_step]. intros i [Hi|Hi]; [|apply Hlive, Hi]. injection Hi as -> Hf.
        apply orb_false_elim in Hf. destruct Hf as [En Elp].
        (* the step did not emit although not loading: already sent, or the parent is not sent -- impossible *)
        cbn [emit_body] in Eb. rewrite En, Elp in Eb. cbn [orb negb andb] in Eb.
        destruct (memn i (s_sent st)) eqn:Em; [reflexivity|]. exfalso. cbn [negb andb] in Eb.
        destruct par as [p|].
        + assert (Hps : memn p (s_sent st) = true) by (apply Hlive, lookup_loading_false; assumption).
          rewrite Hps in Eb. injection Eb as Eb _ _. apply (f_equal s_sent) in Eb. cbn [s_sent] in Eb.
          apply (f_equal (@List.length nat)) in Eb. rewrite app_length in Eb. cbn [List.length] in Eb. lia.
        + injection Eb as Eb _ _. apply (f_equal s_sent) in Eb. cbn [s_sent] in Eb.
          apply (f_equal (@List.length nat)) in Eb. rewrite app_length in Eb. cbn [List.length] in Eb. lia.
      - (* emitted *)
        rewrite El. cbn [s_sent]. intros i [Hi|Hi].
        + injection Hi as -> _. rewrite memn_app, memn_single, Nat.eqb_refl. apply orb_true_r.
        + rewrite memn_app, (Hlive i Hi). reflexivity. }
    specialize (IH st1 loads1 out1). rewrite Hloads in IH at 1. cbn [load_step map fst] in IH.
    rewrite <- Hloads. apply IH; [exact Hpf|exact Hlive1].
Qed.

Theorem emit_pass_live : forall vs st i,
  In (i, false) (loading_table (s_fired st) vs) -> In i (s_sent (fst (emit_pass vs st))).
Proof.
  intros vs st i Hi. rewrite emit_pass_eq.
  destruct (emit_fold_live (s_fired st) vs (boundaries_list (s_fired st) None vs) st [] []) as [E1 E2].
  - apply (proj2 (boundaries_pfirst_both (s_fired st))). exact I.
  - intros j [].
  - destruct (fold_left _ _ _) as [[st2 loads2] out2]. cbn [fst snd] in *. apply memn_In, E2. rewrite E1. exact Hi.
Qed.

Lemma reach_pass : forall vs sched, exists st0, s_fired st0 = sched /\ reach vs sched = fst (emit_pass vs st0).
Proof.
  intros vs sched. destruct sched as [|g s] using rev_ind.
  - exists (SState [] [] (Some (content_list [] vs))). split; reflexivity.
  - rewrite reach_snoc. exists (SState (s_fired (reach vs s) ++ [g]) (s_sent (reach vs s)) (s_doc (reach vs s))).
    split; [|reflexivity]. cbn [s_fired]. rewrite (proj2 (proj2 (stream_sent_once vs s))). reflexivity.
Qed.

(* in every reachable state, every existing boundary that is not loading (own tasks and ancestors' tasks all
   finished) has been streamed *)
Theorem reach_live : forall vs sched i,
  In (i, false) (loading_table sched vs) -> In i (s_sent (reach vs sched)).
Proof.
  intros vs sched i H. destruct (reach_pass vs sched) as [st0 [Hf ->]]. apply emit_pass_live. rewrite Hf. exact H.
Qed.

Lemma load_fold_fst : forall l loads,
  map fst (fold_left load_step l loads) = rev (map (fun t => fst (fst t)) l) ++ map fst loads.
Proof.
  induction l as [|[[id par] n] l IH]; intros loads; [reflexivity|].
  cbn [fold_left]. rewrite IH. cbn [load_step map fst rev]. rewrite <- app_assoc. reflexivity.
Qed.
Lemma load_fold_false : forall l loads,
  (forall t, In t l -> snd t = 0) -> (forall x, In x loads -> snd x = false) ->
  forall x, In x (fold_left load_step l loads) -> snd x = false.
Proof.
  induction l as [|[[id par] n] l IH]; intros loads Hl Hloads x Hx; [apply Hloads, Hx|].
  cbn [fold_left] in Hx. apply (IH (load_step loads (id, par, n))); [intros t Ht; apply Hl; right; exact Ht| |exact Hx].
  intros y [<-|Hy]; [|apply Hloads, Hy].
  pose proof (Hl (id, par, n) (or_introl eq_refl)) as Hn. cbn [snd] in Hn. subst n. cbn [load_step snd Nat.ltb Nat.leb orb].
  destruct par as [p|]; [|reflexivity]. unfold lookup_loading. destruct (find _ loads) as [z|] eqn:E; [|reflexivity].
  apply find_some in E. apply Hloads, E.
Qed.

Lemma table_all_false : forall F vs t,
  global_pending F vs = 0 -> In t (boundaries_list F None vs) -> In (fst (fst t), false) (loading_table F vs).
Proof.
  intros F vs t Hg Ht. rewrite global_pending_eq in Hg.
  assert (Hin : In (fst (fst t)) (map fst (loading_table F vs))).
  { unfold loading_table. rewrite load_fold_fst, app_nil_r, <- in_rev. apply (in_map (fun t => fst (fst t))), Ht. }
  apply in_map_iff in Hin. destruct Hin as [[a b] [Ha Hx]]. cbn [fst] in Ha. subst a.
  assert (Hb : b = false).
  { apply (load_fold_false (boundaries_list F None vs) [] (proj1 (sum_pend_0 _) Hg) (fun x (H : In x []) => match H with end) _ Hx). }
  subst b. exact Hx.
Qed.

(* when nothing is pending every lexical boundary exists *)
Lemma all_exist_both : forall F,
  (forall v p, pending F v = 0 -> sum_pend (boundaries F p v) = 0 -> map strip (boundaries F p v) = parents p v) /\
  (forall l p, pending_list F l = 0 -> sum_pend (boundaries_list F p l) = 0 -> map strip (boundaries_list F p l) = parents_list p l).
Proof.
  intros F. apply sview_mutind.
  - reflexivity.
  - intros t c IH p Hp Hs. rewrite pending_El in Hp. rewrite boundaries_El in *. rewrite parents_El. apply (IH p Hp Hs).
  - intros i fb c IH p _ Hs. rewrite boundaries_Sus in *. rewrite sum_pend_cons in Hs. cbn [snd] in Hs.
    rewrite parents_Sus. cbn [map]. rewrite (IH (Some i)); [reflexivity|lia|lia].
  - intros g res IH p Hp Hs. rewrite pending_Async in Hp. rewrite boundaries_Async in *. rewrite parents_Async.
    destruct (fired F g); [apply (IH p Hp Hs)|discriminate].
  - reflexivity.
  - intros x r IHx IHr p Hp Hs. rewrite pending_cons in Hp. rewrite boundaries_cons in *. rewrite sum_pend_app in Hs.
    rewrite parents_cons, map_app, (IHx p), (IHr p); try lia. reflexivity.
Qed.

(* every existing boundary sent: the document is the blocking content *)
Lemma vis_all_both : forall sent F,
  (forall v p, (forall t, In t (boundaries F p v) -> memn (fst (fst t)) sent = true) -> vis sent F v = deep F v) /\
  (forall l p, (forall t, In t (boundaries_list F p l) -> memn (fst (fst t)) sent = true) -> vis_list sent F l = deep_list F l).
Proof.
  intros sent F. apply sview_mutind.
  - reflexivity.
  - intros t c IH p H. rewrite boundaries_El in H. rewrite vis_El, deep_El, (IH p H). reflexivity.
  - intros i fb c IH p H. rewrite boundaries_Sus in H. rewrite vis_Sus, deep_Sus.
    pose proof (H _ (or_introl eq_refl)) as Hi. cbn [fst] in Hi. rewrite Hi.
    apply (IH (Some i)). intros t Ht. apply H. right. exact Ht.
  - intros g res IH p H. rewrite boundaries_Async in H. rewrite vis_Async, deep_Async.
    destruct (fired F g); [apply (IH p H)|reflexivity].
  - reflexivity.
  - intros x r IHx IHr p H. rewrite boundaries_cons in H. rewrite vis_cons, deep_cons, (IHx p), (IHr p); [reflexivity| |];
      intros t Ht; apply H, in_or_app; [right|left]; exact Ht.
Qed.

(* all tasks finished: every boundary of the view has been streamed (once), and the client document is the
   blocking result, which is the fully resolved content *)
Theorem stream_complete : forall vs sched,
  uniq_ids vs -> no_top_async vs -> global_pending sched vs = 0 ->
  (forall i, In i (ids_list vs) <-> In i (s_sent (reach vs sched))) /\
  NoDup (s_sent (reach vs sched)) /\
  s_doc (reach vs sched) = Some (deep_list sched vs) /\
  deep_list sched vs = full_list vs.
Proof.
  intros vs sched Hu Hn Hg.
  assert (Hp : pending_list sched vs = 0) by (apply (proj2 (pending_nil_both sched)), Hn).
  assert (Hall : forall t, In t (boundaries_list sched None vs) -> In (fst (fst t)) (s_sent (reach vs sched))).
  { intros t Ht. apply reach_live, table_all_false; assumption. }
  repeat split.
  - intros Hi. rewrite <- (ids_parents_list vs None) in Hi. apply in_map_iff in Hi. destruct Hi as [[j q] [Hj Hi]].
    cbn [fst] in Hj. subst j. rewrite <- (proj2 (all_exist_both sched) vs None Hp Hg) in Hi.
    apply in_map_iff in Hi. destruct Hi as [t [Ht Hi]]. apply Hall in Hi. unfold strip in Ht. rewrite Ht in Hi. exact Hi.
  - intros Hi. destruct (in_split _ _ Hi) as [l1 [l2 E]].
    destruct (reach_sent_ordered vs sched l1 i l2 E) as [par [Hpar _]]. apply (parents_in_ids i par None vs Hpar).
  - apply (stream_sent_once vs sched).
  - rewrite (stream_doc_defined vs sched Hu Hn). f_equal.
    apply (proj2 (vis_all_both (s_sent (reach vs sched)) sched) vs None). intros t Ht. apply memn_In, Hall, Ht.
  - apply blocking_content_full; assumption.
Qed.

(* ------------------------------------------------------------------------------------------------------ *)
(* the two hypotheses of S3 as boolean tests (the generator of the differential test satisfies both)        *)
Fixpoint nodupb (l : list nat) : bool :=
  match l with [] => true | x :: r => negb (memn x r) && nodupb r end.
Lemma nodupb_NoDup : forall l, nodupb l = true <-> NoDup l.
Proof.
  induction l as [|x r IH]; [split; [constructor|reflexivity]|]. cbn [nodupb]. rewrite andb_true_iff, negb_true_iff, memn_false, IH.
  split; [intros [H1 H2]; constructor; assumption|intros H; inversion H; subst; split; assumption].
Qed.
Definition uniq_idsb (vs : list sview) : bool := nodupb (ids_list vs).
Definition no_top_asyncb (vs : list sview) : bool := Nat.eqb (pending_list [] vs) 0.
Lemma uniq_idsb_ok : forall vs, uniq_idsb vs = true <-> uniq_ids vs.
Proof. intros vs. apply nodupb_NoDup. Qed.
Lemma no_top_asyncb_ok : forall vs, no_top_asyncb vs = true <-> no_top_async vs.
Proof. intros vs. apply Nat.eqb_eq. Qed.
Lemma no_top_async_any : forall vs F, no_top_async vs -> pending_list F vs = 0.
Proof. intros vs F H. apply (proj2 (pending_nil_both F)), H. Qed.

(* S3, assembled *)
Theorem stream_script_never_fails : forall vs sched,
  uniq_idsb vs = true -> no_top_asyncb vs = true -> exists d, s_doc (reach vs sched) = Some d.
Proof.
  intros vs sched Hu Hn. apply uniq_idsb_ok in Hu. apply no_top_asyncb_ok in Hn.
  eexists. apply (stream_doc_defined vs sched Hu Hn).
Qed.

Theorem stream_equals_blocking : forall vs sched,
  uniq_idsb vs = true -> no_top_asyncb vs = true -> global_pending sched vs = 0 ->
  (forall i, In i (ids_list vs) <-> In i (s_sent (reach vs sched))) /\
  NoDup (s_sent (reach vs sched)) /\
  s_doc (reach vs sched) = Some (full_list vs) /\
  s_doc (reach vs sched) = Some (deep_list sched vs).
Proof.
  intros vs sched Hu Hn Hg. apply uniq_idsb_ok in Hu. apply no_top_asyncb_ok in Hn.
  destruct (stream_complete vs sched Hu Hn Hg) as [H1 [H2 [H3 H4]]]. repeat split; try assumption; try apply H1.
  rewrite H3, H4. reflexivity.
Qed.

Print Assumptions blocking_step_first.
Print Assumptions blocking_step_none.
Print Assumptions blocking_content_full.
Print Assumptions stream_sent_once.
Print Assumptions parents_all_fired.
Print Assumptions stream_parent_first_any.
Print Assumptions stream_parent_first.
Print Assumptions stream_doc_defined.
Print Assumptions reach_live.
Print Assumptions stream_script_never_fails.
Print Assumptions stream_equals_blocking.

(* ------------------------------------------------------------------------------------------------------ *)
(* instances (non-vacuity) and counterexamples without the hypotheses                                      *)
From Coq Require Import String.
Section Examples.
  Local Open Scope string_scope.
  Local Open Scope list_scope.

  (* three nested boundaries and a dynamic one (boundary 4 is inside the resolved content of gate 3) *)
  Definition ex_view : list sview :=
    [SSus 1 "F1" [SSus 2 "F2" [SSus 3 "F3" [SAsync 1 [SText "c"]]; SAsync 2 [SText "b"]];
                  SAsync 3 [SSus 4 "F4" [SAsync 4 [SText "a"]]]]].

  Example ex_hyps : uniq_idsb ex_view = true /\ no_top_asyncb ex_view = true.
  Proof. split; vm_compute; reflexivity. Qed.
  Example ex_parents : parents_list None ex_view = [(1, None); (2, Some 1); (3, Some 2); (4, Some 1)].
  Proof. vm_compute. reflexivity. Qed.

  (* B1 *)
  Example ex_blocking_step :
    blocking_step ex_view [] [1; 2; 3; 4] 0 = Some 4 /\ blocking_step ex_view [] [4; 3; 2; 1] 0 = Some 4 /\
    blocking_step ex_view [] [4; 3; 2] 0 = None /\ blocking_step ex_view [] [2; 1; 3; 4; 7] 0 = Some 4 /\
    blocking_step [SSus 1 "F" [SAsync 1 []]] [] [1; 5] 0 = Some 1.
  Proof. repeat split; vm_compute; reflexivity. Qed.
  Example ex_blocking_first :
    global_pending ([] ++ firstn (4 - 0) [4; 3; 2; 1]) ex_view = 0 /\
    global_pending ([] ++ firstn (3 - 0) [4; 3; 2; 1]) ex_view = 1.
  Proof. split; vm_compute; reflexivity. Qed.
  (* with gate 3 still closed boundary 4 does not exist and nothing is pending once 1 and 2 have fired except
     the task of gate 3 itself, which is counted in boundary 1 *)
  Example ex_dynamic : map strip (boundaries_list [1; 2] None ex_view) = [(1, None); (2, Some 1); (3, Some 2)] /\
                       global_pending [1; 2] ex_view = 1 /\ global_pending [1; 2; 3] ex_view = 1.
  Proof. repeat split; vm_compute; reflexivity. Qed.

  (* B2 *)
  Example ex_blocking_content :
    pending_list [4; 3; 2; 1] ex_view = 0 /\ global_pending [4; 3; 2; 1] ex_view = 0 /\
    deep_list [4; 3; 2; 1] ex_view = [DText "c"; DText "b"; DText "a"] /\ full_list ex_view = [DText "c"; DText "b"; DText "a"].
  Proof. repeat split; vm_compute; reflexivity. Qed.
  (* B2 needs its first hypothesis: an async component outside every boundary is not waited for *)
  Example blocking_content_top_async_refuted :
    let vs := [SAsync 1 [SText "a"]] in
    global_pending [] vs = 0 /\ blocking_step vs [] [1] 0 = Some 0 /\ deep_list [] vs = [] /\ full_list vs = [DText "a"].
  Proof. repeat split; vm_compute; reflexivity. Qed.

  (* S1, S2 *)
  Example ex_stream_orders :
    emitted ex_view [1; 2; 3; 4] = [[]; []; []; [1; 2; 3]; [4]] /\ s_sent (reach ex_view [1; 2; 3; 4]) = [1; 2; 3; 4] /\
    emitted ex_view [4; 3; 2; 1] = [[]; []; [1; 4]; [2]; [3]] /\ s_sent (reach ex_view [4; 3; 2; 1]) = [1; 4; 2; 3].
  Proof. repeat split; vm_compute; reflexivity. Qed.
  Example ex_parent_first :
    s_sent (reach ex_view [4; 3; 2; 1]) = [1; 4; 2] ++ 3 :: [] /\ In (3, Some 2) (parents_list None ex_view) /\ In 2 [1; 4; 2].
  Proof. repeat split; vm_compute; tauto. Qed.
  (* S2 needs unique ids when stated for every lexical parent: the top-level boundary 2 is streamed at once,
     the other boundary 2 has parent 1, which has not been streamed *)
  Example parent_first_dup_ids_refuted :
    let vs := [SSus 1 "F1" [SAsync 1 [SSus 2 "a" []]]; SSus 2 "b" []] in
    uniq_idsb vs = false /\ s_sent (reach vs []) = [] ++ 2 :: [] /\ In (2, Some 1) (parents_list None vs) /\ ~ In 1 [].
  Proof. repeat split; vm_compute; tauto. Qed.

  (* S3 *)
  Example ex_stream_docs :
    s_doc (reach ex_view []) = Some [DHole 1 "F1"] /\
    s_doc (reach ex_view [3]) = Some [DHole 2 "F2"; DHole 4 "F4"] /\
    s_doc (reach ex_view [4; 3]) = Some [DHole 2 "F2"; DText "a"] /\
    s_doc (reach ex_view [4; 3]) = Some (vis_list [1; 4] [4; 3] ex_view) /\
    s_doc (reach ex_view [4; 3; 2]) = Some [DHole 3 "F3"; DText "b"; DText "a"] /\
    s_doc (reach ex_view [4; 3; 2; 1]) = Some (full_list ex_view) /\
    s_doc (reach ex_view [1; 2; 3; 4]) = Some (full_list ex_view) /\
    s_doc (reach ex_view [1; 2; 3]) = Some [DText "c"; DText "b"; DHole 4 "F4"].
  Proof. repeat split; vm_compute; reflexivity. Qed.
  Example ex_loading_table :
    loading_table [4; 3] ex_view = [(4, false); (3, true); (2, true); (1, false)].
  Proof. vm_compute. reflexivity. Qed.

  (* S3 needs "no async component outside the boundaries": the shell is sent without it, so the boundaries it
     creates later have no markers in the client document *)
  Example stream_top_async_refuted :
    let vs := [SAsync 1 [SSus 1 "F" [SText "x"]]] in
    uniq_idsb vs = true /\ no_top_asyncb vs = false /\ s_doc (reach vs [1]) = None.
  Proof. repeat split; vm_compute; reflexivity. Qed.
  (* S3 needs unique ids: the script fails ... *)
  Example stream_dup_ids_script_refuted :
    let vs := [SSus 1 "F" [SSus 2 "G" []]; SSus 1 "H" [SSus 3 "K" []]] in
    uniq_idsb vs = false /\ no_top_asyncb vs = true /\ s_doc (reach vs []) = None.
  Proof. repeat split; vm_compute; reflexivity. Qed.
  (* ... or the final document differs from the blocking result *)
  Example stream_dup_ids_content_refuted :
    let vs := [SSus 1 "F" [SText "a"]; SSus 1 "G" [SText "b"]] in
    uniq_idsb vs = false /\ no_top_asyncb vs = true /\ global_pending [] vs = 0 /\
    s_doc (reach vs []) = Some [DText "a"; DText "a"] /\ deep_list [] vs = [DText "a"; DText "b"].
  Proof. repeat split; vm_compute; reflexivity. Qed.
End Examples.
