(* Async/CounterFacts.v -- the counter invariant behind C13 (is_loading) and the last clause of C14 (release) *)
From Coq Require Import List Arith Bool Lia.
From Syc Require Import Async.Suspense Async.SuspenseFacts.
Import ListNotations.

Definition holds (s : nat) (ti : task_info) : bool :=
  match t_sus ti with Some s' => Nat.eqb s' s | None => false end.
Definition pendingb (st : astate) (ti : task_info) : bool :=
  match status st (t_id ti) with Some Pending => true | _ => false end.
(* number of unfinished tasks that hold a guard of boundary s *)
Definition guards (st : astate) (s : nat) : nat :=
  length (filter (fun ti => holds s ti && pendingb st ti) (tasks st)).
Definition is_sus_scope (st : astate) (s : nat) : bool :=
  existsb (fun sc => s_is_sus sc && Nat.eqb (s_id sc) s) (scopes st).

(* while the counter signal of a boundary is alive it equals the number of unfinished tasks registered under it *)
Definition CInv (st : astate) : Prop :=
  forall s, is_sus_scope st s = true -> counter_alive st s = true -> counter st s = guards st s.

Lemma count_same (s : nat) (pend pend' : task_info -> bool) (l : list task_info) :
  (forall x, In x l -> pend' x = pend x) ->
  length (filter (fun x => holds s x && pend x) l) = length (filter (fun x => holds s x && pend' x) l).
Proof.
  induction l as [|z l IH]; intros He; [reflexivity|]. cbn. rewrite (He z (or_introl eq_refl)).
  destruct (holds s z && pend z); cbn; rewrite IH; auto; intros; apply He; right; assumption.
Qed.

Lemma count_finish (s : nat) (pend pend' : task_info -> bool) (l : list task_info) (ti : task_info) :
  NoDup (map t_id l) -> In ti l -> pend ti = true -> pend' ti = false ->
  (forall x, In x l -> t_id x <> t_id ti -> pend' x = pend x) ->
  length (filter (fun x => holds s x && pend x) l) =
  length (filter (fun x => holds s x && pend' x) l) + (if holds s ti then 1 else 0).
Proof.
  induction l as [|y l IH]; intros Hnd Hin Hp Hp' Hoth; [destruct Hin|].
  cbn [map] in Hnd. inversion Hnd as [|? ? Hy Hnd']; subst.
  destruct Hin as [->|Hin].
  - cbn [filter]. rewrite Hp, Hp'. rewrite andb_true_r, andb_false_r.
    assert (Hc : length (filter (fun x => holds s x && pend x) l) = length (filter (fun x => holds s x && pend' x) l)).
    2: { destruct (holds s ti); cbn [length]; rewrite Hc; lia. }
    apply count_same. intros x Hx. apply Hoth; [right; exact Hx|]. intros Heq. apply Hy. rewrite <- Heq. apply in_map. exact Hx.
  - cbn [filter]. assert (Hne : t_id y <> t_id ti).
    { intros Heq. apply Hy. rewrite Heq. apply in_map. exact Hin. }
    rewrite (Hoth y (or_introl eq_refl) Hne).
    specialize (IH Hnd' Hin Hp Hp' (fun x Hx => Hoth x (or_intror Hx))).
    destruct (holds s y && pend y); cbn [length]; rewrite IH; lia.
Qed.

Lemma counter_dec st s' s : counter (dec_counter st s') s = if Nat.eqb s s' then counter st s' - 1 else counter st s.
Proof. unfold counter at 1. cbn. rewrite aget_aset. destruct (Nat.eqb s s'); reflexivity. Qed.

Lemma pendingb_set st t i x y :
  pendingb (set_progress st t (i, x)) y = if Nat.eqb (t_id y) t then (match x with Pending => true | _ => false end) else pendingb st y.
Proof. unfold pendingb, status. cbn. rewrite aget_aset. destruct (Nat.eqb (t_id y) t); reflexivity. Qed.

(* a pending task stops being pending (finished or cancelled) and its guard is dropped *)
Lemma finish_cinv fx st ti i x :
  CInv st -> NoDup (map t_id (tasks st)) -> In ti (tasks st) -> status st (t_id ti) = Some Pending -> x <> Pending ->
  CInv (fst (drop_guard fx (set_progress st (t_id ti) (i, x)) ti)).
Proof.
  intros HI Hnd Hin Hs Hx.
  set (st1 := set_progress st (t_id ti) (i, x)).
  assert (Hg : forall s, guards st s = guards st1 s + (if holds s ti then 1 else 0)).
  { intros s. unfold guards. change (tasks st1) with (tasks st).
    apply count_finish; try assumption.
    - unfold pendingb. rewrite Hs. reflexivity.
    - unfold st1. rewrite pendingb_set, Nat.eqb_refl. destruct x; [contradiction|reflexivity|reflexivity].
    - intros y _ Hne. unfold st1. rewrite pendingb_set. destruct (Nat.eqb_spec (t_id y) (t_id ti)); [contradiction|reflexivity]. }
  unfold drop_guard. destruct (t_sus ti) as [s'|] eqn:Esus.
  - change (counter_alive st1 s') with (counter_alive st s').
    destruct (counter_alive st s') eqn:Eal.
    + cbn [fst]. intros s Hsus Hal. change (counter_alive (dec_counter st1 s') s) with (counter_alive st s) in Hal.
      change (is_sus_scope (dec_counter st1 s') s) with (is_sus_scope st s) in Hsus.
      rewrite counter_dec. change (guards (dec_counter st1 s') s) with (guards st1 s).
      change (counter st1 s') with (counter st s'). change (counter st1 s) with (counter st s).
      specialize (Hg s). unfold holds in Hg. rewrite Esus in Hg.
      destruct (Nat.eqb_spec s s') as [Heq|Hne].
      * subst s. rewrite Nat.eqb_refl in Hg. rewrite (HI s' Hsus Hal). lia.
      * destruct (Nat.eqb_spec s' s); [subst; contradiction|]. rewrite (HI s Hsus Hal). lia.
    + assert (HI1 : CInv st1).
      { intros s Hsus Hal. change (counter_alive st1 s) with (counter_alive st s) in Hal.
        change (is_sus_scope st1 s) with (is_sus_scope st s) in Hsus. change (counter st1 s) with (counter st s).
        specialize (Hg s). unfold holds in Hg. rewrite Esus in Hg.
        destruct (Nat.eqb_spec s' s) as [Heq|Hne]; [subst s; congruence|]. rewrite (HI s Hsus Hal). lia. }
      destruct fx; exact HI1.
  - cbn [fst]. intros s Hsus Hal. change (counter st1 s) with (counter st s).
    specialize (Hg s). unfold holds in Hg. rewrite Esus in Hg. rewrite (HI s Hsus Hal). lia.
Qed.

Lemma drop_guard_frame fx st ti :
  let st' := fst (drop_guard fx st ti) in
  tasks st' = tasks st /\ scopes st' = scopes st /\ alive st' = alive st /\ root_alive st' = root_alive st.
Proof.
  unfold drop_guard. destruct (t_sus ti) as [s|]; [|cbn; auto].
  destruct (counter_alive st s); [cbn; auto|]. destruct fx; cbn; auto.
Qed.

Lemma task_of_some st t ti : task_of st t = Some ti -> In ti (tasks st) /\ t_id ti = t.
Proof. unfold task_of. intros H. apply find_some in H as [H1 H2]. apply Nat.eqb_eq in H2. auto. Qed.

Lemma step_go_frame fx st t :
  let st' := fst (step_go fx st t) in
  tasks st' = tasks st /\ scopes st' = scopes st /\ alive st' = alive st /\ root_alive st' = root_alive st.
Proof.
  unfold step_go. destruct (task_of st t) as [ti|]; [|cbn; auto].
  destruct (aget (progress st) t) as [[i [| |]]|]; try solve [cbn; auto].
  destruct (Nat.ltb (S i) (t_gates ti)); [cbn; auto|].
  pose proof (drop_guard_frame fx (set_progress st t (S i, Finished)) ti) as H.
  destruct (drop_guard fx (set_progress st t (S i, Finished)) ti) as [st2 lg2]. exact H.
Qed.

Lemma step_go_cinv fx st t : CInv st -> NoDup (map t_id (tasks st)) -> CInv (fst (step_go fx st t)).
Proof.
  intros HI Hnd. unfold step_go. destruct (task_of st t) as [ti|] eqn:Et; [|exact HI].
  destruct (aget (progress st) t) as [[i [| |]]|] eqn:E; try exact HI.
  apply task_of_some in Et as [Hin Hid]. subst t.
  destruct (Nat.ltb (S i) (t_gates ti)).
  - cbn [fst]. intros s Hsus Hal. change (counter (set_progress st (t_id ti) (S i, Pending)) s) with (counter st s).
    rewrite (HI s Hsus Hal). unfold guards. apply count_same. intros y _. rewrite pendingb_set.
    destruct (Nat.eqb_spec (t_id y) (t_id ti)) as [He|]; [|reflexivity].
    unfold pendingb, status. rewrite He, E. reflexivity.
  - pose proof (finish_cinv fx st ti (S i) Finished HI Hnd Hin) as H.
    destruct (drop_guard fx (set_progress st (t_id ti) (S i, Finished)) ti) as [st2 lg2]. cbn [fst] in *.
    apply H; [unfold status; rewrite E; reflexivity|discriminate].
Qed.

Lemma cancel_one_frame fx doomed acc ti :
  let st' := fst (cancel_one fx doomed acc ti) in
  tasks st' = tasks (fst acc) /\ scopes st' = scopes (fst acc) /\ alive st' = alive (fst acc) /\ root_alive st' = root_alive (fst acc).
Proof.
  destruct acc as [st lg]. unfold cancel_one. cbn [fst].
  destruct (aget (progress st) (t_id ti)) as [[i [| |]]|]; try solve [cbn; auto].
  destruct (doomed ti); [|cbn; auto].
  pose proof (drop_guard_frame fx (set_progress st (t_id ti) (i, Cancelled)) ti) as H.
  destruct (drop_guard fx (set_progress st (t_id ti) (i, Cancelled)) ti) as [st2 lg2]. exact H.
Qed.

Lemma cancel_one_cinv fx doomed acc ti :
  CInv (fst acc) -> NoDup (map t_id (tasks (fst acc))) -> In ti (tasks (fst acc)) -> CInv (fst (cancel_one fx doomed acc ti)).
Proof.
  destruct acc as [st lg]. cbn [fst]. intros HI Hnd Hin. unfold cancel_one.
  destruct (aget (progress st) (t_id ti)) as [[i [| |]]|] eqn:E; try exact HI.
  destruct (doomed ti); [|exact HI].
  pose proof (finish_cinv fx st ti i Cancelled HI Hnd Hin) as H.
  destruct (drop_guard fx (set_progress st (t_id ti) (i, Cancelled)) ti) as [st2 lg2]. cbn [fst] in *.
  apply H; [unfold status; rewrite E; reflexivity|discriminate].
Qed.

Lemma fold_cancel_cinv fx doomed l : forall acc,
  CInv (fst acc) -> NoDup (map t_id (tasks (fst acc))) -> incl l (tasks (fst acc)) ->
  let st' := fst (fold_left (cancel_one fx doomed) l acc) in
  CInv st' /\ tasks st' = tasks (fst acc) /\ scopes st' = scopes (fst acc) /\ alive st' = alive (fst acc) /\ root_alive st' = root_alive (fst acc).
Proof.
  induction l as [|ti l IH]; intros acc HI Hnd Hincl; cbn; [auto 6|].
  destruct (cancel_one_frame fx doomed acc ti) as (Ft & Fs & Fa & Fr).
  assert (Hin : In ti (tasks (fst acc))) by (apply Hincl; left; reflexivity).
  specialize (IH (cancel_one fx doomed acc ti)). cbn zeta in IH. rewrite Ft, Fs, Fa, Fr in IH. apply IH.
  - apply cancel_one_cinv; assumption.
  - exact Hnd.
  - intros x Hx. apply Hincl. right. exact Hx.
Qed.

Lemma mem_filter k f l : mem k (filter f l) = true -> mem k l = true.
Proof.
  unfold mem. induction l as [|x l IH]; cbn; [auto|]. destruct (f x); cbn.
  - destruct (Nat.eqb k x); cbn; auto.
  - intros H. rewrite (IH H). apply orb_true_r.
Qed.

Lemma step_cinv fx st s :
  CInv st -> NoDup (map t_id (tasks st)) ->
  CInv (fst (step fx st s)) /\ tasks (fst (step fx st s)) = tasks st /\ scopes (fst (step fx st s)) = scopes st.
Proof.
  intros HI Hnd. destruct s as [t|id]; cbn [step].
  - destruct (step_go_frame fx st t) as (Ft & Fs & _). split; [apply step_go_cinv; assumption|auto].
  - unfold step_dispose. destruct (mem id (alive st)); [|auto].
    unfold cancel_tasks. cbn [tasks].
    match goal with |- context [fold_left (cancel_one fx ?d) ?l (?s1, [])] => pose proof (fold_cancel_cinv fx d l (s1, [])) as H end.
    cbn [fst tasks scopes] in H. destruct H as (H1 & H2 & H3 & _).
    + intros s Hsus Hal. change (counter _ s) with (counter st s). change (guards _ s) with (guards st s).
      apply HI; [exact Hsus|]. unfold counter_alive, find_scope in *. cbn [scopes] in Hal.
      destruct (find _ (scopes st)) as [sc|]; [|discriminate]. unfold owner_alive in *. cbn [root_alive alive] in Hal.
      destruct (s_parent sc); [eapply mem_filter; exact Hal|exact Hal].
    + exact Hnd.
    + apply incl_refl.
    + auto.
Qed.

Lemma step_end_cinv fx st : CInv st -> NoDup (map t_id (tasks st)) -> CInv (fst (step_end fx st)).
Proof.
  intros HI Hnd. unfold step_end, cancel_tasks. cbn [tasks].
  match goal with |- context [fold_left ?f ?l (?s1, [])] => pose proof (fold_cancel_cinv fx (fun _ => true) l (s1, [])) as H end.
  cbn [fst tasks scopes] in H. apply H; [|exact Hnd|apply incl_refl].
  intros s Hsus Hal. unfold counter_alive, find_scope in Hal. cbn [scopes] in Hal.
  destruct (find _ (scopes st)) as [sc|]; [|discriminate]. unfold owner_alive in Hal. cbn in Hal.
  destruct (s_parent sc); discriminate.
Qed.

Fixpoint run_state (fx : bool) (st : astate) (ss : list astep) : astate :=
  match ss with [] => st | s :: r => run_state fx (fst (step fx st s)) r end.

(* the invariant holds after every prefix of every schedule of task steps and scope disposals *)
Theorem cinv_run fx ss : forall st, CInv st -> NoDup (map t_id (tasks st)) -> CInv (run_state fx st ss).
Proof.
  induction ss as [|s r IH]; intros st HI Hnd; cbn; [exact HI|].
  destruct (step_cinv fx st s HI Hnd) as (H1 & H2 & _). apply IH; [exact H1|rewrite H2; exact Hnd].
Qed.

(* ---- the initial state ---- *)
Lemma aget_map_key {A} (f : nat -> A) (l : list scope_info) s :
  aget (map (fun sc => (s_id sc, f (s_id sc))) l) s = if existsb (fun sc => Nat.eqb (s_id sc) s) l then Some (f s) else None.
Proof.
  induction l as [|x l IH]; cbn; [reflexivity|]. rewrite (Nat.eqb_sym s (s_id x)).
  destruct (Nat.eqb_spec (s_id x) s) as [->|]; cbn; [reflexivity|exact IH].
Qed.

Lemma initial_progress_fold ts : forall pr lg,
  fst (fold_left (fun '(pr, lg) t =>
               if Nat.eqb (t_gates t) 0 then ((pr ++ [(t_id t, (0, Finished))]), (lg ++ [EvDone (t_id t)]))
               else ((pr ++ [(t_id t, (0, Pending))]), (lg ++ [EvPoll (t_id t) 0]))) ts (pr, lg))
  = pr ++ map (fun t => (t_id t, (0, if Nat.eqb (t_gates t) 0 then Finished else Pending))) ts.
Proof.
  induction ts as [|t ts IH]; intros pr lg; cbn; [rewrite app_nil_r; reflexivity|].
  destruct (Nat.eqb (t_gates t) 0); rewrite IH, <- app_assoc; reflexivity.
Qed.

Lemma aget_map_tasks (g : task_info -> nat * tstatus) ts ti :
  NoDup (map t_id ts) -> In ti ts -> aget (map (fun t => (t_id t, g t)) ts) (t_id ti) = Some (g ti).
Proof.
  induction ts as [|y ts IH]; intros Hnd Hin; [destruct Hin|]. cbn in Hnd. inversion Hnd as [|? ? Hy Hnd']; subst. cbn.
  destruct Hin as [->|Hin]; [rewrite Nat.eqb_refl; reflexivity|].
  destruct (Nat.eqb_spec (t_id ti) (t_id y)) as [He|]; [|apply IH; assumption].
  exfalso. apply Hy. rewrite <- He. apply in_map. exact Hin.
Qed.

Lemma existsb_filter_sus l s :
  existsb (fun sc => Nat.eqb (s_id sc) s) (filter s_is_sus l) = existsb (fun sc => s_is_sus sc && Nat.eqb (s_id sc) s) l.
Proof. induction l as [|x l IH]; cbn; [reflexivity|]. destruct (s_is_sus x); cbn; rewrite IH; reflexivity. Qed.

Lemma filter_count s (pb : task_info -> bool) ts :
  (forall ti, In ti ts -> pb ti = negb (Nat.eqb (t_gates ti) 0)) ->
  length (filter (fun t => match t_sus t with Some s' => Nat.eqb s' s | None => false end)
                 (filter (fun t => negb (Nat.eqb (t_gates t) 0)) ts))
  = length (filter (fun ti => holds s ti && pb ti) ts).
Proof.
  induction ts as [|t ts IH]; intros Hpend; [reflexivity|]. cbn [filter].
  rewrite (Hpend t (or_introl eq_refl)). unfold holds at 1.
  assert (IH' := IH (fun ti Hin => Hpend ti (or_intror Hin))).
  destruct (Nat.eqb (t_gates t) 0); cbn [negb].
  - rewrite andb_false_r. exact IH'.
  - rewrite andb_true_r. cbn [filter]. destruct (t_sus t) as [s'|]; [destruct (Nat.eqb s' s)|]; cbn [length]; rewrite IH'; reflexivity.
Qed.

Theorem cinv_init p : NoDup (map t_id (tasks (fst (init p)))) -> CInv (fst (init p)).
Proof.
  unfold init. destruct (collect None None p (prog_size p)) as [ss ts] eqn:Ec.
  destruct (initial_progress ts) as [pr lg] eqn:Ep. cbn [fst tasks]. intros Hnd s Hsus _.
  unfold counter, is_sus_scope in *. cbn [counters scopes] in *.
  rewrite (aget_map_key (fun k => count_pending_guards (filter (fun t => negb (Nat.eqb (t_gates t) 0)) ts) k)).
  rewrite existsb_filter_sus, Hsus. unfold guards. cbn [tasks].
  unfold count_pending_guards. 
  assert (Hpr : pr = map (fun t => (t_id t, (0, if Nat.eqb (t_gates t) 0 then Finished else Pending))) ts).
  { unfold initial_progress in Ep. pose proof (initial_progress_fold ts [] []) as H. rewrite Ep in H. exact H. }
  assert (Hpend : forall ti, In ti ts -> pendingb (AState ss ts (map s_id ss) true pr
             (map (fun s0 => (s_id s0, count_pending_guards (filter (fun t => negb (Nat.eqb (t_gates t) 0)) ts) (s_id s0))) (filter s_is_sus ss))) ti
             = negb (Nat.eqb (t_gates ti) 0)).
  { intros ti Hin. unfold pendingb, status. cbn [progress]. rewrite Hpr.
    rewrite (aget_map_tasks (fun t => (0, if Nat.eqb (t_gates t) 0 then Finished else Pending)) ts ti Hnd Hin).
    destruct (Nat.eqb (t_gates ti) 0); reflexivity. }
  apply filter_count. exact Hpend.
Qed.

(* ---- is_loading ---- *)
(* the boundary and the boundaries that enclose it *)
Fixpoint chain (fuel : nat) (st : astate) (s : nat) : list nat :=
  match fuel with
  | O => []
  | S f => s :: match find_scope st s with
                | Some sc => match s_sus_parent sc with Some p => chain f st p | None => [] end
                | None => []
                end
  end.

Lemma is_loading_chain fuel : forall st s,
  is_loading fuel st s = existsb (fun b => Nat.ltb 0 (counter st b)) (chain fuel st s).
Proof.
  induction fuel as [|f IH]; intros st s; cbn; [reflexivity|].
  destruct (find_scope st s) as [sc|]; [|reflexivity].
  destruct (s_sus_parent sc) as [p|]; [rewrite IH|]; reflexivity.
Qed.

(* C13, first sentence: a boundary reports loading exactly while some task registered under it or under an
   enclosing boundary is unfinished (while the counters on the chain are alive, i.e. nothing on it was disposed) *)
Theorem is_loading_iff fuel st s :
  CInv st ->
  (forall b, In b (chain fuel st s) -> is_sus_scope st b = true /\ counter_alive st b = true) ->
  is_loading fuel st s = existsb (fun b => Nat.ltb 0 (guards st b)) (chain fuel st s).
Proof.
  intros HI Hal. rewrite is_loading_chain.
  induction (chain fuel st s) as [|b l IH]; [reflexivity|]. cbn.
  destruct (Hal b (or_introl eq_refl)) as [H1 H2]. rewrite (HI b H1 H2). f_equal. apply IH.
  intros b' Hb'. apply Hal. right. exact Hb'.
Qed.

(* C14, last clause: after a disposal, the counter of every surviving boundary equals the number of tasks still pending under it *)
Corollary counters_released fx st id s :
  CInv st -> NoDup (map t_id (tasks st)) ->
  let st' := fst (step fx st (DisposeS id)) in
  is_sus_scope st' s = true -> counter_alive st' s = true -> counter st' s = guards st' s.
Proof. intros HI Hnd st'. exact (proj1 (step_cinv fx st (DisposeS id) HI Hnd) s). Qed.

Example cinv_nonvacuous :
  let st := fst (init [ASus 1 [ATask 1 2; ASus 2 [ATask 2 1]]; AScope 9 [ASus 3 [ATask 3 2]]]) in
  NoDup (map t_id (tasks st)) /\ guards st 1 = 1 /\ guards st 2 = 1 /\ chain 4 st 2 = [2; 1] /\
  is_loading 4 (run_state true st [Go 2]) 2 = true /\ is_loading 4 (run_state true st [Go 2; Go 1; Go 1]) 2 = false.
Proof. cbn. repeat split; try reflexivity. repeat constructor; cbn; intuition discriminate. Qed.

(* use_is_loading_global (what the blocking render waits on): true exactly while some unfinished task holds a guard of a
   boundary whose counter is alive *)
Lemma guards_pos st s :
  Nat.ltb 0 (guards st s) = true <-> exists ti, In ti (tasks st) /\ holds s ti = true /\ pendingb st ti = true.
Proof.
  unfold guards. split.
  - intros H. apply Nat.ltb_lt in H.
    destruct (filter (fun ti => holds s ti && pendingb st ti) (tasks st)) as [|ti l] eqn:E; [cbn in H; lia|].
    assert (Hin : In ti (filter (fun ti => holds s ti && pendingb st ti) (tasks st))) by (rewrite E; left; reflexivity).
    apply filter_In in Hin. destruct Hin as [Hin Hb]. apply andb_true_iff in Hb. exists ti. tauto.
  - intros [ti [Hin [Hh Hp]]]. apply Nat.ltb_lt.
    assert (Hf : In ti (filter (fun ti => holds s ti && pendingb st ti) (tasks st))).
    { apply filter_In. split; [exact Hin|]. rewrite Hh, Hp. reflexivity. }
    destruct (filter (fun ti => holds s ti && pendingb st ti) (tasks st)); [destruct Hf | cbn; lia].
Qed.

Theorem global_loading_iff st :
  CInv st ->
  (global_loading st = true <->
   exists s ti, is_sus_scope st s = true /\ counter_alive st s = true /\
                In ti (tasks st) /\ holds s ti = true /\ pendingb st ti = true).
Proof.
  intros HI. unfold global_loading. rewrite existsb_exists. split.
  - intros [sc [Hin Hb]]. apply andb_true_iff in Hb. destruct Hb as [Hb Hc]. apply andb_true_iff in Hb. destruct Hb as [Hs Ha].
    assert (Hsus : is_sus_scope st (s_id sc) = true).
    { unfold is_sus_scope. apply existsb_exists. exists sc. split; [exact Hin|]. rewrite Hs, Nat.eqb_refl. reflexivity. }
    rewrite (HI _ Hsus Ha) in Hc. apply guards_pos in Hc. destruct Hc as [ti Hti].
    exists (s_id sc), ti. tauto.
  - intros [s [ti [Hsus [Ha Hti]]]].
    unfold is_sus_scope in Hsus. apply existsb_exists in Hsus. destruct Hsus as [sc [Hin Hb]].
    apply andb_true_iff in Hb. destruct Hb as [Hs He]. apply Nat.eqb_eq in He. subst s.
    exists sc. split; [exact Hin|]. rewrite Hs, Ha. cbn.
    assert (Hsus : is_sus_scope st (s_id sc) = true).
    { unfold is_sus_scope. apply existsb_exists. exists sc. split; [exact Hin|]. rewrite Hs, Nat.eqb_refl. reflexivity. }
    rewrite (HI _ Hsus Ha). apply guards_pos. exists ti. exact Hti.
Qed.

Example global_loading_nonvacuous :
  let st := fst (init [ASus 1 [ATask 1 1]; AScope 9 [ASus 3 [ATask 3 2]]]) in
  global_loading st = true /\ global_loading (run_state true st [Go 1]) = true /\
  global_loading (run_state true st [Go 1; DisposeS 9]) = false /\
  global_loading (run_state true st [DisposeS 9; Go 1]) = false.
Proof. cbn. repeat split; reflexivity. Qed.

(* after the root has been disposed nothing is loading any more, whatever was pending (every counter died with its owner) *)
Lemma fold_cancel_frame fx doomed l : forall acc,
  let st' := fst (fold_left (cancel_one fx doomed) l acc) in
  scopes st' = scopes (fst acc) /\ alive st' = alive (fst acc) /\ root_alive st' = root_alive (fst acc).
Proof.
  induction l as [|ti l IH]; intros acc; cbn; [auto|].
  destruct (cancel_one_frame fx doomed acc ti) as (_ & Fs & Fa & Fr).
  specialize (IH (cancel_one fx doomed acc ti)). cbn zeta in IH. rewrite Fs, Fa, Fr in IH. exact IH.
Qed.

Lemma global_loading_dead st : alive st = [] -> root_alive st = false -> global_loading st = false.
Proof.
  intros Ha Hr. unfold global_loading. apply not_true_is_false. intros Hex. apply existsb_exists in Hex.
  destruct Hex as [sc [_ Hb]]. apply andb_true_iff in Hb. destruct Hb as [Hb _]. apply andb_true_iff in Hb. destruct Hb as [_ Hc].
  revert Hc. unfold counter_alive, owner_alive. destruct (find_scope st (s_id sc)) as [s|]; [|discriminate].
  rewrite Hr, Ha. destruct (s_parent s) as [q|]; [unfold mem; cbn [existsb]|]; discriminate.
Qed.

Theorem global_idle_after_end fx st : global_loading (fst (step_end fx st)) = false.
Proof.
  unfold step_end, cancel_tasks.
  pose proof (fold_cancel_frame fx (fun _ => true) (tasks st)
                (AState (scopes st) (tasks st) [] false (progress st) (counters st), [])) as H.
  cbn zeta in H. destruct H as (_ & Ha & Hr).
  apply global_loading_dead; [exact Ha|exact Hr].
Qed.
