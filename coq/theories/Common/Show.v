(* Common/Show.v -- canonical text rendering used by the correspondence checks
   (the same text is printed by the Rust drivers). Definitions only. *)
From Coq Require Import List String Ascii NArith ZArith.
Import ListNotations.
Open Scope string_scope.

Definition nl : string := String (ascii_of_nat 10) EmptyString.

Definition digit_char (n : N) : ascii := ascii_of_N (48 + n).

(* fuel = number of binary digits + 1 is always enough for the decimal digits *)
Fixpoint show_N_aux (fuel : nat) (n : N) (acc : string) : string :=
  match fuel with
  | O => acc
  | S f =>
      let q := N.div n 10 in
      let r := N.modulo n 10 in
      let acc' := String (digit_char r) acc in
      if N.eqb q 0 then acc' else show_N_aux f q acc'
  end.
Definition show_N (n : N) : string := show_N_aux (S (N.to_nat (N.size n))) n EmptyString.
Definition show_Z (z : Z) : string :=
  match z with
  | Z0 => "0"
  | Zpos p => show_N (Npos p)
  | Zneg p => String "-" (show_N (Npos p))
  end.
Definition show_nat (n : nat) : string := show_N (N.of_nat n).
Definition show_bool (b : bool) : string := if b then "1" else "0".

Fixpoint join (sep : string) (l : list string) : string :=
  match l with
  | [] => EmptyString
  | [x] => x
  | x :: r => x ++ sep ++ join sep r
  end.
Definition lines (l : list string) : string := join nl l.

(* hexadecimal transport of byte strings between the generators and the model *)
Definition hex_digit (n : N) : ascii := if N.ltb n 10 then ascii_of_N (48 + n) else ascii_of_N (87 + n).
Fixpoint to_hex (s : string) : string :=
  match s with
  | EmptyString => EmptyString
  | String c r => let n := N_of_ascii c in String (hex_digit (N.div n 16)) (String (hex_digit (N.modulo n 16)) (to_hex r))
  end.
Definition hex_val (c : ascii) : N :=
  let n := N_of_ascii c in
  if N.leb 97 n then n - 87 else if N.leb 65 n then n - 55 else n - 48.
Fixpoint of_hex (s : string) : string :=
  match s with
  | String a (String b r) => String (ascii_of_N (hex_val a * 16 + hex_val b)) (of_hex r)
  | _ => EmptyString
  end.
