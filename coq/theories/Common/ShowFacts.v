(* Common/ShowFacts.v -- the decimal rendering of numbers is injective (needed wherever a rendered number is used as a
   name: hydration keys in the DOM). *)
From Coq Require Import List String Ascii NArith ZArith Lia.
From Syc Require Import Common.Show.
Open Scope string_scope.

(* the value of a digit string *)
Fixpoint dval_aux (a : N) (s : string) : N :=
  match s with
  | EmptyString => a
  | String c r => dval_aux (10 * a + (N_of_ascii c - 48)) r
  end.
Definition dval (s : string) : N := dval_aux 0 s.

Lemma app_assoc_s (a b c : string) : (a ++ b) ++ c = a ++ (b ++ c).
Proof. induction a as [|x r IH]; cbn [append]; [reflexivity|rewrite IH; reflexivity]. Qed.

Lemma show_N_aux_app f : forall n acc, show_N_aux f n acc = show_N_aux f n "" ++ acc.
Proof.
  induction f as [|f IH]; intros n acc; cbn [show_N_aux]; [reflexivity|].
  destruct (N.eqb (n / 10) 0); [reflexivity|].
  rewrite (IH _ (String _ acc)), (IH _ (String _ "")). rewrite app_assoc_s. reflexivity.
Qed.

Lemma dval_aux_app s : forall a t, dval_aux a (s ++ t) = dval_aux (dval_aux a s) t.
Proof. induction s as [|c r IH]; intros a t; cbn [append dval_aux]; [reflexivity|apply IH]. Qed.

Lemma digit_val r : (r < 10)%N -> (N_of_ascii (digit_char r) - 48 = r)%N.
Proof. intros H. unfold digit_char. rewrite N_ascii_embedding; lia. Qed.

Lemma show_N_aux_S f n acc :
  show_N_aux (S f) n acc
  = if N.eqb (n / 10) 0 then String (digit_char (n mod 10)) acc else show_N_aux f (n / 10) (String (digit_char (n mod 10)) acc).
Proof. reflexivity. Qed.

Lemma dval_show_aux f : forall n, (n < 2 ^ N.of_nat f)%N -> dval (show_N_aux (S f) n "") = n.
Proof.
  induction f as [|f IH]; intros n Hn.
  - assert (n = 0%N) by (cbn in Hn; lia). subst n. reflexivity.
  - rewrite show_N_aux_S. destruct (N.eqb (n / 10) 0) eqn:E.
    + apply N.eqb_eq in E. unfold dval. cbn [dval_aux]. rewrite digit_val by (apply N.mod_lt; lia).
      pose proof (N.div_mod n 10 ltac:(lia)) as D. rewrite E in D. lia.
    + apply N.eqb_neq in E. rewrite show_N_aux_app. unfold dval. rewrite dval_aux_app.
      fold (dval (show_N_aux (S f) (n / 10) "")). rewrite IH.
      * cbn [dval_aux]. rewrite digit_val by (apply N.mod_lt; lia). pose proof (N.div_mod n 10 ltac:(lia)). lia.
      * rewrite Nat2N.inj_succ, N.pow_succ_r' in Hn.
        assert (n / 10 <= n / 2)%N by (apply N.div_le_compat_l; lia).
        assert (n / 2 < 2 ^ N.of_nat f)%N by (apply N.div_lt_upper_bound; lia). lia.
Qed.

Lemma dval_show_N n : dval (show_N n) = n.
Proof.
  unfold show_N. apply dval_show_aux. rewrite N2Nat.id.
  destruct n as [|p]; [cbn; lia|]. apply N.size_gt.
Qed.

Lemma show_nat_inj a b : show_nat a = show_nat b -> a = b.
Proof.
  unfold show_nat. intros H. apply (f_equal dval) in H. rewrite !dval_show_N in H. lia.
Qed.
