(* Dom/Reconcile.v -- model of sycamore-web's reconcile_fragments (packages/sycamore-web/src/iter.rs) over an
   abstract DOM: the ordered child list of one parent; a node that is not in the list is detached.
   The seven branches are kept in source order, [a] is an array that the swap branch writes to, the map from
   nodes of [b] to their indices is built once. Results: [ROk children touched], [RErr] (a DOM exception, i.e. a
   panic of the `unwrap()`s) or [RFuel]. Definitions only. *)
From Coq Require Import List Arith Bool.
Import ListNotations.

Notation nodeid := nat (only parsing).

Fixpoint index_of (x : nat) (l : list nat) : option nat :=
  match l with
  | [] => None
  | y :: r => if Nat.eqb x y then Some 0 else option_map S (index_of x r)
  end.
Definition memb (x : nat) (l : list nat) : bool := match index_of x l with Some _ => true | None => false end.
Definition remove_node (x : nat) (l : list nat) : list nat := filter (fun y => negb (Nat.eqb x y)) l.
Fixpoint insert_at (i : nat) (x : nat) (l : list nat) : list nat :=
  match i, l with
  | O, _ => x :: l
  | S i', y :: r => y :: insert_at i' x r
  | S _, [] => [x]
  end.

(* Node.nextSibling for a child of the parent; None when detached or last *)
Definition next_sibling (ch : list nat) (x : nat) : option nat :=
  match index_of x ch with Some i => nth_error ch (S i) | None => None end.

(* parent.insertBefore(node, ref): moves [node] if it is already a child; [None] = NotFoundError *)
Definition insert_before (ch : list nat) (node : nat) (ref : option nat) : option (list nat) :=
  match ref with
  | None => Some (remove_node node ch ++ [node])
  | Some r =>
      if memb r ch then
        let r' := if Nat.eqb r node then next_sibling ch node else Some r in
        let ch1 := remove_node node ch in
        match r' with
        | None => Some (ch1 ++ [node])
        | Some r'' => match index_of r'' ch1 with Some i => Some (insert_at i node ch1) | None => None end
        end
      else None
  end.
Definition remove_child (ch : list nat) (node : nat) : option (list nat) :=
  if memb node ch then Some (remove_node node ch) else None.
Definition replace_child (ch : list nat) (new old : nat) : option (list nat) :=
  if memb old ch then
    if Nat.eqb new old then Some ch
    else
      let ref := next_sibling ch old in
      let ref := match ref with Some r => if Nat.eqb r new then next_sibling ch new else Some r | None => None end in
      insert_before (remove_node old ch) new ref
  else None.

Fixpoint set_nth (l : list nat) (i : nat) (x : nat) : list nat :=
  match l, i with
  | [], _ => []
  | _ :: r, O => x :: r
  | y :: r, S i' => y :: set_nth r i' x
  end.

Inductive rres := ROk (children : list nat) (touched : list nat) | RErr | RFuel.

Record rst := RSt {
  ch : list nat; arr : list nat; a_start : nat; a_end : nat; b_start : nat; b_end : nat;
  map_built : option (nat * nat);        (* the (b_start, b_end) window the map was built from *)
  touched : list nat }.

Definition get (l : list nat) (i : nat) : option nat := nth_error l i.

(* map.get(node): the index of node in b restricted to the window the map was built from *)
Definition map_get (b : list nat) (w : nat * nat) (x : nat) : option nat :=
  match index_of x (firstn (snd w - fst w) (skipn (fst w) b)) with
  | Some i => Some (fst w + i)
  | None => None
  end.

Definition bindo {A B} (o : option A) (f : A -> option B) : option B := match o with Some a => f a | None => None end.

(* insert b[from..to) before [ref], left to right *)
Fixpoint insert_range (ch : list nat) (b : list nat) (from count : nat) (ref : option nat) (tch : list nat)
  : option (list nat * list nat) :=
  match count with
  | O => Some (ch, tch)
  | S c =>
      bindo (get b from) (fun n =>
      bindo (insert_before ch n ref) (fun ch' => insert_range ch' b (S from) c ref (n :: tch)))
  end.

(* the inner `while i + 1 < a_end && i + 1 < b_end` loop computing the length of the run *)
Fixpoint run_length (fuel : nat) (arr b : list nat) (w : nat * nat) (a_end b_end index : nat) (i sequence : nat) : nat :=
  match fuel with
  | O => sequence
  | S f =>
      if (S i <? a_end) && (S i <? b_end) then
        match get arr (S i) with
        | Some x =>
            match map_get b w x with
            | Some t => if Nat.eqb t (index + sequence) then run_length f arr b w a_end b_end index (S i) (S sequence) else sequence
            | None => sequence
            end
        | None => sequence
        end
      else sequence
  end.

Definition reconcile_loop (b : list nat) (after : option nat) : nat -> rst -> rres :=
  fix loop (fuel : nat) (s : rst) : rres :=
    let b_len := length b in
    if negb ((a_start s <? a_end s) || (b_start s <? b_end s)) then ROk (ch s) (touched s)
    else
    match fuel with
    | O => RFuel
    | S f =>
        if Nat.eqb (a_end s) (a_start s) then
          (* append *)
          let ref :=
            if b_end s <? b_len then
              (if negb (Nat.eqb (b_start s) 0) then
                 match get b (b_start s - 1) with Some x => Some (next_sibling (ch s) x) | None => None end
               else match get b (b_end s - b_start s) with Some x => Some (Some x) | None => None end)
            else Some after in
          match ref with
          | None => RErr
          | Some r =>
              match insert_range (ch s) b (b_start s) (b_end s - b_start s) r (touched s) with
              | Some (ch', t') => loop f (RSt ch' (arr s) (a_start s) (a_end s) (b_end s) (b_end s) (map_built s) t')
              | None => RErr
              end
          end
        else if Nat.eqb (b_end s) (b_start s) then
          (* remove what is left of a, unless the node is (still) in the map *)
          let r := fold_left (fun acc i =>
                     match acc with
                     | None => None
                     | Some (c, t) =>
                         match get (arr s) i with
                         | None => None
                         | Some x =>
                             let in_map := match map_built s with Some w => match map_get b w x with Some _ => true | None => false end | None => false end in
                             if in_map then Some (c, t)
                             else match remove_child c x with Some c' => Some (c', x :: t) | None => None end
                         end
                     end) (seq (a_start s) (a_end s - a_start s)) (Some (ch s, touched s)) in
          match r with
          | Some (c, t) => loop f (RSt c (arr s) (a_end s) (a_end s) (b_start s) (b_end s) (map_built s) t)
          | None => RErr
          end
        else
          match get (arr s) (a_start s), get b (b_start s), get (arr s) (a_end s - 1), get b (b_end s - 1) with
          | Some as_, Some bs, Some ae, Some be =>
              if Nat.eqb as_ bs then loop f (RSt (ch s) (arr s) (S (a_start s)) (a_end s) (S (b_start s)) (b_end s) (map_built s) (touched s))
              else if Nat.eqb ae be then loop f (RSt (ch s) (arr s) (a_start s) (a_end s - 1) (b_start s) (b_end s - 1) (map_built s) (touched s))
              else if Nat.eqb as_ be && Nat.eqb bs ae then
                (* swap backwards *)
                let node := next_sibling (ch s) ae in
                match insert_before (ch s) bs (next_sibling (ch s) as_) with
                | Some c1 =>
                    match insert_before c1 be node with
                    | Some c2 =>
                        loop f (RSt c2 (set_nth (arr s) (a_end s - 1) be) (S (a_start s)) (a_end s - 1) (S (b_start s)) (b_end s - 1)
                                    (map_built s) (be :: bs :: touched s))
                    | None => RErr
                    end
                | None => RErr
                end
              else
                (* fallback to the map *)
                let w := match map_built s with Some w => w | None => (b_start s, b_end s) end in
                match map_get b w as_ with
                | Some index =>
                    if (b_start s <? index) && (index <? b_end s) then
                      let sequence := run_length (length (arr s)) (arr s) b w (a_end s) (b_end s) index (a_start s) 1 in
                      if index - b_start s <? sequence then
                        match insert_range (ch s) b (b_start s) (index - b_start s) (Some as_) (touched s) with
                        | Some (c, t) => loop f (RSt c (arr s) (a_start s) (a_end s) index (b_end s) (Some w) t)
                        | None => RErr
                        end
                      else
                        match replace_child (ch s) bs as_ with
                        | Some c => loop f (RSt c (arr s) (S (a_start s)) (a_end s) (S (b_start s)) (b_end s) (Some w) (bs :: as_ :: touched s))
                        | None => RErr
                        end
                    else loop f (RSt (ch s) (arr s) (S (a_start s)) (a_end s) (b_start s) (b_end s) (Some w) (touched s))
                | None =>
                    match remove_child (ch s) as_ with
                    | Some c => loop f (RSt c (arr s) (S (a_start s)) (a_end s) (b_start s) (b_end s) (Some w) (as_ :: touched s))
                    | None => RErr
                    end
                end
          | _, _, _, _ => RErr
          end
    end.

(* children = the parent's child list before the call; a must be non-empty *)
Definition reconcile (children a b : list nat) : rres :=
  match a with
  | [] => RErr                                   (* debug_assert!(!a.is_empty()) *)
  | _ =>
      let after := match get a (length a - 1) with Some x => next_sibling children x | None => None end in
      reconcile_loop b after (S (length a + length b)) (RSt children a 0 (length a) 0 (length b) None [])
  end.

(* ---------------------------------------------------------------------------------- *)
(* Specification: children' = pre ++ b ++ post, nodes of a that are not in b are        *)
(* detached, every node the routine touches belongs to a or b.                          *)

Definition list_eqb (x y : list nat) : bool := Nat.eqb (length x) (length y) && forallb (fun p => Nat.eqb (fst p) (snd p)) (combine x y).

Definition reconcile_ok (pre a b post : list nat) : bool :=
  match reconcile (pre ++ a ++ post) a b with
  | ROk c t => list_eqb c (pre ++ b ++ post) && forallb (fun x => memb x a || memb x b) t
  | _ => false
  end.
