(* Dom/HydrateIds.v -- C09, identities of the hydrated instance: it holds no identity twice and none at or above the
   counter it hands to later updates ([ids_wf] of Dom/ClientIds.v), so that every theorem of Dom/ClientIds.v about runs
   applies to a hydrated view: a later update keeps identities of the instance or takes new ones from the counter on; an
   adopted server identity is never handed out again.
   Elements: distinct server identities below [fresh] (Dom/HydrateOwnWalk.v). Dynamic text and markers: [fresh, next).
   Static text: synthetic, [sbase, ...). *)
From Coq Require Import List String Ascii Bool Arith ZArith Lia Permutation.
From Syc Require Import Common.Show Ssr.Html Ssr.View Dom.Client Dom.ClientFacts Dom.ClientIds.
From Syc Require Import Dom.Hydrate Dom.HydrateSpec Dom.HydrateFacts Dom.HydrateForest Dom.HydrateServer
  Dom.HydrateInst Dom.HydrateInstFacts Dom.HydrateOwn Dom.HydrateOwnWalk.
Import ListNotations.
Open Scope string_scope.
Open Scope list_scope.

(* the identities of an instance that are not elements *)
Fixpoint nids (i : inst) : list nat :=
  match i with
  | IEl _ _ _ ch => flat_map nids ch
  | IText id _ => [id]
  | IDyn m1 m2 ch | IShow m1 m2 _ ch => m1 :: flat_map nids ch ++ [m2]
  | IList m1 m2 items => m1 :: flat_map (fun p => flat_map nids (snd p)) items ++ [m2]
  | IGroup ch => flat_map nids ch
  end.

Definition lo_part (sbase : nat) (l : list nat) : list nat := filter (fun x => Nat.ltb x sbase) l.
Definition hi_part (sbase : nat) (l : list nat) : list nat := filter (fun x => negb (Nat.ltb x sbase)) l.

(* below [sbase]: fresh identities of hydration in [lo, hi); from [sbase] on: synthetic identities in [slo, shi) *)
Definition two_ok (sbase lo hi slo shi : nat) (l : list nat) : Prop :=
  fresh_ok lo hi (lo_part sbase l) /\ fresh_ok slo shi (hi_part sbase l).

Lemma two_ok_nil sbase lo slo : two_ok sbase lo lo slo slo [].
Proof. split; apply fresh_ok_nil. Qed.

Lemma two_ok_app sbase lo mid hi slo smid shi a b : lo <= mid -> mid <= hi -> slo <= smid -> smid <= shi ->
  two_ok sbase lo mid slo smid a -> two_ok sbase mid hi smid shi b -> two_ok sbase lo hi slo shi (a ++ b).
Proof.
  intros H1 H2 H3 H4 [A1 A2] [B1 B2]. unfold two_ok, lo_part, hi_part. rewrite !filter_app.
  split; eapply fresh_ok_app; eassumption.
Qed.

Lemma two_ok_weaken sbase lo lo' hi hi' slo slo' shi shi' l : lo' <= lo -> hi <= hi' -> slo' <= slo -> shi <= shi' ->
  two_ok sbase lo hi slo shi l -> two_ok sbase lo' hi' slo' shi' l.
Proof. intros H1 H2 H3 H4 [A B]. split; eapply fresh_ok_weaken; eassumption. Qed.

Lemma lo_part_lt sbase x l : x < sbase -> lo_part sbase (x :: l) = x :: lo_part sbase l.
Proof. intros H. unfold lo_part. cbn [filter]. rewrite (proj2 (Nat.ltb_lt x sbase) H). reflexivity. Qed.
Lemma hi_part_lt sbase x l : x < sbase -> hi_part sbase (x :: l) = hi_part sbase l.
Proof. intros H. unfold hi_part. cbn [filter]. rewrite (proj2 (Nat.ltb_lt x sbase) H). reflexivity. Qed.
Lemma lo_part_ge sbase x l : sbase <= x -> lo_part sbase (x :: l) = lo_part sbase l.
Proof. intros H. unfold lo_part. cbn [filter]. rewrite (proj2 (Nat.ltb_ge x sbase) H). reflexivity. Qed.
Lemma hi_part_ge sbase x l : sbase <= x -> hi_part sbase (x :: l) = x :: hi_part sbase l.
Proof. intros H. unfold hi_part. cbn [filter]. rewrite (proj2 (Nat.ltb_ge x sbase) H). reflexivity. Qed.
Lemma lo_part_app sbase a b : lo_part sbase (a ++ b) = lo_part sbase a ++ lo_part sbase b.
Proof. apply filter_app. Qed.
Lemma hi_part_app sbase a b : hi_part sbase (a ++ b) = hi_part sbase a ++ hi_part sbase b.
Proof. apply filter_app. Qed.

(* two fresh markers allocated BEFORE the content (dynamic view) *)
Lemma two_ok_marks_before sbase nx hi slo shi l : S (S nx) <= hi -> hi <= sbase ->
  two_ok sbase (S (S nx)) hi slo shi l -> two_ok sbase nx hi slo shi (nx :: l ++ [S nx]).
Proof.
  intros H1 H2 [A B]. unfold two_ok.
  rewrite lo_part_lt, hi_part_lt, lo_part_app, hi_part_app by lia.
  rewrite (lo_part_lt sbase (S nx) []), (hi_part_lt sbase (S nx) []) by lia. cbn [lo_part hi_part filter]. rewrite app_nil_r.
  split; [apply fresh_ok_marks; assumption|exact B].
Qed.

(* two fresh markers allocated AFTER the content (Show) *)
Lemma two_ok_marks_after sbase lo m slo shi l : lo <= m -> S (S m) <= sbase ->
  two_ok sbase lo m slo shi l -> two_ok sbase lo (S (S m)) slo shi (m :: l ++ [S m]).
Proof.
  intros H1 H2 [A B]. unfold two_ok.
  rewrite lo_part_lt, hi_part_lt, lo_part_app, hi_part_app by lia.
  rewrite (lo_part_lt sbase (S m) []), (hi_part_lt sbase (S m) []) by lia. cbn [lo_part hi_part filter]. rewrite app_nil_r.
  split; [|exact B].
  apply (fresh_ok_perm lo (S (S m)) (lo_part sbase l ++ [m; S m])).
  - change [m; S m] with ([m] ++ [S m]). rewrite app_assoc.
    change (m :: lo_part sbase l ++ [S m]) with (([m] ++ lo_part sbase l) ++ [S m]).
    apply Permutation_app_tail. apply Permutation_app_comm.
  - apply (fresh_ok_app lo m (S (S m))); [lia|lia|exact A|].
    split; [repeat constructor; cbn; try lia; intros []|repeat constructor; lia].
Qed.

Lemma NoDup_two sbase l : NoDup (lo_part sbase l) -> NoDup (hi_part sbase l) -> NoDup l.
Proof.
  induction l as [|x r IH]; intros H1 H2; [constructor|].
  destruct (Nat.ltb x sbase) eqn:E.
  - apply Nat.ltb_lt in E. rewrite lo_part_lt in H1 by exact E. rewrite hi_part_lt in H2 by exact E.
    inversion H1 as [|? ? Hn H1']; subst. constructor; [|exact (IH H1' H2)].
    intros Hin. apply Hn. apply filter_In. split; [exact Hin|apply Nat.ltb_lt; exact E].
  - apply Nat.ltb_ge in E. rewrite lo_part_ge in H1 by exact E. rewrite hi_part_ge in H2 by exact E.
    inversion H2 as [|? ? Hn H2']; subst. constructor; [|exact (IH H1 H2')].
    intros Hin. apply Hn. apply filter_In. split; [exact Hin|]. rewrite (proj2 (Nat.ltb_ge x sbase) E). reflexivity.
Qed.

Lemma two_ok_spec sbase lo hi slo shi l : two_ok sbase lo hi slo shi l ->
  NoDup l /\ Forall (fun x => lo <= x < hi \/ slo <= x < shi) l.
Proof.
  intros [[N1 F1] [N2 F2]]. split; [exact (NoDup_two sbase l N1 N2)|].
  apply Forall_forall. intros x Hx. rewrite Forall_forall in F1, F2. destruct (Nat.ltb x sbase) eqn:E.
  - left. apply F1. apply filter_In. split; [exact Hx|exact E].
  - right. apply F2. apply filter_In. split; [exact Hx|rewrite E; reflexivity].
Qed.

(* ---- the counters of [hydi] only grow ---- *)
Definition mono_spec (hi : view -> hstate -> nat -> hires) : Prop :=
  forall v st sn ks i st' sn', hi v st sn = HOk (ks, i, st', sn') -> h_next st <= h_next st' /\ sn <= sn'.

Lemma hydi_list_mono hi : mono_spec hi ->
  forall vs st sn ks is st' sn', hydi_list_with hi vs st sn = HOk (ks, is, st', sn') -> h_next st <= h_next st' /\ sn <= sn'.
Proof.
  intros H. induction vs as [|v r IH]; intros st sn ks is st' sn' E; cbn [hydi_list_with] in E.
  - inversion E; subst. split; lia.
  - destruct (hi v st sn) as [[[[k1 i1] st1] sn1]|e] eqn:E1; [|discriminate E].
    destruct (hydi_list_with hi r st1 sn1) as [[[[k2 i2] st2] sn2]|e] eqn:E2; [|discriminate E]. inversion E; subst.
    destruct (H _ _ _ _ _ _ _ E1). destruct (IH _ _ _ _ _ _ E2). split; lia.
Qed.

Lemma hydi_mono f vst item : mono_spec (hydi f vst item).
Proof.
  induction f as [|f IH]; intros v st sn ks i st' sn' E; [discriminate E|].
  pose proof (hydi_list_mono _ IH) as HL.
  destruct v as [tag attrs children|s|k|k a b|vs|k vs|kd k tmpl| |vs|vs|vs]; cbn [hydi] in E; try discriminate E.
  - destruct (find_hk_list _ (h_dom st)) as [eid|]; [|discriminate E].
    destruct (is_void tag).
    + destruct (with_children_list eid _ _); [|discriminate E]. inversion E; subst. cbn [h_next]. split; lia.
    + destruct (hydi_list_with _ children _ sn) as [[[[ks1 is] st2] sn2]|e] eqn:E1; [|discriminate E].
      destruct (with_children_list eid _ _); [|discriminate E]. inversion E; subst. cbn [h_next].
      destruct (HL _ _ _ _ _ _ _ E1) as [A B]. cbn [h_next] in A. split; lia.
  - inversion E; subst. split; lia.
  - inversion E; subst. cbn [h_next]. split; lia.
  - destruct (hydi_list_with _ _ _ sn) as [[[[ks1 is] st2] sn2]|e] eqn:E1; [|discriminate E]. inversion E; subst.
    destruct (HL _ _ _ _ _ _ _ E1) as [A B]. cbn [h_next] in A. split; lia.
  - destruct (hydi_list_with _ _ _ sn) as [[[[ks1 is] st2] sn2]|e] eqn:E1; [|discriminate E]. inversion E; subst.
    exact (HL _ _ _ _ _ _ _ E1).
  - destruct (hydi_list_with _ _ _ sn) as [[[[ks1 is] st2] sn2]|e] eqn:E1; [|discriminate E].
    destruct (only_elements ks1); [|discriminate E]. inversion E; subst. cbn [h_next].
    destruct (HL _ _ _ _ _ _ _ E1) as [A B]. split; lia.
  - inversion E; subst. split; lia.
  - destruct (hydi_list_with _ _ _ sn) as [[[[ks1 is] st2] sn2]|e] eqn:E1; [|discriminate E]. inversion E; subst.
    exact (HL _ _ _ _ _ _ _ E1).
  - inversion E; subst. split; lia.
Qed.

(* ---- the identities [hydi] hands out ---- *)
Definition nids_spec (sbase : nat) (hi : view -> hstate -> nat -> hires) : Prop :=
  forall v st sn ks i st' sn', hi v st sn = HOk (ks, i, st', sn') -> h_next st' <= sbase -> sbase <= sn ->
    two_ok sbase (h_next st) (h_next st') sn sn' (nids i).

Lemma hydi_list_nids sbase hi : mono_spec hi -> nids_spec sbase hi ->
  forall vs st sn ks is st' sn', hydi_list_with hi vs st sn = HOk (ks, is, st', sn') -> h_next st' <= sbase -> sbase <= sn ->
    two_ok sbase (h_next st) (h_next st') sn sn' (flat_map nids is).
Proof.
  intros HM H. induction vs as [|v r IH]; intros st sn ks is st' sn' E Hb Hs; cbn [hydi_list_with] in E.
  - inversion E; subst. apply two_ok_nil.
  - destruct (hi v st sn) as [[[[k1 i1] st1] sn1]|e] eqn:E1; [|discriminate E].
    destruct (hydi_list_with hi r st1 sn1) as [[[[k2 i2] st2] sn2]|e] eqn:E2; [|discriminate E]. inversion E; subst.
    destruct (HM _ _ _ _ _ _ _ E1) as [M1 M2]. destruct (hydi_list_mono hi HM _ _ _ _ _ _ _ E2) as [M3 M4].
    cbn [flat_map]. eapply two_ok_app; [exact M1|exact M3|exact M2|exact M4| |].
    + apply (H _ _ _ _ _ _ _ E1); lia.
    + apply (IH _ _ _ _ _ _ E2); lia.
Qed.

Theorem hydi_nids sbase f vst item : nids_spec sbase (hydi f vst item).
Proof.
  induction f as [|f IH]; intros v st sn ks i st' sn' E Hb Hs; [discriminate E|].
  pose proof (hydi_list_nids sbase _ (hydi_mono f vst item) IH) as HL.
  pose proof (hydi_list_mono _ (hydi_mono f vst item)) as HM.
  destruct v as [tag attrs children|s|k|k a b|vs|k vs|kd k tmpl| |vs|vs|vs]; cbn [hydi] in E; try discriminate E.
  - destruct (find_hk_list _ (h_dom st)) as [eid|]; [|discriminate E].
    destruct (is_void tag).
    + destruct (with_children_list eid _ _); [|discriminate E]. inversion E; subst. cbn [h_next nids flat_map]. apply two_ok_nil.
    + destruct (hydi_list_with _ children _ sn) as [[[[ks1 is] st2] sn2]|e] eqn:E1; [|discriminate E].
      destruct (with_children_list eid _ _); [|discriminate E]. inversion E; subst. cbn [h_next nids] in *.
      exact (HL _ _ _ _ _ _ _ E1 Hb Hs).
  - inversion E; subst. cbn [nids]. unfold two_ok. rewrite lo_part_ge, hi_part_ge by exact Hs. cbn [lo_part hi_part filter].
    split; [apply fresh_ok_nil|]. split; [repeat constructor; intros []|repeat constructor; lia].
  - inversion E; subst. cbn [h_next nids] in *. unfold two_ok. rewrite lo_part_lt, hi_part_lt by lia. cbn [lo_part hi_part filter].
    split; [|apply fresh_ok_nil]. split; [repeat constructor; intros []|repeat constructor; lia].
  - destruct (hydi_list_with _ _ _ sn) as [[[[ks1 is] st2] sn2]|e] eqn:E1; [|discriminate E]. inversion E; subst. cbn [nids].
    destruct (HM _ _ _ _ _ _ _ E1) as [A B]. cbn [h_next] in A.
    apply two_ok_marks_before; [exact A|exact Hb|]. exact (HL _ _ _ _ _ _ _ E1 Hb Hs).
  - destruct (hydi_list_with _ _ _ sn) as [[[[ks1 is] st2] sn2]|e] eqn:E1; [|discriminate E]. inversion E; subst. cbn [nids].
    exact (HL _ _ _ _ _ _ _ E1 Hb Hs).
  - destruct (hydi_list_with _ _ _ sn) as [[[[ks1 is] st2] sn2]|e] eqn:E1; [|discriminate E].
    destruct (only_elements ks1); [|discriminate E]. inversion E; subst. cbn [h_next nids] in *.
    destruct (HM _ _ _ _ _ _ _ E1) as [A B].
    apply two_ok_marks_after; [exact A|exact Hb|]. apply (HL _ _ _ _ _ _ _ E1); lia.
  - inversion E; subst. cbn [nids]. unfold two_ok. rewrite lo_part_ge, hi_part_ge by exact Hs. cbn [lo_part hi_part filter].
    split; [apply fresh_ok_nil|]. split; [repeat constructor; intros []|repeat constructor; lia].
  - destruct (hydi_list_with _ _ _ sn) as [[[[ks1 is] st2] sn2]|e] eqn:E1; [|discriminate E]. inversion E; subst. cbn [nids].
    exact (HL _ _ _ _ _ _ _ E1 Hb Hs).
  - inversion E; subst. cbn [nids flat_map]. apply two_ok_nil.
Qed.

(* ---- all identities of an instance: elements and the others ---- *)
Lemma perm_4 {A} (a b c d : list A) : Permutation ((a ++ b) ++ (c ++ d)) ((a ++ c) ++ (b ++ d)).
Proof.
  rewrite <- !app_assoc. apply Permutation_app_head. rewrite !app_assoc. apply Permutation_app_tail. apply Permutation_app_comm.
Qed.

Lemma ids_perm_list l : Forall (fun i => Permutation (inst_ids i) (iel_ids i ++ nids i)) l ->
  Permutation (flat_map inst_ids l) (flat_map iel_ids l ++ flat_map nids l).
Proof.
  induction 1 as [|x r Hx _ IH]; [constructor|]. cbn [flat_map].
  eapply Permutation_trans; [apply Permutation_app; [exact Hx|exact IH]|]. apply perm_4.
Qed.

Lemma perm_marks m1 m2 (X a b : list nat) : Permutation X (a ++ b) -> Permutation (m1 :: X ++ [m2]) (a ++ m1 :: b ++ [m2]).
Proof.
  intros H. eapply Permutation_trans; [apply perm_skip; apply Permutation_app_tail; exact H|].
  rewrite <- app_assoc. apply Permutation_middle.
Qed.

Lemma ids_perm i : Permutation (inst_ids i) (iel_ids i ++ nids i).
Proof.
  induction i as [id tag attrs ch IH|id s|m1 m2 ch IH|m1 m2 b ch IH|m1 m2 items IH|ch IH] using inst_ind'; cbn [inst_ids iel_ids nids].
  - eapply Permutation_trans; [apply perm_skip; exact (ids_perm_list ch IH)|]. rewrite <- app_assoc. apply Permutation_middle.
  - apply Permutation_refl.
  - apply perm_marks. exact (ids_perm_list ch IH).
  - apply perm_marks. exact (ids_perm_list ch IH).
  - apply perm_marks. rewrite <- !flat_flat. apply ids_perm_list. apply Forall_flat. exact IH.
  - exact (ids_perm_list ch IH).
Qed.

Lemma elids_ids l : incl (elids l) (ids l).
Proof.
  assert (L : forall n, incl (elids_n n) (ids_node n)).
  { induction n as [id tag a ch IH|id s|id s] using hnode_ind'; cbn [elids_n ids_node]; [|intros x []|intros x []].
    apply incl_cons; [left; reflexivity|]. apply incl_tl.
    induction IH as [|x r Hx _ IHr]; [intros y []|]. cbn [flat_map]. apply incl_app; [apply incl_appl; exact Hx|apply incl_appr; exact IHr]. }
  induction l as [|x r IH]; [intros y []|]. unfold elids, ids in *. cbn [flat_map]. apply incl_app; [apply incl_appl; apply L|apply incl_appr; exact IH].
Qed.

(* ---- the hydrated instance is well formed for later updates ---- *)
Theorem hydratei_wf vst v fresh sbase :
  hydratable vst v = true -> above fresh (server_dom vst v) -> hyd_next vst v (server_dom vst v) fresh <= sbase ->
  exists d i c,
    hydratei vst v (server_dom vst v) fresh sbase = HOk (d, i, c)
    /\ ids_wf i c
    /\ Forall (fun e => e < fresh) (iel_ids i)
    /\ Forall (fun x => fresh <= x < hyd_next vst v (server_dom vst v) fresh \/ sbase <= x < c) (nids i).
Proof.
  unfold hydratable, hydratei, server_dom, above, hyd_next, hyd_next_f, hyd_fuel, build_fuel.
  generalize 64. intros f HQ Hab. apply andb_prop in HQ. destruct HQ as [HQ1 HQ2].
  destruct (hydi_owns_gen f vst v fresh sbase HQ1 HQ2 Hab) as (ks & i & st & sn & d & E & Ea & H1 & H2 & H3 & H4 & _).
  unfold server_dom_f in *. rewrite (hydi_hyd f vst None v _ sbase), E. cbn [proj_h]. rewrite Ea. intros Hb.
  exists d, i, (Nat.max (h_next st) sn). split; [reflexivity|].
  rewrite (iel_k_ids sbase i) in H3, H4.
  assert (He : Forall (fun e => e < fresh) (iel_ids i)).
  { eapply Forall_impl; [|exact H4]. cbn beta. intros e He. apply Hab. exact (elids_ids _ e He). }
  destruct (two_ok_spec _ _ _ _ _ _ (hydi_nids sbase f vst None v _ sbase ks i st sn E Hb (Nat.le_refl sbase))) as [N1 N2].
  cbn [h_next] in N2.
  assert (Hn : Forall (fun x => fresh <= x < h_next st \/ sbase <= x < Nat.max (h_next st) sn) (nids i)).
  { eapply Forall_impl; [|exact N2]. cbn beta. intros x Hx. lia. }
  split; [|split; [exact He|exact Hn]]. split.
  - apply (Permutation_NoDup (Permutation_sym (ids_perm i))). apply NoDup_app_iff. split; [exact H3|]. split; [exact N1|].
    intros x Hx1 Hx2. rewrite Forall_forall in He, Hn. specialize (He x Hx1). specialize (Hn x Hx2). lia.
  - apply Forall_forall. intros x Hx. apply (Permutation_in _ (ids_perm i)) in Hx. apply in_app_or in Hx.
    rewrite Forall_forall in He, Hn. destruct Hx as [Hx|Hx]; [specialize (He x Hx)|specialize (Hn x Hx)]; lia.
Qed.

(* every theorem of Dom/ClientIds.v about runs applies: along any run from the hydrated instance the instances hold no
   identity twice, and every identity is one of the previous instance or a new one from the counter on *)
Corollary hydratei_run_ids vst v fresh sbase ws :
  hydratable vst v = true -> above fresh (server_dom vst v) -> hyd_next vst v (server_dom vst v) fresh <= sbase ->
  Forall (fun s => keys_ok s v = true) (tl (states vst ws)) ->
  exists d i c,
    hydratei vst v (server_dom vst v) fresh sbase = HOk (d, i, c)
    /\ Forall (fun t => ids_wf (snd (fst t)) (snd t)) (steps client_fuel v vst i c ws)
    /\ chain id_step ((vst, i, c) :: steps client_fuel v vst i c ws).
Proof.
  intros HQ Hab Hb Hk. destruct (hydratei_wf vst v fresh sbase HQ Hab Hb) as (d & i & c & E & Hwf & _).
  exists d, i, c. split; [exact E|]. exact (steps_ids client_fuel v ws vst i c Hwf Hk).
Qed.
