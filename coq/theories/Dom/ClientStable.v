(* Dom/ClientStable.v -- C05 "updated in place", part 2: which identities survive a write.
   (1) A write that no structural construct of the view reads (no dynamic view, Show or list reads it: in particular
       every write of a string signal, i.e. dynamic text and dynamic attributes) changes no identity at all: the
       instance keeps its whole skeleton (identities, nesting, visibility flags, item keys; only texts and attribute
       values may differ), no identity is allocated, and the DOM has the same nodes at the same places.
   (2) In general, the nodes listed by [stable] survive, in order. *)
From Coq Require Import List String Ascii Bool Arith ZArith Lia.
From Syc Require Import Common.Show Ssr.Html Ssr.View Dom.Client Dom.ClientFacts Dom.ClientIds.
Import ListNotations.
Open Scope list_scope.

(* ---- skeletons: an instance without texts and attribute values ---- *)
Inductive skel :=
| KEl (id : nat) (ch : list skel)
| KText (id : nat)
| KDyn (m1 m2 : nat) (ch : list skel)
| KShow (m1 m2 : nat) (vis : bool) (ch : list skel)
| KList (m1 m2 : nat) (items : list (Z * list skel))
| KGroup (ch : list skel).

Fixpoint iskel (i : inst) : skel :=
  match i with
  | IEl id _ _ ch => KEl id (map iskel ch)
  | IText id _ => KText id
  | IDyn m1 m2 ch => KDyn m1 m2 (map iskel ch)
  | IShow m1 m2 b ch => KShow m1 m2 b (map iskel ch)
  | IList m1 m2 items => KList m1 m2 (map (fun p => (fst p, map iskel (snd p))) items)
  | IGroup ch => KGroup (map iskel ch)
  end.
Definition iskel_item (e : Z * list inst) : Z * list skel := (fst e, map iskel (snd e)).

(* the DOM as a tree of identities *)
Inductive idtree := T (id : nat) (ch : list idtree).
Fixpoint dshape (d : dnode) : idtree :=
  match d with
  | DEl id _ _ ch => T id (map dshape ch)
  | DText id _ => T id []
  | DMark id => T id []
  end.

Fixpoint kdom (k : skel) : list idtree :=
  match k with
  | KEl id ch => [T id (flat_map kdom ch)]
  | KText id => [T id []]
  | KDyn m1 m2 ch => T m1 [] :: flat_map kdom ch ++ [T m2 []]
  | KShow m1 m2 vis ch => T m1 [] :: (if vis then flat_map kdom ch else []) ++ [T m2 []]
  | KList m1 m2 items => T m1 [] :: flat_map (fun p => flat_map kdom (snd p)) items ++ [T m2 []]
  | KGroup ch => flat_map kdom ch
  end.

Lemma dshape_dom i : map dshape (dom_of i) = kdom (iskel i).
Proof.
  induction i as [id tag attrs ch IH|id s|m1 m2 ch IH|m1 m2 b ch IH|m1 m2 items IH|ch IH] using inst_ind'.
  - cbn [dom_of iskel kdom map dshape]. f_equal. f_equal.
    rewrite map_flat_map, flat_map_map. apply flat_map_ext_Forall. exact IH.
  - reflexivity.
  - cbn [dom_of iskel kdom map dshape]. f_equal. rewrite map_app. cbn [map dshape]. f_equal.
    rewrite map_flat_map, flat_map_map. apply flat_map_ext_Forall. exact IH.
  - cbn [dom_of iskel kdom map dshape]. f_equal. rewrite map_app. cbn [map dshape]. f_equal.
    destruct b; [|reflexivity].
    rewrite map_flat_map, flat_map_map. apply flat_map_ext_Forall. exact IH.
  - cbn [dom_of iskel kdom map dshape]. f_equal. rewrite map_app. cbn [map dshape]. f_equal.
    rewrite map_flat_map, flat_map_map. apply flat_map_ext_Forall.
    eapply Forall_impl; [|exact IH]. cbn. intros p Hp.
    rewrite map_flat_map, flat_map_map. apply flat_map_ext_Forall. exact Hp.
  - cbn [dom_of iskel kdom]. rewrite map_flat_map, flat_map_map. apply flat_map_ext_Forall. exact IH.
Qed.

Fixpoint tree_ids (t : idtree) : list nat := match t with T id ch => id :: flat_map tree_ids ch end.

Lemma dshape_ids d : tree_ids (dshape d) = dnode_ids d.
Proof.
  induction d as [id tag attrs ch IH|id s|id] using dnode_ind'; try reflexivity.
  cbn [dshape tree_ids dnode_ids]. f_equal. rewrite flat_map_map. apply flat_map_ext_Forall. exact IH.
Qed.

Lemma same_shape_same_ids a b : map dshape a = map dshape b -> map dnode_ids a = map dnode_ids b.
Proof.
  intros H. assert (E : forall l, map dnode_ids l = map tree_ids (map dshape l)).
  { intros l. rewrite map_map. apply map_ext. intros d. symmetry. apply dshape_ids. }
  rewrite !E, H. reflexivity.
Qed.

(* ---- the signals whose write changes the structure ---- *)
Fixpoint struct_reads (v : view) : list sigid :=
  match v with
  | VEl _ _ ch => flat_map struct_reads ch
  | VDyn k a b => CB k :: flat_map struct_reads a ++ flat_map struct_reads b
  | VFrag vs | VComp vs | VNoHydrate vs | VNoSsr vs => flat_map struct_reads vs
  | VShow k vs => CB k :: flat_map struct_reads vs
  | VList _ k tmpl => CL k :: flat_map struct_reads tmpl
  | VText _ | VDynText _ | VItem => []
  end.

Definition nonstruct (w : sigid) (v : view) : bool := negb (existsb (sigid_eqb w) (struct_reads v)).

Lemma nonstruct_notin w v : nonstruct w v = true -> ~ In w (struct_reads v).
Proof.
  unfold nonstruct. intros H Hin. apply negb_true_iff in H.
  assert (E : existsb (sigid_eqb w) (struct_reads v) = true).
  { apply existsb_exists. exists w. split; [exact Hin|apply sigid_eqb_eq; reflexivity]. }
  rewrite E in H. discriminate.
Qed.

Lemma notin_flat {A B} (g : A -> list B) x l : ~ In x (flat_map g l) -> Forall (fun a => ~ In x (g a)) l.
Proof.
  intros H. apply Forall_forall. intros a Ha. cbn beta. intros Hx. apply H. apply in_flat_map. exists a. split; assumption.
Qed.

Section ViewInd.
  Variable P : view -> Prop.
  Hypothesis HEl : forall tag attrs ch, Forall P ch -> P (VEl tag attrs ch).
  Hypothesis HText : forall s, P (VText s).
  Hypothesis HDynText : forall k, P (VDynText k).
  Hypothesis HDyn : forall k a b, Forall P a -> Forall P b -> P (VDyn k a b).
  Hypothesis HFrag : forall vs, Forall P vs -> P (VFrag vs).
  Hypothesis HShow : forall k vs, Forall P vs -> P (VShow k vs).
  Hypothesis HList : forall kd k tmpl, Forall P tmpl -> P (VList kd k tmpl).
  Hypothesis HItem : P VItem.
  Hypothesis HComp : forall vs, Forall P vs -> P (VComp vs).
  Hypothesis HNoHydrate : forall vs, Forall P vs -> P (VNoHydrate vs).
  Hypothesis HNoSsr : forall vs, Forall P vs -> P (VNoSsr vs).
  Fixpoint view_ind' (v : view) : P v :=
    let go := fix go (l : list view) : Forall P l :=
                match l with [] => Forall_nil _ | x :: r => Forall_cons _ (view_ind' x) (go r) end in
    match v with
    | VEl tag attrs ch => HEl tag attrs ch (go ch)
    | VText s => HText s
    | VDynText k => HDynText k
    | VDyn k a b => HDyn k a b (go a) (go b)
    | VFrag vs => HFrag vs (go vs)
    | VShow k vs => HShow k vs (go vs)
    | VList kd k tmpl => HList kd k tmpl (go tmpl)
    | VItem => HItem
    | VComp vs => HComp vs (go vs)
    | VNoHydrate vs => HNoHydrate vs (go vs)
    | VNoSsr vs => HNoSsr vs (go vs)
    end.
End ViewInd.

Lemma string_write_nonstruct k v : ~ In (CS k) (struct_reads v).
Proof.
  assert (L : forall vs, Forall (fun v => ~ In (CS k) (struct_reads v)) vs -> ~ In (CS k) (flat_map struct_reads vs)).
  { intros vs H Hin. apply in_flat_map in Hin. destruct Hin as (x & Hx & Hin). rewrite Forall_forall in H. exact (H x Hx Hin). }
  induction v using view_ind'; cbn [struct_reads]; try solve [intros []]; try (apply L; assumption).
  - intros [E|Hin]; [discriminate E|]. apply in_app_or in Hin. destruct Hin as [Hin|Hin]; [exact (L a H Hin)|exact (L b H0 Hin)].
  - intros [E|Hin]; [discriminate E|exact (L vs H Hin)].
  - intros [E|Hin]; [discriminate E|exact (L tmpl H Hin)].
Qed.

(* ------------------------------------------------------------------------------------------------ *)
(* (1) a non-structural write keeps the whole skeleton *)
Lemma update_list_skel (u : view -> inst -> nat -> inst * nat) (c : view -> nat -> inst * nat) (p : view -> pinst) (Q : view -> Prop) :
  (forall v i cnt, Q v -> ierase i = p v -> iskel (fst (u v i cnt)) = iskel i /\ snd (u v i cnt) = cnt) ->
  forall vs is cnt, Forall Q vs -> map ierase is = map p vs ->
    map iskel (fst (update_list_with u c vs is cnt)) = map iskel is /\ snd (update_list_with u c vs is cnt) = cnt.
Proof.
  intros Hu. induction vs as [|x r IH]; intros is cnt HQ Hm.
  - destruct is; [|discriminate Hm]. split; reflexivity.
  - destruct is as [|i ir]; [discriminate Hm|]. cbn [map] in Hm. injection Hm as Hi Hr.
    inversion HQ as [|? ? HQx HQr]; subst. cbn [update_list_with].
    destruct (Hu x i cnt HQx Hi) as [H1 H2]. destruct (u x i cnt) as [i' c1]. cbn [fst snd] in *. subst c1.
    destruct (IH ir cnt HQr Hr) as [H3 H4]. destruct (update_list_with u c r ir cnt) as [r' c2]. cbn [fst snd map] in *.
    split; [rewrite H1, H3; reflexivity|exact H4].
Qed.

Lemma find_item_app key pre post : ~ In key (map fst pre) -> find_item key (pre ++ post) = find_item key post.
Proof.
  induction pre as [|[k x] r IH]; intros Hn; [reflexivity|]. cbn [app find_item]. cbn [map fst] in Hn.
  destruct (Z.eqb k key) eqn:E.
  - apply Z.eqb_eq in E. exfalso. apply Hn. left. exact E.
  - apply IH. intros H. apply Hn. right. exact H.
Qed.

Lemma old_item_here keyed pre e r : (keyed = true -> ~ In (fst e) (map fst pre)) ->
  old_item keyed (pre ++ e :: r) (List.length pre) (fst e) = Some (snd e).
Proof.
  intros Hk. unfold old_item. destruct keyed.
  - rewrite find_item_app; [|exact (Hk eq_refl)]. destruct e as [k x]. cbn [find_item fst snd]. rewrite Z.eqb_refl. reflexivity.
  - rewrite nth_error_app2; [|lia]. rewrite Nat.sub_diag. cbn [nth_error]. destruct e as [k x]. cbn [fst snd].
    rewrite Z.eqb_refl. reflexivity.
Qed.

Lemma upd_items_skel ul cl keyed (p : Z -> list pinst) :
  (forall it is cnt, map ierase is = p it -> map iskel (fst (ul it is cnt)) = map iskel is /\ snd (ul it is cnt) = cnt) ->
  forall rest pre cnt,
    (keyed = true -> NoDup (map fst (pre ++ rest))) ->
    Forall (fun e => map ierase (snd e) = p (fst e)) rest ->
    map iskel_item (fst (upd_items ul cl keyed (pre ++ rest) (map fst rest) (List.length pre) cnt)) = map iskel_item rest
    /\ snd (upd_items ul cl keyed (pre ++ rest) (map fst rest) (List.length pre) cnt) = cnt.
Proof.
  intros Hu. induction rest as [|e r IH]; intros pre cnt Hk Hf; [split; reflexivity|].
  inversion Hf as [|? ? He Hr]; subst. cbn [map upd_items].
  rewrite old_item_here.
  - destruct (Hu (fst e) (snd e) cnt He) as [H1 H2]. destruct (ul (fst e) (snd e) cnt) as [is' c1]. cbn [fst snd] in *. subst c1.
    specialize (IH (pre ++ [e]) cnt). rewrite <- app_assoc in IH. cbn [app] in IH. rewrite app_length in IH. cbn [List.length] in IH.
    rewrite Nat.add_1_r in IH. destruct (IH Hk Hr) as [H3 H4].
    destruct (upd_items ul cl keyed (pre ++ e :: r) (map fst r) (S (List.length pre)) cnt) as [rest' c2].
    cbn [fst snd map] in *. split; [|exact H4]. rewrite H3. unfold iskel_item at 1. cbn [fst snd]. rewrite H1. reflexivity.
  - intros Hkd. specialize (Hk Hkd). rewrite map_app in Hk. apply NoDup_app_iff in Hk. destruct Hk as (_ & _ & Hd).
    intros Hin. apply (Hd (fst e) Hin). left. reflexivity.
Qed.

Lemma items_keys (p : Z -> list pinst) : forall items l, map ierase_item items = map (fun it => (it, p it)) l -> map fst items = l.
Proof.
  induction items as [|e r IH]; intros l H; destruct l as [|it l']; try discriminate H; [reflexivity|].
  cbn [map] in H. unfold ierase_item at 1 in H. injection H as H1 _ Hr. cbn [map]. rewrite H1, (IH _ Hr). reflexivity.
Qed.

Lemma iskel_IList m1 m2 items : iskel (IList m1 m2 items) = KList m1 m2 (map iskel_item items).
Proof. reflexivity. Qed.

Theorem update_nonstruct f : forall st st' w item v i cnt,
  agree_except w st st' -> faithful f st item v i -> keys_ok st' v = true -> ~ In w (struct_reads v) ->
  iskel (fst (update f st' w item v i cnt)) = iskel i /\ snd (update f st' w item v i cnt) = cnt.
Proof.
  unfold faithful. induction f as [|f IH]; intros st st' w item v i cnt Hag Hi HQ Hw; [split; reflexivity|].
  assert (UL : forall vs is c, Forall (fun v => keys_ok st' v = true /\ ~ In w (struct_reads v)) vs ->
               map ierase is = map (pcreate f st item) vs ->
               map iskel (fst (update_list_with (update f st' w item) (create f st' item) vs is c)) = map iskel is
               /\ snd (update_list_with (update f st' w item) (create f st' item) vs is c) = c).
  { apply update_list_skel. intros v0 i0 c0 [H1 H2] H0. exact (IH st st' w item v0 i0 c0 Hag H0 H1 H2). }
  assert (QL : forall vs, forallb (fun k => nodupZ (get_list st' k)) (flat_map keyed_sigs vs) = true ->
                          ~ In w (flat_map struct_reads vs) ->
                          Forall (fun v => keys_ok st' v = true /\ ~ In w (struct_reads v)) vs).
  { intros vs H1 H2. apply keys_ok_list in H1. apply notin_flat in H2. rewrite Forall_forall in *.
    intros x Hx. split; [exact (H1 x Hx)|exact (H2 x Hx)]. }
  destruct Hag as (Hs & Hb & Hl). unfold keys_ok in HQ.
  destruct v as [tag attrs children|s|k|k a b|vs|k vs|kd k tmpl| |vs|vs|vs];
    destruct i as [id tag' attrs' ich|id s'|m1 m2 ich|m1 m2 vis ich|m1 m2 items|ich];
    cbn [ierase pcreate] in Hi; try discriminate Hi; cbn [keyed_sigs struct_reads] in HQ, Hw.
  - (* element *)
    injection Hi as Htag Hat Hch. cbn [update]. destruct (is_void tag).
    + cbn [fst snd iskel]. destruct ich; [split; reflexivity|discriminate Hch].
    + destruct (UL children ich cnt (QL _ HQ Hw) Hch) as [H1 H2].
      destruct (update_list_with _ _ children ich cnt) as [ch c1]. cbn [fst snd iskel] in *. rewrite H1. split; [reflexivity|exact H2].
  - split; reflexivity.
  - split; reflexivity.
  - (* dynamic view: its boolean was not written *)
    injection Hi as Hch. cbn [update].
    assert (Ew : w <> CB k) by (intros ->; apply Hw; left; reflexivity).
    destruct (sigid_eqb w (CB k)) eqn:E; [apply sigid_eqb_eq in E; contradiction|].
    rewrite (Hb k Ew). rewrite forallb_app in HQ. apply andb_prop in HQ. destruct HQ as [HQa HQb].
    assert (Hbr : Forall (fun v => keys_ok st' v = true /\ ~ In w (struct_reads v)) (if get_bool st k then a else b)).
    { destruct (get_bool st k); apply QL; try assumption; intros Hin; apply Hw; right; apply in_or_app; [left|right]; exact Hin. }
    destruct (UL _ ich cnt Hbr Hch) as [H1 H2].
    destruct (update_list_with _ _ _ ich cnt) as [ch c1]. cbn [fst snd iskel] in *. rewrite H1. split; [reflexivity|exact H2].
  - injection Hi as Hch. cbn [update]. destruct (UL vs ich cnt (QL _ HQ Hw) Hch) as [H1 H2].
    destruct (update_list_with _ _ vs ich cnt) as [ch c1]. cbn [fst snd iskel] in *. rewrite H1. split; [reflexivity|exact H2].
  - (* Show: its boolean was not written *)
    injection Hi as Hv Hch. cbn [update].
    assert (Ew : w <> CB k) by (intros ->; apply Hw; left; reflexivity).
    assert (Hw' : ~ In w (flat_map struct_reads vs)) by (intros Hin; apply Hw; right; exact Hin).
    destruct (UL vs ich cnt (QL _ HQ Hw') Hch) as [H1 H2].
    destruct (update_list_with _ _ vs ich cnt) as [ch c1]. cbn [fst snd iskel] in *. rewrite H1, (Hb k Ew), Hv.
    split; [reflexivity|exact H2].
  - (* list: not written, so the same keys at the same positions *)
    injection Hi as Hit. fold ierase_item in Hit. rewrite update_VList.
    assert (Ew : w <> CL k) by (intros ->; apply Hw; left; reflexivity).
    assert (Hw' : ~ In w (flat_map struct_reads tmpl)) by (intros Hin; apply Hw; right; exact Hin).
    rewrite forallb_app in HQ. apply andb_prop in HQ. destruct HQ as [HQk HQt].
    pose proof (Hl k Ew) as El. rewrite El. pose proof (items_keys _ _ _ Hit) as Hkeys. rewrite <- Hkeys.
    pose proof (upd_items_skel
                  (fun it => update_list_with (update f st' w (Some it)) (create f st' (Some it)) tmpl)
                  (fun it => create_list_with (create f st' (Some it)) tmpl) kd
                  (fun it => map (pcreate f st (Some it)) tmpl)) as UI.
    cbv beta in UI.
    assert (Hkd : kd = true -> NoDup (map fst ([] ++ items))).
    { intros ->. cbn [app]. rewrite Hkeys, <- El. cbn [forallb app] in HQk. apply andb_prop in HQk. apply nodupZ_NoDup. exact (proj1 HQk). }
    destruct (UI (fun it is c H0 => update_list_skel _ _ _ _
                     (fun v0 i0 c0 (HQ0 : keys_ok st' v0 = true /\ ~ In w (struct_reads v0)) H1 =>
                        IH st st' w (Some it) v0 i0 c0 (conj Hs (conj Hb Hl)) H1 (proj1 HQ0) (proj2 HQ0))
                     tmpl is c (QL _ HQt Hw') H0)
                 items [] cnt Hkd (items_faithful _ _ _ Hit)) as [H1 H2].
    cbn [app List.length] in H1, H2.
    destruct (upd_items _ _ kd items (map fst items) 0 cnt) as [items' c1]. cbn [fst snd] in *.
    rewrite !iskel_IList, H1. split; [reflexivity|exact H2].
  - split; reflexivity.
  - injection Hi as Hch. cbn [update]. destruct (UL vs ich cnt (QL _ HQ Hw) Hch) as [H1 H2].
    destruct (update_list_with _ _ vs ich cnt) as [ch c1]. cbn [fst snd iskel] in *. rewrite H1. split; [reflexivity|exact H2].
  - injection Hi as Hch. cbn [update]. destruct (UL vs ich cnt (QL _ HQ Hw) Hch) as [H1 H2].
    destruct (update_list_with _ _ vs ich cnt) as [ch c1]. cbn [fst snd iskel] in *. rewrite H1. split; [reflexivity|exact H2].
  - injection Hi as Hch. cbn [update]. destruct (UL vs ich cnt (QL _ HQ Hw) Hch) as [H1 H2].
    destruct (update_list_with _ _ vs ich cnt) as [ch c1]. cbn [fst snd iskel] in *. rewrite H1. split; [reflexivity|exact H2].
Qed.

(* the DOM has the same nodes at the same places *)
Corollary update_nonstruct_dom f st st' w item v i cnt :
  agree_except w st st' -> faithful f st item v i -> keys_ok st' v = true -> ~ In w (struct_reads v) ->
  map dshape (dom_of (fst (update f st' w item v i cnt))) = map dshape (dom_of i)
  /\ map dnode_ids (dom_of (fst (update f st' w item v i cnt))) = map dnode_ids (dom_of i)
  /\ snd (update f st' w item v i cnt) = cnt.
Proof.
  intros Hag Hi HQ Hw. destruct (update_nonstruct f st st' w item v i cnt Hag Hi HQ Hw) as [H1 H2].
  assert (E : map dshape (dom_of (fst (update f st' w item v i cnt))) = map dshape (dom_of i)).
  { rewrite !dshape_dom, H1. reflexivity. }
  split; [exact E|split; [exact (same_shape_same_ids _ _ E)|exact H2]].
Qed.

(* ------------------------------------------------------------------------------------------------ *)
(* (2) the general statement: the nodes that must survive the write of [w] (new state [st']).
   Left out are exactly: the content of a dynamic view whose boolean is [w]; the content of a Show that was or becomes
   hidden; the items of a list that are not retained (Keyed: key no longer present; Indexed: position with another value). *)
Fixpoint stable_items (g : list inst -> list nat) (keyed : bool) (items : list (Z * list inst)) (l : list Z) (pos : nat) : list nat :=
  match l with
  | [] => []
  | it :: r => (match old_item keyed items pos it with Some is => g is | None => [] end) ++ stable_items g keyed items r (S pos)
  end.

Fixpoint stable (f : nat) (st' : vstate) (w : sigid) (v : view) (i : inst) {struct f} : list nat :=
  match f with
  | O => dom_ids (dom_of i)
  | S f' =>
      let sl := zipl (stable f' st' w) in
      match v, i with
      | VEl tag _ children, IEl id _ _ ich => id :: (if is_void tag then [] else sl children ich)
      | VText _, IText id _ | VItem, IText id _ | VDynText _, IText id _ => [id]
      | VDyn k a b, IDyn m1 m2 ich =>
          m1 :: (if sigid_eqb w (CB k) then [] else sl (if get_bool st' k then a else b) ich) ++ [m2]
      | VFrag vs, IGroup ich | VComp vs, IGroup ich | VNoHydrate vs, IGroup ich | VNoSsr vs, IGroup ich => sl vs ich
      | VShow k vs, IShow m1 m2 vis ich => m1 :: (if vis && get_bool st' k then sl vs ich else []) ++ [m2]
      | VList kd k tmpl, IList m1 m2 items => m1 :: stable_items (sl tmpl) kd items (get_list st' k) 0 ++ [m2]
      | _, _ => []
      end
  end.

Lemma update_list_stable (u : view -> inst -> nat -> inst * nat) (c : view -> nat -> inst * nat) (g : view -> inst -> list nat) :
  (forall v i cnt, subseq (g v i) (dom_ids (dom_of (fst (u v i cnt))))) ->
  forall vs is cnt, subseq (zipl g vs is) (dom_ids (flat_map dom_of (fst (update_list_with u c vs is cnt)))).
Proof.
  intros Hu. induction vs as [|x r IH]; intros is cnt; [constructor|].
  destruct is as [|i ir]; [apply subseq_nil_l|]. cbn [zipl update_list_with].
  specialize (Hu x i cnt). destruct (u x i cnt) as [i' c1]. specialize (IH ir c1).
  destruct (update_list_with u c r ir c1) as [r' c2]. cbn [fst flat_map] in *. rewrite dom_ids_app.
  apply subseq_app; assumption.
Qed.

Lemma upd_items_stable ul cl keyed items (g : list inst -> list nat) :
  (forall it is cnt, subseq (g is) (dom_ids (flat_map dom_of (fst (ul it is cnt))))) ->
  forall l pos cnt, subseq (stable_items g keyed items l pos)
                           (dom_ids (flat_map (fun p => flat_map dom_of (snd p)) (fst (upd_items ul cl keyed items l pos cnt)))).
Proof.
  intros Hu. induction l as [|it r IH]; intros pos cnt; [constructor|]. cbn [stable_items upd_items].
  assert (H1 : subseq (match old_item keyed items pos it with Some is => g is | None => [] end)
                      (dom_ids (flat_map dom_of (fst (match old_item keyed items pos it with Some is => ul it is cnt | None => cl it cnt end))))).
  { destruct (old_item keyed items pos it); [apply Hu|apply subseq_nil_l]. }
  destruct (match old_item keyed items pos it with Some is => ul it is cnt | None => cl it cnt end) as [is' c1].
  specialize (IH (S pos) c1). destruct (upd_items ul cl keyed items r (S pos) c1) as [rest c2].
  cbn [fst snd flat_map] in *. rewrite dom_ids_app. apply subseq_app; assumption.
Qed.

Theorem update_stable f : forall st' w item v i cnt,
  subseq (stable f st' w v i) (dom_ids (dom_of (fst (update f st' w item v i cnt)))).
Proof.
  induction f as [|f IH]; intros st' w item v i cnt; [apply subseq_refl|].
  pose proof (update_list_stable (update f st' w item) (create f st' item) (stable f st' w)
                                 (fun v0 i0 c0 => IH st' w item v0 i0 c0)) as UL.
  destruct v as [tag attrs children|s|k|k a b|vs|k vs|kd k tmpl| |vs|vs|vs];
    destruct i as [id tag' attrs' ich|id s'|m1 m2 ich|m1 m2 vis ich|m1 m2 items|ich];
    cbn [stable]; try apply subseq_nil_l; try (cbn [update fst dom_of]; apply subseq_refl).
  - cbn [update]. destruct (is_void tag).
    + cbn [fst dom_of]. rewrite dom_ids_el. apply subseq_refl.
    + specialize (UL children ich cnt). destruct (update_list_with _ _ children ich cnt) as [ch c1].
      cbn [fst dom_of] in *. rewrite dom_ids_el. apply ss_keep. exact UL.
  - cbn [update]. destruct (sigid_eqb w (CB k)).
    + destruct (create_list_with _ _ cnt) as [ch c1]. cbn [fst dom_of]. rewrite dom_ids_mark, dom_ids_app, dom_ids_mark1.
      apply ss_keep. apply (subseq_app [] _ [m2] [m2]); [apply subseq_nil_l|apply subseq_refl].
    + specialize (UL (if get_bool st' k then a else b) ich cnt). destruct (update_list_with _ _ _ ich cnt) as [ch c1].
      cbn [fst dom_of] in *. rewrite dom_ids_mark, dom_ids_app, dom_ids_mark1.
      apply ss_keep. apply subseq_app; [exact UL|apply subseq_refl].
  - cbn [update]. specialize (UL vs ich cnt). destruct (update_list_with _ _ vs ich cnt) as [ch c1]. cbn [fst dom_of] in *. exact UL.
  - cbn [update]. specialize (UL vs ich cnt). destruct (update_list_with _ _ vs ich cnt) as [ch c1].
    cbn [fst dom_of] in *. rewrite dom_ids_mark, dom_ids_app, dom_ids_mark1. apply ss_keep. apply subseq_app; [|apply subseq_refl].
    destruct vis; cbn [andb]; [|apply subseq_nil_l]. destruct (get_bool st' k); [exact UL|apply subseq_nil_l].
  - rewrite update_VList.
    pose proof (upd_items_stable
                  (fun it => update_list_with (update f st' w (Some it)) (create f st' (Some it)) tmpl)
                  (fun it => create_list_with (create f st' (Some it)) tmpl) kd items (zipl (stable f st' w) tmpl)
                  (fun it is c0 => update_list_stable _ _ _ (fun v0 i0 c1 => IH st' w (Some it) v0 i0 c1) tmpl is c0)
                  (get_list st' k) 0 cnt) as UI.
    destruct (upd_items _ _ kd items (get_list st' k) 0 cnt) as [items' c1]. cbn [fst dom_of] in *.
    rewrite dom_ids_mark, dom_ids_app, dom_ids_mark1. apply ss_keep. apply subseq_app; [exact UI|apply subseq_refl].
  - cbn [update]. specialize (UL vs ich cnt). destruct (update_list_with _ _ vs ich cnt) as [ch c1]. cbn [fst dom_of] in *. exact UL.
  - cbn [update]. specialize (UL vs ich cnt). destruct (update_list_with _ _ vs ich cnt) as [ch c1]. cbn [fst dom_of] in *. exact UL.
  - cbn [update]. specialize (UL vs ich cnt). destruct (update_list_with _ _ vs ich cnt) as [ch c1]. cbn [fst dom_of] in *. exact UL.
Qed.

(* the stable nodes are nodes of the old DOM *)
Lemma zipl_incl {A} (g : A -> inst -> list nat) (h : inst -> list nat) :
  (forall v i, incl (g v i) (h i)) -> forall vs is, incl (zipl g vs is) (flat_map h is).
Proof.
  intros Hg. induction vs as [|x r IH]; intros is; [intros y []|]. destruct is as [|i ir]; [intros y []|].
  cbn [zipl flat_map]. apply incl_app; [apply incl_appl, Hg|apply incl_appr, IH].
Qed.

Lemma stable_items_incl (g : list inst -> list nat) keyed items :
  (forall is, incl (g is) (dom_ids (flat_map dom_of is))) ->
  forall l pos, incl (stable_items g keyed items l pos) (dom_ids (flat_map (fun p => flat_map dom_of (snd p)) items)).
Proof.
  intros Hg. induction l as [|it r IH]; intros pos; [intros y []|]. cbn [stable_items]. apply incl_app; [|apply IH].
  destruct (old_item keyed items pos it) as [is|] eqn:E; [|intros y []].
  apply old_item_In in E. intros y Hy. apply Hg in Hy. rewrite dom_ids_flat. apply in_flat_map. exists (it, is). split; [exact E|exact Hy].
Qed.

Theorem stable_old f : forall st' w v i, incl (stable f st' w v i) (dom_ids (dom_of i)).
Proof.
  induction f as [|f IH]; intros st' w v i; [apply incl_refl|].
  assert (ZL : forall vs is, incl (zipl (stable f st' w) vs is) (dom_ids (flat_map dom_of is))).
  { intros vs is. rewrite dom_ids_flat. apply zipl_incl. intros v0 i0. apply IH. }
  destruct v as [tag attrs children|s|k|k a b|vs|k vs|kd k tmpl| |vs|vs|vs];
    destruct i as [id tag' attrs' ich|id s'|m1 m2 ich|m1 m2 vis ich|m1 m2 items|ich];
    cbn [stable]; try solve [intros y []]; try solve [cbn [dom_of]; apply incl_refl].
  - cbn [dom_of]. rewrite dom_ids_el. apply incl_cons; [left; reflexivity|]. apply incl_tl.
    destruct (is_void tag); [intros y []|apply ZL].
  - cbn [dom_of]. rewrite dom_ids_mark, dom_ids_app, dom_ids_mark1. apply incl_cons; [left; reflexivity|]. apply incl_tl.
    apply incl_app; [apply incl_appl|apply incl_appr, incl_refl].
    destruct (sigid_eqb w (CB k)); [intros y []|apply ZL].
  - cbn [dom_of]. apply ZL.
  - cbn [dom_of]. rewrite dom_ids_mark, dom_ids_app, dom_ids_mark1. apply incl_cons; [left; reflexivity|]. apply incl_tl.
    apply incl_app; [apply incl_appl|apply incl_appr, incl_refl].
    destruct vis; cbn [andb]; [|intros y []]. destruct (get_bool st' k); [apply ZL|intros y []].
  - cbn [dom_of]. rewrite dom_ids_mark, dom_ids_app, dom_ids_mark1. apply incl_cons; [left; reflexivity|]. apply incl_tl.
    apply incl_app; [apply incl_appl|apply incl_appr, incl_refl].
    apply stable_items_incl. intros is. apply ZL.
  - cbn [dom_of]. apply ZL.
  - cbn [dom_of]. apply ZL.
  - cbn [dom_of]. apply ZL.
Qed.

(* ------------------------------------------------------------------------------------------------ *)
(* runs: the last step of a run *)
Definition stepf (f : nat) (v : view) (t : vstate * inst * nat) (w : cwrite) : vstate * inst * nat :=
  let s' := apply_write (fst (fst t)) w in
  let '(i', c') := update f s' (fst w) None v (snd (fst t)) (snd t) in (s', i', c').

Lemma steps_snoc f v : forall ws st i c w,
  steps f v st i c (ws ++ [w]) = steps f v st i c ws ++ [stepf f v (last (steps f v st i c ws) (st, i, c)) w].
Proof.
  induction ws as [|w0 r IH]; intros st i c w.
  - cbn [app steps last]. unfold stepf. cbn [fst snd].
    destruct (update f (apply_write st w) (fst w) None v i c) as [i' c']. reflexivity.
  - cbn [app steps]. destruct (update f (apply_write st w0) (fst w0) None v i c) as [i' c'].
    rewrite IH. cbn [app]. rewrite last_cons. reflexivity.
Qed.

Definition tlast (l : list (vstate * inst * nat)) : vstate * inst * nat := last l (VState [] [] [], IGroup [], 0).

Lemma tracef_snoc f st v ws w : tracef f st v (ws ++ [w]) = tracef f st v ws ++ [stepf f v (tlast (tracef f st v ws)) w].
Proof.
  unfold tracef, tlast. destruct (create f st None v 0) as [i0 c0]. rewrite steps_snoc. cbn [app]. f_equal. f_equal. f_equal.
  rewrite last_cons. reflexivity.
Qed.

Lemma tlast_snoc l t : tlast (l ++ [t]) = t.
Proof. unfold tlast. apply last_last. Qed.

Lemma Forall_last {A} (P : A -> Prop) l d : Forall P l -> l <> [] -> P (last l d).
Proof.
  induction 1 as [|x r Hx Hr IH]; intros Hne; [contradiction|]. destruct r as [|y r']; [exact Hx|]. apply IH. discriminate.
Qed.

Lemma tracef_nonempty f st v ws : tracef f st v ws <> [].
Proof. unfold tracef. destruct (create f st None v 0). discriminate. Qed.

Lemma tracef_faithful f st v ws :
  Forall (fun t => faithful f (fst (fst t)) None v (snd (fst t))) (tracef f st v ws).
Proof.
  unfold tracef. pose proof (create_faithful f st None v 0) as H0.
  destruct (create f st None v 0) as [i0 c0]. cbn [fst] in H0. constructor; [exact H0|].
  pose proof (steps_faithful f v ws st i0 c0 H0) as Hs.
  induction Hs as [|s t ss ts [E Ht] _ IHs]; constructor; [rewrite E; exact Ht|exact IHs].
Qed.

(* one more write at the end of a run *)
Theorem last_write_nonstruct st v ws w :
  keys_ok (apply_write (fst (fst (tlast (trace st v ws)))) w) v = true -> nonstruct (fst w) v = true ->
  map dshape (last (run_client st v (ws ++ [w])) []) = map dshape (last (run_client st v ws) [])
  /\ map dnode_ids (last (run_client st v (ws ++ [w])) []) = map dnode_ids (last (run_client st v ws) []).
Proof.
  rewrite !run_client_trace. unfold trace. generalize client_fuel. intros f HQ Hw.
  assert (L : forall l, l <> [] -> last (map (fun t : vstate * inst * nat => dom_of (snd (fst t))) l) [] = dom_of (snd (fst (tlast l)))).
  { intros l Hl. unfold tlast. destruct l as [|x r]; [contradiction|]. cbn [map]. rewrite !last_cons.
    apply (last_map (fun t : vstate * inst * nat => dom_of (snd (fst t)))). }
  rewrite !L; try apply tracef_nonempty. rewrite tracef_snoc, tlast_snoc.
  pose proof (Forall_last _ _ (VState [] [] [], IGroup [], 0) (tracef_faithful f st v ws) (tracef_nonempty f st v ws)) as Hf.
  fold (tlast (tracef f st v ws)) in Hf. destruct (tlast (tracef f st v ws)) as [[s i] c]. cbn [fst snd] in *.
  pose proof (update_nonstruct_dom f s (apply_write s w) (fst w) None v i c (apply_write_agree s w) Hf HQ (nonstruct_notin _ _ Hw)) as (H1 & H2 & _).
  unfold stepf. cbn [fst snd]. destruct (update f (apply_write s w) (fst w) None v i c) as [i' c']. cbn [fst snd] in *.
  split; assumption.
Qed.

Theorem last_write_stable st v ws w :
  let t := tlast (trace st v ws) in
  subseq (stable client_fuel (apply_write (fst (fst t)) w) (fst w) v (snd (fst t))) (dom_ids (last (run_client st v (ws ++ [w])) []))
  /\ incl (stable client_fuel (apply_write (fst (fst t)) w) (fst w) v (snd (fst t))) (dom_ids (last (run_client st v ws) [])).
Proof.
  cbv zeta. rewrite !run_client_trace. unfold trace. generalize client_fuel. intros f.
  assert (L : forall l, l <> [] -> last (map (fun t : vstate * inst * nat => dom_of (snd (fst t))) l) [] = dom_of (snd (fst (tlast l)))).
  { intros l Hl. unfold tlast. destruct l as [|x r]; [contradiction|]. cbn [map]. rewrite !last_cons.
    apply (last_map (fun t : vstate * inst * nat => dom_of (snd (fst t)))). }
  rewrite !L; try apply tracef_nonempty. rewrite tracef_snoc, tlast_snoc.
  destruct (tlast (tracef f st v ws)) as [[s i] c]. cbn [fst snd].
  split; [|apply stable_old].
  pose proof (update_stable f (apply_write s w) (fst w) None v i c) as H.
  unfold stepf. cbn [fst snd]. destruct (update f (apply_write s w) (fst w) None v i c) as [i' c']. exact H.
Qed.

Lemma nonstruct_CS k v : nonstruct (CS k) v = true.
Proof.
  unfold nonstruct. apply negb_true_iff. destruct (existsb (sigid_eqb (CS k)) (struct_reads v)) eqn:E; [|reflexivity].
  apply existsb_exists in E. destruct E as (x & Hx & Hx'). apply sigid_eqb_eq in Hx'. subst x.
  exfalso. exact (string_write_nonstruct k v Hx).
Qed.
