(* Dom/HydrateForest.v -- the operations of the walk that search the whole forest: the registry lookup [find_hk_list],
   [stamp] and [with_children_list], against the relation of HydrateRel.v. *)
From Coq Require Import List String Ascii Bool Arith ZArith Lia.
From Syc Require Import Common.Show Common.ShowFacts Ssr.Html Ssr.View Dom.Hydrate Dom.HydrateSpec Dom.HydrateRel.
Import ListNotations.
Open Scope string_scope.
Open Scope list_scope.

Fixpoint elids_n (n : hnode) : list nat :=
  match n with HEl id _ _ ch => id :: flat_map elids_n ch | _ => [] end.
Definition elids (l : list hnode) : list nat := flat_map elids_n l.

Lemma find_hk_El key id t a ch :
  find_hk key (HEl id t a ch)
  = match hk_of a with
    | Some k => if String.eqb k key then Some id else find_hk_list key ch
    | None => find_hk_list key ch
    end.
Proof. reflexivity. Qed.
Lemma find_hk_list_cons key x r :
  find_hk_list key (x :: r) = match find_hk key x with Some i => Some i | None => find_hk_list key r end.
Proof. reflexivity. Qed.

Lemma keys_cons i r : keys (i :: r) = keys_i i ++ keys r.
Proof. reflexivity. Qed.
Lemma keys_El k ch : keys_i (LEl k ch) = (match k with Some c => [c] | None => [] end) ++ keys ch.
Proof. reflexivity. Qed.
Lemma elids_cons n r : elids (n :: r) = elids_n n ++ elids r.
Proof. reflexivity. Qed.
Lemma elids_El id t a ch : elids_n (HEl id t a ch) = id :: elids ch.
Proof. reflexivity. Qed.

(* the relation looks at the state of the keys of the layout only *)
Lemma el_ok_ext P P' key ch a0 a nt nm :
  (forall c, key = Some c -> P c = P' c) -> el_ok P key ch a0 a nt nm -> el_ok P' key ch a0 a nt nm.
Proof.
  intros H. unfold el_ok. destruct key as [c|]; [|tauto]. rewrite <- (H c eq_refl). tauto.
Qed.

Lemma rel_ext fresh P P' nt nm its hs0 hs : rel fresh P nt nm its hs0 hs ->
  (forall c, In c (keys its) -> P c = P' c) -> rel fresh P' nt nm its hs0 hs.
Proof.
  induction 1 as [nt nm|nt nm n its hs0 hs Hn Hr IH|nt nm key ch its id tag a0 a cs0 cs hs0 hs nt' nm' Hid Hok Hc IHc Hr IH
                 |nt nm h s i x its hs0 hs Hh Hi Hx Hr IH|nt nm s i x j its hs0 hs Hi Hx Hj Hr IH
                 |nt nm h i its hs0 hs Hh Hi Hr IH|nt nm i j its hs0 hs Hi Hj Hr IH];
    intros HP; try (constructor; try assumption; apply IH; exact HP).
  rewrite keys_cons, keys_El in HP. econstructor; [exact Hid| | |].
  - eapply el_ok_ext; [|exact Hok]. intros c Hc'. subst key. apply HP. apply in_or_app. left. left. reflexivity.
  - apply IHc. intros c Hin. apply HP. apply in_or_app. left. apply in_or_app. right. exact Hin.
  - apply IH. intros c Hin. apply HP. apply in_or_app. right. exact Hin.
Qed.

Lemma hk_of_stamp a : hk_of (a ++ [stamp_attr]) = hk_of a.
Proof.
  unfold hk_of. induction a as [|p r IH]; [reflexivity|]. cbn [app find].
  destruct (String.eqb (fst p) "data-hk"); [reflexivity|exact IH].
Qed.

Lemma el_ok_hk P key ch a0 a nt nm : el_ok P key ch a0 a nt nm ->
  hk_of a = hk_of a0 /\ hk_of a0 = match key with Some c => Some (key_str c) | None => None end.
Proof.
  unfold el_ok. destruct key as [c|].
  - intros [_ [H0 H]]. split; [|exact H0]. destruct (P c); destruct H as [H _]; subst a; try reflexivity; apply hk_of_stamp.
  - intros [_ [H0 [H _]]]. subst a. split; [reflexivity|exact H0].
Qed.

Lemma slotval_find fresh x s key : slotval fresh x s -> find_hk key x = None.
Proof. intros H. inversion H; reflexivity. Qed.
Lemma skippable_find fresh n key : skippable fresh n -> find_hk key n = None.
Proof. destruct n; cbn; [tauto|reflexivity|reflexivity]. Qed.

(* the registry sees the same elements at every point of the walk *)
Lemma rel_find_same fresh P key nt nm its hs0 hs : rel fresh P nt nm its hs0 hs ->
  find_hk_list key hs = find_hk_list key hs0.
Proof.
  induction 1 as [nt nm|nt nm n its hs0 hs Hn Hr IH|nt nm k ch its id tag a0 a cs0 cs hs0 hs nt' nm' Hid Hok Hc IHc Hr IH
                 |nt nm h s i x its hs0 hs Hh Hi Hx Hr IH|nt nm s i x j its hs0 hs Hi Hx Hj Hr IH
                 |nt nm h i its hs0 hs Hh Hi Hr IH|nt nm i j its hs0 hs Hi Hj Hr IH];
    rewrite ?find_hk_list_cons.
  - reflexivity.
  - rewrite IH. reflexivity.
  - rewrite !find_hk_El. destruct (el_ok_hk _ _ _ _ _ _ _ Hok) as [E _]. rewrite E, IHc, IH. reflexivity.
  - rewrite IH. reflexivity.
  - rewrite IH. rewrite (slotval_find _ _ _ key Hx). reflexivity.
  - rewrite IH. reflexivity.
  - rewrite IH. reflexivity.
Qed.

Lemma rel_find_spec fresh P c nt nm its hs0 hs : rel fresh P nt nm its hs0 hs ->
  (~ In c (keys its) -> find_hk_list (key_str c) hs0 = None)
  /\ (In c (keys its) -> exists e, find_hk_list (key_str c) hs0 = Some e /\ In e (elids hs0)).
Proof.
  induction 1 as [nt nm|nt nm n its hs0 hs Hn Hr IH|nt nm k ch its id tag a0 a cs0 cs hs0 hs nt' nm' Hid Hok Hc IHc Hr IH
                 |nt nm h s i x its hs0 hs Hh Hi Hx Hr IH|nt nm s i x j its hs0 hs Hi Hx Hj Hr IH
                 |nt nm h i its hs0 hs Hh Hi Hr IH|nt nm i j its hs0 hs Hi Hj Hr IH];
    rewrite ?find_hk_list_cons, ?elids_cons.
  - split; [reflexivity|intros []].
  - rewrite (skippable_find _ _ _ Hn). destruct n; cbn in Hn; try tauto; exact IH.
  - rewrite keys_cons, keys_El, find_hk_El, elids_El. destruct (el_ok_hk _ _ _ _ _ _ _ Hok) as [_ E]. rewrite E.
    destruct IH as [IH1 IH2]. destruct IHc as [IC1 IC2].
    assert (Hgo : (~ In c (keys ch ++ keys its) ->
                   match find_hk_list (key_str c) cs0 with Some i => Some i | None => find_hk_list (key_str c) hs0 end = None)
                  /\ (In c (keys ch ++ keys its) -> exists e,
                   match find_hk_list (key_str c) cs0 with Some i => Some i | None => find_hk_list (key_str c) hs0 end = Some e
                   /\ In e ((id :: elids cs0) ++ elids hs0))).
    { split.
      - intros Hn. rewrite IC1, IH1; [reflexivity| |]; intros Hin; apply Hn; apply in_or_app; tauto.
      - intros Hin. destruct (in_dec Nat.eq_dec c (keys ch)) as [Hi|Hi].
        + destruct (IC2 Hi) as [e [E1 E2]]. exists e. rewrite E1. split; [reflexivity|].
          apply in_or_app. left. right. exact E2.
        + rewrite (IC1 Hi). apply in_app_or in Hin. destruct Hin as [Hin|Hin]; [contradiction|].
          destruct (IH2 Hin) as [e [E1 E2]]. exists e. split; [exact E1|]. apply in_or_app. right. exact E2. }
    destruct k as [c'|]; cbn [app].
    + destruct (String.eqb (key_str c') (key_str c)) eqn:Eq.
      * apply String.eqb_eq in Eq. apply key_str_inj in Eq. subst c'. split.
        -- intros Hn. exfalso. apply Hn. left. reflexivity.
        -- intros _. exists id. split; [reflexivity|left; reflexivity].
      * apply String.eqb_neq in Eq. split.
        -- intros Hn. apply (proj1 Hgo). intros Hin. apply Hn. right. exact Hin.
        -- intros [Hin|Hin]; [subst c'; contradiction Eq; reflexivity|]. exact (proj2 Hgo Hin).
    + exact Hgo.
  - rewrite (slotval_find _ _ _ _ Hx). cbn [find_hk]. inversion Hx; subst; exact IH.
  - rewrite (slotval_find _ _ _ _ Hx). cbn [find_hk]. inversion Hx; subst; exact IH.
  - exact IH.
  - exact IH.
Qed.

Definition upd (c : nat) (s : est) (P : nat -> est) : nat -> est := fun k => if Nat.eqb k c then s else P k.

Lemma stamp_El eid id tag a ch :
  stamp eid (HEl id tag a ch) = if Nat.eqb id eid then HEl id tag (a ++ [stamp_attr]) ch else HEl id tag a (map (stamp eid) ch).
Proof. reflexivity. Qed.

(* an identity that is not an element of the forest: nothing happens *)
Lemma rel_stamp_id fresh P eid nt nm its hs0 hs : rel fresh P nt nm its hs0 hs ->
  ~ In eid (elids hs0) -> map (stamp eid) hs = hs.
Proof.
  induction 1 as [nt nm|nt nm n its hs0 hs Hn Hr IH|nt nm k ch its id tag a0 a cs0 cs hs0 hs nt' nm' Hid Hok Hc IHc Hr IH
                 |nt nm h s i x its hs0 hs Hh Hi Hx Hr IH|nt nm s i x j its hs0 hs Hi Hx Hj Hr IH
                 |nt nm h i its hs0 hs Hh Hi Hr IH|nt nm i j its hs0 hs Hi Hj Hr IH];
    rewrite ?elids_cons; intros Hnin; cbn [map].
  - reflexivity.
  - rewrite IH; [|intros Hin; apply Hnin; apply in_or_app; right; exact Hin].
    destruct n; cbn in Hn; [tauto|reflexivity|reflexivity].
  - rewrite elids_El in Hnin. rewrite stamp_El.
    destruct (Nat.eqb id eid) eqn:E; [apply Nat.eqb_eq in E; subst; exfalso; apply Hnin; left; reflexivity|].
    rewrite IHc, IH; [reflexivity| |]; intros Hin; apply Hnin; [apply in_or_app; right; exact Hin|right; apply in_or_app; left; exact Hin].
  - cbn [elids_n app] in Hnin. inversion Hx; subst; cbn [map stamp elids_n app] in *; rewrite IH; auto.
  - cbn [elids_n app] in Hnin. inversion Hx; subst; cbn [map stamp elids_n app] in *; rewrite IH; auto.
  - cbn [elids_n app] in Hnin. cbn [stamp]. rewrite IH; auto.
  - cbn [elids_n app] in Hnin. cbn [stamp]. rewrite IH; auto.
Qed.

Lemma NoDup_app_disj {A} (a b : list A) x : NoDup (a ++ b) -> In x a -> ~ In x b.
Proof.
  induction a as [|y r IH]; cbn [app]; intros H Ha Hb; [destruct Ha|].
  inversion H as [|? ? Hy Hr]; subst. destruct Ha as [Ha|Ha].
  - subst y. apply Hy. apply in_or_app. right. exact Hb.
  - exact (IH Hr Ha Hb).
Qed.
Lemma NoDup_app_l {A} (a b : list A) : NoDup (a ++ b) -> NoDup a.
Proof. induction a as [|y r IH]; cbn [app]; intros H; [constructor|]. inversion H; subst. constructor; [|auto]. intros Hin. apply H2. apply in_or_app. left. exact Hin. Qed.
Lemma NoDup_app_r {A} (a b : list A) : NoDup (a ++ b) -> NoDup b.
Proof. induction a as [|y r IH]; cbn [app]; intros H; [exact H|]. inversion H; subst. auto. Qed.

Lemma upd_other c s P k : k <> c -> upd c s P k = P k.
Proof. intros H. unfold upd. destruct (Nat.eqb k c) eqn:E; [apply Nat.eqb_eq in E; contradiction|reflexivity]. Qed.
Lemma upd_same c s P : upd c s P c = s.
Proof. unfold upd. rewrite Nat.eqb_refl. reflexivity. Qed.

Lemma rel_upd_notin fresh P c s nt nm its hs0 hs : rel fresh P nt nm its hs0 hs -> ~ In c (keys its) ->
  rel fresh (upd c s P) nt nm its hs0 hs.
Proof.
  intros H Hn. eapply rel_ext; [exact H|]. intros k Hk. symmetry. apply upd_other. intros E. subst k. contradiction.
Qed.

Lemma rel_stamp fresh P c nt nm its hs0 hs : rel fresh P nt nm its hs0 hs ->
  NoDup (keys its) -> NoDup (elids hs0) -> P c = Untouched -> In c (keys its) ->
  forall eid, find_hk_list (key_str c) hs0 = Some eid ->
  rel fresh (upd c Stamped P) nt nm its hs0 (map (stamp eid) hs).
Proof.
  intros H. revert c.
  induction H as [nt nm|nt nm n its hs0 hs Hn Hr IH|nt nm k ch its id tag a0 a cs0 cs hs0 hs nt' nm' Hid Hok Hc IHc Hr IH
                 |nt nm h s i x its hs0 hs Hh Hi Hx Hr IH|nt nm s i x j its hs0 hs Hi Hx Hj Hr IH
                 |nt nm h i its hs0 hs Hh Hi Hr IH|nt nm i j its hs0 hs Hi Hj Hr IH];
    intros c NDk NDi HP Hin eid Hf; rewrite ?find_hk_list_cons, ?elids_cons in *; cbn [map].
  - destruct Hin.
  - rewrite (skippable_find _ _ _ Hn) in Hf.
    assert (En : elids_n n = []) by (destruct n; cbn in Hn; [tauto|reflexivity|reflexivity]).
    rewrite En in NDi. cbn [app] in NDi.
    replace (stamp eid n) with n by (destruct n; cbn in Hn; [tauto|reflexivity|reflexivity]).
    constructor; [exact Hn|]. apply IH; assumption.
  - rewrite keys_cons, keys_El in NDk, Hin. rewrite elids_El in NDi. rewrite find_hk_El in Hf.
    destruct (el_ok_hk _ _ _ _ _ _ _ Hok) as [_ E]. rewrite E in Hf. rewrite stamp_El.
    inversion NDi as [|? ? Hidn NDi']; subst.
    assert (NDkk : NoDup (keys ch ++ keys its)) by (destruct k; [inversion NDk; assumption|exact NDk]).
    pose proof (NoDup_app_l _ _ NDkk) as NDc. pose proof (NoDup_app_r _ _ NDkk) as NDr.
    pose proof (NoDup_app_l _ _ NDi') as NDic. pose proof (NoDup_app_r _ _ NDi') as NDir.
    (* the search below the head *)
    assert (Hgo : In c (keys ch ++ keys its) ->
                  (match find_hk_list (key_str c) cs0 with Some i => Some i | None => find_hk_list (key_str c) hs0 end) = Some eid ->
                  (forall c0, k = Some c0 -> c0 <> c) ->
                  rel fresh (upd c Stamped P) nt nm (LEl k ch :: its) (HEl id tag a0 cs0 :: hs0)
                      ((if Nat.eqb id eid then HEl id tag (a ++ [stamp_attr]) cs else HEl id tag a (map (stamp eid) cs)) :: map (stamp eid) hs)).
    { intros Hin' Hf' Hk.
      assert (Hok' : el_ok (upd c Stamped P) k ch a0 a nt' nm').
      { eapply el_ok_ext; [|exact Hok]. intros c0 E0. symmetry. apply upd_other. exact (Hk c0 E0). }
      destruct (in_dec Nat.eq_dec c (keys ch)) as [Hi|Hi].
      - destruct (proj2 (rel_find_spec _ _ c _ _ _ _ _ Hc) Hi) as [e [E1 E2]]. rewrite E1 in Hf'. inversion Hf'; subst e.
        assert (Hne : Nat.eqb id eid = false).
        { apply Nat.eqb_neq. intros ->. apply Hidn. apply in_or_app. left. exact E2. }
        rewrite Hne. rewrite (rel_stamp_id _ _ eid _ _ _ _ _ Hr) by (exact (NoDup_app_disj _ _ _ NDi' E2)).
        econstructor; [exact Hid|exact Hok'|apply IHc; assumption|].
        apply rel_upd_notin; [exact Hr|]. exact (NoDup_app_disj _ _ _ NDkk Hi).
      - rewrite (proj1 (rel_find_spec _ _ c _ _ _ _ _ Hc) Hi) in Hf'.
        apply in_app_or in Hin'. destruct Hin' as [Hin'|Hin']; [contradiction|].
        destruct (proj2 (rel_find_spec _ _ c _ _ _ _ _ Hr) Hin') as [e [E1 E2]]. rewrite E1 in Hf'. inversion Hf'; subst e.
        assert (Hne : Nat.eqb id eid = false).
        { apply Nat.eqb_neq. intros ->. apply Hidn. apply in_or_app. right. exact E2. }
        rewrite Hne. rewrite (rel_stamp_id _ _ eid _ _ _ _ _ Hc).
        + econstructor; [exact Hid|exact Hok'|apply rel_upd_notin; assumption|apply IH; assumption].
        + intros Hx. exact (NoDup_app_disj _ _ _ NDi' Hx E2). }
    destruct k as [c'|]; cbn [app] in *.
    + destruct (String.eqb (key_str c') (key_str c)) eqn:Eq.
      * apply String.eqb_eq in Eq. apply key_str_inj in Eq. subst c'. inversion Hf; subst eid. rewrite Nat.eqb_refl.
        inversion NDk as [|? ? Hcn _]; subst.
        rewrite (rel_stamp_id _ _ id _ _ _ _ _ Hr) by (intros Hx; apply Hidn; apply in_or_app; right; exact Hx).
        unfold el_ok in Hok. destruct Hok as [Hst [H0 H1]]. rewrite HP in H1. destruct H1 as [Ha [Hnt Hnm]]. subst a nt' nm'.
        econstructor; [exact Hid| | |].
        -- unfold el_ok. split; [exact Hst|]. split; [exact H0|]. rewrite upd_same. auto.
        -- apply rel_upd_notin; [exact Hc|]. intros Hx. apply Hcn. apply in_or_app. left. exact Hx.
        -- apply rel_upd_notin; [exact Hr|]. intros Hx. apply Hcn. apply in_or_app. right. exact Hx.
      * apply String.eqb_neq in Eq. destruct Hin as [Hin|Hin]; [subst c'; contradiction Eq; reflexivity|].
        apply Hgo; [exact Hin|exact Hf|]. intros c0 E0. inversion E0; subst c0. intros ->. apply Eq. reflexivity.
    + apply Hgo; [exact Hin|exact Hf|]. intros c0 E0. discriminate E0.
  - rewrite (slotval_find _ _ _ _ Hx) in Hf. cbn [find_hk] in Hf.
    replace (elids_n x) with (@nil nat) in NDi by (inversion Hx; reflexivity). cbn [elids_n app] in NDi.
    replace (stamp eid x) with x by (inversion Hx; reflexivity). cbn [stamp].
    apply R_text_pending; try assumption. apply IH; assumption.
  - rewrite (slotval_find _ _ _ _ Hx) in Hf. cbn [find_hk] in Hf.
    replace (elids_n x) with (@nil nat) in NDi by (inversion Hx; reflexivity). cbn [elids_n app] in NDi.
    cbn [stamp]. apply R_text_adopted; try assumption. apply IH; assumption.
  - cbn [find_hk elids_n app] in *. cbn [stamp]. apply R_mark_pending; try assumption. apply IH; assumption.
  - cbn [find_hk elids_n app] in *. cbn [stamp]. apply R_mark_adopted; try assumption. apply IH; assumption.
Qed.

(* ---- with_children ---- *)
Lemma with_children_El eid f id tag attrs ch :
  with_children eid f (HEl id tag attrs ch)
  = if Nat.eqb id eid then match f ch with HOk ch' => HOk (HEl id tag attrs ch') | HErr e => HErr e end
    else match with_children_list eid f ch with HOk ch' => HOk (HEl id tag attrs ch') | HErr e => HErr e end.
Proof.
  cbn [with_children]. destruct (Nat.eqb id eid); [reflexivity|].
  match goal with |- match ?a with _ => _ end = match ?b with _ => _ end => assert (E : a = b) end.
  { induction ch as [|x r IH]; [reflexivity|]. cbn [with_children_list]. rewrite <- IH. reflexivity. }
  rewrite E. reflexivity.
Qed.

Lemma rel_wc_id fresh P eid f nt nm its hs0 hs : rel fresh P nt nm its hs0 hs ->
  ~ In eid (elids hs0) -> with_children_list eid f hs = HOk hs.
Proof.
  induction 1 as [nt nm|nt nm n its hs0 hs Hn Hr IH|nt nm k ch its id tag a0 a cs0 cs hs0 hs nt' nm' Hid Hok Hc IHc Hr IH
                 |nt nm h s i x its hs0 hs Hh Hi Hx Hr IH|nt nm s i x j its hs0 hs Hi Hx Hj Hr IH
                 |nt nm h i its hs0 hs Hh Hi Hr IH|nt nm i j its hs0 hs Hi Hj Hr IH];
    rewrite ?elids_cons; intros Hnin; cbn [with_children_list].
  - reflexivity.
  - rewrite IH; [|intros Hin; apply Hnin; apply in_or_app; right; exact Hin].
    destruct n; cbn in Hn; [tauto|reflexivity|reflexivity].
  - rewrite elids_El in Hnin. rewrite with_children_El.
    destruct (Nat.eqb id eid) eqn:E; [apply Nat.eqb_eq in E; subst; exfalso; apply Hnin; left; reflexivity|].
    rewrite IHc, IH; [reflexivity| |]; intros Hin; apply Hnin; [apply in_or_app; right; exact Hin|right; apply in_or_app; left; exact Hin].
  - cbn [elids_n app] in Hnin. inversion Hx; subst; cbn [with_children elids_n app] in *; rewrite IH; auto.
  - cbn [elids_n app] in Hnin. inversion Hx; subst; cbn [with_children elids_n app] in *; rewrite IH; auto.
  - cbn [elids_n app] in Hnin. cbn [with_children]. rewrite IH; auto.
  - cbn [elids_n app] in Hnin. cbn [with_children]. rewrite IH; auto.
Qed.

(* deep occurrence of an item in a layout *)
Inductive din (e : litem) : list litem -> Prop :=
| din_here r : din e (e :: r)
| din_next x r : din e r -> din e (x :: r)
| din_child k ch r : din e ch -> din e (LEl k ch :: r).

Definition adopts fresh (P : nat -> est) (f : list hnode -> hres (list hnode)) (c : nat) (its : list litem) : Prop :=
  forall ch cs0 cs, din (LEl (Some c) ch) its -> rel fresh P 0 0 ch cs0 cs ->
  exists cs', f cs = HOk cs' /\ rel fresh P (count_t ch) (count_m ch) ch cs0 cs'.

Lemma rel_with_children fresh P f nt nm its hs0 hs : rel fresh P nt nm its hs0 hs ->
  forall c, NoDup (keys its) -> NoDup (elids hs0) -> P c = Stamped -> In c (keys its) -> adopts fresh P f c its ->
  forall eid, find_hk_list (key_str c) hs0 = Some eid ->
  exists hs', with_children_list eid f hs = HOk hs' /\ rel fresh (upd c Done P) nt nm its hs0 hs'.
Proof.
  induction 1 as [nt nm|nt nm n its hs0 hs Hn Hr IH|nt nm k ch its id tag a0 a cs0 cs hs0 hs nt' nm' Hid Hok Hc IHc Hr IH
                 |nt nm h s i x its hs0 hs Hh Hi Hx Hr IH|nt nm s i x j its hs0 hs Hi Hx Hj Hr IH
                 |nt nm h i its hs0 hs Hh Hi Hr IH|nt nm i j its hs0 hs Hi Hj Hr IH];
    intros c NDk NDi HP Hin Hf eid Hfind; rewrite ?find_hk_list_cons, ?elids_cons in *; cbn [with_children_list].
  - destruct Hin.
  - rewrite (skippable_find _ _ _ Hn) in Hfind.
    assert (En : elids_n n = []) by (destruct n; cbn in Hn; [tauto|reflexivity|reflexivity]).
    rewrite En in NDi. cbn [app] in NDi.
    destruct (IH c NDk NDi HP Hin Hf eid Hfind) as [hs' [E R]]. exists (n :: hs'). split; [|constructor; assumption].
    replace (with_children eid f n) with (HOk n) by (destruct n; cbn in Hn; [tauto|reflexivity|reflexivity]).
    rewrite E. reflexivity.
  - rewrite keys_cons, keys_El in NDk, Hin. rewrite elids_El in NDi. rewrite find_hk_El in Hfind.
    destruct (el_ok_hk _ _ _ _ _ _ _ Hok) as [_ E]. rewrite E in Hfind. rewrite with_children_El.
    inversion NDi as [|? ? Hidn NDi']; subst.
    assert (NDkk : NoDup (keys ch ++ keys its)) by (destruct k; [inversion NDk; assumption|exact NDk]).
    pose proof (NoDup_app_l _ _ NDkk) as NDc. pose proof (NoDup_app_r _ _ NDkk) as NDr.
    pose proof (NoDup_app_l _ _ NDi') as NDic. pose proof (NoDup_app_r _ _ NDi') as NDir.
    assert (Hfc : adopts fresh P f c ch) by (intros ch0 cs1 cs2 Hd; apply Hf; apply din_child; exact Hd).
    assert (Hfr : adopts fresh P f c its) by (intros ch0 cs1 cs2 Hd; apply Hf; apply din_next; exact Hd).
    assert (Hgo : In c (keys ch ++ keys its) ->
                  (match find_hk_list (key_str c) cs0 with Some i => Some i | None => find_hk_list (key_str c) hs0 end) = Some eid ->
                  (forall c0, k = Some c0 -> c0 <> c) ->
                  exists hs', match (if Nat.eqb id eid
                                     then match f cs with HOk ch' => HOk (HEl id tag a ch') | HErr e => HErr e end
                                     else match with_children_list eid f cs with HOk ch' => HOk (HEl id tag a ch') | HErr e => HErr e end) with
                              | HOk x' => match with_children_list eid f hs with HOk r' => HOk (x' :: r') | HErr e => HErr e end
                              | HErr e => HErr e
                              end = HOk hs'
                              /\ rel fresh (upd c Done P) nt nm (LEl k ch :: its) (HEl id tag a0 cs0 :: hs0) hs').
    { intros Hin' Hf' Hk.
      assert (Hok' : el_ok (upd c Done P) k ch a0 a nt' nm').
      { eapply el_ok_ext; [|exact Hok]. intros c0 E0. symmetry. apply upd_other. exact (Hk c0 E0). }
      destruct (in_dec Nat.eq_dec c (keys ch)) as [Hi|Hi].
      - destruct (proj2 (rel_find_spec _ _ c _ _ _ _ _ Hc) Hi) as [e [E1 E2]]. rewrite E1 in Hf'. inversion Hf'; subst e.
        assert (Hne : Nat.eqb id eid = false).
        { apply Nat.eqb_neq. intros ->. apply Hidn. apply in_or_app. left. exact E2. }
        rewrite Hne. rewrite (rel_wc_id _ _ eid f _ _ _ _ _ Hr) by (exact (NoDup_app_disj _ _ _ NDi' E2)).
        destruct (IHc c NDc NDic HP Hi Hfc eid E1) as [cs' [Ec Rc]]. rewrite Ec.
        eexists. split; [reflexivity|].
        econstructor; [exact Hid|exact Hok'|exact Rc|].
        apply rel_upd_notin; [exact Hr|]. exact (NoDup_app_disj _ _ _ NDkk Hi).
      - rewrite (proj1 (rel_find_spec _ _ c _ _ _ _ _ Hc) Hi) in Hf'.
        apply in_app_or in Hin'. destruct Hin' as [Hin'|Hin']; [contradiction|].
        destruct (proj2 (rel_find_spec _ _ c _ _ _ _ _ Hr) Hin') as [e [E1 E2]]. rewrite E1 in Hf'. inversion Hf'; subst e.
        assert (Hne : Nat.eqb id eid = false).
        { apply Nat.eqb_neq. intros ->. apply Hidn. apply in_or_app. right. exact E2. }
        rewrite Hne. rewrite (rel_wc_id _ _ eid f _ _ _ _ _ Hc) by (intros Hx; exact (NoDup_app_disj _ _ _ NDi' Hx E2)).
        destruct (IH c NDr NDir HP Hin' Hfr eid E1) as [hs' [Eh Rh]]. rewrite Eh.
        eexists. split; [reflexivity|].
        econstructor; [exact Hid|exact Hok'|apply rel_upd_notin; assumption|exact Rh]. }
    destruct k as [c'|]; cbn [app] in *.
    + destruct (String.eqb (key_str c') (key_str c)) eqn:Eq.
      * apply String.eqb_eq in Eq. apply key_str_inj in Eq. subst c'. inversion Hfind; subst eid. rewrite Nat.eqb_refl.
        inversion NDk as [|? ? Hcn _]; subst.
        rewrite (rel_wc_id _ _ id f _ _ _ _ _ Hr) by (intros Hx; apply Hidn; apply in_or_app; right; exact Hx).
        unfold el_ok in Hok. destruct Hok as [Hst [H0 H1]]. rewrite HP in H1. destruct H1 as [Ha [Hnt Hnm]]. subst a nt' nm'.
        destruct (Hf ch cs0 cs (din_here _ _) Hc) as [cs' [Ec Rc]]. rewrite Ec.
        eexists. split; [reflexivity|].
        econstructor; [exact Hid| | |].
        -- unfold el_ok. split; [exact Hst|]. split; [exact H0|]. rewrite upd_same. auto.
        -- apply rel_upd_notin; [exact Rc|]. intros Hx. apply Hcn. apply in_or_app. left. exact Hx.
        -- apply rel_upd_notin; [exact Hr|]. intros Hx. apply Hcn. apply in_or_app. right. exact Hx.
      * apply String.eqb_neq in Eq. destruct Hin as [Hin|Hin]; [subst c'; contradiction Eq; reflexivity|].
        apply Hgo; [exact Hin|exact Hfind|]. intros c0 E0. inversion E0; subst c0. intros ->. apply Eq. reflexivity.
    + apply Hgo; [exact Hin|exact Hfind|]. intros c0 E0. discriminate E0.
  - rewrite (slotval_find _ _ _ _ Hx) in Hfind. cbn [find_hk] in Hfind.
    replace (elids_n x) with (@nil nat) in NDi by (inversion Hx; reflexivity). cbn [elids_n app] in NDi.
    assert (Hf' : adopts fresh P f c its) by (intros ch0 cs1 cs2 Hd; apply Hf; apply din_next; exact Hd).
    destruct (IH c NDk NDi HP Hin Hf' eid Hfind) as [hs' [E R]]. exists (HCom i "t" :: x :: hs'). split.
    + cbn [with_children]. replace (with_children eid f x) with (HOk x) by (inversion Hx; reflexivity). rewrite E. reflexivity.
    + apply R_text_pending; assumption.
  - rewrite (slotval_find _ _ _ _ Hx) in Hfind. cbn [find_hk] in Hfind.
    replace (elids_n x) with (@nil nat) in NDi by (inversion Hx; reflexivity). cbn [elids_n app] in NDi.
    assert (Hf' : adopts fresh P f c its) by (intros ch0 cs1 cs2 Hd; apply Hf; apply din_next; exact Hd).
    destruct (IH c NDk NDi HP Hin Hf' eid Hfind) as [hs' [E R]]. exists (HText j s :: hs'). split.
    + cbn [with_children]. rewrite E. reflexivity.
    + apply R_text_adopted; assumption.
  - cbn [find_hk elids_n app] in *.
    assert (Hf' : adopts fresh P f c its) by (intros ch0 cs1 cs2 Hd; apply Hf; apply din_next; exact Hd).
    destruct (IH c NDk NDi HP Hin Hf' eid Hfind) as [hs' [E R]]. exists (HCom i "/" :: hs'). split.
    + cbn [with_children]. rewrite E. reflexivity.
    + apply R_mark_pending; assumption.
  - cbn [find_hk elids_n app] in *.
    assert (Hf' : adopts fresh P f c its) by (intros ch0 cs1 cs2 Hd; apply Hf; apply din_next; exact Hd).
    destruct (IH c NDk NDi HP Hin Hf' eid Hfind) as [hs' [E R]]. exists (HCom j "#" :: hs'). split.
    + cbn [with_children]. rewrite E. reflexivity.
    + apply R_mark_adopted; assumption.
Qed.

(* ---- deep occurrences and keys ---- *)
Lemma din_keys c ch its : din (LEl (Some c) ch) its -> In c (keys its).
Proof.
  induction 1 as [r|x r H IH|k ch0 r H IH]; rewrite keys_cons.
  - rewrite keys_El. left. reflexivity.
  - apply in_or_app. right. exact IH.
  - rewrite keys_El. apply in_or_app. left. apply in_or_app. right. exact IH.
Qed.

Lemma din_unique c ch1 ch2 its : NoDup (keys its) ->
  din (LEl (Some c) ch1) its -> din (LEl (Some c) ch2) its -> ch1 = ch2.
Proof.
  intros ND H1. revert ND. induction H1 as [r|x r H IH|k ch0 r H IH]; intros ND H2.
  - rewrite keys_cons, keys_El in ND. cbn [app] in ND. inversion ND as [|? ? Hn _]; subst.
    inversion H2 as [r'|x' r' H'|k' ch' r' H']; subst.
    + reflexivity.
    + exfalso. apply Hn. apply in_or_app. right. exact (din_keys _ _ _ H').
    + exfalso. apply Hn. apply in_or_app. left. exact (din_keys _ _ _ H').
  - rewrite keys_cons in ND. pose proof (din_keys _ _ _ H) as Hk.
    inversion H2 as [r'|x' r' H'|k' ch' r' H']; subst.
    + exfalso. rewrite keys_El in ND. cbn [app] in ND. inversion ND as [|? ? Hn _]; subst. apply Hn. apply in_or_app. right. exact Hk.
    + apply IH; [exact (NoDup_app_r _ _ ND)|exact H'].
    + exfalso. rewrite keys_El in ND. refine (NoDup_app_disj _ _ c ND _ Hk).
      apply in_or_app. right. exact (din_keys _ _ _ H').
  - rewrite keys_cons, keys_El in ND. pose proof (din_keys _ _ _ H) as Hk.
    assert (ND' : NoDup (keys ch0 ++ keys r)) by (destruct k; [inversion ND; assumption|exact ND]).
    inversion H2 as [r'|x' r' H'|k' ch' r' H']; subst.
    + exfalso. cbn [app] in ND. inversion ND as [|? ? Hn _]; subst. apply Hn. apply in_or_app. left. exact Hk.
    + exfalso. exact (NoDup_app_disj _ _ c ND' Hk (din_keys _ _ _ H')).
    + apply IH; [exact (NoDup_app_l _ _ ND')|exact H'].
Qed.

Lemma din_app_l e a b : din e a -> din e (a ++ b).
Proof. induction 1; cbn [app]; [apply din_here|apply din_next; assumption|apply din_child; assumption]. Qed.
Lemma din_app_r e a b : din e b -> din e (a ++ b).
Proof. intros H. induction a as [|x r IH]; cbn [app]; [exact H|apply din_next; exact IH]. Qed.
