(* Dom/HydrateServer.v -- the server DOM of a view ([server_dom]) has the layout of the view ([lay]): from the server build,
   through the parser's text merging and the numbering of nodes, to the relation of HydrateRel.v in its initial state. *)
From Coq Require Import List String Ascii Bool Arith ZArith Lia.
From Syc Require Import Common.Show Common.ShowFacts Ssr.Html Ssr.View Dom.Hydrate Dom.HydrateSpec Dom.HydrateRel
  Dom.HydrateForest Dom.HydrateLay.
Import ListNotations.
Open Scope string_scope.
Open Scope list_scope.

Definition key_attr (key : option nat) (a : list (string * string)) : Prop :=
  has_stamp a = false /\ hk_of a = match key with Some c => Some (key_str c) | None => None end.

(* before merging: what [u_of_ssr] emits *)
Inductive U0 : list litem -> list unode -> Prop :=
| U0_nil : U0 [] []
| U0_text s its us : U0 its us -> U0 its (UText s :: us)
| U0_el key ch its tag a cs us : key_attr key a -> U0 ch cs -> U0 its us -> U0 (LEl key ch :: its) (UEl tag a cs :: us)
| U0_dyn h s its us : U0 its us -> U0 (LText h s :: its) (UCom "t" :: UText s :: UCom "" :: us)
| U0_mark h its us : U0 its us -> U0 (LMark h :: its) (UCom "/" :: us).

(* after merging *)
Inductive uslot : unode -> string -> Prop :=
| us_text s : uslot (UText s) s
| us_empty : uslot (UCom "") "".
Inductive U1 : list litem -> list unode -> Prop :=
| U1_nil : U1 [] []
| U1_text s its us : U1 its us -> U1 its (UText s :: us)
| U1_com its us : U1 its us -> U1 its (UCom "" :: us)
| U1_el key ch its tag a cs us : key_attr key a -> U1 ch cs -> U1 its us -> U1 (LEl key ch :: its) (UEl tag a cs :: us)
| U1_dyn h s x its us : uslot x s -> U1 its us -> U1 (LText h s :: its) (UCom "t" :: x :: us)
| U1_mark h its us : U1 its us -> U1 (LMark h :: its) (UCom "/" :: us).

Lemma U1_text_inv its s us : U1 its (UText s :: us) -> U1 its us.
Proof. intros H. inversion H; subst; assumption. Qed.

Lemma U1_merge_text_cons its s r : U1 its (merge_text r) -> U1 its (merge_text (UText s :: r)).
Proof.
  intros H. cbn [merge_text]. destruct (merge_text r) as [|[t a ch|b|c] r'].
  - destruct s; [exact H|constructor; exact H].
  - destruct s; [exact H|constructor; exact H].
  - constructor. exact (U1_text_inv _ _ _ H).
  - destruct s; [exact H|constructor; exact H].
Qed.

Lemma U0_merged its us : U0 its us -> U1 its (merged us).
Proof.
  unfold merged. induction 1 as [|s its us H IH|key ch its tag a cs us Hk Hc IHc H IH|h s its us H IH|h its us H IH]; cbn [map merge_deep].
  - constructor.
  - apply U1_merge_text_cons. exact IH.
  - cbn [merge_text]. constructor; assumption.
  - cbn [merge_text]. destruct s as [|c0 s0].
    + apply (U1_dyn h "" (UCom "")); [constructor|exact IH].
    + apply (U1_dyn h _ (UText (String c0 s0))); [constructor|]. apply U1_com. exact IH.
  - cbn [merge_text]. constructor. exact IH.
Qed.

(* ---- numbering ---- *)
Lemma number_node_El t a ch cnt :
  number_node (UEl t a ch) cnt = let '(ch', c') := number_list ch (S cnt) in (HEl cnt t a ch', c').
Proof.
  cbn [number_node].
  match goal with |- (let '(_, _) := ?x in _) = (let '(_, _) := ?y in _) => assert (E : x = y) end.
  { generalize (S cnt). induction ch as [|x r IH]; intros c; [reflexivity|]. cbn [number_list].
    destruct (number_node x c) as [x' c1]. rewrite IH. reflexivity. }
  rewrite E. reflexivity.
Qed.

Lemma ids_cons n r : ids (n :: r) = ids_node n ++ ids r.
Proof. reflexivity. Qed.

Lemma number_rel its us : U1 its us ->
  forall c hs c', number_list us c = (hs, c') ->
  (c <= c' /\ kgood c c' (elids hs))
  /\ forall fresh P, (forall id, In id (ids hs) -> id < fresh) -> (forall k, P k = Untouched) -> rel fresh P 0 0 its hs hs.
Proof.
  induction 1 as [|s its us H IH|its us H IH|key ch its tag a cs us Hk Hc IHc H IH|h s x its us Hx H IH|h its us H IH];
    intros c hs c' E; cbn [number_list] in E.
  - inversion E; subst. split; [split; [lia|apply kgood_nil]|]. intros. constructor.
  - cbn [number_node] in E. destruct (number_list us (S c)) as [r' c2] eqn:E2. inversion E; subst.
    destruct (IH _ _ _ E2) as [[L K] R]. split; [split; [lia|]|].
    + rewrite elids_cons. cbn [elids_n app]. destruct K as [K1 K2]. split; [exact K1|]. eapply Forall_impl; [|exact K2]. cbn. intros; lia.
    + intros fresh P Hid HP. rewrite ids_cons in Hid. apply R_skip; [cbn; apply Hid; left; reflexivity|].
      apply R; [|exact HP]. intros id Hin. apply Hid. apply in_or_app. right. exact Hin.
  - cbn [number_node] in E. destruct (number_list us (S c)) as [r' c2] eqn:E2. inversion E; subst.
    destruct (IH _ _ _ E2) as [[L K] R]. split; [split; [lia|]|].
    + rewrite elids_cons. cbn [elids_n app]. destruct K as [K1 K2]. split; [exact K1|]. eapply Forall_impl; [|exact K2]. cbn. intros; lia.
    + intros fresh P Hid HP. rewrite ids_cons in Hid. apply R_skip; [cbn; split; [apply Hid; left; reflexivity|reflexivity]|].
      apply R; [|exact HP]. intros id Hin. apply Hid. apply in_or_app. right. exact Hin.
  - rewrite number_node_El in E. destruct (number_list cs (S c)) as [cs' c1] eqn:E1.
    destruct (number_list us c1) as [r' c2] eqn:E2. inversion E; subst.
    destruct (IHc _ _ _ E1) as [[L1 K1] R1]. destruct (IH _ _ _ E2) as [[L2 K2] R2]. split; [split; [lia|]|].
    + rewrite elids_cons, elids_El. change (c :: elids cs') with ([c] ++ elids cs'). rewrite <- app_assoc.
      apply (kgood_app c (S c) c'); [lia|lia| |].
      * split; [repeat constructor|constructor; [lia|constructor]].
      * apply (kgood_app (S c) c1 c'); [lia|lia|exact K1|exact K2].
    + intros fresh P Hid HP. rewrite ids_cons in Hid. cbn [ids_node] in Hid. fold (ids cs') in Hid.
      apply (R_el fresh P 0 0 key ch its c tag a a cs' cs' r' r' 0 0).
      * apply Hid. left. reflexivity.
      * destruct Hk as [Hs Hk]. unfold el_ok. split; [exact Hs|]. destruct key as [k|]; [split; [exact Hk|]; rewrite HP; auto|auto].
      * apply R1; [|exact HP]. intros id Hin. apply Hid. right. apply in_or_app. left. exact Hin.
      * apply R2; [|exact HP]. intros id Hin. apply Hid. apply in_or_app. right. exact Hin.
  - cbn [number_node] in E. destruct (number_node x (S c)) as [x' c1] eqn:Ex.
    destruct (number_list us c1) as [r' c2] eqn:E2. inversion E; subst.
    destruct (IH _ _ _ E2) as [[L K] R].
    assert (Hx' : c1 = S (S c) /\ elids_n x' = [] /\ forall fresh, S c < fresh -> slotval fresh x' s).
    { inversion Hx; subst; cbn [number_node] in Ex; inversion Ex; subst; (split; [reflexivity|]); (split; [reflexivity|]);
        intros fresh Hf; constructor; exact Hf. }
    destruct Hx' as [Hc1 [Hel Hsv]]. subst c1. split; [split; [lia|]|].
    + rewrite !elids_cons, Hel. cbn [elids_n app]. destruct K as [K1 K2]. split; [exact K1|]. eapply Forall_impl; [|exact K2]. cbn. intros; lia.
    + intros fresh P Hid HP. rewrite !ids_cons in Hid.
      assert (Hidx : ids_node x' = [S c]) by (inversion Hx; subst; cbn [number_node] in Ex; inversion Ex; reflexivity).
      rewrite Hidx in Hid. apply R_text_pending.
      * right. reflexivity.
      * apply Hid. left. reflexivity.
      * apply Hsv. apply Hid. right. left. reflexivity.
      * apply R; [|exact HP]. intros id Hin. apply Hid. right. right. exact Hin.
  - cbn [number_node] in E. destruct (number_list us (S c)) as [r' c2] eqn:E2. inversion E; subst.
    destruct (IH _ _ _ E2) as [[L K] R]. split; [split; [lia|]|].
    + rewrite elids_cons. cbn [elids_n app]. destruct K as [K1 K2]. split; [exact K1|]. eapply Forall_impl; [|exact K2]. cbn. intros; lia.
    + intros fresh P Hid HP. rewrite ids_cons in Hid. apply R_mark_pending; [right; reflexivity|apply Hid; left; reflexivity|].
      apply R; [|exact HP]. intros id Hin. apply Hid. apply in_or_app. right. exact Hin.
Qed.

(* ---- attributes: the key attribute is the one the server adds ---- *)
Definition plain_names (l : list (string * string)) : Prop := Forall (fun p => reserved (fst p) = false) l.

Lemma reserved_hk n : reserved n = false -> String.eqb n "data-hk" = false.
Proof. unfold reserved. intros H. apply orb_false_elim in H. exact (proj1 H). Qed.

Lemma hk_of_plain l r : plain_names l -> hk_of (l ++ r) = hk_of r.
Proof.
  unfold hk_of. induction 1 as [|p l Hp Hl IH]; [reflexivity|]. cbn [app find]. rewrite (reserved_hk _ Hp). exact IH.
Qed.

Lemma has_stamp_plain l r : plain_names l -> has_stamp (l ++ r) = has_stamp r.
Proof.
  unfold has_stamp. induction 1 as [|p l Hp Hl IH]; [reflexivity|]. cbn [app existsb].
  unfold reserved in Hp. apply orb_false_elim in Hp. rewrite (proj2 Hp). exact IH.
Qed.

Lemma build_attrs_plain st l : attrs_ok l = true ->
  plain_names (fst (build_attrs st l))
  /\ plain_names (flat_map (fun p : string * bool => if snd p then [(fst p, "")] else []) (snd (build_attrs st l))).
Proof.
  unfold attrs_ok. induction l as [|a r IH]; intros H; [split; constructor|].
  cbn [forallb] in H. apply andb_prop in H. destruct H as [Ha Hr]. apply negb_true_iff in Ha.
  destruct (IH Hr) as [I1 I2]. cbn [build_attrs fold_right]. change (fold_right _ ([], []) r) with (build_attrs st r).
  destruct (build_attrs st r) as [ss bs]. cbn [fst snd] in *.
  destruct a as [n v|n k|n b|n k]; cbn [attr_name] in Ha; cbn [fst snd flat_map].
  - split; [constructor; assumption|exact I2].
  - split; [|exact I2]. destruct (get_str st k); [constructor; assumption|exact I1].
  - split; [exact I1|]. destruct b; cbn [app]; [constructor; assumption|exact I2].
  - split; [exact I1|]. destruct (get_bool st k); cbn [app]; [constructor; assumption|exact I2].
Qed.

Lemma show_hk_key c : show_hk (0, c) = key_str c.
Proof. reflexivity. Qed.

Lemma key_attr_build st l (hyd : bool) cnt : attrs_ok l = true ->
  key_attr (if hyd then Some cnt else None)
    (fst (build_attrs st l) ++ flat_map (fun p : string * bool => if snd p then [(fst p, "")] else []) (snd (build_attrs st l))
     ++ match (if hyd then Some (0, cnt) else None) with Some k => [("data-hk", show_hk k)] | None => [] end).
Proof.
  intros H. destruct (build_attrs_plain st l H) as [H1 H2]. unfold key_attr.
  rewrite (hk_of_plain _ _ H1), (hk_of_plain _ _ H2), (has_stamp_plain _ _ H1), (has_stamp_plain _ _ H2).
  destruct hyd; split; reflexivity.
Qed.

(* ---- the server build against the layout ---- *)
Lemma U0_app a us : U0 a us -> forall b vs, U0 b vs -> U0 (a ++ b) (us ++ vs).
Proof. induction 1; intros b vs Hb; cbn [app]; [exact Hb| | | |]; constructor; auto. Qed.

Definition bspec (l : list litem * nat) (b : list ssr * nat) : Prop :=
  U0 (fst l) (flat_map u_of_ssr (fst b)) /\ snd l = snd b.

Lemma list_bspec (lb : view -> nat -> list litem * nat) (bb : view -> nat -> list ssr * nat) (Q : view -> bool) :
  (forall v c, Q v = true -> bspec (lb v c) (bb v c)) ->
  forall vs c, forallb Q vs = true -> bspec (lay_list_with lb vs c) (build_list_with bb vs c).
Proof.
  intros Hb. induction vs as [|x r IH]; intros c HQ; cbn [lay_list_with build_list_with]; [split; [constructor|reflexivity]|].
  cbn [forallb] in HQ. apply andb_prop in HQ. destruct HQ as [HQx HQr].
  destruct (Hb x c HQx) as [H1 H2]. destruct (lb x c) as [a c1]. destruct (bb x c) as [a' c1']. cbn [fst snd] in *. subst c1'.
  destruct (IH c1 HQr) as [H3 H4]. destruct (lay_list_with lb r c1) as [bs c2]. destruct (build_list_with bb r c1) as [bs' c2'].
  cbn [fst snd] in *. split; [|exact H4]. cbn [fst]. rewrite flat_map_app. apply U0_app; assumption.
Qed.

Lemma build_list_fold st f (tmpl : list view) cnt (Htmpl : forall it, bspec (lay_list_with (lay f st false) tmpl cnt)
                                                             (build_list_with (build st f false 0 (Some it)) tmpl cnt)) :
  forall items accL acc, U0 accL (flat_map u_of_ssr acc) ->
  bspec (accL ++ flat_map (fun _ : Z => fst (lay_list_with (lay f st false) tmpl cnt)) items, cnt)
        (fold_left (fun '(acc, c) it =>
                      let '(n, c') := build_list_with (build st f false 0 (Some it)) tmpl c in ((acc ++ n)%list, c'))
                   items (acc, cnt)).
Proof.
  induction items as [|it r IH]; intros accL acc HA; cbn [fold_left flat_map].
  - rewrite app_nil_r. split; [exact HA|reflexivity].
  - destruct (Htmpl it) as [H1 H2].
    destruct (lay_list_inert _ (lay_false f st) tmpl cnt) as [I1 _].
    destruct (build_list_with (build st f false 0 (Some it)) tmpl cnt) as [n c'] eqn:E. cbn [fst snd] in *.
    rewrite <- H2, I1. rewrite app_assoc. apply IH. rewrite flat_map_app. apply U0_app; assumption.
Qed.

Theorem build_U0 st f : forall hyd item v cnt, hydratable_in f st hyd v = true ->
  bspec (lay f st hyd v cnt) (build st f hyd 0 item v cnt).
Proof.
  induction f as [|f IH]; intros hyd item v cnt HQ; [discriminate HQ|].
  pose proof (fun h it => list_bspec (lay f st h) (build st f h 0 it) (hydratable_in f st h) (fun v0 c0 H0 => IH h it v0 c0 H0)) as BL.
  destruct v as [tag attrs children|s|k|k a b|vs|k vs|kd k tmpl| |vs|vs|vs]; cbn [hydratable_in] in HQ; cbn [lay build].
  - (* element *)
    apply andb_prop in HQ. destruct HQ as [HA HQ].
    pose proof (key_attr_build st attrs hyd cnt HA) as KA. destruct (build_attrs st attrs) as [ss bs]. cbn [fst snd] in KA.
    destruct (is_void tag) eqn:Ev.
    + destruct children; [|discriminate HQ]. cbn [lay_list_with build_list_with].
      split; [|reflexivity]. cbn [fst flat_map u_of_ssr app]. rewrite Ev. constructor; [exact KA|constructor|constructor].
    + apply andb_prop in HQ. destruct HQ as [HQ _].
      destruct (BL hyd item children (if hyd then S cnt else cnt) HQ) as [H1 H2].
      destruct (lay_list_with _ children _) as [chl c2]. destruct (build_list_with _ children _) as [ch c2']. cbn [fst snd] in *.
      split; [|exact H2]. cbn [fst flat_map u_of_ssr app]. rewrite Ev. constructor; [exact KA|exact H1|constructor].
  - split; [repeat constructor|reflexivity].
  - split; [repeat constructor|reflexivity].
  - destruct (BL hyd item _ cnt HQ) as [H1 H2].
    destruct (lay_list_with _ _ cnt) as [chl c2]. destruct (build_list_with _ _ cnt) as [ch c2']. cbn [fst snd] in *.
    split; [|exact H2]. cbn [fst flat_map u_of_ssr app]. rewrite ?app_nil_r. constructor.
    apply U0_app; [exact H1|repeat constructor].
  - exact (BL hyd item vs cnt HQ).
  - apply andb_prop in HQ. destruct HQ as [HQ _].
    destruct (BL hyd item vs cnt HQ) as [H1 H2].
    destruct (lay_list_with _ vs cnt) as [chl c2]. destruct (build_list_with _ vs cnt) as [ch c2']. cbn [fst snd] in *.
    split; [|exact H2]. cbn [fst flat_map u_of_ssr app]. rewrite ?app_nil_r. constructor.
    apply U0_app; [|repeat constructor]. destruct (get_bool st k); [exact H1|constructor].
  - apply andb_prop in HQ. destruct HQ as [Hh HQ]. destruct hyd; [discriminate Hh|].
    apply (build_list_fold st f tmpl cnt (fun it => BL false (Some it) tmpl cnt HQ) (get_list st k) [] []). constructor.
  - split; [repeat constructor|reflexivity].
  - exact (BL hyd item vs cnt HQ).
  - exact (BL false item vs cnt HQ).
  - destruct hyd; [discriminate HQ|]. split; [|reflexivity]. cbn [fst flat_map u_of_ssr app is_void].
    constructor; [split; reflexivity|constructor|constructor].
Qed.

(* the server DOM of a hydratable view, in the initial state of the walk *)
Definition server_dom_f (f : nat) (vst : vstate) (v : view) : list hnode :=
  fst (number_list (merged (flat_map u_of_ssr (fst (build vst f true 0 None v 0)))) 0).

Theorem server_rel f vst v fresh :
  hydratable_in f vst true v = true ->
  (forall id, In id (ids (server_dom_f f vst v)) -> id < fresh) ->
  rel fresh (fun _ => Untouched) 0 0 (fst (lay f vst true v 0)) (server_dom_f f vst v) (server_dom_f f vst v)
  /\ NoDup (elids (server_dom_f f vst v)).
Proof.
  unfold server_dom_f. intros HQ Hid.
  destruct (build_U0 vst f true None v 0 HQ) as [HU _].
  pose proof (U0_merged _ _ HU) as H1.
  destruct (number_list (merged (flat_map u_of_ssr (fst (build vst f true 0 None v 0)))) 0) as [hs c'] eqn:E.
  destruct (number_rel _ _ H1 0 hs c' E) as [[_ K] R]. cbn [fst] in *. split.
  - apply R; [exact Hid|reflexivity].
  - exact (kgood_nodup _ _ _ K).
Qed.
