(* Dom/HydrateSpec.v -- vocabulary of the hydration theorem (Dom/HydrateFacts.v): the element skeleton of a DOM,
   its visible tree, the comments and text nodes it holds, the layout of a view (what every DOM parent receives from
   the server, with the information which parts the client walk hydrates) and the class [hydratable].
   Definitions only. *)
From Coq Require Import List String Ascii Bool Arith ZArith.
From Syc Require Import Common.Show Ssr.Html Ssr.View Dom.Hydrate.
Import ListNotations.
Open Scope string_scope.
Open Scope list_scope.

(* ---- (a) the element skeleton: identities, tags, attributes, nesting ---- *)
Inductive esk := Esk (id : nat) (tag : string) (attrs : list (string * string)) (children : list esk).

Fixpoint els_node (n : hnode) : list esk :=
  match n with
  | HEl id tag attrs ch => [Esk id tag attrs (flat_map els_node ch)]
  | _ => []
  end.
Definition els (l : list hnode) : list esk := flat_map els_node l.

Definition stamp_attr : string * string := ("data-hydrated", "").
(* an element that carries a hydration key receives the stamp (once, at the end); the others are untouched *)
Fixpoint stamp_keyed (e : esk) : esk :=
  match e with
  | Esk id tag attrs ch =>
      Esk id tag (match hk_of attrs with Some _ => attrs ++ [stamp_attr] | None => attrs end) (map stamp_keyed ch)
  end.

(* ---- (c) the visible tree: comments, identities, data-hk / data-hydrated dropped, adjacent text merged ---- *)
Inductive vtree := VtEl (tag : string) (attrs : list (string * string)) (children : list vtree) | VtText (s : string).

Fixpoint vt_merge (l : list vtree) : list vtree :=
  match l with
  | [] => []
  | VtText a :: r =>
      match vt_merge r with
      | VtText b :: r' => VtText (String.append a b) :: r'
      | r' => match a with EmptyString => r' | _ => VtText a :: r' end
      end
  | x :: r => x :: vt_merge r
  end.
Definition plain_attr (p : string * string) : bool :=
  negb (String.eqb (fst p) "data-hk" || String.eqb (fst p) "data-hydrated").
Fixpoint vis_node (n : hnode) : list vtree :=
  match n with
  | HEl _ tag attrs ch => [VtEl tag (filter plain_attr attrs) (vt_merge (flat_map vis_node ch))]
  | HText _ s => [VtText s]
  | HCom _ _ => []
  end.
Definition vis (l : list hnode) : list vtree := vt_merge (flat_map vis_node l).

(* ---- (b), (d): comments and text nodes, in document order ---- *)
Fixpoint coms_node (n : hnode) : list (nat * string) :=
  match n with
  | HEl _ _ _ ch => flat_map coms_node ch
  | HCom id s => [(id, s)]
  | HText _ _ => []
  end.
Definition coms (l : list hnode) : list (nat * string) := flat_map coms_node l.
Fixpoint texts_node (n : hnode) : list (nat * string) :=
  match n with
  | HEl _ _ _ ch => flat_map texts_node ch
  | HText id s => [(id, s)]
  | HCom _ _ => []
  end.
Definition texts (l : list hnode) : list (nat * string) := flat_map texts_node l.
Fixpoint ids_node (n : hnode) : list nat :=
  match n with
  | HEl id _ _ ch => id :: flat_map ids_node ch
  | HText id _ | HCom id _ => [id]
  end.
Definition ids (l : list hnode) : list nat := flat_map ids_node l.

(* ---------------------------------------------------------------------------------- *)
(* The layout of a view: for every DOM parent, the sequence of elements, dynamic-text slots (`<!--t-->` + text) and
   marker comments the server emits into it, each with the information whether the client walk hydrates it
   ([hyd] = false inside NoHydrate). Static text is not part of the layout: hydration never looks at it.
   Mirrors [build] of Ssr/View.v (same fuel, same key counter). *)
Inductive litem :=
| LEl (key : option nat) (children : list litem)
| LText (hyd : bool) (s : string)
| LMark (hyd : bool).

Fixpoint lay_list_with (b : view -> nat -> list litem * nat) (vs : list view) (cnt : nat) : list litem * nat :=
  match vs with
  | [] => ([], cnt)
  | x :: r => let '(a, c1) := b x cnt in let '(bs, c2) := lay_list_with b r c1 in (a ++ bs, c2)
  end.

Fixpoint lay (f : nat) (st : vstate) (hyd : bool) (v : view) (cnt : nat) {struct f} : list litem * nat :=
  match f with
  | O => ([], cnt)
  | S f' =>
      let ll := lay_list_with (lay f' st hyd) in
      match v with
      | VEl tag _ children =>
          let '(ch, cnt2) := ll children (if hyd then S cnt else cnt) in
          ([LEl (if hyd then Some cnt else None) (if is_void tag then [] else ch)], cnt2)
      | VText _ | VItem => ([], cnt)
      | VDynText k => ([LText hyd (opt_str (get_str st k))], cnt)
      | VDyn k a b =>
          let '(ch, cnt1) := ll (if get_bool st k then a else b) cnt in
          (LMark hyd :: ch ++ [LMark hyd], cnt1)
      | VFrag vs | VComp vs => ll vs cnt
      | VShow k vs =>
          let '(ch, cnt1) := ll vs cnt in
          (LMark hyd :: (if get_bool st k then ch else []) ++ [LMark hyd], cnt1)
      | VList _ k tmpl =>
          (* only used with [hyd] = false (lists cannot be hydrated), where the counter does not move *)
          (if hyd then [] else flat_map (fun _ : Z => fst (ll tmpl cnt)) (get_list st k), cnt)
      | VNoHydrate vs => lay_list_with (lay f' st false) vs cnt
      | VNoSsr _ => ([LEl (if hyd then Some cnt else None) []], if hyd then S cnt else cnt)
      end
  end.

(* within one DOM parent, no slot the client skips comes before a slot of the same kind that it adopts *)
Fixpoint ok_texts (seen : bool) (l : list litem) : bool :=
  match l with
  | [] => true
  | LText h _ :: r => if h then negb seen && ok_texts seen r else ok_texts true r
  | _ :: r => ok_texts seen r
  end.
Fixpoint ok_marks (seen : bool) (l : list litem) : bool :=
  match l with
  | [] => true
  | LMark h :: r => if h then negb seen && ok_marks seen r else ok_marks true r
  | _ :: r => ok_marks seen r
  end.
Definition ok_slots (l : list litem) : bool := ok_texts false l && ok_marks false l.

(* views whose nodes, while hydrating, are adopted elements only (what Show can hold) *)
Fixpoint only_el_view (f : nat) (v : view) {struct f} : bool :=
  match f with
  | O => false
  | S f' =>
      match v with
      | VEl _ _ _ | VNoHydrate _ => true
      | VFrag vs | VComp vs => forallb (only_el_view f') vs
      | _ => false
      end
  end.

Definition is_nil {A} (l : list A) : bool := match l with [] => true | _ => false end.

(* the two attribute names hydration itself uses must not be set by the view *)
Definition attr_name (a : attr) : string :=
  match a with AStr n _ | ADyn n _ | ABool n _ | ABoolDyn n _ => n end.
Definition reserved (n : string) : bool := String.eqb n "data-hk" || String.eqb n "data-hydrated".
Definition attrs_ok (l : list attr) : bool := forallb (fun a => negb (reserved (attr_name a))) l.

(* the class of the theorem; [hyd] = false inside NoHydrate, where nothing is hydrated *)
Fixpoint hydratable_in (f : nat) (st : vstate) (hyd : bool) (v : view) {struct f} : bool :=
  match f with
  | O => false
  | S f' =>
      let hl := forallb (hydratable_in f' st hyd) in
      match v with
      | VEl tag attrs children =>
          attrs_ok attrs &&
          (if is_void tag then is_nil children
           else hl children && (negb hyd || ok_slots (fst (lay_list_with (lay f' st hyd) children 0))))
      | VText _ | VItem | VDynText _ => true
      | VDyn k a b => hl (if get_bool st k then a else b)
      | VFrag vs | VComp vs => hl vs
      | VShow k vs =>
          hl vs && (negb hyd ||
                    (forallb (only_el_view f') vs
                     && (get_bool st k || Nat.eqb (snd (lay_list_with (lay f' st hyd) vs 0)) 0)))
      | VList _ _ tmpl => negb hyd && hl tmpl
      | VNoHydrate vs => forallb (hydratable_in f' st false) vs
      | VNoSsr _ => negb hyd
      end
  end.

Definition hydratable (st : vstate) (v : view) : bool :=
  hydratable_in hyd_fuel st true v && ok_slots (fst (lay hyd_fuel st true v 0)).

(* ---------------------------------------------------------------------------------- *)
(* (b), (d) exactly: the layout read back from a DOM. A text node / `#` comment with an identity at or above [fresh] is
   an adopted slot; a `t` comment with the node after it, and a `/` comment, are slots still in server form; an element
   is hydrated when it carries the stamp. Other text and comments are skipped. *)
Inductive ritem :=
| REl (id : nat) (hydrated : bool) (children : list ritem)
| RText (adopted : bool) (s : string)
| RMark (adopted : bool).

Definition has_stamp (attrs : list (string * string)) : bool :=
  existsb (fun p => String.eqb (fst p) "data-hydrated") attrs.
Definition text_of (n : hnode) : string := match n with HText _ s => s | _ => "" end.

Fixpoint read_node (fresh : nat) (n : hnode) : list ritem :=
  match n with
  | HEl id _ attrs ch =>
      [REl id (has_stamp attrs)
         ((fix go (pend : bool) (l : list hnode) : list ritem :=
             match l with
             | [] => if pend then [RText false ""] else []
             | x :: r =>
                 if pend then RText false (text_of x) :: go false r
                 else match x with
                      | HEl _ _ _ _ => read_node fresh x ++ go false r
                      | HText id s => if Nat.leb fresh id then RText true s :: go false r else go false r
                      | HCom id c =>
                          if String.eqb c "t" then go true r
                          else if String.eqb c "/" then RMark false :: go false r
                          else if String.eqb c "#" then RMark (Nat.leb fresh id) :: go false r
                          else go false r
                      end
             end) false ch)]
  | _ => []
  end.
Fixpoint read_list (fresh : nat) (pend : bool) (l : list hnode) : list ritem :=
  match l with
  | [] => if pend then [RText false ""] else []
  | x :: r =>
      if pend then RText false (text_of x) :: read_list fresh false r
      else match x with
           | HEl _ _ _ _ => read_node fresh x ++ read_list fresh false r
           | HText id s => if Nat.leb fresh id then RText true s :: read_list fresh false r else read_list fresh false r
           | HCom id c =>
               if String.eqb c "t" then read_list fresh true r
               else if String.eqb c "/" then RMark false :: read_list fresh false r
               else if String.eqb c "#" then RMark (Nat.leb fresh id) :: read_list fresh false r
               else read_list fresh false r
           end
  end.
Definition read_lay (fresh : nat) (l : list hnode) : list ritem := read_list fresh false l.

(* what the layout of the view predicts, before ([done] = false) and after ([done] = true) hydration; identities of
   elements are not predicted *)
Fixpoint forget_ids (r : ritem) : ritem :=
  match r with
  | REl _ h ch => REl 0 h (map forget_ids ch)
  | x => x
  end.
Fixpoint expect (done : bool) (i : litem) : ritem :=
  match i with
  | LEl (Some _) ch => REl 0 done (map (expect done) ch)
  | LEl None ch => REl 0 false (map (expect false) ch)        (* nothing below an element without key is hydrated *)
  | LText h s => RText (done && h) s
  | LMark h => RMark (done && h)
  end.
