(* Dom/HydrateInstFacts.v -- C09, last sentence ("afterwards the view reacts to updates exactly as a client-rendered
   one"), part 1:
   (1) [hydi] is [hyd] plus an instance: the DOM, the kinds and the counters are those of [hyd] ([hydi_hyd],
       [hydratei_hydrate]) -- the function that is compared with the real code stays the anchor;
   (2b) the instance of a live view (no NoHydrate content in the part that is built) is, identities erased, the instance
       of a fresh client render: it is [faithful] ([hydi_faithful]);
   (2c) hence every theorem of Dom/ClientFacts.v about faithful instances applies: after any writes the hydrated view
       shows what a fresh client render of the state reached shows ([run_from_fresh], [run_from_last_fresh]).
   The relation between the instance and the hydrated DOM (identities) is in Dom/HydrateOwn.v. *)
From Coq Require Import List String Ascii Bool Arith ZArith Lia.
From Syc Require Import Common.Show Ssr.Html Ssr.View Dom.Hydrate Dom.Client Dom.ClientFacts Dom.HydrateInst.
Import ListNotations.
Open Scope string_scope.
Open Scope list_scope.

(* ---- (1) agreement with [hyd] ---- *)
Definition proj_h (r : hires) : hres (list hkind * hstate) :=
  match r with HOk (ks, _, st, _) => HOk (ks, st) | HErr e => HErr e end.
Definition proj_hl (r : hlres) : hres (list hkind * hstate) :=
  match r with HOk (ks, _, st, _) => HOk (ks, st) | HErr e => HErr e end.

Lemma hydi_list_hyd (h : view -> hstate -> hres (list hkind * hstate)) (hi : view -> hstate -> nat -> hires) :
  (forall v st sn, h v st = proj_h (hi v st sn)) ->
  forall vs st sn, hyd_list_with h vs st = proj_hl (hydi_list_with hi vs st sn).
Proof.
  intros H. induction vs as [|v r IH]; intros st sn; cbn [hyd_list_with hydi_list_with]; [reflexivity|].
  rewrite (H v st sn). destruct (hi v st sn) as [[[[k1 i1] st1] sn1]|e]; cbn [proj_h]; [|reflexivity].
  rewrite (IH st1 sn1). destruct (hydi_list_with hi r st1 sn1) as [[[[k2 i2] st2] sn2]|e]; reflexivity.
Qed.

Theorem hydi_hyd f : forall vst item v st sn, hyd f vst item v st = proj_h (hydi f vst item v st sn).
Proof.
  induction f as [|f IH]; intros vst item v st sn; [reflexivity|].
  pose proof (hydi_list_hyd (hyd f vst item) (hydi f vst item) (IH vst item)) as HL.
  destruct v as [tag attrs children|s|k|k a b|vs|k vs|kd k tmpl| |vs|vs|vs]; cbn [hyd hydi]; try reflexivity.
  - destruct (find_hk_list _ (h_dom st)) as [eid|]; [|reflexivity].
    destruct (is_void tag).
    + destruct (with_children_list eid _ _); reflexivity.
    + rewrite (HL children _ sn). destruct (hydi_list_with _ children _ sn) as [[[[ks is] st2] sn2]|e]; cbn [proj_hl]; [|reflexivity].
      destruct (with_children_list eid _ _); reflexivity.
  - rewrite (HL _ _ sn). destruct (hydi_list_with _ _ _ sn) as [[[[ks is] st2] sn2]|e]; reflexivity.
  - rewrite (HL _ _ sn). destruct (hydi_list_with _ _ _ sn) as [[[[ks is] st2] sn2]|e]; reflexivity.
  - rewrite (HL _ _ sn). destruct (hydi_list_with _ _ _ sn) as [[[[ks is] st2] sn2]|e]; cbn [proj_hl]; [|reflexivity].
    destruct (only_elements ks); reflexivity.
  - rewrite (HL _ _ sn). destruct (hydi_list_with _ _ _ sn) as [[[[ks is] st2] sn2]|e]; reflexivity.
Qed.

Lemma hydi_list_hyd_f f vst item vs st sn :
  hyd_list_with (hyd f vst item) vs st = proj_hl (hydi_list_with (hydi f vst item) vs st sn).
Proof. apply hydi_list_hyd. apply hydi_hyd. Qed.

(* the DOM of [hydratei] is the DOM of [hydrate] *)
Theorem hydratei_hydrate vst v server fresh sbase :
  hydrate vst v server fresh
  = match hydratei vst v server fresh sbase with HOk (d, _, _) => HOk d | HErr e => HErr e end.
Proof.
  unfold hydrate, hydratei. rewrite (hydi_hyd hyd_fuel vst None v _ sbase).
  destruct (hydi hyd_fuel vst None v _ sbase) as [[[[ks i] st] sn]|e]; cbn [proj_h]; [|reflexivity].
  destruct (append_kinds (h_dom st) ks); reflexivity.
Qed.

(* if [hyd] succeeds, [hydi] succeeds with the same kinds and state *)
Lemma hyd_hydi f vst item v st sn ks st' : hyd f vst item v st = HOk (ks, st') ->
  exists i sn', hydi f vst item v st sn = HOk (ks, i, st', sn').
Proof.
  rewrite (hydi_hyd f vst item v st sn). destruct (hydi f vst item v st sn) as [[[[ks0 i] st0] sn0]|e]; cbn [proj_h]; intros H; [|discriminate H].
  inversion H; subst. eexists. eexists. reflexivity.
Qed.

(* ---- (2b) the instance is faithful ---- *)
Lemma hydi_list_erase (hi : view -> hstate -> nat -> hires) (p : view -> pinst) (Q : view -> bool) :
  (forall v st sn ks i st' sn', hi v st sn = HOk (ks, i, st', sn') -> Q v = true -> ierase i = p v) ->
  forall vs st sn ks is st' sn', hydi_list_with hi vs st sn = HOk (ks, is, st', sn') -> forallb Q vs = true ->
    map ierase is = map p vs.
Proof.
  intros H. induction vs as [|v r IH]; intros st sn ks is st' sn' E HQ; cbn [hydi_list_with] in E.
  - inversion E; subst. reflexivity.
  - cbn [forallb] in HQ. apply andb_prop in HQ. destruct HQ as [HQv HQr].
    destruct (hi v st sn) as [[[[k1 i1] st1] sn1]|e] eqn:E1; [|discriminate E].
    destruct (hydi_list_with hi r st1 sn1) as [[[[k2 i2] st2] sn2]|e] eqn:E2; [|discriminate E].
    inversion E; subst. cbn [map]. f_equal; [exact (H _ _ _ _ _ _ _ E1 HQv)|exact (IH _ _ _ _ _ _ E2 HQr)].
Qed.

Theorem hydi_faithful f : forall vst item v st sn ks i st' sn',
  hydi f vst item v st sn = HOk (ks, i, st', sn') -> live_in f vst v = true -> faithful f vst item v i.
Proof.
  unfold faithful. induction f as [|f IH]; intros vst item v st sn ks i st' sn' E HQ; [discriminate HQ|].
  pose proof (hydi_list_erase (hydi f vst item) (pcreate f vst item) (live_in f vst)
                (fun v0 st0 sn0 ks0 i0 st0' sn0' E0 Q0 => IH vst item v0 st0 sn0 ks0 i0 st0' sn0' E0 Q0)) as HL.
  destruct v as [tag attrs children|s|k|k a b|vs|k vs|kd k tmpl| |vs|vs|vs]; cbn [live_in] in HQ; cbn [hydi] in E; cbn [pcreate];
    try discriminate HQ.
  - destruct (find_hk_list _ (h_dom st)) as [eid|]; [|discriminate E].
    destruct (is_void tag).
    + destruct (with_children_list eid _ _); [|discriminate E]. inversion E; subst. reflexivity.
    + destruct (hydi_list_with _ children _ sn) as [[[[ks1 is] st2] sn2]|e] eqn:E1; [|discriminate E].
      destruct (with_children_list eid _ _); [|discriminate E]. inversion E; subst. cbn [ierase].
      rewrite (HL _ _ _ _ _ _ _ E1 HQ). reflexivity.
  - inversion E; subst. reflexivity.
  - inversion E; subst. reflexivity.
  - destruct (hydi_list_with _ _ _ sn) as [[[[ks1 is] st2] sn2]|e] eqn:E1; [|discriminate E]. inversion E; subst.
    cbn [ierase]. rewrite (HL _ _ _ _ _ _ _ E1 HQ). reflexivity.
  - destruct (hydi_list_with _ _ _ sn) as [[[[ks1 is] st2] sn2]|e] eqn:E1; [|discriminate E]. inversion E; subst.
    cbn [ierase]. rewrite (HL _ _ _ _ _ _ _ E1 HQ). reflexivity.
  - destruct (hydi_list_with _ _ _ sn) as [[[[ks1 is] st2] sn2]|e] eqn:E1; [|discriminate E].
    destruct (only_elements ks1); [|discriminate E]. inversion E; subst.
    cbn [ierase]. rewrite (HL _ _ _ _ _ _ _ E1 HQ). reflexivity.
  - inversion E; subst. reflexivity.
  - destruct (hydi_list_with _ _ _ sn) as [[[[ks1 is] st2] sn2]|e] eqn:E1; [|discriminate E]. inversion E; subst.
    cbn [ierase]. rewrite (HL _ _ _ _ _ _ _ E1 HQ). reflexivity.
  - destruct vs; [|discriminate HQ]. inversion E; subst. reflexivity.
Qed.

(* ---- (2c) runs from a faithful instance ---- *)
Theorem run_from_steps st v i0 c0 ws :
  run_from st v i0 c0 ws = dom_of i0 :: map (fun t => dom_of (snd (fst t))) (steps client_fuel v st i0 c0 ws).
Proof.
  unfold run_from.
  change (fold_left _ ws (st, i0, c0, [dom_of i0])) with (fold_left (run_step client_fuel v) ws (st, i0, c0, [dom_of i0])).
  pose proof (run_fold_eq client_fuel v ws st i0 c0 [dom_of i0]) as E.
  destruct (fold_left (run_step client_fuel v) ws (st, i0, c0, [dom_of i0])) as [[[s1 i1] c1] o]. cbn [snd] in E. rewrite E. reflexivity.
Qed.

(* every output of the run equals, identities erased, the fresh client render of the state it was produced in *)
Theorem run_from_fresh st v i0 c0 ws : faithful client_fuel st None v i0 ->
  map (map erase) (run_from st v i0 c0 ws) = map (fun s => map erase (fresh_dom s v)) (states st ws).
Proof.
  intros H0. rewrite run_from_steps. pose proof (steps_faithful client_fuel v ws st i0 c0 H0) as Hs.
  assert (E : states st ws = st :: tl (states st ws)) by (destruct ws; reflexivity). rewrite E. cbn [map]. f_equal.
  - exact (faithful_dom _ _ _ _ _ H0 0).
  - rewrite map_map. clear E. induction Hs as [|s t ss ts [_ Ht] _ IH]; cbn [map]; [reflexivity|]. f_equal; [|exact IH].
    exact (faithful_dom _ _ _ _ _ Ht 0).
Qed.

Theorem run_from_length st v i0 c0 ws : List.length (run_from st v i0 c0 ws) = S (List.length ws).
Proof.
  rewrite run_from_steps. cbn [List.length]. rewrite map_length. f_equal.
  revert st i0 c0. induction ws as [|w r IH]; intros st i0 c0; cbn [steps List.length]; [reflexivity|].
  destruct (update client_fuel (apply_write st w) (fst w) None v i0 c0) as [i' c']. cbn [List.length]. rewrite IH. reflexivity.
Qed.

Theorem run_from_nth_fresh st v i0 c0 ws n : faithful client_fuel st None v i0 -> n <= List.length ws ->
  map erase (nth n (run_from st v i0 c0 ws) [])
  = map erase (dom_of (fst (create client_fuel (fold_left apply_write (firstn n ws) st) None v 0))).
Proof.
  intros H0 Hn. change (map erase []) with (map erase []).
  rewrite <- (map_nth (map erase)). rewrite (run_from_fresh st v i0 c0 ws H0).
  rewrite (nth_indep _ _ ((fun s => map erase (fresh_dom s v)) st)); [|rewrite map_length, states_length; lia].
  rewrite (map_nth (fun s => map erase (fresh_dom s v))). rewrite states_nth; [reflexivity|exact Hn].
Qed.

Theorem run_from_last_fresh st v i0 c0 ws : faithful client_fuel st None v i0 ->
  map erase (last (run_from st v i0 c0 ws) [])
  = map erase (dom_of (fst (create client_fuel (fold_left apply_write ws st) None v 0))).
Proof.
  intros H0. rewrite <- (last_map (map erase)). rewrite (run_from_fresh st v i0 c0 ws H0).
  assert (H : forall l d d', l <> [] -> @last (list pnode) l d = last l d').
  { induction l as [|x r IH]; intros d d' Hl; [contradiction|]. destruct r; [reflexivity|]. cbn [last]. apply IH. discriminate. }
  rewrite (H _ _ ((fun s => map erase (fresh_dom s v)) st)).
  - rewrite (last_map (fun s => map erase (fresh_dom s v))). rewrite states_last. reflexivity.
  - destruct ws; discriminate.
Qed.

(* the run of a client render is the run from its own instance *)
Lemma run_client_from st v ws :
  run_client st v ws = run_from st v (fst (create client_fuel st None v 0)) (snd (create client_fuel st None v 0)) ws.
Proof. unfold run_client, run_from. destruct (create client_fuel st None v 0) as [i0 c0]. reflexivity. Qed.

(* the hydrated view against the client-rendered view, output by output *)
Corollary run_from_client st v i0 c0 ws : faithful client_fuel st None v i0 ->
  map (map erase) (run_from st v i0 c0 ws) = map (map erase) (run_client st v ws).
Proof. intros H0. rewrite (run_from_fresh st v i0 c0 ws H0), run_client_fresh. reflexivity. Qed.
