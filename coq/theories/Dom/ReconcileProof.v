(* Dom/ReconcileProof.v -- UNBOUNDED correctness of the node-diffing routine (property C06).

   Main results (all for arbitrary lists, no bound):
     reconcile_spec     a <> [] -> NoDup (pre ++ a ++ post) -> NoDup b -> (b disjoint from pre and post) ->
                        exists t, reconcile (pre ++ a ++ post) a b = ROk (pre ++ b ++ post) t
                                  /\ every node of t is in a or in b
                        (so: no DOM exception, the fuel suffices, the children are pre ++ b ++ post in order,
                         nothing outside a and b is touched)
     reconcile_correct  the same as [reconcile_ok pre a b post = true]
     reconcile_correct_wf / reconcile_correct_marker   the hypotheses restated as "child list before and demanded
                        child list after are duplicate-free"; the call pattern of Keyed / Indexed (end marker)
     reconcile_loop_fuel  any fuel >= |a| + |b| works
     reconcile_detaches   nodes of a that are not in b are not children afterwards
   Method: [body] is the loop body as a function of its continuation ([loop_S]: the model's loop unfolds to it by
   reflexivity); [Inv] is the loop invariant; one lemma per branch ([step_prefix], [step_suffix], [step_swap],
   [step_append], [step_remove], [step_fallback] with its four outcomes) shows the branch does not raise, re-establishes
   [Inv] and decreases (a_end - a_start) + (b_end - b_start).
   Side results: the writes into [a] by the swap branch are never read again, and the value of the run-length
   heuristic ([run_length]) is irrelevant for correctness (both outcomes of the comparison are proved correct). *)
From Coq Require Import List Arith Bool Lia.
From Syc Require Import Dom.Reconcile.
Import ListNotations.

(* ------------------------------------------------------------------ *)
(* 1. generic list facts                                                *)

Lemma NoDup_app_iff {A} (l k : list A) :
  NoDup (l ++ k) <-> NoDup l /\ NoDup k /\ (forall x, In x l -> ~ In x k).
Proof.
  induction l as [|y l IH]; cbn [app].
  - split; [intros H; repeat split; [constructor | exact H | intros x []] | intros (_ & H & _); exact H].
  - rewrite !NoDup_cons_iff, IH, in_app_iff. split.
    + intros (Hy & Hl & Hk & Hd). repeat split; try tauto.
      intros x [->|Hx]; [tauto | apply Hd, Hx].
    + intros ((Hy & Hl) & Hk & Hd). repeat split; try tauto.
      * intros [H|H]; [tauto | exact (Hd y (or_introl eq_refl) H)].
      * intros x Hx. apply Hd. now right.
Qed.

Lemma NoDup_mid {A} (L R : list A) x : NoDup (L ++ x :: R) -> ~ In x L /\ ~ In x R.
Proof.
  intros H. apply NoDup_app_iff in H as (_ & H & Hd). apply NoDup_cons_iff in H as [H _].
  split; [|exact H]. intros HL. apply (Hd x HL). now left.
Qed.

Lemma filter_all {A} (f : A -> bool) l : (forall x, In x l -> f x = true) -> filter f l = l.
Proof.
  induction l as [|y l IH]; intros H; cbn [filter]; [reflexivity|].
  rewrite (H y (or_introl eq_refl)). f_equal. apply IH. intros x Hx. apply H. now right.
Qed.

Lemma filter_none {A} (f : A -> bool) l : (forall x, In x l -> f x = false) -> filter f l = [].
Proof.
  induction l as [|y l IH]; intros H; cbn [filter]; [reflexivity|].
  rewrite (H y (or_introl eq_refl)). apply IH. intros x Hx. apply H. now right.
Qed.

Lemma filter_filter {A} (f g : A -> bool) l : filter f (filter g l) = filter (fun x => g x && f x) l.
Proof.
  induction l as [|y l IH]; cbn [filter]; [reflexivity|].
  destruct (g y); cbn [filter andb]; [destruct (f y)|]; now rewrite IH.
Qed.

Lemma nth_error_mid {A} (l1 : list A) x l2 : nth_error (l1 ++ x :: l2) (length l1) = Some x.
Proof. rewrite nth_error_app2 by lia. now rewrite Nat.sub_diag. Qed.

Lemma nth_error_mid_S {A} (l1 : list A) x l2 : nth_error (l1 ++ x :: l2) (S (length l1)) = hd_error l2.
Proof.
  rewrite nth_error_app2 by lia. replace (S (length l1) - length l1) with 1 by lia.
  now destruct l2.
Qed.

Lemma NoDup_nth_error_inj {A} (l : list A) i j x :
  NoDup l -> nth_error l i = Some x -> nth_error l j = Some x -> i = j.
Proof.
  intros Hnd Hi Hj. rewrite NoDup_nth_error in Hnd. apply Hnd.
  - apply nth_error_Some. now rewrite Hi.
  - now rewrite Hi, Hj.
Qed.

(* ------------------------------------------------------------------ *)
(* 2. index_of / memb / remove_node / insert_at / next_sibling         *)

Notation rm := remove_node.


Lemma memb_In x l : memb x l = true <-> In x l.
Proof.
  unfold memb. induction l as [|y l IH]; cbn [index_of In].
  - split; [discriminate | tauto].
  - destruct (Nat.eqb_spec x y) as [->|Hne]; [tauto|].
    destruct (index_of x l); cbn [option_map] in *.
    + split; [intros _; right; now apply IH | reflexivity].
    + split; [discriminate | intros [H|H]; [congruence | now apply IH]].
Qed.

Lemma memb_false x l : memb x l = false <-> ~ In x l.
Proof. rewrite <- memb_In. destruct (memb x l); split; congruence. Qed.

Lemma index_of_None x l : index_of x l = None <-> ~ In x l.
Proof. rewrite <- memb_false. unfold memb. destruct (index_of x l); split; congruence. Qed.

Lemma index_of_mid x L R : ~ In x L -> index_of x (L ++ x :: R) = Some (length L).
Proof.
  induction L as [|y L IH]; intros Hn; cbn [app index_of length].
  - now rewrite Nat.eqb_refl.
  - destruct (Nat.eqb_spec x y) as [->|Hne]; [exfalso; apply Hn; now left|].
    rewrite IH; [reflexivity|]. intros H. apply Hn. now right.
Qed.

Lemma index_of_nth x l i : index_of x l = Some i -> nth_error l i = Some x.
Proof.
  revert i. induction l as [|y l IH]; intros i; cbn [index_of]; [discriminate|].
  destruct (Nat.eqb_spec x y) as [->|Hne].
  - intros [= <-]. reflexivity.
  - destruct (index_of x l) as [j|]; cbn [option_map]; [|discriminate].
    intros [= <-]. cbn [nth_error]. now apply IH.
Qed.

Lemma rm_app x l k : rm x (l ++ k) = rm x l ++ rm x k.
Proof. apply filter_app. Qed.

Lemma rm_notin x l : ~ In x l -> rm x l = l.
Proof.
  intros H. apply filter_all. intros y Hy.
  destruct (Nat.eqb_spec x y) as [->|]; [contradiction | reflexivity].
Qed.

Lemma rm_cons_eq x l : rm x (x :: l) = rm x l.
Proof. unfold rm. cbn [filter]. now rewrite Nat.eqb_refl. Qed.

Lemma rm_cons_ne x y l : x <> y -> rm x (y :: l) = y :: rm x l.
Proof. intros H. unfold rm. cbn [filter]. now destruct (Nat.eqb_spec x y). Qed.

Lemma In_rm x y l : In y (rm x l) <-> In y l /\ x <> y.
Proof.
  unfold rm. rewrite filter_In. destruct (Nat.eqb_spec x y); cbn [negb]; intuition congruence.
Qed.

Lemma rm_mid x L R : ~ In x L -> ~ In x R -> rm x (L ++ x :: R) = L ++ R.
Proof. intros HL HR. now rewrite rm_app, rm_cons_eq, !rm_notin. Qed.

Lemma insert_at_app L x R : insert_at (length L) x (L ++ R) = L ++ x :: R.
Proof. induction L as [|y L IH]; cbn [length app insert_at]; [now destruct R | now rewrite IH]. Qed.

Lemma next_sibling_mid x L R : ~ In x L -> next_sibling (L ++ x :: R) x = hd_error R.
Proof. intros H. unfold next_sibling. rewrite index_of_mid by exact H. apply nth_error_mid_S. Qed.

Lemma memb_mid x L R : memb x (L ++ x :: R) = true.
Proof. apply memb_In. rewrite in_app_iff. right. now left. Qed.

(* parent.insertBefore(node, ref) where ref is the head of the right part (or null when it is empty) *)
Lemma insert_before_split L R node :
  (forall r, hd_error R = Some r -> r <> node /\ ~ In r L) ->
  insert_before (L ++ R) node (hd_error R) = Some (rm node L ++ node :: rm node R).
Proof.
  intros H. destruct R as [|r R]; cbn [hd_error].
  - cbn [insert_before]. rewrite app_nil_r. reflexivity.
  - destruct (H r eq_refl) as [Hne HL]. cbn [insert_before].
    rewrite memb_mid. destruct (Nat.eqb_spec r node) as [|_]; [contradiction|].
    rewrite rm_app, rm_cons_ne by congruence.
    rewrite index_of_mid by (rewrite In_rm; tauto).
    now rewrite insert_at_app.
Qed.

(* insertBefore(node, node) leaves the children as they are *)
Lemma insert_before_self L R node :
  ~ In node L -> ~ In node R -> (forall r, hd_error R = Some r -> ~ In r L) ->
  insert_before (L ++ node :: R) node (Some node) = Some (L ++ node :: R).
Proof.
  intros HL HR Hr. cbn [insert_before]. rewrite memb_mid, Nat.eqb_refl, next_sibling_mid by exact HL.
  rewrite rm_mid by assumption. destruct R as [|r R]; cbn [hd_error]; [now rewrite app_nil_r|].
  rewrite index_of_mid by (now apply Hr). now rewrite insert_at_app.
Qed.

Lemma remove_child_mid x L R : ~ In x L -> ~ In x R -> remove_child (L ++ x :: R) x = Some (L ++ R).
Proof. intros HL HR. unfold remove_child. now rewrite memb_mid, rm_mid. Qed.

(* parent.replaceChild(new, old) on a duplicate-free child list *)
Lemma replace_child_mid L R new old :
  NoDup (L ++ old :: R) -> new <> old ->
  replace_child (L ++ old :: R) new old = Some (rm new L ++ new :: rm new R).
Proof.
  intros Hnd Hne. pose proof Hnd as Hnd0.
  apply NoDup_app_iff in Hnd as (HL & HR & Hd). apply NoDup_cons_iff in HR as [HoR HR].
  assert (HoL : ~ In old L) by (intros H; apply (Hd old H); now left).
  unfold replace_child. rewrite memb_mid. destruct (Nat.eqb_spec new old) as [|_]; [contradiction|].
  rewrite next_sibling_mid by exact HoL. rewrite rm_mid by assumption.
  destruct R as [|r R]; cbn [hd_error].
  - cbn [insert_before]. now rewrite app_nil_r.
  - destruct (Nat.eqb_spec r new) as [->|Hrn].
    + (* the next sibling of old is new itself: the reference becomes new's next sibling *)
      apply NoDup_cons_iff in HR as [HnR HR].
      assert (HnL : ~ In new L) by (intros H; apply (Hd new H); right; now left).
      replace (L ++ old :: new :: R) with ((L ++ [old]) ++ new :: R) by (now rewrite <- app_assoc).
      rewrite next_sibling_mid by (rewrite in_app_iff; cbn [In]; intuition congruence).
      replace (L ++ new :: R) with ((L ++ [new]) ++ R) by (now rewrite <- app_assoc).
      rewrite insert_before_split.
      * rewrite rm_app, rm_cons_eq, rm_cons_eq. cbn [rm filter]. rewrite app_nil_r. reflexivity.
      * intros r Hr. assert (HrR : In r R) by (destruct R; [discriminate | injection Hr as ->; now left]).
        split; [congruence|]. rewrite in_app_iff. cbn [In]. intros [H|[H|[]]].
        -- apply (Hd r H). right. now right.
        -- congruence.
    + rewrite (insert_before_split L (r :: R)).
      * reflexivity.
      * intros r' [= <-]. split; [exact Hrn|]. intros H. apply (Hd r H). right. now left.
Qed.

(* ------------------------------------------------------------------ *)
(* 3. windows: get, set_nth, map_get, insert_range, the removal fold   *)

Definition out (l : list nat) (x : nat) : bool := negb (memb x l).

Lemma out_true l x : out l x = true <-> ~ In x l.
Proof. unfold out. rewrite negb_true_iff. apply memb_false. Qed.

Lemma out_false l x : out l x = false <-> In x l.
Proof. unfold out. rewrite negb_false_iff. apply memb_In. Qed.

Lemma In_filter_out l k x : In x (filter (out l) k) <-> In x k /\ ~ In x l.
Proof. now rewrite filter_In, out_true. Qed.

Lemma filter_out_nil k : filter (out []) k = k.
Proof. apply filter_all. intros x _. reflexivity. Qed.

Lemma filter_ext_In {A} (f g : A -> bool) l : (forall x, In x l -> f x = g x) -> filter f l = filter g l.
Proof.
  induction l as [|y l IH]; intros H; cbn [filter]; [reflexivity|].
  rewrite (H y (or_introl eq_refl)), IH; [reflexivity|]. intros x Hx. apply H. now right.
Qed.

Lemma out_ext l k x : (In x l <-> In x k) -> out l x = out k x.
Proof.
  intros H. destruct (out k x) eqn:E.
  - apply out_true. apply out_true in E. tauto.
  - apply out_false. apply out_false in E. tauto.
Qed.

Lemma rm_as_filter n l : rm n l = filter (out [n]) l.
Proof.
  apply filter_ext_In. intros y _. unfold out, memb. cbn [index_of].
  rewrite (Nat.eqb_sym y n). now destruct (Nat.eqb n y).
Qed.

Lemma win_hd (A0 W A1 : list nat) x :
  W <> [] -> get (A0 ++ W ++ A1) (length A0) = Some x -> exists W', W = x :: W'.
Proof.
  intros HW. destruct W as [|y W]; [contradiction|]. unfold get. cbn [app].
  rewrite nth_error_mid. intros [= ->]. now exists W.
Qed.

Lemma win_last (A0 W A1 : list nat) x :
  W <> [] -> get (A0 ++ W ++ A1) (length A0 + length W - 1) = Some x -> exists W', W = W' ++ [x].
Proof.
  intros HW. destruct (exists_last HW) as (W' & y & ->). unfold get.
  rewrite app_length. cbn [length]. rewrite <- app_assoc. cbn [app].
  replace (length A0 + (length W' + 1) - 1) with (length (A0 ++ W')) by (rewrite app_length; lia).
  rewrite app_assoc, nth_error_mid. intros [= ->]. now exists W'.
Qed.

Lemma cons_snoc_ne {A} (x y : A) l l' : x :: l = l' ++ [y] -> x <> y -> exists m, l = m ++ [y] /\ l' = x :: m.
Proof.
  destruct l' as [|z l']; cbn [app].
  - intros [= -> _] H. contradiction.
  - intros [= <- ->] _. now exists l'.
Qed.

Lemma set_nth_mid (l1 : list nat) x l2 y : set_nth (l1 ++ x :: l2) (length l1) y = l1 ++ y :: l2.
Proof. induction l1 as [|z l1 IH]; cbn [app length set_nth]; [reflexivity | now rewrite IH]. Qed.

Lemma nth_error_skipn {A} (l : list A) k j : nth_error (skipn k l) j = nth_error l (k + j).
Proof.
  revert l. induction k as [|k IH]; intros l; [reflexivity|].
  destruct l as [|y l]; cbn [skipn plus nth_error]; [now destruct j | apply IH].
Qed.

Lemma nth_error_firstn_lt {A} (l : list A) n j : j < n -> nth_error (firstn n l) j = nth_error l j.
Proof.
  revert l j. induction n as [|n IH]; intros l j Hj; [lia|].
  destruct l as [|y l]; cbn [firstn]; [reflexivity|].
  destruct j as [|j]; cbn [nth_error]; [reflexivity | apply IH; lia].
Qed.

Lemma nth_error_firstn_Some {A} (l : list A) n j x : nth_error (firstn n l) j = Some x -> j < n.
Proof.
  intros H. assert (Hl : j < length (firstn n l)) by (apply nth_error_Some; congruence).
  rewrite firstn_length in Hl. lia.
Qed.

Lemma map_get_Some b w x i : map_get b w x = Some i -> fst w <= i < snd w /\ nth_error b i = Some x.
Proof.
  unfold map_get. destruct (index_of _ _) as [j|] eqn:E; [|discriminate]. intros [= <-].
  apply index_of_nth in E. pose proof (nth_error_firstn_Some _ _ _ _ E) as Hj.
  rewrite nth_error_firstn_lt, nth_error_skipn in E by exact Hj. split; [lia | exact E].
Qed.

Lemma map_get_None b w x : map_get b w x = None -> forall i, fst w <= i < snd w -> nth_error b i <> Some x.
Proof.
  unfold map_get. destruct (index_of _ _) as [j|] eqn:E; [discriminate|]. intros _ i Hi Hx.
  apply index_of_None in E. apply E.
  apply (nth_error_In _ (i - fst w)). rewrite nth_error_firstn_lt, nth_error_skipn by lia.
  now replace (fst w + (i - fst w)) with i by lia.
Qed.

(* position of an element of a three-part list *)
Lemma nth_error_3 {A} (P W S : list A) i x :
  nth_error (P ++ W ++ S) i = Some x ->
  (i < length P /\ In x P) \/ (length P <= i < length P + length W /\ nth_error W (i - length P) = Some x)
  \/ (length P + length W <= i /\ In x S).
Proof.
  intros H. destruct (Nat.lt_ge_cases i (length P)) as [Hlt|Hge].
  - left. rewrite nth_error_app1 in H by exact Hlt. split; [exact Hlt | eapply nth_error_In, H].
  - right. rewrite nth_error_app2 in H by exact Hge.
    destruct (Nat.lt_ge_cases (i - length P) (length W)) as [Hlt|Hge2].
    + left. rewrite nth_error_app1 in H by exact Hlt. split; [lia | exact H].
    + right. rewrite nth_error_app2 in H by exact Hge2. split; [lia | eapply nth_error_In, H].
Qed.

(* insert b[|P| .. |P|+|W|) before the head of the right part: the nodes leave the right part *)
Lemma insert_range_spec b W : forall P rest L R tch,
  b = P ++ W ++ rest -> NoDup W -> (forall n, In n W -> ~ In n L) ->
  (forall r, hd_error R = Some r -> ~ In r W /\ ~ In r L) ->
  insert_range (L ++ R) b (length P) (length W) (hd_error R) tch
  = Some (L ++ W ++ filter (out W) R, rev W ++ tch).
Proof.
  induction W as [|n W IH]; intros P rest L R tch Hb Hnd HL Hr.
  - cbn [length insert_range app rev]. now rewrite filter_out_nil.
  - cbn [length insert_range].
    assert (Hg : get b (length P) = Some n) by (unfold get; rewrite Hb; cbn [app]; apply nth_error_mid).
    rewrite Hg. cbn [bindo].
    apply NoDup_cons_iff in Hnd as [HnW Hnd].
    rewrite insert_before_split.
    2:{ intros r E. destruct (Hr r E) as [H1 H2]. split; [|exact H2]. intros ->. apply H1. now left. }
    cbn [bindo]. rewrite (rm_notin n L) by (apply HL; now left).
    assert (Hhd : hd_error (rm n R) = hd_error R).
    { destruct R as [|r R]; [reflexivity|]. destruct (Hr r eq_refl) as [H1 _].
      rewrite rm_cons_ne; [reflexivity|]. intros ->. apply H1. now left. }
    replace (L ++ n :: rm n R) with ((L ++ [n]) ++ rm n R) by (now rewrite <- app_assoc).
    replace (S (length P)) with (length (P ++ [n])) by (rewrite app_length; cbn [length]; lia).
    rewrite <- Hhd. rewrite (IH (P ++ [n]) rest).
    + f_equal. f_equal.
      * rewrite <- !app_assoc. cbn [app]. f_equal. f_equal. f_equal.
        rewrite rm_as_filter, filter_filter. apply filter_ext_In. intros y _.
        unfold out, memb. cbn [index_of]. destruct (Nat.eqb y n); [reflexivity|].
        cbn [negb andb]. now destruct (index_of y W).
      * cbn [rev]. now rewrite <- app_assoc.
    + rewrite Hb, <- app_assoc. reflexivity.
    + exact Hnd.
    + intros m Hm. rewrite in_app_iff. cbn [In]. intros [H|[H|[]]].
      * apply (HL m); [now right | exact H].
      * subst. contradiction.
    + rewrite Hhd. intros r E. destruct (Hr r E) as [H1 H2]. split.
      * intros H. apply H1. now right.
      * rewrite in_app_iff. cbn [In]. intros [H|[H|[]]]; [contradiction|]. subst. apply H1. now left.
Qed.

Definition in_map (b : list nat) (mb : option (nat * nat)) (x : nat) : bool :=
  match mb with Some w => match map_get b w x with Some _ => true | None => false end | None => false end.

Definition rm_step (b : list nat) (mb : option (nat * nat)) (ar : list nat)
    (acc : option (list nat * list nat)) (i : nat) : option (list nat * list nat) :=
  match acc with
  | None => None
  | Some (c, t) =>
      match get ar i with
      | None => None
      | Some x =>
          let in_map := match mb with Some w => match map_get b w x with Some _ => true | None => false end | None => false end in
          if in_map then Some (c, t)
          else match remove_child c x with Some c' => Some (c', x :: t) | None => None end
      end
  end.

(* the removal loop: every window node that is not in the map is a child and gets removed *)
Lemma fold_rm_spec b mb W : forall A0 A1 L R tch,
  NoDup W -> (forall x, In x W -> in_map b mb x = false -> ~ In x L /\ ~ In x R) ->
  fold_left (rm_step b mb (A0 ++ W ++ A1)) (seq (length A0) (length W))
            (Some (L ++ filter (fun x => negb (in_map b mb x)) W ++ R, tch))
  = Some (L ++ R, rev (filter (fun x => negb (in_map b mb x)) W) ++ tch).
Proof.
  induction W as [|x W IH]; intros A0 A1 L R tch Hnd HLR.
  - reflexivity.
  - cbn [length seq fold_left]. unfold rm_step at 2. unfold get. cbn [app]. rewrite nth_error_mid.
    apply NoDup_cons_iff in Hnd as [HxW Hnd].
    fold (in_map b mb x). cbn [filter].
    replace (A0 ++ x :: W ++ A1) with ((A0 ++ [x]) ++ W ++ A1) by (now rewrite <- app_assoc).
    replace (S (length A0)) with (length (A0 ++ [x])) by (rewrite app_length; cbn [length]; lia).
    destruct (in_map b mb x) eqn:E; cbn [negb].
    + apply IH; [exact Hnd|]. intros y Hy. apply HLR. now right.
    + destruct (HLR x (or_introl eq_refl) E) as [HL HR].
      cbn [app]. rewrite remove_child_mid.
      * rewrite IH; [|exact Hnd|intros y Hy; apply HLR; now right].
        f_equal. f_equal. cbn [rev]. now rewrite <- app_assoc.
      * exact HL.
      * rewrite in_app_iff, filter_In. tauto.
Qed.

(* insertBefore(y, x.nextSibling): y moves right behind x *)
Lemma insert_after L x M y R :
  NoDup (L ++ x :: M ++ y :: R) ->
  insert_before (L ++ x :: M ++ y :: R) y (next_sibling (L ++ x :: M ++ y :: R) x) = Some (L ++ x :: y :: M ++ R).
Proof.
  intros Hnd. pose proof Hnd as Hnd0.
  apply NoDup_app_iff in Hnd as (HL & HR & Hd). apply NoDup_cons_iff in HR as [HxR HR].
  assert (HxL : ~ In x L) by (intros H; apply (Hd x H); now left).
  rewrite next_sibling_mid by exact HxL.
  apply NoDup_app_iff in HR as (HM & HyR & HdM). apply NoDup_cons_iff in HyR as [HyR HR].
  assert (HyM : ~ In y M) by (intros H; apply (HdM y H); now left).
  assert (HyL : ~ In y L) by (intros H; apply (Hd y H); right; rewrite in_app_iff; right; now left).
  assert (Hxy : x <> y) by (intros ->; apply HxR; rewrite in_app_iff; right; now left).
  destruct M as [|m M]; cbn [app hd_error].
  - replace (L ++ x :: y :: R) with ((L ++ [x]) ++ y :: R) by (now rewrite <- app_assoc).
    apply insert_before_self.
    + rewrite in_app_iff. cbn [In]. intuition congruence.
    + exact HyR.
    + intros r Hr. assert (HrR : In r R) by (destruct R; [discriminate | injection Hr as ->; now left]).
      rewrite in_app_iff. cbn [In]. intros [H|[H|[]]].
      * apply (Hd r H). right. right. exact HrR.
      * subst. apply HxR. right. exact HrR.
  - replace (L ++ x :: m :: M ++ y :: R) with ((L ++ [x]) ++ (m :: M ++ y :: R)) by (now rewrite <- app_assoc).
    change (Some m) with (hd_error (m :: M ++ y :: R)).
    rewrite insert_before_split.
    + rewrite rm_notin by (rewrite in_app_iff; cbn [In]; intuition congruence).
      rewrite rm_cons_ne by (intros ->; apply HyM; now left).
      rewrite rm_mid; [now rewrite <- app_assoc | intros H; apply HyM; now right | exact HyR].
    + intros r [= <-]. split; [intros ->; apply HyM; now left|].
      rewrite in_app_iff. cbn [In]. intros [H|[H|[]]].
      * apply (Hd m H). right. now left.
      * subst. apply HxR. now left.
Qed.

(* insertBefore(x, ref) where ref is the head of R: x moves from the middle to just before R *)
Lemma insert_move_back L x M R :
  NoDup (L ++ x :: M ++ R) ->
  insert_before (L ++ x :: M ++ R) x (hd_error R) = Some (L ++ M ++ x :: R).
Proof.
  intros Hnd. apply NoDup_app_iff in Hnd as (HL & HR & Hd). apply NoDup_cons_iff in HR as [HxR HR].
  assert (HxL : ~ In x L) by (intros H; apply (Hd x H); now left).
  apply NoDup_app_iff in HR as (HM & HR & HdM). rewrite in_app_iff in HxR.
  replace (L ++ x :: M ++ R) with ((L ++ x :: M) ++ R) by (now rewrite <- app_assoc).
  rewrite insert_before_split.
  - rewrite rm_mid by tauto. rewrite rm_notin by tauto. now rewrite <- app_assoc.
  - intros r Hr. assert (HrR : In r R) by (destruct R; [discriminate | injection Hr as ->; now left]).
    split; [intros ->; tauto|]. rewrite in_app_iff. cbn [In]. intros [H|[H|H]].
    + apply (Hd r H). right. rewrite in_app_iff. now right.
    + subst. tauto.
    + exact (HdM r H HrR).
Qed.

(* ------------------------------------------------------------------ *)
(* 4. the loop body as a function of its continuation                  *)

Definition br_append (b : list nat) (after : option nat) (k : rst -> rres) (s : rst) : rres :=
  let ref :=
    if b_end s <? length b then
      (if negb (Nat.eqb (b_start s) 0) then
         match get b (b_start s - 1) with Some x => Some (next_sibling (ch s) x) | None => None end
       else match get b (b_end s - b_start s) with Some x => Some (Some x) | None => None end)
    else Some after in
  match ref with
  | None => RErr
  | Some r =>
      match insert_range (ch s) b (b_start s) (b_end s - b_start s) r (touched s) with
      | Some (ch', t') => k (RSt ch' (arr s) (a_start s) (a_end s) (b_end s) (b_end s) (map_built s) t')
      | None => RErr
      end
  end.

Definition br_remove (b : list nat) (k : rst -> rres) (s : rst) : rres :=
  match fold_left (rm_step b (map_built s) (arr s)) (seq (a_start s) (a_end s - a_start s)) (Some (ch s, touched s)) with
  | Some (c, t) => k (RSt c (arr s) (a_end s) (a_end s) (b_start s) (b_end s) (map_built s) t)
  | None => RErr
  end.

Definition br_swap (k : rst -> rres) (s : rst) (as_ bs ae be : nat) : rres :=
  let node := next_sibling (ch s) ae in
  match insert_before (ch s) bs (next_sibling (ch s) as_) with
  | Some c1 =>
      match insert_before c1 be node with
      | Some c2 =>
          k (RSt c2 (set_nth (arr s) (a_end s - 1) be) (S (a_start s)) (a_end s - 1) (S (b_start s)) (b_end s - 1)
                 (map_built s) (be :: bs :: touched s))
      | None => RErr
      end
  | None => RErr
  end.

Definition cur_w (s : rst) : nat * nat :=
  match map_built s with Some w => w | None => (b_start s, b_end s) end.

Definition br_fallback (b : list nat) (k : rst -> rres) (s : rst) (as_ bs : nat) : rres :=
  let w := cur_w s in
  match map_get b w as_ with
  | Some index =>
      if (b_start s <? index) && (index <? b_end s) then
        let sequence := run_length (length (arr s)) (arr s) b w (a_end s) (b_end s) index (a_start s) 1 in
        if index - b_start s <? sequence then
          match insert_range (ch s) b (b_start s) (index - b_start s) (Some as_) (touched s) with
          | Some (c, t) => k (RSt c (arr s) (a_start s) (a_end s) index (b_end s) (Some w) t)
          | None => RErr
          end
        else
          match replace_child (ch s) bs as_ with
          | Some c => k (RSt c (arr s) (S (a_start s)) (a_end s) (S (b_start s)) (b_end s) (Some w) (bs :: as_ :: touched s))
          | None => RErr
          end
      else k (RSt (ch s) (arr s) (S (a_start s)) (a_end s) (b_start s) (b_end s) (Some w) (touched s))
  | None =>
      match remove_child (ch s) as_ with
      | Some c => k (RSt c (arr s) (S (a_start s)) (a_end s) (b_start s) (b_end s) (Some w) (as_ :: touched s))
      | None => RErr
      end
  end.

Definition body (b : list nat) (after : option nat) (k : rst -> rres) (s : rst) : rres :=
  if negb ((a_start s <? a_end s) || (b_start s <? b_end s)) then ROk (ch s) (touched s)
  else if Nat.eqb (a_end s) (a_start s) then br_append b after k s
  else if Nat.eqb (b_end s) (b_start s) then br_remove b k s
  else
    match get (arr s) (a_start s), get b (b_start s), get (arr s) (a_end s - 1), get b (b_end s - 1) with
    | Some as_, Some bs, Some ae, Some be =>
        if Nat.eqb as_ bs then k (RSt (ch s) (arr s) (S (a_start s)) (a_end s) (S (b_start s)) (b_end s) (map_built s) (touched s))
        else if Nat.eqb ae be then k (RSt (ch s) (arr s) (a_start s) (a_end s - 1) (b_start s) (b_end s - 1) (map_built s) (touched s))
        else if Nat.eqb as_ be && Nat.eqb bs ae then br_swap k s as_ bs ae be
        else br_fallback b k s as_ bs
    | _, _, _, _ => RErr
    end.

(* the model's loop is exactly: fuel check, then [body] with the recursive call as continuation *)
Lemma loop_S b after f s : reconcile_loop b after (S f) s = body b after (reconcile_loop b after f) s.
Proof. destruct s. reflexivity. Qed.

Lemma loop_O b after s :
  reconcile_loop b after 0 s
  = if negb ((a_start s <? a_end s) || (b_start s <? b_end s)) then ROk (ch s) (touched s) else RFuel.
Proof. destruct s. reflexivity. Qed.

Definition measure (s : rst) : nat := (a_end s - a_start s) + (b_end s - b_start s).

(* ------------------------------------------------------------------ *)
(* 5. the loop invariant                                               *)

Section Correct.
Variables pre a b post : list nat.
Hypothesis Hnd : NoDup (pre ++ a ++ post).
Hypothesis Hb : NoDup b.
Hypothesis Hdis : forall x, In x b -> ~ In x pre /\ ~ In x post.

Let after : option nat := hd_error post.

Lemma nd_pre : NoDup pre. Proof. apply NoDup_app_iff in Hnd. tauto. Qed.
Lemma nd_a : NoDup a. Proof. apply NoDup_app_iff in Hnd as (_ & H & _). apply NoDup_app_iff in H. tauto. Qed.
Lemma nd_post : NoDup post. Proof. apply NoDup_app_iff in Hnd as (_ & H & _). apply NoDup_app_iff in H. tauto. Qed.
Lemma pre_a x : In x pre -> ~ In x a.
Proof. apply NoDup_app_iff in Hnd as (_ & _ & H). intros Hx Ha. apply (H x Hx). rewrite in_app_iff. now left. Qed.
Lemma pre_post x : In x pre -> ~ In x post.
Proof. apply NoDup_app_iff in Hnd as (_ & _ & H). intros Hx Ha. apply (H x Hx). rewrite in_app_iff. now right. Qed.
Lemma a_post x : In x a -> ~ In x post.
Proof. apply NoDup_app_iff in Hnd as (_ & H & _). apply NoDup_app_iff in H as (_ & _ & H). exact (H x). Qed.

Definition mapinv (s : rst) (Wa : list nat) : Prop :=
  forall x, In x Wa -> In x b ->
  exists i, fst (cur_w s) <= i < snd (cur_w s) /\ nth_error b i = Some x.

Definition touched_ok (t : list nat) : Prop := Forall (fun x => In x a \/ In x b) t.

(* arr = A0 ++ Wa ++ A1 with the a-window Wa, b = P ++ Wb ++ S with the b-window Wb; the children between pre
   and post are: the placed prefix P, the window nodes of a that have not been placed yet (in a's order),
   the placed suffix S *)
Inductive Inv (s : rst) : Prop :=
  mkInv (A0 Wa A1 P Wb S : list nat)
    (Harr : arr s = A0 ++ Wa ++ A1) (Has : a_start s = length A0) (Hae : a_end s = length A0 + length Wa)
    (Hbb : b = P ++ Wb ++ S) (Hbs : b_start s = length P) (Hbe : b_end s = length P + length Wb)
    (HndW : NoDup Wa) (Hincl : forall x, In x Wa -> In x a)
    (Hch : ch s = pre ++ P ++ filter (out (P ++ S)) Wa ++ S ++ post)
    (Hmap : mapinv s Wa)
    (Ht : touched_ok (touched s)).

(* facts about a three-way split of b *)
Lemma b_parts P Wb S : b = P ++ Wb ++ S ->
  NoDup P /\ NoDup Wb /\ NoDup S /\
  (forall x, In x P -> ~ In x Wb) /\ (forall x, In x P -> ~ In x S) /\ (forall x, In x Wb -> ~ In x S) /\
  (forall x, In x P -> In x b) /\ (forall x, In x Wb -> In x b) /\ (forall x, In x S -> In x b).
Proof.
  intros E. pose proof Hb as H. rewrite E in H.
  apply NoDup_app_iff in H as (H1 & H2 & H3). apply NoDup_app_iff in H2 as (H4 & H5 & H6).
  repeat split; try assumption.
  - intros x Hx Hw. apply (H3 x Hx). rewrite in_app_iff. now left.
  - intros x Hx Hw. apply (H3 x Hx). rewrite in_app_iff. now right.
  - intros x Hx. rewrite E, !in_app_iff. tauto.
  - intros x Hx. rewrite E, !in_app_iff. tauto.
  - intros x Hx. rewrite E, !in_app_iff. tauto.
Qed.

Lemma ch_NoDup P Wb S Wa :
  b = P ++ Wb ++ S -> NoDup Wa -> (forall x, In x Wa -> In x a) ->
  NoDup (pre ++ P ++ filter (out (P ++ S)) Wa ++ S ++ post).
Proof.
  intros E HW Hi. destruct (b_parts _ _ _ E) as (nP & nW & nS & PW & PS & WS & Pb & Wb_ & Sb).
  repeat (apply NoDup_app_iff; split; [|split]).
  - apply nd_pre.
  - exact nP.
  - now apply NoDup_filter.
  - exact nS.
  - apply nd_post.
  - intros x Hx. exact (proj2 (Hdis x (Sb x Hx))).
  - intros x Hx. apply In_filter_out in Hx as [Hx Hn]. rewrite in_app_iff in *.
    intros [H|H]; [tauto|]. exact (a_post x (Hi x Hx) H).
  - intros x Hx. rewrite !in_app_iff, In_filter_out, in_app_iff.
    intros [H|[H|H]]; [tauto | exact (PS x Hx H) | exact (proj2 (Hdis x (Pb x Hx)) H)].
  - intros x Hx. rewrite !in_app_iff, In_filter_out.
    intros [H|[[H _]|[H|H]]].
    + exact (proj1 (Hdis x (Pb x H)) Hx).
    + exact (pre_a x Hx (Hi x H)).
    + exact (proj1 (Hdis x (Sb x H)) Hx).
    + exact (pre_post x Hx H).
Qed.

(* the map invariant: elimination when no map has been built, and preservation *)
Lemma mapinv_None_elim s Wa P Wb S :
  map_built s = None -> b = P ++ Wb ++ S -> b_start s = length P -> b_end s = length P + length Wb ->
  mapinv s Wa -> forall x, In x Wa -> In x b -> In x Wb.
Proof.
  intros Hm E Hs He HI x Hx Hxb. destruct (HI x Hx Hxb) as (i & Hi & Hn).
  unfold cur_w in Hi. rewrite Hm in Hi. cbn [fst snd] in Hi. rewrite E in Hn.
  apply nth_error_3 in Hn as [[H _]|[[_ H]|[H _]]]; [lia | eapply nth_error_In, H | lia].
Qed.

Lemma mapinv_None_intro s Wa P Wb S :
  map_built s = None -> b = P ++ Wb ++ S -> b_start s = length P -> b_end s = length P + length Wb ->
  (forall x, In x Wa -> In x b -> In x Wb) -> mapinv s Wa.
Proof.
  intros Hm E Hs He H x Hx Hxb. unfold cur_w. rewrite Hm. cbn [fst snd].
  destruct (In_nth_error Wb x (H x Hx Hxb)) as [j Hj]. exists (length P + j). split.
  - assert (j < length Wb) by (apply nth_error_Some; congruence). lia.
  - rewrite E at 1. rewrite nth_error_app2 by lia. replace (length P + j - length P) with j by lia.
    rewrite nth_error_app1; [exact Hj|]. apply nth_error_Some. congruence.
Qed.

Lemma mapinv_same s s' Wa Wa' :
  cur_w s' = cur_w s -> (forall x, In x Wa' -> In x Wa) -> mapinv s Wa -> mapinv s' Wa'.
Proof. intros E Hi H x Hx Hxb. rewrite E. apply H; [apply Hi, Hx | exact Hxb]. Qed.

(* shrinking both windows by matched nodes keeps the map invariant *)
Lemma mapinv_shrink s s' Wa Wa' P Wb S P' Wb' S' :
  map_built s' = map_built s ->
  b = P ++ Wb ++ S -> b_start s = length P -> b_end s = length P + length Wb ->
  b = P' ++ Wb' ++ S' -> b_start s' = length P' -> b_end s' = length P' + length Wb' ->
  (forall x, In x Wa' -> In x Wa) ->
  (forall x, In x Wa' -> In x Wb -> In x Wb') ->
  mapinv s Wa -> mapinv s' Wa'.
Proof.
  intros Em E Hs He E' Hs' He' Hi Hw H. destruct (map_built s) as [w|] eqn:Ew.
  - apply (mapinv_same s s' Wa Wa'); [unfold cur_w; now rewrite Em, Ew | exact Hi | exact H].
  - apply (mapinv_None_intro s' Wa' P' Wb' S'); try assumption.
    intros x Hx Hxb. apply Hw; [exact Hx|].
    apply (mapinv_None_elim s Wa P Wb S); try assumption. apply Hi, Hx.
Qed.

Lemma guard_true s : a_start s < a_end s \/ b_start s < b_end s ->
  negb ((a_start s <? a_end s) || (b_start s <? b_end s)) = false.
Proof.
  intros [H|H]; apply negb_false_iff, orb_true_iff; [left | right]; now apply Nat.ltb_lt.
Qed.

Ltac lnorm := repeat (rewrite <- app_assoc || (progress cbn [app])).
Ltac len := repeat (rewrite app_length in * || (progress cbn [length] in * ));
  lia.

Lemma nonempty_len {A} (l : list A) : 0 < length l -> l <> [].
Proof. destruct l; cbn [length]; [lia | discriminate]. Qed.

(* ------------------------------------------------------------------ *)
(* 6. the branches                                                     *)

(* common prefix *)
Lemma step_prefix s x :
  Inv s -> a_start s < a_end s -> b_start s < b_end s ->
  get (arr s) (a_start s) = Some x -> get b (b_start s) = Some x ->
  Inv (RSt (ch s) (arr s) (S (a_start s)) (a_end s) (S (b_start s)) (b_end s) (map_built s) (touched s)).
Proof.
  intros [A0 Wa A1 P Wb S Harr Has Hae Hbb Hbs Hbe HndW Hincl Hch Hmap Ht] Hlta Hltb Hga Hgb.
  rewrite Harr, Has in Hga. destruct (win_hd A0 Wa A1 x) as [Wa' ->]; [apply nonempty_len; lia | exact Hga |].
  rewrite Hbs in Hgb. rewrite Hbb in Hgb. destruct (win_hd P Wb S x) as [Wb' ->]; [apply nonempty_len; lia | exact Hgb |].
  destruct (b_parts _ _ _ Hbb) as (nP & nW & nS & PW & PS & WS & Pb & Wb_ & Sb).
  apply NoDup_cons_iff in HndW as [HxW HndW].
  apply (mkInv _ (A0 ++ [x]) Wa' A1 (P ++ [x]) Wb' S); cbn [ch arr a_start a_end b_start b_end map_built touched].
  - rewrite Harr, <- app_assoc. reflexivity.
  - len.
  - len.
  - rewrite Hbb at 1. rewrite <- app_assoc. reflexivity.
  - len.
  - len.
  - exact HndW.
  - intros y Hy. apply Hincl. now right.
  - rewrite Hch. cbn [filter].
    assert (Ho : out (P ++ S) x = true).
    { apply out_true. rewrite in_app_iff. intros [H|H]; [apply (PW x H); now left | apply (WS x); [now left | exact H]]. }
    rewrite Ho, <- !app_assoc. cbn [app]. do 3 f_equal. f_equal.
    apply filter_ext_In. intros y Hy. apply out_ext. rewrite !in_app_iff. cbn [In].
    split; [tauto|]. intros [H|[H|H]]; [tauto | subst; contradiction | tauto].
  - eapply (mapinv_shrink s _ (x :: Wa') Wa' P (x :: Wb') S (P ++ [x]) Wb' S); cbn [map_built b_start b_end]; try eassumption.
    + reflexivity.
    + rewrite Hbb at 1. rewrite <- app_assoc. reflexivity.
    + len.
    + len.
    + intros y Hy. now right.
    + intros y Hy [H|H]; [subst; contradiction | exact H].
  - exact Ht.
Qed.

(* common suffix *)
Lemma step_suffix s x :
  Inv s -> a_start s < a_end s -> b_start s < b_end s ->
  get (arr s) (a_end s - 1) = Some x -> get b (b_end s - 1) = Some x ->
  Inv (RSt (ch s) (arr s) (a_start s) (a_end s - 1) (b_start s) (b_end s - 1) (map_built s) (touched s)).
Proof.
  intros [A0 Wa A1 P Wb S Harr Has Hae Hbb Hbs Hbe HndW Hincl Hch Hmap Ht] Hlta Hltb Hga Hgb.
  rewrite Harr, Hae in Hga. destruct (win_last A0 Wa A1 x) as [Wa' ->]; [apply nonempty_len; lia | exact Hga |].
  rewrite Hbe in Hgb. rewrite Hbb in Hgb. destruct (win_last P Wb S x) as [Wb' ->]; [apply nonempty_len; lia | exact Hgb |].
  destruct (b_parts _ _ _ Hbb) as (nP & nW & nS & PW & PS & WS & Pb & Wb_ & Sb).
  apply NoDup_app_iff in HndW as (HndW & _ & HxW).
  assert (HxW' : ~ In x Wa') by (intros H; apply (HxW x H); now left).
  apply (mkInv _ A0 Wa' (x :: A1) P Wb' (x :: S)); cbn [ch arr a_start a_end b_start b_end map_built touched].
  - rewrite Harr, <- app_assoc. reflexivity.
  - exact Has.
  - len.
  - rewrite Hbb at 1. rewrite <- app_assoc. reflexivity.
  - exact Hbs.
  - len.
  - exact HndW.
  - intros y Hy. apply Hincl. rewrite in_app_iff. now left.
  - rewrite Hch, filter_app. cbn [filter].
    assert (Ho : out (P ++ S) x = true).
    { apply out_true. rewrite in_app_iff. intros [H|H].
      - apply (PW x H). rewrite in_app_iff. right. now left.
      - apply (WS x); [rewrite in_app_iff; right; now left | exact H]. }
    rewrite Ho, <- !app_assoc. cbn [app]. do 2 f_equal. f_equal.
    apply filter_ext_In. intros y Hy. apply out_ext. rewrite !in_app_iff. cbn [In].
    split; [tauto|]. intros [H|[H|H]]; [tauto | subst; contradiction | tauto].
  - eapply (mapinv_shrink s _ (Wa' ++ [x]) Wa' P (Wb' ++ [x]) S P Wb' (x :: S)); cbn [map_built b_start b_end]; try eassumption.
    + reflexivity.
    + rewrite Hbb at 1. rewrite <- app_assoc. reflexivity.
    + len.
    + intros y Hy. rewrite in_app_iff. now left.
    + intros y Hy. rewrite in_app_iff. cbn [In]. intros [H|[H|[]]]; [exact H | subst; contradiction].
  - exact Ht.
Qed.

(* swap backwards *)
Lemma step_swap s as_ bs :
  Inv s -> a_start s < a_end s -> b_start s < b_end s ->
  get (arr s) (a_start s) = Some as_ -> get b (b_start s) = Some bs ->
  get (arr s) (a_end s - 1) = Some bs -> get b (b_end s - 1) = Some as_ -> as_ <> bs ->
  exists s', (forall k, br_swap k s as_ bs bs as_ = k s') /\ Inv s' /\ measure s' < measure s.
Proof.
  intros [A0 Wa A1 P Wb S Harr Has Hae Hbb Hbs Hbe HndW Hincl Hch Hmap Ht] Hlta Hltb Hga Hgb Hga' Hgb' Hne.
  rewrite Harr, Has in Hga. destruct (win_hd A0 Wa A1 as_) as [Wa' Ea]; [apply nonempty_len; lia | exact Hga |].
  rewrite Harr, Hae in Hga'. destruct (win_last A0 Wa A1 bs) as [Wa'' Ea']; [apply nonempty_len; lia | exact Hga' |].
  rewrite Ea in Ea'. destruct (cons_snoc_ne _ _ _ _ Ea' Hne) as (Wm & -> & _). clear Ea'. subst Wa.
  rewrite Hbs in Hgb. rewrite Hbb in Hgb. destruct (win_hd P Wb S bs) as [Wb' Eb]; [apply nonempty_len; lia | exact Hgb |].
  rewrite Hbe in Hgb'. rewrite Hbb in Hgb'. destruct (win_last P Wb S as_) as [Wb'' Eb']; [apply nonempty_len; lia | exact Hgb' |].
  rewrite Eb in Eb'. destruct (cons_snoc_ne _ _ _ _ Eb' (not_eq_sym Hne)) as (Wn & -> & _). clear Eb'. subst Wb.
  clear Hga Hga' Hgb Hgb'.
  destruct (b_parts _ _ _ Hbb) as (nP & nW & nS & PW & PS & WS & Pb & Wb_ & Sb).
  pose proof (ch_NoDup _ _ _ _ Hbb HndW Hincl) as Hndch.
  assert (Ho1 : out (P ++ S) as_ = true).
  { apply out_true. rewrite in_app_iff. intros [H|H].
    - apply (PW _ H). right. rewrite in_app_iff. right. now left.
    - apply (WS as_); [|exact H]. right. rewrite in_app_iff. right. now left. }
  assert (Ho2 : out (P ++ S) bs = true).
  { apply out_true. rewrite in_app_iff. intros [H|H].
    - apply (PW _ H). now left.
    - apply (WS bs); [now left | exact H]. }
  set (M := filter (out (P ++ S)) Wm) in *.
  assert (Hch' : ch s = (pre ++ P) ++ as_ :: M ++ bs :: (S ++ post)).
  { rewrite Hch. cbn [filter]. rewrite Ho1, filter_app. cbn [filter]. rewrite Ho2. fold M. lnorm. reflexivity. }
  assert (Hnd' : NoDup ((pre ++ P) ++ as_ :: M ++ bs :: (S ++ post))).
  { rewrite <- Hch', Hch. exact Hndch. }
  apply NoDup_cons_iff in HndW as [HaW HndW]. apply NoDup_app_iff in HndW as (HndW & _ & HbW).
  assert (HaWm : ~ In as_ Wm) by (intros H; apply HaW; rewrite in_app_iff; now left).
  assert (HbWm : ~ In bs Wm) by (intros H; apply (HbW bs H); now left).
  eexists. split; [|split].
  - intros k. unfold br_swap. rewrite Hch'.
    rewrite insert_after by exact Hnd'.
    replace ((pre ++ P) ++ as_ :: M ++ bs :: S ++ post) with (((pre ++ P) ++ as_ :: M) ++ bs :: (S ++ post))
      by (now rewrite <- !app_assoc).
    rewrite next_sibling_mid.
    2:{ assert (Hnd2 : NoDup (((pre ++ P) ++ as_ :: M) ++ bs :: (S ++ post))) by (revert Hnd'; lnorm; exact (fun H => H)).
        exact (proj1 (NoDup_mid _ _ _ Hnd2)). }
    replace ((pre ++ P) ++ as_ :: bs :: M ++ S ++ post) with ((pre ++ P) ++ as_ :: (bs :: M) ++ (S ++ post)) by reflexivity.
    rewrite insert_move_back.
    2:{ (* NoDup of the intermediate child list: a permutation of the previous one *)
        cbn [app]. apply NoDup_app_iff in Hnd' as (H1 & H2 & H3). apply NoDup_cons_iff in H2 as [H4 H2].
        apply NoDup_app_iff in H2 as (H5 & H6 & H7). apply NoDup_cons_iff in H6 as [H8 H6].
        rewrite in_app_iff in H4. cbn [In] in H4.
        apply NoDup_app_iff. split; [exact H1|]. split.
        - apply NoDup_cons_iff. split; [cbn [In]; rewrite in_app_iff; intuition congruence|].
          apply NoDup_cons_iff. split.
          + rewrite in_app_iff. intros [H|H]; [apply (H7 bs H); now left | contradiction].
          + apply NoDup_app_iff. split; [exact H5|]. split; [exact H6|]. intros y Hy Hy'. apply (H7 y Hy). now right.
        - intros y Hy. specialize (H3 y Hy). cbn [In] in *. rewrite in_app_iff in *. cbn [In] in *. tauto. }
    reflexivity.
  - apply (mkInv _ (A0 ++ [as_]) Wm (as_ :: A1) (P ++ [bs]) Wn (as_ :: S));
      cbn [ch arr a_start a_end b_start b_end map_built touched].
    + rewrite Harr, Hae.
      replace (A0 ++ (as_ :: Wm ++ [bs]) ++ A1) with ((A0 ++ as_ :: Wm) ++ bs :: A1)
        by (rewrite <- !app_assoc; cbn [app]; now rewrite <- !app_assoc).
      replace (length A0 + length (as_ :: Wm ++ [bs]) - 1) with (length (A0 ++ as_ :: Wm)).
      2:{ len. }
      rewrite set_nth_mid, <- !app_assoc. reflexivity.
    + len.
    + len.
    + rewrite Hbb at 1. rewrite <- !app_assoc. cbn [app]. now rewrite <- !app_assoc.
    + len.
    + len.
    + exact HndW.
    + intros y Hy. apply Hincl. right. rewrite in_app_iff. now left.
    + cbn [app]. rewrite <- !app_assoc. cbn [app]. do 3 f_equal. f_equal.
      apply filter_ext_In. intros y Hy. apply out_ext. rewrite !in_app_iff. cbn [In].
      split; [tauto|]. intros [H|[H|[H|H]]]; [tauto | subst; contradiction | subst; contradiction | tauto].
    + eapply (mapinv_shrink s _ (as_ :: Wm ++ [bs]) Wm P (bs :: Wn ++ [as_]) S (P ++ [bs]) Wn (as_ :: S));
        cbn [map_built b_start b_end]; try eassumption.
      * reflexivity.
      * rewrite Hbb at 1. rewrite <- !app_assoc. cbn [app]. now rewrite <- !app_assoc.
      * len.
      * len.
      * intros y Hy. right. rewrite in_app_iff. now left.
      * intros y Hy. cbn [In]. rewrite in_app_iff. cbn [In].
        intros [H|[H|[H|[]]]]; [subst; contradiction | exact H | subst; contradiction].
    + constructor; [left; apply Hincl; now left|]. constructor; [right; apply Wb_; now left | exact Ht].
  - unfold measure. cbn [a_start a_end b_start b_end]. len.
Qed.

Lemma hd_error_In {A} (l : list A) x : hd_error l = Some x -> In x l.
Proof. destruct l; [discriminate | intros [= ->]; now left]. Qed.

(* append *)
Lemma step_append s :
  Inv s -> a_end s = a_start s -> b_start s < b_end s ->
  exists s', (forall k, br_append b after k s = k s') /\ Inv s' /\ measure s' < measure s.
Proof.
  intros [A0 Wa A1 P Wb S Harr Has Hae Hbb Hbs Hbe HndW Hincl Hch Hmap Ht] Heq Hltb.
  assert (Wa = []) as -> by (destruct Wa; [reflexivity | cbn [length] in *; lia]).
  cbn [filter app] in Hch.
  destruct (b_parts _ _ _ Hbb) as (nP & nW & nS & PW & PS & WS & Pb & Wb_ & Sb).
  pose proof (ch_NoDup _ _ _ [] Hbb HndW Hincl) as Hndch. cbn [filter app] in Hndch.
  assert (Hlen : length b = length P + length Wb + length S) by (rewrite Hbb; len).
  assert (Href :
    (if b_end s <? length b then
      (if negb (Nat.eqb (b_start s) 0) then
         match get b (b_start s - 1) with Some x => Some (next_sibling (ch s) x) | None => None end
       else match get b (b_end s - b_start s) with Some x => Some (Some x) | None => None end)
     else Some after) = Some (hd_error (S ++ post))).
  { destruct (Nat.ltb_spec (b_end s) (length b)) as [Hlt|Hge].
    - destruct S as [|s0 S']; [cbn [length] in *; lia|]. cbn [app hd_error].
      destruct (Nat.eqb_spec (b_start s) 0) as [H0|Hn0]; cbn [negb].
      + assert (P = []) as -> by (destruct P; [reflexivity | cbn [length] in *; lia]).
        rewrite Hbe, Hbs. cbn [length]. replace (0 + length Wb - 0) with (length Wb) by lia.
        unfold get. rewrite Hbb. cbn [app]. now rewrite nth_error_mid.
      + assert (HP : P <> []) by (apply nonempty_len; lia).
        destruct (exists_last HP) as (P0 & p & ->).
        assert (Hg : get b (b_start s - 1) = Some p).
        { unfold get. rewrite Hbs, Hbb. replace (length (P0 ++ [p]) - 1) with (length P0) by len.
          rewrite <- !app_assoc. cbn [app]. apply nth_error_mid. }
        rewrite Hg, Hch.
        replace (pre ++ (P0 ++ [p]) ++ (s0 :: S') ++ post) with ((pre ++ P0) ++ p :: (s0 :: S' ++ post)) by (lnorm; reflexivity).
        rewrite next_sibling_mid; [reflexivity|].
        assert (Hnd2 : NoDup ((pre ++ P0) ++ p :: (s0 :: S' ++ post))) by (revert Hndch; lnorm; exact (fun H => H)).
        exact (proj1 (NoDup_mid _ _ _ Hnd2)).
    - assert (S = []) as -> by (destruct S; [reflexivity | cbn [length] in *; lia]). reflexivity. }
  assert (Hins : insert_range (ch s) b (b_start s) (b_end s - b_start s) (hd_error (S ++ post)) (touched s)
                 = Some (pre ++ (P ++ Wb) ++ S ++ post, rev Wb ++ touched s)).
  { rewrite Hch, Hbe, Hbs. replace (length P + length Wb - length P) with (length Wb) by lia.
    replace (pre ++ P ++ S ++ post) with ((pre ++ P) ++ (S ++ post)) by (lnorm; reflexivity).
    rewrite (insert_range_spec b Wb P S).
    - f_equal. f_equal. lnorm. do 3 f_equal. apply filter_all. intros y Hy. apply out_true.
      apply in_app_iff in Hy as [Hy|Hy]; intros H.
      + exact (WS y H Hy).
      + exact (proj2 (Hdis y (Wb_ y H)) Hy).
    - exact Hbb.
    - exact nW.
    - intros n Hn. rewrite in_app_iff. intros [H|H]; [exact (proj1 (Hdis n (Wb_ n Hn)) H) | exact (PW n H Hn)].
    - intros r Hr. apply hd_error_In in Hr. rewrite in_app_iff in *. destruct Hr as [Hr|Hr]; split.
      + intros H. exact (WS r H Hr).
      + intros [H|H]; [exact (proj1 (Hdis r (Sb r Hr)) H) | exact (PS r H Hr)].
      + intros H. exact (proj2 (Hdis r (Wb_ r H)) Hr).
      + intros [H|H]; [exact (pre_post r H Hr) | exact (proj2 (Hdis r (Pb r H)) Hr)]. }
  eexists. split; [|split].
  - intros k. unfold br_append. rewrite Href, Hins. reflexivity.
  - apply (mkInv _ A0 [] A1 (P ++ Wb) [] S); cbn [ch arr a_start a_end b_start b_end map_built touched].
    + exact Harr.
    + exact Has.
    + exact Hae.
    + rewrite Hbb at 1. lnorm. reflexivity.
    + len.
    + len.
    + constructor.
    + intros y [].
    + reflexivity.
    + intros y [].
    + apply Forall_app. split; [|exact Ht]. apply Forall_forall. intros y Hy. right. apply Wb_. now apply in_rev.
  - unfold measure. cbn [a_start a_end b_start b_end]. lia.
Qed.

(* a window node is in the map iff it occurs in b (given the map invariant) *)
Lemma in_map_false s Wa x :
  mapinv s Wa -> In x Wa -> b_end s = b_start s -> in_map b (map_built s) x = false -> ~ In x b.
Proof.
  intros HI Hx Hemp Him Hxb. destruct (HI x Hx Hxb) as (i & Hi & Hn).
  unfold cur_w in Hi. unfold in_map in Him. destruct (map_built s) as [w|].
  - destruct (map_get b w x) eqn:E; [discriminate|]. exact (map_get_None _ _ _ E i Hi Hn).
  - cbn [fst snd] in Hi. lia.
Qed.

Lemma in_map_true mb x : in_map b mb x = true -> In x b.
Proof.
  unfold in_map. destruct mb as [w|]; [|discriminate]. destruct (map_get b w x) eqn:E; [|discriminate].
  intros _. apply map_get_Some in E as [_ E]. eapply nth_error_In, E.
Qed.

(* remove *)
Lemma step_remove s :
  Inv s -> a_start s < a_end s -> b_end s = b_start s ->
  exists s', (forall k, br_remove b k s = k s') /\ Inv s' /\ measure s' < measure s.
Proof.
  intros [A0 Wa A1 P Wb S Harr Has Hae Hbb Hbs Hbe HndW Hincl Hch Hmap Ht] Hlta Heq.
  assert (Wb = []) as -> by (destruct Wb; [reflexivity | cbn [length] in *; lia]).
  destruct (b_parts _ _ _ Hbb) as (nP & nW & nS & PW & PS & WS & Pb & Wb_ & Sb).
  assert (HbPS : forall x, In x b <-> In x (P ++ S)) by (intros x; rewrite Hbb at 1; reflexivity).
  assert (Hfil : filter (out (P ++ S)) Wa = filter (fun x => negb (in_map b (map_built s) x)) Wa).
  { apply filter_ext_In. intros x Hx. destruct (in_map b (map_built s) x) eqn:E; cbn [negb].
    - apply out_false, HbPS. exact (in_map_true _ _ E).
    - apply out_true. rewrite <- HbPS. exact (in_map_false s Wa x Hmap Hx Heq E). }
  assert (Hfold : fold_left (rm_step b (map_built s) (arr s)) (seq (a_start s) (a_end s - a_start s)) (Some (ch s, touched s))
                  = Some (pre ++ P ++ S ++ post, rev (filter (fun x => negb (in_map b (map_built s) x)) Wa) ++ touched s)).
  { rewrite Harr, Hae, Has, Hch, Hfil. replace (length A0 + length Wa - length A0) with (length Wa) by lia.
    replace (pre ++ P ++ filter (fun x => negb (in_map b (map_built s) x)) Wa ++ S ++ post)
      with ((pre ++ P) ++ filter (fun x => negb (in_map b (map_built s) x)) Wa ++ (S ++ post)) by (lnorm; reflexivity).
    rewrite fold_rm_spec.
    - lnorm. reflexivity.
    - exact HndW.
    - intros x Hx E. pose proof (in_map_false s Wa x Hmap Hx Heq E) as Hxb. rewrite HbPS in Hxb.
      rewrite !in_app_iff in *. split.
      + intros [H|H]; [exact (pre_a x H (Hincl x Hx)) | tauto].
      + intros [H|H]; [tauto | exact (a_post x (Hincl x Hx) H)]. }
  eexists. split; [|split].
  - intros k. unfold br_remove. rewrite Hfold. reflexivity.
  - apply (mkInv _ (A0 ++ Wa) [] A1 P [] S); cbn [ch arr a_start a_end b_start b_end map_built touched].
    + rewrite Harr. lnorm. reflexivity.
    + len.
    + len.
    + exact Hbb.
    + exact Hbs.
    + exact Hbe.
    + constructor.
    + intros y [].
    + reflexivity.
    + intros y [].
    + apply Forall_app. split; [|exact Ht]. apply Forall_forall. intros y Hy. left. apply Hincl.
      apply in_rev in Hy. apply filter_In in Hy. tauto.
  - unfold measure. cbn [a_start a_end b_start b_end]. lia.
Qed.

Lemma out_app l k x : out (l ++ k) x = out l x && out k x.
Proof.
  destruct (out l x) eqn:E1, (out k x) eqn:E2; cbn [andb];
    rewrite ?out_true, ?out_false in *; rewrite in_app_iff; tauto.
Qed.

(* fallback to the map: four outcomes *)
Lemma step_fallback s as_ bs :
  Inv s -> a_start s < a_end s -> b_start s < b_end s ->
  get (arr s) (a_start s) = Some as_ -> get b (b_start s) = Some bs -> as_ <> bs ->
  exists s', (forall k, br_fallback b k s as_ bs = k s') /\ Inv s' /\ measure s' < measure s.
Proof.
  intros [A0 Wa A1 P Wb S Harr Has Hae Hbb Hbs Hbe HndW Hincl Hch Hmap Ht] Hlta Hltb Hga Hgb Hne.
  rewrite Harr, Has in Hga. destruct (win_hd A0 Wa A1 as_) as [Wa' ->]; [apply nonempty_len; lia | exact Hga |].
  rewrite Hbs in Hgb. rewrite Hbb in Hgb. destruct (win_hd P Wb S bs) as [Wb' ->]; [apply nonempty_len; lia | exact Hgb |].
  clear Hga Hgb.
  destruct (b_parts _ _ _ Hbb) as (nP & nW & nS & PW & PS & WS & Pb & Wb_ & Sb).
  pose proof (ch_NoDup _ _ _ _ Hbb HndW Hincl) as Hndch.
  pose proof HndW as HndW0. apply NoDup_cons_iff in HndW as [HaW HndW].
  set (M' := filter (out (P ++ S)) Wa') in *.
  (* shape of the children when the first window node has not been placed *)
  assert (Hshape : out (P ++ S) as_ = true ->
            ch s = (pre ++ P) ++ as_ :: (M' ++ S ++ post) /\ NoDup ((pre ++ P) ++ as_ :: (M' ++ S ++ post))).
  { intros Ho. assert (E : ch s = (pre ++ P) ++ as_ :: (M' ++ S ++ post)).
    { rewrite Hch. cbn [filter]. rewrite Ho. fold M'. lnorm. reflexivity. }
    split; [exact E|]. rewrite <- E, Hch. exact Hndch. }
  (* the a-window advances by one, the b-window stays *)
  assert (Harr' : arr s = (A0 ++ [as_]) ++ Wa' ++ A1) by (rewrite Harr; lnorm; reflexivity).
  assert (Hmap' : forall c bs' be' t', mapinv (RSt c (arr s) (Datatypes.S (a_start s)) (a_end s) bs' be' (Some (cur_w s)) t') Wa').
  { intros c bs' be' t'. apply (mapinv_same s _ (as_ :: Wa') Wa'); [reflexivity | intros y Hy; now right | exact Hmap]. }
  assert (HaA : In as_ a) by (apply Hincl; now left).
  unfold br_fallback.
  destruct (map_get b (cur_w s) as_) as [index|] eqn:Eget.
  - apply map_get_Some in Eget as [Hiw Hnth]. pose proof Hnth as Hnth0. rewrite Hbb in Hnth.
    apply nth_error_3 in Hnth as [[Hi HaP]|[[Hi HaWb]|[Hi HaS]]].
    + (* already placed in the prefix: skip *)
      replace ((b_start s <? index) && (index <? b_end s)) with false
        by (symmetry; apply andb_false_iff; left; apply Nat.ltb_ge; lia).
      eexists. split; [reflexivity|]. split.
      * apply (mkInv _ (A0 ++ [as_]) Wa' A1 P (bs :: Wb') S); cbn [ch arr a_start a_end b_start b_end map_built touched];
          try assumption; try len.
        -- intros y Hy. apply Hincl. now right.
        -- rewrite Hch. cbn [filter]. replace (out (P ++ S) as_) with false; [reflexivity|].
           symmetry. apply out_false. rewrite in_app_iff. now left.
        -- apply Hmap'.
      * unfold measure. cbn [a_start a_end b_start b_end]. lia.
    + (* inside the window *)
      assert (Hgt : length P < index).
      { destruct (Nat.eq_dec index (length P)) as [->|]; [|lia]. rewrite Nat.sub_diag in HaWb. cbn [nth_error] in HaWb. congruence. }
      replace ((b_start s <? index) && (index <? b_end s)) with true
        by (symmetry; apply andb_true_iff; split; apply Nat.ltb_lt; lia).
      assert (HaWbIn : In as_ (bs :: Wb')) by (eapply nth_error_In, HaWb).
      assert (Ho : out (P ++ S) as_ = true).
      { apply out_true. rewrite in_app_iff. intros [H|H]; [exact (PW _ H HaWbIn) | exact (WS _ HaWbIn H)]. }
      destruct (Hshape Ho) as [Ech Hnd2]. destruct (NoDup_mid _ _ _ Hnd2) as [HaL HaR].
      cbv zeta. destruct (index - b_start s <? _).
      * (* move b[b_start..index) in front of a[a_start] *)
        apply nth_error_split in HaWb as (W1 & W2 & EW & HlenW1).
        pose proof Hbe as Hbe'. rewrite EW in Hbe'.
        assert (Hbb' : b = P ++ W1 ++ (as_ :: W2 ++ S)) by (rewrite Hbb at 1; rewrite EW; lnorm; reflexivity).
        rewrite EW in nW. pose proof (NoDup_mid _ _ _ nW) as [HaW1 HaW2]. apply NoDup_app_iff in nW as (nW1 & _ & _).
        assert (HW1b : forall y, In y W1 -> In y (bs :: Wb')) by (intros y Hy; rewrite EW, in_app_iff; now left).
        assert (Hins : insert_range (ch s) b (b_start s) (index - b_start s) (Some as_) (touched s)
                       = Some (pre ++ (P ++ W1) ++ as_ :: filter (out W1) M' ++ S ++ post, rev W1 ++ touched s)).
        { rewrite Ech, Hbs, <- HlenW1.
          change (Some as_) with (hd_error (as_ :: M' ++ S ++ post)).
          rewrite (insert_range_spec b W1 P (as_ :: W2 ++ S)).
          - f_equal. f_equal. cbn [filter]. replace (out W1 as_) with true by (symmetry; now apply out_true).
            rewrite !filter_app. lnorm. do 5 f_equal. f_equal.
            + apply filter_all. intros y Hy. apply out_true. intros H. exact (WS y (HW1b y H) Hy).
            + apply filter_all. intros y Hy. apply out_true. intros H. exact (proj2 (Hdis y (Wb_ y (HW1b y H))) Hy).
          - exact Hbb'.
          - exact nW1.
          - intros n Hn. rewrite in_app_iff. intros [H|H].
            + exact (proj1 (Hdis n (Wb_ n (HW1b n Hn))) H).
            + exact (PW n H (HW1b n Hn)).
          - intros r [= <-]. split; [exact HaW1 | exact HaL]. }
        rewrite Hins. eexists. split; [reflexivity|]. split.
        -- apply (mkInv _ A0 (as_ :: Wa') A1 (P ++ W1) (as_ :: W2) S); cbn [ch arr a_start a_end b_start b_end map_built touched];
             try assumption; try len.
           ++ rewrite Hbb' at 1. lnorm. reflexivity.
           ++ cbn [filter]. replace (out ((P ++ W1) ++ S) as_) with true.
              2:{ symmetry. apply out_true. rewrite !in_app_iff. intros [[H|H]|H]; [exact (PW _ H HaWbIn) | exact (HaW1 H) | exact (WS _ HaWbIn H)]. }
              lnorm. do 4 f_equal. f_equal. unfold M'. rewrite filter_filter. apply filter_ext_In. intros y _.
              rewrite !out_app. destruct (out P y), (out W1 y), (out S y); reflexivity.
           ++ apply Forall_app. split; [|exact Ht]. apply Forall_forall. intros y Hy. right. apply Wb_, HW1b. now apply in_rev.
        -- unfold measure. cbn [a_start a_end b_start b_end]. lia.
      * (* replace a[a_start] by b[b_start] *)
        assert (Hrep : replace_child (ch s) bs as_ = Some (pre ++ (P ++ [bs]) ++ rm bs M' ++ S ++ post)).
        { rewrite Ech, replace_child_mid by (assumption || congruence).
          assert (HbsW : In bs (bs :: Wb')) by now left.
          rewrite rm_notin.
          2:{ rewrite in_app_iff. intros [H|H]; [exact (proj1 (Hdis bs (Wb_ bs HbsW)) H) | exact (PW bs H HbsW)]. }
          rewrite !rm_app. rewrite (rm_notin bs S) by (intros H; exact (WS bs HbsW H)).
          rewrite (rm_notin bs post) by (intros H; exact (proj2 (Hdis bs (Wb_ bs HbsW)) H)).
          lnorm. reflexivity. }
        rewrite Hrep. eexists. split; [reflexivity|]. split.
        -- apply (mkInv _ (A0 ++ [as_]) Wa' A1 (P ++ [bs]) Wb' S); cbn [ch arr a_start a_end b_start b_end map_built touched];
             try assumption; try len.
           ++ rewrite Hbb at 1. lnorm. reflexivity.
           ++ intros y Hy. apply Hincl. now right.
           ++ do 2 f_equal. f_equal. unfold M'. rewrite rm_as_filter, filter_filter. apply filter_ext_In. intros y _.
              rewrite !out_app. destruct (out P y), (out [bs] y), (out S y); reflexivity.
           ++ apply Hmap'.
           ++ constructor; [right; apply Wb_; now left|]. constructor; [now left | exact Ht].
        -- unfold measure. cbn [a_start a_end b_start b_end]. lia.
    + (* already placed in the suffix: skip *)
      replace ((b_start s <? index) && (index <? b_end s)) with false
        by (symmetry; apply andb_false_iff; right; apply Nat.ltb_ge; lia).
      eexists. split; [reflexivity|]. split.
      * apply (mkInv _ (A0 ++ [as_]) Wa' A1 P (bs :: Wb') S); cbn [ch arr a_start a_end b_start b_end map_built touched];
          try assumption; try len.
        -- intros y Hy. apply Hincl. now right.
        -- rewrite Hch. cbn [filter]. replace (out (P ++ S) as_) with false; [reflexivity|].
           symmetry. apply out_false. rewrite in_app_iff. now right.
        -- apply Hmap'.
      * unfold measure. cbn [a_start a_end b_start b_end]. lia.
  - (* not in the map, hence not in b: remove it *)
    assert (Hab : ~ In as_ b).
    { intros H. destruct (Hmap as_ (or_introl eq_refl) H) as (i & Hi & Hn). exact (map_get_None _ _ _ Eget i Hi Hn). }
    assert (Ho : out (P ++ S) as_ = true).
    { apply out_true. rewrite in_app_iff. intros [H|H]; [exact (Hab (Pb _ H)) | exact (Hab (Sb _ H))]. }
    destruct (Hshape Ho) as [Ech Hnd2]. destruct (NoDup_mid _ _ _ Hnd2) as [HaL HaR].
    rewrite Ech, remove_child_mid by assumption.
    eexists. split; [reflexivity|]. split.
    + apply (mkInv _ (A0 ++ [as_]) Wa' A1 P (bs :: Wb') S); cbn [ch arr a_start a_end b_start b_end map_built touched];
        try assumption; try len.
      * intros y Hy. apply Hincl. now right.
      * lnorm. reflexivity.
      * apply Hmap'.
      * constructor; [now left | exact Ht].
    + unfold measure. cbn [a_start a_end b_start b_end]. lia.
Qed.

(* ------------------------------------------------------------------ *)
(* 7. one iteration, the loop, the routine                             *)

Lemma Inv_gets s : Inv s -> a_start s < a_end s -> b_start s < b_end s ->
  exists as_ bs ae be, get (arr s) (a_start s) = Some as_ /\ get b (b_start s) = Some bs /\
                       get (arr s) (a_end s - 1) = Some ae /\ get b (b_end s - 1) = Some be.
Proof.
  intros [A0 Wa A1 P Wb S Harr Has Hae Hbb Hbs Hbe HndW Hincl Hch Hmap Ht] Hlta Hltb.
  assert (Hla : length (arr s) = length A0 + length Wa + length A1) by (rewrite Harr; len).
  assert (Hlb : length b = length P + length Wb + length S) by (rewrite Hbb; len).
  unfold get.
  destruct (nth_error (arr s) (a_start s)) as [as_|] eqn:E1; [|apply nth_error_None in E1; lia].
  destruct (nth_error b (b_start s)) as [bs|] eqn:E2; [|apply nth_error_None in E2; lia].
  destruct (nth_error (arr s) (a_end s - 1)) as [ae|] eqn:E3; [|apply nth_error_None in E3; lia].
  destruct (nth_error b (b_end s - 1)) as [be|] eqn:E4; [|apply nth_error_None in E4; lia].
  now exists as_, bs, ae, be.
Qed.

Lemma Inv_bounds s : Inv s -> a_start s <= a_end s /\ b_start s <= b_end s.
Proof. intros [A0 Wa A1 P Wb S Harr Has Hae Hbb Hbs Hbe _ _ _ _ _]. lia. Qed.

Lemma step_body s :
  Inv s -> a_start s < a_end s \/ b_start s < b_end s ->
  exists s', (forall k, body b after k s = k s') /\ Inv s' /\ measure s' < measure s.
Proof.
  intros HI Hg. destruct (Inv_bounds s HI) as [Hba Hbb]. unfold body. rewrite (guard_true s Hg).
  destruct (Nat.eqb_spec (a_end s) (a_start s)) as [Ea|Ea].
  { apply step_append; [exact HI | exact Ea | lia]. }
  destruct (Nat.eqb_spec (b_end s) (b_start s)) as [Eb|Eb].
  { apply step_remove; [exact HI | lia | exact Eb]. }
  assert (Hlta : a_start s < a_end s) by lia. assert (Hltb : b_start s < b_end s) by lia.
  destruct (Inv_gets s HI Hlta Hltb) as (as_ & bs & ae & be & G1 & G2 & G3 & G4).
  rewrite G1, G2, G3, G4.
  destruct (Nat.eqb_spec as_ bs) as [->|Hne1].
  { eexists. split; [reflexivity|]. split; [exact (step_prefix s bs HI Hlta Hltb G1 G2)|].
    unfold measure. cbn [a_start a_end b_start b_end]. lia. }
  destruct (Nat.eqb_spec ae be) as [->|Hne2].
  { eexists. split; [reflexivity|]. split; [exact (step_suffix s be HI Hlta Hltb G3 G4)|].
    unfold measure. cbn [a_start a_end b_start b_end]. lia. }
  destruct (Nat.eqb_spec as_ be) as [<-|Hne3]; cbn [andb].
  { destruct (Nat.eqb_spec bs ae) as [<-|Hne4].
    - exact (step_swap s as_ bs HI Hlta Hltb G1 G2 G3 G4 Hne1).
    - exact (step_fallback s as_ bs HI Hlta Hltb G1 G2 Hne1). }
  exact (step_fallback s as_ bs HI Hlta Hltb G1 G2 Hne1).
Qed.

(* at exit both windows are empty and the children are pre ++ b ++ post *)
Lemma Inv_exit s : Inv s -> ~ (a_start s < a_end s \/ b_start s < b_end s) ->
  ch s = pre ++ b ++ post /\ touched_ok (touched s).
Proof.
  intros [A0 Wa A1 P Wb S Harr Has Hae Hbb Hbs Hbe HndW Hincl Hch Hmap Ht] Hg.
  assert (Wa = []) as -> by (destruct Wa; [reflexivity | cbn [length] in *; lia]).
  assert (Wb = []) as -> by (destruct Wb; [reflexivity | cbn [length] in *; lia]).
  split; [|exact Ht]. rewrite Hch, Hbb. cbn [filter app]. lnorm. reflexivity.
Qed.

(* any fuel not below the measure suffices; the result is pre ++ b ++ post and only nodes of a or b are touched *)
Theorem loop_correct fuel : forall s,
  Inv s -> measure s <= fuel ->
  exists t, reconcile_loop b after fuel s = ROk (pre ++ b ++ post) t /\ touched_ok t.
Proof.
  induction fuel as [|f IH]; intros s HI Hm.
  - rewrite loop_O. destruct (Inv_bounds s HI) as [H1 H2]. unfold measure in Hm.
    assert (Hg : ~ (a_start s < a_end s \/ b_start s < b_end s)) by lia.
    replace (negb ((a_start s <? a_end s) || (b_start s <? b_end s))) with true.
    2:{ symmetry. apply negb_true_iff, orb_false_iff. split; apply Nat.ltb_ge; lia. }
    destruct (Inv_exit s HI Hg) as [E Ht]. exists (touched s). now rewrite E.
  - rewrite loop_S.
    destruct (Nat.lt_ge_cases (a_start s) (a_end s)) as [Hlt|Hge];
      [|destruct (Nat.lt_ge_cases (b_start s) (b_end s)) as [Hlt|Hge']].
    1,2: (destruct (step_body s HI) as (s' & Hk & HI' & Hdec); [tauto|]; rewrite Hk; apply IH; [exact HI' | lia]).
    assert (Hg : ~ (a_start s < a_end s \/ b_start s < b_end s)) by lia.
    unfold body. replace (negb ((a_start s <? a_end s) || (b_start s <? b_end s))) with true.
    2:{ symmetry. apply negb_true_iff, orb_false_iff. split; apply Nat.ltb_ge; lia. }
    destruct (Inv_exit s HI Hg) as [E Ht]. exists (touched s). now rewrite E.
Qed.

Lemma Inv_init : Inv (RSt (pre ++ a ++ post) a 0 (length a) 0 (length b) None []).
Proof.
  apply (mkInv _ [] a [] [] b []); cbn [ch arr a_start a_end b_start b_end map_built touched app length].
  - now rewrite app_nil_r.
  - reflexivity.
  - reflexivity.
  - now rewrite app_nil_r.
  - reflexivity.
  - reflexivity.
  - apply nd_a.
  - tauto.
  - now rewrite filter_out_nil.
  - intros x _ Hx. unfold cur_w. cbn [map_built b_start b_end fst snd].
    destruct (In_nth_error b x Hx) as [i Hi]. exists i. split; [|exact Hi].
    assert (i < length b) by (apply nth_error_Some; congruence). lia.
  - constructor.
Qed.

End Correct.

(* ------------------------------------------------------------------ *)
(* 8. main theorems                                                    *)

Lemma list_eqb_refl l : list_eqb l l = true.
Proof.
  unfold list_eqb. rewrite Nat.eqb_refl. cbn [andb].
  induction l as [|x l IH]; cbn [combine forallb fst snd]; [reflexivity|]. now rewrite Nat.eqb_refl, IH.
Qed.

Definition init_state (pre a b post : list nat) : rst :=
  RSt (pre ++ a ++ post) a 0 (length a) 0 (length b) None [].

Lemma reconcile_unfold children a b : a <> [] ->
  reconcile children a b
  = reconcile_loop b (match get a (length a - 1) with Some x => next_sibling children x | None => None end)
      (S (length a + length b)) (RSt children a 0 (length a) 0 (length b) None []).
Proof. destruct a; [contradiction | reflexivity]. Qed.

Lemma after_spec pre a post : a <> [] -> NoDup (pre ++ a ++ post) ->
  match get a (length a - 1) with Some x => next_sibling (pre ++ a ++ post) x | None => None end = hd_error post.
Proof.
  intros Ha Hnd. destruct (exists_last Ha) as (a' & z & ->).
  unfold get. replace (length (a' ++ [z]) - 1) with (length a') by (rewrite app_length; cbn [length]; lia).
  rewrite nth_error_mid.
  replace (pre ++ (a' ++ [z]) ++ post) with ((pre ++ a') ++ z :: post) in * by (now rewrite <- !app_assoc).
  apply next_sibling_mid. exact (proj1 (NoDup_mid _ _ _ Hnd)).
Qed.

(* Fuel: every amount of fuel >= |a| + |b| gives the same, correct, result (the model passes S (|a| + |b|)) *)
Theorem reconcile_loop_fuel : forall pre a b post fuel,
  NoDup (pre ++ a ++ post) -> NoDup b -> (forall x, In x b -> ~ In x pre /\ ~ In x post) ->
  length a + length b <= fuel ->
  exists t, reconcile_loop b (hd_error post) fuel (init_state pre a b post) = ROk (pre ++ b ++ post) t
            /\ Forall (fun x => In x a \/ In x b) t.
Proof.
  intros pre a b post fuel Hnd Hb Hdis Hf.
  apply (loop_correct pre a b post Hnd Hb Hdis fuel).
  - apply Inv_init; assumption.
  - unfold measure, init_state. cbn [a_start a_end b_start b_end]. lia.
Qed.

(* The routine: no DOM exception (no RErr), enough fuel (no RFuel), children = pre ++ b ++ post, and only
   nodes of a or b are touched *)
Theorem reconcile_spec : forall pre a b post,
  a <> [] -> NoDup (pre ++ a ++ post) -> NoDup b -> (forall x, In x b -> ~ In x pre /\ ~ In x post) ->
  exists t, reconcile (pre ++ a ++ post) a b = ROk (pre ++ b ++ post) t /\ Forall (fun x => In x a \/ In x b) t.
Proof.
  intros pre a b post Ha Hnd Hb Hdis.
  rewrite reconcile_unfold by exact Ha. rewrite after_spec by assumption.
  apply (reconcile_loop_fuel pre a b post); try assumption. lia.
Qed.

Theorem reconcile_correct : forall pre a b post,
  a <> [] -> NoDup (pre ++ a ++ post) -> NoDup b -> (forall x, In x b -> ~ In x pre /\ ~ In x post) ->
  reconcile_ok pre a b post = true.
Proof.
  intros pre a b post Ha Hnd Hb Hdis.
  destruct (reconcile_spec pre a b post Ha Hnd Hb Hdis) as (t & E & Ht).
  unfold reconcile_ok. rewrite E, list_eqb_refl. cbn [andb].
  apply forallb_forall. intros x Hx. rewrite Forall_forall in Ht.
  apply orb_true_iff. rewrite !memb_In. exact (Ht x Hx).
Qed.

(* The hypotheses say exactly: the child list before and the demanded child list after are duplicate-free *)
Theorem reconcile_correct_wf : forall pre a b post,
  a <> [] -> NoDup (pre ++ a ++ post) -> NoDup (pre ++ b ++ post) -> reconcile_ok pre a b post = true.
Proof.
  intros pre a b post Ha Hnd Hnd'. apply reconcile_correct; try assumption.
  - apply NoDup_app_iff in Hnd' as (_ & H & _). apply NoDup_app_iff in H. tauto.
  - intros x Hx. apply NoDup_app_iff in Hnd' as (_ & H & Hd). apply NoDup_app_iff in H as (_ & _ & Hd'). split.
    + intros Hp. apply (Hd x Hp). rewrite in_app_iff. now left.
    + exact (Hd' x Hx).
Qed.

(* the way Keyed / Indexed call the routine: the end marker is appended to both sequences, so a is never empty *)
Theorem reconcile_correct_marker : forall pre a0 b0 m post,
  NoDup (pre ++ (a0 ++ [m]) ++ post) -> NoDup (pre ++ (b0 ++ [m]) ++ post) ->
  reconcile_ok pre (a0 ++ [m]) (b0 ++ [m]) post = true.
Proof.
  intros pre a0 b0 m post H1 H2. apply reconcile_correct_wf; try assumption. now destruct a0.
Qed.

(* nodes of the old sequence that are not in the new one are detached afterwards *)
Theorem reconcile_detaches : forall pre a b post,
  a <> [] -> NoDup (pre ++ a ++ post) -> NoDup b -> (forall x, In x b -> ~ In x pre /\ ~ In x post) ->
  exists c t, reconcile (pre ++ a ++ post) a b = ROk c t /\
              (forall x, In x a -> ~ In x b -> ~ In x c) /\ (forall x, In x b -> In x c).
Proof.
  intros pre a b post Ha Hnd Hb Hdis.
  destruct (reconcile_spec pre a b post Ha Hnd Hb Hdis) as (t & E & _).
  exists (pre ++ b ++ post), t. split; [exact E|]. split.
  - intros x Hxa Hxb. rewrite !in_app_iff. intros [H|[H|H]].
    + exact (pre_a pre a post Hnd x H Hxa).
    + exact (Hxb H).
    + exact (a_post pre a post Hnd x Hxa H).
  - intros x Hx. rewrite !in_app_iff. tauto.
Qed.

Print Assumptions reconcile_loop_fuel.
Print Assumptions reconcile_spec.
Print Assumptions reconcile_correct.
Print Assumptions reconcile_correct_wf.
Print Assumptions reconcile_correct_marker.
Print Assumptions reconcile_detaches.

(* non-vacuity: an instance of the hypotheses exercising prefix, suffix, swap, the map, replace, append, remove *)
Example reconcile_correct_instance :
  let pre := [100; 101] in let post := [200] in
  let a := [1; 2; 3; 4; 5; 6; 7; 99] in let b := [1; 7; 11; 4; 3; 12; 13; 2; 99] in
  (a <> [] /\ NoDup (pre ++ a ++ post) /\ NoDup b /\ (forall x, In x b -> ~ In x pre /\ ~ In x post))
  /\ reconcile (pre ++ a ++ post) a b = ROk (pre ++ b ++ post) [13; 12; 3; 6; 5; 11; 3; 2; 7].
Proof.
  cbv zeta. split; [|vm_compute; reflexivity]. split; [discriminate|]. split; [|split].
  - repeat (constructor; [cbn [In app]; intuition discriminate|]). constructor.
  - repeat (constructor; [cbn [In app]; intuition discriminate|]). constructor.
  - cbn [In]. intros x Hx. split; intros Hp; intuition (subst; discriminate).
Qed.

(* Each hypothesis is needed. *)
(* a = []: the routine panics (debug_assert; a[a_end - 1] out of bounds in release) *)
Example reconcile_empty_a_refuted : reconcile_ok [1] [] [2] [3] = false /\ reconcile [1; 3] [] [2] = RErr.
Proof. vm_compute. split; reflexivity. Qed.
(* a node of b that is also a sibling outside the region: it is pulled into the region *)
Example reconcile_b_in_pre_refuted : reconcile_ok [1] [2] [1; 2] [3] = false /\ reconcile [1; 2; 3] [2] [1; 2] = ROk [1; 2; 3] [1].
Proof. vm_compute. split; reflexivity. Qed.
Example reconcile_b_in_post_refuted : reconcile_ok [1] [2] [3; 2] [3] = false /\ reconcile [1; 2; 3] [2] [3; 2] = ROk [1; 3; 2] [3].
Proof. vm_compute. split; reflexivity. Qed.
(* a duplicate in b: the result cannot contain the node twice *)
Example reconcile_dup_b_refuted : reconcile_ok [1] [2] [4; 4; 2] [3] = false /\ reconcile [1; 2; 3] [2] [4; 4; 2] = ROk [1; 4; 2; 3] [4; 4].
Proof. vm_compute. split; reflexivity. Qed.
