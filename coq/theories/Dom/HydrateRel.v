(* Dom/HydrateRel.v -- the invariant of the hydration walk: a relation between the layout of the view, the server DOM
   and the DOM at some point of the walk, indexed by the state of every keyed element (untouched / stamped / done) and,
   per child list, by how many of its hydrated text slots and marker slots have been adopted so far.
   Local lemmas: what [adopt_text], [adopt_marker], [append_kinds] do to one child list. *)
From Coq Require Import List String Ascii Bool Arith ZArith Lia.
From Syc Require Import Common.Show Common.ShowFacts Ssr.Html Ssr.View Dom.Hydrate Dom.HydrateSpec.
Import ListNotations.
Open Scope string_scope.
Open Scope list_scope.

Inductive est := Untouched | Stamped | Done.

Definition key_str (c : nat) : string := String.append "0." (show_nat c).

Lemma key_str_inj a b : key_str a = key_str b -> a = b.
Proof. unfold key_str. cbn [String.append]. intros H. inversion H. apply show_nat_inj. assumption. Qed.

(* the keys of a layout, in document order *)
Fixpoint keys_i (i : litem) : list nat :=
  match i with
  | LEl k ch => (match k with Some c => [c] | None => [] end) ++ flat_map keys_i ch
  | _ => []
  end.
Definition keys (l : list litem) : list nat := flat_map keys_i l.

(* hydrated slots at the top level of a child list *)
Fixpoint count_t (l : list litem) : nat :=
  match l with [] => 0 | LText true _ :: r => S (count_t r) | _ :: r => count_t r end.
Fixpoint count_m (l : list litem) : nat :=
  match l with [] => 0 | LMark true :: r => S (count_m r) | _ :: r => count_m r end.
(* the value of the n-th hydrated text slot *)
Fixpoint nth_t (n : nat) (l : list litem) : option string :=
  match l with
  | [] => None
  | LText true s :: r => match n with O => Some s | S n' => nth_t n' r end
  | _ :: r => nth_t n r
  end.

(* the node after a `t` comment and the value it stands for *)
Inductive slotval (fresh : nat) : hnode -> string -> Prop :=
| sv_text k s : k < fresh -> slotval fresh (HText k s) s
| sv_empty k : k < fresh -> slotval fresh (HCom k "") "".

Definition skippable (fresh : nat) (n : hnode) : Prop :=
  match n with
  | HText k _ => k < fresh
  | HCom k c => k < fresh /\ c = ""
  | HEl _ _ _ _ => False
  end.

(* attributes and adoption counters of the child list of an element, by its state *)
Definition el_ok (P : nat -> est) (key : option nat) (ch : list litem) (a0 a : list (string * string)) (nt nm : nat) : Prop :=
  has_stamp a0 = false /\
  match key with
  | None => hk_of a0 = None /\ a = a0 /\ nt = 0 /\ nm = 0
  | Some c =>
      hk_of a0 = Some (key_str c) /\
      match P c with
      | Untouched => a = a0 /\ nt = 0 /\ nm = 0
      | Stamped => a = a0 ++ [stamp_attr] /\ nt = 0 /\ nm = 0
      | Done => a = a0 ++ [stamp_attr] /\ nt = count_t ch /\ nm = count_m ch
      end
  end.

Section Rel.
Variable fresh : nat.
Variable P : nat -> est.

(* [rel nt nm its hs0 hs]: [hs0] is the server child list described by the layout [its]; [hs] is the same list after
   the first [nt] hydrated text slots and the first [nm] hydrated marker slots have been adopted *)
Inductive rel : nat -> nat -> list litem -> list hnode -> list hnode -> Prop :=
| R_nil nt nm : rel nt nm [] [] []
| R_skip nt nm n its hs0 hs : skippable fresh n -> rel nt nm its hs0 hs -> rel nt nm its (n :: hs0) (n :: hs)
| R_el nt nm key ch its id tag a0 a cs0 cs hs0 hs nt' nm' :
    id < fresh -> el_ok P key ch a0 a nt' nm' -> rel nt' nm' ch cs0 cs -> rel nt nm its hs0 hs ->
    rel nt nm (LEl key ch :: its) (HEl id tag a0 cs0 :: hs0) (HEl id tag a cs :: hs)
| R_text_pending nt nm h s i x its hs0 hs :
    h = false \/ nt = 0 -> i < fresh -> slotval fresh x s -> rel nt nm its hs0 hs ->
    rel nt nm (LText h s :: its) (HCom i "t" :: x :: hs0) (HCom i "t" :: x :: hs)
| R_text_adopted nt nm s i x j its hs0 hs :
    i < fresh -> slotval fresh x s -> fresh <= j -> rel nt nm its hs0 hs ->
    rel (S nt) nm (LText true s :: its) (HCom i "t" :: x :: hs0) (HText j s :: hs)
| R_mark_pending nt nm h i its hs0 hs :
    h = false \/ nm = 0 -> i < fresh -> rel nt nm its hs0 hs ->
    rel nt nm (LMark h :: its) (HCom i "/" :: hs0) (HCom i "/" :: hs)
| R_mark_adopted nt nm i j its hs0 hs :
    i < fresh -> fresh <= j -> rel nt nm its hs0 hs ->
    rel nt (S nm) (LMark true :: its) (HCom i "/" :: hs0) (HCom j "#" :: hs).
End Rel.

(* ---- one adoption ---- *)
Lemma ok_texts_seen l : ok_texts true l = true -> forall n, nth_t n l = None.
Proof.
  induction l as [|x r IH]; intros H n; [reflexivity|].
  destruct x as [k ch|h s|h]; cbn [ok_texts nth_t] in *; try (apply IH; exact H).
  destruct h; [discriminate H|apply IH; exact H].
Qed.
Lemma ok_marks_seen l : ok_marks true l = true -> count_m l = 0.
Proof.
  induction l as [|x r IH]; intros H; [reflexivity|].
  destruct x as [k ch|h s|h]; cbn [ok_marks count_m] in *; try (apply IH; exact H).
  destruct h; [discriminate H|apply IH; exact H].
Qed.

Lemma skippable_not_com fresh n c : skippable fresh n -> c <> "" -> is_com c n = false.
Proof.
  destruct n as [id tag attrs ch|k s|k s]; cbn; intros H Hc; try reflexivity.
  destruct H as [_ H]. subst s. apply String.eqb_neq. intros E. apply Hc. symmetry. exact E.
Qed.

Lemma adopt_text_rel fresh P nt nm its hs0 hs : rel fresh P nt nm its hs0 hs ->
  forall s id, nth_t nt its = Some s -> ok_texts false its = true -> fresh <= id ->
  exists hs', adopt_text hs id s = HOk hs' /\ rel fresh P (S nt) nm its hs0 hs'.
Proof.
  induction 1 as [nt nm|nt nm n its hs0 hs Hn Hr IH|nt nm key ch its id tag a0 a cs0 cs hs0 hs nt' nm' Hid Hok Hc IHc Hr IH
                 |nt nm h s i x its hs0 hs Hh Hi Hx Hr IH|nt nm s i x j its hs0 hs Hi Hx Hj Hr IH
                 |nt nm h i its hs0 hs Hh Hi Hr IH|nt nm i j its hs0 hs Hi Hj Hr IH];
    intros s' id' Hnth Hokt Hfr.
  - discriminate Hnth.
  - destruct (IH _ _ Hnth Hokt Hfr) as [hs' [E R]]. exists (n :: hs'). split; [|constructor; assumption].
    cbn [adopt_text]. rewrite (skippable_not_com fresh n "t" Hn) by discriminate. rewrite E. reflexivity.
  - cbn [nth_t ok_texts] in *. destruct (IH _ _ Hnth Hokt Hfr) as [hs' [E R]].
    exists (HEl id tag a cs :: hs'). split; [cbn [adopt_text is_com]; rewrite E; reflexivity|].
    econstructor; eassumption.
  - destruct h.
    + destruct Hh as [Hh|Hh]; [discriminate Hh|]. subst nt. cbn [nth_t] in Hnth. inversion Hnth; subst s'.
      exists (HText id' s :: hs). split; [reflexivity|]. constructor; assumption.
    + cbn [nth_t ok_texts] in *. rewrite (ok_texts_seen _ Hokt) in Hnth. discriminate Hnth.
  - cbn [nth_t ok_texts negb andb] in *. destruct (IH _ _ Hnth Hokt Hfr) as [hs' [E R]].
    exists (HText j s :: hs'). split; [cbn [adopt_text is_com]; rewrite E; reflexivity|]. constructor; assumption.
  - cbn [nth_t ok_texts] in *. destruct (IH _ _ Hnth Hokt Hfr) as [hs' [E R]].
    exists (HCom i "/" :: hs'). split; [cbn [adopt_text]; change (is_com "t" (HCom i "/")) with false; cbv iota; rewrite E; reflexivity|].
    constructor; assumption.
  - cbn [nth_t ok_texts] in *. destruct (IH _ _ Hnth Hokt Hfr) as [hs' [E R]].
    exists (HCom j "#" :: hs'). split; [cbn [adopt_text]; change (is_com "t" (HCom j "#")) with false; cbv iota; rewrite E; reflexivity|].
    constructor; assumption.
Qed.

Lemma adopt_marker_rel fresh P nt nm its hs0 hs : rel fresh P nt nm its hs0 hs ->
  forall id, nm < count_m its -> ok_marks false its = true -> fresh <= id ->
  exists hs', adopt_marker hs id = HOk hs' /\ rel fresh P nt (S nm) its hs0 hs'.
Proof.
  induction 1 as [nt nm|nt nm n its hs0 hs Hn Hr IH|nt nm key ch its id tag a0 a cs0 cs hs0 hs nt' nm' Hid Hok Hc IHc Hr IH
                 |nt nm h s i x its hs0 hs Hh Hi Hx Hr IH|nt nm s i x j its hs0 hs Hi Hx Hj Hr IH
                 |nt nm h i its hs0 hs Hh Hi Hr IH|nt nm i j its hs0 hs Hi Hj Hr IH];
    intros id' Hcnt Hokm Hfr.
  - cbn in Hcnt. lia.
  - destruct (IH _ Hcnt Hokm Hfr) as [hs' [E R]]. exists (n :: hs'). split; [|constructor; assumption].
    cbn [adopt_marker]. rewrite (skippable_not_com fresh n "/" Hn) by discriminate. rewrite E. reflexivity.
  - cbn [count_m ok_marks] in *. destruct (IH _ Hcnt Hokm Hfr) as [hs' [E R]].
    exists (HEl id tag a cs :: hs'). split; [cbn [adopt_marker is_com]; rewrite E; reflexivity|].
    econstructor; eassumption.
  - assert (Hcnt' : nm < count_m its) by (destruct h; exact Hcnt).
    cbn [ok_marks] in Hokm. destruct (IH _ Hcnt' Hokm Hfr) as [hs' [E R]].
    exists (HCom i "t" :: x :: hs'). split.
    + cbn [adopt_marker]. change (is_com "/" (HCom i "t")) with false. cbv iota.
      inversion Hx; subst; cbn [adopt_marker is_com]; [rewrite E; reflexivity|].
      change (String.eqb "" "/") with false. cbv iota. rewrite E. reflexivity.
    + constructor; assumption.
  - cbn [count_m ok_marks] in *. destruct (IH _ Hcnt Hokm Hfr) as [hs' [E R]].
    exists (HText j s :: hs'). split; [cbn [adopt_marker is_com]; rewrite E; reflexivity|]. constructor; assumption.
  - destruct h.
    + destruct Hh as [Hh|Hh]; [discriminate Hh|]. subst nm.
      exists (HCom id' "#" :: hs). split; [reflexivity|]. constructor; assumption.
    + cbn [count_m ok_marks] in *. rewrite (ok_marks_seen _ Hokm) in Hcnt. lia.
  - cbn [count_m ok_marks negb andb] in *. assert (Hc' : nm < count_m its) by lia.
    destruct (IH _ Hc' Hokm Hfr) as [hs' [E R]].
    exists (HCom j "#" :: hs'). split; [cbn [adopt_marker]; change (is_com "/" (HCom j "#")) with false; cbv iota; rewrite E; reflexivity|].
    constructor; assumption.
Qed.

(* ---- the kinds of a child list against its layout ---- *)
Inductive kp := PEl | PText (s : string) | PMark.
Definition kproj1 (k : hkind) : list kp :=
  match k with KEl _ => [PEl] | KTextDyn _ s => [PText s] | KTextStatic => [] | KMarker _ => [PMark] end.
Definition kproj (ks : list hkind) : list kp := flat_map kproj1 ks.
Definition iproj1 (i : litem) : list kp :=
  match i with
  | LEl (Some _) _ => [PEl] | LEl None _ => []
  | LText true s => [PText s] | LText false _ => []
  | LMark true => [PMark] | LMark false => []
  end.
Definition iproj (its : list litem) : list kp := flat_map iproj1 its.
Definition kid_ge (fresh : nat) (k : hkind) : Prop :=
  match k with KTextDyn id _ | KMarker id => fresh <= id | _ => True end.

Fixpoint ptx (p : list kp) : nat := match p with [] => 0 | PText _ :: r => S (ptx r) | _ :: r => ptx r end.
Fixpoint pmk (p : list kp) : nat := match p with [] => 0 | PMark :: r => S (pmk r) | _ :: r => pmk r end.

Lemma ptx_app a b : ptx (a ++ b) = ptx a + ptx b.
Proof. induction a as [|x r IH]; [reflexivity|]. destruct x; cbn [app ptx]; rewrite IH; reflexivity. Qed.
Lemma pmk_app a b : pmk (a ++ b) = pmk a + pmk b.
Proof. induction a as [|x r IH]; [reflexivity|]. destruct x; cbn [app pmk]; rewrite IH; reflexivity. Qed.

Lemma ptx_iproj its : ptx (iproj its) = count_t its.
Proof.
  induction its as [|x r IH]; [reflexivity|]. unfold iproj in *. cbn [flat_map]. rewrite ptx_app, IH.
  destruct x as [[c|] ch|[|] s|[|]]; reflexivity.
Qed.
Lemma pmk_iproj its : pmk (iproj its) = count_m its.
Proof.
  induction its as [|x r IH]; [reflexivity|]. unfold iproj in *. cbn [flat_map]. rewrite pmk_app, IH.
  destruct x as [[c|] ch|[|] s|[|]]; reflexivity.
Qed.

Lemma nth_t_iproj its : forall p s q, iproj its = p ++ PText s :: q -> nth_t (ptx p) its = Some s.
Proof.
  induction its as [|x r IH]; intros p s q H.
  - destruct p; discriminate H.
  - unfold iproj in H. cbn [flat_map] in H. fold (iproj r) in H.
    destruct x as [[c|] ch|[|] s0|[|]]; cbn [iproj1 app] in H; cbn [nth_t];
      try (apply (IH p s q); exact H).
    + destruct p as [|e p]; cbn [app] in H; [discriminate H|]. inversion H; subst. cbn [ptx]. eapply IH. eassumption.
    + destruct p as [|e p]; cbn [app] in H.
      * inversion H; subst. reflexivity.
      * inversion H; subst. cbn [ptx]. eapply IH. eassumption.
    + destruct p as [|e p]; cbn [app] in H; [discriminate H|]. inversion H; subst. cbn [ptx]. eapply IH. eassumption.
Qed.

Lemma ok_slots_split its : ok_slots its = true -> ok_texts false its = true /\ ok_marks false its = true.
Proof. unfold ok_slots. intros H. apply andb_prop in H. exact H. Qed.

Lemma append_kinds_rel_gen fresh P its hs0 : ok_slots its = true ->
  forall ks p hs, iproj its = p ++ kproj ks -> Forall (kid_ge fresh) ks ->
  rel fresh P (ptx p) (pmk p) its hs0 hs ->
  exists hs', append_kinds hs ks = HOk hs' /\ rel fresh P (count_t its) (count_m its) its hs0 hs'.
Proof.
  intros Hok. destruct (ok_slots_split _ Hok) as [Hot Hom].
  induction ks as [|k r IH]; intros p hs Hp Hge Hr.
  - exists hs. split; [reflexivity|]. cbn [kproj flat_map] in Hp. rewrite app_nil_r in Hp.
    rewrite <- ptx_iproj, <- pmk_iproj, Hp. exact Hr.
  - inversion Hge as [|? ? Hk Hge']; subst. unfold kproj in Hp. cbn [flat_map] in Hp. fold (kproj r) in Hp.
    destruct k as [eid|id s| |id]; cbn [kproj1 app] in Hp; cbn [append_kinds append_kind].
    + apply (IH (p ++ [PEl]) hs); [rewrite <- app_assoc; exact Hp|exact Hge'|].
      rewrite ptx_app, pmk_app. cbn [ptx pmk]. rewrite !Nat.add_0_r. exact Hr.
    + destruct (adopt_text_rel _ _ _ _ _ _ _ Hr s id (nth_t_iproj _ _ _ _ Hp) Hot Hk) as [hs1 [E R]]. rewrite E.
      apply (IH (p ++ [PText s]) hs1); [rewrite <- app_assoc; exact Hp|exact Hge'|].
      rewrite ptx_app, pmk_app. cbn [ptx pmk]. rewrite Nat.add_0_r, Nat.add_1_r. exact R.
    + apply (IH p hs); assumption.
    + assert (Hc : pmk p < count_m its).
      { rewrite <- pmk_iproj, Hp, pmk_app. cbn [pmk]. lia. }
      destruct (adopt_marker_rel _ _ _ _ _ _ _ Hr id Hc Hom Hk) as [hs1 [E R]]. rewrite E.
      apply (IH (p ++ [PMark]) hs1); [rewrite <- app_assoc; exact Hp|exact Hge'|].
      rewrite ptx_app, pmk_app. cbn [ptx pmk]. rewrite Nat.add_0_r, Nat.add_1_r. exact R.
Qed.

Lemma append_kinds_rel fresh P its hs0 hs ks : ok_slots its = true -> iproj its = kproj ks -> Forall (kid_ge fresh) ks ->
  rel fresh P 0 0 its hs0 hs ->
  exists hs', append_kinds hs ks = HOk hs' /\ rel fresh P (count_t its) (count_m its) its hs0 hs'.
Proof. intros Hok Hp Hge Hr. exact (append_kinds_rel_gen fresh P its hs0 Hok ks [] hs Hp Hge Hr). Qed.
