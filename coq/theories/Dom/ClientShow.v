(* Dom/ClientShow.v -- evaluation entry point for the client correspondence: the structured node dump of dom-driver *)
From Coq Require Import List String ZArith.
From Syc Require Import Common.Show Ssr.Html Ssr.View Dom.Client.
Import ListNotations.
Open Scope string_scope.

Definition H := of_hex.
Definition cat (l : list string) : string := String.concat "" l.

Fixpoint dump (d : dnode) : list string :=
  match d with
  | DEl id tag attrs ch =>
      cat ["E"; show_nat id; ":"; to_hex tag; ":"; join "," (map (fun p => cat [to_hex (fst p); "="; to_hex (snd p)]) attrs)]
      :: flat_map dump ch ++ ["e"]
  | DText id s => [cat ["T"; show_nat id; ":"; to_hex s]]
  | DMark id => [cat ["C"; show_nat id; ":"]]
  end.
Definition dump_dom (l : list dnode) : string := join " " (flat_map dump l).

Definition run_client_dump (cases : list (vstate * view * list (sigid * (option string * bool * list Z)))) : string :=
  join (cat [nl; "=="; nl]) (map (fun '(st, v, ws) => lines (map dump_dom (run_client st v ws))) cases).
