(* Dom/HydrateWalk.v -- the invariant of [hyd]: building a hydratable view in hydrating mode, from a DOM related to the
   server DOM, succeeds; it turns exactly the elements keyed by the view from untouched to done and returns kinds that
   match the hydrated top-level slots of the view's layout. *)
From Coq Require Import List String Ascii Bool Arith ZArith Lia.
From Syc Require Import Common.Show Ssr.Html Ssr.View Dom.Hydrate Dom.HydrateSpec Dom.HydrateRel Dom.HydrateForest Dom.HydrateLay.
Import ListNotations.
Open Scope list_scope.

Definition mark (P : nat -> est) (lo hi : nat) : nat -> est :=
  fun k => if Nat.leb lo k && Nat.ltb k hi then Done else P k.

Lemma mark_in P lo hi k : lo <= k < hi -> mark P lo hi k = Done.
Proof. intros H. unfold mark. destruct (Nat.leb_spec lo k); [|lia]. destruct (Nat.ltb_spec k hi); [reflexivity|lia]. Qed.
Lemma mark_out P lo hi k : ~ (lo <= k < hi) -> mark P lo hi k = P k.
Proof. intros H. unfold mark. destruct (Nat.leb_spec lo k); [|reflexivity]. destruct (Nat.ltb_spec k hi); [lia|reflexivity]. Qed.

Lemma only_elements_app a b : only_elements (a ++ b) = only_elements a && only_elements b.
Proof. apply forallb_app. Qed.

Section Walk.
Variable fresh : nat.
Variable G : list litem.
Variable hs0 : list hnode.
Hypothesis NDk : NoDup (keys G).
Hypothesis NDi : NoDup (elids hs0).

Definition sub (its : list litem) : Prop := forall c ch, din (LEl (Some c) ch) its -> din (LEl (Some c) ch) G.
Definition untouched (P : nat -> est) (lo hi : nat) : Prop := forall k, lo <= k < hi -> P k = Untouched.

Definition post (P : nat -> est) (st : hstate) (its : list litem) (cnt' : nat) (e : bool)
           (r : hres (list hkind * hstate)) : Prop :=
  exists ks st', r = HOk (ks, st')
    /\ rel fresh (mark P (h_key st) cnt') 0 0 G hs0 (h_dom st')
    /\ h_key st' = cnt' /\ h_next st <= h_next st'
    /\ kproj ks = iproj its /\ Forall (kid_ge fresh) ks
    /\ (e = true -> only_elements ks = true).

Definition wspec (h : view -> hstate -> hres (list hkind * hstate)) (b : view -> nat -> list litem * nat)
           (Q E : view -> bool) : Prop :=
  forall v st P its cnt', Q v = true -> b v (h_key st) = (its, cnt') ->
    rel fresh P 0 0 G hs0 (h_dom st) -> sub its -> untouched P (h_key st) cnt' -> fresh <= h_next st ->
    post P st its cnt' (E v) (h v st).

Lemma sub_app_l a b : sub (a ++ b) -> sub a.
Proof. intros H c ch Hd. apply H. apply din_app_l. exact Hd. Qed.
Lemma sub_app_r a b : sub (a ++ b) -> sub b.
Proof. intros H c ch Hd. apply H. apply din_app_r. exact Hd. Qed.

Lemma walk_list h b Q E : wspec h b Q E -> (forall v c, kspec (b v c) c) ->
  forall vs st P its cnt', forallb Q vs = true -> lay_list_with b vs (h_key st) = (its, cnt') ->
    rel fresh P 0 0 G hs0 (h_dom st) -> sub its -> untouched P (h_key st) cnt' -> fresh <= h_next st ->
    post P st its cnt' (forallb E vs) (hyd_list_with h vs st).
Proof.
  intros Hw Hk. induction vs as [|v r IH]; intros st P its cnt' HQ HL HR Hsub HU Hfr.
  - cbn [lay_list_with] in HL. inversion HL; subst. exists [], st. cbn [hyd_list_with].
    split; [reflexivity|]. split.
    + eapply rel_ext; [exact HR|]. intros c _. symmetry. apply mark_out. lia.
    + split; [reflexivity|]. split; [lia|]. split; [reflexivity|]. split; [constructor|]. intros _. reflexivity.
  - cbn [forallb] in HQ. apply andb_prop in HQ. destruct HQ as [HQv HQr].
    cbn [lay_list_with] in HL. pose proof (Hk v (h_key st)) as K1. destruct (b v (h_key st)) as [a c1] eqn:E1.
    pose proof (lay_list_kspec b Hk r c1) as K2. destruct (lay_list_with b r c1) as [bs c2] eqn:E2.
    inversion HL; subst its cnt'. destruct K1 as [L1 _]. destruct K2 as [L2 _]. cbn [fst snd] in *.
    destruct (Hw v st P a c1 HQv E1 HR (sub_app_l _ _ Hsub)) as [k1 [st1 [Eh [R1 [Hk1 [Hn1 [Hp1 [Hg1 He1]]]]]]]];
      [intros k Hkk; apply HU; lia|exact Hfr|].
    subst c1.
    destruct (IH st1 (mark P (h_key st) (h_key st1)) bs c2 HQr E2 R1 (sub_app_r _ _ Hsub))
      as [k2 [st2 [Eh2 [R2 [Hk2 [Hn2 [Hp2 [Hg2 He2]]]]]]]].
    + intros k Hkk. rewrite mark_out by lia. apply HU. lia.
    + lia.
    + exists (k1 ++ k2), st2. cbn [hyd_list_with]. rewrite Eh, Eh2. split; [reflexivity|]. split.
      * eapply rel_ext; [exact R2|]. intros c _. unfold mark.
        destruct (Nat.leb_spec (h_key st1) c); destruct (Nat.ltb_spec c c2); destruct (Nat.leb_spec (h_key st) c);
          destruct (Nat.ltb_spec c (h_key st1)); cbn [andb]; try reflexivity; lia.
      * split; [exact Hk2|]. split; [lia|]. split; [rewrite kproj_app, iproj_app, Hp1, Hp2; reflexivity|].
        split; [apply Forall_app; split; assumption|].
        cbn [forallb]. intros He. apply andb_prop in He. destruct He as [Hev Her].
        rewrite only_elements_app, (He1 Hev), (He2 Her). reflexivity.
Qed.

Lemma rel_mark_empty P k nt nm its hs : rel fresh P nt nm its hs0 hs -> rel fresh (mark P k k) nt nm its hs0 hs.
Proof. intros H. eapply rel_ext; [exact H|]. intros c _. symmetry. apply mark_out. lia. Qed.

(* a node that touches neither the DOM nor the key counter *)
Lemma post_leaf P st its ks n' e :
  rel fresh P 0 0 G hs0 (h_dom st) -> h_next st <= n' -> kproj ks = iproj its -> Forall (kid_ge fresh) ks ->
  (e = true -> only_elements ks = true) ->
  post P st its (h_key st) e (HOk (ks, HState (h_dom st) n' (h_key st))).
Proof.
  intros HR Hn Hp Hg He. exists ks, (HState (h_dom st) n' (h_key st)). cbn [h_dom h_key h_next].
  split; [reflexivity|]. split; [apply rel_mark_empty; exact HR|]. auto.
Qed.

(* two fresh markers around the kinds of a list *)
Lemma kproj_markers m1 m2 ks : kproj (KMarker m1 :: ks ++ [KMarker m2]) = PMark :: kproj ks ++ [PMark].
Proof. change (KMarker m1 :: ks ++ [KMarker m2]) with ([KMarker m1] ++ ks ++ [KMarker m2]). rewrite !kproj_app. reflexivity. Qed.
Lemma iproj_markers its : iproj (LMark true :: its ++ [LMark true]) = PMark :: iproj its ++ [PMark].
Proof. change (LMark true :: its ++ [LMark true]) with ([LMark true] ++ its ++ [LMark true]). rewrite !iproj_app. reflexivity. Qed.
Lemma sub_markers its : sub (LMark true :: its ++ [LMark true]) -> sub its.
Proof. intros H c ch Hd. apply H. apply din_next. apply din_app_l. exact Hd. Qed.
Lemma only_elements_markers m1 m2 ks : only_elements (KMarker m1 :: ks ++ [KMarker m2]) = false.
Proof. reflexivity. Qed.

(* an element: claim by key, stamp, build the children, adopt their nodes *)
Lemma walk_el (X : hstate -> hres (list hkind * hstate)) dom nx ky P chI cnt2 e0 :
  rel fresh P 0 0 G hs0 dom -> sub [LEl (Some ky) chI] -> untouched P ky cnt2 -> S ky <= cnt2 ->
  ok_slots chI = true ->
  (forall dom1, rel fresh (upd ky Stamped P) 0 0 G hs0 dom1 ->
                post (upd ky Stamped P) (HState dom1 nx (S ky)) chI cnt2 e0 (X (HState dom1 nx (S ky)))) ->
  post P (HState dom nx ky) [LEl (Some ky) chI] cnt2 true
    (match find_hk_list (key_str ky) dom with
     | None => HErr (HKeyNotFound (key_str ky))
     | Some eid =>
         match X (HState (map (stamp eid) dom) nx (S ky)) with
         | HOk (ks, st2) =>
             match with_children_list eid (fun cs => append_kinds cs ks) (h_dom st2) with
             | HOk dom' => HOk ([KEl eid], HState dom' (h_next st2) (h_key st2))
             | HErr e => HErr e
             end
         | HErr e => HErr e
         end
     end).
Proof.
  intros HR Hsub HU Hle Hok HX.
  assert (Hd : din (LEl (Some ky) chI) G) by (apply Hsub; apply din_here).
  pose proof (din_keys _ _ _ Hd) as Hin.
  rewrite (rel_find_same _ _ (key_str ky) _ _ _ _ _ HR).
  destruct (proj2 (rel_find_spec _ _ ky _ _ _ _ _ HR) Hin) as [eid [Ef Eid]]. rewrite Ef.
  assert (HPk : P ky = Untouched) by (apply HU; lia).
  pose proof (rel_stamp _ _ ky _ _ _ _ _ HR NDk NDi HPk Hin eid Ef) as R1.
  destruct (HX _ R1) as [ks [st2 [EX [R2 [Hk2 [Hn2 [Hp2 [Hg2 _]]]]]]]]. rewrite EX.
  cbn [h_key h_next h_dom] in *.
  set (P2 := mark (upd ky Stamped P) (S ky) cnt2) in *.
  assert (HP2 : P2 ky = Stamped) by (unfold P2; rewrite mark_out by lia; apply upd_same).
  assert (Had : adopts fresh P2 (fun cs => append_kinds cs ks) ky G).
  { intros ch cs0 cs Hd' Hr'. rewrite <- (din_unique _ _ _ _ NDk Hd Hd') in *.
    apply append_kinds_rel; [exact Hok|symmetry; exact Hp2|exact Hg2|exact Hr']. }
  destruct (rel_with_children _ _ _ _ _ _ _ _ R2 ky NDk NDi HP2 Hin Had eid Ef) as [dom' [Ew R3]]. rewrite Ew.
  exists [KEl eid], (HState dom' (h_next st2) (h_key st2)). cbn [h_key h_next h_dom].
  split; [reflexivity|]. split.
  - eapply rel_ext; [exact R3|]. intros c _.
    destruct (Nat.eq_dec c ky) as [->|Hne]; [rewrite upd_same, mark_in by lia; reflexivity|].
    rewrite upd_other by exact Hne. unfold P2.
    destruct (le_lt_dec (S ky) c) as [H1|H1]; [destruct (le_lt_dec cnt2 c) as [H2|H2]|].
    + rewrite !mark_out by lia. apply upd_other. exact Hne.
    + rewrite !mark_in by lia. reflexivity.
    + rewrite !mark_out by lia. apply upd_other. exact Hne.
  - split; [exact Hk2|]. split; [exact Hn2|]. split; [reflexivity|]. split; [repeat constructor|]. intros _. reflexivity.
Qed.

(* a dynamic view: two markers allocated first, then the branch *)
Lemma post_dyn P dom nx ky its cnt' e r : fresh <= nx ->
  post P (HState dom (S (S nx)) ky) its cnt' e r ->
  post P (HState dom nx ky) (LMark true :: its ++ [LMark true]) cnt' false
    (match r with HOk (ks, st1) => HOk (KMarker nx :: ks ++ [KMarker (S nx)], st1) | HErr e => HErr e end).
Proof.
  intros Hfr [ks [st1 [Er [R [Hk [Hn [Hp [Hg _]]]]]]]]. subst r. cbn [h_key h_next h_dom] in *.
  exists (KMarker nx :: ks ++ [KMarker (S nx)]), st1. cbn [h_key h_next h_dom].
  split; [reflexivity|]. split; [exact R|]. split; [exact Hk|]. split; [lia|].
  split; [rewrite kproj_markers, iproj_markers, Hp; reflexivity|]. split; [|intros E; discriminate E].
  constructor; [exact Hfr|]. apply Forall_app. split; [exact Hg|]. constructor; [cbn; lia|constructor].
Qed.

(* Show: the children first (elements only), then two markers *)
Lemma post_show P dom nx ky ch cnt' r (b : bool) : fresh <= nx ->
  post P (HState dom nx ky) ch cnt' true r ->
  post P (HState dom nx ky) (LMark true :: (if b then ch else []) ++ [LMark true]) cnt' false
    (match r with
     | HOk (ks, st1) =>
         if only_elements ks
         then HOk (KMarker (h_next st1) :: (if b then ks else []) ++ [KMarker (S (h_next st1))],
                   HState (h_dom st1) (S (S (h_next st1))) (h_key st1))
         else HErr HUnsupported
     | HErr e => HErr e
     end).
Proof.
  intros Hfr [ks [st1 [Er [R [Hk [Hn [Hp [Hg He]]]]]]]]. subst r. cbn [h_key h_next h_dom] in *.
  rewrite (He eq_refl).
  eexists. eexists. cbn [h_key h_next h_dom]. split; [reflexivity|]. cbn [h_key h_next h_dom].
  split; [exact R|]. split; [exact Hk|]. split; [lia|].
  split; [rewrite kproj_markers, iproj_markers; destruct b; [rewrite Hp|]; reflexivity|]. split; [|intros E; discriminate E].
  constructor; [cbn; lia|]. apply Forall_app. split; [destruct b; [exact Hg|constructor]|]. constructor; [cbn; lia|constructor].
Qed.

Lemma sub_nokeys its : keys its = [] -> sub its.
Proof. intros H c ch Hd. apply din_keys in Hd. rewrite H in Hd. destruct Hd. Qed.

Theorem hyd_walk vst item f : wspec (hyd f vst item) (lay f vst true) (hydratable_in f vst true) (only_el_view f).
Proof.
  induction f as [|f IH]; intros v [dom nx ky] P its cnt' HQ HL HR Hsub HU Hfr; [discriminate HQ|]. cbn [h_dom h_next h_key] in *.
  pose proof (walk_list _ _ _ _ IH (lay_kspec f vst true)) as WL.
  destruct v as [tag attrs children|s|k|k a b|vs|k vs|kd k tmpl| |vs|vs|vs]; cbn [hydratable_in] in HQ; cbn [lay] in HL; cbn [hyd];
    cbn [h_dom h_next h_key].
  - (* element *)
    apply andb_prop in HQ. destruct HQ as [_ HQ].
    pose proof (lay_list_kspec _ (lay_kspec f vst true) children (S ky)) as [Kle _].
    destruct (lay_list_with (lay f vst true) children (S ky)) as [chl cnt2] eqn:EL. inversion HL; subst its cnt'. cbn [snd] in Kle.
    refine (walk_el (fun s => if is_void tag then HOk ([], s) else hyd_list_with (hyd f vst item) children s)
                    dom nx ky P _ cnt2 (forallb (only_el_view f) children) HR Hsub HU Kle _ _).
    + destruct (is_void tag); [reflexivity|]. apply andb_prop in HQ. destruct HQ as [_ HQ]. cbn [negb orb] in HQ.
      rewrite (ok_slots_lay_list f vst true children 0 (S ky)) in HQ. rewrite EL in HQ. exact HQ.
    + intros dom1 R1. destruct (is_void tag).
      * destruct children; [|discriminate HQ]. cbn [lay_list_with] in EL. inversion EL; subst chl cnt2.
        apply (post_leaf (upd ky Stamped P) (HState dom1 nx (S ky))); [exact R1|cbn; lia|reflexivity|constructor|reflexivity].
      * apply andb_prop in HQ. destruct HQ as [HQ _].
        apply (WL children (HState dom1 nx (S ky)) (upd ky Stamped P) chl cnt2 HQ EL R1).
        -- intros c ch Hd. apply Hsub. apply din_child. exact Hd.
        -- intros c Hc. cbn [h_key] in Hc. rewrite upd_other by lia. apply HU. lia.
        -- exact Hfr.
  - (* static text *)
    inversion HL; subst its cnt'. apply (post_leaf P (HState dom nx ky)); [exact HR|cbn; lia|reflexivity|repeat constructor|intros E; discriminate E].
  - (* dynamic text *)
    inversion HL; subst its cnt'. apply (post_leaf P (HState dom nx ky)); [exact HR|cbn; lia|reflexivity| |intros E; discriminate E].
    constructor; [exact Hfr|constructor].
  - (* dynamic view *)
    destruct (lay_list_with (lay f vst true) (if get_bool vst k then a else b) ky) as [ch cnt1] eqn:EL. inversion HL; subst its cnt'.
    apply (post_dyn P dom nx ky ch cnt1 (forallb (only_el_view f) (if get_bool vst k then a else b))); [exact Hfr|].
    apply (WL _ (HState dom (S (S nx)) ky) P ch cnt1 HQ EL HR (sub_markers _ Hsub) HU). cbn. lia.
  - exact (WL vs (HState dom nx ky) P its cnt' HQ HL HR Hsub HU Hfr).
  - (* Show *)
    apply andb_prop in HQ. destruct HQ as [HQ1 HQ2]. cbn [negb orb] in HQ2. apply andb_prop in HQ2. destruct HQ2 as [HQ2 HQ3].
    pose proof (lay_list_kspec _ (lay_kspec f vst true) vs ky) as [_ Kg].
    pose proof (lay_list_nokeys f vst true vs ky) as NK.
    destruct (lay_list_with (lay f vst true) vs ky) as [ch cnt1] eqn:EL. inversion HL; subst its cnt'. cbn [fst snd] in *.
    apply post_show; [exact Hfr|].
    assert (Hs : sub ch).
    { destruct (get_bool vst k); [exact (sub_markers _ Hsub)|]. cbn [orb] in HQ3. rewrite (NK HQ3) in Kg.
      apply sub_nokeys. exact (kgood_empty _ _ Kg). }
    pose proof (WL vs (HState dom nx ky) P ch cnt1 HQ1 EL HR Hs HU Hfr) as W. rewrite HQ2 in W. exact W.
  - discriminate HQ.
  - (* list item text *)
    inversion HL; subst its cnt'. apply (post_leaf P (HState dom nx ky)); [exact HR|cbn; lia|reflexivity|repeat constructor|intros E; discriminate E].
  - exact (WL vs (HState dom nx ky) P its cnt' HQ HL HR Hsub HU Hfr).
  - (* NoHydrate *)
    destruct (lay_list_inert _ (lay_false f vst) vs ky) as [I1 [I2 I3]]. rewrite HL in I1, I2, I3. cbn [fst snd] in *. subst cnt'.
    apply (post_leaf P (HState dom nx ky)); [exact HR|cbn; lia|symmetry; exact I3|constructor|reflexivity].
  - discriminate HQ.
Qed.
End Walk.

(* the mount point: the forest itself is the child list that receives the top-level nodes *)
Lemma hydrate_rel_gen fresh vst v hs0 G cnt' f :
  hydratable_in f vst true v = true -> ok_slots G = true -> lay f vst true v 0 = (G, cnt') ->
  rel fresh (fun _ => Untouched) 0 0 G hs0 hs0 -> NoDup (elids hs0) ->
  exists d, match hyd f vst None v (HState hs0 fresh 0) with
            | HOk (ks, st) => append_kinds (h_dom st) ks
            | HErr e => HErr e
            end = HOk d
            /\ rel fresh (mark (fun _ => Untouched) 0 cnt') (count_t G) (count_m G) G hs0 d.
Proof.
  intros HQ Hok HL HR NDi.
  pose proof (lay_kspec f vst true v 0) as [_ Kg]. rewrite HL in Kg. cbn [fst snd] in Kg.
  pose proof (kgood_nodup _ _ _ Kg) as NDk.
  destruct (hyd_walk fresh G hs0 NDk NDi vst None f v (HState hs0 fresh 0) (fun _ => Untouched) G cnt' HQ HL HR)
    as [ks [st' [Eh [R [Hk [Hn [Hp [Hg _]]]]]]]].
  - intros c ch Hd. exact Hd.
  - intros k _. reflexivity.
  - cbn [h_next]. lia.
  - rewrite Eh. cbn [h_key] in R.
    exact (append_kinds_rel fresh _ G hs0 (h_dom st') ks Hok (eq_sym Hp) Hg R).
Qed.

