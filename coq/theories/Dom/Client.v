(* Dom/Client.v -- model of the client back end of sycamore-web (dom_node.rs `_create_dynamic_view`,
   elements.rs, components.rs Show / NoSsr / NoHydrate, iter.rs Keyed / Indexed) for the view vocabulary of
   Ssr/View.v: the DOM under the mount point as an *instance tree* that mirrors the view and carries node
   identities, `create` (a fresh client render), `update` (what one signal write does in place: dynamic text and
   attributes are patched, a dynamic view whose input was written is re-rendered between its markers, Show
   inserts / removes its children, Keyed keeps the nodes of retained keys, Indexed those of positions whose
   value is unchanged) and `dom_of` (the child list of the mount point in document order).
   The model is the intended semantics: it agrees with the real code on views whose Show / list-item children
   have no self-updating region at their top level (known findings F9, F15 are exactly the views where the real
   code departs from it). Definitions only. *)
From Coq Require Import List String Ascii Bool Arith ZArith.
From Syc Require Import Common.Show Ssr.Html Ssr.View.
Import ListNotations.
Open Scope string_scope.
Open Scope list_scope.

Inductive sigid := CS (k : nat) | CB (k : nat) | CL (k : nat).
Definition sigid_eqb (a b : sigid) : bool :=
  match a, b with
  | CS x, CS y | CB x, CB y | CL x, CL y => Nat.eqb x y
  | _, _ => false
  end.

Inductive inst :=
| IEl (id : nat) (tag : string) (attrs : list (string * string)) (children : list inst)
| IText (id : nat) (s : string)                           (* static text, dynamic text, list item text *)
| IDyn (m1 m2 : nat) (content : list inst)                (* dynamic view between two markers *)
| IShow (m1 m2 : nat) (visible : bool) (content : list inst)
| IList (m1 m2 : nat) (items : list (Z * list inst))
| IGroup (content : list inst).                           (* fragment, component, NoHydrate, NoSsr *)

(* attributes as the DOM holds them: string attributes that are present, boolean attributes that are true (empty value) *)
Definition cattrs (st : vstate) (l : list attr) : list (string * string) :=
  flat_map (fun a => match a with
                     | AStr n v => [(n, v)]
                     | ADyn n k => match get_str st k with Some v => [(n, v)] | None => [] end
                     | _ => []
                     end) l
  ++ flat_map (fun a => match a with
                        | ABool n b => if b then [(n, "")] else []
                        | ABoolDyn n k => if get_bool st k then [(n, "")] else []
                        | _ => []
                        end) l.

Fixpoint create_list_with (c : view -> nat -> inst * nat) (vs : list view) (cnt : nat) : list inst * nat :=
  match vs with
  | [] => ([], cnt)
  | x :: r => let '(i, c1) := c x cnt in let '(is, c2) := create_list_with c r c1 in (i :: is, c2)
  end.

Definition item_text (item : option Z) : string := match item with Some z => show_Z z | None => "" end.

(* a fresh client render; [f] bounds the nesting depth of the view *)
Fixpoint create (f : nat) (st : vstate) (item : option Z) (v : view) (cnt : nat) {struct f} : inst * nat :=
  match f with
  | O => (IGroup [], cnt)
  | S f' =>
      let cl := create_list_with (create f' st item) in
      match v with
      | VEl tag attrs children =>
          let '(ch, c1) := if is_void tag then ([], S cnt) else cl children (S cnt) in
          (IEl cnt tag (cattrs st attrs) ch, c1)
      | VText s => (IText cnt s, S cnt)
      | VDynText k => (IText cnt (opt_str (get_str st k)), S cnt)
      | VDyn k a b =>
          let '(ch, c1) := cl (if get_bool st k then a else b) (S (S cnt)) in
          (IDyn cnt (S cnt) ch, c1)
      | VFrag vs | VComp vs | VNoHydrate vs | VNoSsr vs => let '(ch, c1) := cl vs cnt in (IGroup ch, c1)
      | VShow k vs =>
          let '(ch, c1) := cl vs (S (S cnt)) in
          (IShow cnt (S cnt) (get_bool st k) ch, c1)
      | VList _ k tmpl =>
          let '(items, c1) :=
            fold_left (fun '(acc, c) it =>
                         let '(is, c') := create_list_with (create f' st (Some it)) tmpl c in (acc ++ [(it, is)], c'))
                      (get_list st k) ([], S (S cnt)) in
          (IList cnt (S cnt) items, c1)
      | VItem => (IText cnt (item_text item), S cnt)
      end
  end.

Fixpoint update_list_with (u : view -> inst -> nat -> inst * nat) (c : view -> nat -> inst * nat)
         (vs : list view) (is : list inst) (cnt : nat) : list inst * nat :=
  match vs, is with
  | v :: vr, i :: ir => let '(i', c1) := u v i cnt in let '(r, c2) := update_list_with u c vr ir c1 in (i' :: r, c2)
  | v :: vr, [] => let '(i', c1) := c v cnt in let '(r, c2) := update_list_with u c vr [] c1 in (i' :: r, c2)
  | [], _ => ([], cnt)
  end.

Fixpoint find_item (key : Z) (items : list (Z * list inst)) : option (list inst) :=
  match items with
  | [] => None
  | (k, is) :: r => if Z.eqb k key then Some is else find_item key r
  end.

(* what the write of signal [w] (new state [st]) does to the instance of view [v] *)
Fixpoint update (f : nat) (st : vstate) (w : sigid) (item : option Z) (v : view) (i : inst) (cnt : nat) {struct f} : inst * nat :=
  match f with
  | O => (i, cnt)
  | S f' =>
      let ul := update_list_with (update f' st w item) (create f' st item) in
      match v, i with
      | VEl tag attrs children, IEl id _ _ ich =>
          let '(ch, c1) := if is_void tag then ([], cnt) else ul children ich cnt in
          (IEl id tag (cattrs st attrs) ch, c1)
      | VText _, IText _ _ => (i, cnt)
      | VItem, IText _ _ => (i, cnt)
      | VDynText k, IText id _ => (IText id (opt_str (get_str st k)), cnt)
      | VDyn k a b, IDyn m1 m2 ich =>
          let branch := if get_bool st k then a else b in
          if sigid_eqb w (CB k) then
            let '(ch, c1) := create_list_with (create f' st item) branch cnt in (IDyn m1 m2 ch, c1)
          else
            let '(ch, c1) := ul branch ich cnt in (IDyn m1 m2 ch, c1)
      | VFrag vs, IGroup ich | VComp vs, IGroup ich | VNoHydrate vs, IGroup ich | VNoSsr vs, IGroup ich =>
          let '(ch, c1) := ul vs ich cnt in (IGroup ch, c1)
      | VShow k vs, IShow m1 m2 _ ich =>
          let '(ch, c1) := ul vs ich cnt in (IShow m1 m2 (get_bool st k) ch, c1)
      | VList keyed k tmpl, IList m1 m2 items =>
          let '(items', c1, _) :=
            fold_left (fun '(acc, c, pos) it =>
                         let old := if keyed then find_item it items
                                    else match nth_error items pos with
                                         | Some (it', is) => if Z.eqb it' it then Some is else None
                                         | None => None
                                         end in
                         let '(is', c') :=
                           match old with
                           | Some is => update_list_with (update f' st w (Some it)) (create f' st (Some it)) tmpl is c
                           | None => create_list_with (create f' st (Some it)) tmpl c
                           end in
                         (acc ++ [(it, is')], c', S pos))
                      (get_list st k) ([], cnt, 0) in
          (IList m1 m2 items', c1)
      | _, _ => create f' st item v cnt
      end
  end.

(* ---- the DOM: nodes in document order ---- *)
Inductive dnode := DEl (id : nat) (tag : string) (attrs : list (string * string)) (children : list dnode)
                 | DText (id : nat) (s : string) | DMark (id : nat).

Fixpoint dom_of (i : inst) : list dnode :=
  match i with
  | IEl id tag attrs ch => [DEl id tag attrs (flat_map dom_of ch)]
  | IText id s => [DText id s]
  | IDyn m1 m2 ch => DMark m1 :: flat_map dom_of ch ++ [DMark m2]
  | IShow m1 m2 vis ch => DMark m1 :: (if vis then flat_map dom_of ch else []) ++ [DMark m2]
  | IList m1 m2 items => DMark m1 :: flat_map (fun p => flat_map dom_of (snd p)) items ++ [DMark m2]
  | IGroup ch => flat_map dom_of ch
  end.

(* the same without identities: what "equals a fresh render" compares *)
Inductive pnode := PEl (tag : string) (attrs : list (string * string)) (children : list pnode) | PText (s : string) | PMark.
Fixpoint erase (d : dnode) : pnode :=
  match d with
  | DEl _ tag attrs ch => PEl tag attrs (map erase ch)
  | DText _ s => PText s
  | DMark _ => PMark
  end.

Fixpoint dnode_ids (d : dnode) : list nat :=
  match d with
  | DEl id _ _ ch => id :: flat_map dnode_ids ch
  | DText id _ => [id]
  | DMark id => [id]
  end.

(* ---- runs ---- *)
Definition client_fuel : nat := 64.
Definition apply_write (st : vstate) (w : sigid * (option string * bool * list Z)) : vstate :=
  let '(s, (os, b, l)) := w in
  match s with
  | CS k => VState ((k, os) :: strs st) (bools st) (lists st)
  | CB k => VState (strs st) ((k, b) :: bools st) (lists st)
  | CL k => VState (strs st) (bools st) ((k, l) :: lists st)
  end.

Definition run_client (st : vstate) (v : view) (ws : list (sigid * (option string * bool * list Z))) : list (list dnode) :=
  let '(i0, c0) := create client_fuel st None v 0 in
  let '(_, _, _, outs) :=
    fold_left (fun '(st, i, c, outs) w =>
                 let st' := apply_write st w in
                 let '(i', c') := update client_fuel st' (fst w) None v i c in
                 (st', i', c', outs ++ [dom_of i']))
              ws (st, i0, c0, [dom_of i0]) in
  outs.
