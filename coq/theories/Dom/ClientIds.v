(* Dom/ClientIds.v -- C05 "updated in place", part 1: node identities are handed out fresh and never duplicated.
   [inst_ids] lists every identity an instance holds (document order, including the content of a hidden Show);
   the identities of the DOM are a subsequence of it. [create] uses exactly identities in [cnt, cnt'), pairwise
   distinct; [update] keeps identities of the old instance or takes new ones in [cnt, cnt'), and the result is
   again duplicate-free provided the Keyed lists of the new state have no duplicate keys. *)
From Coq Require Import List String Ascii Bool Arith ZArith Lia.
From Syc Require Import Common.Show Ssr.Html Ssr.View Dom.Client Dom.ClientFacts.
Import ListNotations.
Open Scope list_scope.

Definition items_ids (ids : inst -> list nat) (items : list (Z * list inst)) : list nat :=
  flat_map (fun p => flat_map ids (snd p)) items.

Fixpoint inst_ids (i : inst) : list nat :=
  match i with
  | IEl id _ _ ch => id :: flat_map inst_ids ch
  | IText id _ => [id]
  | IDyn m1 m2 ch => m1 :: flat_map inst_ids ch ++ [m2]
  | IShow m1 m2 _ ch => m1 :: flat_map inst_ids ch ++ [m2]
  | IList m1 m2 items => m1 :: flat_map (fun p => flat_map inst_ids (snd p)) items ++ [m2]
  | IGroup ch => flat_map inst_ids ch
  end.

Definition dom_ids (l : list dnode) : list nat := flat_map dnode_ids l.

(* ---- subsequences ---- *)
Inductive subseq {A} : list A -> list A -> Prop :=
| ss_nil : subseq [] []
| ss_skip x a b : subseq a b -> subseq a (x :: b)
| ss_keep x a b : subseq a b -> subseq (x :: a) (x :: b).

Lemma subseq_refl {A} (l : list A) : subseq l l.
Proof. induction l; constructor; assumption. Qed.
Lemma subseq_nil_l {A} (l : list A) : subseq [] l.
Proof. induction l; constructor; assumption. Qed.
Lemma subseq_app {A} (a a' b b' : list A) : subseq a a' -> subseq b b' -> subseq (a ++ b) (a' ++ b').
Proof. induction 1 as [|x a a' Ha IH|x a a' Ha IH]; intros Hb; cbn [app]; [exact Hb|constructor; exact (IH Hb)|constructor; exact (IH Hb)]. Qed.
Lemma subseq_In {A} (a b : list A) x : subseq a b -> In x a -> In x b.
Proof. induction 1; cbn; intros Hx; [exact Hx|right; auto|destruct Hx; [left; assumption|right; auto]]. Qed.
Lemma subseq_NoDup {A} (a b : list A) : subseq a b -> NoDup b -> NoDup a.
Proof.
  induction 1 as [|x a b Hs IH|x a b Hs IH]; intros Hn; [exact Hn| |]; inversion Hn as [|? ? Hx Hb]; subst.
  - exact (IH Hb).
  - constructor; [|exact (IH Hb)]. intros Hin. apply Hx. eapply subseq_In; eassumption.
Qed.
Lemma subseq_trans {A} (a b c : list A) : subseq a b -> subseq b c -> subseq a c.
Proof.
  intros Hab Hbc. revert a Hab. induction Hbc as [|x b c Hs IH|x b c Hs IH]; intros a Hab.
  - exact Hab.
  - constructor. exact (IH a Hab).
  - inversion Hab; subst; [constructor; apply IH; assumption|constructor; apply IH; assumption].
Qed.
Lemma subseq_flat_map {A B} (f g : A -> list B) l : Forall (fun x => subseq (f x) (g x)) l -> subseq (flat_map f l) (flat_map g l).
Proof. induction 1 as [|x r Hx _ IH]; cbn; [constructor|apply subseq_app; assumption]. Qed.

Lemma dom_ids_app a b : dom_ids (a ++ b) = dom_ids a ++ dom_ids b.
Proof. apply flat_map_app. Qed.

Lemma dom_ids_flat {A} (g : A -> list dnode) l : dom_ids (flat_map g l) = flat_map (fun i => dom_ids (g i)) l.
Proof. induction l as [|x r IH]; cbn [flat_map]; [reflexivity|]. rewrite dom_ids_app, IH. reflexivity. Qed.

Lemma dom_ids_el id tag attrs ch : dom_ids [DEl id tag attrs ch] = id :: dom_ids ch.
Proof. unfold dom_ids. cbn [flat_map]. rewrite app_nil_r. reflexivity. Qed.
Lemma dom_ids_mark m l : dom_ids (DMark m :: l) = m :: dom_ids l.
Proof. reflexivity. Qed.
Lemma dom_ids_mark1 m : dom_ids [DMark m] = [m].
Proof. reflexivity. Qed.

(* the identities of the DOM are among those of the instance, in the same order *)
Lemma dom_ids_subseq i : subseq (dom_ids (dom_of i)) (inst_ids i).
Proof.
  induction i as [id tag attrs ch IH|id s|m1 m2 ch IH|m1 m2 b ch IH|m1 m2 items IH|ch IH] using inst_ind';
    cbn [dom_of inst_ids].
  - rewrite dom_ids_el. apply ss_keep. rewrite dom_ids_flat. apply subseq_flat_map. exact IH.
  - apply subseq_refl.
  - rewrite dom_ids_mark, dom_ids_app, dom_ids_mark1. apply ss_keep. apply subseq_app; [|apply subseq_refl].
    rewrite dom_ids_flat. apply subseq_flat_map. exact IH.
  - rewrite dom_ids_mark, dom_ids_app, dom_ids_mark1. apply ss_keep. apply subseq_app; [|apply subseq_refl].
    destruct b; [|apply subseq_nil_l].
    rewrite dom_ids_flat. apply subseq_flat_map. exact IH.
  - rewrite dom_ids_mark, dom_ids_app, dom_ids_mark1. apply ss_keep. apply subseq_app; [|apply subseq_refl].
    rewrite dom_ids_flat. apply subseq_flat_map.
    eapply Forall_impl; [|exact IH]. cbn beta. intros p Hp.
    rewrite dom_ids_flat. apply subseq_flat_map. exact Hp.
  - rewrite dom_ids_flat. apply subseq_flat_map. exact IH.
Qed.

(* ------------------------------------------------------------------------------------------------ *)
(* identity bookkeeping *)
From Coq Require Import Permutation.

Lemma NoDup_app_iff {A} (a b : list A) : NoDup (a ++ b) <-> NoDup a /\ NoDup b /\ (forall x, In x a -> In x b -> False).
Proof.
  induction a as [|y a IH]; cbn [app].
  - split; [intros H; repeat split; [constructor|exact H|intros x []]|intros (_ & H & _); exact H].
  - split.
    + intros H. inversion H as [|? ? Hy Hn]; subst. apply IH in Hn. destruct Hn as (Ha & Hb & Hd).
      repeat split; [constructor; [intros Hin; apply Hy, in_or_app; left; exact Hin|exact Ha]|exact Hb|].
      intros x [<-|Hx] Hxb; [apply Hy, in_or_app; right; exact Hxb|exact (Hd x Hx Hxb)].
    + intros (Ha & Hb & Hd). inversion Ha as [|? ? Hy Hn]; subst. constructor.
      * intros Hin. apply in_app_or in Hin. destruct Hin as [Hin|Hin]; [exact (Hy Hin)|exact (Hd y (or_introl eq_refl) Hin)].
      * apply IH. repeat split; [exact Hn|exact Hb|]. intros x Hx. apply Hd. right. exact Hx.
Qed.

(* [l] has no duplicates and consists of identities of [old] and of new ones in [lo, hi) *)
Definition upd_ok (old : list nat) (lo hi : nat) (l : list nat) : Prop :=
  NoDup l /\ Forall (fun x => In x old \/ lo <= x < hi) l.

(* [l] has no duplicates and consists of new identities in [lo, hi) *)
Definition fresh_ok (lo hi : nat) (l : list nat) : Prop := NoDup l /\ Forall (fun x => lo <= x < hi) l.

Lemma fresh_upd lo hi l : fresh_ok lo hi l <-> upd_ok [] lo hi l.
Proof.
  unfold fresh_ok, upd_ok. split; intros [Hn Hf]; (split; [exact Hn|]); eapply Forall_impl; try exact Hf; cbn beta.
  - intros x Hx. right. exact Hx.
  - intros x [[]|Hx]. exact Hx.
Qed.

Lemma upd_ok_nil old lo hi : upd_ok old lo hi [].
Proof. split; constructor. Qed.

Lemma upd_ok_weaken old old' lo lo' hi hi' l : incl old old' -> lo' <= lo -> hi <= hi' -> upd_ok old lo hi l -> upd_ok old' lo' hi' l.
Proof.
  intros Hi Hlo Hhi [Hn Hf]. split; [exact Hn|]. eapply Forall_impl; [|exact Hf]. cbn beta.
  intros x [Hx|Hx]; [left; apply Hi; exact Hx|right; lia].
Qed.

Lemma upd_ok_app o1 o2 lo mid hi a b :
  lo <= mid -> mid <= hi -> (forall x, In x o1 -> x < lo) -> (forall x, In x o2 -> x < lo) ->
  (forall x, In x o1 -> In x o2 -> False) ->
  upd_ok o1 lo mid a -> upd_ok o2 mid hi b -> upd_ok (o1 ++ o2) lo hi (a ++ b).
Proof.
  intros H1 H2 Ho1 Ho2 Hd [Hna Hfa] [Hnb Hfb]. split.
  - apply NoDup_app_iff. repeat split; [exact Hna|exact Hnb|]. intros x Hxa Hxb.
    rewrite Forall_forall in Hfa, Hfb. specialize (Hfa x Hxa). specialize (Hfb x Hxb).
    destruct Hfa as [Ha|Ha], Hfb as [Hb|Hb].
    + exact (Hd x Ha Hb).
    + specialize (Ho1 x Ha). lia.
    + specialize (Ho2 x Hb). lia.
    + lia.
  - apply Forall_app. split; (eapply Forall_impl; [|eassumption]); cbn beta.
    + intros x [Hx|Hx]; [left; apply in_or_app; left; exact Hx|right; lia].
    + intros x [Hx|Hx]; [left; apply in_or_app; right; exact Hx|right; lia].
Qed.

Lemma upd_ok_perm old lo hi l l' : Permutation l l' -> upd_ok old lo hi l -> upd_ok old lo hi l'.
Proof.
  intros Hp [Hn Hf]. split; [eapply Permutation_NoDup; eassumption|].
  rewrite Forall_forall in *. intros x Hx. apply Hf. eapply Permutation_in; [apply Permutation_sym; exact Hp|exact Hx].
Qed.

Lemma upd_ok_cons_old x old lo hi l : ~ In x old -> x < lo -> upd_ok old lo hi l -> upd_ok (x :: old) lo hi (x :: l).
Proof.
  intros Hx Hlo [Hn Hf]. split.
  - constructor; [|exact Hn]. intros Hin. rewrite Forall_forall in Hf. destruct (Hf x Hin) as [H|H]; [exact (Hx H)|lia].
  - constructor; [left; left; reflexivity|]. eapply Forall_impl; [|exact Hf]. cbn beta.
    intros y [Hy|Hy]; [left; right; exact Hy|right; exact Hy].
Qed.

Lemma upd_ok_marks m1 m2 old lo hi l :
  NoDup (m1 :: old ++ [m2]) -> m1 < lo -> m2 < lo -> upd_ok old lo hi l -> upd_ok (m1 :: old ++ [m2]) lo hi (m1 :: l ++ [m2]).
Proof.
  intros Hn H1 H2 Hu.
  assert (Hp : Permutation (m1 :: m2 :: old) (m1 :: old ++ [m2])).
  { constructor. apply Permutation_cons_append. }
  assert (Hn' : NoDup (m1 :: m2 :: old)).
  { eapply Permutation_NoDup; [apply Permutation_sym; exact Hp|exact Hn]. }
  inversion Hn' as [|? ? Hm1 Hn'']; subst. inversion Hn'' as [|? ? Hm2 _]; subst.
  eapply upd_ok_weaken with (old := m1 :: m2 :: old) (lo := lo) (hi := hi); [| lia | lia |].
  - intros x Hx. eapply Permutation_in; [exact Hp|exact Hx].
  - eapply upd_ok_perm with (l := m1 :: m2 :: l); [constructor; apply Permutation_cons_append|].
    apply upd_ok_cons_old; [exact Hm1|exact H1|]. apply upd_ok_cons_old; [exact Hm2|exact H2|exact Hu].
Qed.

Lemma fresh_ok_nil lo hi : fresh_ok lo hi [].
Proof. split; constructor. Qed.

Lemma fresh_ok_app lo mid hi a b : lo <= mid -> mid <= hi -> fresh_ok lo mid a -> fresh_ok mid hi b -> fresh_ok lo hi (a ++ b).
Proof.
  intros H1 H2 Ha Hb. apply fresh_upd. change (@nil nat) with (@nil nat ++ []).
  apply fresh_upd in Ha, Hb. eapply upd_ok_app; try eassumption; intros x [].
Qed.

Lemma fresh_ok_cons lo hi l : fresh_ok (S lo) hi l -> lo < hi -> fresh_ok lo hi (lo :: l).
Proof.
  intros [Hn Hf] Hlt. split.
  - constructor; [|exact Hn]. intros Hin. rewrite Forall_forall in Hf. specialize (Hf lo Hin). lia.
  - constructor; [lia|]. eapply Forall_impl; [|exact Hf]. cbn beta. intros x Hx. lia.
Qed.

Lemma fresh_ok_perm lo hi l l' : Permutation l l' -> fresh_ok lo hi l -> fresh_ok lo hi l'.
Proof. intros Hp H. apply fresh_upd. apply fresh_upd in H. eapply upd_ok_perm; eassumption. Qed.

Lemma fresh_ok_marks cnt hi l : fresh_ok (S (S cnt)) hi l -> S (S cnt) <= hi -> fresh_ok cnt hi (cnt :: l ++ [S cnt]).
Proof.
  intros H Hle. eapply fresh_ok_perm with (l := cnt :: S cnt :: l); [constructor; apply Permutation_cons_append|].
  apply fresh_ok_cons; [|lia]. apply fresh_ok_cons; [exact H|lia].
Qed.

Lemma fresh_ok_weaken lo lo' hi hi' l : lo' <= lo -> hi <= hi' -> fresh_ok lo hi l -> fresh_ok lo' hi' l.
Proof. intros H1 H2 [Hn Hf]. split; [exact Hn|]. eapply Forall_impl; [|exact Hf]. cbn beta. intros x Hx. lia. Qed.

(* ------------------------------------------------------------------------------------------------ *)
(* (a)+(b) for [create] *)
Definition cspec (c : view -> nat -> inst * nat) : Prop :=
  forall v cnt i c', c v cnt = (i, c') -> cnt <= c' /\ fresh_ok cnt c' (inst_ids i).

Lemma create_list_ids c : cspec c ->
  forall vs cnt is c', create_list_with c vs cnt = (is, c') -> cnt <= c' /\ fresh_ok cnt c' (flat_map inst_ids is).
Proof.
  intros Hc. induction vs as [|x r IH]; intros cnt is c' H; cbn [create_list_with] in H.
  - injection H as <- <-. split; [lia|apply fresh_ok_nil].
  - destruct (c x cnt) as [i c1] eqn:E1. destruct (create_list_with c r c1) as [is2 c2] eqn:E2. injection H as <- <-.
    destruct (Hc _ _ _ _ E1) as [L1 F1]. destruct (IH _ _ _ E2) as [L2 F2].
    split; [lia|]. cbn [flat_map]. eapply fresh_ok_app; eassumption.
Qed.

Lemma create_items_ids cl :
  (forall it cnt is c', cl it cnt = (is, c') -> cnt <= c' /\ fresh_ok cnt c' (flat_map inst_ids is)) ->
  forall l cnt items c', create_items cl l cnt = (items, c') -> cnt <= c' /\ fresh_ok cnt c' (items_ids inst_ids items).
Proof.
  intros Hc. induction l as [|it r IH]; intros cnt items c' H; cbn [create_items] in H.
  - injection H as <- <-. split; [lia|apply fresh_ok_nil].
  - destruct (cl it cnt) as [is c1] eqn:E1. destruct (create_items cl r c1) as [rest c2] eqn:E2. injection H as <- <-.
    destruct (Hc _ _ _ _ E1) as [L1 F1]. destruct (IH _ _ _ E2) as [L2 F2].
    split; [lia|]. unfold items_ids. cbn [flat_map snd]. eapply fresh_ok_app; eassumption.
Qed.

Theorem create_ids f : forall st item, cspec (create f st item).
Proof.
  induction f as [|f IH]; intros st item v cnt i c' H.
  - cbn [create] in H. injection H as <- <-. split; [lia|apply fresh_ok_nil].
  - pose proof (create_list_ids _ (IH st item)) as CL.
    destruct v as [tag attrs children|s|k|k a b|vs|k vs|kd k tmpl| |vs|vs|vs].
    + cbn [create] in H. destruct (is_void tag).
      * injection H as <- <-. split; [lia|]. cbn [inst_ids flat_map]. apply fresh_ok_cons; [apply fresh_ok_nil|lia].
      * destruct (create_list_with _ children (S cnt)) as [ch c1] eqn:E. injection H as <- <-.
        destruct (CL _ _ _ _ E) as [L F]. split; [lia|]. cbn [inst_ids]. apply fresh_ok_cons; [exact F|lia].
    + cbn [create] in H. injection H as <- <-. split; [lia|]. apply fresh_ok_cons; [apply fresh_ok_nil|lia].
    + cbn [create] in H. injection H as <- <-. split; [lia|]. apply fresh_ok_cons; [apply fresh_ok_nil|lia].
    + cbn [create] in H. destruct (create_list_with _ _ (S (S cnt))) as [ch c1] eqn:E. injection H as <- <-.
      destruct (CL _ _ _ _ E) as [L F]. split; [lia|]. cbn [inst_ids]. apply fresh_ok_marks; [exact F|lia].
    + cbn [create] in H. destruct (create_list_with _ _ cnt) as [ch c1] eqn:E. injection H as <- <-.
      exact (CL _ _ _ _ E).
    + cbn [create] in H. destruct (create_list_with _ _ (S (S cnt))) as [ch c1] eqn:E. injection H as <- <-.
      destruct (CL _ _ _ _ E) as [L F]. split; [lia|]. cbn [inst_ids]. apply fresh_ok_marks; [exact F|lia].
    + rewrite create_VList in H.
      destruct (create_items _ (get_list st k) (S (S cnt))) as [items c1] eqn:E. injection H as <- <-.
      pose proof (create_items_ids (fun it => create_list_with (create f st (Some it)) tmpl)) as CI. cbv beta in CI.
      destruct (CI (fun it c0 is0 c0' H0 => create_list_ids _ (IH st (Some it)) tmpl c0 is0 c0' H0) _ _ _ _ E) as [L F].
      split; [lia|]. cbn [inst_ids]. apply fresh_ok_marks; [exact F|lia].
    + cbn [create] in H. injection H as <- <-. split; [lia|]. apply fresh_ok_cons; [apply fresh_ok_nil|lia].
    + cbn [create] in H. destruct (create_list_with _ _ cnt) as [ch c1] eqn:E. injection H as <- <-.
      exact (CL _ _ _ _ E).
    + cbn [create] in H. destruct (create_list_with _ _ cnt) as [ch c1] eqn:E. injection H as <- <-.
      exact (CL _ _ _ _ E).
    + cbn [create] in H. destruct (create_list_with _ _ cnt) as [ch c1] eqn:E. injection H as <- <-.
      exact (CL _ _ _ _ E).
Qed.

(* ------------------------------------------------------------------------------------------------ *)
(* the Keyed lists a view reads, and "their keys are pairwise distinct in this state" *)
Fixpoint keyed_sigs (v : view) : list nat :=
  match v with
  | VEl _ _ ch => flat_map keyed_sigs ch
  | VDyn _ a b => flat_map keyed_sigs a ++ flat_map keyed_sigs b
  | VFrag vs | VComp vs | VNoHydrate vs | VNoSsr vs => flat_map keyed_sigs vs
  | VShow _ vs => flat_map keyed_sigs vs
  | VList kd k tmpl => (if kd then [k] else []) ++ flat_map keyed_sigs tmpl
  | VText _ | VDynText _ | VItem => []
  end.

Fixpoint nodupZ (l : list Z) : bool :=
  match l with [] => true | x :: r => negb (existsb (Z.eqb x) r) && nodupZ r end.

Definition keys_ok (st : vstate) (v : view) : bool := forallb (fun k => nodupZ (get_list st k)) (keyed_sigs v).

Lemma nodupZ_NoDup l : nodupZ l = true -> NoDup l.
Proof.
  induction l as [|x r IH]; cbn [nodupZ]; intros H; [constructor|].
  apply andb_prop in H. destruct H as [H1 H2]. constructor; [|exact (IH H2)].
  intros Hin. apply negb_true_iff in H1. assert (E : existsb (Z.eqb x) r = true).
  { apply existsb_exists. exists x. split; [exact Hin|apply Z.eqb_refl]. }
  rewrite E in H1. discriminate.
Qed.

Lemma keys_ok_list st vs : forallb (fun k => nodupZ (get_list st k)) (flat_map keyed_sigs vs) = true ->
  Forall (fun v => keys_ok st v = true) vs.
Proof.
  induction vs as [|x r IH]; cbn [flat_map]; intros H; [constructor|].
  rewrite forallb_app in H. apply andb_prop in H. destruct H as [H1 H2]. constructor; [exact H1|exact (IH H2)].
Qed.

(* ------------------------------------------------------------------------------------------------ *)
(* (a)+(b) for [update] *)
Definition uspec (Q : view -> Prop) (u : view -> inst -> nat -> inst * nat) : Prop :=
  forall v i cnt i' c', Q v -> NoDup (inst_ids i) -> Forall (fun x => x < cnt) (inst_ids i) -> u v i cnt = (i', c') ->
    cnt <= c' /\ upd_ok (inst_ids i) cnt c' (inst_ids i').

Lemma Forall_lt_weaken (l : list nat) a b : a <= b -> Forall (fun x => x < a) l -> Forall (fun x => x < b) l.
Proof. intros Hab H. eapply Forall_impl; [|exact H]. cbn beta. intros x Hx. lia. Qed.

Lemma update_list_ids Q u c : uspec Q u -> cspec c ->
  forall vs is cnt is' c', Forall Q vs -> NoDup (flat_map inst_ids is) -> Forall (fun x => x < cnt) (flat_map inst_ids is) ->
    update_list_with u c vs is cnt = (is', c') ->
    cnt <= c' /\ upd_ok (flat_map inst_ids is) cnt c' (flat_map inst_ids is').
Proof.
  intros Hu Hc. induction vs as [|x r IH]; intros is cnt is' c' HQ Hn Hlt H.
  - cbn [update_list_with] in H. injection H as <- <-. split; [lia|apply upd_ok_nil].
  - inversion HQ as [|? ? HQx HQr]; subst. destruct is as [|i ir]; cbn [update_list_with] in H.
    + destruct (c x cnt) as [i' c1] eqn:E1. destruct (update_list_with u c r [] c1) as [r' c2] eqn:E2. injection H as <- <-.
      destruct (Hc _ _ _ _ E1) as [L1 F1]. destruct (IH [] c1 _ _ HQr Hn (Forall_nil _) E2) as [L2 U2].
      split; [lia|]. cbn [flat_map]. change (@nil nat) with (@nil nat ++ []).
      apply fresh_upd in F1. eapply upd_ok_app; try eassumption; intros y [].
    + destruct (u x i cnt) as [i' c1] eqn:E1. destruct (update_list_with u c r ir c1) as [r' c2] eqn:E2. injection H as <- <-.
      cbn [flat_map] in Hn, Hlt. apply NoDup_app_iff in Hn. destruct Hn as (Hn1 & Hn2 & Hd).
      apply Forall_app in Hlt. destruct Hlt as [Hlt1 Hlt2].
      destruct (Hu _ _ _ _ _ HQx Hn1 Hlt1 E1) as [L1 U1].
      destruct (IH ir c1 _ _ HQr Hn2 (Forall_lt_weaken _ _ _ L1 Hlt2) E2) as [L2 U2].
      split; [lia|]. cbn [flat_map]. rewrite Forall_forall in Hlt1, Hlt2.
      eapply upd_ok_app; try eassumption.
Qed.

(* the identities of the old items that the new item list reuses *)
Definition oldsrc (keyed : bool) (items : list (Z * list inst)) (pos : nat) (it : Z) : list nat :=
  match old_item keyed items pos it with Some is => flat_map inst_ids is | None => [] end.

Fixpoint olds (keyed : bool) (items : list (Z * list inst)) (l : list Z) (pos : nat) : list nat :=
  match l with [] => [] | it :: r => oldsrc keyed items pos it ++ olds keyed items r (S pos) end.

Lemma olds_inv keyed items x : forall l p, In x (olds keyed items l p) ->
  exists it' q is', In it' l /\ p <= q /\ old_item keyed items q it' = Some is' /\ In x (flat_map inst_ids is').
Proof.
  induction l as [|it r IH]; intros p H; cbn [olds] in H; [destruct H|].
  apply in_app_or in H. destruct H as [H|H].
  - unfold oldsrc in H. destruct (old_item keyed items p it) as [is|] eqn:E; [|destruct H].
    exists it, p, is. repeat split; [left; reflexivity|lia|exact E|exact H].
  - destruct (IH _ H) as (it' & q & is' & H1 & H2 & H3 & H4). exists it', q, is'.
    repeat split; [right; exact H1|lia|exact H3|exact H4].
Qed.

Lemma NoDup_flat_map_nth {A B} (g : A -> list B) l : NoDup (flat_map g l) ->
  forall p q a b x, nth_error l p = Some a -> nth_error l q = Some b -> p <> q -> In x (g a) -> In x (g b) -> False.
Proof.
  induction l as [|y r IH]; intros Hn p q a b x Hp Hq Hpq Ha Hb; [destruct p; discriminate Hp|].
  cbn [flat_map] in Hn. apply NoDup_app_iff in Hn. destruct Hn as (_ & Hn2 & Hd).
  destruct p as [|p], q as [|q]; cbn [nth_error] in Hp, Hq.
  - contradiction.
  - injection Hp as ->. apply (Hd x Ha). apply in_flat_map. exists b. split; [eapply nth_error_In; exact Hq|exact Hb].
  - injection Hq as ->. apply (Hd x Hb). apply in_flat_map. exists a. split; [eapply nth_error_In; exact Hp|exact Ha].
  - eapply (IH Hn2 p q); eauto.
Qed.

Lemma NoDup_flat_map_In {A B} (g : A -> list B) l : NoDup (flat_map g l) ->
  forall a b x, In a l -> In b l -> a <> b -> In x (g a) -> In x (g b) -> False.
Proof.
  intros Hn a b x Ha Hb Hab Hxa Hxb. apply In_nth_error in Ha, Hb. destruct Ha as [p Hp], Hb as [q Hq].
  eapply (NoDup_flat_map_nth g l Hn p q); eauto. intros ->. rewrite Hp in Hq. injection Hq as ->. apply Hab. reflexivity.
Qed.

Lemma old_item_indexed items q it is : old_item false items q it = Some is -> nth_error items q = Some (it, is).
Proof.
  unfold old_item. destruct (nth_error items q) as [[it' x]|]; [|discriminate].
  destruct (Z.eqb it' it) eqn:E; [|discriminate]. intros H. injection H as ->. apply Z.eqb_eq in E. subst. reflexivity.
Qed.

Lemma oldsrc_olds_disjoint keyed items : NoDup (items_ids inst_ids items) ->
  forall it r pos x, (keyed = true -> ~ In it r) -> In x (oldsrc keyed items pos it) -> In x (olds keyed items r (S pos)) -> False.
Proof.
  intros Hn it r pos x Hk H1 H2. unfold oldsrc in H1.
  destruct (old_item keyed items pos it) as [is|] eqn:E; [|destruct H1].
  destruct (olds_inv _ _ _ _ _ H2) as (it' & q & is' & Hin & Hq & E' & Hx').
  destruct keyed.
  - apply (NoDup_flat_map_In (fun p => flat_map inst_ids (snd p)) items Hn (it, is) (it', is') x);
      [exact (old_item_In _ _ _ _ _ E)|exact (old_item_In _ _ _ _ _ E')| |exact H1|exact Hx'].
    intros Heq. injection Heq as -> _. exact (Hk eq_refl Hin).
  - apply old_item_indexed in E, E'.
    apply (NoDup_flat_map_nth (fun p => flat_map inst_ids (snd p)) items Hn pos q (it, is) (it', is') x);
      [exact E|exact E'|lia|exact H1|exact Hx'].
Qed.

Lemma olds_incl keyed items l p : incl (olds keyed items l p) (items_ids inst_ids items).
Proof.
  intros x H. destruct (olds_inv _ _ _ _ _ H) as (it' & q & is' & _ & _ & E & Hx).
  apply in_flat_map. exists (it', is'). split; [exact (old_item_In _ _ _ _ _ E)|exact Hx].
Qed.

Lemma upd_items_ids ul cl keyed items :
  (forall it is cnt is' c', NoDup (flat_map inst_ids is) -> Forall (fun x => x < cnt) (flat_map inst_ids is) ->
      ul it is cnt = (is', c') -> cnt <= c' /\ upd_ok (flat_map inst_ids is) cnt c' (flat_map inst_ids is')) ->
  (forall it cnt is c', cl it cnt = (is, c') -> cnt <= c' /\ fresh_ok cnt c' (flat_map inst_ids is)) ->
  NoDup (items_ids inst_ids items) ->
  forall l pos cnt items' c', (keyed = true -> NoDup l) -> Forall (fun x => x < cnt) (items_ids inst_ids items) ->
    upd_items ul cl keyed items l pos cnt = (items', c') ->
    cnt <= c' /\ upd_ok (olds keyed items l pos) cnt c' (items_ids inst_ids items').
Proof.
  intros Hu Hc Hn. induction l as [|it r IH]; intros pos cnt items' c' Hk Hlt H; cbn [upd_items] in H.
  - injection H as <- <-. split; [lia|apply upd_ok_nil].
  - destruct (match old_item keyed items pos it with Some is => ul it is cnt | None => cl it cnt end) as [is' c1] eqn:E1.
    destruct (upd_items ul cl keyed items r (S pos) c1) as [rest c2] eqn:E2. injection H as <- <-.
    assert (H1 : cnt <= c1 /\ upd_ok (oldsrc keyed items pos it) cnt c1 (flat_map inst_ids is')).
    { unfold oldsrc. destruct (old_item keyed items pos it) as [is|] eqn:Eo.
      - apply old_item_In in Eo.
        assert (Hsub : incl (flat_map inst_ids is) (items_ids inst_ids items)).
        { intros x Hx. apply in_flat_map. exists (it, is). split; [exact Eo|exact Hx]. }
        apply (Hu it is cnt is' c1); [| |exact E1].
        + apply In_nth_error in Eo. destruct Eo as [p Hp]. clear - Hn Hp. revert p Hp.
          induction items as [|e items IHi]; intros p Hp; [destruct p; discriminate|].
          unfold items_ids in Hn. cbn [flat_map] in Hn. apply NoDup_app_iff in Hn. destruct Hn as (Ha & Hb & _).
          destruct p as [|p]; cbn [nth_error] in Hp; [injection Hp as ->; exact Ha|exact (IHi Hb p Hp)].
        + rewrite Forall_forall in *. intros x Hx. apply Hlt, Hsub, Hx.
      - destruct (Hc _ _ _ _ E1) as [L F]. split; [exact L|apply fresh_upd; exact F]. }
    destruct H1 as [L1 U1].
    assert (Hk' : keyed = true -> NoDup r).
    { intros Hkd. specialize (Hk Hkd). inversion Hk; assumption. }
    destruct (IH (S pos) c1 _ _ Hk' (Forall_lt_weaken _ _ _ L1 Hlt) E2) as [L2 U2].
    split; [lia|]. cbn [olds]. unfold items_ids. cbn [flat_map snd].
    rewrite Forall_forall in Hlt.
    eapply upd_ok_app; try eassumption.
    + intros x Hx. apply Hlt. apply (olds_incl keyed items [it] pos). cbn [olds]. rewrite app_nil_r. exact Hx.
    + intros x Hx. apply Hlt. exact (olds_incl _ _ _ _ _ Hx).
    + intros x. apply oldsrc_olds_disjoint; [exact Hn|]. intros Hkd. specialize (Hk Hkd). inversion Hk; assumption.
Qed.

Lemma upd_ok_same l lo hi : NoDup l -> upd_ok l lo hi l.
Proof. intros Hn. split; [exact Hn|]. apply Forall_forall. intros x Hx. left. exact Hx. Qed.

Lemma marks_inv m1 m2 (O : list nat) cnt : NoDup (m1 :: O ++ [m2]) -> Forall (fun x => x < cnt) (m1 :: O ++ [m2]) ->
  NoDup O /\ Forall (fun x => x < cnt) O /\ m1 < cnt /\ m2 < cnt.
Proof.
  intros Hn Hlt. inversion Hn as [|? ? _ Hn']; subst. apply NoDup_app_iff in Hn'. destruct Hn' as (HO & _ & _).
  inversion Hlt as [|? ? H1 Hlt']; subst. apply Forall_app in Hlt'. destruct Hlt' as [HlO H2].
  inversion H2; subst. repeat split; assumption.
Qed.

Theorem update_ids f : forall st w item, uspec (fun v => keys_ok st v = true) (update f st w item).
Proof.
  induction f as [|f IH]; intros st w item v i cnt i' c' HQ Hn Hlt H.
  - cbn [update] in H. injection H as <- <-. split; [lia|apply upd_ok_same; exact Hn].
  - pose proof (update_list_ids _ _ _ (IH st w item) (create_ids f st item)) as UL.
    assert (CR : forall old v0 c0 i0 c0', create f st item v0 c0 = (i0, c0') -> c0 <= c0' /\ upd_ok old c0 c0' (inst_ids i0)).
    { intros old v0 c0 i0 c0' H0. destruct (create_ids f st item _ _ _ _ H0) as [L F]. split; [exact L|].
      apply fresh_upd in F. eapply upd_ok_weaken; [| | |exact F]; [intros x []|lia|lia]. }
    destruct v as [tag attrs children|s|k|k a b|vs|k vs|kd k tmpl| |vs|vs|vs];
      destruct i as [id tag' attrs' ich|id s'|m1 m2 ich|m1 m2 vis ich|m1 m2 items|ich];
      cbn [update] in H; try (exact (CR _ _ _ _ _ H)).
    + (* element *)
      cbn [inst_ids] in *. inversion Hn as [|? ? Hid Hn']; subst. inversion Hlt as [|? ? Hidlt Hlt']; subst.
      destruct (is_void tag).
      * injection H as <- <-. split; [lia|]. cbn [inst_ids flat_map].
        apply upd_ok_cons_old; [exact Hid|exact Hidlt|apply upd_ok_nil].
      * destruct (update_list_with _ _ children ich cnt) as [ch c1] eqn:E. injection H as <- <-.
        unfold keys_ok in HQ. cbn [keyed_sigs] in HQ. apply keys_ok_list in HQ.
        destruct (UL _ _ _ _ _ HQ Hn' Hlt' E) as [L U]. split; [exact L|]. cbn [inst_ids].
        apply upd_ok_cons_old; assumption.
    + injection H as <- <-. split; [lia|apply upd_ok_same; exact Hn].
    + injection H as <- <-. split; [lia|]. cbn [inst_ids] in *. apply upd_ok_same; exact Hn.
    + (* dynamic view *)
      cbn [inst_ids] in *. destruct (marks_inv _ _ _ _ Hn Hlt) as (HnO & HltO & Hm1 & Hm2).
      unfold keys_ok in HQ. cbn [keyed_sigs] in HQ. rewrite forallb_app in HQ. apply andb_prop in HQ.
      destruct HQ as [HQa HQb]. apply keys_ok_list in HQa, HQb.
      assert (HQ' : Forall (fun v => keys_ok st v = true) (if get_bool st k then a else b)).
      { destruct (get_bool st k); assumption. }
      destruct (sigid_eqb w (CB k)).
      * destruct (create_list_with _ _ cnt) as [ch c1] eqn:E. injection H as <- <-.
        destruct (create_list_ids _ (create_ids f st item) _ _ _ _ E) as [L F]. split; [exact L|]. cbn [inst_ids].
        apply upd_ok_marks; try assumption. apply fresh_upd in F.
        eapply upd_ok_weaken; [| | |exact F]; [intros x []|lia|lia].
      * destruct (update_list_with _ _ _ ich cnt) as [ch c1] eqn:E. injection H as <- <-.
        destruct (UL _ _ _ _ _ HQ' HnO HltO E) as [L U]. split; [exact L|]. cbn [inst_ids].
        apply upd_ok_marks; assumption.
    + (* fragment *)
      cbn [inst_ids] in *. destruct (update_list_with _ _ vs ich cnt) as [ch c1] eqn:E. injection H as <- <-.
      unfold keys_ok in HQ. cbn [keyed_sigs] in HQ. apply keys_ok_list in HQ.
      exact (UL _ _ _ _ _ HQ Hn Hlt E).
    + (* Show *)
      cbn [inst_ids] in *. destruct (marks_inv _ _ _ _ Hn Hlt) as (HnO & HltO & Hm1 & Hm2).
      destruct (update_list_with _ _ vs ich cnt) as [ch c1] eqn:E. injection H as <- <-.
      unfold keys_ok in HQ. cbn [keyed_sigs] in HQ. apply keys_ok_list in HQ.
      destruct (UL _ _ _ _ _ HQ HnO HltO E) as [L U]. split; [exact L|]. cbn [inst_ids].
      apply upd_ok_marks; assumption.
    + (* list *)
      change (update (S f) st w item (VList kd k tmpl) (IList m1 m2 items) cnt = (i', c')) in H.
      rewrite update_VList in H.
      cbn [inst_ids] in *. destruct (marks_inv _ _ _ _ Hn Hlt) as (HnO & HltO & Hm1 & Hm2).
      unfold keys_ok in HQ. cbn [keyed_sigs] in HQ. rewrite forallb_app in HQ. apply andb_prop in HQ.
      destruct HQ as [HQk HQt]. apply keys_ok_list in HQt.
      destruct (upd_items _ _ kd items (get_list st k) 0 cnt) as [items' c1] eqn:E. injection H as <- <-.
      assert (Hkd : kd = true -> NoDup (get_list st k)).
      { intros ->. cbn [forallb app] in HQk. apply andb_prop in HQk. apply nodupZ_NoDup. exact (proj1 HQk). }
      pose proof (upd_items_ids
                    (fun it => update_list_with (update f st w (Some it)) (create f st (Some it)) tmpl)
                    (fun it => create_list_with (create f st (Some it)) tmpl) kd items) as UI.
      cbv beta in UI.
      destruct (UI (fun it is c0 is0 c0' Hn0 Hlt0 H0 =>
                      update_list_ids _ _ _ (IH st w (Some it)) (create_ids f st (Some it)) tmpl is c0 is0 c0' HQt Hn0 Hlt0 H0)
                   (fun it c0 is0 c0' H0 => create_list_ids _ (create_ids f st (Some it)) tmpl c0 is0 c0' H0)
                   HnO (get_list st k) 0 cnt items' c1 Hkd HltO E) as [L U].
      split; [exact L|]. cbn [inst_ids].
      apply upd_ok_marks; try assumption.
      exact (upd_ok_weaken _ _ _ _ _ _ _ (olds_incl _ _ _ _) (le_n _) (le_n _) U).
    + injection H as <- <-. split; [lia|apply upd_ok_same; exact Hn].
    + cbn [inst_ids] in *. destruct (update_list_with _ _ vs ich cnt) as [ch c1] eqn:E. injection H as <- <-.
      unfold keys_ok in HQ. cbn [keyed_sigs] in HQ. apply keys_ok_list in HQ.
      exact (UL _ _ _ _ _ HQ Hn Hlt E).
    + cbn [inst_ids] in *. destruct (update_list_with _ _ vs ich cnt) as [ch c1] eqn:E. injection H as <- <-.
      unfold keys_ok in HQ. cbn [keyed_sigs] in HQ. apply keys_ok_list in HQ.
      exact (UL _ _ _ _ _ HQ Hn Hlt E).
    + cbn [inst_ids] in *. destruct (update_list_with _ _ vs ich cnt) as [ch c1] eqn:E. injection H as <- <-.
      unfold keys_ok in HQ. cbn [keyed_sigs] in HQ. apply keys_ok_list in HQ.
      exact (UL _ _ _ _ _ HQ Hn Hlt E).
Qed.

(* ------------------------------------------------------------------------------------------------ *)
(* runs *)
Definition ids_wf (i : inst) (c : nat) : Prop := NoDup (inst_ids i) /\ Forall (fun x => x < c) (inst_ids i).

Lemma create_wf f st item v cnt i c : create f st item v cnt = (i, c) -> ids_wf i c.
Proof.
  intros H. destruct (create_ids f st item v cnt i c H) as [_ [Hn Hf]]. split; [exact Hn|].
  eapply Forall_impl; [|exact Hf]. cbn beta. intros x Hx. lia.
Qed.

(* one step: the new identities are those of the old instance or fresh ones in [cnt, c') *)
Definition id_step (t t' : vstate * inst * nat) : Prop :=
  snd t <= snd t' /\ Forall (fun x => In x (inst_ids (snd (fst t))) \/ snd t <= x < snd t') (inst_ids (snd (fst t'))).

Lemma update_wf f st w item v i cnt i' c' : keys_ok st v = true -> ids_wf i cnt -> update f st w item v i cnt = (i', c') ->
  ids_wf i' c' /\ cnt <= c' /\ Forall (fun x => In x (inst_ids i) \/ cnt <= x < c') (inst_ids i').
Proof.
  intros HQ [Hn Hlt] H. destruct (update_ids f st w item v i cnt i' c' HQ Hn Hlt H) as [L [Hn' Hf']].
  split; [split; [exact Hn'|]|split; [exact L|exact Hf']].
  rewrite Forall_forall in *. intros x Hx. destruct (Hf' x Hx) as [Ho|Hr]; [specialize (Hlt x Ho); lia|lia].
Qed.

Fixpoint chain {A} (R : A -> A -> Prop) (l : list A) : Prop :=
  match l with
  | a :: r => match r with b :: _ => R a b | [] => True end /\ chain R r
  | [] => True
  end.

Lemma steps_ids f v : forall ws st i c, ids_wf i c -> Forall (fun s => keys_ok s v = true) (tl (states st ws)) ->
  Forall (fun t => ids_wf (snd (fst t)) (snd t)) (steps f v st i c ws) /\ chain id_step ((st, i, c) :: steps f v st i c ws).
Proof.
  induction ws as [|w r IH]; intros st i c Hwf Hk; cbn [steps]; [split; [constructor|cbn; auto]|].
  assert (Hk' : keys_ok (apply_write st w) v = true /\ Forall (fun s => keys_ok s v = true) (tl (states (apply_write st w) r))).
  { cbn [states tl] in Hk. destruct r; cbn [states tl] in *; inversion Hk; subst; split; assumption. }
  destruct Hk' as [Hk1 Hk2].
  destruct (update f (apply_write st w) (fst w) None v i c) as [i' c'] eqn:E.
  destruct (update_wf _ _ _ _ _ _ _ _ _ Hk1 Hwf E) as (Hwf' & L & Hf).
  destruct (IH (apply_write st w) i' c' Hwf' Hk2) as [H1 H2].
  split; [constructor; [exact Hwf'|exact H1]|]. cbn [chain]. split; [split; [exact L|exact Hf]|exact H2].
Qed.

(* T2 (a), (b) along a run: hypothesis = in every state reached by a write, the Keyed lists of the view have no duplicate key *)
Theorem trace_ids st v ws : Forall (fun s => keys_ok s v = true) (tl (states st ws)) ->
  Forall (fun t => ids_wf (snd (fst t)) (snd t)) (trace st v ws) /\ chain id_step (trace st v ws).
Proof.
  intros Hk. unfold trace, tracef. generalize client_fuel. intros f.
  destruct (create f st None v 0) as [i0 c0] eqn:E. pose proof (create_wf _ _ _ _ _ _ _ E) as H0.
  destruct (steps_ids f v ws st i0 c0 H0 Hk) as [H1 H2]. split; [constructor; [exact H0|exact H1]|exact H2].
Qed.

Corollary run_client_nodup st v ws : Forall (fun s => keys_ok s v = true) (tl (states st ws)) ->
  Forall (fun d => NoDup (dom_ids d)) (run_client st v ws).
Proof.
  intros Hk. rewrite run_client_trace. apply Forall_map. destruct (trace_ids st v ws Hk) as [H _].
  eapply Forall_impl; [|exact H]. cbn beta. intros t [Hn _]. eapply subseq_NoDup; [apply dom_ids_subseq|exact Hn].
Qed.

(* the hypothesis is needed: with a duplicate key the model reuses the nodes of the first match twice *)
Definition dup_view : view := VList true 0 [VEl "li" [] [VItem]].
Definition dup_st : vstate := VState [] [] [(0, [1%Z])].
Definition dup_ws : list cwrite := [(CL 0, (None, false, [1%Z; 1%Z]))].
Example dup_keys_refuted :
  map dom_ids (run_client dup_st dup_view dup_ws) = [[0; 2; 3; 1]; [0; 2; 3; 2; 3; 1]]
  /\ keys_ok (apply_write dup_st (CL 0, (None, false, [1%Z; 1%Z]))) dup_view = false.
Proof. vm_compute. split; reflexivity. Qed.
