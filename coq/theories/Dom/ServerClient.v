(* Dom/ServerClient.v -- C09, the static half: what the server renders and what a fresh client render builds agree.
   (1) the visible tree (elements with the attributes the DOM holds, text nodes; hydration keys, marker comments and
       the pair around a dynamic text dropped) is the same on both sides, for every view without NoSsr and every state;
   (2) the elements that carry a hydration key on the server are, in order, the elements the client creates outside
       NoHydrate, and the keys are consecutive from the initial counter -- so every server element is requested exactly
       once -- provided void elements have no children (the real renderer asserts this) and no Show that is off
       contains an element (known finding F10: the server drops them after counting them, the client creates them). *)
From Coq Require Import List String Ascii Bool Arith ZArith Lia.
From Syc Require Import Common.Show Ssr.Html Ssr.View Dom.Client Dom.ClientFacts.
Import ListNotations.
Open Scope list_scope.

(* ---- the visible tree ---- *)
Inductive vnode := NEl (tag : string) (attrs : list (string * string)) (children : list vnode) | NText (s : string).

Definition true_battrs (bs : list (string * bool)) : list (string * string) :=
  flat_map (fun p : string * bool => if snd p then [(fst p, EmptyString)] else []) bs.

Fixpoint vis_ssr (n : ssr) : list vnode :=
  match n with
  | SEl tag ss bs _ ch => [NEl tag (ss ++ true_battrs bs) (if is_void tag then [] else flat_map vis_ssr ch)]
  | STextDyn s | STextStatic s => [NText s]
  | SMarker => []
  | SDynamic vs => flat_map vis_ssr vs
  end.
Definition vis_server (l : list ssr) : list vnode := flat_map vis_ssr l.

Fixpoint vis_dnode (d : dnode) : list vnode :=
  match d with
  | DEl _ tag attrs ch => [NEl tag attrs (flat_map vis_dnode ch)]
  | DText _ s => [NText s]
  | DMark _ => []
  end.
Definition vis_client (l : list dnode) : list vnode := flat_map vis_dnode l.

Fixpoint vis_pnode (p : pnode) : list vnode :=
  match p with
  | PEl tag attrs ch => [NEl tag attrs (flat_map vis_pnode ch)]
  | PText s => [NText s]
  | PMark => []
  end.

Lemma vis_erase d : vis_pnode (erase d) = vis_dnode d.
Proof.
  induction d as [id tag attrs ch IH|id s|id] using dnode_ind'; try reflexivity.
  cbn [erase vis_pnode vis_dnode]. f_equal. f_equal. rewrite flat_map_map. apply flat_map_ext_Forall. exact IH.
Qed.

Lemma vis_client_erase l : vis_client l = flat_map vis_pnode (map erase l).
Proof. unfold vis_client. rewrite flat_map_map. apply flat_map_ext_Forall. apply Forall_forall. intros d _. symmetry. apply vis_erase. Qed.

(* the visible tree of an erased instance *)
Definition cvis (q : pinst) : list vnode := flat_map vis_pnode (pdom q).

Lemma flat_flat {A B C} (g : B -> list C) (f : A -> list B) l : flat_map g (flat_map f l) = flat_map (fun x => flat_map g (f x)) l.
Proof. induction l as [|x r IH]; cbn [flat_map]; [reflexivity|]. rewrite flat_map_app, IH. reflexivity. Qed.

Lemma cvis_list l : flat_map vis_pnode (flat_map pdom l) = flat_map cvis l.
Proof. apply flat_flat. Qed.

Lemma cvis_El tag attrs ch : cvis (QEl tag attrs ch) = [NEl tag attrs (flat_map cvis ch)].
Proof. unfold cvis at 1. cbn [pdom flat_map vis_pnode app]. rewrite cvis_list. reflexivity. Qed.
Lemma cvis_Text s : cvis (QText s) = [NText s].
Proof. reflexivity. Qed.
Lemma cvis_Dyn ch : cvis (QDyn ch) = flat_map cvis ch.
Proof.
  unfold cvis at 1. cbn [pdom flat_map vis_pnode app]. rewrite flat_map_app. cbn [flat_map vis_pnode app].
  rewrite app_nil_r. apply cvis_list.
Qed.
Lemma cvis_Show b ch : cvis (QShow b ch) = if b then flat_map cvis ch else [].
Proof.
  unfold cvis at 1. cbn [pdom flat_map vis_pnode app]. rewrite flat_map_app. cbn [flat_map vis_pnode app].
  rewrite app_nil_r. destruct b; [apply cvis_list|reflexivity].
Qed.
Lemma cvis_List items : cvis (QList items) = flat_map (fun p => flat_map cvis (snd p)) items.
Proof.
  unfold cvis at 1. cbn [pdom flat_map vis_pnode app]. rewrite flat_map_app. cbn [flat_map vis_pnode app].
  rewrite app_nil_r. rewrite flat_flat. apply flat_map_ext_Forall. apply Forall_forall. intros p _. apply cvis_list.
Qed.
Lemma cvis_Group ch : cvis (QGroup ch) = flat_map cvis ch.
Proof. unfold cvis at 1. cbn [pdom]. apply cvis_list. Qed.

Lemma vis_client_inst i : vis_client (dom_of i) = cvis (ierase i).
Proof. rewrite vis_client_erase, erase_dom. reflexivity. Qed.

(* ---- attributes ---- *)
Lemma build_attrs_cattrs st l : fst (build_attrs st l) ++ true_battrs (snd (build_attrs st l)) = cattrs st l.
Proof.
  unfold cattrs. f_equal.
  - induction l as [|a r IH]; [reflexivity|]. cbn [build_attrs fold_right flat_map].
    change (fold_right _ ([], []) r) with (build_attrs st r). destruct (build_attrs st r) as [ss bs]. cbn [fst] in IH.
    destruct a as [n v|n k|n b|n k]; cbn [fst app]; rewrite <- IH; try reflexivity.
    destruct (get_str st k); reflexivity.
  - induction l as [|a r IH]; [reflexivity|]. cbn [build_attrs fold_right flat_map].
    change (fold_right _ ([], []) r) with (build_attrs st r). destruct (build_attrs st r) as [ss bs]. cbn [snd] in IH.
    destruct a as [n v|n k|n b|n k]; cbn [snd app]; unfold true_battrs in *; cbn [flat_map fst snd]; rewrite <- IH; try reflexivity.
Qed.

(* ---- the server fold over list items ---- *)
Fixpoint build_items (bl : Z -> nat -> list ssr * nat) (l : list Z) (cnt : nat) : list ssr * nat :=
  match l with
  | [] => ([], cnt)
  | it :: r => let '(n, c1) := bl it cnt in let '(rest, c2) := build_items bl r c1 in (n ++ rest, c2)
  end.

Lemma build_fold_eq (bl : Z -> nat -> list ssr * nat) l : forall acc c,
  fold_left (fun '(acc, c) it => let '(n, c') := bl it c in (acc ++ n, c')) l (acc, c)
  = let '(r, c') := build_items bl l c in (acc ++ r, c').
Proof.
  induction l as [|it r IH]; intros acc c; cbn [fold_left build_items].
  - rewrite app_nil_r. reflexivity.
  - destruct (bl it c) as [n c1]. rewrite IH. destruct (build_items bl r c1) as [rest c2]. rewrite app_assoc. reflexivity.
Qed.

Lemma build_VList st f hyd sus item kd k tmpl cnt :
  build st (S f) hyd sus item (VList kd k tmpl) cnt
  = build_items (fun it => build_list_with (build st f hyd sus (Some it)) tmpl) (get_list st k) cnt.
Proof.
  cbn [build].
  pose proof (build_fold_eq (fun it => build_list_with (build st f hyd sus (Some it)) tmpl) (get_list st k) [] cnt) as E.
  cbv beta in E. rewrite E. destruct (build_items _ _ _) as [r c']. reflexivity.
Qed.

(* ---- views without NoSsr ---- *)
Fixpoint no_nossr (v : view) : bool :=
  match v with
  | VNoSsr _ => false
  | VEl _ _ ch => forallb no_nossr ch
  | VDyn _ a b => forallb no_nossr a && forallb no_nossr b
  | VFrag vs | VComp vs | VNoHydrate vs => forallb no_nossr vs
  | VShow _ vs => forallb no_nossr vs
  | VList _ _ tmpl => forallb no_nossr tmpl
  | VText _ | VDynText _ | VItem => true
  end.

Lemma vis_server_app a b : vis_server (a ++ b) = vis_server a ++ vis_server b.
Proof. apply flat_map_app. Qed.

Lemma build_list_vis (b : view -> nat -> list ssr * nat) (g : view -> list vnode) (Q : view -> bool) :
  (forall v cnt, Q v = true -> vis_server (fst (b v cnt)) = g v) ->
  forall vs cnt, forallb Q vs = true -> vis_server (fst (build_list_with b vs cnt)) = flat_map g vs.
Proof.
  intros Hb. induction vs as [|x r IH]; intros cnt HQ; cbn [build_list_with]; [reflexivity|].
  cbn [forallb] in HQ. apply andb_prop in HQ. destruct HQ as [HQx HQr].
  specialize (Hb x cnt HQx). destruct (b x cnt) as [a c1]. specialize (IH c1 HQr).
  destruct (build_list_with b r c1) as [bs c2]. cbn [fst flat_map] in *. rewrite vis_server_app, Hb, IH. reflexivity.
Qed.

Lemma build_items_vis (bl : Z -> nat -> list ssr * nat) (g : Z -> list vnode) :
  (forall it cnt, vis_server (fst (bl it cnt)) = g it) ->
  forall l cnt, vis_server (fst (build_items bl l cnt)) = flat_map g l.
Proof.
  intros Hb. induction l as [|it r IH]; intros cnt; cbn [build_items]; [reflexivity|].
  specialize (Hb it cnt). destruct (bl it cnt) as [n c1]. specialize (IH c1).
  destruct (build_items bl r c1) as [rest c2]. cbn [fst flat_map] in *. rewrite vis_server_app, Hb, IH. reflexivity.
Qed.

Theorem server_client_vis_gen st f : forall hyd sus item v cnt, no_nossr v = true ->
  vis_server (fst (build st f hyd sus item v cnt)) = cvis (pcreate f st item v).
Proof.
  induction f as [|f IH]; intros hyd sus item v cnt Hv; [reflexivity|].
  pose proof (fun hyd' => build_list_vis (build st f hyd' sus item) (fun v => cvis (pcreate f st item v)) no_nossr
                                         (fun v0 c0 H0 => IH hyd' sus item v0 c0 H0)) as BL.
  destruct v as [tag attrs children|s|k|k a b|vs|k vs|kd k tmpl| |vs|vs|vs]; cbn [no_nossr] in Hv.
  - cbn [build pcreate]. pose proof (build_attrs_cattrs st attrs) as HA. destruct (build_attrs st attrs) as [ss bs].
    specialize (BL hyd children (if hyd then S cnt else cnt) Hv).
    destruct (build_list_with _ children _) as [ch cnt2]. cbn [fst snd] in *.
    rewrite cvis_El. cbn [vis_server flat_map vis_ssr app]. rewrite HA. f_equal. f_equal.
    destruct (is_void tag); [reflexivity|]. rewrite flat_map_map. exact BL.
  - reflexivity.
  - reflexivity.
  - cbn [build pcreate]. apply andb_prop in Hv. destruct Hv as [Ha Hb].
    assert (Hbr : forallb no_nossr (if get_bool st k then a else b) = true) by (destruct (get_bool st k); assumption).
    specialize (BL hyd _ cnt Hbr). destruct (build_list_with _ _ cnt) as [ch cnt1]. cbn [fst] in *.
    rewrite cvis_Dyn, flat_map_map. cbn [vis_server flat_map vis_ssr app]. rewrite app_nil_r. exact BL.
  - cbn [build pcreate]. rewrite cvis_Group, flat_map_map. exact (BL hyd vs cnt Hv).
  - cbn [build pcreate]. specialize (BL hyd vs cnt Hv). destruct (build_list_with _ vs cnt) as [ch cnt1]. cbn [fst] in *.
    rewrite cvis_Show, flat_map_map. cbn [vis_server flat_map vis_ssr app]. rewrite app_nil_r.
    destruct (get_bool st k); [exact BL|reflexivity].
  - rewrite build_VList. cbn [pcreate]. rewrite cvis_List, flat_map_map. cbn [snd].
    apply (build_items_vis (fun it => build_list_with (build st f hyd sus (Some it)) tmpl)
                           (fun it => flat_map cvis (map (pcreate f st (Some it)) tmpl))).
    intros it c0. rewrite flat_map_map.
    exact (build_list_vis (build st f hyd sus (Some it)) (fun v => cvis (pcreate f st (Some it) v)) no_nossr
                          (fun v0 c1 H0 => IH hyd sus (Some it) v0 c1 H0) tmpl c0 Hv).
  - reflexivity.
  - cbn [build pcreate]. rewrite cvis_Group, flat_map_map. exact (BL hyd vs cnt Hv).
  - cbn [build pcreate]. rewrite cvis_Group, flat_map_map. exact (BL false vs cnt Hv).
  - discriminate Hv.
Qed.

(* T3, visible tree *)
Theorem server_client_vis st v : no_nossr v = true ->
  vis_server (fst (build st build_fuel true 0 None v 0)) = vis_client (dom_of (fst (create client_fuel st None v 0))).
Proof.
  intros Hv. unfold client_fuel, build_fuel. generalize 64. intros f.
  rewrite vis_client_inst. rewrite (create_faithful f st None v 0).
  exact (server_client_vis_gen st f true 0 None v 0 Hv).
Qed.

(* ------------------------------------------------------------------------------------------------ *)
(* hydration keys: the elements the server stamps = the elements the client creates outside NoHydrate *)
Fixpoint hk_els (n : ssr) : list (nat * nat * string) :=
  match n with
  | SEl tag _ _ hk ch => (match hk with Some k => [(k, tag)] | None => [] end) ++ flat_map hk_els ch
  | SDynamic vs => flat_map hk_els vs
  | STextDyn _ | STextStatic _ | SMarker => []
  end.
Definition hk_elsl (l : list ssr) : list (nat * nat * string) := flat_map hk_els l.

(* the tags of the elements a client render creates while hydrating ([hyd] is off inside NoHydrate), in creation order *)
Fixpoint ctags (f : nat) (st : vstate) (hyd : bool) (item : option Z) (v : view) {struct f} : list string :=
  match f with
  | O => []
  | S f' =>
      let cl := flat_map (ctags f' st hyd item) in
      match v with
      | VEl tag _ children => (if hyd then [tag] else []) ++ (if is_void tag then [] else cl children)
      | VDyn k a b => cl (if get_bool st k then a else b)
      | VFrag vs | VComp vs | VNoSsr vs => cl vs
      | VNoHydrate vs => flat_map (ctags f' st false item) vs
      | VShow _ vs => cl vs
      | VList _ k tmpl => flat_map (fun it => flat_map (ctags f' st hyd (Some it)) tmpl) (get_list st k)
      | VText _ | VDynText _ | VItem => []
      end
  end.

(* the views (as far as the state reaches them) on which server and client allocate the same keys: no NoSsr, void
   elements without children, and no element under a Show that is off *)
Definition is_nil {A} (l : list A) : bool := match l with [] => true | _ => false end.

Fixpoint adoptable (f : nat) (st : vstate) (hyd : bool) (item : option Z) (v : view) {struct f} : bool :=
  match f with
  | O => true
  | S f' =>
      let al := forallb (adoptable f' st hyd item) in
      match v with
      | VEl tag _ children => if is_void tag then is_nil children else al children
      | VDyn k a b => al (if get_bool st k then a else b)
      | VFrag vs | VComp vs => al vs
      | VNoHydrate vs => forallb (adoptable f' st false item) vs
      | VNoSsr _ => false
      | VShow k vs => al vs && (get_bool st k || is_nil (flat_map (ctags f' st hyd item) vs))
      | VList _ k tmpl => forallb (fun it => forallb (adoptable f' st hyd (Some it)) tmpl) (get_list st k)
      | VText _ | VDynText _ | VItem => true
      end
  end.

(* consecutive keys of one suspense scope *)
Fixpoint number (sus cnt : nat) (tags : list string) : list (nat * nat * string) :=
  match tags with [] => [] | t :: r => ((sus, cnt), t) :: number sus (S cnt) r end.

Lemma number_app sus : forall a cnt b, number sus cnt (a ++ b) = number sus cnt a ++ number sus (cnt + List.length a) b.
Proof.
  induction a as [|t r IH]; intros cnt b; cbn [app number List.length]; [rewrite Nat.add_0_r; reflexivity|].
  rewrite IH. do 3 f_equal. lia.
Qed.

Definition kspec (sus : nat) (r : list ssr * nat) (cnt : nat) (tags : list string) : Prop :=
  hk_elsl (fst r) = number sus cnt tags /\ snd r = cnt + List.length tags.

Lemma hk_elsl_app a b : hk_elsl (a ++ b) = hk_elsl a ++ hk_elsl b.
Proof. apply flat_map_app. Qed.

Lemma build_list_keys sus (b : view -> nat -> list ssr * nat) (g : view -> list string) (Q : view -> bool) :
  (forall v cnt, Q v = true -> kspec sus (b v cnt) cnt (g v)) ->
  forall vs cnt, forallb Q vs = true -> kspec sus (build_list_with b vs cnt) cnt (flat_map g vs).
Proof.
  intros Hb. induction vs as [|x r IH]; intros cnt HQ; cbn [build_list_with].
  - split; cbn; [reflexivity|lia].
  - cbn [forallb] in HQ. apply andb_prop in HQ. destruct HQ as [HQx HQr].
    destruct (Hb x cnt HQx) as [H1 H2]. destruct (b x cnt) as [a c1]. cbn [fst snd] in *.
    destruct (IH c1 HQr) as [H3 H4]. destruct (build_list_with b r c1) as [bs c2]. cbn [fst snd flat_map] in *.
    unfold kspec. cbn [fst snd]. split.
    + rewrite hk_elsl_app, number_app, H1, H3, H2. reflexivity.
    + rewrite app_length. lia.
Qed.

Lemma build_items_keys sus (bl : Z -> nat -> list ssr * nat) (g : Z -> list string) (Q : Z -> bool) :
  (forall it cnt, Q it = true -> kspec sus (bl it cnt) cnt (g it)) ->
  forall l cnt, forallb Q l = true -> kspec sus (build_items bl l cnt) cnt (flat_map g l).
Proof.
  intros Hb. induction l as [|it r IH]; intros cnt HQ; cbn [build_items].
  - split; cbn; [reflexivity|lia].
  - cbn [forallb] in HQ. apply andb_prop in HQ. destruct HQ as [HQx HQr].
    destruct (Hb it cnt HQx) as [H1 H2]. destruct (bl it cnt) as [n c1]. cbn [fst snd] in *.
    destruct (IH c1 HQr) as [H3 H4]. destruct (build_items bl r c1) as [rest c2]. cbn [fst snd flat_map] in *.
    unfold kspec. cbn [fst snd]. split.
    + rewrite hk_elsl_app, number_app, H1, H3, H2. reflexivity.
    + rewrite app_length. lia.
Qed.

Lemma is_nil_eq {A} (l : list A) : is_nil l = true -> l = [].
Proof. destruct l; [reflexivity|discriminate]. Qed.

Theorem server_keys_gen st f : forall hyd sus item v cnt, adoptable f st hyd item v = true ->
  kspec sus (build st f hyd sus item v cnt) cnt (ctags f st hyd item v).
Proof.
  induction f as [|f IH]; intros hyd sus item v cnt Hv; [split; cbn; [reflexivity|lia]|].
  pose proof (fun hyd' => build_list_keys sus (build st f hyd' sus item) (ctags f st hyd' item) (adoptable f st hyd' item)
                                          (fun v0 c0 H0 => IH hyd' sus item v0 c0 H0)) as BL.
  destruct v as [tag attrs children|s|k|k a b|vs|k vs|kd k tmpl| |vs|vs|vs]; cbn [adoptable] in Hv;
    try (split; cbn; [reflexivity|lia]).
  - (* element *)
    cbn [build ctags]. destruct (build_attrs st attrs) as [ss bs].
    destruct (is_void tag).
    + apply is_nil_eq in Hv. subst children. cbn [build_list_with]. unfold kspec, hk_elsl. cbn [fst snd flat_map hk_els].
      rewrite !app_nil_r. destruct hyd; cbn; split; try reflexivity; lia.
    + destruct (BL hyd children (if hyd then S cnt else cnt) Hv) as [H1 H2].
      destruct (build_list_with _ children _) as [ch cnt2]. cbn [fst snd] in *.
      unfold kspec, hk_elsl. cbn [fst snd flat_map hk_els]. rewrite app_nil_r. fold (hk_elsl ch). rewrite H1, H2.
      destruct hyd; cbn [app number List.length]; split; try reflexivity; lia.
  - (* dynamic view *)
    cbn [build ctags]. destruct (BL hyd _ cnt Hv) as [H1 H2]. destruct (build_list_with _ _ cnt) as [ch cnt1].
    cbn [fst snd] in *. unfold kspec, hk_elsl. cbn [fst snd flat_map hk_els app]. rewrite app_nil_r. split; assumption.
  - exact (BL hyd vs cnt Hv).
  - (* Show *)
    cbn [build ctags]. apply andb_prop in Hv. destruct Hv as [Hvs Hsh].
    destruct (BL hyd vs cnt Hvs) as [H1 H2]. destruct (build_list_with _ vs cnt) as [ch cnt1].
    cbn [fst snd] in *. unfold kspec, hk_elsl. cbn [fst snd flat_map hk_els app]. rewrite app_nil_r.
    destruct (get_bool st k).
    + split; assumption.
    + cbn [orb] in Hsh. apply is_nil_eq in Hsh. rewrite Hsh in *. cbn [flat_map]. split; [reflexivity|exact H2].
  - (* list *)
    rewrite build_VList. cbn [ctags].
    apply (build_items_keys sus (fun it => build_list_with (build st f hyd sus (Some it)) tmpl)
                            (fun it => flat_map (ctags f st hyd (Some it)) tmpl)
                            (fun it => forallb (adoptable f st hyd (Some it)) tmpl)); [|exact Hv].
    intros it c0 H0.
    exact (build_list_keys sus (build st f hyd sus (Some it)) (ctags f st hyd (Some it)) (adoptable f st hyd (Some it))
                           (fun v0 c1 H1 => IH hyd sus (Some it) v0 c1 H1) tmpl c0 H0).
  - exact (BL hyd vs cnt Hv).
  - (* NoHydrate: the flag is off; no key is handed out whatever [hyd] was *)
    cbn [build ctags]. exact (BL false vs cnt Hv).
  - discriminate Hv.
Qed.

(* ---- the client side: read the same tags off the created instance ---- *)
(* the element tags of instance [i] of view [v], in creation (= document) order, skipping what lies inside NoHydrate *)
Fixpoint hyd_tags (f : nat) (st : vstate) (v : view) (i : inst) {struct f} : list string :=
  match f with
  | O => []
  | S f' =>
      let zl := zipl (hyd_tags f' st) in
      match v, i with
      | VEl _ _ children, IEl _ tag _ ch => tag :: zl children ch
      | VDyn k a b, IDyn _ _ ch => zl (if get_bool st k then a else b) ch
      | VFrag vs, IGroup ch | VComp vs, IGroup ch | VNoSsr vs, IGroup ch => zl vs ch
      | VShow _ vs, IShow _ _ _ ch => zl vs ch
      | VList _ _ tmpl, IList _ _ items => flat_map (fun p => zl tmpl (snd p)) items
      | _, _ => []
      end
  end.

Lemma ctags_false f : forall st item v, ctags f st false item v = [].
Proof.
  induction f as [|f IH]; intros st item v; [reflexivity|].
  assert (L : forall it vs, flat_map (ctags f st false it) vs = []).
  { intros it vs. induction vs as [|x r IHr]; cbn [flat_map]; [reflexivity|]. rewrite IH, IHr. reflexivity. }
  destruct v as [tag attrs children|s|k|k a b|vs|k vs|kd k tmpl| |vs|vs|vs]; cbn [ctags]; rewrite ?L; try reflexivity.
  - destruct (is_void tag); reflexivity.
  - induction (get_list st k) as [|it r IHr]; cbn [flat_map]; [reflexivity|]. rewrite L, IHr. reflexivity.
Qed.

Lemma create_list_tags f st (c : view -> nat -> inst * nat) (g : view -> list string) :
  (forall v cnt, hyd_tags f st v (fst (c v cnt)) = g v) ->
  forall vs cnt, zipl (hyd_tags f st) vs (fst (create_list_with c vs cnt)) = flat_map g vs.
Proof.
  intros Hc. induction vs as [|x r IH]; intros cnt; cbn [create_list_with]; [reflexivity|].
  specialize (Hc x cnt). destruct (c x cnt) as [i c1]. specialize (IH c1).
  destruct (create_list_with c r c1) as [is c2]. cbn [fst zipl flat_map] in *. rewrite Hc, IH. reflexivity.
Qed.

Lemma create_items_tags f st tmpl (cl : Z -> nat -> list inst * nat) (g : Z -> list string) :
  (forall it cnt, zipl (hyd_tags f st) tmpl (fst (cl it cnt)) = g it) ->
  forall l cnt, flat_map (fun p => zipl (hyd_tags f st) tmpl (snd p)) (fst (create_items cl l cnt)) = flat_map g l.
Proof.
  intros Hc. induction l as [|it r IH]; intros cnt; cbn [create_items]; [reflexivity|].
  specialize (Hc it cnt). destruct (cl it cnt) as [is c1]. specialize (IH c1).
  destruct (create_items cl r c1) as [rest c2]. cbn [fst snd flat_map] in *. rewrite Hc, IH. reflexivity.
Qed.

Theorem create_hyd_tags f : forall st item v cnt, hyd_tags f st v (fst (create f st item v cnt)) = ctags f st true item v.
Proof.
  induction f as [|f IH]; intros st item v cnt; [reflexivity|].
  pose proof (create_list_tags f st (create f st item) (ctags f st true item) (IH st item)) as CL.
  destruct v as [tag attrs children|s|k|k a b|vs|k vs|kd k tmpl| |vs|vs|vs]; cbn [create ctags]; try reflexivity.
  - destruct (is_void tag).
    + cbn [fst hyd_tags]. destruct children; reflexivity.
    + specialize (CL children (S cnt)). destruct (create_list_with _ children (S cnt)) as [ch c1].
      cbn [fst hyd_tags] in *. rewrite CL. reflexivity.
  - specialize (CL (if get_bool st k then a else b) (S (S cnt))). destruct (create_list_with _ _ (S (S cnt))) as [ch c1].
    cbn [fst hyd_tags] in *. exact CL.
  - specialize (CL vs cnt). destruct (create_list_with _ vs cnt) as [ch c1]. cbn [fst hyd_tags] in *. exact CL.
  - specialize (CL vs (S (S cnt))). destruct (create_list_with _ vs (S (S cnt))) as [ch c1]. cbn [fst hyd_tags] in *. exact CL.
  - change (hyd_tags (S f) st (VList kd k tmpl) (fst (create (S f) st item (VList kd k tmpl) cnt))
            = flat_map (fun it => flat_map (ctags f st true (Some it)) tmpl) (get_list st k)).
    rewrite create_VList. destruct (create_items _ (get_list st k) (S (S cnt))) as [items c1] eqn:E.
    cbn [fst hyd_tags]. change items with (fst (items, c1)). rewrite <- E.
    apply (create_items_tags f st tmpl (fun it => create_list_with (create f st (Some it)) tmpl)
                             (fun it => flat_map (ctags f st true (Some it)) tmpl)).
    intros it c0. exact (create_list_tags f st (create f st (Some it)) (ctags f st true (Some it)) (IH st (Some it)) tmpl c0).
  - specialize (CL vs cnt). destruct (create_list_with _ vs cnt) as [ch c1]. cbn [fst hyd_tags] in *. exact CL.
  - destruct (create_list_with _ vs cnt) as [ch c1]. cbn [fst hyd_tags].
    induction vs as [|x r IHr]; cbn [flat_map]; [reflexivity|]. rewrite ctags_false. exact IHr.
  - specialize (CL vs cnt). destruct (create_list_with _ vs cnt) as [ch c1]. cbn [fst hyd_tags] in *. exact CL.
Qed.

(* T3, keys: the server element with key (0, n) is the n-th element the client creates outside NoHydrate *)
Theorem server_client_keys st v : adoptable build_fuel st true None v = true ->
  hk_elsl (fst (build st build_fuel true 0 None v 0))
  = number 0 0 (hyd_tags client_fuel st v (fst (create client_fuel st None v 0)))
  /\ snd (build st build_fuel true 0 None v 0)
     = List.length (hyd_tags client_fuel st v (fst (create client_fuel st None v 0))).
Proof.
  unfold client_fuel, build_fuel. generalize 64. intros f Hv. rewrite (create_hyd_tags f st None v 0).
  destruct (server_keys_gen st f true 0 None v 0 Hv) as [H1 H2]. split; [exact H1|exact H2].
Qed.

(* after any run of writes the client shows what the server would render in the state reached *)
Theorem server_client_after_writes st v ws : no_nossr v = true ->
  vis_client (last (run_client st v ws) [])
  = vis_server (fst (build (fold_left apply_write ws st) build_fuel true 0 None v 0)).
Proof.
  intros Hv. rewrite (server_client_vis _ v Hv). rewrite !vis_client_erase. rewrite run_client_last_fresh. reflexivity.
Qed.
