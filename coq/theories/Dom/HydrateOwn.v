(* Dom/HydrateOwn.v -- C09, identities: what the operations of the hydration walk do to the OWNED part of the DOM
   ([owns]: keyed elements, fresh text nodes, fresh `#` comments, with identities and nesting; Dom/HydrateInst.v).
   Per child list, on the relation of Dom/HydrateRel.v: appending kinds [ks] to a child list in which nothing has been
   adopted weaves the fresh nodes of [ks], in the order of [ks], between the elements ([append_kinds_weave]).
   Over the forest: [stamp] changes nothing; [with_children_list eid] changes the child list of [eid] only
   ([rel_wc_own]). The accumulated effect of the walk is [fill]. *)
From Coq Require Import List String Ascii Bool Arith ZArith Lia.
From Syc Require Import Common.Show Common.ShowFacts Ssr.Html Ssr.View Dom.Client Dom.HydrateInst.
From Syc Require Import Dom.Hydrate Dom.HydrateSpec Dom.HydrateRel Dom.HydrateForest Dom.HydrateLay.
Import ListNotations.
Open Scope string_scope.
Open Scope list_scope.

(* ---- nested induction ---- *)
Section HnodeInd.
  Variable Q : hnode -> Prop.
  Hypothesis HEl' : forall id tag attrs ch, Forall Q ch -> Q (HEl id tag attrs ch).
  Hypothesis HText' : forall id s, Q (HText id s).
  Hypothesis HCom' : forall id s, Q (HCom id s).
  Fixpoint hnode_ind' (n : hnode) : Q n :=
    match n with
    | HEl id tag attrs ch =>
        HEl' id tag attrs ch
             ((fix go (l : list hnode) : Forall Q l :=
                 match l with [] => Forall_nil _ | x :: r => Forall_cons _ (hnode_ind' x) (go r) end) ch)
    | HText id s => HText' id s
    | HCom id s => HCom' id s
    end.
End HnodeInd.

Section OnodeInd.
  Variable Q : onode -> Prop.
  Hypothesis OEl' : forall id ch, Forall Q ch -> Q (OEl id ch).
  Hypothesis OText' : forall id s, Q (OText id s).
  Hypothesis OMark' : forall id, Q (OMark id).
  Fixpoint onode_ind' (n : onode) : Q n :=
    match n with
    | OEl id ch =>
        OEl' id ch
             ((fix go (l : list onode) : Forall Q l :=
                 match l with [] => Forall_nil _ | x :: r => Forall_cons _ (onode_ind' x) (go r) end) ch)
    | OText id s => OText' id s
    | OMark id => OMark' id
    end.
End OnodeInd.

(* ---- projections of a list of owned nodes ---- *)
Definition is_oel (o : onode) : bool := match o with OEl _ _ => true | _ => false end.
Definition otx1 (o : onode) : list (nat * string) := match o with OText id s => [(id, s)] | _ => [] end.
Definition omk1 (o : onode) : list nat := match o with OMark id => [id] | _ => [] end.
Definition otx (l : list onode) : list (nat * string) := flat_map otx1 l.
Definition omk (l : list onode) : list nat := flat_map omk1 l.
Definition oel (l : list onode) : list onode := filter is_oel l.
Definition okind (o : onode) : kp := match o with OEl _ _ => PEl | OText _ s => PText s | OMark _ => PMark end.

Lemma otx_app a b : otx (a ++ b) = otx a ++ otx b.
Proof. apply flat_map_app. Qed.
Lemma omk_app a b : omk (a ++ b) = omk a ++ omk b.
Proof. apply flat_map_app. Qed.
Lemma oel_app a b : oel (a ++ b) = oel a ++ oel b.
Proof. apply filter_app. Qed.

Lemma owns_cons fresh n r : owns fresh (n :: r) = own fresh n ++ owns fresh r.
Proof. reflexivity. Qed.
Lemma owns_app fresh a b : owns fresh (a ++ b) = owns fresh a ++ owns fresh b.
Proof. apply flat_map_app. Qed.
Lemma own_El fresh id tag a ch : own fresh (HEl id tag a ch) = if has_key a then [OEl id (owns fresh ch)] else [].
Proof. reflexivity. Qed.

(* two lists of owned nodes with the same kinds, the same texts, markers and elements are equal *)
Lemma ozip_unique : forall X Y, map okind X = map okind Y -> otx X = otx Y -> omk X = omk Y -> oel X = oel Y -> X = Y.
Proof.
  induction X as [|x X IH]; intros Y HK HT HM HE; destruct Y as [|y Y]; try discriminate HK; [reflexivity|].
  cbn [map] in HK. injection HK as Hk HK.
  destruct x as [i c|i s|i]; destruct y as [j d|j t|j]; try discriminate Hk; unfold otx, omk, oel in *; cbn [flat_map filter is_oel otx1 omk1 app] in *.
  - injection HE as E1 E2 HE. subst. f_equal. apply IH; assumption.
  - injection HT as E1 E2 HT. subst. f_equal. apply IH; assumption.
  - injection HM as E1 HM. subst. f_equal. apply IH; assumption.
Qed.

Lemma oel_only X : otx X = [] -> omk X = [] -> oel X = X.
Proof.
  induction X as [|x X IH]; intros HT HM; [reflexivity|].
  destruct x as [i c|i s|i]; unfold otx, omk, oel in *; cbn [flat_map filter is_oel otx1 omk1 app] in *; try discriminate.
  f_equal. apply IH; assumption.
Qed.

Lemma oel_all X : forallb is_oel (oel X) = true.
Proof. unfold oel. apply forallb_forall. intros x Hx. apply filter_In in Hx. exact (proj2 Hx). Qed.

Fixpoint kel (p : list kp) : nat := match p with [] => 0 | PEl :: r => S (kel r) | _ :: r => kel r end.
Lemma kel_okind X : kel (map okind X) = List.length (oel X).
Proof.
  induction X as [|x X IH]; [reflexivity|]. destruct x; unfold oel in *; cbn [map okind kel filter is_oel List.length]; rewrite IH; reflexivity.
Qed.

(* ---- weaving the fresh nodes of a list of kinds between elements ---- *)
Fixpoint weave (E : list onode) (ks : list hkind) : list onode :=
  match ks with
  | [] => E
  | KEl _ :: r => match E with e :: E' => e :: weave E' r | [] => weave [] r end
  | KTextDyn id s :: r => OText id s :: weave E r
  | KTextStatic :: r => weave E r
  | KMarker id :: r => OMark id :: weave E r
  end.

Definition ktx1 (k : hkind) : list (nat * string) := match k with KTextDyn id s => [(id, s)] | _ => [] end.
Definition kmk1 (k : hkind) : list nat := match k with KMarker id => [id] | _ => [] end.
Definition ktx (ks : list hkind) : list (nat * string) := flat_map ktx1 ks.
Definition kmk (ks : list hkind) : list nat := flat_map kmk1 ks.

Lemma weave_spec : forall ks E, forallb is_oel E = true -> kel (kproj ks) = List.length E ->
  map okind (weave E ks) = kproj ks /\ otx (weave E ks) = ktx ks /\ omk (weave E ks) = kmk ks /\ oel (weave E ks) = E.
Proof.
  induction ks as [|k r IH]; intros E HE HL.
  - cbn in HL. destruct E; [|discriminate HL]. repeat split; reflexivity.
  - unfold kproj, ktx, kmk in *. destruct k as [eid|id s| |id]; cbn [flat_map kproj1 ktx1 kmk1 app kel weave] in *.
    + destruct E as [|e E']; [discriminate HL|]. cbn [forallb] in HE. apply andb_prop in HE. destruct HE as [He HE].
      cbn [List.length] in HL. injection HL as HL. destruct (IH E' HE HL) as (I1 & I2 & I3 & I4).
      destruct e as [i c|i s|i]; try discriminate He. unfold otx, omk, oel in *.
      cbn [map okind flat_map otx1 omk1 filter is_oel app]. rewrite I1, I2, I3, I4. repeat split; reflexivity.
    + destruct (IH E HE HL) as (I1 & I2 & I3 & I4). unfold otx, omk, oel in *.
      cbn [map okind flat_map otx1 omk1 filter is_oel app]. rewrite I1, I2, I3, I4. repeat split; reflexivity.
    + exact (IH E HE HL).
    + destruct (IH E HE HL) as (I1 & I2 & I3 & I4). unfold otx, omk, oel in *.
      cbn [map okind flat_map otx1 omk1 filter is_oel app]. rewrite I1, I2, I3, I4. repeat split; reflexivity.
Qed.

(* ---- one child list, on the relation ---- *)
Lemma own_skippable fresh n : skippable fresh n -> own fresh n = [].
Proof.
  destruct n as [id tag a ch|k s|k c]; cbn [skippable own]; intros H; [tauto| |].
  - rewrite (proj2 (Nat.leb_gt fresh k) H). reflexivity.
  - destruct H as [H ->]. rewrite (proj2 (Nat.leb_gt fresh k) H). reflexivity.
Qed.
Lemma own_slotval fresh x s : slotval fresh x s -> own fresh x = [].
Proof. intros H. inversion H as [k s0 Hk|k Hk]; subst; cbn [own]; rewrite (proj2 (Nat.leb_gt fresh k) Hk); reflexivity. Qed.
Lemma own_com_t fresh i : own fresh (HCom i "t") = [].
Proof. cbn [own]. change (String.eqb "t" "#") with false. rewrite andb_false_r. reflexivity. Qed.
Lemma own_com_slash fresh i : own fresh (HCom i "/") = [].
Proof. cbn [own]. change (String.eqb "/" "#") with false. rewrite andb_false_r. reflexivity. Qed.
Lemma own_text_fresh fresh j s : fresh <= j -> own fresh (HText j s) = [OText j s].
Proof. intros H. cbn [own]. rewrite (proj2 (Nat.leb_le fresh j) H). reflexivity. Qed.
Lemma own_mark_fresh fresh j : fresh <= j -> own fresh (HCom j "#") = [OMark j].
Proof. intros H. cbn [own]. rewrite (proj2 (Nat.leb_le fresh j) H). reflexivity. Qed.

Lemma otx_own_El fresh id tag a ch : otx (own fresh (HEl id tag a ch)) = [].
Proof. rewrite own_El. destruct (has_key a); reflexivity. Qed.
Lemma omk_own_El fresh id tag a ch : omk (own fresh (HEl id tag a ch)) = [].
Proof. rewrite own_El. destruct (has_key a); reflexivity. Qed.

(* nothing adopted: no fresh node at the top level *)
Lemma rel_otx_nil fresh P nt nm its hs0 hs : rel fresh P nt nm its hs0 hs -> nt = 0 -> otx (owns fresh hs) = [].
Proof.
  induction 1 as [nt nm|nt nm n its hs0 hs Hn Hr IH|nt nm key ch its id tag a0 a cs0 cs hs0 hs nt' nm' Hid Hok Hc IHc Hr IH
                 |nt nm h s i x its hs0 hs Hh Hi Hx Hr IH|nt nm s i x j its hs0 hs Hi Hx Hj Hr IH
                 |nt nm h i its hs0 hs Hh Hi Hr IH|nt nm i j its hs0 hs Hi Hj Hr IH];
    intros Hnt; rewrite ?owns_cons, ?otx_app.
  - reflexivity.
  - rewrite (own_skippable _ _ Hn). exact (IH Hnt).
  - rewrite otx_own_El. exact (IH Hnt).
  - rewrite own_com_t, (own_slotval _ _ _ Hx). exact (IH Hnt).
  - discriminate Hnt.
  - rewrite own_com_slash. exact (IH Hnt).
  - rewrite (own_mark_fresh _ _ Hj). exact (IH Hnt).
Qed.
Lemma rel_omk_nil fresh P nt nm its hs0 hs : rel fresh P nt nm its hs0 hs -> nm = 0 -> omk (owns fresh hs) = [].
Proof.
  induction 1 as [nt nm|nt nm n its hs0 hs Hn Hr IH|nt nm key ch its id tag a0 a cs0 cs hs0 hs nt' nm' Hid Hok Hc IHc Hr IH
                 |nt nm h s i x its hs0 hs Hh Hi Hx Hr IH|nt nm s i x j its hs0 hs Hi Hx Hj Hr IH
                 |nt nm h i its hs0 hs Hh Hi Hr IH|nt nm i j its hs0 hs Hi Hj Hr IH];
    intros Hnm; rewrite ?owns_cons, ?omk_app.
  - reflexivity.
  - rewrite (own_skippable _ _ Hn). exact (IH Hnm).
  - rewrite omk_own_El. exact (IH Hnm).
  - rewrite own_com_t, (own_slotval _ _ _ Hx). exact (IH Hnm).
  - rewrite (own_text_fresh _ _ _ Hj). exact (IH Hnm).
  - rewrite own_com_slash. exact (IH Hnm).
  - discriminate Hnm.
Qed.

Definition same3 (X Y : list onode) (t : list (nat * string)) (m : list nat) : Prop :=
  otx Y = otx X ++ t /\ omk Y = omk X ++ m /\ oel Y = oel X.

Lemma same3_cons a X Y t m : same3 X Y t m -> same3 (a ++ X) (a ++ Y) t m.
Proof.
  intros (H1 & H2 & H3). unfold same3. rewrite !otx_app, !omk_app, !oel_app, H1, H2, H3, <- !app_assoc. repeat split; reflexivity.
Qed.

(* adopting one dynamic text: the fresh text comes after the fresh texts already there *)
Lemma adopt_text_own fresh P nt nm its hs0 hs : rel fresh P nt nm its hs0 hs ->
  forall s id hs', nth_t nt its = Some s -> ok_texts false its = true -> fresh <= id -> adopt_text hs id s = HOk hs' ->
  same3 (owns fresh hs) (owns fresh hs') [(id, s)] [].
Proof.
  induction 1 as [nt nm|nt nm n its hs0 hs Hn Hr IH|nt nm key ch its id tag a0 a cs0 cs hs0 hs nt' nm' Hid Hok Hc IHc Hr IH
                 |nt nm h s i x its hs0 hs Hh Hi Hx Hr IH|nt nm s i x j its hs0 hs Hi Hx Hj Hr IH
                 |nt nm h i its hs0 hs Hh Hi Hr IH|nt nm i j its hs0 hs Hi Hj Hr IH];
    intros s' id' hs' Hnth Hokt Hfr E.
  - discriminate Hnth.
  - cbn [adopt_text] in E. rewrite (skippable_not_com fresh n "t" Hn) in E by discriminate.
    destruct (adopt_text hs id' s') as [r'|e] eqn:E1; [|discriminate E]. inversion E; subst hs'.
    rewrite !owns_cons. apply same3_cons. exact (IH _ _ _ Hnth Hokt Hfr E1).
  - cbn [nth_t ok_texts] in *. cbn [adopt_text is_com] in E.
    destruct (adopt_text hs id' s') as [r'|e] eqn:E1; [|discriminate E]. inversion E; subst hs'.
    rewrite !owns_cons. apply same3_cons. exact (IH _ _ _ Hnth Hokt Hfr E1).
  - destruct h.
    + destruct Hh as [Hh|Hh]; [discriminate Hh|]. subst nt. cbn [nth_t] in Hnth. inversion Hnth; subst s'.
      cbn [adopt_text is_com] in E. change (String.eqb "t" "t") with true in E. cbv iota in E. inversion E; subst hs'.
      rewrite !owns_cons, own_com_t, (own_slotval _ _ _ Hx), (own_text_fresh _ _ _ Hfr). cbn [app].
      unfold same3. unfold otx, omk, oel. cbn [flat_map filter is_oel otx1 omk1 app]. fold (otx (owns fresh hs)).
      rewrite (rel_otx_nil _ _ _ _ _ _ _ Hr eq_refl), !app_nil_r. repeat split; reflexivity.
    + cbn [nth_t ok_texts] in *. rewrite (ok_texts_seen _ Hokt) in Hnth. discriminate Hnth.
  - cbn [nth_t ok_texts negb andb] in *. cbn [adopt_text is_com] in E.
    destruct (adopt_text hs id' s') as [r'|e] eqn:E1; [|discriminate E]. inversion E; subst hs'.
    rewrite !owns_cons. apply same3_cons. exact (IH _ _ _ Hnth Hokt Hfr E1).
  - cbn [nth_t ok_texts] in *. cbn [adopt_text] in E. change (is_com "t" (HCom i "/")) with false in E. cbv iota in E.
    destruct (adopt_text hs id' s') as [r'|e] eqn:E1; [|discriminate E]. inversion E; subst hs'.
    rewrite !owns_cons. apply same3_cons. exact (IH _ _ _ Hnth Hokt Hfr E1).
  - cbn [nth_t ok_texts] in *. cbn [adopt_text] in E. change (is_com "t" (HCom j "#")) with false in E. cbv iota in E.
    destruct (adopt_text hs id' s') as [r'|e] eqn:E1; [|discriminate E]. inversion E; subst hs'.
    rewrite !owns_cons. apply same3_cons. exact (IH _ _ _ Hnth Hokt Hfr E1).
Qed.

Lemma adopt_marker_own fresh P nt nm its hs0 hs : rel fresh P nt nm its hs0 hs ->
  forall id hs', nm < count_m its -> ok_marks false its = true -> fresh <= id -> adopt_marker hs id = HOk hs' ->
  same3 (owns fresh hs) (owns fresh hs') [] [id].
Proof.
  induction 1 as [nt nm|nt nm n its hs0 hs Hn Hr IH|nt nm key ch its id tag a0 a cs0 cs hs0 hs nt' nm' Hid Hok Hc IHc Hr IH
                 |nt nm h s i x its hs0 hs Hh Hi Hx Hr IH|nt nm s i x j its hs0 hs Hi Hx Hj Hr IH
                 |nt nm h i its hs0 hs Hh Hi Hr IH|nt nm i j its hs0 hs Hi Hj Hr IH];
    intros id' hs' Hcnt Hokm Hfr E.
  - cbn in Hcnt. lia.
  - cbn [adopt_marker] in E. rewrite (skippable_not_com fresh n "/" Hn) in E by discriminate.
    destruct (adopt_marker hs id') as [r'|e] eqn:E1; [|discriminate E]. inversion E; subst hs'.
    rewrite !owns_cons. apply same3_cons. exact (IH _ _ Hcnt Hokm Hfr E1).
  - cbn [count_m ok_marks] in *. cbn [adopt_marker is_com] in E.
    destruct (adopt_marker hs id') as [r'|e] eqn:E1; [|discriminate E]. inversion E; subst hs'.
    rewrite !owns_cons. apply same3_cons. exact (IH _ _ Hcnt Hokm Hfr E1).
  - assert (Hcnt' : nm < count_m its) by (destruct h; exact Hcnt).
    cbn [ok_marks] in Hokm. cbn [adopt_marker] in E. change (is_com "/" (HCom i "t")) with false in E. cbv iota in E.
    assert (Ex : is_com "/" x = false) by (inversion Hx; reflexivity). rewrite Ex in E.
    destruct (adopt_marker hs id') as [r'|e] eqn:E1; [|discriminate E]. inversion E; subst hs'.
    rewrite !owns_cons. apply same3_cons. apply same3_cons. exact (IH _ _ Hcnt' Hokm Hfr E1).
  - cbn [count_m ok_marks] in *. cbn [adopt_marker is_com] in E.
    destruct (adopt_marker hs id') as [r'|e] eqn:E1; [|discriminate E]. inversion E; subst hs'.
    rewrite !owns_cons. apply same3_cons. exact (IH _ _ Hcnt Hokm Hfr E1).
  - destruct h.
    + destruct Hh as [Hh|Hh]; [discriminate Hh|]. subst nm.
      cbn [adopt_marker is_com] in E. change (String.eqb "/" "/") with true in E. cbv iota in E. inversion E; subst hs'.
      rewrite !owns_cons, own_com_slash, (own_mark_fresh _ _ Hfr). cbn [app].
      unfold same3. unfold otx, omk, oel. cbn [flat_map filter is_oel otx1 omk1 app]. fold (omk (owns fresh hs)).
      rewrite (rel_omk_nil _ _ _ _ _ _ _ Hr eq_refl), !app_nil_r. repeat split; reflexivity.
    + cbn [count_m ok_marks] in *. rewrite (ok_marks_seen _ Hokm) in Hcnt. lia.
  - cbn [count_m ok_marks negb andb] in *. assert (Hc' : nm < count_m its) by lia.
    cbn [adopt_marker] in E. change (is_com "/" (HCom j "#")) with false in E. cbv iota in E.
    destruct (adopt_marker hs id') as [r'|e] eqn:E1; [|discriminate E]. inversion E; subst hs'.
    rewrite !owns_cons. apply same3_cons. exact (IH _ _ Hc' Hokm Hfr E1).
Qed.

Lemma same3_refl X : same3 X X [] [].
Proof. unfold same3. rewrite !app_nil_r. repeat split; reflexivity. Qed.
Lemma same3_trans X Y Z t1 m1 t2 m2 : same3 X Y t1 m1 -> same3 Y Z t2 m2 -> same3 X Z (t1 ++ t2) (m1 ++ m2).
Proof.
  intros (A1 & A2 & A3) (B1 & B2 & B3). unfold same3. rewrite B1, B2, B3, A1, A2, A3, <- !app_assoc. repeat split; reflexivity.
Qed.

(* appending kinds: their fresh nodes, in their order, after those already there *)
Lemma append_kinds_own_gen fresh P its hs0 : ok_slots its = true ->
  forall ks p hs hs', iproj its = p ++ kproj ks -> Forall (kid_ge fresh) ks ->
  rel fresh P (ptx p) (pmk p) its hs0 hs -> append_kinds hs ks = HOk hs' ->
  same3 (owns fresh hs) (owns fresh hs') (ktx ks) (kmk ks).
Proof.
  intros Hok. destruct (ok_slots_split _ Hok) as [Hot Hom].
  induction ks as [|k r IH]; intros p hs hs' Hp Hge Hr E.
  - cbn [append_kinds] in E. inversion E; subst. apply same3_refl.
  - inversion Hge as [|? ? Hk Hge']; subst. unfold kproj in Hp. cbn [flat_map] in Hp. fold (kproj r) in Hp.
    unfold ktx, kmk. cbn [flat_map]. fold (ktx r) (kmk r).
    destruct k as [eid|id s| |id]; cbn [kproj1 app] in Hp; cbn [append_kinds append_kind] in E; cbn [ktx1 kmk1 app].
    + apply (IH (p ++ [PEl]) hs hs'); [rewrite <- app_assoc; exact Hp|exact Hge'| |exact E].
      rewrite ptx_app, pmk_app. cbn [ptx pmk]. rewrite !Nat.add_0_r. exact Hr.
    + destruct (adopt_text_rel _ _ _ _ _ _ _ Hr s id (nth_t_iproj _ _ _ _ Hp) Hot Hk) as [hs1 [E1 R]]. rewrite E1 in E.
      pose proof (adopt_text_own _ _ _ _ _ _ _ Hr s id hs1 (nth_t_iproj _ _ _ _ Hp) Hot Hk E1) as S1.
      change ((id, s) :: ktx r) with ([(id, s)] ++ ktx r). change (kmk r) with ([] ++ kmk r).
      eapply same3_trans; [exact S1|].
      apply (IH (p ++ [PText s]) hs1 hs'); [rewrite <- app_assoc; exact Hp|exact Hge'| |exact E].
      rewrite ptx_app, pmk_app. cbn [ptx pmk]. rewrite Nat.add_0_r, Nat.add_1_r. exact R.
    + apply (IH p hs hs'); assumption.
    + assert (Hc : pmk p < count_m its).
      { rewrite <- pmk_iproj, Hp, pmk_app. cbn [pmk]. lia. }
      destruct (adopt_marker_rel _ _ _ _ _ _ _ Hr id Hc Hom Hk) as [hs1 [E1 R]]. rewrite E1 in E.
      pose proof (adopt_marker_own _ _ _ _ _ _ _ Hr id hs1 Hc Hom Hk E1) as S1.
      change (id :: kmk r) with ([id] ++ kmk r). change (ktx r) with ([] ++ ktx r).
      eapply same3_trans; [exact S1|].
      apply (IH (p ++ [PMark]) hs1 hs'); [rewrite <- app_assoc; exact Hp|exact Hge'| |exact E].
      rewrite ptx_app, pmk_app. cbn [ptx pmk]. rewrite Nat.add_0_r, Nat.add_1_r. exact R.
Qed.

(* the kinds of a child list in which every hydrated slot has been adopted *)
Lemma has_key_el_ok P key ch a0 a nt nm : el_ok P key ch a0 a nt nm ->
  has_key a = match key with Some _ => true | None => false end.
Proof. intros H. destruct (el_ok_hk _ _ _ _ _ _ _ H) as [E1 E2]. unfold has_key. rewrite E1, E2. destruct key; reflexivity. Qed.

Lemma iproj_cons i r : iproj (i :: r) = iproj1 i ++ iproj r.
Proof. reflexivity. Qed.

Lemma rel_okind_full fresh P nt nm its hs0 hs : rel fresh P nt nm its hs0 hs ->
  nt = count_t its -> nm = count_m its -> map okind (owns fresh hs) = iproj its.
Proof.
  induction 1 as [nt nm|nt nm n its hs0 hs Hn Hr IH|nt nm key ch its id tag a0 a cs0 cs hs0 hs nt' nm' Hid Hok Hc IHc Hr IH
                 |nt nm h s i x its hs0 hs Hh Hi Hx Hr IH|nt nm s i x j its hs0 hs Hi Hx Hj Hr IH
                 |nt nm h i its hs0 hs Hh Hi Hr IH|nt nm i j its hs0 hs Hi Hj Hr IH];
    intros Hnt Hnm; rewrite ?owns_cons, ?map_app, ?iproj_cons.
  - reflexivity.
  - rewrite (own_skippable _ _ Hn). exact (IH Hnt Hnm).
  - cbn [count_t count_m] in Hnt, Hnm. rewrite own_El, (has_key_el_ok _ _ _ _ _ _ _ Hok), (IH Hnt Hnm).
    destruct key; reflexivity.
  - rewrite own_com_t, (own_slotval _ _ _ Hx). destruct h.
    + exfalso. destruct Hh as [Hh|Hh]; [discriminate Hh|]. subst nt. cbn [count_t] in Hnt. discriminate Hnt.
    + cbn [count_t count_m] in Hnt, Hnm. exact (IH Hnt Hnm).
  - cbn [count_t count_m] in Hnt, Hnm. inversion Hnt. rewrite (own_text_fresh _ _ _ Hj). cbn [map okind iproj1 app].
    f_equal. apply IH; assumption.
  - rewrite own_com_slash. destruct h.
    + exfalso. destruct Hh as [Hh|Hh]; [discriminate Hh|]. subst nm. cbn [count_m] in Hnm. discriminate Hnm.
    + cbn [count_t count_m] in Hnt, Hnm. exact (IH Hnt Hnm).
  - cbn [count_t count_m] in Hnt, Hnm. inversion Hnm. rewrite (own_mark_fresh _ _ Hj). cbn [map okind iproj1 app].
    f_equal. apply IH; assumption.
Qed.

(* the child list of an element, or of the mount point, when its kinds are appended *)
Theorem append_kinds_weave fresh P its cs0 cs ks cs' :
  rel fresh P 0 0 its cs0 cs -> ok_slots its = true -> iproj its = kproj ks -> Forall (kid_ge fresh) ks ->
  append_kinds cs ks = HOk cs' -> owns fresh cs' = weave (owns fresh cs) ks.
Proof.
  intros Hr Hok Hp Hge E.
  destruct (append_kinds_rel fresh P its cs0 cs ks Hok Hp Hge Hr) as [hs' [E' R']]. rewrite E in E'. inversion E'; subst hs'.
  destruct (append_kinds_own_gen fresh P its cs0 Hok ks [] cs cs' Hp Hge Hr E) as (S1 & S2 & S3).
  rewrite (rel_otx_nil _ _ _ _ _ _ _ Hr eq_refl) in S1. rewrite (rel_omk_nil _ _ _ _ _ _ _ Hr eq_refl) in S2. cbn [app] in S1, S2.
  pose proof (rel_okind_full _ _ _ _ _ _ _ R' eq_refl eq_refl) as SK. rewrite Hp in SK.
  pose proof (oel_only _ (rel_otx_nil _ _ _ _ _ _ _ Hr eq_refl) (rel_omk_nil _ _ _ _ _ _ _ Hr eq_refl)) as EO.
  assert (HE : forallb is_oel (owns fresh cs) = true) by (rewrite <- EO; apply oel_all).
  assert (HL : kel (kproj ks) = List.length (owns fresh cs)).
  { rewrite <- SK, kel_okind, S3, EO. reflexivity. }
  destruct (weave_spec ks (owns fresh cs) HE HL) as (W1 & W2 & W3 & W4).
  apply ozip_unique; [rewrite SK, W1; reflexivity|rewrite S1, W2; reflexivity|rewrite S2, W3; reflexivity|rewrite S3, W4; exact EO].
Qed.

(* ---- the forest ---- *)
Lemma has_key_stamp a : has_key (a ++ [stamp_attr]) = has_key a.
Proof. unfold has_key. rewrite hk_of_stamp. reflexivity. Qed.

Lemma own_stamp fresh e n : own fresh (stamp e n) = own fresh n.
Proof.
  induction n as [id tag a ch IH|id s|id s] using hnode_ind'; try reflexivity.
  rewrite stamp_El. destruct (Nat.eqb id e).
  - rewrite !own_El, has_key_stamp. reflexivity.
  - rewrite !own_El. destruct (has_key a); [|reflexivity]. f_equal. f_equal.
    unfold owns. rewrite flat_map_concat_map, map_map, <- flat_map_concat_map.
    induction IH as [|x r Hx Hr IHr]; cbn [flat_map]; [reflexivity|]. rewrite Hx, IHr. reflexivity.
Qed.
Lemma owns_stamp fresh e hs : owns fresh (map (stamp e) hs) = owns fresh hs.
Proof. induction hs as [|x r IH]; [reflexivity|]. cbn [map]. rewrite !owns_cons, own_stamp, IH. reflexivity. Qed.

(* element identities of owned nodes *)
Fixpoint oids (o : onode) : list nat := match o with OEl id ch => id :: flat_map oids ch | _ => [] end.
Definition oidsl (l : list onode) : list nat := flat_map oids l.

Lemma oidsl_app a b : oidsl (a ++ b) = oidsl a ++ oidsl b.
Proof. apply flat_map_app. Qed.

Lemma oids_own fresh n : incl (oidsl (own fresh n)) (elids_n n).
Proof.
  induction n as [id tag a ch IH|id s|id s] using hnode_ind'.
  - rewrite own_El. destruct (has_key a); [|intros x []]. unfold oidsl. cbn [flat_map oids app]. rewrite app_nil_r.
    cbn [elids_n]. apply incl_cons; [left; reflexivity|]. apply incl_tl.
    change (incl (oidsl (owns fresh ch)) (elids ch)).
    induction IH as [|x r Hx Hr IHr]; [intros y []|]. rewrite owns_cons, oidsl_app, elids_cons.
    apply incl_app; [apply incl_appl; exact Hx|apply incl_appr; exact IHr].
  - cbn [own]. destruct (Nat.leb fresh id); intros x [].
  - cbn [own]. destruct (Nat.leb fresh id && String.eqb s "#"); intros x [].
Qed.
Lemma oids_owns fresh hs : incl (oidsl (owns fresh hs)) (elids hs).
Proof.
  induction hs as [|x r IH]; [intros y []|]. rewrite owns_cons, oidsl_app, elids_cons.
  apply incl_app; [apply incl_appl; apply oids_own|apply incl_appr; exact IH].
Qed.

Lemma rel_elids fresh P nt nm its hs0 hs : rel fresh P nt nm its hs0 hs -> elids hs = elids hs0.
Proof.
  induction 1 as [nt nm|nt nm n its hs0 hs Hn Hr IH|nt nm key ch its id tag a0 a cs0 cs hs0 hs nt' nm' Hid Hok Hc IHc Hr IH
                 |nt nm h s i x its hs0 hs Hh Hi Hx Hr IH|nt nm s i x j its hs0 hs Hi Hx Hj Hr IH
                 |nt nm h i its hs0 hs Hh Hi Hr IH|nt nm i j its hs0 hs Hi Hj Hr IH]; rewrite ?elids_cons.
  - reflexivity.
  - rewrite IH. reflexivity.
  - rewrite !elids_El, IHc, IH. reflexivity.
  - rewrite IH. reflexivity.
  - rewrite IH. inversion Hx; reflexivity.
  - rewrite IH. reflexivity.
  - rewrite IH. reflexivity.
Qed.

(* apply [g] to the child list of the element [e] *)
Fixpoint dmod (e : nat) (g : list onode -> list onode) (o : onode) : onode :=
  match o with
  | OEl id ch => OEl id (if Nat.eqb id e then g (map (dmod e g) ch) else map (dmod e g) ch)
  | x => x
  end.

Lemma dmod_notin e g o : ~ In e (oids o) -> dmod e g o = o.
Proof.
  induction o as [id ch IH|id s|id] using onode_ind'; intros Hn; try reflexivity.
  cbn [oids] in Hn. cbn [dmod]. destruct (Nat.eqb id e) eqn:E; [apply Nat.eqb_eq in E; subst; exfalso; apply Hn; left; reflexivity|].
  f_equal. assert (Hn' : ~ In e (flat_map oids ch)) by (intros H; apply Hn; right; exact H). clear Hn E.
  induction IH as [|x r Hx Hr IHr]; [reflexivity|]. cbn [map]. cbn [flat_map] in Hn'.
  rewrite Hx, IHr; [reflexivity| |]; intros H; apply Hn'; apply in_or_app; [right|left]; exact H.
Qed.
Lemma dmod_notin_list e g l : ~ In e (oidsl l) -> map (dmod e g) l = l.
Proof.
  induction l as [|x r IH]; intros Hn; [reflexivity|]. cbn [map]. unfold oidsl in Hn. cbn [flat_map] in Hn.
  rewrite dmod_notin, IH; [reflexivity| |]; intros H; apply Hn; apply in_or_app; [right|left]; exact H.
Qed.
Lemma dmod_owns_notin fresh e g hs : ~ In e (elids hs) -> map (dmod e g) (owns fresh hs) = owns fresh hs.
Proof. intros H. apply dmod_notin_list. intros Hin. apply H. exact (oids_owns fresh hs e Hin). Qed.

(* [with_children_list eid f]: the child list of [eid] changes as [f] changes it, nothing else *)
Lemma rel_wc_own fresh P f g nt nm its hs0 hs : rel fresh P nt nm its hs0 hs ->
  forall c, NoDup (keys its) -> NoDup (elids hs0) -> P c = Stamped -> In c (keys its) ->
  (forall ch cs0 cs cs', din (LEl (Some c) ch) its -> rel fresh P 0 0 ch cs0 cs -> f cs = HOk cs' ->
                         owns fresh cs' = g (owns fresh cs)) ->
  forall eid hs', find_hk_list (key_str c) hs0 = Some eid -> with_children_list eid f hs = HOk hs' ->
  owns fresh hs' = map (dmod eid g) (owns fresh hs).
Proof.
  induction 1 as [nt nm|nt nm n its hs0 hs Hn Hr IH|nt nm k ch its id tag a0 a cs0 cs hs0 hs nt' nm' Hid Hok Hc IHc Hr IH
                 |nt nm h s i x its hs0 hs Hh Hi Hx Hr IH|nt nm s i x j its hs0 hs Hi Hx Hj Hr IH
                 |nt nm h i its hs0 hs Hh Hi Hr IH|nt nm i j its hs0 hs Hi Hj Hr IH];
    intros c NDk NDi HP Hin Hf eid hs' Hfind E; rewrite ?find_hk_list_cons, ?elids_cons in *; cbn [with_children_list] in E.
  - destruct Hin.
  - rewrite (skippable_find _ _ _ Hn) in Hfind.
    assert (En : elids_n n = []) by (destruct n; cbn in Hn; [tauto|reflexivity|reflexivity]).
    rewrite En in NDi. cbn [app] in NDi.
    replace (with_children eid f n) with (HOk n) in E by (destruct n; cbn in Hn; [tauto|reflexivity|reflexivity]).
    destruct (with_children_list eid f hs) as [r'|e] eqn:E1; [|discriminate E]. inversion E; subst hs'.
    rewrite !owns_cons, (own_skippable _ _ Hn). cbn [app]. exact (IH c NDk NDi HP Hin Hf eid r' Hfind E1).
  - rewrite keys_cons, keys_El in NDk, Hin. rewrite elids_El in NDi. rewrite find_hk_El in Hfind.
    destruct (el_ok_hk _ _ _ _ _ _ _ Hok) as [_ Ek]. rewrite Ek in Hfind. rewrite with_children_El in E.
    inversion NDi as [|? ? Hidn NDi']; subst.
    assert (NDkk : NoDup (keys ch ++ keys its)) by (destruct k; [inversion NDk; assumption|exact NDk]).
    pose proof (NoDup_app_l _ _ NDkk) as NDc. pose proof (NoDup_app_r _ _ NDkk) as NDr.
    pose proof (NoDup_app_l _ _ NDi') as NDic. pose proof (NoDup_app_r _ _ NDi') as NDir.
    assert (Hfc : forall ch0 cs1 cs2 cs', din (LEl (Some c) ch0) ch -> rel fresh P 0 0 ch0 cs1 cs2 -> f cs2 = HOk cs' ->
                                         owns fresh cs' = g (owns fresh cs2)).
    { intros ch0 cs1 cs2 cs' Hd. apply Hf. apply din_child. exact Hd. }
    assert (Hfr : forall ch0 cs1 cs2 cs', din (LEl (Some c) ch0) its -> rel fresh P 0 0 ch0 cs1 cs2 -> f cs2 = HOk cs' ->
                                         owns fresh cs' = g (owns fresh cs2)).
    { intros ch0 cs1 cs2 cs' Hd. apply Hf. apply din_next. exact Hd. }
    pose proof (rel_elids _ _ _ _ _ _ _ Hc) as ELc. pose proof (rel_elids _ _ _ _ _ _ _ Hr) as ELr.
    assert (Hgo : In c (keys ch ++ keys its) ->
                  (match find_hk_list (key_str c) cs0 with Some i => Some i | None => find_hk_list (key_str c) hs0 end) = Some eid ->
                  Nat.eqb id eid = false /\
                  (forall hs'', match (match with_children_list eid f cs with HOk ch' => HOk (HEl id tag a ch') | HErr e => HErr e end) with
                                | HOk x' => match with_children_list eid f hs with HOk r' => HOk (x' :: r') | HErr e => HErr e end
                                | HErr e => HErr e
                                end = HOk hs'' ->
                                owns fresh hs'' = map (dmod eid g) (owns fresh (HEl id tag a cs :: hs)))).
    { intros Hin' Hf'.
      destruct (in_dec Nat.eq_dec c (keys ch)) as [Hi|Hi].
      - destruct (proj2 (rel_find_spec _ _ c _ _ _ _ _ Hc) Hi) as [e [E1 E2]]. rewrite E1 in Hf'. inversion Hf'; subst e.
        assert (Hne : Nat.eqb id eid = false).
        { apply Nat.eqb_neq. intros ->. apply Hidn. apply in_or_app. left. exact E2. }
        split; [exact Hne|]. intros hs'' E0.
        assert (Hnr : ~ In eid (elids hs0)) by (exact (NoDup_app_disj _ _ _ NDi' E2)).
        rewrite (rel_wc_id _ _ eid f _ _ _ _ _ Hr Hnr) in E0.
        destruct (with_children_list eid f cs) as [cs''|e] eqn:Ec; [|discriminate E0]. inversion E0; subst hs''.
        pose proof (IHc c NDc NDic HP Hi Hfc eid cs'' E1 Ec) as IC.
        rewrite !owns_cons, map_app, !own_El. rewrite (dmod_owns_notin fresh eid g hs) by (rewrite ELr; exact Hnr).
        destruct (has_key a); [|reflexivity]. cbn [map dmod]. rewrite Hne, IC. reflexivity.
      - rewrite (proj1 (rel_find_spec _ _ c _ _ _ _ _ Hc) Hi) in Hf'.
        apply in_app_or in Hin'. destruct Hin' as [Hin'|Hin']; [contradiction|].
        destruct (proj2 (rel_find_spec _ _ c _ _ _ _ _ Hr) Hin') as [e [E1 E2]]. rewrite E1 in Hf'. inversion Hf'; subst e.
        assert (Hne : Nat.eqb id eid = false).
        { apply Nat.eqb_neq. intros ->. apply Hidn. apply in_or_app. right. exact E2. }
        split; [exact Hne|]. intros hs'' E0.
        assert (Hnc : ~ In eid (elids cs0)) by (intros Hx; exact (NoDup_app_disj _ _ _ NDi' Hx E2)).
        rewrite (rel_wc_id _ _ eid f _ _ _ _ _ Hc Hnc) in E0.
        destruct (with_children_list eid f hs) as [r'|e] eqn:Eh; [|discriminate E0]. inversion E0; subst hs''.
        pose proof (IH c NDr NDir HP Hin' Hfr eid r' E1 Eh) as IR.
        rewrite !owns_cons, map_app, !own_El, IR.
        destruct (has_key a); [|reflexivity]. cbn [map dmod]. rewrite Hne.
        rewrite (dmod_owns_notin fresh eid g cs) by (rewrite ELc; exact Hnc). reflexivity. }
    destruct k as [c'|]; cbn [app] in *.
    + destruct (String.eqb (key_str c') (key_str c)) eqn:Eq.
      * apply String.eqb_eq in Eq. apply key_str_inj in Eq. subst c'. inversion Hfind; subst eid. rewrite Nat.eqb_refl in E.
        inversion NDk as [|? ? Hcn _]; subst.
        assert (Hnr : ~ In id (elids hs0)) by (intros Hx; apply Hidn; apply in_or_app; right; exact Hx).
        assert (Hnc : ~ In id (elids cs0)) by (intros Hx; apply Hidn; apply in_or_app; left; exact Hx).
        rewrite (rel_wc_id _ _ id f _ _ _ _ _ Hr Hnr) in E.
        pose proof (has_key_el_ok _ _ _ _ _ _ _ Hok) as HK. cbn in HK.
        unfold el_ok in Hok. destruct Hok as [Hst [H0 H1]]. rewrite HP in H1. destruct H1 as [Ha [Hnt Hnm]]. subst nt' nm'.
        destruct (f cs) as [cs''|e] eqn:Ef; [|discriminate E]. inversion E; subst hs'.
        pose proof (Hf ch cs0 cs cs'' (din_here _ _) Hc Ef) as IC.
        rewrite !owns_cons, map_app, !own_El, HK. cbn [map dmod]. rewrite Nat.eqb_refl, IC.
        rewrite (dmod_owns_notin fresh id g cs) by (rewrite ELc; exact Hnc).
        rewrite (dmod_owns_notin fresh id g hs) by (rewrite ELr; exact Hnr). reflexivity.
      * apply String.eqb_neq in Eq. destruct Hin as [Hin|Hin]; [subst c'; contradiction Eq; reflexivity|].
        destruct (Hgo Hin Hfind) as [Hne Hg]. rewrite Hne in E. exact (Hg hs' E).
    + destruct (Hgo Hin Hfind) as [Hne Hg]. rewrite Hne in E. exact (Hg hs' E).
  - rewrite (slotval_find _ _ _ _ Hx) in Hfind. cbn [find_hk] in Hfind.
    replace (elids_n x) with (@nil nat) in NDi by (inversion Hx; reflexivity). cbn [elids_n app] in NDi.
    assert (Hf' : forall ch0 cs1 cs2 cs', din (LEl (Some c) ch0) its -> rel fresh P 0 0 ch0 cs1 cs2 -> f cs2 = HOk cs' ->
                                         owns fresh cs' = g (owns fresh cs2)).
    { intros ch0 cs1 cs2 cs' Hd. apply Hf. apply din_next. exact Hd. }
    cbn [with_children] in E. replace (with_children eid f x) with (HOk x) in E by (inversion Hx; reflexivity).
    destruct (with_children_list eid f hs) as [r'|e] eqn:E1; [|discriminate E]. inversion E; subst hs'.
    rewrite !owns_cons, own_com_t, (own_slotval _ _ _ Hx). cbn [app]. exact (IH c NDk NDi HP Hin Hf' eid r' Hfind E1).
  - rewrite (slotval_find _ _ _ _ Hx) in Hfind. cbn [find_hk] in Hfind.
    replace (elids_n x) with (@nil nat) in NDi by (inversion Hx; reflexivity). cbn [elids_n app] in NDi.
    assert (Hf' : forall ch0 cs1 cs2 cs', din (LEl (Some c) ch0) its -> rel fresh P 0 0 ch0 cs1 cs2 -> f cs2 = HOk cs' ->
                                         owns fresh cs' = g (owns fresh cs2)).
    { intros ch0 cs1 cs2 cs' Hd. apply Hf. apply din_next. exact Hd. }
    cbn [with_children] in E.
    destruct (with_children_list eid f hs) as [r'|e] eqn:E1; [|discriminate E]. inversion E; subst hs'.
    rewrite !owns_cons, (own_text_fresh _ _ _ Hj). cbn [app map dmod]. f_equal. exact (IH c NDk NDi HP Hin Hf' eid r' Hfind E1).
  - cbn [find_hk elids_n app] in *.
    assert (Hf' : forall ch0 cs1 cs2 cs', din (LEl (Some c) ch0) its -> rel fresh P 0 0 ch0 cs1 cs2 -> f cs2 = HOk cs' ->
                                         owns fresh cs' = g (owns fresh cs2)).
    { intros ch0 cs1 cs2 cs' Hd. apply Hf. apply din_next. exact Hd. }
    cbn [with_children] in E.
    destruct (with_children_list eid f hs) as [r'|e] eqn:E1; [|discriminate E]. inversion E; subst hs'.
    rewrite !owns_cons, own_com_slash. cbn [app]. exact (IH c NDk NDi HP Hin Hf' eid r' Hfind E1).
  - cbn [find_hk elids_n app] in *.
    assert (Hf' : forall ch0 cs1 cs2 cs', din (LEl (Some c) ch0) its -> rel fresh P 0 0 ch0 cs1 cs2 -> f cs2 = HOk cs' ->
                                         owns fresh cs' = g (owns fresh cs2)).
    { intros ch0 cs1 cs2 cs' Hd. apply Hf. apply din_next. exact Hd. }
    cbn [with_children] in E.
    destruct (with_children_list eid f hs) as [r'|e] eqn:E1; [|discriminate E]. inversion E; subst hs'.
    rewrite !owns_cons, (own_mark_fresh _ _ Hj). cbn [app map dmod]. f_equal. exact (IH c NDk NDi HP Hin Hf' eid r' Hfind E1).
Qed.

(* ---- the accumulated effect: every element of [k] has had its kinds woven into its child list ---- *)
Fixpoint assoc (k : list (nat * list hkind)) (e : nat) : option (list hkind) :=
  match k with [] => None | (e', ks) :: r => if Nat.eqb e e' then Some ks else assoc r e end.

Fixpoint fill (k : list (nat * list hkind)) (o : onode) : onode :=
  match o with
  | OEl id ch => OEl id (match assoc k id with Some ks => weave (map (fill k) ch) ks | None => map (fill k) ch end)
  | x => x
  end.

Lemma assoc_app_none k k' e : assoc k e = None -> assoc (k ++ k') e = assoc k' e.
Proof. induction k as [|[e' ks] r IH]; [reflexivity|]. cbn [assoc app]. destruct (Nat.eqb e e'); [discriminate|exact IH]. Qed.
Lemma assoc_app_some k k' e ks : assoc k e = Some ks -> assoc (k ++ k') e = Some ks.
Proof. induction k as [|[e' ks'] r IH]; [discriminate|]. cbn [assoc app]. destruct (Nat.eqb e e'); [tauto|exact IH]. Qed.
Lemma assoc_notin k e : ~ In e (map fst k) -> assoc k e = None.
Proof.
  induction k as [|[e' ks] r IH]; intros H; [reflexivity|]. cbn [assoc]. cbn [map fst] in H.
  destruct (Nat.eqb e e') eqn:E; [apply Nat.eqb_eq in E; subst; exfalso; apply H; left; reflexivity|].
  apply IH. intros Hin. apply H. right. exact Hin.
Qed.
Lemma assoc_in k e ks : NoDup (map fst k) -> In (e, ks) k -> assoc k e = Some ks.
Proof.
  induction k as [|[e' ks'] r IH]; intros ND Hin; [destruct Hin|]. cbn [map fst] in ND. inversion ND as [|? ? Hn ND']; subst.
  cbn [assoc]. destruct Hin as [Hin|Hin].
  - inversion Hin; subst. rewrite Nat.eqb_refl. reflexivity.
  - destruct (Nat.eqb e e') eqn:E; [|exact (IH ND' Hin)].
    apply Nat.eqb_eq in E. subst. exfalso. apply Hn. apply in_map_iff. exists (e', ks). split; [reflexivity|exact Hin].
Qed.

Lemma fill_nil o : fill [] o = o.
Proof.
  induction o as [id ch IH|id s|id] using onode_ind'; try reflexivity. cbn [fill assoc]. f_equal.
  induction IH as [|x r Hx Hr IHr]; [reflexivity|]. cbn [map]. rewrite Hx, IHr. reflexivity.
Qed.
Lemma fill_nil_list l : map (fill []) l = l.
Proof. induction l as [|x r IH]; [reflexivity|]. cbn [map]. rewrite fill_nil, IH. reflexivity. Qed.

Lemma weave_map (h : onode -> onode) : (forall id s, h (OText id s) = OText id s) -> (forall id, h (OMark id) = OMark id) ->
  forall ks E, map h (weave E ks) = weave (map h E) ks.
Proof.
  intros H1 H2. induction ks as [|k r IH]; intros E; [reflexivity|].
  destruct k as [eid|id s| |id]; cbn [weave].
  - destruct E as [|e E']; cbn [map]; [exact (IH [])|]. rewrite IH. reflexivity.
  - cbn [map]. rewrite H1, IH. reflexivity.
  - exact (IH E).
  - cbn [map]. rewrite H2, IH. reflexivity.
Qed.

(* one more element completed *)
Lemma fill_step k e ks o : assoc k e = None ->
  dmod e (fun E => weave E ks) (fill k o) = fill (k ++ [(e, ks)]) o.
Proof.
  intros Hk. induction o as [id ch IH|id s|id] using onode_ind'; try reflexivity.
  cbn [fill dmod].
  assert (ML : map (dmod e (fun E => weave E ks)) (map (fill k) ch) = map (fill (k ++ [(e, ks)])) ch).
  { induction IH as [|x r Hx Hr IHr]; [reflexivity|]. cbn [map]. rewrite Hx, IHr. reflexivity. }
  destruct (Nat.eqb id e) eqn:E.
  - apply Nat.eqb_eq in E. subst id. rewrite Hk. rewrite (assoc_app_none k [(e, ks)] e Hk). cbn [assoc]. rewrite Nat.eqb_refl.
    rewrite ML. reflexivity.
  - destruct (assoc k id) as [ks'|] eqn:Ea.
    + rewrite (assoc_app_some k [(e, ks)] id ks' Ea). rewrite weave_map by reflexivity. rewrite ML. reflexivity.
    + rewrite (assoc_app_none k [(e, ks)] id Ea). cbn [assoc]. rewrite E. rewrite ML. reflexivity.
Qed.
Lemma fill_step_list k e ks l : assoc k e = None ->
  map (dmod e (fun E => weave E ks)) (map (fill k) l) = map (fill (k ++ [(e, ks)])) l.
Proof. intros Hk. rewrite map_map. apply map_ext. intros o. apply fill_step. exact Hk. Qed.
