(* Dom/Show.v -- canonical output of the reconcile model, mirrored by harness/dom/dom-driver *)
From Coq Require Import List String Arith.
From Syc Require Import Common.Show Dom.Reconcile.
Import ListNotations.
Open Scope string_scope.

Fixpoint dedup_sorted (l : list nat) : list nat :=
  match l with
  | x :: ((y :: _) as r) => if Nat.eqb x y then dedup_sorted r else x :: dedup_sorted r
  | _ => l
  end.
Fixpoint ins (x : nat) (l : list nat) : list nat :=
  match l with [] => [x] | y :: r => if Nat.leb x y then x :: l else y :: ins x r end.
Definition sort (l : list nat) : list nat := fold_right ins [] l.

Definition run_reconcile (c : list nat * list nat * list nat * list nat) : string :=
  let '(pre, a, b, post) := c in
  match reconcile (pre ++ a ++ post) a b with
  | ROk ch t =>
      let all := dedup_sorted (sort (pre ++ a ++ b ++ post)) in
      String.concat "" ["children "; join " " (map show_nat ch); " ; detached ";
                        join " " (map show_nat (filter (fun x => negb (memb x ch)) all));
                        " ; touched "; join " " (map show_nat (dedup_sorted (sort t)))]
  | RErr => "PANIC"
  | RFuel => "OUT-OF-FUEL"
  end.
Definition run_reconciles (l : list (list nat * list nat * list nat * list nat)) : string := lines (map run_reconcile l).
