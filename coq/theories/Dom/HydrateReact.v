(* Dom/HydrateReact.v -- C09, last sentence: the hydrated view under writes.
   [hydratei_reacts]: for a hydratable, live view, after ANY sequence of writes the hydrated instance shows, output by
   output, what the client-rendered view shows, which is the fresh client render of the state reached (identities erased).
   [hydratei_keeps]: which adopted nodes a write keeps (Dom/ClientStable.v applied to the hydrated instance): the nodes
   listed by [stable], in order; for a write no structural construct reads (every write of a string signal: dynamic text,
   dynamic attributes) ALL nodes, at their places, and no identity is allocated. *)
From Coq Require Import List String Ascii Bool Arith ZArith Lia.
From Syc Require Import Common.Show Ssr.Html Ssr.View Dom.Client Dom.ClientFacts Dom.ClientIds Dom.ClientStable.
From Syc Require Import Dom.Hydrate Dom.HydrateSpec Dom.HydrateFacts Dom.HydrateForest Dom.HydrateInst Dom.HydrateInstFacts Dom.HydrateOwn Dom.HydrateOwnWalk.
Import ListNotations.
Open Scope string_scope.
Open Scope list_scope.

Theorem hydratei_reacts vst v fresh sbase :
  hydratable vst v = true -> live vst v = true -> above fresh (server_dom vst v) ->
  exists d i c,
    hydratei vst v (server_dom vst v) fresh sbase = HOk (d, i, c)
    /\ hydrate vst v (server_dom vst v) fresh = HOk d
    /\ ierase i = ierase (fst (create client_fuel vst None v 0))
    /\ forall ws,
         map (map erase) (run_from vst v i c ws) = map (map erase) (run_client vst v ws)
         /\ map erase (last (run_from vst v i c ws) [])
            = map erase (dom_of (fst (create client_fuel (fold_left apply_write ws vst) None v 0)))
         /\ forall n, n <= List.length ws ->
              map erase (nth n (run_from vst v i c ws) [])
              = map erase (dom_of (fst (create client_fuel (fold_left apply_write (firstn n ws) vst) None v 0))).
Proof.
  intros HQ HL Hab. destruct (hydratei_ok vst v fresh sbase HQ Hab) as (d & i & c & E & Eh & _ & _ & _ & _ & _ & HF).
  specialize (HF HL). exists d, i, c. split; [exact E|]. split; [exact Eh|]. split.
  - unfold faithful in HF. rewrite HF. symmetry. apply create_faithful.
  - intros ws. split; [exact (run_from_client vst v i c ws HF)|]. split; [exact (run_from_last_fresh vst v i c ws HF)|].
    intros n Hn. exact (run_from_nth_fresh vst v i c ws n HF Hn).
Qed.

Theorem hydratei_keeps vst v fresh sbase :
  hydratable vst v = true -> above fresh (server_dom vst v) ->
  exists d i c,
    hydratei vst v (server_dom vst v) fresh sbase = HOk (d, i, c)
    /\ NoDup (iel_ids i) /\ Forall (fun e => In e (elids (server_dom vst v)) /\ e < fresh) (iel_ids i)
    /\ (forall st' w c',
          subseq (stable client_fuel st' w v i) (dom_ids (dom_of (fst (update client_fuel st' w None v i c'))))
          /\ incl (stable client_fuel st' w v i) (dom_ids (dom_of i)))
    /\ (live vst v = true -> forall st' w c', agree_except w vst st' -> keys_ok st' v = true -> ~ In w (struct_reads v) ->
          map dshape (dom_of (fst (update client_fuel st' w None v i c'))) = map dshape (dom_of i)
          /\ snd (update client_fuel st' w None v i c') = c').
Proof.
  intros HQ Hab. destruct (hydratei_ok vst v fresh sbase HQ Hab) as (d & i & c & E & _ & _ & _ & H3 & H4 & _ & HF).
  exists d, i, c. split; [exact E|]. split; [exact H3|]. split; [|split].
  - eapply Forall_impl; [|exact H4]. cbn beta. intros e He. split; [exact He|]. apply Hab.
    clear -He. revert He. generalize (server_dom vst v). intros l.
    assert (L : forall n, incl (elids_n n) (ids_node n)).
    { induction n as [id tag a ch IH|id s|id s] using hnode_ind'; cbn [elids_n ids_node]; [|intros x []|intros x []].
      apply incl_cons; [left; reflexivity|]. apply incl_tl.
      induction IH as [|x r Hx _ IHr]; [intros y []|]. cbn [flat_map]. apply incl_app; [apply incl_appl; exact Hx|apply incl_appr; exact IHr]. }
    induction l as [|x r IH]; intros He; [destruct He|]. unfold elids, ids in *. cbn [flat_map] in *. apply in_app_or in He. apply in_or_app.
    destruct He as [He|He]; [left; exact (L x e He)|right; exact (IH He)].
  - intros st' w c'. split; [apply update_stable|apply stable_old].
  - intros HL st' w c' Hag Hk Hw. specialize (HF HL).
    destruct (update_nonstruct_dom client_fuel vst st' w None v i c' Hag HF Hk Hw) as (A & _ & B). split; assumption.
Qed.
