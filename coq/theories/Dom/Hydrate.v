(* Dom/Hydrate.v -- model of hydration (packages/sycamore-web/src/node/hydrate_node.rs, dom_render.rs hydrate_in_scope):
   the server DOM under the mount point is a forest of nodes with identities; building the view in hydrating mode
   claims every element by its hydration key from a registry, and `append_child` adopts the other nodes by SEARCH:
   a dynamic text looks for the first `<!--t-->` comment among the children of its parent, replaces the node after
   it by its own text node and removes the comment; a marker looks for the first `<!--/-->` comment and replaces it;
   static text is left alone. Nothing is checked against the position the view would expect: that is what the real
   code does, and it is what makes known findings F10 (Show false), F11 (lists), F16 (NoHydrate markers) fail.
   Show with children other than elements (F12, F13), lists (F11) and NoSsr (client-only content mounted later) are
   outside the model: [HUnsupported].
   Definitions only. *)
From Coq Require Import List String Ascii Bool Arith ZArith.
From Syc Require Import Common.Show Ssr.Html Ssr.View.
Import ListNotations.
Open Scope string_scope.
Open Scope list_scope.

Inductive hnode :=
| HEl (id : nat) (tag : string) (attrs : list (string * string)) (children : list hnode)
| HText (id : nat) (s : string)
| HCom (id : nat) (s : string).

Definition hk_of (attrs : list (string * string)) : option string :=
  match find (fun p => String.eqb (fst p) "data-hk") attrs with Some p => Some (snd p) | None => None end.

(* the registry: document.querySelectorAll("[data-hk]") *)
Fixpoint find_hk (key : string) (n : hnode) : option nat :=
  match n with
  | HEl id _ attrs ch =>
      match hk_of attrs with
      | Some k => if String.eqb k key then Some id
                  else (fix go l := match l with [] => None | x :: r => match find_hk key x with Some i => Some i | None => go r end end) ch
      | None => (fix go l := match l with [] => None | x :: r => match find_hk key x with Some i => Some i | None => go r end end) ch
      end
  | _ => None
  end.
Definition find_hk_list (key : string) (l : list hnode) : option nat :=
  (fix go l := match l with [] => None | x :: r => match find_hk key x with Some i => Some i | None => go r end end) l.

(* what a view node is while the tree is being hydrated (hydrate_node.rs NodeState) *)
Inductive hkind :=
| KEl (id : nat)                     (* Hydrated: an adopted element *)
| KTextDyn (id : nat) (s : string)   (* a fresh text node that will replace the server text *)
| KTextStatic
| KMarker (id : nat).                (* a fresh marker comment that will replace a `/` comment *)

Inductive herr := HKeyNotFound (key : string) | HTextNotFound | HNoTextAfterMarker | HMarkerNotFound | HUnsupported | HFuel.
Inductive hres (A : Type) := HOk (a : A) | HErr (e : herr).
Arguments HOk {A}. Arguments HErr {A}.

Definition is_com (c : string) (n : hnode) : bool := match n with HCom _ s => String.eqb s c | _ => false end.

(* HydrateNode::append_child in hydrating mode, on the child list of the parent *)
Fixpoint adopt_text (cs : list hnode) (id : nat) (s : string) : hres (list hnode) :=
  match cs with
  | [] => HErr HTextNotFound
  | c :: r =>
      if is_com "t" c then
        match r with
        | [] => HErr HNoTextAfterMarker                     (* comment.next_sibling().unwrap() *)
        | _ :: r' => HOk (HText id s :: r')                 (* replace_child(new text, next); remove_child(comment) *)
        end
      else match adopt_text r id s with HOk r' => HOk (c :: r') | HErr e => HErr e end
  end.
Fixpoint adopt_marker (cs : list hnode) (id : nat) : hres (list hnode) :=
  match cs with
  | [] => HErr HMarkerNotFound
  | c :: r =>
      if is_com "/" c then HOk (HCom id "#" :: r)
      else match adopt_marker r id with HOk r' => HOk (c :: r') | HErr e => HErr e end
  end.
Definition append_kind (cs : list hnode) (k : hkind) : hres (list hnode) :=
  match k with
  | KEl _ | KTextStatic => HOk cs
  | KTextDyn id s => adopt_text cs id s
  | KMarker id => adopt_marker cs id
  end.
Fixpoint append_kinds (cs : list hnode) (ks : list hkind) : hres (list hnode) :=
  match ks with
  | [] => HOk cs
  | k :: r => match append_kind cs k with HOk cs' => append_kinds cs' r | HErr e => HErr e end
  end.

(* apply [f] to the child list of the element [eid], wherever it is; stamp it as hydrated *)
Fixpoint with_children (eid : nat) (f : list hnode -> hres (list hnode)) (n : hnode) : hres hnode :=
  match n with
  | HEl id tag attrs ch =>
      if Nat.eqb id eid then
        match f ch with HOk ch' => HOk (HEl id tag attrs ch') | HErr e => HErr e end
      else
        match (fix go l := match l with
                           | [] => HOk []
                           | x :: r => match with_children eid f x with
                                       | HOk x' => match go r with HOk r' => HOk (x' :: r') | HErr e => HErr e end
                                       | HErr e => HErr e
                                       end
                           end) ch with
        | HOk ch' => HOk (HEl id tag attrs ch')
        | HErr e => HErr e
        end
  | _ => HOk n
  end.
Fixpoint with_children_list (eid : nat) (f : list hnode -> hres (list hnode)) (l : list hnode) : hres (list hnode) :=
  match l with
  | [] => HOk []
  | x :: r => match with_children eid f x with
              | HOk x' => match with_children_list eid f r with HOk r' => HOk (x' :: r') | HErr e => HErr e end
              | HErr e => HErr e
              end
  end.
Fixpoint stamp (eid : nat) (n : hnode) : hnode :=
  match n with
  | HEl id tag attrs ch =>
      if Nat.eqb id eid then HEl id tag (attrs ++ [("data-hydrated", "")]) ch else HEl id tag attrs (map (stamp eid) ch)
  | _ => n
  end.

Record hstate := HState { h_dom : list hnode; h_next : nat; h_key : nat }.   (* next fresh node id, next element key *)

Fixpoint hyd_list_with (h : view -> hstate -> hres (list hkind * hstate)) (vs : list view) (st : hstate) : hres (list hkind * hstate) :=
  match vs with
  | [] => HOk ([], st)
  | v :: r =>
      match h v st with
      | HOk (k1, st1) => match hyd_list_with h r st1 with HOk (k2, st2) => HOk (k1 ++ k2, st2) | HErr e => HErr e end
      | HErr e => HErr e
      end
  end.

(* Show clones its children through web-sys while hydrating: only adopted elements survive that (F12, F13) *)
Definition only_elements (ks : list hkind) : bool :=
  forallb (fun k => match k with KEl _ => true | _ => false end) ks.

(* building the view in hydrating mode ([hyd] = IS_HYDRATING, false under NoHydrate where nothing is built at all) *)
Fixpoint hyd (f : nat) (vst : vstate) (item : option Z) (v : view) (st : hstate) {struct f} : hres (list hkind * hstate) :=
  match f with
  | O => HErr HFuel
  | S f' =>
      let hl := hyd_list_with (hyd f' vst item) in
      match v with
      | VEl tag attrs children =>
          let key := String.append "0." (show_nat (h_key st)) in
          match find_hk_list key (h_dom st) with
          | None => HErr (HKeyNotFound key)
          | Some eid =>
              let st1 := HState (map (stamp eid) (h_dom st)) (h_next st) (S (h_key st)) in
              match (if is_void tag then HOk ([], st1) else hl children st1) with
              | HOk (ks, st2) =>
                  match with_children_list eid (fun cs => append_kinds cs ks) (h_dom st2) with
                  | HOk dom' => HOk ([KEl eid], HState dom' (h_next st2) (h_key st2))
                  | HErr e => HErr e
                  end
              | HErr e => HErr e
              end
          end
      | VText _ | VItem => HOk ([KTextStatic], st)
      | VDynText k => HOk ([KTextDyn (h_next st) (opt_str (get_str vst k))], HState (h_dom st) (S (h_next st)) (h_key st))
      | VDyn k a b =>
          let m1 := h_next st in let m2 := S (h_next st) in
          match hl (if get_bool vst k then a else b) (HState (h_dom st) (S (S (h_next st))) (h_key st)) with
          | HOk (ks, st1) => HOk (KMarker m1 :: ks ++ [KMarker m2], st1)
          | HErr e => HErr e
          end
      | VFrag vs | VComp vs => hl vs st
      | VNoHydrate _ => HOk ([], st)
      | VNoSsr _ => HErr HUnsupported
      | VShow k vs =>
          (* the children are built first (claiming their elements), then shown or not between two markers *)
          match hl vs st with
          | HOk (ks, st1) =>
              if only_elements ks then
                let m1 := h_next st1 in let m2 := S (h_next st1) in
                HOk (KMarker m1 :: (if get_bool vst k then ks else []) ++ [KMarker m2], HState (h_dom st1) (S (S (h_next st1))) (h_key st1))
              else HErr HUnsupported
          | HErr e => HErr e
          end
      | VList _ _ _ => HErr HUnsupported      (* Keyed / Indexed cannot be hydrated: known finding F11 *)
      end
  end.

Definition hyd_fuel : nat := 64.

(* hydrate_in_scope: build, then append the top-level nodes to the mount point *)
Definition hydrate (vst : vstate) (v : view) (server : list hnode) (fresh : nat) : hres (list hnode) :=
  match hyd hyd_fuel vst None v (HState server fresh 0) with
  | HOk (ks, st) => append_kinds (h_dom st) ks
  | HErr e => HErr e
  end.

(* ---- printing: the structured dump of dom-driver ---- *)
Definition cat (l : list string) : string := String.concat "" l.
Fixpoint hdump (n : hnode) : list string :=
  match n with
  | HEl id tag attrs ch =>
      cat ["E"; show_nat id; ":"; to_hex tag; ":"; join "," (map (fun p => cat [to_hex (fst p); "="; to_hex (snd p)]) attrs)]
      :: flat_map hdump ch ++ ["e"]
  | HText id s => [cat ["T"; show_nat id; ":"; to_hex s]]
  | HCom id s => [cat ["C"; show_nat id; ":"; to_hex s]]
  end.
Definition show_herr (e : herr) : string :=
  match e with
  | HKeyNotFound k => cat ["ERR key-not-found "; k]
  | HTextNotFound => "ERR text-marker-not-found"
  | HNoTextAfterMarker => "ERR nothing-after-text-marker"
  | HMarkerNotFound => "ERR marker-not-found"
  | HUnsupported => "UNSUPPORTED"
  | HFuel => "ERR fuel"
  end.
Definition run_hydrate (cases : list (vstate * view * list hnode * nat)) : string :=
  lines (map (fun '(vst, v, server, fresh) =>
                match hydrate vst v server fresh with
                | HOk d => join " " (flat_map hdump d)
                | HErr e => show_herr e
                end) cases).

(* ---------------------------------------------------------------------------------- *)
(* The server DOM: what an HTML parser builds from the output of the server build of Ssr/View.v (entities decoded,
   adjacent character data merged into one text node, no text node for empty character data), with identities
   numbered in document order. *)
Inductive unode := UEl (tag : string) (attrs : list (string * string)) (children : list unode) | UText (s : string) | UCom (s : string).

Fixpoint u_of_ssr (n : ssr) : list unode :=
  match n with
  | SEl tag attrs battrs hk ch =>
      [UEl tag (attrs ++ flat_map (fun p => if (snd p : bool) then [(fst p, "")] else []) battrs
                      ++ match hk with Some k => [("data-hk", show_hk k)] | None => [] end)
           (if is_void tag then [] else flat_map u_of_ssr ch)]
  | STextDyn s => [UCom "t"; UText s; UCom ""]
  | STextStatic s => [UText s]
  | SMarker => [UCom "/"]
  | SDynamic vs => flat_map u_of_ssr vs
  end.

(* merge adjacent text, drop empty text *)
Fixpoint merge_text (l : list unode) : list unode :=
  match l with
  | [] => []
  | UText a :: r =>
      match merge_text r with
      | UText b :: r' => UText (String.append a b) :: r'
      | r' => match a with EmptyString => r' | _ => UText a :: r' end
      end
  | x :: r => x :: merge_text r
  end.
(* children first *)
Fixpoint merge_deep (n : unode) : unode :=
  match n with
  | UEl t a ch => UEl t a (merge_text (map merge_deep ch))
  | x => x
  end.
Definition merged (l : list unode) : list unode := merge_text (map merge_deep l).

Fixpoint number_node (n : unode) (cnt : nat) : hnode * nat :=
  match n with
  | UEl t a ch =>
      let '(ch', c') := (fix go l c := match l with
                                        | [] => ([], c)
                                        | x :: r => let '(x', c1) := number_node x c in let '(r', c2) := go r c1 in (x' :: r', c2)
                                        end) ch (S cnt) in
      (HEl cnt t a ch', c')
  | UText s => (HText cnt s, S cnt)
  | UCom s => (HCom cnt s, S cnt)
  end.
Fixpoint number_list (l : list unode) (cnt : nat) : list hnode * nat :=
  match l with
  | [] => ([], cnt)
  | x :: r => let '(x', c1) := number_node x cnt in let '(r', c2) := number_list r c1 in (x' :: r', c2)
  end.

Definition server_dom (vst : vstate) (v : view) : list hnode :=
  fst (number_list (merged (flat_map u_of_ssr (fst (build vst build_fuel true 0 None v 0)))) 0).

Definition run_server_dom (cases : list (vstate * view)) : string :=
  lines (map (fun '(vst, v) => join " " (flat_map hdump (server_dom vst v))) cases).
(* end to end on the models: hydrate the model's own server DOM *)
Definition run_hydrate_self (cases : list (vstate * view)) : string :=
  lines (map (fun '(vst, v) => match hydrate vst v (server_dom vst v) 5000 with
                               | HOk d => join " " (flat_map hdump d)
                               | HErr e => show_herr e
                               end) cases).
