(* Dom/HydrateLay.v -- facts about the layout of a view: its keys are the counter values handed out, in increasing
   order; inside NoHydrate nothing is keyed and nothing is hydrated; the slot condition does not depend on the counter. *)
From Coq Require Import List String Ascii Bool Arith ZArith Lia Sorting.Sorted.
From Syc Require Import Common.Show Ssr.Html Ssr.View Dom.Hydrate Dom.HydrateSpec Dom.HydrateRel Dom.HydrateForest.
Import ListNotations.
Open Scope list_scope.

Lemma keys_app a b : keys (a ++ b) = keys a ++ keys b.
Proof. apply flat_map_app. Qed.
Lemma iproj_app a b : iproj (a ++ b) = iproj a ++ iproj b.
Proof. apply flat_map_app. Qed.
Lemma kproj_app a b : kproj (a ++ b) = kproj a ++ kproj b.
Proof. apply flat_map_app. Qed.

(* ---- inside NoHydrate ---- *)
Definition inert (r : list litem * nat) (cnt : nat) : Prop := snd r = cnt /\ keys (fst r) = [] /\ iproj (fst r) = [].

Lemma lay_list_inert (b : view -> nat -> list litem * nat) :
  (forall v cnt, inert (b v cnt) cnt) -> forall vs cnt, inert (lay_list_with b vs cnt) cnt.
Proof.
  intros Hb. induction vs as [|x r IH]; intros cnt; cbn [lay_list_with]; [repeat split|].
  destruct (Hb x cnt) as [H1 [H2 H3]]. destruct (b x cnt) as [a c1]. cbn [fst snd] in *. subst c1.
  destruct (IH cnt) as [H4 [H5 H6]]. destruct (lay_list_with b r cnt) as [bs c2]. cbn [fst snd] in *.
  unfold inert. cbn [fst snd]. rewrite keys_app, iproj_app, H2, H3, H5, H6. auto.
Qed.

Lemma lay_false f st : forall v cnt, inert (lay f st false v cnt) cnt.
Proof.
  induction f as [|f IH]; intros v cnt; [repeat split|].
  pose proof (lay_list_inert _ IH) as LL.
  destruct v as [tag attrs children|s|k|k a b|vs|k vs|kd k tmpl| |vs|vs|vs]; cbn [lay]; try (repeat split; fail); try apply LL.
  - destruct (LL children cnt) as [H1 [H2 H3]]. destruct (lay_list_with _ children cnt) as [ch c2]. cbn [fst snd] in *.
    unfold inert, keys, iproj. cbn [fst snd flat_map keys_i iproj1 app]. rewrite app_nil_r. fold (keys (if is_void tag then [] else ch)).
    split; [exact H1|]. split; [|reflexivity]. destruct (is_void tag); [reflexivity|exact H2].
  - destruct (LL (if get_bool st k then a else b) cnt) as [H1 [H2 H3]]. destruct (lay_list_with _ _ cnt) as [ch c2]. cbn [fst snd] in *.
    unfold inert. cbn [fst snd]. change (LMark false :: ch ++ [LMark false]) with ([LMark false] ++ ch ++ [LMark false]).
    rewrite !keys_app, !iproj_app, H2, H3. auto.
  - destruct (LL vs cnt) as [H1 [H2 H3]]. destruct (lay_list_with _ vs cnt) as [ch c2]. cbn [fst snd] in *.
    unfold inert. cbn [fst snd]. change (LMark false :: ?x ++ [LMark false]) with ([LMark false] ++ x ++ [LMark false]).
    change (LMark false :: (if get_bool st k then ch else []) ++ [LMark false])
      with ([LMark false] ++ (if get_bool st k then ch else []) ++ [LMark false]).
    rewrite !keys_app, !iproj_app. destruct (get_bool st k); rewrite ?H2, ?H3; auto.
  - unfold inert. cbn [fst snd]. split; [reflexivity|].
    destruct (LL tmpl cnt) as [H1 [H2 H3]]. destruct (lay_list_with _ tmpl cnt) as [ch c2]. cbn [fst snd] in *.
    induction (get_list st k) as [|z r IHr]; cbn [flat_map]; [auto|]. rewrite keys_app, iproj_app, H2, H3. exact IHr.
Qed.

(* ---- the keys of a layout ---- *)
Definition kgood (lo hi : nat) (l : list nat) : Prop := StronglySorted lt l /\ Forall (fun k => lo <= k < hi) l.

Lemma kgood_nil lo hi : kgood lo hi [].
Proof. split; constructor. Qed.
Lemma kgood_app lo mid hi a b : lo <= mid -> mid <= hi -> kgood lo mid a -> kgood mid hi b -> kgood lo hi (a ++ b).
Proof.
  intros Hlm Hmh [Hsa Hfa] [Hsb Hfb]. split.
  - induction a as [|x r IH]; cbn [app]; [exact Hsb|].
    inversion Hsa as [|? ? Hsr Hxr]; subst. inversion Hfa as [|? ? Hx Hfr]; subst.
    constructor; [apply IH; assumption|]. apply Forall_app. split; [exact Hxr|].
    eapply Forall_impl; [|exact Hfb]. cbn. intros k Hk. lia.
  - apply Forall_app. split; (eapply Forall_impl; [|eassumption]); cbn; intros k Hk; lia.
Qed.
Lemma kgood_nodup lo hi l : kgood lo hi l -> NoDup l.
Proof.
  intros [H _]. induction H as [|x l Hs IH Hx]; constructor; [|exact IH].
  intros Hin. rewrite Forall_forall in Hx. specialize (Hx _ Hin). lia.
Qed.
Lemma kgood_empty lo l : kgood lo lo l -> l = [].
Proof. intros [_ H]. destruct l as [|x r]; [reflexivity|]. inversion H; subst. lia. Qed.

Definition kspec (r : list litem * nat) (cnt : nat) : Prop := cnt <= snd r /\ kgood cnt (snd r) (keys (fst r)).

Lemma lay_list_kspec (b : view -> nat -> list litem * nat) :
  (forall v cnt, kspec (b v cnt) cnt) -> forall vs cnt, kspec (lay_list_with b vs cnt) cnt.
Proof.
  intros Hb. induction vs as [|x r IH]; intros cnt; cbn [lay_list_with]; [split; [cbn; lia|apply kgood_nil]|].
  destruct (Hb x cnt) as [H1 H2]. destruct (b x cnt) as [a c1]. cbn [fst snd] in *.
  destruct (IH c1) as [H3 H4]. destruct (lay_list_with b r c1) as [bs c2]. cbn [fst snd] in *.
  split; cbn [fst snd]; [lia|]. rewrite keys_app. eapply kgood_app; eassumption.
Qed.

Lemma kgood_inert r cnt : inert r cnt -> kspec r cnt.
Proof. intros [H1 [H2 _]]. split; [lia|]. rewrite H2. apply kgood_nil. Qed.

Lemma lay_kspec f st : forall hyd v cnt, kspec (lay f st hyd v cnt) cnt.
Proof.
  induction f as [|f IH]; intros hyd v cnt; [split; [cbn; lia|apply kgood_nil]|].
  destruct hyd; [|apply kgood_inert; apply lay_false].
  pose proof (lay_list_kspec _ (IH true)) as LL.
  destruct v as [tag attrs children|s|k|k a b|vs|k vs|kd k tmpl| |vs|vs|vs]; cbn [lay];
    try (split; [cbn; lia|apply kgood_nil]); try apply LL.
  - destruct (LL children (S cnt)) as [H1 H2]. destruct (lay_list_with _ children (S cnt)) as [ch c2]. cbn [fst snd] in *.
    split; cbn [fst snd]; [lia|]. unfold keys. cbn [flat_map keys_i app]. rewrite app_nil_r.
    change (cnt :: flat_map keys_i (if is_void tag then [] else ch)) with ([cnt] ++ keys (if is_void tag then [] else ch)).
    apply (kgood_app cnt (S cnt) c2); [lia|lia| |].
    + split; [repeat constructor|constructor; [lia|constructor]].
    + destruct (is_void tag); [apply kgood_nil|exact H2].
  - destruct (LL (if get_bool st k then a else b) cnt) as [H1 H2]. destruct (lay_list_with _ _ cnt) as [ch c2]. cbn [fst snd] in *.
    split; cbn [fst snd]; [lia|]. change (LMark true :: ch ++ [LMark true]) with ([LMark true] ++ ch ++ [LMark true]).
    rewrite !keys_app. cbn [keys flat_map keys_i app]. rewrite app_nil_r. exact H2.
  - destruct (LL vs cnt) as [H1 H2]. destruct (lay_list_with _ vs cnt) as [ch c2]. cbn [fst snd] in *.
    split; cbn [fst snd]; [lia|].
    change (LMark true :: (if get_bool st k then ch else []) ++ [LMark true])
      with ([LMark true] ++ (if get_bool st k then ch else []) ++ [LMark true]).
    rewrite !keys_app. cbn [keys flat_map keys_i app]. rewrite app_nil_r.
    destruct (get_bool st k); [exact H2|apply kgood_nil].
  - apply kgood_inert. apply lay_list_inert. apply lay_false.
  - split; cbn [fst snd]; [lia|]. unfold keys. cbn [flat_map keys_i app].
    split; [repeat constructor|constructor; [lia|constructor]].
Qed.

(* ---- the slot condition does not depend on the counter ---- *)
Definition strip (i : litem) : litem := match i with LEl _ _ => LEl None [] | x => x end.

Lemma ok_texts_strip l : forall seen, ok_texts seen (map strip l) = ok_texts seen l.
Proof. induction l as [|x r IH]; intros seen; [reflexivity|]. destruct x as [k ch|[|] s|h]; cbn [map strip ok_texts]; rewrite ?IH; reflexivity. Qed.
Lemma ok_marks_strip l : forall seen, ok_marks seen (map strip l) = ok_marks seen l.
Proof. induction l as [|x r IH]; intros seen; [reflexivity|]. destruct x as [k ch|h s|[|]]; cbn [map strip ok_marks]; rewrite ?IH; reflexivity. Qed.
Lemma ok_slots_strip l : ok_slots (map strip l) = ok_slots l.
Proof. unfold ok_slots. rewrite ok_texts_strip, ok_marks_strip. reflexivity. Qed.

Lemma lay_list_strip (b : view -> nat -> list litem * nat) :
  (forall v c1 c2, map strip (fst (b v c1)) = map strip (fst (b v c2))) ->
  forall vs c1 c2, map strip (fst (lay_list_with b vs c1)) = map strip (fst (lay_list_with b vs c2)).
Proof.
  intros Hb. induction vs as [|x r IH]; intros c1 c2; cbn [lay_list_with]; [reflexivity|].
  specialize (Hb x c1 c2). destruct (b x c1) as [a1 d1]. destruct (b x c2) as [a2 d2].
  specialize (IH d1 d2). destruct (lay_list_with b r d1) as [b1 e1]. destruct (lay_list_with b r d2) as [b2 e2].
  cbn [fst] in *. rewrite !map_app, Hb, IH. reflexivity.
Qed.

Lemma lay_strip f st : forall hyd v c1 c2, map strip (fst (lay f st hyd v c1)) = map strip (fst (lay f st hyd v c2)).
Proof.
  induction f as [|f IH]; intros hyd v c1 c2; [reflexivity|].
  pose proof (fun h => lay_list_strip _ (IH h)) as LL.
  destruct v as [tag attrs children|s|k|k a b|vs|k vs|kd k tmpl| |vs|vs|vs]; cbn [lay]; try reflexivity; try apply LL.
  - destruct (lay_list_with _ children (if hyd then S c1 else c1)) as [ch1 d1].
    destruct (lay_list_with _ children (if hyd then S c2 else c2)) as [ch2 d2]. reflexivity.
  - specialize (LL hyd (if get_bool st k then a else b) c1 c2).
    destruct (lay_list_with _ _ c1) as [ch1 d1]. destruct (lay_list_with _ _ c2) as [ch2 d2]. cbn [fst] in *.
    cbn [map]. rewrite !map_app, LL. reflexivity.
  - specialize (LL hyd vs c1 c2).
    destruct (lay_list_with _ _ c1) as [ch1 d1]. destruct (lay_list_with _ _ c2) as [ch2 d2]. cbn [fst] in *.
    cbn [map]. rewrite !map_app. destruct (get_bool st k); [rewrite LL|]; reflexivity.
  - cbn [fst]. destruct hyd; [reflexivity|]. specialize (LL false tmpl c1 c2).
    induction (get_list st k) as [|z r IHr]; cbn [flat_map]; [reflexivity|]. rewrite !map_app, LL, IHr. reflexivity.
Qed.

Lemma ok_slots_lay_list f st hyd vs c1 c2 :
  ok_slots (fst (lay_list_with (lay f st hyd) vs c1)) = ok_slots (fst (lay_list_with (lay f st hyd) vs c2)).
Proof. rewrite <- ok_slots_strip, (lay_list_strip _ (lay_strip f st hyd) vs c1 c2), ok_slots_strip. reflexivity. Qed.

(* ---- the number of keys handed out does not depend on the counter ---- *)
Lemma lay_list_count (b : view -> nat -> list litem * nat) :
  (forall v c1 c2, snd (b v c1) + c2 = snd (b v c2) + c1) ->
  forall vs c1 c2, snd (lay_list_with b vs c1) + c2 = snd (lay_list_with b vs c2) + c1.
Proof.
  intros Hb. induction vs as [|x r IH]; intros c1 c2; cbn [lay_list_with]; [cbn; lia|].
  specialize (Hb x c1 c2). destruct (b x c1) as [a1 d1]. destruct (b x c2) as [a2 d2].
  specialize (IH d1 d2). destruct (lay_list_with b r d1) as [b1 e1]. destruct (lay_list_with b r d2) as [b2 e2].
  cbn [snd] in *. lia.
Qed.

Lemma lay_count f st : forall hyd v c1 c2, snd (lay f st hyd v c1) + c2 = snd (lay f st hyd v c2) + c1.
Proof.
  induction f as [|f IH]; intros hyd v c1 c2; [cbn; lia|].
  pose proof (fun h => lay_list_count _ (IH h)) as LL.
  destruct v as [tag attrs children|s|k|k a b|vs|k vs|kd k tmpl| |vs|vs|vs]; cbn [lay]; try (cbn; lia); try apply LL.
  - specialize (LL hyd children (if hyd then S c1 else c1) (if hyd then S c2 else c2)).
    destruct (lay_list_with _ children (if hyd then S c1 else c1)) as [ch1 d1].
    destruct (lay_list_with _ children (if hyd then S c2 else c2)) as [ch2 d2]. cbn [snd] in *. destruct hyd; lia.
  - specialize (LL hyd (if get_bool st k then a else b) c1 c2).
    destruct (lay_list_with _ _ c1) as [ch1 d1]. destruct (lay_list_with _ _ c2) as [ch2 d2]. exact LL.
  - specialize (LL hyd vs c1 c2).
    destruct (lay_list_with _ _ c1) as [ch1 d1]. destruct (lay_list_with _ _ c2) as [ch2 d2]. exact LL.
  - destruct hyd; cbn; lia.
Qed.

Lemma lay_list_nokeys f st hyd vs cnt :
  Nat.eqb (snd (lay_list_with (lay f st hyd) vs 0)) 0 = true -> snd (lay_list_with (lay f st hyd) vs cnt) = cnt.
Proof.
  intros H. apply Nat.eqb_eq in H. pose proof (lay_list_count _ (lay_count f st hyd) vs 0 cnt) as E. lia.
Qed.

(* ---- nothing is keyed below an element without key ---- *)
Inductive lwf : list litem -> Prop :=
| lwf_nil : lwf []
| lwf_text h s r : lwf r -> lwf (LText h s :: r)
| lwf_mark h r : lwf r -> lwf (LMark h :: r)
| lwf_keyed c ch r : lwf ch -> lwf r -> lwf (LEl (Some c) ch :: r)
| lwf_plain ch r : keys ch = [] -> lwf r -> lwf (LEl None ch :: r).

Lemma lwf_app a b : lwf a -> lwf b -> lwf (a ++ b).
Proof. induction 1; intros Hb; cbn [app]; [exact Hb| | | |]; constructor; auto. Qed.

Lemma lay_list_lwf (b : view -> nat -> list litem * nat) :
  (forall v cnt, lwf (fst (b v cnt))) -> forall vs cnt, lwf (fst (lay_list_with b vs cnt)).
Proof.
  intros Hb. induction vs as [|x r IH]; intros cnt; cbn [lay_list_with]; [constructor|].
  specialize (Hb x cnt). destruct (b x cnt) as [a c1]. specialize (IH c1). destruct (lay_list_with b r c1) as [bs c2].
  cbn [fst] in *. apply lwf_app; assumption.
Qed.

Lemma lay_lwf f st : forall hyd v cnt, lwf (fst (lay f st hyd v cnt)).
Proof.
  induction f as [|f IH]; intros hyd v cnt; [constructor|].
  pose proof (fun h => lay_list_lwf _ (IH h)) as LL.
  destruct v as [tag attrs children|s|k|k a b|vs|k vs|kd k tmpl| |vs|vs|vs]; cbn [lay]; try (constructor; fail); try apply LL.
  - pose proof (LL hyd children (if hyd then S cnt else cnt)) as H.
    pose proof (lay_list_inert _ (lay_false f st) children cnt) as HI.
    destruct hyd.
    + destruct (lay_list_with _ children (S cnt)) as [ch c2]. cbn [fst] in *.
      constructor; [destruct (is_void tag); [constructor|exact H]|constructor].
    + destruct (lay_list_with _ children cnt) as [ch c2]. cbn [fst snd] in *. destruct HI as [_ [HI _]].
      constructor; [destruct (is_void tag); [reflexivity|exact HI]|constructor].
  - constructor. constructor.
  - specialize (LL hyd (if get_bool st k then a else b) cnt). destruct (lay_list_with _ _ cnt) as [ch c2]. cbn [fst] in *.
    constructor. apply lwf_app; [exact LL|repeat constructor].
  - specialize (LL hyd vs cnt). destruct (lay_list_with _ vs cnt) as [ch c2]. cbn [fst] in *.
    constructor. apply lwf_app; [destruct (get_bool st k); [exact LL|constructor]|repeat constructor].
  - cbn [fst]. destruct hyd; [constructor|]. specialize (LL false tmpl cnt).
    induction (get_list st k) as [|z r IHr]; cbn [flat_map]; [constructor|]. apply lwf_app; assumption.
  - cbn [fst]. destruct hyd; constructor; try reflexivity; constructor.
Qed.
