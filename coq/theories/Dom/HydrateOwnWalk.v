(* Dom/HydrateOwnWalk.v -- C09, identities: the walk [hydi] against the owned part of the DOM.
   The invariant of Dom/HydrateWalk.v is carried along ([postf] = [post] for the kinds, the state and the DOM), extended
   by what the walk says about the instance it returns ([facts]): its kinds are the kinds of the instance, its element
   skeleton is the keyed skeleton of the layout with every element identified by the registry lookup of its key, the
   elements it claims are pairwise distinct server elements, and the owned part of the DOM after the call is the owned
   part before it with the kinds of every claimed element woven into that element's child list ([fill]).
   Final statement: [hydi_owns] -- the owned part of the hydrated DOM is the owned part of the instance. *)
From Coq Require Import List String Ascii Bool Arith ZArith Lia.
From Syc Require Import Common.Show Common.ShowFacts Ssr.Html Ssr.View Dom.Client Dom.ClientFacts Dom.ClientIds Dom.HydrateInst Dom.HydrateInstFacts.
From Syc Require Import Dom.Hydrate Dom.HydrateSpec Dom.HydrateRel Dom.HydrateForest Dom.HydrateLay Dom.HydrateWalk Dom.HydrateServer Dom.HydrateFacts Dom.HydrateOwn.
Import ListNotations.
Open Scope string_scope.
Open Scope list_scope.

(* ---- the registry: which element a key finds ---- *)
Fixpoint idkeys_n (n : hnode) : list (nat * string) :=
  match n with
  | HEl id _ a ch => (match hk_of a with Some k => [(id, k)] | None => [] end) ++ flat_map idkeys_n ch
  | _ => []
  end.
Definition idkeys (l : list hnode) : list (nat * string) := flat_map idkeys_n l.

Lemma idkeys_cons n r : idkeys (n :: r) = idkeys_n n ++ idkeys r.
Proof. reflexivity. Qed.
Lemma idkeys_El id t a ch : idkeys_n (HEl id t a ch) = (match hk_of a with Some k => [(id, k)] | None => [] end) ++ idkeys ch.
Proof. reflexivity. Qed.

Lemma find_hk_in key n : forall id, find_hk key n = Some id -> In (id, key) (idkeys_n n).
Proof.
  induction n as [id0 tag a ch IH|id0 s|id0 s] using hnode_ind'; intros id H; try discriminate H.
  rewrite find_hk_El in H. rewrite idkeys_El.
  assert (L : find_hk_list key ch = Some id -> In (id, key) (idkeys ch)).
  { clear H. induction IH as [|x r Hx Hr IHr]; intros H; [discriminate H|]. rewrite find_hk_list_cons in H. rewrite idkeys_cons.
    apply in_or_app. destruct (find_hk key x) as [i|] eqn:E; [inversion H; subst; left; apply Hx; reflexivity|right; exact (IHr H)]. }
  destruct (hk_of a) as [k|].
  - destruct (String.eqb k key) eqn:E.
    + apply String.eqb_eq in E. inversion H; subst. left. reflexivity.
    + right. exact (L H).
  - exact (L H).
Qed.
Lemma find_hk_list_in key l id : find_hk_list key l = Some id -> In (id, key) (idkeys l).
Proof.
  induction l as [|x r IH]; intros H; [discriminate H|]. rewrite find_hk_list_cons in H. rewrite idkeys_cons. apply in_or_app.
  destruct (find_hk key x) as [i|] eqn:E; [inversion H; subst; left; apply find_hk_in; exact E|right; exact (IH H)].
Qed.

Lemma idkeys_subseq_n n : subseq (map fst (idkeys_n n)) (elids_n n).
Proof.
  induction n as [id tag a ch IH|id s|id s] using hnode_ind'; [|constructor|constructor].
  rewrite idkeys_El, elids_El, map_app.
  assert (L : subseq (map fst (idkeys ch)) (elids ch)).
  { induction IH as [|x r Hx Hr IHr]; [constructor|]. rewrite idkeys_cons, elids_cons, map_app. apply subseq_app; assumption. }
  destruct (hk_of a); cbn [map fst app]; [apply ss_keep|apply ss_skip]; exact L.
Qed.
Lemma idkeys_subseq l : subseq (map fst (idkeys l)) (elids l).
Proof. induction l as [|x r IH]; [constructor|]. rewrite idkeys_cons, elids_cons, map_app. apply subseq_app; [apply idkeys_subseq_n|exact IH]. Qed.

Lemma NoDup_fst_fun {A B} (l : list (A * B)) a b1 b2 : NoDup (map fst l) -> In (a, b1) l -> In (a, b2) l -> b1 = b2.
Proof.
  induction l as [|[x y] r IH]; intros ND H1 H2; [destruct H1|]. cbn [map fst] in ND. inversion ND as [|? ? Hn ND']; subst.
  destruct H1 as [H1|H1]; destruct H2 as [H2|H2].
  - inversion H1; inversion H2; subst. reflexivity.
  - inversion H1; subst. exfalso. apply Hn. apply in_map_iff. exists (a, b2). split; [reflexivity|exact H2].
  - inversion H2; subst. exfalso. apply Hn. apply in_map_iff. exists (a, b1). split; [reflexivity|exact H1].
  - exact (IH ND' H1 H2).
Qed.

(* two keys that find the same element are the same key *)
Lemma find_inj hs c1 c2 e : NoDup (elids hs) ->
  find_hk_list (key_str c1) hs = Some e -> find_hk_list (key_str c2) hs = Some e -> c1 = c2.
Proof.
  intros ND H1 H2. apply find_hk_list_in in H1. apply find_hk_list_in in H2.
  pose proof (subseq_NoDup _ _ (idkeys_subseq hs) ND) as ND'.
  apply key_str_inj. exact (NoDup_fst_fun _ _ _ _ ND' H1 H2).
Qed.

(* the keys of the DOM are the keys of the layout *)
Lemma rel_idkeys fresh P nt nm its hs0 hs : rel fresh P nt nm its hs0 hs -> map snd (idkeys hs0) = map key_str (keys its).
Proof.
  induction 1 as [nt nm|nt nm n its hs0 hs Hn Hr IH|nt nm key ch its id tag a0 a cs0 cs hs0 hs nt' nm' Hid Hok Hc IHc Hr IH
                 |nt nm h s i x its hs0 hs Hh Hi Hx Hr IH|nt nm s i x j its hs0 hs Hi Hx Hj Hr IH
                 |nt nm h i its hs0 hs Hh Hi Hr IH|nt nm i j its hs0 hs Hi Hj Hr IH]; rewrite ?idkeys_cons, ?keys_cons, ?map_app.
  - reflexivity.
  - rewrite IH. destruct n; cbn in Hn; [tauto|reflexivity|reflexivity].
  - rewrite idkeys_El, keys_El, !map_app, IHc, IH. destruct (el_ok_hk _ _ _ _ _ _ _ Hok) as [_ E]. rewrite E.
    destruct key; reflexivity.
  - rewrite IH. inversion Hx; reflexivity.
  - rewrite IH. inversion Hx; reflexivity.
  - rewrite IH. reflexivity.
  - rewrite IH. reflexivity.
Qed.

Lemma NoDup_snd_fun {A B} (l : list (A * B)) a1 a2 b : NoDup (map snd l) -> In (a1, b) l -> In (a2, b) l -> a1 = a2.
Proof.
  induction l as [|[x y] r IH]; intros ND H1 H2; [destruct H1|]. cbn [map snd] in ND. inversion ND as [|? ? Hn ND']; subst.
  destruct H1 as [H1|H1]; destruct H2 as [H2|H2].
  - inversion H1; inversion H2; subst. reflexivity.
  - inversion H1; subst. exfalso. apply Hn. apply in_map_iff. exists (a2, b). split; [reflexivity|exact H2].
  - inversion H2; subst. exfalso. apply Hn. apply in_map_iff. exists (a1, b). split; [reflexivity|exact H1].
  - exact (IH ND' H1 H2).
Qed.

Lemma NoDup_map_inj {A B} (g : A -> B) l : (forall x y, g x = g y -> x = y) -> NoDup l -> NoDup (map g l).
Proof.
  intros Hg. induction 1 as [|x l Hx Hl IH]; cbn [map]; constructor; [|exact IH].
  intros Hin. apply in_map_iff in Hin. destruct Hin as (y & E & Hy). apply Hg in E. subst y. contradiction.
Qed.

(* ---- the keyed skeleton of a layout, every element identified by [idof] ---- *)
Fixpoint lsk1 (idof : nat -> nat) (it : litem) : list onode :=
  match it with
  | LEl (Some c) ch => [OEl (idof c) (flat_map (lsk1 idof) ch)]
  | _ => []
  end.
Definition lsk (idof : nat -> nat) (its : list litem) : list onode := flat_map (lsk1 idof) its.

Lemma lsk_cons idof i r : lsk idof (i :: r) = lsk1 idof i ++ lsk idof r.
Proof. reflexivity. Qed.
Lemma lsk_app idof a b : lsk idof (a ++ b) = lsk idof a ++ lsk idof b.
Proof. apply flat_map_app. Qed.
Lemma lsk_nokeys idof its : keys its = [] -> lsk idof its = [].
Proof.
  induction its as [|i r IH]; intros H; [reflexivity|]. rewrite keys_cons in H. apply app_eq_nil in H. destruct H as [H1 H2].
  rewrite lsk_cons, (IH H2), app_nil_r. destruct i as [[c|] ch|h s|h]; try reflexivity. rewrite keys_El in H1. discriminate H1.
Qed.

(* the server DOM, nothing touched: its owned part is the keyed skeleton *)
Lemma rel_owns_init fresh P idof nt nm its hs0 hs : rel fresh P nt nm its hs0 hs -> nt = 0 -> nm = 0 ->
  (forall c, P c = Untouched) -> (forall c id, In (id, key_str c) (idkeys hs0) -> idof c = id) ->
  owns fresh hs = lsk idof its.
Proof.
  induction 1 as [nt nm|nt nm n its hs0 hs Hn Hr IH|nt nm key ch its id tag a0 a cs0 cs hs0 hs nt' nm' Hid Hok Hc IHc Hr IH
                 |nt nm h s i x its hs0 hs Hh Hi Hx Hr IH|nt nm s i x j its hs0 hs Hi Hx Hj Hr IH
                 |nt nm h i its hs0 hs Hh Hi Hr IH|nt nm i j its hs0 hs Hi Hj Hr IH];
    intros Hnt Hnm HP HI; rewrite ?owns_cons, ?lsk_cons.
  - reflexivity.
  - rewrite (own_skippable _ _ Hn). apply IH; [exact Hnt|exact Hnm|exact HP|]. intros c id0 Hin. apply HI. rewrite idkeys_cons. apply in_or_app. right. exact Hin.
  - rewrite own_El, (has_key_el_ok _ _ _ _ _ _ _ Hok).
    assert (Hz : nt' = 0 /\ nm' = 0).
    { unfold el_ok in Hok. destruct Hok as [_ Hok]. destruct key as [c|]; [destruct Hok as [_ H1]; rewrite HP in H1; tauto|tauto]. }
    destruct Hz as [Z1 Z2].
    assert (HIc : forall c id0, In (id0, key_str c) (idkeys cs0) -> idof c = id0).
    { intros c id0 Hin. apply HI. rewrite idkeys_cons, idkeys_El. apply in_or_app. left. apply in_or_app. right. exact Hin. }
    assert (HIr : forall c id0, In (id0, key_str c) (idkeys hs0) -> idof c = id0).
    { intros c id0 Hin. apply HI. rewrite idkeys_cons. apply in_or_app. right. exact Hin. }
    rewrite (IH Hnt Hnm HP HIr). destruct key as [c|]; [|reflexivity]. cbn [lsk1]. fold (lsk idof ch).
    rewrite (IHc Z1 Z2 HP HIc). f_equal. f_equal. f_equal. symmetry. apply HI.
    rewrite idkeys_cons, idkeys_El. destruct (el_ok_hk _ _ _ _ _ _ _ Hok) as [_ E]. rewrite E. left. reflexivity.
  - rewrite own_com_t, (own_slotval _ _ _ Hx). cbn [app lsk1]. apply IH; [exact Hnt|exact Hnm|exact HP|].
    intros c id0 Hin. apply HI. rewrite !idkeys_cons. apply in_or_app. right. apply in_or_app. right. exact Hin.
  - discriminate Hnt.
  - rewrite own_com_slash. cbn [app lsk1]. apply IH; [exact Hnt|exact Hnm|exact HP|].
    intros c id0 Hin. apply HI. rewrite idkeys_cons. apply in_or_app. right. exact Hin.
  - discriminate Hnm.
Qed.

(* ---- the instance: its kinds, its element skeleton, the elements it holds with the kinds of their children ---- *)
Fixpoint ikinds (sbase : nat) (i : inst) : list hkind :=
  match i with
  | IEl id _ _ _ => [KEl id]
  | IText id s => if Nat.ltb id sbase then [KTextDyn id s] else [KTextStatic]
  | IDyn m1 m2 ch => KMarker m1 :: flat_map (ikinds sbase) ch ++ [KMarker m2]
  | IShow m1 m2 vis ch => KMarker m1 :: (if vis then flat_map (ikinds sbase) ch else []) ++ [KMarker m2]
  | IList m1 m2 items => KMarker m1 :: flat_map (fun p => flat_map (ikinds sbase) (snd p)) items ++ [KMarker m2]
  | IGroup ch => flat_map (ikinds sbase) ch
  end.

Fixpoint ielsk (i : inst) : list onode :=
  match i with
  | IEl id _ _ ch => [OEl id (flat_map ielsk ch)]
  | IText _ _ => []
  | IDyn _ _ ch | IGroup ch => flat_map ielsk ch
  | IShow _ _ vis ch => if vis then flat_map ielsk ch else []
  | IList _ _ items => flat_map (fun p => flat_map ielsk (snd p)) items
  end.

(* every element, children before parents (the order in which the walk completes them) *)
Fixpoint iel_k (sbase : nat) (i : inst) : list (nat * list hkind) :=
  match i with
  | IEl id _ _ ch => flat_map (iel_k sbase) ch ++ [(id, flat_map (ikinds sbase) ch)]
  | IText _ _ => []
  | IDyn _ _ ch | IShow _ _ _ ch | IGroup ch => flat_map (iel_k sbase) ch
  | IList _ _ items => flat_map (fun p => flat_map (iel_k sbase) (snd p)) items
  end.
(* those that are in the DOM *)
Fixpoint vels (sbase : nat) (i : inst) : list (nat * list hkind) :=
  match i with
  | IEl id _ _ ch => flat_map (vels sbase) ch ++ [(id, flat_map (ikinds sbase) ch)]
  | IText _ _ => []
  | IDyn _ _ ch | IGroup ch => flat_map (vels sbase) ch
  | IShow _ _ vis ch => if vis then flat_map (vels sbase) ch else []
  | IList _ _ items => flat_map (fun p => flat_map (vels sbase) (snd p)) items
  end.

Lemma incl_flat_map {A B} (f g : A -> list B) l : Forall (fun x => incl (f x) (g x)) l -> incl (flat_map f l) (flat_map g l).
Proof. induction 1 as [|x r Hx _ IH]; cbn [flat_map]; [intros y []|]. apply incl_app; [apply incl_appl|apply incl_appr]; assumption. Qed.

Lemma vels_incl sbase i : incl (vels sbase i) (iel_k sbase i).
Proof.
  induction i as [id tag attrs ch IH|id s|m1 m2 ch IH|m1 m2 b ch IH|m1 m2 items IH|ch IH] using inst_ind'; cbn [vels iel_k].
  - apply incl_app; [apply incl_appl; apply incl_flat_map; exact IH|apply incl_appr; apply incl_refl].
  - apply incl_refl.
  - apply incl_flat_map; exact IH.
  - destruct b; [apply incl_flat_map; exact IH|intros y []].
  - apply incl_flat_map. eapply Forall_impl; [|exact IH]. cbn beta. intros p Hp. apply incl_flat_map. exact Hp.
  - apply incl_flat_map; exact IH.
Qed.

Fixpoint nkel (ks : list hkind) : nat := match ks with [] => 0 | KEl _ :: r => S (nkel r) | _ :: r => nkel r end.
Lemma nkel_app a b : nkel (a ++ b) = nkel a + nkel b.
Proof. induction a as [|k r IH]; [reflexivity|]. destruct k; cbn [app nkel]; rewrite IH; reflexivity. Qed.

Lemma weave_app : forall ks1 E1 E2 ks2, nkel ks1 = List.length E1 ->
  weave (E1 ++ E2) (ks1 ++ ks2) = weave E1 ks1 ++ weave E2 ks2.
Proof.
  induction ks1 as [|k r IH]; intros E1 E2 ks2 H.
  - cbn in H. destruct E1; [reflexivity|discriminate H].
  - destruct k as [eid|id s| |id]; cbn [nkel] in H; cbn [app weave].
    + destruct E1 as [|e E1']; [discriminate H|]. cbn [List.length] in H. injection H as H. cbn [app]. rewrite IH by exact H. reflexivity.
    + rewrite IH by exact H. reflexivity.
    + apply IH. exact H.
    + rewrite IH by exact H. reflexivity.
Qed.

Lemma flat_flat {A B C} (g : B -> list C) (f : A -> list B) l : flat_map g (flat_map f l) = flat_map (fun x => flat_map g (f x)) l.
Proof. induction l as [|x r IH]; cbn [flat_map]; [reflexivity|]. rewrite flat_map_app, IH. reflexivity. Qed.
Lemma Forall_flat {A B} (Q : B -> Prop) (f : A -> list B) l : Forall (fun x => Forall Q (f x)) l -> Forall Q (flat_map f l).
Proof. induction 1 as [|x r Hx _ IH]; cbn [flat_map]; [constructor|]. apply Forall_app. split; assumption. Qed.

Lemma nkel_list sbase is : Forall (fun i => nkel (ikinds sbase i) = List.length (ielsk i)) is ->
  nkel (flat_map (ikinds sbase) is) = List.length (flat_map ielsk is).
Proof. induction 1 as [|x r Hx _ IH]; [reflexivity|]. cbn [flat_map]. rewrite nkel_app, app_length, Hx, IH. reflexivity. Qed.

Lemma nkel_iskel sbase i : nkel (ikinds sbase i) = List.length (ielsk i).
Proof.
  induction i as [id tag attrs ch IH|id s|m1 m2 ch IH|m1 m2 b ch IH|m1 m2 items IH|ch IH] using inst_ind'; cbn [ikinds ielsk].
  - reflexivity.
  - destruct (Nat.ltb id sbase); reflexivity.
  - cbn [nkel]. rewrite nkel_app. cbn [nkel]. rewrite Nat.add_0_r. apply nkel_list. exact IH.
  - cbn [nkel]. rewrite nkel_app. cbn [nkel]. rewrite Nat.add_0_r. destruct b; [apply nkel_list; exact IH|reflexivity].
  - cbn [nkel]. rewrite nkel_app. cbn [nkel]. rewrite Nat.add_0_r. rewrite <- !flat_flat. apply nkel_list. apply Forall_flat. exact IH.
  - apply nkel_list. exact IH.
Qed.
Lemma nkel_iskel_list sbase is : nkel (flat_map (ikinds sbase) is) = List.length (flat_map ielsk is).
Proof. apply nkel_list. apply Forall_forall. intros i _. apply nkel_iskel. Qed.

Definition kcond (k : list (nat * list hkind)) (p : nat * list hkind) : Prop := assoc k (fst p) = Some (snd p).

(* weaving the kinds of an instance into its filled skeleton gives its owned DOM *)
Lemma iown_list sbase k is :
  Forall (fun i => Forall (kcond k) (vels sbase i) -> weave (map (fill k) (ielsk i)) (ikinds sbase i) = iown sbase i) is ->
  Forall (kcond k) (flat_map (vels sbase) is) ->
  weave (map (fill k) (flat_map ielsk is)) (flat_map (ikinds sbase) is) = flat_map (iown sbase) is.
Proof.
  induction 1 as [|x r Hx _ IH]; intros HC; [reflexivity|]. cbn [flat_map] in *. apply Forall_app in HC. destruct HC as [HC1 HC2].
  rewrite map_app, weave_app by (rewrite map_length; apply nkel_iskel). rewrite (Hx HC1), (IH HC2). reflexivity.
Qed.

Lemma weave_markers E m1 m2 ks : nkel ks = List.length E ->
  weave E (KMarker m1 :: ks ++ [KMarker m2]) = OMark m1 :: weave E ks ++ [OMark m2].
Proof.
  intros H. cbn [weave]. f_equal. rewrite <- (app_nil_r E) at 1. rewrite weave_app by exact H. reflexivity.
Qed.

Theorem iown_weave sbase k i : Forall (kcond k) (vels sbase i) ->
  weave (map (fill k) (ielsk i)) (ikinds sbase i) = iown sbase i.
Proof.
  induction i as [id tag attrs ch IH|id s|m1 m2 ch IH|m1 m2 b ch IH|m1 m2 items IH|ch IH] using inst_ind'; intros HC; cbn [vels] in HC; cbn [ikinds ielsk iown].
  - apply Forall_app in HC. destruct HC as [HC1 HC2]. inversion HC2 as [|? ? Hk _]; subst. unfold kcond in Hk. cbn [fst snd] in Hk.
    cbn [map fill weave]. rewrite Hk. rewrite (iown_list sbase k ch IH HC1). reflexivity.
  - destruct (Nat.ltb id sbase); reflexivity.
  - rewrite weave_markers by (rewrite map_length; apply nkel_iskel_list). rewrite (iown_list sbase k ch IH HC). reflexivity.
  - destruct b.
    + rewrite weave_markers by (rewrite map_length; apply nkel_iskel_list). rewrite (iown_list sbase k ch IH HC). reflexivity.
    + reflexivity.
  - rewrite <- !flat_flat in *. rewrite weave_markers by (rewrite map_length; apply nkel_iskel_list).
    rewrite (iown_list sbase k (flat_map snd items) (Forall_flat _ _ _ IH) HC). reflexivity.
  - exact (iown_list sbase k ch IH HC).
Qed.

(* ---------------------------------------------------------------------------------- *)
Section Walk2.
Variable fresh : nat.
Variable G : list litem.
Variable hs0 : list hnode.
Hypothesis NDk : NoDup (keys G).
Hypothesis NDi : NoDup (elids hs0).
Variable sbase : nat.
Variable S0 : list onode.

Definition idof (c : nat) : nat := match find_hk_list (key_str c) hs0 with Some e => e | None => 0 end.
Definition finds (e c : nat) : Prop := find_hk_list (key_str c) hs0 = Some e.
Definition older (ky e : nat) : Prop := exists c, c < ky /\ finds e c.

Definition facts (st : hstate) (sn : nat) (its : list litem) (cnt' : nat)
           (ks : list hkind) (is : list inst) (st' : hstate) (sn' : nat) : Prop :=
  sn <= sn'
  /\ flat_map ielsk is = lsk idof its
  /\ (exists L, Forall2 finds (map fst (flat_map (iel_k sbase) is)) L /\ NoDup L /\ Forall (fun c => h_key st <= c < cnt') L)
  /\ (h_next st' <= sbase -> sbase <= sn ->
        ks = flat_map (ikinds sbase) is
        /\ forall k0, Forall (older (h_key st)) (map fst k0) ->
                      owns fresh (h_dom st) = map (fill k0) S0 ->
                      owns fresh (h_dom st') = map (fill (k0 ++ flat_map (iel_k sbase) is)) S0).

Definition postf (P : nat -> est) (st : hstate) (sn : nat) (its : list litem) (cnt' : nat) (e : bool) (r : hlres) : Prop :=
  exists ks is st' sn', r = HOk (ks, is, st', sn')
    /\ rel fresh (mark P (h_key st) cnt') 0 0 G hs0 (h_dom st')
    /\ h_key st' = cnt' /\ h_next st <= h_next st'
    /\ kproj ks = iproj its /\ Forall (kid_ge fresh) ks
    /\ (e = true -> only_elements ks = true)
    /\ facts st sn its cnt' ks is st' sn'.

Definition lift1 (r : hires) : hlres := match r with HOk (ks, i, st, sn) => HOk (ks, [i], st, sn) | HErr e => HErr e end.

Definition wspecf (hi : view -> hstate -> nat -> hires) (b : view -> nat -> list litem * nat) (Q E : view -> bool) : Prop :=
  forall v st sn P its cnt', Q v = true -> b v (h_key st) = (its, cnt') ->
    rel fresh P 0 0 G hs0 (h_dom st) -> sub G its -> untouched P (h_key st) cnt' -> fresh <= h_next st ->
    postf P st sn its cnt' (E v) (lift1 (hi v st sn)).

Lemma finds_older X : forall L lo hi, Forall2 finds X L -> Forall (fun c => lo <= c < hi) L -> Forall (older hi) X.
Proof.
  intros L lo hi H. induction H as [|e c X L He _ IH]; intros HF; [constructor|]. inversion HF; subst.
  constructor; [exists c; split; [lia|exact He]|apply IH; assumption].
Qed.
Lemma finds_in X L e : Forall2 finds X L -> In e X -> exists c, In c L /\ finds e c.
Proof.
  induction 1 as [|e' c X L He _ IH]; intros Hin; [destruct Hin|]. destruct Hin as [->|Hin].
  - exists c. split; [left; reflexivity|exact He].
  - destruct (IH Hin) as (c0 & H1 & H2). exists c0. split; [right; exact H1|exact H2].
Qed.
Lemma older_weaken a b e : a <= b -> older a e -> older b e.
Proof. intros H (c & H1 & H2). exists c. split; [lia|exact H2]. Qed.

Lemma facts_nil st sn : facts st sn [] (h_key st) [] [] st sn.
Proof.
  unfold facts. split; [lia|]. split; [reflexivity|]. split; [exists []; repeat split; constructor|].
  intros _ _. split; [reflexivity|]. intros k0 _ H0. cbn [flat_map]. rewrite app_nil_r. exact H0.
Qed.

Lemma facts_app st sn a c1 k1 is1 st1 sn1 bs c2 k2 is2 st2 sn2 :
  h_key st <= c1 -> c1 <= c2 -> h_key st1 = c1 -> h_next st1 <= h_next st2 ->
  facts st sn a c1 k1 is1 st1 sn1 -> facts st1 sn1 bs c2 k2 is2 st2 sn2 ->
  facts st sn (a ++ bs) c2 (k1 ++ k2) (is1 ++ is2) st2 sn2.
Proof.
  intros H1 H2 Hk Hn (A1 & A2 & (L1 & A3 & A4 & A5) & A6) (B1 & B2 & (L2 & B3 & B4 & B5) & B6). rewrite Hk in *.
  unfold facts. split; [lia|]. split; [rewrite flat_map_app, lsk_app, A2, B2; reflexivity|]. split.
  - exists (L1 ++ L2). rewrite flat_map_app, map_app. split; [apply Forall2_app; assumption|]. split.
    + apply NoDup_app_iff. split; [exact A4|]. split; [exact B4|]. intros x Hx1 Hx2.
      rewrite Forall_forall in A5, B5. specialize (A5 x Hx1). specialize (B5 x Hx2). lia.
    + apply Forall_app. split; (eapply Forall_impl; [|eassumption]); cbn beta; intros c Hc; lia.
  - intros Hb Hs. destruct (A6 ltac:(lia) Hs) as [K1 O1]. destruct (B6 Hb ltac:(lia)) as [K2 O2].
    split; [rewrite flat_map_app, K1, K2; reflexivity|]. intros k0 Hk0 H0.
    rewrite flat_map_app, app_assoc. apply O2; [|apply O1; assumption].
    rewrite map_app. apply Forall_app. split.
    + eapply Forall_impl; [|exact Hk0]. intros e. apply older_weaken. exact H1.
    + exact (finds_older _ _ _ _ A3 A5).
Qed.

Lemma walkf_list hi b Q E : wspecf hi b Q E -> (forall v c, kspec (b v c) c) ->
  forall vs st sn P its cnt', forallb Q vs = true -> lay_list_with b vs (h_key st) = (its, cnt') ->
    rel fresh P 0 0 G hs0 (h_dom st) -> sub G its -> untouched P (h_key st) cnt' -> fresh <= h_next st ->
    postf P st sn its cnt' (forallb E vs) (hydi_list_with hi vs st sn).
Proof.
  intros Hw Hk. induction vs as [|v r IH]; intros st sn P its cnt' HQ HL HR Hsub HU Hfr.
  - cbn [lay_list_with] in HL. inversion HL; subst. exists [], [], st, sn. cbn [hydi_list_with].
    split; [reflexivity|]. split.
    + eapply rel_ext; [exact HR|]. intros c _. symmetry. apply mark_out. lia.
    + split; [reflexivity|]. split; [lia|]. split; [reflexivity|]. split; [constructor|]. split; [intros _; reflexivity|].
      apply facts_nil.
  - cbn [forallb] in HQ. apply andb_prop in HQ. destruct HQ as [HQv HQr].
    cbn [lay_list_with] in HL. pose proof (Hk v (h_key st)) as K1. destruct (b v (h_key st)) as [a c1] eqn:E1.
    pose proof (lay_list_kspec b Hk r c1) as K2. destruct (lay_list_with b r c1) as [bs c2] eqn:E2.
    inversion HL; subst its cnt'. destruct K1 as [L1 _]. destruct K2 as [L2 _]. cbn [fst snd] in *.
    destruct (Hw v st sn P a c1 HQv E1 HR (sub_app_l _ _ _ Hsub)) as (k1 & i1 & st1 & sn1 & Eh & R1 & Hk1 & Hn1 & Hp1 & Hg1 & He1 & F1);
      [intros k Hkk; apply HU; lia|exact Hfr|].
    destruct (hi v st sn) as [[[[k1' i1'] st1'] sn1']|e] eqn:Ehi; cbn [lift1] in Eh; [|discriminate Eh]. inversion Eh; subst k1' i1 st1' sn1'.
    subst c1.
    destruct (IH st1 sn1 (mark P (h_key st) (h_key st1)) bs c2 HQr E2 R1 (sub_app_r _ _ _ Hsub))
      as (k2 & i2 & st2 & sn2 & Eh2 & R2 & Hk2 & Hn2 & Hp2 & Hg2 & He2 & F2).
    + intros k Hkk. rewrite mark_out by lia. apply HU. lia.
    + lia.
    + exists (k1 ++ k2), (i1' :: i2), st2, sn2. cbn [hydi_list_with]. rewrite Ehi, Eh2. split; [reflexivity|]. split.
      * eapply rel_ext; [exact R2|]. intros c _. unfold mark.
        destruct (Nat.leb_spec (h_key st1) c); destruct (Nat.ltb_spec c c2); destruct (Nat.leb_spec (h_key st) c);
          destruct (Nat.ltb_spec c (h_key st1)); cbn [andb]; try reflexivity; lia.
      * split; [exact Hk2|]. split; [lia|]. split; [rewrite kproj_app, iproj_app, Hp1, Hp2; reflexivity|].
        split; [apply Forall_app; split; assumption|]. split.
        -- cbn [forallb]. intros He. apply andb_prop in He. destruct He as [Hev Her].
           rewrite only_elements_app, (He1 Hev), (He2 Her). reflexivity.
        -- change (i1' :: i2) with ([i1'] ++ i2). eapply facts_app; [exact L1|exact L2|reflexivity|exact Hn2|exact F1|exact F2].
Qed.

(* a node that touches neither the DOM nor the key counter and holds no element *)
Lemma facts_leaf st sn its ks i n' sn' :
  sn <= sn' -> ielsk i = [] -> lsk idof its = [] -> iel_k sbase i = [] ->
  (n' <= sbase -> sbase <= sn -> ks = ikinds sbase i) ->
  facts st sn its (h_key st) ks [i] (HState (h_dom st) n' (h_key st)) sn'.
Proof.
  intros H1 H2 H3 H4 H5. unfold facts. cbn [flat_map h_next h_dom]. rewrite H2, H3, H4, !app_nil_r.
  split; [exact H1|]. split; [reflexivity|]. split; [exists []; repeat split; constructor|].
  intros Hb Hs. split; [exact (H5 Hb Hs)|]. intros k0 _ H0. rewrite app_nil_r. exact H0.
Qed.

Lemma postf_leaf P st sn its ks i n' sn' e :
  rel fresh P 0 0 G hs0 (h_dom st) -> h_next st <= n' -> kproj ks = iproj its -> Forall (kid_ge fresh) ks ->
  (e = true -> only_elements ks = true) ->
  facts st sn its (h_key st) ks [i] (HState (h_dom st) n' (h_key st)) sn' ->
  postf P st sn its (h_key st) e (lift1 (HOk (ks, i, HState (h_dom st) n' (h_key st), sn'))).
Proof.
  intros HR Hn Hp Hg He HF. exists ks, [i], (HState (h_dom st) n' (h_key st)), sn'. cbn [lift1 h_dom h_key h_next].
  split; [reflexivity|]. split; [apply rel_mark_empty; exact HR|]. auto 10.
Qed.

(* a construct around a list of views: same DOM parent, same elements *)
Lemma facts_wrap st0 st sn its its' cnt' ks ks' is i st' sn' :
  h_key st0 = h_key st -> h_dom st0 = h_dom st ->
  (flat_map ielsk is = lsk idof its -> ielsk i = lsk idof its') ->
  iel_k sbase i = flat_map (iel_k sbase) is ->
  (ks = flat_map (ikinds sbase) is -> ks' = ikinds sbase i) ->
  facts st0 sn its cnt' ks is st' sn' -> facts st sn its' cnt' ks' [i] st' sn'.
Proof.
  intros Hk Hd H1 H2 H3 (A1 & A2 & A3 & A4). rewrite Hk, Hd in *. unfold facts. cbn [flat_map]. rewrite !app_nil_r, H2.
  split; [exact A1|]. split; [exact (H1 A2)|]. split; [exact A3|].
  intros Hb Hs. destruct (A4 Hb Hs) as [K O]. split; [exact (H3 K)|exact O].
Qed.

Lemma lsk_markers its : lsk idof (LMark true :: its ++ [LMark true]) = lsk idof its.
Proof. rewrite lsk_cons, lsk_app. cbn [lsk1 lsk flat_map app]. rewrite app_nil_r. reflexivity. Qed.

(* a dynamic view *)
Lemma postf_dyn P dom nx ky sn its cnt' e (r : hlres) : fresh <= nx ->
  postf P (HState dom (S (S nx)) ky) sn its cnt' e r ->
  postf P (HState dom nx ky) sn (LMark true :: its ++ [LMark true]) cnt' false
    (lift1 (match r with
            | HOk (ks, is, st1, sn1) => HOk (KMarker nx :: ks ++ [KMarker (S nx)], IDyn nx (S nx) is, st1, sn1)
            | HErr e => HErr e
            end)).
Proof.
  intros Hfr (ks & is & st1 & sn1 & Er & R & Hk & Hn & Hp & Hg & _ & F). subst r. cbn [h_key h_next h_dom lift1] in *.
  exists (KMarker nx :: ks ++ [KMarker (S nx)]), [IDyn nx (S nx) is], st1, sn1. cbn [h_key h_next h_dom].
  split; [reflexivity|]. split; [exact R|]. split; [exact Hk|]. split; [lia|].
  split; [rewrite kproj_markers, iproj_markers, Hp; reflexivity|]. split.
  - constructor; [exact Hfr|]. apply Forall_app. split; [exact Hg|]. constructor; [cbn; lia|constructor].
  - split; [intros E; discriminate E|].
    eapply facts_wrap; [| | | | |exact F]; try reflexivity.
    + intros H. cbn [ielsk]. rewrite H, lsk_markers. reflexivity.
    + intros ->. reflexivity.
Qed.

(* a fragment or a component *)
Lemma postf_group P st sn its cnt' e (r : hlres) :
  postf P st sn its cnt' e r ->
  postf P st sn its cnt' e
    (lift1 (match r with HOk (ks, is, st1, sn1) => HOk (ks, IGroup is, st1, sn1) | HErr e => HErr e end)).
Proof.
  intros (ks & is & st1 & sn1 & Er & R & Hk & Hn & Hp & Hg & He & F). subst r. cbn [lift1].
  exists ks, [IGroup is], st1, sn1. split; [reflexivity|]. split; [exact R|]. split; [exact Hk|]. split; [exact Hn|].
  split; [exact Hp|]. split; [exact Hg|]. split; [exact He|].
  eapply facts_wrap; [| | | | |exact F]; try reflexivity.
  - intros H. exact H.
  - intros ->. reflexivity.
Qed.

(* Show *)
Lemma postf_show P dom nx ky sn ch cnt' (r : hlres) (b : bool) : fresh <= nx ->
  postf P (HState dom nx ky) sn ch cnt' true r ->
  postf P (HState dom nx ky) sn (LMark true :: (if b then ch else []) ++ [LMark true]) cnt' false
    (lift1 (match r with
            | HOk (ks, is, st1, sn1) =>
                if only_elements ks
                then HOk (KMarker (h_next st1) :: (if b then ks else []) ++ [KMarker (S (h_next st1))],
                          IShow (h_next st1) (S (h_next st1)) b is,
                          HState (h_dom st1) (S (S (h_next st1))) (h_key st1), sn1)
                else HErr HUnsupported
            | HErr e => HErr e
            end)).
Proof.
  intros Hfr (ks & is & st1 & sn1 & Er & R & Hk & Hn & Hp & Hg & He & F). subst r. cbn [h_key h_next h_dom] in *.
  rewrite (He eq_refl). cbn [lift1].
  eexists. eexists. eexists. eexists. split; [reflexivity|]. cbn [h_key h_next h_dom].
  split; [exact R|]. split; [exact Hk|]. split; [lia|].
  split; [rewrite kproj_markers, iproj_markers; destruct b; [rewrite Hp|]; reflexivity|]. split.
  - constructor; [cbn; lia|]. apply Forall_app. split; [destruct b; [exact Hg|constructor]|]. constructor; [cbn; lia|constructor].
  - split; [intros E; discriminate E|].
    destruct F as (A1 & A2 & A3 & A4). unfold facts. cbn [flat_map h_key h_dom h_next ielsk iel_k ikinds]. rewrite !app_nil_r.
    split; [exact A1|]. split; [rewrite lsk_markers; destruct b; [exact A2|reflexivity]|]. split; [exact A3|].
    intros Hb Hs. destruct (A4 ltac:(lia) Hs) as [K O]. split; [rewrite K; reflexivity|exact O].
Qed.

(* an element: claim by key, stamp, build the children, adopt their nodes *)
Lemma walkf_el (X : hstate -> nat -> hlres) dom nx ky sn P chI cnt2 e0 tag cat :
  rel fresh P 0 0 G hs0 dom -> sub G [LEl (Some ky) chI] -> untouched P ky cnt2 -> S ky <= cnt2 ->
  ok_slots chI = true ->
  (forall dom1, rel fresh (upd ky Stamped P) 0 0 G hs0 dom1 ->
                postf (upd ky Stamped P) (HState dom1 nx (S ky)) sn chI cnt2 e0 (X (HState dom1 nx (S ky)) sn)) ->
  postf P (HState dom nx ky) sn [LEl (Some ky) chI] cnt2 true
    (lift1 (match find_hk_list (key_str ky) dom with
            | None => HErr (HKeyNotFound (key_str ky))
            | Some eid =>
                match X (HState (map (stamp eid) dom) nx (S ky)) sn with
                | HOk (ks, is, st2, sn2) =>
                    match with_children_list eid (fun cs => append_kinds cs ks) (h_dom st2) with
                    | HOk dom' => HOk ([KEl eid], IEl eid tag cat is, HState dom' (h_next st2) (h_key st2), sn2)
                    | HErr e => HErr e
                    end
                | HErr e => HErr e
                end
            end)).
Proof.
  intros HR Hsub HU Hle Hok HX.
  assert (Hd : din (LEl (Some ky) chI) G) by (apply Hsub; apply din_here).
  pose proof (din_keys _ _ _ Hd) as Hin.
  rewrite (rel_find_same _ _ (key_str ky) _ _ _ _ _ HR).
  destruct (proj2 (rel_find_spec _ _ ky _ _ _ _ _ HR) Hin) as [eid [Ef Eid]]. rewrite Ef.
  assert (HPk : P ky = Untouched) by (apply HU; lia).
  pose proof (rel_stamp _ _ ky _ _ _ _ _ HR NDk NDi HPk Hin eid Ef) as R1.
  destruct (HX _ R1) as (ks & is & st2 & sn2 & EX & R2 & Hk2 & Hn2 & Hp2 & Hg2 & _ & F2). rewrite EX.
  cbn [h_key h_next h_dom] in *.
  set (P2 := mark (upd ky Stamped P) (S ky) cnt2) in *.
  assert (HP2 : P2 ky = Stamped) by (unfold P2; rewrite mark_out by lia; apply upd_same).
  assert (Had : adopts fresh P2 (fun cs => append_kinds cs ks) ky G).
  { intros ch cs0 cs Hd' Hr'. rewrite <- (din_unique _ _ _ _ NDk Hd Hd') in *.
    apply append_kinds_rel; [exact Hok|symmetry; exact Hp2|exact Hg2|exact Hr']. }
  destruct (rel_with_children _ _ _ _ _ _ _ _ R2 ky NDk NDi HP2 Hin Had eid Ef) as [dom' [Ew R3]]. rewrite Ew. cbn [lift1].
  exists [KEl eid], [IEl eid tag cat is], (HState dom' (h_next st2) (h_key st2)), sn2. cbn [h_key h_next h_dom].
  split; [reflexivity|]. split.
  { eapply rel_ext; [exact R3|]. intros c _.
    destruct (Nat.eq_dec c ky) as [->|Hne]; [rewrite upd_same, mark_in by lia; reflexivity|].
    rewrite upd_other by exact Hne. unfold P2.
    destruct (le_lt_dec (S ky) c) as [H1|H1]; [destruct (le_lt_dec cnt2 c) as [H2|H2]|].
    + rewrite !mark_out by lia. apply upd_other. exact Hne.
    + rewrite !mark_in by lia. reflexivity.
    + rewrite !mark_out by lia. apply upd_other. exact Hne. }
  split; [exact Hk2|]. split; [exact Hn2|]. split; [reflexivity|]. split; [repeat constructor|]. split; [intros _; reflexivity|].
  (* the instance *)
  destruct F2 as (A1 & A2 & (L & A3 & A4 & A5) & A6). cbn [h_key h_next h_dom] in A5, A6.
  unfold facts. cbn [flat_map ielsk iel_k ikinds h_key h_next h_dom]. rewrite !app_nil_r.
  split; [exact A1|]. split.
  { rewrite lsk_cons. cbn [lsk1 lsk flat_map app]. fold (lsk idof chI). rewrite A2. unfold idof. rewrite Ef. reflexivity. }
  split.
  { exists (L ++ [ky]). rewrite map_app. cbn [map fst]. split; [apply Forall2_app; [exact A3|constructor; [exact Ef|constructor]]|]. split.
    - apply NoDup_app_iff. split; [exact A4|]. split; [repeat constructor; intros []|].
      intros x Hx1 [<-|[]]. rewrite Forall_forall in A5. specialize (A5 _ Hx1). lia.
    - apply Forall_app. split; [eapply Forall_impl; [|exact A5]; cbn beta; intros c Hc; lia|constructor; [lia|constructor]]. }
  intros Hb Hs. destruct (A6 Hb Hs) as [K O]. split; [reflexivity|]. intros k0 Hk0 H0.
  assert (O2 : owns fresh (h_dom st2) = map (fill (k0 ++ flat_map (iel_k sbase) is)) S0).
  { apply O; [eapply Forall_impl; [|exact Hk0]; intros e; apply older_weaken; lia|]. rewrite owns_stamp. exact H0. }
  assert (HW : forall ch cs0 cs cs', din (LEl (Some ky) ch) G -> rel fresh P2 0 0 ch cs0 cs -> append_kinds cs ks = HOk cs' ->
                                     owns fresh cs' = weave (owns fresh cs) ks).
  { intros ch cs0 cs cs' Hd' Hr' Ea. rewrite <- (din_unique _ _ _ _ NDk Hd Hd') in *.
    exact (append_kinds_weave fresh P2 chI cs0 cs ks cs' Hr' Hok (eq_sym Hp2) Hg2 Ea). }
  rewrite (rel_wc_own fresh P2 (fun cs => append_kinds cs ks) (fun E => weave E ks) _ _ _ _ _ R2 ky NDk NDi HP2 Hin HW eid dom' Ef Ew).
  rewrite O2, fill_step_list.
  - rewrite <- K, app_assoc. reflexivity.
  - apply assoc_notin. rewrite map_app. intros Hx. apply in_app_or in Hx. destruct Hx as [Hx|Hx].
    + rewrite Forall_forall in Hk0. destruct (Hk0 _ Hx) as (c & Hc1 & Hc2).
      pose proof (find_inj hs0 c ky eid NDi Hc2 Ef). lia.
    + destruct (finds_in _ _ _ A3 Hx) as (c & Hc1 & Hc2). rewrite Forall_forall in A5. specialize (A5 _ Hc1).
      pose proof (find_inj hs0 c ky eid NDi Hc2 Ef). lia.
Qed.

Theorem hydi_walk vst item f : wspecf (hydi f vst item) (lay f vst true) (hydratable_in f vst true) (only_el_view f).
Proof.
  induction f as [|f IH]; intros v [dom nx ky] sn P its cnt' HQ HL HR Hsub HU Hfr; [discriminate HQ|]. cbn [h_dom h_next h_key] in *.
  pose proof (walkf_list _ _ _ _ IH (lay_kspec f vst true)) as WL.
  destruct v as [tag attrs children|s|k|k a b|vs|k vs|kd k tmpl| |vs|vs|vs]; cbn [hydratable_in] in HQ; cbn [lay] in HL; cbn [hydi];
    cbn [h_dom h_next h_key].
  - (* element *)
    apply andb_prop in HQ. destruct HQ as [_ HQ].
    pose proof (lay_list_kspec _ (lay_kspec f vst true) children (S ky)) as [Kle _].
    destruct (lay_list_with (lay f vst true) children (S ky)) as [chl cnt2] eqn:EL. inversion HL; subst its cnt'. cbn [snd] in Kle.
    refine (walkf_el (fun s n => if is_void tag then HOk ([], [], s, n) else hydi_list_with (hydi f vst item) children s n)
                     dom nx ky sn P _ cnt2 (forallb (only_el_view f) children) tag (cattrs vst attrs) HR Hsub HU Kle _ _).
    + destruct (is_void tag); [reflexivity|]. apply andb_prop in HQ. destruct HQ as [_ HQ]. cbn [negb orb] in HQ.
      rewrite (ok_slots_lay_list f vst true children 0 (S ky)) in HQ. rewrite EL in HQ. exact HQ.
    + intros dom1 R1. destruct (is_void tag).
      * destruct children; [|discriminate HQ]. cbn [lay_list_with] in EL. inversion EL; subst chl cnt2.
        exists [], [], (HState dom1 nx (S ky)), sn. cbn [h_dom h_next h_key].
        split; [reflexivity|]. split; [apply rel_mark_empty; exact R1|]. split; [reflexivity|]. split; [lia|].
        split; [reflexivity|]. split; [constructor|]. split; [intros _; reflexivity|].
        exact (facts_nil (HState dom1 nx (S ky)) sn).
      * apply andb_prop in HQ. destruct HQ as [HQ _].
        apply (WL children (HState dom1 nx (S ky)) sn (upd ky Stamped P) chl cnt2 HQ EL R1).
        -- intros c ch Hd. apply Hsub. apply din_child. exact Hd.
        -- intros c Hc. cbn [h_key] in Hc. rewrite upd_other by lia. apply HU. lia.
        -- exact Hfr.
  - (* static text *)
    inversion HL; subst its cnt'.
    apply (postf_leaf P (HState dom nx ky) sn [] [KTextStatic] (IText sn s) nx (S sn));
      [exact HR|cbn; lia|reflexivity|repeat constructor|intros E; discriminate E|].
    apply (facts_leaf (HState dom nx ky)); try reflexivity; try lia.
    intros _ Hs. cbn [ikinds]. rewrite (proj2 (Nat.ltb_ge sn sbase) Hs). reflexivity.
  - (* dynamic text *)
    inversion HL; subst its cnt'.
    apply (postf_leaf P (HState dom nx ky) sn _ [KTextDyn nx (opt_str (get_str vst k))] (IText nx (opt_str (get_str vst k))) (S nx) sn);
      [exact HR|cbn; lia|reflexivity| |intros E; discriminate E|].
    + constructor; [exact Hfr|constructor].
    + apply (facts_leaf (HState dom nx ky)); try reflexivity; try lia.
      intros Hb _. cbn [ikinds]. rewrite (proj2 (Nat.ltb_lt nx sbase) Hb). reflexivity.
  - (* dynamic view *)
    destruct (lay_list_with (lay f vst true) (if get_bool vst k then a else b) ky) as [ch cnt1] eqn:EL. inversion HL; subst its cnt'.
    apply (postf_dyn P dom nx ky sn ch cnt1 (forallb (only_el_view f) (if get_bool vst k then a else b))); [exact Hfr|].
    apply (WL _ (HState dom (S (S nx)) ky) sn P ch cnt1 HQ EL HR (sub_markers _ _ Hsub) HU). cbn. lia.
  - apply postf_group. exact (WL vs (HState dom nx ky) sn P its cnt' HQ HL HR Hsub HU Hfr).
  - (* Show *)
    apply andb_prop in HQ. destruct HQ as [HQ1 HQ2]. cbn [negb orb] in HQ2. apply andb_prop in HQ2. destruct HQ2 as [HQ2 HQ3].
    pose proof (lay_list_kspec _ (lay_kspec f vst true) vs ky) as [_ Kg].
    pose proof (lay_list_nokeys f vst true vs ky) as NK.
    destruct (lay_list_with (lay f vst true) vs ky) as [ch cnt1] eqn:EL. inversion HL; subst its cnt'. cbn [fst snd] in *.
    apply postf_show; [exact Hfr|].
    assert (Hs : sub G ch).
    { destruct (get_bool vst k); [exact (sub_markers _ _ Hsub)|]. cbn [orb] in HQ3. rewrite (NK HQ3) in Kg.
      apply sub_nokeys. exact (kgood_empty _ _ Kg). }
    pose proof (WL vs (HState dom nx ky) sn P ch cnt1 HQ1 EL HR Hs HU Hfr) as W. rewrite HQ2 in W. exact W.
  - discriminate HQ.
  - (* list item text *)
    inversion HL; subst its cnt'.
    apply (postf_leaf P (HState dom nx ky) sn [] [KTextStatic] (IText sn (item_text item)) nx (S sn));
      [exact HR|cbn; lia|reflexivity|repeat constructor|intros E; discriminate E|].
    apply (facts_leaf (HState dom nx ky)); try reflexivity; try lia.
    intros _ Hs. cbn [ikinds]. rewrite (proj2 (Nat.ltb_ge sn sbase) Hs). reflexivity.
  - apply postf_group. exact (WL vs (HState dom nx ky) sn P its cnt' HQ HL HR Hsub HU Hfr).
  - (* NoHydrate *)
    destruct (lay_list_inert _ (lay_false f vst) vs ky) as [I1 [I2 I3]]. rewrite HL in I1, I2, I3. cbn [fst snd] in *. subst cnt'.
    apply (postf_leaf P (HState dom nx ky) sn its [] (IGroup []) nx sn); [exact HR|cbn; lia|symmetry; exact I3|constructor|reflexivity|].
    apply (facts_leaf (HState dom nx ky)); try reflexivity; try lia. apply lsk_nokeys. exact I2.
  - discriminate HQ.
Qed.
End Walk2.

(* ---------------------------------------------------------------------------------- *)
(* the whole walk, from the server DOM *)
Lemma finds_nodup hs0 X : NoDup (elids hs0) -> forall L, Forall2 (finds hs0) X L -> NoDup L -> NoDup X.
Proof.
  intros NDi L H. induction H as [|e c X L He HF IH]; intros ND; [constructor|]. inversion ND as [|? ? Hc ND']; subst.
  constructor; [|exact (IH ND')]. intros Hin. destruct (finds_in hs0 _ _ _ HF Hin) as (c' & H1 & H2).
  pose proof (find_inj hs0 c c' e NDi He H2). subst c'. contradiction.
Qed.

Lemma finds_server hs0 e c : finds hs0 e c -> In e (elids hs0).
Proof.
  intros H. apply find_hk_list_in in H. apply (subseq_In _ _ _ (idkeys_subseq hs0)).
  apply in_map_iff. exists (e, key_str c). split; [reflexivity|exact H].
Qed.

Lemma idof_spec fresh P its hs0 : rel fresh P 0 0 its hs0 hs0 -> NoDup (keys its) ->
  forall c id, In (id, key_str c) (idkeys hs0) -> idof hs0 c = id.
Proof.
  intros R NDk c id Hin.
  assert (Hk : In c (keys its)).
  { assert (H : In (key_str c) (map snd (idkeys hs0))) by (apply in_map_iff; exists (id, key_str c); split; [reflexivity|exact Hin]).
    rewrite (rel_idkeys _ _ _ _ _ _ _ R) in H. apply in_map_iff in H. destruct H as (c' & E & Hc'). apply key_str_inj in E. subst c'. exact Hc'. }
  destruct (proj2 (rel_find_spec _ _ c _ _ _ _ _ R) Hk) as (e & Ef & _). unfold idof. rewrite Ef.
  assert (ND : NoDup (map snd (idkeys hs0))).
  { rewrite (rel_idkeys _ _ _ _ _ _ _ R). apply NoDup_map_inj; [exact key_str_inj|exact NDk]. }
  exact (NoDup_snd_fun _ _ _ _ ND (find_hk_list_in _ _ _ Ef) Hin).
Qed.

(* the first identity hydration does not use *)
Definition hyd_next_f (f : nat) (vst : vstate) (v : view) (server : list hnode) (fresh : nat) : nat :=
  match hyd f vst None v (HState server fresh 0) with HOk (_, st) => h_next st | HErr _ => fresh end.

Theorem hydi_owns_gen f vst v fresh sbase :
  hydratable_in f vst true v = true -> ok_slots (fst (lay f vst true v 0)) = true ->
  (forall id, In id (ids (server_dom_f f vst v)) -> id < fresh) ->
  exists ks i st sn d,
    hydi f vst None v (HState (server_dom_f f vst v) fresh 0) sbase = HOk (ks, i, st, sn)
    /\ append_kinds (h_dom st) ks = HOk d
    /\ fresh <= h_next st /\ sbase <= sn
    /\ NoDup (map fst (iel_k sbase i))
    /\ Forall (fun e => In e (elids (server_dom_f f vst v))) (map fst (iel_k sbase i))
    /\ (h_next st <= sbase -> owns fresh d = iown sbase i).
Proof.
  intros HQ Hok Hab. set (hs0 := server_dom_f f vst v) in *.
  destruct (server_rel f vst v fresh HQ Hab) as [R0 NDi]. fold hs0 in R0, NDi.
  pose proof (lay_kspec f vst true v 0) as [_ Kg].
  destruct (lay f vst true v 0) as [G cnt'] eqn:HL. cbn [fst snd] in *.
  pose proof (kgood_nodup _ _ _ Kg) as NDk.
  destruct (hydi_walk fresh G hs0 NDk NDi sbase (owns fresh hs0) vst None f v (HState hs0 fresh 0) sbase (fun _ => Untouched) G cnt' HQ HL R0)
    as (ks & is & st' & sn' & Eh & R & Hk & Hn & Hp & Hg & _ & F).
  - intros c ch Hd. exact Hd.
  - intros k _. reflexivity.
  - cbn [h_next]. lia.
  - destruct (hydi f vst None v (HState hs0 fresh 0) sbase) as [[[[ks1 i] st1] sn1]|e] eqn:E; cbn [lift1] in Eh; [|discriminate Eh].
    inversion Eh; subst ks1 is st1 sn1. clear Eh. cbn [h_key h_next h_dom] in *.
    destruct (append_kinds_rel fresh _ G hs0 (h_dom st') ks Hok (eq_sym Hp) Hg R) as [d [Ea _]].
    destruct F as (A1 & A2 & (L & A3 & A4 & A5) & A6). cbn [flat_map] in A2, A3, A6. rewrite app_nil_r in A2, A3, A6.
    exists ks, i, st', sn', d. split; [reflexivity|]. split; [exact Ea|]. split; [exact Hn|]. split; [exact A1|].
    pose proof (finds_nodup hs0 _ NDi L A3 A4) as NDe. split; [exact NDe|]. split.
    { clear -A3. induction A3 as [|e c X L He _ IH]; constructor; [exact (finds_server hs0 e c He)|exact IH]. }
    intros Hb. destruct (A6 Hb (Nat.le_refl sbase)) as [K O].
    rewrite (append_kinds_weave fresh _ G hs0 (h_dom st') ks d R Hok (eq_sym Hp) Hg Ea).
    rewrite (O []); [|constructor|rewrite fill_nil_list; reflexivity]. cbn [app].
    rewrite (rel_owns_init fresh _ (idof hs0) 0 0 G hs0 hs0 R0 eq_refl eq_refl (fun _ => eq_refl) (idof_spec fresh _ G hs0 R0 NDk)).
    rewrite <- A2, K, app_nil_r. apply iown_weave.
    apply Forall_forall. intros p Hp'. unfold kcond. destruct p as [e ks']. cbn [fst snd].
    apply assoc_in; [exact NDe|]. exact (vels_incl sbase i _ Hp').
Qed.

(* ---------------------------------------------------------------------------------- *)
(* the statements for [hydratei] *)
Fixpoint iel_ids (i : inst) : list nat :=
  match i with
  | IEl id _ _ ch => flat_map iel_ids ch ++ [id]
  | IText _ _ => []
  | IDyn _ _ ch | IShow _ _ _ ch | IGroup ch => flat_map iel_ids ch
  | IList _ _ items => flat_map (fun p => flat_map iel_ids (snd p)) items
  end.

Lemma map_fst_flat {A} (f : A -> list (nat * list hkind)) (g : A -> list nat) l :
  Forall (fun x => map fst (f x) = g x) l -> map fst (flat_map f l) = flat_map g l.
Proof. induction 1 as [|x r Hx _ IH]; [reflexivity|]. cbn [flat_map]. rewrite map_app, Hx, IH. reflexivity. Qed.

Lemma iel_k_ids sbase i : map fst (iel_k sbase i) = iel_ids i.
Proof.
  induction i as [id tag attrs ch IH|id s|m1 m2 ch IH|m1 m2 b ch IH|m1 m2 items IH|ch IH] using inst_ind'; cbn [iel_k iel_ids];
    try reflexivity; try (apply map_fst_flat; exact IH).
  - rewrite map_app. cbn [map fst]. f_equal. apply map_fst_flat. exact IH.
  - apply map_fst_flat. eapply Forall_impl; [|exact IH]. cbn beta. intros p Hp. apply map_fst_flat. exact Hp.
Qed.

(* the owned part of an instance is read off its DOM *)
Lemma iown_dom sbase i : iown sbase i = flat_map (down sbase) (dom_of i).
Proof.
  assert (L : forall l, Forall (fun i => iown sbase i = flat_map (down sbase) (dom_of i)) l ->
                        flat_map (iown sbase) l = flat_map (down sbase) (flat_map dom_of l)).
  { induction 1 as [|x r Hx _ IH]; [reflexivity|]. cbn [flat_map]. rewrite flat_map_app, Hx, IH. reflexivity. }
  induction i as [id tag attrs ch IH|id s|m1 m2 ch IH|m1 m2 b ch IH|m1 m2 items IH|ch IH] using inst_ind'; cbn [iown dom_of].
  - cbn [flat_map down app]. rewrite (L ch IH). reflexivity.
  - cbn [flat_map down]. rewrite app_nil_r. reflexivity.
  - cbn [flat_map down app]. rewrite flat_map_app. cbn [flat_map down app]. rewrite (L ch IH). reflexivity.
  - cbn [flat_map down app]. rewrite flat_map_app. cbn [flat_map down app]. destruct b; [rewrite (L ch IH)|]; reflexivity.
  - cbn [flat_map down app]. rewrite flat_map_app. cbn [flat_map down app]. f_equal. f_equal.
    induction IH as [|p r Hp _ IHr]; [reflexivity|]. cbn [flat_map]. rewrite flat_map_app, (L _ Hp), IHr. reflexivity.
  - exact (L ch IH).
Qed.

Definition hyd_next (vst : vstate) (v : view) (server : list hnode) (fresh : nat) : nat := hyd_next_f hyd_fuel vst v server fresh.

Theorem hydratei_ok vst v fresh sbase :
  hydratable vst v = true -> above fresh (server_dom vst v) ->
  exists d i c,
    hydratei vst v (server_dom vst v) fresh sbase = HOk (d, i, c)
    /\ hydrate vst v (server_dom vst v) fresh = HOk d
    /\ fresh <= hyd_next vst v (server_dom vst v) fresh <= c /\ sbase <= c
    /\ NoDup (iel_ids i) /\ Forall (fun e => In e (elids (server_dom vst v))) (iel_ids i)
    /\ (hyd_next vst v (server_dom vst v) fresh <= sbase -> owns fresh d = flat_map (down sbase) (dom_of i))
    /\ (live vst v = true -> faithful client_fuel vst None v i).
Proof.
  unfold hydratable, hydratei, hydrate, server_dom, above, hyd_next, hyd_next_f, live, hyd_fuel, build_fuel, client_fuel.
  generalize 64. intros f HQ Hab. apply andb_prop in HQ. destruct HQ as [HQ1 HQ2].
  destruct (hydi_owns_gen f vst v fresh sbase HQ1 HQ2 Hab) as (ks & i & st & sn & d & E & Ea & H1 & H2 & H3 & H4 & H5).
  unfold server_dom_f in *. rewrite (hydi_hyd f vst None v _ sbase), E. cbn [proj_h]. rewrite Ea.
  exists d, i, (Nat.max (h_next st) sn). split; [reflexivity|]. split; [reflexivity|]. split; [lia|]. split; [lia|].
  rewrite <- (iel_k_ids sbase i). split; [exact H3|]. split; [exact H4|]. split.
  - intros Hb. rewrite <- iown_dom. exact (H5 Hb).
  - intros HL. exact (hydi_faithful f vst None v _ sbase ks i st sn E HL).
Qed.
