(* Dom/HydrateFacts.v -- C09, the adoption walk: hydrating the server DOM of a hydratable view succeeds; the element
   skeleton is unchanged up to the stamp on every keyed element, the visible tree is unchanged, and the layout read back
   from the result is the layout of the view with every hydrated slot adopted by a fresh node holding the current value
   and every other slot left in server form. *)
From Coq Require Import List String Ascii Bool Arith ZArith Lia.
From Syc Require Import Common.Show Ssr.Html Ssr.View Dom.Hydrate Dom.HydrateSpec Dom.HydrateRel Dom.HydrateForest
  Dom.HydrateLay Dom.HydrateWalk Dom.HydrateServer.
Import ListNotations.
Open Scope string_scope.
Open Scope list_scope.

Definition alldone (P : nat -> est) (its : list litem) : Prop := forall c, In c (keys its) -> P c = Done.

Lemma alldone_cons_el P k ch its : alldone P (LEl k ch :: its) ->
  (forall c, k = Some c -> P c = Done) /\ alldone P ch /\ alldone P its.
Proof.
  intros H. split; [|split].
  - intros c ->. apply H. rewrite keys_cons, keys_El. left. reflexivity.
  - intros c Hc. apply H. rewrite keys_cons, keys_El. apply in_or_app. left. apply in_or_app. right. exact Hc.
  - intros c Hc. apply H. rewrite keys_cons. apply in_or_app. right. exact Hc.
Qed.

Lemma els_cons n r : els (n :: r) = els_node n ++ els r.
Proof. reflexivity. Qed.

(* (a) the element skeleton *)
Lemma rel_els fresh P nt nm its hs0 hs : rel fresh P nt nm its hs0 hs -> alldone P its ->
  els hs = map stamp_keyed (els hs0).
Proof.
  induction 1 as [nt nm|nt nm n its hs0 hs Hn Hr IH|nt nm k ch its id tag a0 a cs0 cs hs0 hs nt' nm' Hid Hok Hc IHc Hr IH
                 |nt nm h s i x its hs0 hs Hh Hi Hx Hr IH|nt nm s i x j its hs0 hs Hi Hx Hj Hr IH
                 |nt nm h i its hs0 hs Hh Hi Hr IH|nt nm i j its hs0 hs Hi Hj Hr IH];
    intros HD; rewrite ?els_cons.
  - reflexivity.
  - rewrite IH by exact HD. destruct n; cbn in Hn; [tauto|reflexivity|reflexivity].
  - destruct (alldone_cons_el _ _ _ _ HD) as [Dk [Dc Dr]]. rewrite IH by exact Dr.
    cbn [els_node app map stamp_keyed]. fold (els cs) (els cs0). rewrite IHc by exact Dc. f_equal. f_equal.
    unfold el_ok in Hok. destruct Hok as [_ Hok]. destruct k as [c|].
    + destruct Hok as [H0 H1]. rewrite (Dk c eq_refl) in H1. destruct H1 as [Ha _]. rewrite H0. exact Ha.
    + destruct Hok as [H0 [Ha _]]. rewrite H0. exact Ha.
  - rewrite IH by exact HD. inversion Hx; reflexivity.
  - rewrite IH by exact HD. inversion Hx; reflexivity.
  - rewrite IH by exact HD. reflexivity.
  - rewrite IH by exact HD. reflexivity.
Qed.

(* (c) the visible tree *)
Lemma vt_merge_congr x r1 r2 : vt_merge r1 = vt_merge r2 -> vt_merge (x :: r1) = vt_merge (x :: r2).
Proof. intros H. destruct x; cbn [vt_merge]; rewrite H; reflexivity. Qed.
Lemma vt_merge_app_congr a r1 r2 : vt_merge r1 = vt_merge r2 -> vt_merge (a ++ r1) = vt_merge (a ++ r2).
Proof. intros H. induction a as [|x a IH]; [exact H|]. cbn [app]. apply vt_merge_congr. exact IH. Qed.
Lemma vt_merge_empty r : vt_merge (VtText "" :: r) = vt_merge r.
Proof. cbn [vt_merge]. destruct (vt_merge r) as [|[t a c|b] r']; reflexivity. Qed.

Lemma filter_plain_stamp a : filter plain_attr (a ++ [stamp_attr]) = filter plain_attr a.
Proof. rewrite filter_app. cbn. apply app_nil_r. Qed.

Lemma rel_vis fresh P nt nm its hs0 hs : rel fresh P nt nm its hs0 hs ->
  vt_merge (flat_map vis_node hs) = vt_merge (flat_map vis_node hs0).
Proof.
  induction 1 as [nt nm|nt nm n its hs0 hs Hn Hr IH|nt nm k ch its id tag a0 a cs0 cs hs0 hs nt' nm' Hid Hok Hc IHc Hr IH
                 |nt nm h s i x its hs0 hs Hh Hi Hx Hr IH|nt nm s i x j its hs0 hs Hi Hx Hj Hr IH
                 |nt nm h i its hs0 hs Hh Hi Hr IH|nt nm i j its hs0 hs Hi Hj Hr IH]; cbn [flat_map].
  - reflexivity.
  - apply vt_merge_app_congr. exact IH.
  - cbn [vis_node]. rewrite IHc.
    replace (filter plain_attr a) with (filter plain_attr a0).
    + apply vt_merge_app_congr. exact IH.
    + unfold el_ok in Hok. destruct Hok as [_ Hok]. destruct k as [c|].
      * destruct Hok as [_ H1]. destruct (P c); destruct H1 as [-> _]; rewrite ?filter_plain_stamp; reflexivity.
      * destruct Hok as [_ [-> _]]. reflexivity.
  - apply vt_merge_app_congr. apply vt_merge_app_congr. exact IH.
  - cbn [vis_node app]. inversion Hx; subst; cbn [vis_node app].
    + apply vt_merge_congr. exact IH.
    + rewrite vt_merge_empty. exact IH.
  - cbn [vis_node app]. exact IH.
  - cbn [vis_node app]. exact IH.
Qed.

(* (b), (d): the layout read back *)
Lemma read_node_El fresh id t a ch : read_node fresh (HEl id t a ch) = [REl id (has_stamp a) (read_list fresh false ch)].
Proof.
  cbn [read_node]. f_equal. f_equal.
  match goal with |- ?F false ch = _ => assert (E : forall pend, F pend ch = read_list fresh pend ch) end.
  { induction ch as [|x r IH]; intros pend; [reflexivity|]. cbn [read_list]. rewrite !IH. reflexivity. }
  apply E.
Qed.

Lemma has_stamp_app a : has_stamp (a ++ [stamp_attr]) = true.
Proof. unfold has_stamp. rewrite existsb_app. cbn. apply orb_true_r. Qed.

Lemma leb_fresh_lt fresh k : k < fresh -> Nat.leb fresh k = false.
Proof. intros H. apply Nat.leb_gt. exact H. Qed.
Lemma leb_fresh_ge fresh k : fresh <= k -> Nat.leb fresh k = true.
Proof. intros H. apply Nat.leb_le. exact H. Qed.


Lemma keys_nil_cons i r : keys (i :: r) = [] -> keys_i i = [] /\ keys r = [].
Proof. rewrite keys_cons. apply app_eq_nil. Qed.

Lemma slotval_text_of fresh x s : slotval fresh x s -> text_of x = s.
Proof. intros H. inversion H; reflexivity. Qed.

(* a child list in which nothing has been adopted and nothing is keyed reads as the layout in server form *)
Lemma rel_read_inert fresh P its hs0 hs : rel fresh P 0 0 its hs0 hs -> keys its = [] ->
  map forget_ids (read_list fresh false hs) = map (expect false) its.
Proof.
  intros H. remember 0 as nt eqn:Hnt in H at 1. remember 0 as nm eqn:Hnm in H. revert Hnt Hnm.
  induction H as [nt nm|nt nm n its hs0 hs Hn Hr IH|nt nm k ch its id tag a0 a cs0 cs hs0 hs nt' nm' Hid Hok Hc IHc Hr IH
                 |nt nm h s i x its hs0 hs Hh Hi Hx Hr IH|nt nm s i x j its hs0 hs Hi Hx Hj Hr IH
                 |nt nm h i its hs0 hs Hh Hi Hr IH|nt nm i j its hs0 hs Hi Hj Hr IH];
    intros Hnt Hnm HK.
  - reflexivity.
  - destruct n as [? ? ? ?|k s|k s]; cbn in Hn; [tauto| |].
    + cbn [read_list]. rewrite (leb_fresh_lt _ _ Hn). apply IH; assumption.
    + destruct Hn as [_ ->]. cbn [read_list]. apply IH; assumption.
  - destruct (keys_nil_cons _ _ HK) as [K1 K2]. rewrite keys_El in K1. apply app_eq_nil in K1. destruct K1 as [K0 K1].
    destruct k as [c|]; [discriminate K0|]. unfold el_ok in Hok. destruct Hok as [Hs [_ [-> [Ht Hm]]]].
    cbn [read_list]. rewrite read_node_El. cbn [app map forget_ids expect]. rewrite (IH Hnt Hnm K2), Hs.
    rewrite (IHc Ht Hm K1). reflexivity.
  - cbn [read_list]. change (String.eqb "t" "t") with true. cbv iota. rewrite (slotval_text_of _ _ _ Hx).
    cbn [map forget_ids expect andb]. rewrite (IH Hnt Hnm HK). reflexivity.
  - discriminate Hnt.
  - cbn [read_list]. change (String.eqb "/" "t") with false. change (String.eqb "/" "/") with true. cbv iota.
    cbn [map forget_ids expect andb]. rewrite (IH Hnt Hnm HK). reflexivity.
  - discriminate Hnm.
Qed.

Lemma lwf_inv_el k ch r : lwf (LEl k ch :: r) -> lwf r /\ match k with Some _ => lwf ch | None => keys ch = [] end.
Proof. intros H. inversion H; subst; split; assumption. Qed.
Lemma lwf_inv_tail i r : lwf (i :: r) -> lwf r.
Proof. intros H. inversion H; subst; assumption. Qed.

Lemma rel_read_done fresh P nt nm its hs0 hs : rel fresh P nt nm its hs0 hs ->
  lwf its -> alldone P its -> nt = count_t its -> nm = count_m its ->
  map forget_ids (read_list fresh false hs) = map (expect true) its.
Proof.
  induction 1 as [nt nm|nt nm n its hs0 hs Hn Hr IH|nt nm k ch its id tag a0 a cs0 cs hs0 hs nt' nm' Hid Hok Hc IHc Hr IH
                 |nt nm h s i x its hs0 hs Hh Hi Hx Hr IH|nt nm s i x j its hs0 hs Hi Hx Hj Hr IH
                 |nt nm h i its hs0 hs Hh Hi Hr IH|nt nm i j its hs0 hs Hi Hj Hr IH];
    intros HW HD Hnt Hnm.
  - reflexivity.
  - destruct n as [? ? ? ?|k s|k s]; cbn in Hn; [tauto| |].
    + cbn [read_list]. rewrite (leb_fresh_lt _ _ Hn). apply IH; assumption.
    + destruct Hn as [_ ->]. cbn [read_list]. apply IH; assumption.
  - destruct (alldone_cons_el _ _ _ _ HD) as [Dk [Dc Dr]]. cbn [count_t count_m] in Hnt, Hnm.
    cbn [read_list]. rewrite read_node_El. unfold el_ok in Hok. destruct Hok as [Hs Hok].
    destruct (lwf_inv_el _ _ _ HW) as [Wr Wc]. destruct k as [c|].
    + destruct Hok as [_ H1]. rewrite (Dk c eq_refl) in H1. destruct H1 as [-> [Ht Hm]].
      cbn [app map forget_ids expect]. rewrite (IH Wr Dr Hnt Hnm), has_stamp_app, (IHc Wc Dc Ht Hm). reflexivity.
    + destruct Hok as [_ [-> [-> ->]]].
      cbn [app map forget_ids expect]. rewrite (IH Wr Dr Hnt Hnm), Hs, (rel_read_inert _ _ _ _ _ Hc Wc). reflexivity.
  - pose proof (lwf_inv_tail _ _ HW) as Wr. destruct h.
    + exfalso. destruct Hh as [Hh|Hh]; [discriminate Hh|]. subst nt. cbn [count_t] in Hnt. discriminate Hnt.
    + cbn [count_t count_m] in Hnt, Hnm.
      cbn [read_list]. change (String.eqb "t" "t") with true. cbv iota. rewrite (slotval_text_of _ _ _ Hx).
      cbn [map forget_ids expect andb]. rewrite IH by assumption. reflexivity.
  - pose proof (lwf_inv_tail _ _ HW) as Wr. cbn [count_t count_m] in Hnt, Hnm. inversion Hnt.
    cbn [read_list]. rewrite (leb_fresh_ge _ _ Hj). cbn [map forget_ids expect andb]. rewrite IH by assumption. reflexivity.
  - pose proof (lwf_inv_tail _ _ HW) as Wr. destruct h.
    + exfalso. destruct Hh as [Hh|Hh]; [discriminate Hh|]. subst nm. cbn [count_m] in Hnm. discriminate Hnm.
    + cbn [count_t count_m] in Hnt, Hnm.
      cbn [read_list]. change (String.eqb "/" "t") with false. change (String.eqb "/" "/") with true. cbv iota.
      cbn [map forget_ids expect andb]. rewrite IH by assumption. reflexivity.
  - pose proof (lwf_inv_tail _ _ HW) as Wr. cbn [count_t count_m] in Hnt, Hnm. inversion Hnm.
    cbn [read_list]. change (String.eqb "#" "t") with false. change (String.eqb "#" "/") with false.
    change (String.eqb "#" "#") with true. cbv iota. rewrite (leb_fresh_ge _ _ Hj).
    cbn [map forget_ids expect andb]. rewrite IH by assumption. reflexivity.
Qed.

(* before hydration: every slot is in server form, no element is stamped *)
Lemma rel_read_init fresh P its hs0 hs : rel fresh P 0 0 its hs0 hs -> (forall c, P c = Untouched) ->
  map forget_ids (read_list fresh false hs) = map (expect false) its.
Proof.
  intros H. remember 0 as nt eqn:Hnt in H at 1. remember 0 as nm eqn:Hnm in H. revert Hnt Hnm.
  induction H as [nt nm|nt nm n its hs0 hs Hn Hr IH|nt nm k ch its id tag a0 a cs0 cs hs0 hs nt' nm' Hid Hok Hc IHc Hr IH
                 |nt nm h s i x its hs0 hs Hh Hi Hx Hr IH|nt nm s i x j its hs0 hs Hi Hx Hj Hr IH
                 |nt nm h i its hs0 hs Hh Hi Hr IH|nt nm i j its hs0 hs Hi Hj Hr IH];
    intros Hnt Hnm HP.
  - reflexivity.
  - destruct n as [? ? ? ?|k s|k s]; cbn in Hn; [tauto| |].
    + cbn [read_list]. rewrite (leb_fresh_lt _ _ Hn). apply IH; assumption.
    + destruct Hn as [_ ->]. cbn [read_list]. apply IH; assumption.
  - unfold el_ok in Hok. destruct Hok as [Hs Hok].
    assert (Ha : a = a0 /\ nt' = 0 /\ nm' = 0).
    { destruct k as [c|]; [destruct Hok as [_ H1]; rewrite HP in H1; exact H1|destruct Hok as [_ H1]; exact H1]. }
    destruct Ha as [-> [Ht Hm]].
    cbn [read_list]. rewrite read_node_El. cbn [app map forget_ids]. rewrite (IH Hnt Hnm HP), Hs, (IHc Ht Hm HP).
    destruct k; reflexivity.
  - cbn [read_list]. change (String.eqb "t" "t") with true. cbv iota. rewrite (slotval_text_of _ _ _ Hx).
    cbn [map forget_ids expect andb]. rewrite (IH Hnt Hnm HP). reflexivity.
  - discriminate Hnt.
  - cbn [read_list]. change (String.eqb "/" "t") with false. change (String.eqb "/" "/") with true. cbv iota.
    cbn [map forget_ids expect andb]. rewrite (IH Hnt Hnm HP). reflexivity.
  - discriminate Hnm.
Qed.

(* ---------------------------------------------------------------------------------- *)
Definition above (fresh : nat) (l : list hnode) : Prop := forall id, In id (ids l) -> id < fresh.

Definition hydrate_f (f : nat) (vst : vstate) (v : view) (server : list hnode) (fresh : nat) : hres (list hnode) :=
  match hyd f vst None v (HState server fresh 0) with
  | HOk (ks, st) => append_kinds (h_dom st) ks
  | HErr e => HErr e
  end.

Lemma hydrate_ok_gen f vst v fresh :
  hydratable_in f vst true v = true -> ok_slots (fst (lay f vst true v 0)) = true -> above fresh (server_dom_f f vst v) ->
  exists d, hydrate_f f vst v (server_dom_f f vst v) fresh = HOk d
    /\ els d = map stamp_keyed (els (server_dom_f f vst v))
    /\ vis d = vis (server_dom_f f vst v)
    /\ map forget_ids (read_lay fresh d) = map (expect true) (fst (lay f vst true v 0))
    /\ map forget_ids (read_lay fresh (server_dom_f f vst v)) = map (expect false) (fst (lay f vst true v 0)).
Proof.
  intros HQ Hok Hab.
  destruct (server_rel f vst v fresh HQ Hab) as [R0 NDi].
  pose proof (lay_kspec f vst true v 0) as [_ [_ Kf]].
  pose proof (lay_lwf f vst true v 0) as HW.
  destruct (lay f vst true v 0) as [G cnt'] eqn:HL. cbn [fst snd] in *.
  destruct (hydrate_rel_gen fresh vst v (server_dom_f f vst v) G cnt' f HQ Hok HL R0 NDi) as [d [Eh R]].
  assert (HD : alldone (mark (fun _ => Untouched) 0 cnt') G).
  { intros c Hc. rewrite Forall_forall in Kf. apply mark_in. exact (Kf c Hc). }
  exists d. split; [exact Eh|]. split; [exact (rel_els _ _ _ _ _ _ _ R HD)|]. split; [exact (rel_vis _ _ _ _ _ _ _ R)|]. split.
  - exact (rel_read_done _ _ _ _ _ _ _ R HW HD eq_refl eq_refl).
  - exact (rel_read_init _ _ _ _ _ R0 (fun _ => eq_refl)).
Qed.

Theorem hydrate_ok vst v fresh :
  hydratable vst v = true -> above fresh (server_dom vst v) ->
  exists d, hydrate vst v (server_dom vst v) fresh = HOk d
    /\ els d = map stamp_keyed (els (server_dom vst v))                                               (* (a) *)
    /\ vis d = vis (server_dom vst v)                                                                 (* (c) *)
    /\ map forget_ids (read_lay fresh d) = map (expect true) (fst (lay hyd_fuel vst true v 0))        (* (b), (d) *)
    /\ map forget_ids (read_lay fresh (server_dom vst v)) = map (expect false) (fst (lay hyd_fuel vst true v 0)).
Proof.
  unfold hydratable, hydrate, server_dom, above, hyd_fuel, build_fuel. generalize 64. intros f HQ Hab.
  apply andb_prop in HQ. destruct HQ as [HQ1 HQ2].
  pose proof (hydrate_ok_gen f vst v fresh HQ1 HQ2) as H. unfold hydrate_f, server_dom_f, above in H. exact (H Hab).
Qed.

Print Assumptions hydrate_ok.

(* ---------------------------------------------------------------------------------- *)
(* the same in terms of nodes: what is old in the result is a server node; when nothing of the view lies under
   NoHydrate, no `t` and no `/` comment is left and every `#` comment is fresh *)
Lemma texts_cons n r : texts (n :: r) = texts_node n ++ texts r.
Proof. reflexivity. Qed.
Lemma coms_cons n r : coms (n :: r) = coms_node n ++ coms r.
Proof. reflexivity. Qed.

Lemma rel_old fresh P nt nm its hs0 hs : rel fresh P nt nm its hs0 hs ->
  (forall i s, In (i, s) (texts hs) -> i < fresh -> In (i, s) (texts hs0))
  /\ (forall i c, In (i, c) (coms hs) -> i < fresh -> In (i, c) (coms hs0)).
Proof.
  induction 1 as [nt nm|nt nm n its hs0 hs Hn Hr IH|nt nm k ch its id tag a0 a cs0 cs hs0 hs nt' nm' Hid Hok Hc IHc Hr IH
                 |nt nm h s i x its hs0 hs Hh Hi Hx Hr IH|nt nm s i x j its hs0 hs Hi Hx Hj Hr IH
                 |nt nm h i its hs0 hs Hh Hi Hr IH|nt nm i j its hs0 hs Hi Hj Hr IH];
    rewrite ?texts_cons, ?coms_cons.
  - split; intros ? ? [].
  - destruct IH as [I1 I2]. split; intros i0 s0 Hin Hlt; apply in_app_or in Hin; apply in_or_app;
      (destruct Hin as [Hin|Hin]; [left; exact Hin|right; auto]).
  - destruct IH as [I1 I2]. destruct IHc as [C1 C2]. cbn [texts_node coms_node]. fold (texts cs) (texts cs0) (coms cs) (coms cs0).
    split; intros i0 s0 Hin Hlt; apply in_app_or in Hin; apply in_or_app; (destruct Hin as [Hin|Hin]; [left|right]; auto).
  - destruct IH as [I1 I2]. split; intros i0 s0 Hin Hlt; apply in_app_or in Hin; apply in_or_app;
      (destruct Hin as [Hin|Hin]; [left; exact Hin|right]); apply in_app_or in Hin; apply in_or_app;
      (destruct Hin as [Hin|Hin]; [left; exact Hin|right; auto]).
  - destruct IH as [I1 I2]. cbn [texts_node coms_node app]. split; intros i0 s0 Hin Hlt.
    + destruct Hin as [Hin|Hin]; [inversion Hin; subst; lia|]. apply in_or_app. right. auto.
    + right. apply in_or_app. right. auto.
  - destruct IH as [I1 I2]. split; intros i0 s0 Hin Hlt; apply in_app_or in Hin; apply in_or_app;
      (destruct Hin as [Hin|Hin]; [left; exact Hin|right; auto]).
  - destruct IH as [I1 I2]. cbn [texts_node coms_node app]. split; intros i0 s0 Hin Hlt.
    + auto.
    + destruct Hin as [Hin|Hin]; [inversion Hin; subst; lia|]. right. auto.
Qed.

(* every slot and element of the layout is hydrated (nothing of the view is under NoHydrate) *)
Fixpoint full_i (i : litem) : bool :=
  match i with
  | LEl (Some _) ch => forallb full_i ch
  | LEl None _ => false
  | LText h _ | LMark h => h
  end.
Definition com_done (fresh : nat) (p : nat * string) : Prop :=
  (snd p = "" /\ fst p < fresh) \/ (snd p = "#" /\ fresh <= fst p).

Lemma rel_coms_full fresh P nt nm its hs0 hs : rel fresh P nt nm its hs0 hs ->
  alldone P its -> nt = count_t its -> nm = count_m its -> forallb full_i its = true ->
  Forall (com_done fresh) (coms hs).
Proof.
  induction 1 as [nt nm|nt nm n its hs0 hs Hn Hr IH|nt nm k ch its id tag a0 a cs0 cs hs0 hs nt' nm' Hid Hok Hc IHc Hr IH
                 |nt nm h s i x its hs0 hs Hh Hi Hx Hr IH|nt nm s i x j its hs0 hs Hi Hx Hj Hr IH
                 |nt nm h i its hs0 hs Hh Hi Hr IH|nt nm i j its hs0 hs Hi Hj Hr IH];
    intros HD Hnt Hnm HF; rewrite ?coms_cons.
  - constructor.
  - apply Forall_app. split; [|apply IH; assumption].
    destruct n as [? ? ? ?|k s|k s]; cbn in Hn; [tauto|constructor|]. destruct Hn as [Hk ->].
    constructor; [left; split; [reflexivity|exact Hk]|constructor].
  - destruct (alldone_cons_el _ _ _ _ HD) as [Dk [Dc Dr]]. cbn [count_t count_m forallb] in Hnt, Hnm, HF.
    apply andb_prop in HF. destruct HF as [HF1 HF2]. apply Forall_app. split; [|apply IH; assumption].
    cbn [coms_node]. fold (coms cs). destruct k as [c|]; [|discriminate HF1]. cbn [full_i] in HF1.
    unfold el_ok in Hok. destruct Hok as [_ [_ H1]]. rewrite (Dk c eq_refl) in H1. destruct H1 as [_ [Ht Hm]].
    apply IHc; assumption.
  - exfalso. cbn [forallb full_i] in HF. apply andb_prop in HF. destruct HF as [-> _].
    destruct Hh as [Hh|Hh]; [discriminate Hh|]. subst nt. discriminate Hnt.
  - cbn [count_t count_m forallb] in Hnt, Hnm, HF. apply andb_prop in HF. destruct HF as [_ HF]. inversion Hnt.
    cbn [coms_node app]. apply IH; assumption.
  - exfalso. cbn [forallb full_i] in HF. apply andb_prop in HF. destruct HF as [-> _].
    destruct Hh as [Hh|Hh]; [discriminate Hh|]. subst nm. discriminate Hnm.
  - cbn [count_t count_m forallb] in Hnt, Hnm, HF. apply andb_prop in HF. destruct HF as [_ HF]. inversion Hnm.
    cbn [coms_node app]. constructor; [right; split; [reflexivity|exact Hj]|]. apply IH; assumption.
Qed.

Lemma hydrate_nodes_gen f vst v fresh :
  hydratable_in f vst true v = true -> ok_slots (fst (lay f vst true v 0)) = true -> above fresh (server_dom_f f vst v) ->
  exists d, hydrate_f f vst v (server_dom_f f vst v) fresh = HOk d
    /\ (forall i s, In (i, s) (texts d) -> i < fresh -> In (i, s) (texts (server_dom_f f vst v)))
    /\ (forall i c, In (i, c) (coms d) -> i < fresh -> In (i, c) (coms (server_dom_f f vst v)))
    /\ (forallb full_i (fst (lay f vst true v 0)) = true -> Forall (com_done fresh) (coms d)).
Proof.
  intros HQ Hok Hab.
  destruct (server_rel f vst v fresh HQ Hab) as [R0 NDi].
  pose proof (lay_kspec f vst true v 0) as [_ [_ Kf]].
  destruct (lay f vst true v 0) as [G cnt'] eqn:HL. cbn [fst snd] in *.
  destruct (hydrate_rel_gen fresh vst v (server_dom_f f vst v) G cnt' f HQ Hok HL R0 NDi) as [d [Eh R]].
  assert (HD : alldone (mark (fun _ => Untouched) 0 cnt') G).
  { intros c Hc. rewrite Forall_forall in Kf. apply mark_in. exact (Kf c Hc). }
  exists d. split; [exact Eh|]. destruct (rel_old _ _ _ _ _ _ _ R) as [O1 O2].
  split; [exact O1|]. split; [exact O2|]. intros HF.
  exact (rel_coms_full _ _ _ _ _ _ _ R HD eq_refl eq_refl HF).
Qed.

(* what is old in the result is a server node; without NoHydrate no `t` / `/` comment is left, the `#` are fresh *)
Theorem hydrate_nodes vst v fresh :
  hydratable vst v = true -> above fresh (server_dom vst v) ->
  exists d, hydrate vst v (server_dom vst v) fresh = HOk d
    /\ (forall i s, In (i, s) (texts d) -> i < fresh -> In (i, s) (texts (server_dom vst v)))
    /\ (forall i c, In (i, c) (coms d) -> i < fresh -> In (i, c) (coms (server_dom vst v)))
    /\ (forallb full_i (fst (lay hyd_fuel vst true v 0)) = true -> Forall (com_done fresh) (coms d)).
Proof.
  unfold hydratable, hydrate, server_dom, above, hyd_fuel, build_fuel. generalize 64. intros f HQ Hab.
  apply andb_prop in HQ. destruct HQ as [HQ1 HQ2].
  pose proof (hydrate_nodes_gen f vst v fresh HQ1 HQ2) as H. unfold hydrate_f, server_dom_f, above in H. exact (H Hab).
Qed.

Print Assumptions hydrate_nodes.
