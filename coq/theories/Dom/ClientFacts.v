(* Dom/ClientFacts.v -- C05 "equals a fresh render": an instance is *faithful* for a view in a state when,
   identities erased, it is the instance a fresh render creates ([ierase i = pcreate f st item v]; this includes the
   content of a hidden Show, which is part of the instance but not of the DOM). [create] is faithful, [update]
   turns a faithful instance for [st] into a faithful instance for [st'] whenever only the written signal differs
   between [st] and [st'], and faithful instances have the same erased DOM. Hence after every sequence of writes
   the DOM equals, identities erased, the DOM of a fresh render in the state reached. No hypothesis on the fuel or
   on duplicate keys is needed for this half. *)
From Coq Require Import List String Ascii Bool Arith ZArith Lia.
From Syc Require Import Common.Show Ssr.Html Ssr.View Dom.Client.
Import ListNotations.
Open Scope list_scope.

(* ------------------------------------------------------------------------------------------------ *)
(* induction over instances (nested lists) *)
Section InstInd.
  Variable P : inst -> Prop.
  Hypothesis HEl : forall id tag attrs ch, Forall P ch -> P (IEl id tag attrs ch).
  Hypothesis HText : forall id s, P (IText id s).
  Hypothesis HDyn : forall m1 m2 ch, Forall P ch -> P (IDyn m1 m2 ch).
  Hypothesis HShow : forall m1 m2 b ch, Forall P ch -> P (IShow m1 m2 b ch).
  Hypothesis HList : forall m1 m2 items, Forall (fun p => Forall P (snd p)) items -> P (IList m1 m2 items).
  Hypothesis HGroup : forall ch, Forall P ch -> P (IGroup ch).

  Fixpoint inst_ind' (i : inst) : P i :=
    let go := fix go (l : list inst) : Forall P l :=
                match l with [] => Forall_nil _ | x :: r => Forall_cons _ (inst_ind' x) (go r) end in
    match i with
    | IEl id tag attrs ch => HEl id tag attrs ch (go ch)
    | IText id s => HText id s
    | IDyn m1 m2 ch => HDyn m1 m2 ch (go ch)
    | IShow m1 m2 b ch => HShow m1 m2 b ch (go ch)
    | IList m1 m2 items =>
        HList m1 m2 items
              ((fix goi (l : list (Z * list inst)) : Forall (fun p => Forall P (snd p)) l :=
                  match l with [] => Forall_nil _ | p :: r => Forall_cons _ (go (snd p)) (goi r) end) items)
    | IGroup ch => HGroup ch (go ch)
    end.
End InstInd.

(* the same for DOM nodes *)
Section DnodeInd.
  Variable P : dnode -> Prop.
  Hypothesis HEl : forall id tag attrs ch, Forall P ch -> P (DEl id tag attrs ch).
  Hypothesis HText : forall id s, P (DText id s).
  Hypothesis HMark : forall id, P (DMark id).
  Fixpoint dnode_ind' (d : dnode) : P d :=
    match d with
    | DEl id tag attrs ch =>
        HEl id tag attrs ch
            ((fix go (l : list dnode) : Forall P l :=
                match l with [] => Forall_nil _ | x :: r => Forall_cons _ (dnode_ind' x) (go r) end) ch)
    | DText id s => HText id s
    | DMark id => HMark id
    end.
End DnodeInd.

(* walking a list of views and the list of their instances together *)
Fixpoint zipl {A B C} (g : A -> B -> list C) (a : list A) (b : list B) : list C :=
  match a, b with x :: r, y :: s => g x y ++ zipl g r s | _, _ => [] end.

(* ------------------------------------------------------------------------------------------------ *)
(* instances without identities *)
Inductive pinst :=
| QEl (tag : string) (attrs : list (string * string)) (children : list pinst)
| QText (s : string)
| QDyn (content : list pinst)
| QShow (visible : bool) (content : list pinst)
| QList (items : list (Z * list pinst))
| QGroup (content : list pinst).

Fixpoint ierase (i : inst) : pinst :=
  match i with
  | IEl _ tag attrs ch => QEl tag attrs (map ierase ch)
  | IText _ s => QText s
  | IDyn _ _ ch => QDyn (map ierase ch)
  | IShow _ _ b ch => QShow b (map ierase ch)
  | IList _ _ items => QList (map (fun p => (fst p, map ierase (snd p))) items)
  | IGroup ch => QGroup (map ierase ch)
  end.

(* the erased DOM of an erased instance *)
Fixpoint pdom (q : pinst) : list pnode :=
  match q with
  | QEl tag attrs ch => [PEl tag attrs (flat_map pdom ch)]
  | QText s => [PText s]
  | QDyn ch => PMark :: flat_map pdom ch ++ [PMark]
  | QShow vis ch => PMark :: (if vis then flat_map pdom ch else []) ++ [PMark]
  | QList items => PMark :: flat_map (fun p => flat_map pdom (snd p)) items ++ [PMark]
  | QGroup ch => flat_map pdom ch
  end.

Lemma map_flat_map {A B C} (g : B -> C) (f : A -> list B) l : map g (flat_map f l) = flat_map (fun x => map g (f x)) l.
Proof. induction l as [|x r IH]; cbn; [reflexivity|]. rewrite map_app, IH. reflexivity. Qed.

Lemma flat_map_map {A B C} (g : A -> B) (f : B -> list C) l : flat_map f (map g l) = flat_map (fun x => f (g x)) l.
Proof. induction l as [|x r IH]; cbn; [reflexivity|]. rewrite IH. reflexivity. Qed.

Lemma flat_map_ext_Forall {A B} (f g : A -> list B) l : Forall (fun x => f x = g x) l -> flat_map f l = flat_map g l.
Proof. induction 1 as [|x r Hx _ IH]; cbn; [reflexivity|]. rewrite Hx, IH. reflexivity. Qed.

Lemma erase_dom i : map erase (dom_of i) = pdom (ierase i).
Proof.
  induction i as [id tag attrs ch IH|id s|m1 m2 ch IH|m1 m2 b ch IH|m1 m2 items IH|ch IH] using inst_ind'.
  - cbn [dom_of ierase pdom map erase]. f_equal. f_equal.
    rewrite map_flat_map, flat_map_map. apply flat_map_ext_Forall. exact IH.
  - reflexivity.
  - cbn [dom_of ierase pdom map erase]. f_equal. rewrite map_app. cbn [map erase]. f_equal.
    rewrite map_flat_map, flat_map_map. apply flat_map_ext_Forall. exact IH.
  - cbn [dom_of ierase pdom map erase]. f_equal. rewrite map_app. cbn [map erase]. f_equal.
    destruct b; [|reflexivity].
    rewrite map_flat_map, flat_map_map. apply flat_map_ext_Forall. exact IH.
  - cbn [dom_of ierase pdom map erase]. f_equal. rewrite map_app. cbn [map erase]. f_equal.
    rewrite map_flat_map, flat_map_map. apply flat_map_ext_Forall.
    eapply Forall_impl; [|exact IH]. cbn. intros p Hp.
    rewrite map_flat_map, flat_map_map. apply flat_map_ext_Forall. exact Hp.
  - cbn [dom_of ierase pdom]. rewrite map_flat_map, flat_map_map. apply flat_map_ext_Forall. exact IH.
Qed.

Lemma erase_doms l : map erase (flat_map dom_of l) = flat_map pdom (map ierase l).
Proof.
  rewrite map_flat_map, flat_map_map. apply flat_map_ext_Forall. apply Forall_forall. intros i _. apply erase_dom.
Qed.

(* ------------------------------------------------------------------------------------------------ *)
(* the fresh render without identities, as a function of the state *)
Fixpoint pcreate (f : nat) (st : vstate) (item : option Z) (v : view) {struct f} : pinst :=
  match f with
  | O => QGroup []
  | S f' =>
      let cl := map (pcreate f' st item) in
      match v with
      | VEl tag attrs children => QEl tag (cattrs st attrs) (if is_void tag then [] else cl children)
      | VText s => QText s
      | VDynText k => QText (opt_str (get_str st k))
      | VDyn k a b => QDyn (cl (if get_bool st k then a else b))
      | VFrag vs | VComp vs | VNoHydrate vs | VNoSsr vs => QGroup (cl vs)
      | VShow k vs => QShow (get_bool st k) (cl vs)
      | VList _ k tmpl => QList (map (fun it => (it, map (pcreate f' st (Some it)) tmpl)) (get_list st k))
      | VItem => QText (item_text item)
      end
  end.

(* an instance is faithful for [v] in [st] *)
Definition faithful (f : nat) (st : vstate) (item : option Z) (v : view) (i : inst) : Prop :=
  ierase i = pcreate f st item v.

(* ------------------------------------------------------------------------------------------------ *)
(* the two folds over list items, as structural recursions *)
Fixpoint create_items (cl : Z -> nat -> list inst * nat) (l : list Z) (cnt : nat) : list (Z * list inst) * nat :=
  match l with
  | [] => ([], cnt)
  | it :: r => let '(is, c') := cl it cnt in let '(rest, c'') := create_items cl r c' in ((it, is) :: rest, c'')
  end.

Lemma create_fold_eq (cl : Z -> nat -> list inst * nat) l : forall acc c,
  fold_left (fun '(acc, c) it => let '(is, c') := cl it c in (acc ++ [(it, is)], c')) l (acc, c)
  = let '(r, c') := create_items cl l c in (acc ++ r, c').
Proof.
  induction l as [|it r IH]; intros acc c; cbn [fold_left create_items].
  - rewrite app_nil_r. reflexivity.
  - destruct (cl it c) as [is c'] eqn:E. rewrite IH.
    destruct (create_items cl r c') as [rest c'']. rewrite <- app_assoc. reflexivity.
Qed.

Lemma create_VList f st item keyed k tmpl cnt :
  create (S f) st item (VList keyed k tmpl) cnt
  = let '(items, c1) := create_items (fun it => create_list_with (create f st (Some it)) tmpl) (get_list st k) (S (S cnt)) in
    (IList cnt (S cnt) items, c1).
Proof.
  cbn [create].
  pose proof (create_fold_eq (fun it => create_list_with (create f st (Some it)) tmpl) (get_list st k) [] (S (S cnt))) as E.
  cbv beta in E. rewrite E.
  destruct (create_items _ _ _) as [r c']. reflexivity.
Qed.

Definition old_item (keyed : bool) (items : list (Z * list inst)) (pos : nat) (it : Z) : option (list inst) :=
  if keyed then find_item it items
  else match nth_error items pos with
       | Some (it', is) => if Z.eqb it' it then Some is else None
       | None => None
       end.

Fixpoint upd_items (ul : Z -> list inst -> nat -> list inst * nat) (cl : Z -> nat -> list inst * nat)
         (keyed : bool) (items : list (Z * list inst)) (l : list Z) (pos cnt : nat) : list (Z * list inst) * nat :=
  match l with
  | [] => ([], cnt)
  | it :: r =>
      let '(is', c') := match old_item keyed items pos it with Some is => ul it is cnt | None => cl it cnt end in
      let '(rest, c'') := upd_items ul cl keyed items r (S pos) c' in
      ((it, is') :: rest, c'')
  end.

Definition upd_step (ul : Z -> list inst -> nat -> list inst * nat) (cl : Z -> nat -> list inst * nat)
           (keyed : bool) (items : list (Z * list inst))
  : list (Z * list inst) * nat * nat -> Z -> list (Z * list inst) * nat * nat :=
  fun '(acc, c, pos) it =>
    let '(is', c') := match old_item keyed items pos it with Some is => ul it is c | None => cl it c end in
    (acc ++ [(it, is')], c', S pos).

Lemma update_fold_eq ul cl keyed items l :
  forall acc c pos,
  fold_left (upd_step ul cl keyed items) l (acc, c, pos)
  = let '(r, c') := upd_items ul cl keyed items l pos c in (acc ++ r, c', pos + List.length l).
Proof.
  induction l as [|it r IH]; intros acc c pos; cbn [fold_left upd_items].
  - rewrite app_nil_r. cbn. rewrite Nat.add_0_r. reflexivity.
  - unfold upd_step at 2.
    destruct (match old_item keyed items pos it with Some is => ul it is c | None => cl it c end) as [is' c'] eqn:E.
    rewrite IH.
    destruct (upd_items ul cl keyed items r (S pos) c') as [rest c'']. rewrite <- app_assoc. cbn [List.length].
    rewrite Nat.add_succ_r. reflexivity.
Qed.

Lemma update_VList f st w item keyed k tmpl m1 m2 items cnt :
  update (S f) st w item (VList keyed k tmpl) (IList m1 m2 items) cnt
  = let '(items', c1) :=
      upd_items (fun it => update_list_with (update f st w (Some it)) (create f st (Some it)) tmpl)
                (fun it => create_list_with (create f st (Some it)) tmpl) keyed items (get_list st k) 0 cnt in
    (IList m1 m2 items', c1).
Proof.
  cbn [update].
  change (fold_left _ (get_list st k) ([], cnt, 0))
    with (fold_left (upd_step (fun it => update_list_with (update f st w (Some it)) (create f st (Some it)) tmpl)
                              (fun it => create_list_with (create f st (Some it)) tmpl) keyed items)
                    (get_list st k) ([], cnt, 0)).
  rewrite update_fold_eq.
  destruct (upd_items _ _ _ _ _ _ _) as [r c']. reflexivity.
Qed.

(* ------------------------------------------------------------------------------------------------ *)
(* [create] is faithful *)
Lemma create_list_erase (c : view -> nat -> inst * nat) (p : view -> pinst) :
  (forall v cnt, ierase (fst (c v cnt)) = p v) ->
  forall vs cnt, map ierase (fst (create_list_with c vs cnt)) = map p vs.
Proof.
  intros Hc. induction vs as [|x r IH]; intros cnt; cbn [create_list_with]; [reflexivity|].
  destruct (c x cnt) as [i c1] eqn:E1. destruct (create_list_with c r c1) as [is c2] eqn:E2.
  cbn [fst map]. f_equal.
  - specialize (Hc x cnt). rewrite E1 in Hc. exact Hc.
  - specialize (IH c1). rewrite E2 in IH. exact IH.
Qed.

Definition ierase_item (e : Z * list inst) : Z * list pinst := (fst e, map ierase (snd e)).

Lemma create_items_erase cl (p : Z -> list pinst) :
  (forall it cnt, map ierase (fst (cl it cnt)) = p it) ->
  forall l cnt, map ierase_item (fst (create_items cl l cnt)) = map (fun it => (it, p it)) l.
Proof.
  intros Hc. induction l as [|it r IH]; intros cnt; cbn [create_items]; [reflexivity|].
  destruct (cl it cnt) as [is c1] eqn:E1. destruct (create_items cl r c1) as [rest c2] eqn:E2.
  cbn [fst map]. f_equal.
  - unfold ierase_item. cbn [fst snd]. f_equal. specialize (Hc it cnt). rewrite E1 in Hc. exact Hc.
  - specialize (IH c1). rewrite E2 in IH. exact IH.
Qed.

Lemma ierase_IList m1 m2 items : ierase (IList m1 m2 items) = QList (map ierase_item items).
Proof. reflexivity. Qed.

Theorem create_faithful f : forall st item v cnt, faithful f st item v (fst (create f st item v cnt)).
Proof.
  unfold faithful. induction f as [|f IH]; intros st item v cnt; [reflexivity|].
  pose proof (create_list_erase (create f st item) (pcreate f st item) (IH st item)) as CL.
  destruct v as [tag attrs children|s|k|k a b|vs|k vs|kd k tmpl| |vs|vs|vs].
  - cbn [create pcreate]. destruct (is_void tag).
    + reflexivity.
    + specialize (CL children (S cnt)). destruct (create_list_with _ children (S cnt)) as [ch c1].
      cbn [fst ierase] in *. rewrite CL. reflexivity.
  - reflexivity.
  - reflexivity.
  - cbn [create pcreate]. specialize (CL (if get_bool st k then a else b) (S (S cnt))).
    destruct (create_list_with _ _ _) as [ch c1]. cbn [fst ierase] in *. rewrite CL. reflexivity.
  - cbn [create pcreate]. specialize (CL vs cnt).
    destruct (create_list_with _ _ _) as [ch c1]. cbn [fst ierase] in *. rewrite CL. reflexivity.
  - cbn [create pcreate]. specialize (CL vs (S (S cnt))).
    destruct (create_list_with _ _ _) as [ch c1]. cbn [fst ierase] in *. rewrite CL. reflexivity.
  - rewrite create_VList. cbn [pcreate].
    pose proof (create_items_erase (fun it => create_list_with (create f st (Some it)) tmpl)
                                   (fun it => map (pcreate f st (Some it)) tmpl)) as CI.
    cbv beta in CI. specialize (CI (fun it c => create_list_erase _ _ (IH st (Some it)) tmpl c) (get_list st k) (S (S cnt))).
    destruct (create_items _ _ _) as [items c1]. cbn [fst] in *. rewrite ierase_IList, CI. reflexivity.
  - reflexivity.
  - cbn [create pcreate]. specialize (CL vs cnt).
    destruct (create_list_with _ _ _) as [ch c1]. cbn [fst ierase] in *. rewrite CL. reflexivity.
  - cbn [create pcreate]. specialize (CL vs cnt).
    destruct (create_list_with _ _ _) as [ch c1]. cbn [fst ierase] in *. rewrite CL. reflexivity.
  - cbn [create pcreate]. specialize (CL vs cnt).
    destruct (create_list_with _ _ _) as [ch c1]. cbn [fst ierase] in *. rewrite CL. reflexivity.
Qed.

(* ------------------------------------------------------------------------------------------------ *)
(* the frame condition of one write: only signal [w] differs between [st] and [st'] *)
Definition agree_except (w : sigid) (st st' : vstate) : Prop :=
  (forall k, w <> CS k -> get_str st' k = get_str st k) /\
  (forall k, w <> CB k -> get_bool st' k = get_bool st k) /\
  (forall k, w <> CL k -> get_list st' k = get_list st k).

Lemma sigid_eqb_eq a b : sigid_eqb a b = true <-> a = b.
Proof.
  destruct a as [x|x|x], b as [y|y|y]; cbn; try (split; [discriminate|intros H; discriminate H]);
    rewrite Nat.eqb_eq; split; intros H; try (inversion H; reflexivity); subst; reflexivity.
Qed.

Lemma sigid_eqb_neq a b : sigid_eqb a b = false <-> a <> b.
Proof.
  split.
  - intros H E. apply sigid_eqb_eq in E. rewrite E in H. discriminate.
  - intros H. destruct (sigid_eqb a b) eqn:E; [|reflexivity]. apply sigid_eqb_eq in E. contradiction.
Qed.

Lemma alookup_cons_eq {A} k (x : A) l : alookup ((k, x) :: l) k = Some x.
Proof. cbn. rewrite Nat.eqb_refl. reflexivity. Qed.
Lemma alookup_cons_ne {A} k k' (x : A) l : k' <> k -> alookup ((k, x) :: l) k' = alookup l k'.
Proof. intros H. cbn. apply Nat.eqb_neq in H. rewrite H. reflexivity. Qed.

Lemma apply_write_agree st w : agree_except (fst w) st (apply_write st w).
Proof.
  destruct w as [s [[os b] l]]. cbn [fst]. unfold agree_except, apply_write.
  destruct s as [k|k|k]; unfold get_str, get_bool, get_list; cbn [strs bools lists];
    repeat split; intros k' Hk'; try reflexivity;
    rewrite alookup_cons_ne; try reflexivity; intros ->; apply Hk'; reflexivity.
Qed.

Lemma cattrs_agree w st st' l : agree_except w st st' ->
  (forall n k, In (ADyn n k) l -> w <> CS k) -> (forall n k, In (ABoolDyn n k) l -> w <> CB k) ->
  cattrs st' l = cattrs st l.
Proof.
  intros (Hs & Hb & _) H1 H2. unfold cattrs. f_equal.
  - apply flat_map_ext_Forall. apply Forall_forall. intros a Ha.
    destruct a as [n v|n k|n b|n k]; try reflexivity. rewrite (Hs k (H1 n k Ha)). reflexivity.
  - apply flat_map_ext_Forall. apply Forall_forall. intros a Ha.
    destruct a as [n v|n k|n b|n k]; try reflexivity. rewrite (Hb k (H2 n k Ha)). reflexivity.
Qed.

(* ------------------------------------------------------------------------------------------------ *)
(* [update] maps faithful instances for [st] to faithful instances for [st'] *)
Lemma update_list_erase (u : view -> inst -> nat -> inst * nat) (c : view -> nat -> inst * nat) (p p' : view -> pinst) :
  (forall v i cnt, ierase i = p v -> ierase (fst (u v i cnt)) = p' v) ->
  (forall v cnt, ierase (fst (c v cnt)) = p' v) ->
  forall vs is cnt, map ierase is = map p vs -> map ierase (fst (update_list_with u c vs is cnt)) = map p' vs.
Proof.
  intros Hu Hc. induction vs as [|x r IH]; intros is cnt Hm; [reflexivity|].
  destruct is as [|i ir]; [discriminate Hm|]. cbn [map] in Hm. injection Hm as Hi Hr.
  cbn [update_list_with].
  destruct (u x i cnt) as [i' c1] eqn:E1. destruct (update_list_with u c r ir c1) as [r' c2] eqn:E2.
  cbn [fst map]. f_equal.
  - specialize (Hu x i cnt Hi). rewrite E1 in Hu. exact Hu.
  - specialize (IH ir c1 Hr). rewrite E2 in IH. exact IH.
Qed.

Lemma find_item_In key items is : find_item key items = Some is -> In (key, is) items.
Proof.
  induction items as [|[k x] r IH]; cbn [find_item]; [discriminate|].
  destruct (Z.eqb k key) eqn:E.
  - intros H. injection H as ->. apply Z.eqb_eq in E. subst. left. reflexivity.
  - intros H. right. exact (IH H).
Qed.

Lemma old_item_In keyed items pos it is : old_item keyed items pos it = Some is -> In (it, is) items.
Proof.
  unfold old_item. destruct keyed.
  - apply find_item_In.
  - destruct (nth_error items pos) as [[it' x]|] eqn:E; [|discriminate].
    destruct (Z.eqb it' it) eqn:Ez; [|discriminate]. intros H. injection H as ->.
    apply Z.eqb_eq in Ez. subst. eapply nth_error_In. exact E.
Qed.

Lemma upd_items_erase ul cl keyed items (p p' : Z -> list pinst) :
  (forall it is cnt, map ierase is = p it -> map ierase (fst (ul it is cnt)) = p' it) ->
  (forall it cnt, map ierase (fst (cl it cnt)) = p' it) ->
  Forall (fun e => map ierase (snd e) = p (fst e)) items ->
  forall l pos cnt, map ierase_item (fst (upd_items ul cl keyed items l pos cnt)) = map (fun it => (it, p' it)) l.
Proof.
  intros Hu Hc Hit. induction l as [|it r IH]; intros pos cnt; cbn [upd_items]; [reflexivity|].
  assert (H1 : map ierase (fst (match old_item keyed items pos it with Some is => ul it is cnt | None => cl it cnt end)) = p' it).
  { destruct (old_item keyed items pos it) as [is|] eqn:E; [|apply Hc].
    apply Hu. apply old_item_In in E. rewrite Forall_forall in Hit. exact (Hit _ E). }
  destruct (match old_item keyed items pos it with Some is => ul it is cnt | None => cl it cnt end) as [is' c1].
  specialize (IH (S pos) c1). destruct (upd_items ul cl keyed items r (S pos) c1) as [rest c2].
  cbn [fst map] in *. f_equal; [|exact IH]. unfold ierase_item. cbn [fst snd]. rewrite H1. reflexivity.
Qed.

Lemma items_faithful (p : Z -> list pinst) : forall items l,
  map ierase_item items = map (fun it => (it, p it)) l -> Forall (fun e => map ierase (snd e) = p (fst e)) items.
Proof.
  induction items as [|e r IH]; intros l H; [constructor|].
  destruct l as [|it l']; [discriminate H|]. cbn [map] in H. unfold ierase_item at 1 in H. injection H as H1 H2 Hr.
  constructor; [|exact (IH _ Hr)]. rewrite H1. exact H2.
Qed.

Theorem update_faithful f : forall st st' w item v i cnt,
  agree_except w st st' -> faithful f st item v i -> faithful f st' item v (fst (update f st' w item v i cnt)).
Proof.
  unfold faithful. induction f as [|f IH]; intros st st' w item v i cnt Hag Hi; [exact Hi|].
  assert (UL : forall vs is c, map ierase is = map (pcreate f st item) vs ->
               map ierase (fst (update_list_with (update f st' w item) (create f st' item) vs is c)) = map (pcreate f st' item) vs).
  { apply update_list_erase.
    - intros v0 i0 c0 H0. exact (IH st st' w item v0 i0 c0 Hag H0).
    - intros v0 c0. apply create_faithful. }
  destruct Hag as (Hs & Hb & Hl).
  destruct v as [tag attrs children|s|k|k a b|vs|k vs|kd k tmpl| |vs|vs|vs];
    destruct i as [id tag' attrs' ich|id s'|m1 m2 ich|m1 m2 vis ich|m1 m2 items|ich];
    cbn [ierase pcreate] in Hi; try discriminate Hi.
  - (* element *)
    injection Hi as Htag Hat Hch. cbn [update pcreate]. destruct (is_void tag).
    + reflexivity.
    + specialize (UL children ich cnt Hch). destruct (update_list_with _ _ children ich cnt) as [ch c1].
      cbn [fst ierase] in *. rewrite UL. reflexivity.
  - exact Hi.
  - reflexivity.
  - (* dynamic view *)
    injection Hi as Hch. cbn [update pcreate]. destruct (sigid_eqb w (CB k)) eqn:Ew.
    + pose proof (create_list_erase (create f st' item) (pcreate f st' item) (create_faithful f st' item)
                                    (if get_bool st' k then a else b) cnt) as CL.
      destruct (create_list_with _ _ _) as [ch c1]. cbn [fst ierase] in *. rewrite CL. reflexivity.
    + apply sigid_eqb_neq in Ew. rewrite (Hb k Ew) in *.
      specialize (UL _ ich cnt Hch). destruct (update_list_with _ _ _ ich cnt) as [ch c1].
      cbn [fst ierase] in *. rewrite UL. reflexivity.
  - injection Hi as Hch. cbn [update pcreate]. specialize (UL vs ich cnt Hch).
    destruct (update_list_with _ _ vs ich cnt) as [ch c1]. cbn [fst ierase] in *. rewrite UL. reflexivity.
  - (* Show *)
    injection Hi as Hv Hch. cbn [update pcreate]. specialize (UL vs ich cnt Hch).
    destruct (update_list_with _ _ vs ich cnt) as [ch c1]. cbn [fst ierase] in *. rewrite UL. reflexivity.
  - (* list *)
    injection Hi as Hit. fold ierase_item in Hit. rewrite update_VList. cbn [pcreate].
    pose proof (upd_items_erase
                  (fun it => update_list_with (update f st' w (Some it)) (create f st' (Some it)) tmpl)
                  (fun it => create_list_with (create f st' (Some it)) tmpl) kd items
                  (fun it => map (pcreate f st (Some it)) tmpl) (fun it => map (pcreate f st' (Some it)) tmpl)) as UI.
    cbv beta in UI.
    specialize (UI (fun it is c H => update_list_erase _ _ _ _
                                       (fun v0 i0 c0 H0 => IH st st' w (Some it) v0 i0 c0 (conj Hs (conj Hb Hl)) H0)
                                       (fun v0 c0 => create_faithful f st' (Some it) v0 c0) tmpl is c H)
                   (fun it c => create_list_erase _ _ (create_faithful f st' (Some it)) tmpl c)
                   (items_faithful _ _ _ Hit) (get_list st' k) 0 cnt).
    destruct (upd_items _ _ _ _ _ _ _) as [items' c1]. cbn [fst] in *. rewrite ierase_IList, UI. reflexivity.
  - exact Hi.
  - injection Hi as Hch. cbn [update pcreate]. specialize (UL vs ich cnt Hch).
    destruct (update_list_with _ _ vs ich cnt) as [ch c1]. cbn [fst ierase] in *. rewrite UL. reflexivity.
  - injection Hi as Hch. cbn [update pcreate]. specialize (UL vs ich cnt Hch).
    destruct (update_list_with _ _ vs ich cnt) as [ch c1]. cbn [fst ierase] in *. rewrite UL. reflexivity.
  - injection Hi as Hch. cbn [update pcreate]. specialize (UL vs ich cnt Hch).
    destruct (update_list_with _ _ vs ich cnt) as [ch c1]. cbn [fst ierase] in *. rewrite UL. reflexivity.
Qed.

(* ------------------------------------------------------------------------------------------------ *)
(* runs: the fold of [run_client] as a structural recursion that keeps the instances *)
Notation cwrite := (sigid * (option string * bool * list Z))%type.

Fixpoint steps (f : nat) (v : view) (st : vstate) (i : inst) (c : nat) (ws : list cwrite) : list (vstate * inst * nat) :=
  match ws with
  | [] => []
  | w :: r =>
      let st' := apply_write st w in
      let '(i', c') := update f st' (fst w) None v i c in
      (st', i', c') :: steps f v st' i' c' r
  end.

Definition tracef (f : nat) (st : vstate) (v : view) (ws : list cwrite) : list (vstate * inst * nat) :=
  let '(i0, c0) := create f st None v 0 in (st, i0, c0) :: steps f v st i0 c0 ws.
Definition trace (st : vstate) (v : view) (ws : list cwrite) : list (vstate * inst * nat) := tracef client_fuel st v ws.

Definition run_step (f : nat) (v : view) : vstate * inst * nat * list (list dnode) -> cwrite -> vstate * inst * nat * list (list dnode) :=
  fun '(st, i, c, outs) w =>
    let st' := apply_write st w in
    let '(i', c') := update f st' (fst w) None v i c in
    (st', i', c', outs ++ [dom_of i']).

Lemma run_fold_eq f v ws : forall st i c outs,
  snd (fold_left (run_step f v) ws (st, i, c, outs)) = outs ++ map (fun t => dom_of (snd (fst t))) (steps f v st i c ws).
Proof.
  induction ws as [|w r IH]; intros st i c outs; cbn [fold_left steps map].
  - rewrite app_nil_r. reflexivity.
  - unfold run_step at 2. cbv beta iota zeta.
    destruct (update f (apply_write st w) (fst w) None v i c) as [i' c'].
    etransitivity; [apply IH|]. cbn [map fst snd]. rewrite <- app_assoc. reflexivity.
Qed.

Theorem run_client_trace st v ws : run_client st v ws = map (fun t => dom_of (snd (fst t))) (trace st v ws).
Proof.
  unfold run_client, trace, tracef. generalize client_fuel. intros f. destruct (create f st None v 0) as [i0 c0].
  change (fold_left _ ws (st, i0, c0, [dom_of i0])) with (fold_left (run_step f v) ws (st, i0, c0, [dom_of i0])).
  pose proof (run_fold_eq f v ws st i0 c0 [dom_of i0]) as E.
  destruct (fold_left (run_step f v) ws (st, i0, c0, [dom_of i0])) as [[[s1 i1] c1] o]. cbn [snd] in E. rewrite E. reflexivity.
Qed.

(* the states a run goes through *)
Fixpoint states (st : vstate) (ws : list cwrite) : list vstate :=
  st :: match ws with [] => [] | w :: r => states (apply_write st w) r end.

Lemma steps_faithful f v : forall ws st i c, faithful f st None v i ->
  Forall2 (fun s t => fst (fst t) = s /\ faithful f s None v (snd (fst t))) (tl (states st ws)) (steps f v st i c ws).
Proof.
  induction ws as [|w r IH]; intros st i c Hi; cbn [states steps tl]; [constructor|].
  pose proof (update_faithful f st (apply_write st w) (fst w) None v i c (apply_write_agree st w) Hi) as Hu.
  destruct (update f (apply_write st w) (fst w) None v i c) as [i' c']. cbn [fst] in Hu.
  destruct r as [|w' r'].
  - cbn [states steps]. constructor; [split; [reflexivity|exact Hu]|constructor].
  - constructor; [split; [reflexivity|exact Hu]|]. exact (IH (apply_write st w) i' c' Hu).
Qed.

Theorem trace_faithful st v ws :
  Forall2 (fun s t => fst (fst t) = s /\ faithful client_fuel s None v (snd (fst t))) (states st ws) (trace st v ws).
Proof.
  unfold trace, tracef. generalize client_fuel. intros f. pose proof (create_faithful f st None v 0) as H0.
  destruct (create f st None v 0) as [i0 c0]. cbn [fst] in H0.
  pose proof (steps_faithful f v ws st i0 c0 H0) as Hs.
  destruct ws as [|w r]; cbn [states] in *; (constructor; [split; [reflexivity|exact H0]|exact Hs]).
Qed.

Definition fresh_dom (st : vstate) (v : view) : list dnode := dom_of (fst (create client_fuel st None v 0)).

Lemma faithful_dom f st item v i : faithful f st item v i ->
  forall cnt, map erase (dom_of i) = map erase (dom_of (fst (create f st item v cnt))).
Proof. intros H cnt. rewrite !erase_dom. rewrite H. symmetry. f_equal. apply create_faithful. Qed.

(* every output of the run equals, identities erased, the fresh render of the state it was produced in *)
Theorem run_client_fresh st v ws :
  map (map erase) (run_client st v ws) = map (fun s => map erase (fresh_dom s v)) (states st ws).
Proof.
  rewrite run_client_trace, map_map. pose proof (trace_faithful st v ws) as H.
  induction H as [|s t ss ts [_ Ht] _ IH]; cbn [map]; [reflexivity|]. f_equal; [|exact IH].
  exact (faithful_dom _ _ _ _ _ Ht 0).
Qed.

Lemma states_length st ws : List.length (states st ws) = S (List.length ws).
Proof. revert st. induction ws as [|w r IH]; intros st; cbn [states List.length]; [reflexivity|]. rewrite IH. reflexivity. Qed.

Lemma states_nth ws : forall st n, n <= List.length ws ->
  nth n (states st ws) st = fold_left apply_write (firstn n ws) st.
Proof.
  induction ws as [|w r IH]; intros st n Hn; cbn [List.length] in Hn.
  - assert (n = 0) by lia. subst. reflexivity.
  - destruct n as [|n]; [reflexivity|]. cbn [states nth firstn fold_left].
    rewrite (nth_indep _ st (apply_write st w)); [|rewrite states_length; lia]. apply IH. lia.
Qed.

Lemma last_cons {A} (l : list A) : forall x d, last (x :: l) d = last l x.
Proof. induction l as [|y l IH]; intros x d; [reflexivity|]. cbn [last] in *. rewrite (IH y d), (IH y x). reflexivity. Qed.

Lemma states_cons st ws : exists l, states st ws = st :: l.
Proof. destruct ws; cbn [states]; eexists; reflexivity. Qed.

Lemma states_last ws : forall st, last (states st ws) st = fold_left apply_write ws st.
Proof.
  induction ws as [|w r IH]; intros st; [reflexivity|].
  cbn [states fold_left]. rewrite <- (IH (apply_write st w)). rewrite last_cons.
  destruct (states_cons (apply_write st w) r) as [l ->]. rewrite !last_cons. reflexivity.
Qed.

Theorem run_client_length st v ws : List.length (run_client st v ws) = S (List.length ws).
Proof.
  rewrite <- (map_length (map erase)), run_client_fresh, map_length. apply states_length.
Qed.

Theorem run_client_nth st v ws n : n <= List.length ws ->
  map erase (nth n (run_client st v ws) []) = map erase (fresh_dom (fold_left apply_write (firstn n ws) st) v).
Proof.
  intros Hn. change (map erase []) with (map erase []).
  rewrite <- (map_nth (map erase)). rewrite run_client_fresh.
  rewrite (nth_indep _ _ ((fun s => map erase (fresh_dom s v)) st)); [|rewrite map_length, states_length; lia].
  rewrite (map_nth (fun s => map erase (fresh_dom s v))). rewrite states_nth; [reflexivity|exact Hn].
Qed.

Lemma last_map {A B} (g : A -> B) l d : last (map g l) (g d) = g (last l d).
Proof. induction l as [|x r IH]; [reflexivity|]. destruct r; [reflexivity|]. cbn [map last] in *. exact IH. Qed.

Theorem run_client_last st v ws :
  map erase (last (run_client st v ws) []) = map erase (fresh_dom (fold_left apply_write ws st) v).
Proof.
  rewrite <- (last_map (map erase)). rewrite run_client_fresh.
  assert (H : forall l d d', l <> [] -> @last (list pnode) l d = last l d').
  { induction l as [|x r IH]; intros d d' Hl; [contradiction|]. destruct r; [reflexivity|]. cbn [last]. apply IH. discriminate. }
  rewrite (H _ _ ((fun s => map erase (fresh_dom s v)) st)).
  - rewrite (last_map (fun s => map erase (fresh_dom s v))). rewrite states_last. reflexivity.
  - destruct ws; discriminate.
Qed.

(* the same with [fresh_dom] spelled out *)
Theorem run_client_last_fresh st v ws :
  map erase (last (run_client st v ws) [])
  = map erase (dom_of (fst (create client_fuel (fold_left apply_write ws st) None v 0))).
Proof. rewrite run_client_last. unfold fresh_dom. reflexivity. Qed.

Theorem run_client_nth_fresh st v ws n : n <= List.length ws ->
  map erase (nth n (run_client st v ws) [])
  = map erase (dom_of (fst (create client_fuel (fold_left apply_write (firstn n ws) st) None v 0))).
Proof. intros Hn. rewrite (run_client_nth st v ws n Hn). unfold fresh_dom. reflexivity. Qed.
