(* Dom/HydrateClient.v -- the visible tree of the hydrated DOM is the visible tree of a fresh client render (text merged
   as the parser merged it): [hydrate_ok] composed with the static agreement of Dom/ServerClient.v. *)
From Coq Require Import List String Ascii Bool Arith ZArith Lia.
From Syc Require Import Common.Show Ssr.Html Ssr.View Dom.Client Dom.ClientFacts Dom.ServerClient.
From Syc Require Import Dom.Hydrate Dom.HydrateSpec Dom.HydrateServer Dom.HydrateFacts.
Import ListNotations.
Open Scope string_scope.
Open Scope list_scope.

Section UnodeInd.
Variable P : unode -> Prop.
Hypothesis HEl : forall t a ch, Forall P ch -> P (UEl t a ch).
Hypothesis HText : forall s, P (UText s).
Hypothesis HCom : forall s, P (UCom s).
Fixpoint unode_ind' (n : unode) : P n :=
  match n with
  | UEl t a ch => HEl t a ch ((fix go l : Forall P l := match l with [] => Forall_nil P | x :: r => Forall_cons x (unode_ind' x) (go r) end) ch)
  | UText s => HText s
  | UCom s => HCom s
  end.
End UnodeInd.

(* the visible tree of a parsed tree without identities *)
Fixpoint visu (n : unode) : list vtree :=
  match n with
  | UEl t a ch => [VtEl t (filter plain_attr a) (vt_merge (flat_map visu ch))]
  | UText s => [VtText s]
  | UCom _ => []
  end.

Lemma number_vis_node n : forall c, flat_map vis_node [fst (number_node n c)] = visu n.
Proof.
  induction n as [t a ch IH|s|s] using unode_ind'; intros c; try reflexivity.
  rewrite number_node_El. destruct (number_list ch (S c)) as [ch' c'] eqn:E. cbn [fst flat_map vis_node visu app]. f_equal. f_equal. f_equal.
  remember (S c) as c0 eqn:Hc0. clear Hc0 c. revert c0 ch' c' E. induction IH as [|x r Hx Hr IHr]; intros c0 ch' c' E; cbn [number_list] in E.
  - inversion E; subst. reflexivity.
  - specialize (Hx c0). destruct (number_node x c0) as [x' c1]. destruct (number_list r c1) as [r' c2] eqn:E2.
    inversion E; subst. cbn [flat_map fst app] in *. rewrite app_nil_r in Hx. rewrite Hx. f_equal. exact (IHr c1 r' c' E2).
Qed.

Lemma number_vis us : forall c, flat_map vis_node (fst (number_list us c)) = flat_map visu us.
Proof.
  induction us as [|x r IH]; intros c; [reflexivity|]. cbn [number_list].
  pose proof (number_vis_node x c) as Hx. destruct (number_node x c) as [x' c1]. specialize (IH c1).
  destruct (number_list r c1) as [r' c2]. cbn [fst flat_map app] in *. rewrite app_nil_r in Hx. rewrite Hx, IH. reflexivity.
Qed.

(* ---- the parser's text merging does not change the visible tree ---- *)
Lemma append_nil_r (s : string) : String.append s "" = s.
Proof. induction s as [|c r IH]; cbn [String.append]; [reflexivity|rewrite IH; reflexivity]. Qed.
Lemma append_assoc (a b c : string) : String.append (String.append a b) c = String.append a (String.append b c).
Proof. induction a as [|x r IH]; cbn [String.append]; [reflexivity|rewrite IH; reflexivity]. Qed.

Lemma vt_merge_congr x r1 r2 : vt_merge r1 = vt_merge r2 -> vt_merge (x :: r1) = vt_merge (x :: r2).
Proof. intros H. destruct x; cbn [vt_merge]; rewrite H; reflexivity. Qed.
Lemma vt_merge_empty r : vt_merge (VtText "" :: r) = vt_merge r.
Proof. cbn [vt_merge]. destruct (vt_merge r) as [|[t a c|b] r']; reflexivity. Qed.

Lemma vt_merge_join a b X : vt_merge (VtText a :: VtText b :: X) = vt_merge (VtText (String.append a b) :: X).
Proof.
  cbn [vt_merge]. destruct (vt_merge X) as [|[t at' c|c] r'].
  - destruct a as [|x a]; destruct b as [|y b]; cbn [String.append]; rewrite ?append_nil_r; reflexivity.
  - destruct a as [|x a]; destruct b as [|y b]; cbn [String.append]; rewrite ?append_nil_r; reflexivity.
  - rewrite append_assoc. reflexivity.
Qed.

Lemma merge_text_vis l : vt_merge (flat_map visu (merge_text l)) = vt_merge (flat_map visu l).
Proof.
  induction l as [|x r IH]; [reflexivity|]. destruct x as [t a ch|s|s].
  - cbn [merge_text flat_map visu app]. apply vt_merge_congr. exact IH.
  - cbn [flat_map visu app]. rewrite <- (vt_merge_congr (VtText s) _ _ IH). cbn [merge_text].
    destruct (merge_text r) as [|[t a ch|b|c] r'] eqn:E.
    + destruct s; [rewrite vt_merge_empty; reflexivity|reflexivity].
    + destruct s; [rewrite vt_merge_empty; reflexivity|reflexivity].
    + cbn [flat_map visu app]. rewrite vt_merge_join. reflexivity.
    + destruct s; [rewrite vt_merge_empty; reflexivity|reflexivity].
  - cbn [merge_text flat_map visu app]. exact IH.
Qed.

Lemma merge_deep_vis n : visu (merge_deep n) = visu n.
Proof.
  induction n as [t a ch IH|s|s] using unode_ind'; try reflexivity.
  cbn [merge_deep visu]. rewrite merge_text_vis. f_equal. f_equal. f_equal.
  induction IH as [|x r Hx Hr IHr]; [reflexivity|]. cbn [map flat_map]. rewrite Hx, IHr. reflexivity.
Qed.

Lemma merged_vis us : vt_merge (flat_map visu (merged us)) = vt_merge (flat_map visu us).
Proof.
  unfold merged. rewrite merge_text_vis. f_equal.
  induction us as [|x r IH]; [reflexivity|]. cbn [map flat_map]. rewrite merge_deep_vis, IH. reflexivity.
Qed.

(* ---- the server tree: parsed form against the visible tree of Dom/ServerClient.v ---- *)
Fixpoint vt_of (n : vnode) : vtree :=
  match n with
  | NEl t a ch => VtEl t a (vt_merge (map vt_of ch))
  | NText s => VtText s
  end.

Lemma filter_plain_names l : plain_names l -> filter plain_attr l = l.
Proof.
  induction 1 as [|p l Hp Hl IH]; [reflexivity|]. cbn [filter]. unfold plain_attr. unfold reserved in Hp. rewrite Hp. cbn [negb].
  fold plain_attr. rewrite IH. reflexivity.
Qed.

Lemma filter_plain_build st l (hk : option (nat * nat)) : attrs_ok l = true ->
  filter plain_attr (fst (build_attrs st l)
                     ++ flat_map (fun p : string * bool => if snd p then [(fst p, "")] else []) (snd (build_attrs st l))
                     ++ match hk with Some k => [("data-hk", show_hk k)] | None => [] end)
  = fst (build_attrs st l) ++ true_battrs (snd (build_attrs st l)).
Proof.
  intros H. destruct (build_attrs_plain st l H) as [H1 H2]. rewrite !filter_app, (filter_plain_names _ H1), (filter_plain_names _ H2).
  unfold true_battrs. destruct hk; cbn; rewrite app_nil_r; reflexivity.
Qed.

Definition vspec (l : list ssr) : Prop := flat_map visu (flat_map u_of_ssr l) = map vt_of (vis_server l).

Lemma vspec_app a b : vspec a -> vspec b -> vspec (a ++ b).
Proof. unfold vspec. intros Ha Hb. rewrite vis_server_app, map_app, !flat_map_app, Ha, Hb. reflexivity. Qed.

Lemma list_vspec (bb : view -> nat -> list ssr * nat) (Q : view -> bool) :
  (forall v c, Q v = true -> vspec (fst (bb v c))) ->
  forall vs c, forallb Q vs = true -> vspec (fst (build_list_with bb vs c)).
Proof.
  intros Hb. induction vs as [|x r IH]; intros c HQ; cbn [build_list_with]; [reflexivity|].
  cbn [forallb] in HQ. apply andb_prop in HQ. destruct HQ as [HQx HQr].
  specialize (Hb x c HQx). destruct (bb x c) as [a c1]. specialize (IH c1 HQr). destruct (build_list_with bb r c1) as [bs c2].
  cbn [fst] in *. apply vspec_app; assumption.
Qed.

Lemma fold_vspec (bl : Z -> nat -> list ssr * nat) :
  (forall it c, vspec (fst (bl it c))) ->
  forall items acc c, vspec acc ->
  vspec (fst (fold_left (fun '(acc, c) it => let '(n, c') := bl it c in ((acc ++ n)%list, c')) items (acc, c))).
Proof.
  intros Hb. induction items as [|it r IH]; intros acc c Ha; cbn [fold_left]; [exact Ha|].
  specialize (Hb it c). destruct (bl it c) as [n c']. cbn [fst] in Hb. apply IH. apply vspec_app; assumption.
Qed.

Theorem build_vspec st f : forall hyd item v cnt, hydratable_in f st hyd v = true ->
  vspec (fst (build st f hyd 0 item v cnt)).
Proof.
  induction f as [|f IH]; intros hyd item v cnt HQ; [discriminate HQ|].
  pose proof (fun h it => list_vspec (build st f h 0 it) (hydratable_in f st h) (fun v0 c0 H0 => IH h it v0 c0 H0)) as BL.
  destruct v as [tag attrs children|s|k|k a b|vs|k vs|kd k tmpl| |vs|vs|vs]; cbn [hydratable_in] in HQ; cbn [build].
  - apply andb_prop in HQ. destruct HQ as [HA HQ].
    pose proof (filter_plain_build st attrs (if hyd then Some (0, cnt) else None) HA) as FA.
    destruct (build_attrs st attrs) as [ss bs]. cbn [fst snd] in FA.
    assert (Hch : vspec (fst (build_list_with (build st f hyd 0 item) children (if hyd then S cnt else cnt)))).
    { destruct (is_void tag); [destruct children; [reflexivity|discriminate HQ]|].
      apply andb_prop in HQ. destruct HQ as [HQ _]. exact (BL hyd item children _ HQ). }
    destruct (build_list_with _ children _) as [ch c2]. cbn [fst] in *. unfold vspec in *.
    cbn [flat_map u_of_ssr vis_server vis_ssr app map visu vt_of]. rewrite FA.
    destruct (is_void tag); [reflexivity|]. rewrite Hch. reflexivity.
  - reflexivity.
  - reflexivity.
  - pose proof (BL hyd item _ cnt HQ) as H. destruct (build_list_with _ _ cnt) as [ch c2]. cbn [fst] in *. unfold vspec in *.
    unfold vis_server in *. cbn [flat_map u_of_ssr vis_ssr app]. rewrite ?app_nil_r, flat_map_app. cbn [visu flat_map app].
    rewrite ?app_nil_r. exact H.
  - exact (BL hyd item vs cnt HQ).
  - apply andb_prop in HQ. destruct HQ as [HQ _].
    pose proof (BL hyd item vs cnt HQ) as H. destruct (build_list_with _ vs cnt) as [ch c2]. cbn [fst] in *. unfold vspec in *.
    unfold vis_server in *. cbn [flat_map u_of_ssr vis_ssr app]. rewrite ?app_nil_r, flat_map_app. cbn [visu flat_map app].
    rewrite ?app_nil_r. destruct (get_bool st k); [exact H|reflexivity].
  - apply andb_prop in HQ. destruct HQ as [_ HQ].
    apply (fold_vspec (fun it => build_list_with (build st f hyd 0 (Some it)) tmpl)); [|reflexivity].
    intros it c. exact (BL hyd (Some it) tmpl c HQ).
  - reflexivity.
  - exact (BL hyd item vs cnt HQ).
  - exact (BL false item vs cnt HQ).
  - destruct hyd; [discriminate HQ|]. reflexivity.
Qed.

Lemma server_vis f vst v : hydratable_in f vst true v = true ->
  vis (server_dom_f f vst v) = vt_merge (map vt_of (vis_server (fst (build vst f true 0 None v 0)))).
Proof.
  intros HQ. unfold vis, server_dom_f. rewrite number_vis, merged_vis. rewrite (build_vspec vst f true None v 0 HQ). reflexivity.
Qed.

(* the hydrated DOM shows what a fresh client render of the same view in the same state shows *)
Theorem hydrate_client vst v fresh :
  hydratable vst v = true -> no_nossr v = true -> above fresh (server_dom vst v) ->
  exists d, hydrate vst v (server_dom vst v) fresh = HOk d
    /\ vis d = vt_merge (map vt_of (vis_client (dom_of (fst (create client_fuel vst None v 0))))).
Proof.
  unfold hydratable, hydrate, server_dom, above, hyd_fuel, build_fuel, client_fuel. generalize 64. intros f HQ Hn Hab.
  apply andb_prop in HQ. destruct HQ as [HQ1 HQ2].
  pose proof (hydrate_ok_gen f vst v fresh HQ1 HQ2) as H. unfold hydrate_f, above in H.
  destruct (H Hab) as [d [Eh [_ [Hv _]]]]. exists d. split; [exact Eh|].
  rewrite Hv, (server_vis f vst v HQ1). rewrite vis_client_inst, (create_faithful f vst None v 0).
  rewrite (server_client_vis_gen vst f true 0 None v 0 Hn). reflexivity.
Qed.

Print Assumptions hydrate_client.
