(* Dom/ClientReconcile.v -- C06, the link between the client model (Dom/Client.v: what the DOM of a list construct
   is after a write) and the node-diffing routine (Dom/Reconcile.v: how Keyed / Indexed get there).
   Real code (iter.rs, both Keyed and Indexed; the effect's first run builds `(start, view, end)`, every later run does):
       new = the top-level nodes of the new items' views;  old = get_nodes_between(start, end);
       new.push(end); old.push(end);  if let Some(parent) = start.parent_node() { reconcile_fragments(parent, old, new) }
   There is no fast path: the routine is called for every later run, also when the old or the new list is empty (the
   end marker keeps both sequences non-empty); the only case without a call is a start marker without parent.
   (L1) for every write, every siblings around the list in its parent: the call's preconditions hold and the routine
        turns the parent's child list `.. tops (dom_of i) ..` into `.. tops (dom_of i') ..`, touching only nodes of
        the region; (L2) retained items keep their nodes; (L3) an evaluated instance. *)
From Coq Require Import List String Ascii Bool Arith ZArith Lia.
From Syc Require Import Common.Show Ssr.Html Ssr.View Dom.Reconcile Dom.ReconcileProof Dom.Client Dom.ClientFacts Dom.ClientIds Dom.ClientStable.
Import ListNotations.
Open Scope list_scope.

(* ---- top-level nodes of a forest ---- *)
Definition root_id (d : dnode) : nat := match d with DEl id _ _ _ => id | DText id _ => id | DMark id => id end.
Definition tops (l : list dnode) : list nat := map root_id l.
Definition items_dom (items : list (Z * list inst)) : list dnode := flat_map (fun p => flat_map dom_of (snd p)) items.

Lemma tops_app a b : tops (a ++ b) = tops a ++ tops b.
Proof. apply map_app. Qed.

Lemma tops_subseq l : subseq (tops l) (dom_ids l).
Proof.
  induction l as [|d r IH]; [constructor|]. unfold dom_ids. cbn [tops map flat_map].
  destruct d as [id tag attrs ch|id s|id]; cbn [root_id dnode_ids app]; apply ss_keep; [|exact IH|exact IH].
  change (subseq (tops r) (flat_map dnode_ids ch ++ dom_ids r)).
  apply (subseq_app [] _ (tops r) (dom_ids r)); [apply subseq_nil_l|exact IH].
Qed.

Lemma tops_IList m1 m2 items : tops (dom_of (IList m1 m2 items)) = m1 :: tops (items_dom items) ++ [m2].
Proof. cbn [dom_of tops map root_id]. f_equal. unfold items_dom. rewrite map_app. reflexivity. Qed.

Lemma items_dom_ids items : subseq (dom_ids (items_dom items)) (items_ids inst_ids items).
Proof.
  unfold items_dom, items_ids. rewrite dom_ids_flat. apply subseq_flat_map. apply Forall_forall. intros p _.
  rewrite dom_ids_flat. apply subseq_flat_map. apply Forall_forall. intros i _. apply dom_ids_subseq.
Qed.

(* the region as the routine sees it is part of the identities of the instance *)
Lemma region_subseq m1 m2 items : subseq (m1 :: tops (items_dom items) ++ [m2]) (inst_ids (IList m1 m2 items)).
Proof.
  cbn [inst_ids]. apply ss_keep. apply subseq_app; [|apply subseq_refl].
  eapply subseq_trans; [apply tops_subseq|apply items_dom_ids].
Qed.

Lemma NoDup_sandwich {A} (p mid q : list A) :
  NoDup (p ++ q) -> NoDup mid -> (forall x, In x (p ++ q) -> ~ In x mid) -> NoDup (p ++ mid ++ q).
Proof.
  intros Hpq Hm Hd. apply ClientIds.NoDup_app_iff in Hpq. destruct Hpq as (Hp & Hq & Hpq).
  apply ClientIds.NoDup_app_iff. repeat split; [exact Hp| |].
  - apply ClientIds.NoDup_app_iff. repeat split; [exact Hm|exact Hq|].
    intros x Hx Hx'. apply (Hd x); [apply in_or_app; right; exact Hx'|exact Hx].
  - intros x Hx Hx'. apply in_app_or in Hx'. destruct Hx' as [Hx'|Hx'].
    + apply (Hd x); [apply in_or_app; left; exact Hx|exact Hx'].
    + exact (Hpq x Hx Hx').
Qed.

(* ------------------------------------------------------------------------------------------------ *)
(* (L1) *)
Section L1.
  Variables (f : nat) (st : vstate) (w : sigid) (item : option Z) (kd : bool) (k : nat) (tmpl : list view).
  Variables (m1 m2 : nat) (items : list (Z * list inst)) (cnt : nat) (i' : inst) (c' : nat).
  Hypothesis Hkeys : keys_ok st (VList kd k tmpl) = true.
  Hypothesis Hwf : ids_wf (IList m1 m2 items) cnt.
  Hypothesis Hupd : update f st w item (VList kd k tmpl) (IList m1 m2 items) cnt = (i', c').

  (* the updated instance is a list instance with the same markers *)
  Lemma upd_is_list : exists items', i' = IList m1 m2 items'.
  Proof.
    destruct f as [|f']; [cbn [update] in Hupd; injection Hupd as <- _; eexists; reflexivity|].
    rewrite update_VList in Hupd. destruct (upd_items _ _ kd items (get_list st k) 0 cnt) as [items' c1].
    injection Hupd as <- _. eexists. reflexivity.
  Qed.

  (* siblings: any nodes that are neither nodes of the list instance nor allocated by this update *)
  Variables (pre0 post : list nat).
  Hypothesis Hsib : NoDup (pre0 ++ post).
  Hypothesis Hdis : forall x, In x (pre0 ++ post) -> ~ In x (inst_ids (IList m1 m2 items)) /\ ~ (cnt <= x < c').

  Lemma before_nodup : NoDup (pre0 ++ tops (dom_of (IList m1 m2 items)) ++ post).
  Proof.
    apply NoDup_sandwich; [exact Hsib| |].
    - rewrite tops_IList. eapply subseq_NoDup; [apply region_subseq|exact (proj1 Hwf)].
    - intros x Hx Hin. apply (proj1 (Hdis x Hx)). rewrite tops_IList in Hin.
      eapply subseq_In; [apply region_subseq|exact Hin].
  Qed.

  Lemma after_nodup : NoDup (pre0 ++ tops (dom_of i') ++ post).
  Proof.
    destruct Hwf as [Hn Hlt]. destruct (update_ids f st w item _ _ cnt i' c' Hkeys Hn Hlt Hupd) as [L [Hn' Hf']].
    apply NoDup_sandwich; [exact Hsib| |].
    - eapply subseq_NoDup; [|exact Hn']. eapply subseq_trans; [apply tops_subseq|apply dom_ids_subseq].
    - intros x Hx Hin. assert (Hin' : In x (inst_ids i')).
      { eapply subseq_In; [apply dom_ids_subseq|]. eapply subseq_In; [apply tops_subseq|exact Hin]. }
      rewrite Forall_forall in Hf'. destruct (Hdis x Hx) as [H1 H2]. destruct (Hf' x Hin') as [H|H]; [exact (H1 H)|exact (H2 H)].
  Qed.

  Theorem list_reconcile : exists items', i' = IList m1 m2 items' /\
    let a0 := tops (items_dom items) in
    let b0 := tops (items_dom items') in
    NoDup ((pre0 ++ [m1]) ++ (a0 ++ [m2]) ++ post) /\ NoDup ((pre0 ++ [m1]) ++ (b0 ++ [m2]) ++ post) /\
    pre0 ++ tops (dom_of (IList m1 m2 items)) ++ post = (pre0 ++ [m1]) ++ (a0 ++ [m2]) ++ post /\
    pre0 ++ tops (dom_of i') ++ post = (pre0 ++ [m1]) ++ (b0 ++ [m2]) ++ post /\
    exists t, reconcile (pre0 ++ tops (dom_of (IList m1 m2 items)) ++ post) (a0 ++ [m2]) (b0 ++ [m2])
              = ROk (pre0 ++ tops (dom_of i') ++ post) t
              /\ Forall (fun x => In x (a0 ++ [m2]) \/ In x (b0 ++ [m2])) t.
  Proof.
    destruct upd_is_list as [items' E]. exists items'. split; [exact E|]. cbv zeta.
    pose proof before_nodup as Hb. pose proof after_nodup as Ha. rewrite E in Ha.
    assert (E1 : forall its, pre0 ++ tops (dom_of (IList m1 m2 its)) ++ post = (pre0 ++ [m1]) ++ (tops (items_dom its) ++ [m2]) ++ post).
    { intros its. rewrite tops_IList. change (m1 :: tops (items_dom its) ++ [m2]) with ([m1] ++ tops (items_dom its) ++ [m2]).
      rewrite <- !app_assoc. reflexivity. }
    rewrite E. rewrite !E1 in *. split; [exact Hb|]. split; [exact Ha|]. split; [reflexivity|]. split; [reflexivity|].
    apply reconcile_spec.
    - destruct (tops (items_dom items)); discriminate.
    - exact Hb.
    - apply ReconcileProof.NoDup_app_iff in Ha. destruct Ha as (_ & H & _). apply ReconcileProof.NoDup_app_iff in H. tauto.
    - intros x Hx. apply ReconcileProof.NoDup_app_iff in Ha. destruct Ha as (_ & H & Hd).
      apply ReconcileProof.NoDup_app_iff in H. destruct H as (_ & _ & Hd'). split.
      + intros Hp. apply (Hd x Hp). apply in_or_app. left. exact Hx.
      + exact (Hd' x Hx).
  Qed.

  (* the same as the boolean check of Dom/Reconcile.v, through [reconcile_correct_marker] *)
  Theorem list_reconcile_ok : exists items', i' = IList m1 m2 items' /\
    reconcile_ok (pre0 ++ [m1]) (tops (items_dom items) ++ [m2]) (tops (items_dom items') ++ [m2]) post = true.
  Proof.
    destruct list_reconcile as (items' & E & H1 & H2 & _). exists items'. split; [exact E|].
    apply reconcile_correct_marker; assumption.
  Qed.
End L1.

(* the siblings as instances: the parent's children are [chl ++ [i] ++ chr], well-formed as a whole *)
Theorem list_reconcile_in_parent f st w item kd k tmpl m1 m2 items cnt i' c' chl chr :
  keys_ok st (VList kd k tmpl) = true ->
  ids_wf (IGroup (chl ++ [IList m1 m2 items] ++ chr)) cnt ->
  update f st w item (VList kd k tmpl) (IList m1 m2 items) cnt = (i', c') ->
  exists items', i' = IList m1 m2 items' /\
    exists t, reconcile (tops (flat_map dom_of (chl ++ [IList m1 m2 items] ++ chr)))
                        (tops (items_dom items) ++ [m2]) (tops (items_dom items') ++ [m2])
              = ROk (tops (flat_map dom_of (chl ++ [i'] ++ chr))) t
              /\ Forall (fun x => In x (tops (items_dom items) ++ [m2]) \/ In x (tops (items_dom items') ++ [m2])) t.
Proof.
  intros Hk [Hn Hlt] Hu. cbn [inst_ids] in Hn, Hlt. rewrite !flat_map_app in Hn, Hlt. cbn [flat_map] in Hn, Hlt.
  rewrite app_nil_r in Hn, Hlt.
  set (L := flat_map inst_ids chl) in *. set (R := flat_map inst_ids chr) in *. set (i := IList m1 m2 items) in *.
  apply ClientIds.NoDup_app_iff in Hn. destruct Hn as (HnL & HnM & HdL).
  apply ClientIds.NoDup_app_iff in HnM. destruct HnM as (Hni & HnR & HdR).
  apply Forall_app in Hlt. destruct Hlt as [HltL HltM]. apply Forall_app in HltM. destruct HltM as [Hlti HltR].
  assert (Hsub : forall ch, subseq (tops (flat_map dom_of ch)) (flat_map inst_ids ch)).
  { intros ch. eapply subseq_trans; [apply tops_subseq|]. rewrite dom_ids_flat. apply subseq_flat_map.
    apply Forall_forall. intros j _. apply dom_ids_subseq. }
  destruct (update_ids f st w item _ _ cnt i' c' Hk Hni Hlti Hu) as [Lc _].
  assert (Hsib : NoDup (tops (flat_map dom_of chl) ++ tops (flat_map dom_of chr))).
  { apply ClientIds.NoDup_app_iff. repeat split.
    - eapply subseq_NoDup; [apply Hsub|exact HnL].
    - eapply subseq_NoDup; [apply Hsub|exact HnR].
    - intros x Hx Hx'. apply (HdL x); [eapply subseq_In; [apply Hsub|exact Hx]|].
      apply in_or_app. right. eapply subseq_In; [apply Hsub|exact Hx']. }
  assert (Hdis : forall x, In x (tops (flat_map dom_of chl) ++ tops (flat_map dom_of chr)) ->
                           ~ In x (inst_ids i) /\ ~ (cnt <= x < c')).
  { intros x Hx. rewrite Forall_forall in HltL, HltR. apply in_app_or in Hx. destruct Hx as [Hx|Hx].
    - assert (HxL : In x L) by (eapply subseq_In; [apply Hsub|exact Hx]). split.
      + intros Hi. apply (HdL x HxL). apply in_or_app. left. exact Hi.
      + specialize (HltL x HxL). lia.
    - assert (HxR : In x R) by (eapply subseq_In; [apply Hsub|exact Hx]). split.
      + intros Hi. exact (HdR x Hi HxR).
      + specialize (HltR x HxR). lia. }
  destruct (list_reconcile f st w item kd k tmpl m1 m2 items cnt i' c' Hk (conj Hni Hlti) Hu _ _ Hsib Hdis)
    as (items' & E & _ & _ & _ & _ & t & Ht & Hf).
  exists items'. split; [exact E|]. exists t. split; [|exact Hf].
  rewrite !flat_map_app, !tops_app. cbn [flat_map]. rewrite !app_nil_r. exact Ht.
Qed.

(* ------------------------------------------------------------------------------------------------ *)
(* (L2) retained items keep their nodes *)
Definition troot (t : idtree) : nat := match t with T id _ => id end.

Lemma dshape_forest l : map dshape (flat_map dom_of l) = flat_map kdom (map iskel l).
Proof.
  rewrite map_flat_map, flat_map_map. apply flat_map_ext_Forall. apply Forall_forall. intros i _. apply dshape_dom.
Qed.

Lemma dom_ids_dshape l : dom_ids l = flat_map tree_ids (map dshape l).
Proof.
  unfold dom_ids. rewrite flat_map_map. apply flat_map_ext_Forall. apply Forall_forall. intros d _. symmetry. apply dshape_ids.
Qed.

Lemma tops_dshape l : tops l = map troot (map dshape l).
Proof. unfold tops. rewrite map_map. apply map_ext. intros d. destruct d; reflexivity. Qed.

(* same skeleton => the same nodes at the same places *)
Lemma same_skel_same_nodes l l' : map iskel l' = map iskel l ->
  map dshape (flat_map dom_of l') = map dshape (flat_map dom_of l)
  /\ dom_ids (flat_map dom_of l') = dom_ids (flat_map dom_of l)
  /\ tops (flat_map dom_of l') = tops (flat_map dom_of l).
Proof.
  intros H. assert (E : map dshape (flat_map dom_of l') = map dshape (flat_map dom_of l)).
  { rewrite !dshape_forest, H. reflexivity. }
  split; [exact E|]. split; [rewrite !dom_ids_dshape, E; reflexivity|rewrite !tops_dshape, E; reflexivity].
Qed.

Lemma upd_items_nth ul cl keyed items (p : Z -> list pinst) :
  (forall it is cnt, map ierase is = p it -> map iskel (fst (ul it is cnt)) = map iskel is) ->
  Forall (fun e => map ierase (snd e) = p (fst e)) items ->
  forall l pos cnt j it is', nth_error (fst (upd_items ul cl keyed items l pos cnt)) j = Some (it, is') ->
    nth_error l j = Some it /\ forall is, old_item keyed items (pos + j) it = Some is -> map iskel is' = map iskel is.
Proof.
  intros Hu Hit. induction l as [|x r IH]; intros pos cnt j it is' H; cbn [upd_items] in H.
  - destruct j; discriminate H.
  - assert (H1 : forall is, old_item keyed items pos x = Some is ->
                   map iskel (fst (match old_item keyed items pos x with Some is0 => ul x is0 cnt | None => cl x cnt end)) = map iskel is).
    { intros is E. rewrite E. apply Hu. apply old_item_In in E. rewrite Forall_forall in Hit. exact (Hit _ E). }
    destruct (match old_item keyed items pos x with Some is0 => ul x is0 cnt | None => cl x cnt end) as [isx c1].
    specialize (IH (S pos) c1). destruct (upd_items ul cl keyed items r (S pos) c1) as [rest c2]. cbn [fst] in *.
    destruct j as [|j]; cbn [nth_error] in *.
    + injection H as <- <-. split; [reflexivity|]. rewrite Nat.add_0_r. exact H1.
    + destruct (IH j it is' H) as [H2 H3]. split; [exact H2|]. rewrite Nat.add_succ_r. exact H3.
Qed.

Lemma upd_items_keys ul cl keyed items : forall l pos cnt, map fst (fst (upd_items ul cl keyed items l pos cnt)) = l.
Proof.
  induction l as [|x r IH]; intros pos cnt; cbn [upd_items]; [reflexivity|].
  destruct (match old_item keyed items pos x with Some is0 => ul x is0 cnt | None => cl x cnt end) as [isx c1].
  specialize (IH (S pos) c1). destruct (upd_items ul cl keyed items r (S pos) c1) as [rest c2]. cbn [fst map] in *.
  rewrite IH. reflexivity.
Qed.

(* the general form: an item of the new list built from an old item has that item's skeleton *)
Theorem list_retained f st st' w item kd k tmpl m1 m2 items cnt :
  agree_except w st st' -> faithful f st item (VList kd k tmpl) (IList m1 m2 items) -> keys_ok st' (VList kd k tmpl) = true ->
  ~ In w (flat_map struct_reads tmpl) ->
  exists items', fst (update f st' w item (VList kd k tmpl) (IList m1 m2 items) cnt) = IList m1 m2 items'
    /\ map fst items' = get_list st' k
    /\ forall j key is is', nth_error items' j = Some (key, is') -> old_item kd items j key = Some is -> map iskel is' = map iskel is.
Proof.
  intros Hag Hi HQ Hw. unfold faithful in Hi. destruct f as [|f]; [discriminate Hi|].
  cbn [ierase pcreate] in Hi. injection Hi as Hit. fold ierase_item in Hit.
  rewrite update_VList.
  unfold keys_ok in HQ. cbn [keyed_sigs] in HQ. rewrite forallb_app in HQ. apply andb_prop in HQ. destruct HQ as [_ HQt].
  apply keys_ok_list in HQt. apply notin_flat in Hw.
  assert (HQ' : Forall (fun v => keys_ok st' v = true /\ ~ In w (struct_reads v)) tmpl).
  { rewrite Forall_forall in *. intros x Hx. split; [exact (HQt x Hx)|exact (Hw x Hx)]. }
  pose proof (upd_items_nth
                (fun it => update_list_with (update f st' w (Some it)) (create f st' (Some it)) tmpl)
                (fun it => create_list_with (create f st' (Some it)) tmpl) kd items
                (fun it => map (pcreate f st (Some it)) tmpl)) as UN.
  cbv beta in UN.
  specialize (UN (fun it is c H0 => proj1 (update_list_skel _ _ _ _
                     (fun v0 i0 c0 (HQ0 : keys_ok st' v0 = true /\ ~ In w (struct_reads v0)) H1 =>
                        update_nonstruct f st st' w (Some it) v0 i0 c0 Hag H1 (proj1 HQ0) (proj2 HQ0))
                     tmpl is c HQ' H0))
                 (items_faithful _ _ _ Hit) (get_list st' k) 0 cnt).
  pose proof (upd_items_keys
                (fun it => update_list_with (update f st' w (Some it)) (create f st' (Some it)) tmpl)
                (fun it => create_list_with (create f st' (Some it)) tmpl) kd items (get_list st' k) 0 cnt) as UK.
  destruct (upd_items _ _ kd items (get_list st' k) 0 cnt) as [items' c1]. cbn [fst] in *.
  exists items'. split; [reflexivity|]. split; [exact UK|].
  intros j key is is' Hj Ho. destruct (UN j key is' Hj) as [_ H]. cbn [Nat.add] in H. exact (H is Ho).
Qed.

Lemma find_item_nth key : forall items is, find_item key items = Some is -> exists j, nth_error items j = Some (key, is).
Proof.
  induction items as [|[k0 x] r IH]; intros is H; cbn [find_item] in H; [discriminate H|].
  destruct (Z.eqb k0 key) eqn:E.
  - injection H as ->. apply Z.eqb_eq in E. subst. exists 0. reflexivity.
  - destruct (IH is H) as [j Hj]. exists (S j). exact Hj.
Qed.

Lemma find_item_some key : forall items, In key (map fst items) -> exists is, find_item key items = Some is.
Proof.
  induction items as [|[k0 x] r IH]; intros H; [destruct H|]. cbn [find_item]. destruct (Z.eqb k0 key) eqn:E.
  - eexists. reflexivity.
  - cbn [map fst] in H. destruct H as [H|H]; [apply Z.eqb_neq in E; contradiction|exact (IH H)].
Qed.

(* Keyed: a key present before and after keeps its nodes *)
Theorem keyed_retained f st st' w item k tmpl m1 m2 items cnt :
  agree_except w st st' -> faithful f st item (VList true k tmpl) (IList m1 m2 items) -> keys_ok st' (VList true k tmpl) = true ->
  ~ In w (flat_map struct_reads tmpl) ->
  exists items', fst (update f st' w item (VList true k tmpl) (IList m1 m2 items) cnt) = IList m1 m2 items' /\
    forall key, In key (map fst items) -> In key (get_list st' k) ->
      exists is is', find_item key items = Some is /\ find_item key items' = Some is'
        /\ map iskel is' = map iskel is
        /\ map dshape (flat_map dom_of is') = map dshape (flat_map dom_of is)
        /\ dom_ids (flat_map dom_of is') = dom_ids (flat_map dom_of is)
        /\ tops (flat_map dom_of is') = tops (flat_map dom_of is).
Proof.
  intros Hag Hi HQ Hw. destruct (list_retained f st st' w item true k tmpl m1 m2 items cnt Hag Hi HQ Hw) as (items' & E & Hk & Hr).
  exists items'. split; [exact E|]. intros key Hold Hnew.
  destruct (find_item_some key items Hold) as [is His]. rewrite <- Hk in Hnew. destruct (find_item_some key items' Hnew) as [is' His'].
  exists is, is'. split; [exact His|]. split; [exact His'|].
  destruct (find_item_nth key items' is' His') as [j Hj].
  assert (Hs : map iskel is' = map iskel is) by (apply (Hr j key is is' Hj); exact His).
  split; [exact Hs|]. exact (same_skel_same_nodes is is' Hs).
Qed.

(* Indexed: a position whose value is unchanged keeps its nodes *)
Theorem indexed_retained f st st' w item k tmpl m1 m2 items cnt :
  agree_except w st st' -> faithful f st item (VList false k tmpl) (IList m1 m2 items) -> keys_ok st' (VList false k tmpl) = true ->
  ~ In w (flat_map struct_reads tmpl) ->
  exists items', fst (update f st' w item (VList false k tmpl) (IList m1 m2 items) cnt) = IList m1 m2 items' /\
    forall j val is, nth_error items j = Some (val, is) -> nth_error (get_list st' k) j = Some val ->
      exists is', nth_error items' j = Some (val, is')
        /\ map iskel is' = map iskel is
        /\ map dshape (flat_map dom_of is') = map dshape (flat_map dom_of is)
        /\ dom_ids (flat_map dom_of is') = dom_ids (flat_map dom_of is)
        /\ tops (flat_map dom_of is') = tops (flat_map dom_of is).
Proof.
  intros Hag Hi HQ Hw. destruct (list_retained f st st' w item false k tmpl m1 m2 items cnt Hag Hi HQ Hw) as (items' & E & Hk & Hr).
  exists items'. split; [exact E|]. intros j val is Hold Hnew.
  rewrite <- Hk in Hnew. rewrite nth_error_map in Hnew. destruct (nth_error items' j) as [[val' is']|] eqn:Hj; [|discriminate Hnew].
  cbn [option_map fst] in Hnew. injection Hnew as ->. exists is'. split; [reflexivity|].
  assert (Hs : map iskel is' = map iskel is).
  { apply (Hr j val is is' Hj). unfold old_item. rewrite Hold, Z.eqb_refl. reflexivity. }
  split; [exact Hs|]. exact (same_skel_same_nodes is is' Hs).
Qed.
