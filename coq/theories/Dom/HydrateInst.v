(* Dom/HydrateInst.v -- the hydration walk of Dom/Hydrate.v ([hyd]) returning ALSO the reactive instance it builds
   (Dom/Client.v [inst]). In the real code hydration runs the same view function as a client render; the only
   difference is where the DOM nodes come from (hydrate_node.rs): an element is the server node claimed by key, a dynamic
   text is a fresh text node that replaces the server text, a marker is a fresh comment that replaces a `/` comment,
   static text has NO node of its own (NodeState::TextStatic: the server text node is left alone and the view keeps no
   handle on it). The reactive closures installed are the same as on the client.
   [hydi] mirrors [hyd] case by case (same fuel, same key counter, same fresh-identity counter):
     VEl       -> IEl eid tag (cattrs ...) children     eid = the SERVER node claimed by key
     VDynText  -> IText fresh_id s                       the fresh text node
     VDyn      -> IDyn m1 m2 content                     the two fresh `#` markers
     VShow     -> IShow m1 m2 visible content
     VFrag / VComp -> IGroup content
     VText / VItem -> IText sid s                        sid: a SYNTHETIC identity from a second counter [sn]; the hydrated
                                                         view has no handle on static text, the identity stands for nothing
                                                         in the DOM (Dom/HydrateOwn.v compares the DOM up to these nodes)
     VNoHydrate vs -> IGroup []                          components.rs NoHydrate: on the client, while hydrating, the
                                                         component returns the EMPTY view (`view! {}`): its children are
                                                         never called; the server nodes stay in the DOM, inert.
   Definitions only; small and executable. *)
From Coq Require Import List String Ascii Bool Arith ZArith.
From Syc Require Import Common.Show Ssr.Html Ssr.View Dom.Hydrate Dom.Client.
Import ListNotations.
Open Scope string_scope.
Open Scope list_scope.

(* what one view node returns: its kinds (as [hyd]), its instance, the state, the next synthetic identity *)
Definition hires : Type := hres (list hkind * inst * hstate * nat).
Definition hlres : Type := hres (list hkind * list inst * hstate * nat).

Fixpoint hydi_list_with (h : view -> hstate -> nat -> hires) (vs : list view) (st : hstate) (sn : nat) : hlres :=
  match vs with
  | [] => HOk ([], [], st, sn)
  | v :: r =>
      match h v st sn with
      | HOk (k1, i1, st1, sn1) =>
          match hydi_list_with h r st1 sn1 with
          | HOk (k2, i2, st2, sn2) => HOk (k1 ++ k2, i1 :: i2, st2, sn2)
          | HErr e => HErr e
          end
      | HErr e => HErr e
      end
  end.

Fixpoint hydi (f : nat) (vst : vstate) (item : option Z) (v : view) (st : hstate) (sn : nat) {struct f} : hires :=
  match f with
  | O => HErr HFuel
  | S f' =>
      let hl := hydi_list_with (hydi f' vst item) in
      match v with
      | VEl tag attrs children =>
          let key := String.append "0." (show_nat (h_key st)) in
          match find_hk_list key (h_dom st) with
          | None => HErr (HKeyNotFound key)
          | Some eid =>
              let st1 := HState (map (stamp eid) (h_dom st)) (h_next st) (S (h_key st)) in
              match (if is_void tag then HOk ([], [], st1, sn) else hl children st1 sn) with
              | HOk (ks, is, st2, sn2) =>
                  match with_children_list eid (fun cs => append_kinds cs ks) (h_dom st2) with
                  | HOk dom' => HOk ([KEl eid], IEl eid tag (cattrs vst attrs) is, HState dom' (h_next st2) (h_key st2), sn2)
                  | HErr e => HErr e
                  end
              | HErr e => HErr e
              end
          end
      | VText s => HOk ([KTextStatic], IText sn s, st, S sn)
      | VItem => HOk ([KTextStatic], IText sn (item_text item), st, S sn)
      | VDynText k =>
          let s := opt_str (get_str vst k) in
          HOk ([KTextDyn (h_next st) s], IText (h_next st) s, HState (h_dom st) (S (h_next st)) (h_key st), sn)
      | VDyn k a b =>
          let m1 := h_next st in let m2 := S (h_next st) in
          match hl (if get_bool vst k then a else b) (HState (h_dom st) (S (S (h_next st))) (h_key st)) sn with
          | HOk (ks, is, st1, sn1) => HOk (KMarker m1 :: ks ++ [KMarker m2], IDyn m1 m2 is, st1, sn1)
          | HErr e => HErr e
          end
      | VFrag vs | VComp vs =>
          match hl vs st sn with
          | HOk (ks, is, st1, sn1) => HOk (ks, IGroup is, st1, sn1)
          | HErr e => HErr e
          end
      | VNoHydrate _ => HOk ([], IGroup [], st, sn)
      | VNoSsr _ => HErr HUnsupported
      | VShow k vs =>
          match hl vs st sn with
          | HOk (ks, is, st1, sn1) =>
              if only_elements ks then
                let m1 := h_next st1 in let m2 := S (h_next st1) in
                HOk (KMarker m1 :: (if get_bool vst k then ks else []) ++ [KMarker m2],
                     IShow m1 m2 (get_bool vst k) is,
                     HState (h_dom st1) (S (S (h_next st1))) (h_key st1), sn1)
              else HErr HUnsupported
          | HErr e => HErr e
          end
      | VList _ _ _ => HErr HUnsupported
      end
  end.

(* hydrate_in_scope: build, then append the top-level nodes to the mount point. Returns the DOM (as [hydrate]), the
   instance, and the first identity that neither hydration nor the synthetic static-text identities have used (what a
   later [update] allocates from). [sbase]: where the synthetic identities start. *)
Definition hydratei (vst : vstate) (v : view) (server : list hnode) (fresh sbase : nat) : hres (list hnode * inst * nat) :=
  match hydi hyd_fuel vst None v (HState server fresh 0) sbase with
  | HOk (ks, i, st, sn) =>
      match append_kinds (h_dom st) ks with
      | HOk d => HOk (d, i, Nat.max (h_next st) sn)
      | HErr e => HErr e
      end
  | HErr e => HErr e
  end.

(* ---- the part of a DOM a hydrated view owns: identities and nesting ---- *)
Inductive onode := OEl (id : nat) (children : list onode) | OText (id : nat) (s : string) | OMark (id : nat).

Definition has_key (attrs : list (string * string)) : bool := match hk_of attrs with Some _ => true | None => false end.

(* of the hydrated DOM: the elements that carry a hydration key, the text nodes and `#` comments with a fresh identity.
   Dropped: server text nodes (static text), the `""` comments that closed a dynamic text, and everything below an
   element without key (NoHydrate content). *)
Fixpoint own (fresh : nat) (n : hnode) : list onode :=
  match n with
  | HEl id _ attrs ch => if has_key attrs then [OEl id (flat_map (own fresh) ch)] else []
  | HText id s => if Nat.leb fresh id then [OText id s] else []
  | HCom id c => if Nat.leb fresh id && String.eqb c "#" then [OMark id] else []
  end.
Definition owns (fresh : nat) (l : list hnode) : list onode := flat_map (own fresh) l.

(* of an instance: its DOM ([dom_of]) without tags and attributes, static text (synthetic identity, at or above [sbase])
   dropped *)
Fixpoint iown (sbase : nat) (i : inst) : list onode :=
  match i with
  | IEl id _ _ ch => [OEl id (flat_map (iown sbase) ch)]
  | IText id s => if Nat.ltb id sbase then [OText id s] else []
  | IDyn m1 m2 ch => OMark m1 :: flat_map (iown sbase) ch ++ [OMark m2]
  | IShow m1 m2 vis ch => OMark m1 :: (if vis then flat_map (iown sbase) ch else []) ++ [OMark m2]
  | IList m1 m2 items => OMark m1 :: flat_map (fun p => flat_map (iown sbase) (snd p)) items ++ [OMark m2]
  | IGroup ch => flat_map (iown sbase) ch
  end.

(* the same from the DOM of the instance *)
Fixpoint down (sbase : nat) (d : dnode) : list onode :=
  match d with
  | DEl id _ _ ch => [OEl id (flat_map (down sbase) ch)]
  | DText id s => if Nat.ltb id sbase then [OText id s] else []
  | DMark id => [OMark id]
  end.

(* views whose hydrated instance is live: no NoHydrate content in the part of the view that is built in state [st]
   (the branch a dynamic view shows; the children of a Show whether shown or not) *)
Fixpoint live_in (f : nat) (st : vstate) (v : view) {struct f} : bool :=
  match f with
  | O => false
  | S f' =>
      match v with
      | VEl _ _ children => forallb (live_in f' st) children
      | VText _ | VItem | VDynText _ => true
      | VDyn k a b => forallb (live_in f' st) (if get_bool st k then a else b)
      | VFrag vs | VComp vs | VShow _ vs => forallb (live_in f' st) vs
      | VNoHydrate vs => match vs with [] => true | _ => false end
      | VList _ _ _ | VNoSsr _ => false
      end
  end.
Definition live (st : vstate) (v : view) : bool := live_in hyd_fuel st v.

(* the run of [run_client], started from a given instance *)
Definition run_from (st : vstate) (v : view) (i0 : inst) (c0 : nat)
           (ws : list (sigid * (option string * bool * list Z))) : list (list dnode) :=
  let '(_, _, _, outs) :=
    fold_left (fun '(st, i, c, outs) w =>
                 let st' := apply_write st w in
                 let '(i', c') := update client_fuel st' (fst w) None v i c in
                 (st', i', c', outs ++ [dom_of i']))
              ws (st, i0, c0, [dom_of i0]) in
  outs.
