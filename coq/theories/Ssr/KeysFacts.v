(* Ssr/KeysFacts.v -- C12: hydration keys are handed out in element-creation order: within one render and one
   suspense scope the keys that appear in the output are strictly increasing (hence unique), carry the scope's
   suspense number, and lie in the half-open range of the counter before and after the build. *)
From Coq Require Import List String Arith ZArith Lia Bool Sorting.Sorted.
From Syc Require Import Ssr.Html Ssr.View.
Import ListNotations.
Open Scope list_scope.

Fixpoint hk_keys (n : ssr) : list (nat * nat) :=
  match n with
  | SEl _ _ _ hk ch => (match hk with Some k => [k] | None => [] end) ++ flat_map hk_keys ch
  | SDynamic vs => flat_map hk_keys vs
  | _ => []
  end.
Definition keysl (ns : list ssr) : list (nat * nat) := flat_map hk_keys ns.

(* strictly increasing, inside [lo, hi), all with suspense number [sus] *)
Definition good (sus lo hi : nat) (l : list (nat * nat)) : Prop :=
  StronglySorted lt (map snd l) /\ Forall (fun k => fst k = sus /\ lo <= snd k < hi) l.

Lemma good_nil sus lo hi : good sus lo hi [].
Proof. split; constructor. Qed.

Lemma good_weaken sus lo lo' hi hi' l : lo' <= lo -> hi <= hi' -> good sus lo hi l -> good sus lo' hi' l.
Proof.
  intros Hlo Hhi [Hs Hf]. split; [exact Hs|]. eapply Forall_impl; [|exact Hf]. cbn. intros k [H1 H2]. split; [exact H1|lia].
Qed.

Lemma good_app sus lo mid hi a b : lo <= mid -> mid <= hi -> good sus lo mid a -> good sus mid hi b -> good sus lo hi (a ++ b).
Proof.
  intros Hlm Hmh [Hsa Hfa] [Hsb Hfb]. split.
  - rewrite map_app. induction a as [|x r IH]; cbn; [exact Hsb|].
    inversion Hsa as [|? ? Hsr Hxr]; subst. inversion Hfa as [|? ? Hx Hfr]; subst.
    constructor; [apply IH; assumption|].
    apply Forall_app. split; [exact Hxr|].
    rewrite Forall_map. eapply Forall_impl; [|exact Hfb]. cbn. intros k [_ Hk]. destruct Hx as [_ Hx]. lia.
  - apply Forall_app. split.
    + eapply Forall_impl; [|exact Hfa]. cbn. intros k [H1 H2]. split; [exact H1|lia].
    + eapply Forall_impl; [|exact Hfb]. cbn. intros k [H1 H2]. split; [exact H1|lia].
Qed.

Definition spec (sus : nat) (b : view -> nat -> list ssr * nat) : Prop :=
  forall v cnt ns cnt', b v cnt = (ns, cnt') -> cnt <= cnt' /\ good sus cnt cnt' (keysl ns).

Lemma keysl_app a b : keysl (a ++ b) = keysl a ++ keysl b.
Proof. unfold keysl. apply flat_map_app. Qed.

Lemma build_list_spec sus b : spec sus b ->
  forall vs cnt ns cnt', build_list_with b vs cnt = (ns, cnt') -> cnt <= cnt' /\ good sus cnt cnt' (keysl ns).
Proof.
  intros Hb. induction vs as [|x r IH]; intros cnt ns cnt' H; cbn in H.
  - inversion H; subst. split; [lia|apply good_nil].
  - destruct (b x cnt) as [a c1] eqn:E1. destruct (build_list_with b r c1) as [bs c2] eqn:E2.
    inversion H; subst. destruct (Hb _ _ _ _ E1) as [L1 G1]. destruct (IH _ _ _ E2) as [L2 G2].
    split; [lia|]. rewrite keysl_app. eapply good_app; eassumption.
Qed.

Theorem build_keys st f : forall hyd sus item, spec sus (build st f hyd sus item).
Proof.
  induction f as [|f IH]; intros hyd sus item v cnt ns cnt' H; cbn [build] in H.
  - inversion H; subst. split; [lia|apply good_nil].
  - pose proof (build_list_spec sus _ (IH hyd sus item)) as BL.
    destruct v as [tag attrs children|s|k|k a b|vs|k vs|kd k tmpl| |vs|vs|vs].
    + (* element *)
      destruct (build_attrs st attrs) as [ss bs].
      destruct (build_list_with _ children _) as [ch cnt2] eqn:E. inversion H; subst.
      destruct (BL _ _ _ _ E) as [L G]. destruct hyd.
      * split; [lia|]. unfold keysl. cbn. rewrite app_nil_r.
        change (good sus cnt cnt' ([(sus, cnt)] ++ keysl ch)).
        eapply (good_app sus cnt (S cnt) cnt'); [lia|lia| |exact G].
        split; cbn; [repeat constructor|constructor; [cbn; lia|constructor]].
      * split; [lia|]. unfold keysl. cbn. rewrite app_nil_r. exact G.
    + inversion H; subst. split; [lia|apply good_nil].
    + inversion H; subst. split; [lia|apply good_nil].
    + destruct (build_list_with _ _ _) as [ch cnt1] eqn:E. inversion H; subst.
      destruct (BL _ _ _ _ E) as [L G]. split; [lia|]. unfold keysl. cbn. rewrite app_nil_r. exact G.
    + exact (BL _ _ _ _ H).
    + destruct (build_list_with _ _ _) as [ch cnt1] eqn:E. inversion H; subst.
      destruct (BL _ _ _ _ E) as [L G]. split; [lia|]. unfold keysl. cbn. rewrite app_nil_r.
      destruct (get_bool st k); [exact G|apply good_nil].
    + (* list: fold over the items *)
      revert H. generalize (get_list st k). intros items.
      assert (Hgen : forall acc c, c >= cnt -> good sus cnt c (keysl acc) ->
                fold_left (fun '(acc, c) it =>
                             let '(n, c') := build_list_with (build st f hyd sus (Some it)) tmpl c in ((acc ++ n)%list, c'))
                          items (acc, c) = (ns, cnt') -> cnt <= cnt' /\ good sus cnt cnt' (keysl ns)).
      { induction items as [|it items IHi]; intros acc c Hc Hg Hf; cbn in Hf.
        - inversion Hf; subst. split; [lia|exact Hg].
        - destruct (build_list_with (build st f hyd sus (Some it)) tmpl c) as [n c'] eqn:E.
          destruct (build_list_spec sus _ (IH hyd sus (Some it)) _ _ _ _ E) as [L G].
          apply (IHi (acc ++ n)%list c'); [lia| |exact Hf].
          rewrite keysl_app. eapply good_app; [| |exact Hg|exact G]; lia. }
      intros H. apply (Hgen [] cnt); [lia|apply good_nil|exact H].
    + inversion H; subst. split; [lia|apply good_nil].
    + exact (BL _ _ _ _ H).
    + exact (build_list_spec sus _ (IH false sus item) _ _ _ _ H).
    + inversion H; subst. destruct hyd.
      * split; [lia|]. unfold keysl. cbn. split; cbn; [repeat constructor|constructor; [cbn; lia|constructor]].
      * split; [lia|apply good_nil].
Qed.

(* the keys of a whole render: strictly increasing from 0, suspense number 0, hence unique *)
Corollary render_keys st v :
  let '(ns, n) := build st build_fuel true 0 None v 0 in good 0 0 n (keysl ns).
Proof.
  destruct (build st build_fuel true 0 None v 0) as [ns n] eqn:E.
  exact (proj2 (build_keys st build_fuel true 0 None v 0 ns n E)).
Qed.

Lemma sorted_lt_nodup l : StronglySorted lt l -> NoDup l.
Proof.
  induction 1 as [|x l Hs IH Hx]; constructor; [|exact IH].
  intros Hin. rewrite Forall_forall in Hx. specialize (Hx _ Hin). lia.
Qed.

Corollary render_keys_unique st v : NoDup (map snd (keysl (fst (build st build_fuel true 0 None v 0)))).
Proof.
  pose proof (render_keys st v) as H. destruct (build st build_fuel true 0 None v 0) as [ns n]. cbn.
  apply sorted_lt_nodup. exact (proj1 H).
Qed.
