(* Ssr/Html.v -- byte strings, the two html-escape encoders used by ssr_node.rs, HTML tokens, and a
   tokenizer for the subset of HTML the renderer can emit (the specification of "parses back").
   Strings are Coq [string]s: sequences of bytes. Definitions only. *)
From Coq Require Import List String Ascii Bool Arith.
Import ListNotations.
Open Scope string_scope.

(* html_escape::encode_text: & < > *)
Fixpoint escape_text (s : string) : string :=
  match s with
  | EmptyString => EmptyString
  | String c r =>
      (if Ascii.eqb c "&" then "&amp;"
       else if Ascii.eqb c "<" then "&lt;"
       else if Ascii.eqb c ">" then "&gt;"
       else String c EmptyString) ++ escape_text r
  end.

(* html_escape::encode_double_quoted_attribute: ampersand, less-than, greater-than, double quote *)
Fixpoint escape_dq (s : string) : string :=
  match s with
  | EmptyString => EmptyString
  | String c r =>
      (if Ascii.eqb c "&" then "&amp;"
       else if Ascii.eqb c "<" then "&lt;"
       else if Ascii.eqb c ">" then "&gt;"
       else if Ascii.eqb c """" then "&quot;"
       else String c EmptyString) ++ escape_dq r
  end.

Inductive token :=
| TStart (tag : string) (attrs : list (string * option string))   (* attribute without value: None *)
| TEnd (tag : string)
| TText (s : string)                                               (* character data, entity-decoded *)
| TComment (s : string).

(* ---------------------------------------------------------------------------------- *)
(* Tokenizer (data state, tag open, tag name, attribute name, double-quoted attribute value, comment incl.
   the abrupt `<!-->`), with decoding of the four character references the encoders produce. Anything else
   (bare `<`, unquoted or single-quoted values, unknown references are left as text) is outside the subset:
   [None]. [fuel] = length of the input + 1 is always enough. *)

Definition prefix_drop (p s : string) : option string :=
  if String.prefix p s then Some (substring (String.length p) (String.length s - String.length p) s) else None.

(* decode one character reference at the head of [s] (which starts with `&`) *)
Definition decode_ref (s : string) : option (ascii * string) :=
  match prefix_drop "&amp;" s with Some r => Some ("&"%char, r) | None =>
  match prefix_drop "&lt;" s with Some r => Some ("<"%char, r) | None =>
  match prefix_drop "&gt;" s with Some r => Some (">"%char, r) | None =>
  match prefix_drop "&quot;" s with Some r => Some (""""%char, r) | None => None end end end end.

(* character data up to the next `<` (or the end), decoded *)
Fixpoint lex_text (fuel : nat) (s : string) : option (string * string) :=
  match fuel with
  | O => None
  | S f =>
      match s with
      | EmptyString => Some (EmptyString, EmptyString)
      | String c r =>
          if Ascii.eqb c "<" then Some (EmptyString, s)
          else if Ascii.eqb c "&" then
            match decode_ref s with
            | Some (d, r') => match lex_text f r' with Some (t, rest) => Some (String d t, rest) | None => None end
            | None => match lex_text f r with Some (t, rest) => Some (String c t, rest) | None => None end
            end
          else match lex_text f r with Some (t, rest) => Some (String c t, rest) | None => None end
      end
  end.

(* double-quoted attribute value up to the closing quote, decoded *)
Fixpoint lex_value (fuel : nat) (s : string) : option (string * string) :=
  match fuel with
  | O => None
  | S f =>
      match s with
      | EmptyString => None
      | String c r =>
          if Ascii.eqb c """" then Some (EmptyString, r)
          else if Ascii.eqb c "&" then
            match decode_ref s with
            | Some (d, r') => match lex_value f r' with Some (t, rest) => Some (String d t, rest) | None => None end
            | None => match lex_value f r with Some (t, rest) => Some (String c t, rest) | None => None end
            end
          else match lex_value f r with Some (t, rest) => Some (String c t, rest) | None => None end
      end
  end.

Definition name_char (c : ascii) : bool :=
  negb (Ascii.eqb c " " || Ascii.eqb c ">" || Ascii.eqb c "/" || Ascii.eqb c "=" || Ascii.eqb c """"
        || Ascii.eqb c "<" || Ascii.eqb c "'" || Ascii.eqb c "&").

Fixpoint lex_name (s : string) : string * string :=
  match s with
  | EmptyString => (EmptyString, EmptyString)
  | String c r => if name_char c then let '(n, rest) := lex_name r in (String c n, rest) else (EmptyString, s)
  end.

(* attributes after the tag name, up to and including `>` *)
Fixpoint lex_attrs (fuel : nat) (s : string) : option (list (string * option string) * string) :=
  match fuel with
  | O => None
  | S f =>
      match s with
      | EmptyString => None
      | String c r =>
          if Ascii.eqb c ">" then Some ([], r)
          else if Ascii.eqb c " " then
            let '(n, rest) := lex_name r in
            match n with
            | EmptyString => None
            | _ =>
                match prefix_drop "=""" rest with
                | Some rest' =>
                    match lex_value (S (String.length rest')) rest' with
                    | Some (v, rest'') =>
                        match lex_attrs f rest'' with
                        | Some (l, fin) => Some ((n, Some v) :: l, fin)
                        | None => None
                        end
                    | None => None
                    end
                | None =>
                    match lex_attrs f rest with
                    | Some (l, fin) => Some ((n, None) :: l, fin)
                    | None => None
                    end
                end
            end
          else None
      end
  end.

(* comment data up to `-->` *)
Fixpoint lex_comment (fuel : nat) (s : string) : option (string * string) :=
  match fuel with
  | O => None
  | S f =>
      match prefix_drop "-->" s with
      | Some rest => Some (EmptyString, rest)
      | None =>
          match s with
          | EmptyString => None
          | String c r => match lex_comment f r with Some (t, rest) => Some (String c t, rest) | None => None end
          end
      end
  end.

Fixpoint tokenize_fuel (fuel : nat) (s : string) : option (list token) :=
  match fuel with
  | O => None
  | S f =>
      match s with
      | EmptyString => Some []
      | String c r =>
          if Ascii.eqb c "<" then
            match prefix_drop "!--" r with
            | Some body =>
                (* `<!-->` and `<!--->` close an empty comment at once *)
                match prefix_drop ">" body with
                | Some rest => option_map (cons (TComment "")) (tokenize_fuel f rest)
                | None =>
                    match prefix_drop "->" body with
                    | Some rest => option_map (cons (TComment "")) (tokenize_fuel f rest)
                    | None =>
                        match lex_comment (S (String.length body)) body with
                        | Some (d, rest) => option_map (cons (TComment d)) (tokenize_fuel f rest)
                        | None => None
                        end
                    end
                end
            | None =>
                match prefix_drop "/" r with
                | Some r' =>
                    let '(n, rest) := lex_name r' in
                    match n, prefix_drop ">" rest with
                    | String _ _, Some rest' => option_map (cons (TEnd n)) (tokenize_fuel f rest')
                    | _, _ => None
                    end
                | None =>
                    let '(n, rest) := lex_name r in
                    match n with
                    | EmptyString => None
                    | _ =>
                        match lex_attrs (S (String.length rest)) rest with
                        | Some (attrs, rest') => option_map (cons (TStart n attrs)) (tokenize_fuel f rest')
                        | None => None
                        end
                    end
                end
            end
          else
            match lex_text (S (String.length s)) s with
            | Some (t, rest) => option_map (cons (TText t)) (tokenize_fuel f rest)
            | None => None
            end
      end
  end.

Definition tokenize (s : string) : option (list token) := tokenize_fuel (S (String.length s)) s.

(* merge adjacent text tokens and drop empty ones: the only information HTML cannot carry *)
Fixpoint norm (l : list token) : list token :=
  match l with
  | [] => []
  | TText a :: rest =>
      match norm rest with
      | TText b :: rest' => TText (a ++ b) :: rest'
      | rest' => match a with EmptyString => rest' | _ => TText a :: rest' end
      end
  | t :: rest => t :: norm rest
  end.
