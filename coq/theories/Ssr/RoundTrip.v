(* Ssr/RoundTrip.v -- C08: server rendering is faithful and injection-safe, for all trees and views (no size bound).
   Main results:
     render_roundtrip            tokenize (render_view ns) = Some (norm (flat_map tokens ns))   for every well-formed [ns]
     render_to_string_roundtrip  the same for render_to_string st v, for every state and every view with well-formed names
     structure_roundtrip, injection_safe, injection_safe_2
                                 start tags, attributes, end tags and comments of the parsed output come from the element
                                 and marker nodes of the tree only; they do not depend on any text or attribute value
     void_no_end_tag             no end tag of a void element is ever parsed
     flag_tokens_exact, build_attrs_str, none_attr_omitted, false_bool_attr_omitted, false_dyn_bool_attr_omitted
                                 false boolean attributes and None attributes leave no trace
   [wf] constrains tag names and the names of attributes that are actually written (non-empty, [name_char] bytes only,
   a tag must not begin with "!--"); texts and attribute values are arbitrary byte strings.
   Route: the fuel of every lexer is hidden behind an existential ([Tok], [LexText], ...); any successful run is
   reproduced by the canonical fuel (length + 1); the tree is handled in continuation form with [pre]. *)
From Coq Require Import List String Ascii Bool Arith Lia NArith ZArith.
From Syc Require Import Common.Show Ssr.Html Ssr.View.
Import ListNotations.
Open Scope string_scope.

(* ---------- strings ---------- *)
Lemma app_assoc_s (a b c : string) : (a ++ b) ++ c = a ++ (b ++ c).
Proof. induction a as [|x a IH]; cbn; [reflexivity|now rewrite IH]. Qed.

Lemma app_nil_r_s (a : string) : a ++ "" = a.
Proof. induction a as [|x a IH]; cbn; [reflexivity|now rewrite IH]. Qed.

Lemma length_app_s (a b : string) : String.length (a ++ b) = String.length a + String.length b.
Proof. induction a as [|x a IH]; cbn; [reflexivity|now rewrite IH]. Qed.

Lemma substring_full (s : string) : substring 0 (String.length s) s = s.
Proof. induction s as [|x s IH]; cbn; [reflexivity|now rewrite IH]. Qed.

Lemma substring_skip (p s : string) n : substring (String.length p) n (p ++ s) = substring 0 n s.
Proof. induction p as [|x p IH]; cbn; [reflexivity|exact IH]. Qed.

Lemma prefix_app (p s : string) : String.prefix p (p ++ s) = true.
Proof.
  induction p as [|x p IH]; cbn; [now destruct s|].
  destruct (ascii_dec x x) as [_|N]; [exact IH|now destruct N].
Qed.

Lemma prefix_drop_app (p s : string) : prefix_drop p (p ++ s) = Some s.
Proof.
  unfold prefix_drop. rewrite prefix_app, length_app_s, substring_skip.
  replace (String.length p + String.length s - String.length p) with (String.length s) by lia.
  now rewrite substring_full.
Qed.

Lemma prefix_split (p s : string) : String.prefix p s = true ->
  s = p ++ substring (String.length p) (String.length s - String.length p) s.
Proof.
  revert s. induction p as [|x p IH]; intros s H.
  - cbn. rewrite Nat.sub_0_r. now rewrite substring_full.
  - destruct s as [|y s]; cbn in H; [discriminate|].
    destruct (ascii_dec x y) as [->|N]; [|discriminate].
    cbn. f_equal. apply IH, H.
Qed.

Lemma prefix_drop_some (p s r : string) : prefix_drop p s = Some r -> s = p ++ r.
Proof.
  unfold prefix_drop. destruct (String.prefix p s) eqn:E; [|discriminate].
  intros [= <-]. apply prefix_split, E.
Qed.

Lemma prefix_drop_len (p s r : string) : prefix_drop p s = Some r -> String.length s = String.length p + String.length r.
Proof. intros H. apply prefix_drop_some in H. subst s. apply length_app_s. Qed.
(* ---------- fuel: any successful run is reproduced by every fuel above the input length ---------- *)
Lemma decode_ref_len s d r : decode_ref s = Some (d, r) -> String.length r < String.length s.
Proof.
  unfold decode_ref. intros H.
  destruct (prefix_drop "&amp;" s) eqn:E1; [injection H as <- <-; apply prefix_drop_len in E1; cbn in E1; lia|].
  destruct (prefix_drop "&lt;" s) eqn:E2; [injection H as <- <-; apply prefix_drop_len in E2; cbn in E2; lia|].
  destruct (prefix_drop "&gt;" s) eqn:E3; [injection H as <- <-; apply prefix_drop_len in E3; cbn in E3; lia|].
  destruct (prefix_drop "&quot;" s) eqn:E4; [injection H as <- <-; apply prefix_drop_len in E4; cbn in E4; lia|].
  discriminate.
Qed.

Lemma lex_text_suff f : forall s r, lex_text f s = Some r -> forall f', String.length s < f' -> lex_text f' s = Some r.
Proof.
  induction f as [|f IH]; intros s r H f' Hf; [discriminate|].
  destruct f' as [|f']; [lia|]. cbn [lex_text] in *.
  destruct s as [|c s']; [exact H|]. cbn [String.length] in Hf.
  destruct (Ascii.eqb c "<"); [exact H|].
  destruct (Ascii.eqb c "&").
  - destruct (decode_ref (String c s')) as [[d r']|] eqn:D.
    + destruct (lex_text f r') as [p|] eqn:E; [|discriminate].
      apply decode_ref_len in D. cbn [String.length] in D.
      rewrite (IH _ _ E f') by lia. exact H.
    + destruct (lex_text f s') as [p|] eqn:E; [|discriminate].
      rewrite (IH _ _ E f') by lia. exact H.
  - destruct (lex_text f s') as [p|] eqn:E; [|discriminate].
    rewrite (IH _ _ E f') by lia. exact H.
Qed.

Lemma lex_value_suff f : forall s r, lex_value f s = Some r -> forall f', String.length s < f' -> lex_value f' s = Some r.
Proof.
  induction f as [|f IH]; intros s r H f' Hf; [discriminate|].
  destruct f' as [|f']; [lia|]. cbn [lex_value] in *.
  destruct s as [|c s']; [exact H|]. cbn [String.length] in Hf.
  destruct (Ascii.eqb c """"); [exact H|].
  destruct (Ascii.eqb c "&").
  - destruct (decode_ref (String c s')) as [[d r']|] eqn:D.
    + destruct (lex_value f r') as [p|] eqn:E; [|discriminate].
      apply decode_ref_len in D. cbn [String.length] in D.
      rewrite (IH _ _ E f') by lia. exact H.
    + destruct (lex_value f s') as [p|] eqn:E; [|discriminate].
      rewrite (IH _ _ E f') by lia. exact H.
  - destruct (lex_value f s') as [p|] eqn:E; [|discriminate].
    rewrite (IH _ _ E f') by lia. exact H.
Qed.

Lemma lex_comment_suff f : forall s r, lex_comment f s = Some r -> forall f', String.length s < f' -> lex_comment f' s = Some r.
Proof.
  induction f as [|f IH]; intros s r H f' Hf; [discriminate|].
  destruct f' as [|f']; [lia|]. cbn [lex_comment] in *.
  destruct (prefix_drop "-->" s); [exact H|].
  destruct s as [|c s']; [exact H|]. cbn [String.length] in Hf.
  destruct (lex_comment f s') as [p|] eqn:E; [|discriminate].
  rewrite (IH _ _ E f') by lia. exact H.
Qed.

(* what is left over is a suffix: lengths *)
Lemma lex_text_len f : forall s t rest, lex_text f s = Some (t, rest) -> String.length rest <= String.length s.
Proof.
  induction f as [|f IH]; intros s t rest H; [discriminate|]. cbn [lex_text] in H.
  destruct s as [|c s']; [injection H as <- <-; cbn; lia|]. cbn [String.length].
  destruct (Ascii.eqb c "<"); [injection H as <- <-; cbn; lia|].
  destruct (Ascii.eqb c "&").
  - destruct (decode_ref (String c s')) as [[d r']|] eqn:D.
    + destruct (lex_text f r') as [[t' rest']|] eqn:E; [|discriminate]. injection H as <- <-.
      apply decode_ref_len in D. cbn [String.length] in D. apply IH in E. lia.
    + destruct (lex_text f s') as [[t' rest']|] eqn:E; [|discriminate]. injection H as <- <-. apply IH in E. lia.
  - destruct (lex_text f s') as [[t' rest']|] eqn:E; [|discriminate]. injection H as <- <-. apply IH in E. lia.
Qed.

Lemma lex_text_len_lt f c s' t rest : Ascii.eqb c "<" = false ->
  lex_text f (String c s') = Some (t, rest) -> String.length rest < String.length (String c s').
Proof.
  intros Hc H. destruct f as [|f]; [discriminate|]. cbn [lex_text] in H. rewrite Hc in H. cbn [String.length].
  destruct (Ascii.eqb c "&").
  - destruct (decode_ref (String c s')) as [[d r']|] eqn:D.
    + destruct (lex_text f r') as [[t' rest']|] eqn:E; [|discriminate]. injection H as <- <-.
      apply decode_ref_len in D. cbn [String.length] in D. apply lex_text_len in E. lia.
    + destruct (lex_text f s') as [[t' rest']|] eqn:E; [|discriminate]. injection H as <- <-. apply lex_text_len in E. lia.
  - destruct (lex_text f s') as [[t' rest']|] eqn:E; [|discriminate]. injection H as <- <-. apply lex_text_len in E. lia.
Qed.

Lemma lex_value_len f : forall s t rest, lex_value f s = Some (t, rest) -> String.length rest < String.length s.
Proof.
  induction f as [|f IH]; intros s t rest H; [discriminate|]. cbn [lex_value] in H.
  destruct s as [|c s']; [discriminate|]. cbn [String.length].
  destruct (Ascii.eqb c """"); [injection H as <- <-; cbn; lia|].
  destruct (Ascii.eqb c "&").
  - destruct (decode_ref (String c s')) as [[d r']|] eqn:D.
    + destruct (lex_value f r') as [[t' rest']|] eqn:E; [|discriminate]. injection H as <- <-.
      apply decode_ref_len in D. cbn [String.length] in D. apply IH in E. lia.
    + destruct (lex_value f s') as [[t' rest']|] eqn:E; [|discriminate]. injection H as <- <-. apply IH in E. lia.
  - destruct (lex_value f s') as [[t' rest']|] eqn:E; [|discriminate]. injection H as <- <-. apply IH in E. lia.
Qed.

Lemma lex_comment_len f : forall s t rest, lex_comment f s = Some (t, rest) -> String.length rest < String.length s.
Proof.
  induction f as [|f IH]; intros s t rest H; [discriminate|]. cbn [lex_comment] in H.
  destruct (prefix_drop "-->" s) eqn:P; [injection H as <- <-; apply prefix_drop_len in P; cbn in P; lia|].
  destruct s as [|c s']; [discriminate|]. cbn [String.length].
  destruct (lex_comment f s') as [[t' rest']|] eqn:E; [|discriminate]. injection H as <- <-. apply IH in E. lia.
Qed.

Lemma lex_name_len s : forall n rest, lex_name s = (n, rest) -> String.length s = String.length n + String.length rest.
Proof.
  induction s as [|c s IH]; intros n rest H; cbn [lex_name] in H.
  - injection H as <- <-. reflexivity.
  - destruct (name_char c).
    + destruct (lex_name s) as [n' rest'] eqn:E. injection H as <- <-. cbn [String.length]. rewrite (IH _ _ eq_refl). lia.
    + injection H as <- <-. reflexivity.
Qed.

Lemma lex_attrs_len f : forall s l rest, lex_attrs f s = Some (l, rest) -> String.length rest < String.length s.
Proof.
  induction f as [|f IH]; intros s l rest H; [discriminate|]. cbn [lex_attrs] in H.
  destruct s as [|c s']; [discriminate|]. cbn [String.length].
  destruct (Ascii.eqb c ">"); [injection H as <- <-; lia|].
  destruct (Ascii.eqb c " "); [|discriminate].
  destruct (lex_name s') as [n r1] eqn:N. apply lex_name_len in N.
  destruct n as [|n0 n']; [discriminate|].
  destruct (prefix_drop "=""" r1) as [r2|] eqn:P.
  - apply prefix_drop_len in P.
    destruct (lex_value (S (String.length r2)) r2) as [[v r3]|] eqn:V; [|discriminate]. apply lex_value_len in V.
    destruct (lex_attrs f r3) as [[l' fin]|] eqn:A; [|discriminate]. injection H as <- <-. apply IH in A. lia.
  - destruct (lex_attrs f r1) as [[l' fin]|] eqn:A; [|discriminate]. injection H as <- <-. apply IH in A. lia.
Qed.

Lemma lex_attrs_suff f : forall s r, lex_attrs f s = Some r -> forall f', String.length s < f' -> lex_attrs f' s = Some r.
Proof.
  induction f as [|f IH]; intros s r H f' Hf; [discriminate|].
  destruct f' as [|f']; [lia|]. cbn [lex_attrs] in *.
  destruct s as [|c s']; [exact H|]. cbn [String.length] in Hf.
  destruct (Ascii.eqb c ">"); [exact H|].
  destruct (Ascii.eqb c " "); [|exact H].
  destruct (lex_name s') as [n r1] eqn:N. apply lex_name_len in N.
  destruct n as [|n0 n']; [exact H|].
  destruct (prefix_drop "=""" r1) as [r2|] eqn:P.
  - apply prefix_drop_len in P.
    destruct (lex_value (S (String.length r2)) r2) as [[v r3]|] eqn:V; [|exact H]. apply lex_value_len in V.
    destruct (lex_attrs f r3) as [p|] eqn:A; [|discriminate].
    rewrite (IH _ _ A f') by lia. exact H.
  - destruct (lex_attrs f r1) as [p|] eqn:A; [|discriminate].
    rewrite (IH _ _ A f') by lia. exact H.
Qed.
Lemma tokenize_fuel_suff f : forall s l, tokenize_fuel f s = Some l -> forall f', String.length s < f' -> tokenize_fuel f' s = Some l.
Proof.
  induction f as [|f IH]; intros s l H f' Hf; [discriminate|].
  destruct f' as [|f']; [lia|]. cbn [tokenize_fuel] in *.
  destruct s as [|c r]; [exact H|]. cbn [String.length] in Hf.
  assert (STEP : forall t rest, String.length rest <= String.length r ->
            option_map (cons t) (tokenize_fuel f rest) = Some l -> option_map (cons t) (tokenize_fuel f' rest) = Some l).
  { intros t rest Hl Ho. destruct (tokenize_fuel f rest) as [l'|] eqn:E; [|discriminate].
    rewrite (IH _ _ E f') by lia. exact Ho. }
  destruct (Ascii.eqb c "<") eqn:Hc.
  - destruct (prefix_drop "!--" r) as [body|] eqn:P1.
    + apply prefix_drop_len in P1.
      destruct (prefix_drop ">" body) as [rest|] eqn:P2.
      { apply prefix_drop_len in P2. apply STEP; [lia|exact H]. }
      destruct (prefix_drop "->" body) as [rest|] eqn:P3.
      { apply prefix_drop_len in P3. apply STEP; [lia|exact H]. }
      destruct (lex_comment (S (String.length body)) body) as [[d rest]|] eqn:C; [|exact H].
      apply lex_comment_len in C. apply STEP; [lia|exact H].
    + destruct (prefix_drop "/" r) as [r'|] eqn:P2.
      * apply prefix_drop_len in P2. destruct (lex_name r') as [n rest] eqn:N. apply lex_name_len in N.
        destruct n as [|n0 n']; [exact H|].
        destruct (prefix_drop ">" rest) as [rest'|] eqn:P3; [|exact H].
        apply prefix_drop_len in P3. apply STEP; [lia|exact H].
      * destruct (lex_name r) as [n rest] eqn:N. apply lex_name_len in N.
        destruct n as [|n0 n']; [exact H|].
        destruct (lex_attrs (S (String.length rest)) rest) as [[attrs rest']|] eqn:A; [|exact H].
        apply lex_attrs_len in A. apply STEP; [lia|exact H].
  - destruct (lex_text (S (String.length (String c r))) (String c r)) as [[t rest]|] eqn:T; [|exact H].
    apply lex_text_len_lt in T; [|exact Hc]. cbn [String.length] in T. apply STEP; [lia|exact H].
Qed.

(* the tokenizer relation with the fuel hidden *)
Definition Tok (s : string) (l : list token) : Prop := exists f, tokenize_fuel f s = Some l.
Definition LexText (s : string) (r : string * string) : Prop := exists f, lex_text f s = Some r.
Definition LexValue (s : string) (r : string * string) : Prop := exists f, lex_value f s = Some r.
Definition LexAttrs (s : string) (r : list (string * option string) * string) : Prop := exists f, lex_attrs f s = Some r.

Lemma Tok_tokenize s l : Tok s l -> tokenize s = Some l.
Proof. intros [f H]. unfold tokenize. eapply tokenize_fuel_suff; [exact H|lia]. Qed.
Lemma tokenize_Tok s l : tokenize s = Some l -> Tok s l.
Proof. intros H. eexists. exact H. Qed.
Lemma LexText_canon s r : LexText s r -> lex_text (S (String.length s)) s = Some r.
Proof. intros [f H]. eapply lex_text_suff; [exact H|lia]. Qed.
Lemma LexValue_canon s r : LexValue s r -> lex_value (S (String.length s)) s = Some r.
Proof. intros [f H]. eapply lex_value_suff; [exact H|lia]. Qed.
Lemma LexAttrs_canon s r : LexAttrs s r -> lex_attrs (S (String.length s)) s = Some r.
Proof. intros [f H]. eapply lex_attrs_suff; [exact H|lia]. Qed.
(* ---------- the lexers on escaped data ---------- *)
Lemma decode_amp x : decode_ref ("&amp;" ++ x) = Some ("&"%char, x).
Proof. unfold decode_ref. now rewrite (prefix_drop_app "&amp;" x). Qed.
Lemma decode_lt x : decode_ref ("&lt;" ++ x) = Some ("<"%char, x).
Proof.
  unfold decode_ref. change (prefix_drop "&amp;" ("&lt;" ++ x)) with (@None string).
  now rewrite (prefix_drop_app "&lt;" x).
Qed.
Lemma decode_gt x : decode_ref ("&gt;" ++ x) = Some (">"%char, x).
Proof.
  unfold decode_ref. change (prefix_drop "&amp;" ("&gt;" ++ x)) with (@None string).
  change (prefix_drop "&lt;" ("&gt;" ++ x)) with (@None string).
  now rewrite (prefix_drop_app "&gt;" x).
Qed.
Lemma decode_quot x : decode_ref ("&quot;" ++ x) = Some (""""%char, x).
Proof.
  unfold decode_ref. change (prefix_drop "&amp;" ("&quot;" ++ x)) with (@None string).
  change (prefix_drop "&lt;" ("&quot;" ++ x)) with (@None string).
  change (prefix_drop "&gt;" ("&quot;" ++ x)) with (@None string).
  now rewrite (prefix_drop_app "&quot;" x).
Qed.

Definition step_res (d : ascii) (o : option (string * string)) : option (string * string) :=
  match o with Some (t, rest) => Some (String d t, rest) | None => None end.

Lemma lex_text_ref f e d x : decode_ref (String "&" e ++ x) = Some (d, x) ->
  lex_text (S f) (String "&" e ++ x) = step_res d (lex_text f x).
Proof. intros D. cbn [lex_text append] in *. cbn [Ascii.eqb Bool.eqb]. rewrite D. reflexivity. Qed.

Lemma lex_value_ref f e d x : decode_ref (String "&" e ++ x) = Some (d, x) ->
  lex_value (S f) (String "&" e ++ x) = step_res d (lex_value f x).
Proof. intros D. cbn [lex_value append] in *. cbn [Ascii.eqb Bool.eqb]. rewrite D. reflexivity. Qed.

Lemma LexText_escape a : forall k b rest, LexText k (b, rest) -> LexText (escape_text a ++ k) (a ++ b, rest).
Proof.
  induction a as [|c a IH]; intros k b rest H; [exact H|].
  destruct (IH _ _ _ H) as [f Hf]. exists (S f). cbn [escape_text]. rewrite app_assoc_s.
  destruct (Ascii.eqb c "&") eqn:E1; [apply Ascii.eqb_eq in E1; subst c; rewrite (lex_text_ref _ _ _ _ (decode_amp _)), Hf; reflexivity|].
  destruct (Ascii.eqb c "<") eqn:E2; [apply Ascii.eqb_eq in E2; subst c; rewrite (lex_text_ref _ _ _ _ (decode_lt _)), Hf; reflexivity|].
  destruct (Ascii.eqb c ">") eqn:E3; [apply Ascii.eqb_eq in E3; subst c; rewrite (lex_text_ref _ _ _ _ (decode_gt _)), Hf; reflexivity|].
  cbn [append lex_text]. rewrite E1, E2, Hf. reflexivity.
Qed.

Lemma LexValue_escape v x : LexValue (escape_dq v ++ """" ++ x) (v, x).
Proof.
  induction v as [|c v IH]; [exists 1; reflexivity|].
  destruct IH as [f Hf]. exists (S f). cbn [escape_dq]. rewrite app_assoc_s.
  destruct (Ascii.eqb c "&") eqn:E1; [apply Ascii.eqb_eq in E1; subst c; rewrite (lex_value_ref _ _ _ _ (decode_amp _)), Hf; reflexivity|].
  destruct (Ascii.eqb c "<") eqn:E2; [apply Ascii.eqb_eq in E2; subst c; rewrite (lex_value_ref _ _ _ _ (decode_lt _)), Hf; reflexivity|].
  destruct (Ascii.eqb c ">") eqn:E3; [apply Ascii.eqb_eq in E3; subst c; rewrite (lex_value_ref _ _ _ _ (decode_gt _)), Hf; reflexivity|].
  destruct (Ascii.eqb c """") eqn:E4; [apply Ascii.eqb_eq in E4; subst c; rewrite (lex_value_ref _ _ _ _ (decode_quot _)), Hf; reflexivity|].
  cbn [append] in Hf |- *. cbn [lex_value]. rewrite E1, E4, Hf. reflexivity.
Qed.

(* a value without quote and ampersand needs no escaping to be read back (the data-hk value) *)
Definition plain_char (c : ascii) : bool := negb (Ascii.eqb c """" || Ascii.eqb c "&").
Fixpoint all_chars (p : ascii -> bool) (s : string) : bool :=
  match s with EmptyString => true | String c r => p c && all_chars p r end.

Lemma LexValue_plain v x : all_chars plain_char v = true -> LexValue (v ++ """" ++ x) (v, x).
Proof.
  induction v as [|c v IH]; intros H; [exists 1; reflexivity|].
  cbn [all_chars] in H. apply andb_true_iff in H as [Hc Hv]. destruct (IH Hv) as [f Hf]. exists (S f).
  unfold plain_char in Hc. apply negb_true_iff, orb_false_iff in Hc as [E1 E2].
  cbn [append] in Hf |- *. cbn [lex_value]. rewrite E1, E2, Hf. reflexivity.
Qed.
(* ---------- names and attributes ---------- *)
Definition starts_stop (x : string) : bool := match x with EmptyString => true | String c _ => negb (name_char c) end.
Definition attr_start (x : string) : bool :=
  match x with EmptyString => false | String c _ => Ascii.eqb c ">" || Ascii.eqb c " " end.

Lemma lex_name_app n x : all_chars name_char n = true -> starts_stop x = true -> lex_name (n ++ x) = (n, x).
Proof.
  intros Hn Hx. induction n as [|c n IH]; cbn [append].
  - destruct x as [|d x]; [reflexivity|]. cbn [lex_name]. cbn [starts_stop] in Hx. apply negb_true_iff in Hx. now rewrite Hx.
  - cbn [all_chars] in Hn. apply andb_true_iff in Hn as [Hc Hn]. cbn [lex_name]. rewrite Hc, (IH Hn). reflexivity.
Qed.

Lemma attr_start_stop x : attr_start x = true -> starts_stop x = true.
Proof.
  destruct x as [|c x]; [discriminate|]. cbn. intros H. apply orb_true_iff in H as [H|H]; apply Ascii.eqb_eq in H; subst c; reflexivity.
Qed.
Lemma attr_start_noeq x : attr_start x = true -> prefix_drop "=""" x = None.
Proof.
  destruct x as [|c x]; [discriminate|]. cbn [attr_start]. intros H.
  apply orb_true_iff in H as [H|H]; apply Ascii.eqb_eq in H; subst c; reflexivity.
Qed.
Lemma LexAttrs_start x r : LexAttrs x r -> attr_start x = true.
Proof.
  intros [f H]. destruct f as [|f]; [discriminate|]. cbn [lex_attrs] in H. destruct x as [|c x]; [discriminate|].
  cbn [attr_start]. destruct (Ascii.eqb c ">"); [reflexivity|]. destruct (Ascii.eqb c " "); [reflexivity|discriminate].
Qed.

Definition wf_name (n : string) : bool := match n with EmptyString => false | _ => all_chars name_char n end.
Definition wf_tag (t : string) : bool := wf_name t && negb (String.prefix "!--" t).

Lemma wf_name_inv n : wf_name n = true -> exists c r, n = String c r /\ name_char c = true /\ all_chars name_char n = true.
Proof.
  destruct n as [|c r]; [discriminate|]. intros H. exists c, r. split; [reflexivity|]. split; [|exact H].
  cbn in H. now apply andb_true_iff in H as [H _].
Qed.

Lemma LexAttrs_end k : LexAttrs (">" ++ k) ([], k).
Proof. exists 1. reflexivity. Qed.

Lemma LexAttrs_val n y v x l fin : wf_name n = true -> LexValue y (v, x) -> LexAttrs x (l, fin) ->
  LexAttrs (" " ++ n ++ "=""" ++ y) ((n, Some v) :: l, fin).
Proof.
  intros Hn Hv [f Hf]. exists (S f). destruct (wf_name_inv _ Hn) as (c & r & -> & Hc & Hall).
  change (" " ++ String c r ++ "=""" ++ y) with (String " " (String c r ++ ("=""" ++ y))).
  cbn [lex_attrs]. cbn [Ascii.eqb Bool.eqb].
  rewrite (lex_name_app _ _ Hall) by reflexivity.
  rewrite (prefix_drop_app "=""" y), (LexValue_canon _ _ Hv), Hf. reflexivity.
Qed.

Lemma LexAttrs_flag n x l fin : wf_name n = true -> LexAttrs x (l, fin) -> LexAttrs (" " ++ n ++ x) ((n, None) :: l, fin).
Proof.
  intros Hn Hx. pose proof (LexAttrs_start _ _ Hx) as Hs. destruct Hx as [f Hf]. exists (S f).
  destruct (wf_name_inv _ Hn) as (c & r & -> & Hc & Hall).
  change (" " ++ String c r ++ x) with (String " " (String c r ++ x)).
  cbn [lex_attrs]. cbn [Ascii.eqb Bool.eqb].
  rewrite (lex_name_app _ _ Hall (attr_start_stop _ Hs)), (attr_start_noeq _ Hs), Hf. reflexivity.
Qed.

(* ---------- one tokenizer step at a time ---------- *)
Lemma Tok_nil : Tok "" [].
Proof. exists 1. reflexivity. Qed.
Lemma Tok_nil_inv l : Tok "" l -> l = [].
Proof. intros [f H]. destruct f; [discriminate|]. cbn in H. now injection H. Qed.

Lemma Tok_cons f s t l : tokenize_fuel f s = Some l -> option_map (cons t) (tokenize_fuel f s) = Some (t :: l).
Proof. intros ->. reflexivity. Qed.

Lemma Tok_text c r t rest l : Ascii.eqb c "<" = false -> LexText (String c r) (t, rest) -> Tok rest l ->
  Tok (String c r) (TText t :: l).
Proof.
  intros Hc Ht [f Hf]. exists (S f). cbn [tokenize_fuel]. rewrite Hc, (LexText_canon _ _ Ht). now apply Tok_cons.
Qed.

Lemma Tok_comment_empty k l : Tok k l -> Tok ("<!-->" ++ k) (TComment "" :: l).
Proof.
  intros [f Hf]. exists (S f). change ("<!-->" ++ k) with (String "<" ("!--" ++ (">" ++ k))).
  cbn [tokenize_fuel]. cbn [Ascii.eqb Bool.eqb]. rewrite (prefix_drop_app "!--"), (prefix_drop_app ">" k). now apply Tok_cons.
Qed.

Lemma lex_comment_one c k : lex_comment (S (String.length (String c ("-->" ++ k)))) (String c ("-->" ++ k)) = 
  match prefix_drop "-->" (String c ("-->" ++ k)) with Some rest => Some ("", rest) | None => Some (String c "", k) end.
Proof.
  cbn [String.length]. cbn [lex_comment]. destruct (prefix_drop "-->" (String c ("-->" ++ k))); [reflexivity|].
  rewrite (prefix_drop_app "-->" k). reflexivity.
Qed.

Lemma Tok_comment_t k l : Tok k l -> Tok ("<!--t-->" ++ k) (TComment "t" :: l).
Proof.
  intros [f Hf]. exists (S f). change ("<!--t-->" ++ k) with (String "<" ("!--" ++ (String "t" ("-->" ++ k)))).
  cbn [tokenize_fuel]. cbn [Ascii.eqb Bool.eqb]. rewrite (prefix_drop_app "!--").
  change (prefix_drop ">" (String "t" ("-->" ++ k))) with (@None string).
  change (prefix_drop "->" (String "t" ("-->" ++ k))) with (@None string).
  rewrite lex_comment_one. change (prefix_drop "-->" (String "t" ("-->" ++ k))) with (@None string).
  now apply Tok_cons.
Qed.

Lemma Tok_comment_slash k l : Tok k l -> Tok ("<!--/-->" ++ k) (TComment "/" :: l).
Proof.
  intros [f Hf]. exists (S f). change ("<!--/-->" ++ k) with (String "<" ("!--" ++ (String "/" ("-->" ++ k)))).
  cbn [tokenize_fuel]. cbn [Ascii.eqb Bool.eqb]. rewrite (prefix_drop_app "!--").
  change (prefix_drop ">" (String "/" ("-->" ++ k))) with (@None string).
  change (prefix_drop "->" (String "/" ("-->" ++ k))) with (@None string).
  rewrite lex_comment_one. change (prefix_drop "-->" (String "/" ("-->" ++ k))) with (@None string).
  now apply Tok_cons.
Qed.
Lemma Tok_end tag k l : wf_name tag = true -> Tok k l -> Tok ("</" ++ tag ++ ">" ++ k) (TEnd tag :: l).
Proof.
  intros Hn [f Hf]. exists (S f). destruct (wf_name_inv _ Hn) as (c & r & -> & Hc & Hall).
  change ("</" ++ String c r ++ ">" ++ k) with (String "<" ("/" ++ (String c r ++ (">" ++ k)))).
  cbn [tokenize_fuel]. cbn [Ascii.eqb Bool.eqb].
  change (prefix_drop "!--" ("/" ++ String c r ++ ">" ++ k)) with (@None string).
  rewrite (prefix_drop_app "/"), (lex_name_app _ _ Hall) by reflexivity.
  rewrite (prefix_drop_app ">" k). now apply Tok_cons.
Qed.

Lemma no_bang_app tag x : String.prefix "!--" tag = false -> attr_start x = true -> tag <> "" ->
  prefix_drop "!--" (tag ++ x) = None.
Proof.
  intros Hp Hx Hne. unfold prefix_drop.
  destruct x as [|d x]; [discriminate|]. cbn [attr_start] in Hx.
  assert (Hd : d <> "-"%char).
  { intros ->. discriminate. }
  destruct tag as [|c1 [|c2 [|c3 t]]]; [now destruct Hne| | |]; cbn [append String.prefix] in *.
  - destruct (ascii_dec "!" c1); [|reflexivity]. destruct (ascii_dec "-" d) as [E|]; [now destruct Hd|reflexivity].
  - destruct (ascii_dec "!" c1); [|reflexivity]. destruct (ascii_dec "-" c2); [|reflexivity].
    destruct (ascii_dec "-" d) as [E|]; [now destruct Hd|reflexivity].
  - revert Hp. destruct (ascii_dec "!" c1); [|now intros _]. destruct (ascii_dec "-" c2); [|now intros _].
    destruct (ascii_dec "-" c3); [|now intros _]. destruct t; discriminate.
Qed.

Lemma Tok_start tag x attrs rest l : wf_tag tag = true -> LexAttrs x (attrs, rest) -> Tok rest l ->
  Tok ("<" ++ tag ++ x) (TStart tag attrs :: l).
Proof.
  intros Ht Hx [f Hf]. exists (S f). unfold wf_tag in Ht. apply andb_true_iff in Ht as [Hn Hb].
  apply negb_true_iff in Hb. pose proof (LexAttrs_start _ _ Hx) as Hs.
  change ("<" ++ tag ++ x) with (String "<" (tag ++ x)).
  cbn [tokenize_fuel]. cbn [Ascii.eqb Bool.eqb].
  destruct (wf_name_inv _ Hn) as (c & r & E & Hc & Hall).
  rewrite (no_bang_app _ _ Hb Hs) by (rewrite E; discriminate).
  assert (Hsl : prefix_drop "/" (tag ++ x) = None).
  { rewrite E. unfold prefix_drop. cbn [append String.prefix]. destruct (ascii_dec "/" c) as [<-|]; [discriminate|reflexivity]. }
  rewrite Hsl, (lex_name_app _ _ Hall (attr_start_stop _ Hs)). rewrite E at 1.
  rewrite (LexAttrs_canon _ _ Hx). now apply Tok_cons.
Qed.

(* ---------- text merging ---------- *)
Definition merge (a : string) (l : list token) : list token :=
  match l with
  | TText b :: r => TText (a ++ b) :: r
  | _ => match a with EmptyString => l | _ => TText a :: l end
  end.
Definition pre (ts l : list token) : list token :=
  fold_right (fun t acc => match t with TText a => merge a acc | _ => t :: acc end) l ts.

Lemma norm_pre ts : norm ts = pre ts [].
Proof.
  induction ts as [|t ts IH]; [reflexivity|]. destruct t; cbn [norm pre fold_right]; fold (pre ts []); rewrite <- IH; try reflexivity.
  unfold merge. destruct (norm ts) as [|[] ?]; reflexivity.
Qed.
Lemma pre_app a b l : pre (a ++ b) l = pre a (pre b l).
Proof. unfold pre. apply fold_right_app. Qed.
Lemma merge_empty l : merge "" l = l.
Proof. destruct l as [|[] l]; reflexivity. Qed.

Definition text_headed (l : list token) : bool := match l with TText _ :: _ => true | _ => false end.

(* how the token list relates to the first byte of the input *)
Lemma Tok_head k lk : Tok k lk ->
  match k with
  | EmptyString => lk = []
  | String c r =>
      if Ascii.eqb c "<" then text_headed lk = false
      else exists t rest l', LexText k (t, rest) /\ Tok rest l' /\ lk = TText t :: l'
  end.
Proof.
  intros H. destruct k as [|c r]; [now apply Tok_nil_inv|]. destruct H as [f H].
  destruct f as [|f]; [discriminate|]. cbn [tokenize_fuel] in H.
  assert (OM : forall t o, option_map (cons t) o = Some lk -> exists l', o = Some l' /\ lk = t :: l').
  { intros t [l'|] Ho; [|discriminate]. injection Ho as <-. now exists l'. }
  destruct (Ascii.eqb c "<").
  - destruct (prefix_drop "!--" r) as [body|].
    + destruct (prefix_drop ">" body); [apply OM in H as (l' & _ & ->); reflexivity|].
      destruct (prefix_drop "->" body); [apply OM in H as (l' & _ & ->); reflexivity|].
      destruct (lex_comment _ body) as [[d rest]|]; [|discriminate]. apply OM in H as (l' & _ & ->); reflexivity.
    + destruct (prefix_drop "/" r) as [r'|].
      * destruct (lex_name r') as [n rest]. destruct n; [discriminate|].
        destruct (prefix_drop ">" rest); [|discriminate]. apply OM in H as (l' & _ & ->); reflexivity.
      * destruct (lex_name r) as [n rest]. destruct n; [discriminate|].
        destruct (lex_attrs _ rest) as [[attrs rest']|]; [|discriminate]. apply OM in H as (l' & _ & ->); reflexivity.
  - destruct (lex_text _ (String c r)) as [[t rest]|] eqn:T; [|discriminate].
    apply OM in H as (l' & Hl & ->). exists t, rest, l'. split; [eexists; exact T|]. split; [eexists; exact Hl|reflexivity].
Qed.

Lemma escape_text_head a : a <> "" -> exists c r, escape_text a = String c r /\ Ascii.eqb c "<" = false.
Proof.
  destruct a as [|c a]; [intros H; now destruct H|]. intros _. cbn [escape_text].
  destruct (Ascii.eqb c "&"); [eexists _, _; split; [reflexivity|reflexivity]|].
  destruct (Ascii.eqb c "<") eqn:E; [eexists _, _; split; [reflexivity|reflexivity]|].
  destruct (Ascii.eqb c ">"); [eexists _, _; split; [reflexivity|reflexivity]|].
  eexists _, _; split; [reflexivity|exact E].
Qed.

Lemma Tok_escape_text a k lk : Tok k lk -> Tok (escape_text a ++ k) (merge a lk).
Proof.
  intros H. destruct a as [|a0 a'] eqn:Ea; [rewrite merge_empty; exact H|]. rewrite <- Ea.
  assert (Hne : a <> "") by (rewrite Ea; discriminate).
  destruct (escape_text_head a Hne) as (c & r & Ec & Hc).
  pose proof (Tok_head _ _ H) as Hh.
  assert (GO : forall t rest l', LexText k (t, rest) -> Tok rest l' -> Tok (escape_text a ++ k) (TText (a ++ t) :: l')).
  { intros t rest l' Ht Hr. pose proof (LexText_escape a _ _ _ Ht) as Hl. rewrite Ec in *. cbn [append] in *.
    eapply Tok_text; eassumption. }
  destruct k as [|d k'].
  - subst lk. specialize (GO "" "" [] (ex_intro _ 1 eq_refl) Tok_nil). rewrite (app_nil_r_s a) in GO.
    rewrite Ea in *. exact GO.
  - destruct (Ascii.eqb d "<") eqn:Ed.
    + assert (Ht : LexText (String d k') ("", String d k')) by (exists 1; cbn [lex_text]; now rewrite Ed).
      specialize (GO _ _ _ Ht H). rewrite (app_nil_r_s a) in GO.
      destruct lk as [|[] lk']; try discriminate; rewrite Ea in *; exact GO.
    + destruct Hh as (t & rest & l' & Ht & Hr & ->). cbn [merge]. now apply (GO t rest l').
Qed.
(* ---------- the hydration-key value is made of digits and a dot ---------- *)
Lemma all_chars_app p a b : all_chars p (a ++ b) = all_chars p a && all_chars p b.
Proof. induction a as [|c a IH]; cbn [append all_chars]; [reflexivity|]. now rewrite IH, andb_assoc. Qed.

Lemma digit_plain r : (r < 10)%N -> plain_char (digit_char r) = true.
Proof.
  intros H.
  assert (E : (r = 0 \/ r = 1 \/ r = 2 \/ r = 3 \/ r = 4 \/ r = 5 \/ r = 6 \/ r = 7 \/ r = 8 \/ r = 9)%N) by lia.
  repeat (destruct E as [->|E]; [reflexivity|]). subst r. reflexivity.
Qed.

Lemma show_N_aux_plain f : forall n acc, all_chars plain_char acc = true -> all_chars plain_char (show_N_aux f n acc) = true.
Proof.
  induction f as [|f IH]; intros n acc H; cbn [show_N_aux]; [exact H|].
  assert (H' : all_chars plain_char (String (digit_char (n mod 10)) acc) = true).
  { cbn [all_chars]. rewrite H, digit_plain; [reflexivity|]. apply N.mod_lt. discriminate. }
  destruct (N.eqb (n / 10) 0); [exact H'|]. apply IH, H'.
Qed.

Lemma show_hk_plain k : all_chars plain_char (show_hk k) = true.
Proof.
  unfold show_hk, show_nat, show_N. rewrite !all_chars_app, !show_N_aux_plain; reflexivity.
Qed.

(* ---------- well-formed trees ---------- *)
Definition wf_battr (p : string * bool) : bool := if snd p then wf_name (fst p) else true.
Fixpoint wf (n : ssr) : bool :=
  match n with
  | SEl tag attrs battrs hk ch =>
      wf_tag tag && forallb (fun p => wf_name (fst p)) attrs && forallb wf_battr battrs
      && (is_void tag || forallb wf ch)
  | SDynamic vs => forallb wf vs
  | _ => true
  end.
Definition wf_list (ns : list ssr) : bool := forallb wf ns.

Section SsrInd.
  Variable P : ssr -> Prop.
  Hypothesis H_el : forall tag attrs battrs hk ch, Forall P ch -> P (SEl tag attrs battrs hk ch).
  Hypothesis H_td : forall s, P (STextDyn s).
  Hypothesis H_ts : forall s, P (STextStatic s).
  Hypothesis H_mk : P SMarker.
  Hypothesis H_dy : forall vs, Forall P vs -> P (SDynamic vs).
  Fixpoint ssr_ind2 (n : ssr) : P n :=
    match n with
    | SEl tag attrs battrs hk ch =>
        H_el tag attrs battrs hk ch
          ((fix go (l : list ssr) : Forall P l :=
              match l with [] => Forall_nil P | x :: r => Forall_cons x (ssr_ind2 x) (go r) end) ch)
    | STextDyn s => H_td s
    | STextStatic s => H_ts s
    | SMarker => H_mk
    | SDynamic vs =>
        H_dy vs
          ((fix go (l : list ssr) : Forall P l :=
              match l with [] => Forall_nil P | x :: r => Forall_cons x (ssr_ind2 x) (go r) end) vs)
    end.
End SsrInd.

Lemma concat_cons x l : concat "" (x :: l) = x ++ concat "" l.
Proof. destruct l; cbn [concat]; [now rewrite app_nil_r_s|reflexivity]. Qed.

(* ---------- the attribute string ---------- *)
Definition str_attr (p : string * string) : string := let '(n, v) := p in " " ++ n ++ "=""" ++ escape_dq v ++ """".
Definition str_battr (p : string * bool) : string := let '(n, b) := p in if (b : bool) then " " ++ n else "".
Definition tok_attr (p : string * string) : string * option string := let '(n, v) := p in (n, Some v).
Definition tok_battr (p : string * bool) : list (string * option string) := let '(n, b) := p in if (b : bool) then [(n, None)] else [].

Lemma LexAttrs_attrs attrs : forallb (fun p => wf_name (fst p)) attrs = true -> forall x l fin, LexAttrs x (l, fin) ->
  LexAttrs (concat "" (map str_attr attrs) ++ x) ((map tok_attr attrs ++ l)%list, fin).
Proof.
  induction attrs as [|[n v] attrs IH]; intros Hw x l fin Hx; [exact Hx|].
  cbn [forallb fst] in Hw. apply andb_true_iff in Hw as [Hn Hw].
  cbn [map]. rewrite concat_cons, app_assoc_s. cbn [str_attr tok_attr]. rewrite !app_assoc_s.
  eapply (LexAttrs_val n _ v); [exact Hn|apply LexValue_escape|]. apply IH; assumption.
Qed.

Lemma LexAttrs_battrs battrs : forallb wf_battr battrs = true -> forall x l fin, LexAttrs x (l, fin) ->
  LexAttrs (concat "" (map str_battr battrs) ++ x) ((flat_map tok_battr battrs ++ l)%list, fin).
Proof.
  induction battrs as [|[n b] battrs IH]; intros Hw x l fin Hx; [exact Hx|].
  cbn [forallb] in Hw. apply andb_true_iff in Hw as [Hn Hw].
  cbn [map flat_map]. rewrite concat_cons, app_assoc_s. cbn [str_battr tok_battr]. specialize (IH Hw _ _ _ Hx).
  destruct b; [|exact IH]. rewrite app_assoc_s. cbn [app]. apply LexAttrs_flag; [exact Hn|exact IH].
Qed.

Definition str_hk (hk : option (nat * nat)) : string := match hk with Some k => " data-hk=""" ++ show_hk k ++ """" | None => "" end.
Definition tok_hk (hk : option (nat * nat)) : list (string * option string) :=
  match hk with Some k => [("data-hk", Some (show_hk k))] | None => [] end.

Lemma LexAttrs_hk hk k : LexAttrs (str_hk hk ++ ">" ++ k) (tok_hk hk, k).
Proof.
  destruct hk as [p|]; [|apply LexAttrs_end]. cbn [str_hk tok_hk].
  change (" data-hk=""" ++ show_hk p ++ """") with (" " ++ "data-hk" ++ "=""" ++ (show_hk p ++ """")).
  rewrite !app_assoc_s.
  eapply (LexAttrs_val "data-hk" _ (show_hk p)); [reflexivity| |apply LexAttrs_end].
  apply LexValue_plain, show_hk_plain.
Qed.
(* ---------- the tree ---------- *)
Lemma render_SEl tag attrs battrs hk ch :
  render (SEl tag attrs battrs hk ch) =
  "<" ++ tag ++ (concat "" (map str_attr attrs) ++ concat "" (map str_battr battrs) ++ str_hk hk ++ ">"
                 ++ (if is_void tag then "" else concat "" (map render ch) ++ "</" ++ tag ++ ">")).
Proof. reflexivity. Qed.
Lemma tokens_SEl tag attrs battrs hk ch :
  tokens (SEl tag attrs battrs hk ch) =
  TStart tag (map tok_attr attrs ++ flat_map tok_battr battrs ++ tok_hk hk)%list
  :: (if is_void tag then [] else (flat_map tokens ch ++ [TEnd tag])%list).
Proof. reflexivity. Qed.

Lemma LexAttrs_all attrs battrs hk k :
  forallb (fun p => wf_name (fst p)) attrs = true -> forallb wf_battr battrs = true ->
  LexAttrs (concat "" (map str_attr attrs) ++ concat "" (map str_battr battrs) ++ str_hk hk ++ ">" ++ k)
           ((map tok_attr attrs ++ flat_map tok_battr battrs ++ tok_hk hk)%list, k).
Proof.
  intros Ha Hb. apply LexAttrs_attrs; [exact Ha|]. apply LexAttrs_battrs; [exact Hb|]. apply LexAttrs_hk.
Qed.

Definition cont (n : ssr) : Prop :=
  wf n = true -> forall k lk, Tok k lk -> Tok (render n ++ k) (pre (tokens n) lk).

Lemma cont_list ns : Forall cont ns -> forallb wf ns = true ->
  forall k lk, Tok k lk -> Tok (concat "" (map render ns) ++ k) (pre (flat_map tokens ns) lk).
Proof.
  induction 1 as [|n ns Hn _ IH]; intros Hw k lk Hk; [exact Hk|].
  cbn [forallb] in Hw. apply andb_true_iff in Hw as [Hw1 Hw2].
  cbn [map flat_map]. rewrite concat_cons, app_assoc_s, pre_app. apply Hn; [exact Hw1|]. now apply IH.
Qed.

Lemma render_cont : forall n, cont n.
Proof.
  apply ssr_ind2; unfold cont.
  - intros tag attrs battrs hk ch IH Hw k lk Hk.
    cbn [wf] in Hw. apply andb_true_iff in Hw as [Hw Hch]. apply andb_true_iff in Hw as [Hw Hb].
    apply andb_true_iff in Hw as [Ht Ha].
    rewrite render_SEl, tokens_SEl, !app_assoc_s. cbn [pre fold_right].
    match goal with |- Tok _ (_ :: ?r) => eapply (Tok_start tag _ _ ((if is_void tag then "" else concat "" (map render ch) ++ "</" ++ tag ++ ">") ++ k) r Ht) end.
    + apply LexAttrs_all; assumption.
    + destruct (is_void tag); [exact Hk|]. cbn [orb] in Hch.
      rewrite !app_assoc_s. fold (pre (flat_map tokens ch ++ [TEnd tag]) lk). rewrite pre_app.
      apply cont_list; [exact IH|exact Hch|]. cbn [pre fold_right].
      unfold wf_tag in Ht. apply andb_true_iff in Ht as [Hn _]. now apply Tok_end.
  - intros s _ k lk Hk. cbn [render tokens pre fold_right]. rewrite !app_assoc_s.
    apply Tok_comment_t. apply Tok_escape_text. now apply Tok_comment_empty.
  - intros s _ k lk Hk. cbn [render tokens pre fold_right]. now apply Tok_escape_text.
  - intros _ k lk Hk. cbn [render tokens pre fold_right]. now apply Tok_comment_slash.
  - intros vs IH Hw k lk Hk. cbn [render tokens wf] in *. now apply cont_list.
Qed.

Theorem render_roundtrip : forall ns : list ssr, wf_list ns = true ->
  tokenize (render_view ns) = Some (norm (flat_map tokens ns)).
Proof.
  intros ns Hw. apply Tok_tokenize. rewrite norm_pre, <- (app_nil_r_s (render_view ns)).
  apply cont_list; [|exact Hw|exact Tok_nil]. apply Forall_forall. intros n _. apply render_cont.
Qed.
Print Assumptions render_roundtrip.

(* ---------- views ---------- *)
Definition wf_attr (a : attr) : bool :=
  match a with AStr n _ => wf_name n | ADyn n _ => wf_name n | ABool n _ => wf_name n | ABoolDyn n _ => wf_name n end.
Fixpoint wf_view (v : view) : bool :=
  match v with
  | VEl tag attrs ch => wf_tag tag && forallb wf_attr attrs && (is_void tag || forallb wf_view ch)
  | VText _ => true
  | VDynText _ => true
  | VDyn _ a b => forallb wf_view a && forallb wf_view b
  | VFrag vs => forallb wf_view vs
  | VShow _ vs => forallb wf_view vs
  | VList _ _ tmpl => forallb wf_view tmpl
  | VItem => true
  | VComp vs => forallb wf_view vs
  | VNoHydrate vs => forallb wf_view vs
  | VNoSsr _ => true
  end.

Lemma wf_list_app a b : wf_list (a ++ b) = wf_list a && wf_list b.
Proof. apply forallb_app. Qed.

Lemma build_attrs_wf st l : forallb wf_attr l = true ->
  forallb (fun p => wf_name (fst p)) (fst (build_attrs st l)) = true /\ forallb wf_battr (snd (build_attrs st l)) = true.
Proof.
  induction l as [|a l IH]; intros H; [split; reflexivity|].
  cbn [forallb] in H. apply andb_true_iff in H as [Ha Hl]. destruct (IH Hl) as [I1 I2].
  unfold build_attrs in *. cbn [fold_right].
  match goal with |- context [fold_right ?F ?z l] => destruct (fold_right F z l) as [ss bs] end.
  cbn [fst snd] in *. destruct a as [n v|n k|n b|n k]; cbn [wf_attr] in Ha; cbn [fst snd forallb].
  - rewrite Ha, I1, I2. now split.
  - destruct (get_str st k); cbn [fst snd forallb]; [rewrite Ha|]; rewrite I1, I2; now split.
  - unfold wf_battr at 1. cbn [fst snd]. rewrite Ha, I1, I2. split; [reflexivity|now destruct b].
  - unfold wf_battr at 1. cbn [fst snd]. rewrite Ha, I1, I2. split; [reflexivity|now destruct (get_bool st k)].
Qed.

Definition bspec (b : view -> nat -> list ssr * nat) : Prop :=
  forall v cnt, wf_view v = true -> wf_list (fst (b v cnt)) = true.

Lemma build_list_wf b : bspec b -> forall vs cnt, forallb wf_view vs = true -> wf_list (fst (build_list_with b vs cnt)) = true.
Proof.
  intros Hb. induction vs as [|x r IH]; intros cnt H; [reflexivity|].
  cbn [forallb] in H. apply andb_true_iff in H as [Hx Hr]. cbn [build_list_with].
  pose proof (Hb x cnt Hx) as H1. destruct (b x cnt) as [a c1]. pose proof (IH c1 Hr) as H2.
  destruct (build_list_with b r c1) as [bs c2]. cbn [fst] in *. now rewrite wf_list_app, H1, H2.
Qed.

Theorem build_wf st f : forall hyd sus item, bspec (build st f hyd sus item).
Proof.
  induction f as [|f IH]; intros hyd sus item v cnt Hv; [reflexivity|]. cbn [build].
  destruct v as [tag attrs ch|s|k|k a b|vs|k vs|keyed k tmpl| |vs|vs|vs]; cbn [wf_view] in Hv.
  - apply andb_true_iff in Hv as [Hv Hch]. apply andb_true_iff in Hv as [Ht Ha].
    destruct (build_attrs_wf st _ Ha) as [A1 A2]. destruct (build_attrs st attrs) as [ss bs]. cbn [fst snd] in A1, A2.
    match goal with |- context [build_list_with ?b ch ?c] =>
      pose proof (build_list_wf b (IH hyd sus item) ch c) as Hc; destruct (build_list_with b ch c) as [ch' cnt2] end.
    cbn [fst wf_list forallb wf] in *. rewrite Ht, A1, A2. cbn [andb]. rewrite andb_true_r.
    destruct (is_void tag); [reflexivity|]. cbn [orb] in *. now apply Hc.
  - reflexivity.
  - reflexivity.
  - apply andb_true_iff in Hv as [Ha Hb].
    match goal with |- context [build_list_with ?b ?l ?c] =>
      pose proof (build_list_wf b (IH hyd sus item) l c) as Hc; destruct (build_list_with b l c) as [ch' cnt2] end.
    cbn [fst wf_list forallb wf] in *. rewrite andb_true_r. apply Hc. now destruct (get_bool st k).
  - now apply build_list_wf.
  - match goal with |- context [build_list_with ?b ?l ?c] =>
      pose proof (build_list_wf b (IH hyd sus item) l c Hv) as Hc; destruct (build_list_with b l c) as [ch' cnt2] end.
    cbn [fst wf_list forallb wf] in *. rewrite andb_true_r. now destruct (get_bool st k).
  - assert (G : forall items acc c, wf_list acc = true ->
      wf_list (fst (fold_left (fun '(acc, c) it =>
                       let '(n, c') := build_list_with (build st f hyd sus (Some it)) tmpl c in ((acc ++ n)%list, c'))
                    items (acc, c))) = true).
    { induction items as [|it items IHi]; intros acc c Hacc; [exact Hacc|]. cbn [fold_left].
      pose proof (build_list_wf _ (IH hyd sus (Some it)) tmpl c Hv) as Hc.
      destruct (build_list_with (build st f hyd sus (Some it)) tmpl c) as [n c']. cbn [fst] in Hc.
      apply IHi. now rewrite wf_list_app, Hacc, Hc. }
    now apply G.
  - reflexivity.
  - now apply build_list_wf.
  - now apply build_list_wf.
  - reflexivity.
Qed.

Theorem render_to_string_roundtrip : forall st v, wf_view v = true ->
  tokenize (render_to_string st v) = Some (norm (flat_map tokens (fst (build st build_fuel true 0 None v 0)))).
Proof. intros st v Hv. apply render_roundtrip. now apply build_wf. Qed.
Print Assumptions render_to_string_roundtrip.

(* ---------- (a) markup never comes from text or attribute values ---------- *)
Definition structural (t : token) : bool := match t with TText _ => false | _ => true end.

Lemma filter_merge a l : filter structural (merge a l) = filter structural l.
Proof. destruct l as [|[] l]; destruct a; reflexivity. Qed.
Lemma filter_pre ts l : filter structural (pre ts l) = (filter structural ts ++ filter structural l)%list.
Proof.
  induction ts as [|t ts IH]; [reflexivity|]. cbn [pre fold_right]. fold (pre ts l).
  destruct t; cbn [filter structural app]; rewrite <- ?IH; try reflexivity. apply filter_merge.
Qed.
Lemma filter_norm ts : filter structural (norm ts) = filter structural ts.
Proof. now rewrite norm_pre, filter_pre, app_nil_r. Qed.

(* the start tags (with attribute names and values), end tags and comments of the parsed output are exactly, in order,
   those of the tree's element and marker nodes *)
Corollary structure_roundtrip ns : wf_list ns = true ->
  exists l, tokenize (render_view ns) = Some l /\ filter structural l = filter structural (flat_map tokens ns).
Proof. intros H. eexists. split; [now apply render_roundtrip|apply filter_norm]. Qed.

(* erase every text and every attribute value of a tree / of a token *)
Fixpoint blank (n : ssr) : ssr :=
  match n with
  | SEl tag attrs battrs hk ch => SEl tag (map (fun p => (fst p, "")) attrs) battrs hk (map blank ch)
  | STextDyn _ => STextDyn ""
  | STextStatic _ => STextStatic ""
  | SMarker => SMarker
  | SDynamic vs => SDynamic (map blank vs)
  end.
Definition strip (t : token) : token :=
  match t with
  | TStart tag al => TStart tag (map (fun p => (fst p, option_map (fun _ => "") (snd p))) al)
  | _ => t
  end.
Definition skeleton (l : list token) : list token := map strip (filter structural l).

Lemma skeleton_app a b : skeleton (a ++ b) = (skeleton a ++ skeleton b)%list.
Proof. unfold skeleton. now rewrite filter_app, map_app. Qed.

Lemma skeleton_blank_list ns :
  Forall (fun n => skeleton (tokens (blank n)) = skeleton (tokens n)) ns ->
  skeleton (flat_map tokens (map blank ns)) = skeleton (flat_map tokens ns).
Proof.
  induction 1 as [|n ns Hn _ IH]; [reflexivity|]. cbn [map flat_map]. now rewrite !skeleton_app, Hn, IH.
Qed.

Lemma skeleton_blank : forall n, skeleton (tokens (blank n)) = skeleton (tokens n).
Proof.
  apply ssr_ind2; try reflexivity.
  - intros tag attrs battrs hk ch IH. cbn [blank]. rewrite !tokens_SEl.
    change (skeleton (?t :: ?r)) with (strip t :: skeleton r). f_equal.
    + cbn [strip]. f_equal. rewrite !map_app, !map_map. f_equal. apply map_ext. now intros [n v].
    + destruct (is_void tag); [reflexivity|]. rewrite !skeleton_app. f_equal. now apply skeleton_blank_list.
  - intros vs IH. cbn [blank tokens]. now apply skeleton_blank_list.
Qed.

(* injection safety: which elements, attributes and comments the parser sees is a function of the tree with all
   texts and attribute values erased; two trees that differ only in texts and values parse to the same markup *)
Theorem injection_safe ns : wf_list ns = true ->
  exists l, tokenize (render_view ns) = Some l /\ skeleton l = skeleton (flat_map tokens (map blank ns)).
Proof.
  intros H. eexists. split; [now apply render_roundtrip|]. unfold skeleton at 1. rewrite filter_norm.
  fold (skeleton (flat_map tokens ns)). symmetry. apply skeleton_blank_list. apply Forall_forall. intros n _. apply skeleton_blank.
Qed.

Corollary injection_safe_2 ns ns' l l' : wf_list ns = true -> wf_list ns' = true -> map blank ns = map blank ns' ->
  tokenize (render_view ns) = Some l -> tokenize (render_view ns') = Some l' -> skeleton l = skeleton l'.
Proof.
  intros H H' E T T'. destruct (injection_safe ns H) as (l0 & T0 & S0). destruct (injection_safe ns' H') as (l1 & T1 & S1).
  rewrite T in T0. rewrite T' in T1. injection T0 as <-. injection T1 as <-. now rewrite S0, S1, E.
Qed.

(* ---------- (b) void elements get no end tag ---------- *)
Lemma tokens_void tag attrs battrs hk ch : is_void tag = true ->
  exists al, tokens (SEl tag attrs battrs hk ch) = [TStart tag al].
Proof. intros H. rewrite tokens_SEl, H. now eexists. Qed.

Lemma end_not_void_list t ns : Forall (fun n => In (TEnd t) (tokens n) -> is_void t = false) ns ->
  In (TEnd t) (flat_map tokens ns) -> is_void t = false.
Proof. intros HF H. apply in_flat_map in H as (n & Hn & Ht). rewrite Forall_forall in HF. exact (HF n Hn Ht). Qed.

Lemma end_not_void t : forall n, In (TEnd t) (tokens n) -> is_void t = false.
Proof.
  apply (ssr_ind2 (fun n => In (TEnd t) (tokens n) -> is_void t = false)).
  - intros tag attrs battrs hk ch IH. rewrite tokens_SEl. intros [H|H]; [discriminate|].
    destruct (is_void tag) eqn:V; [destruct H|]. apply in_app_or in H as [H|[H|[]]].
    + now apply (end_not_void_list t ch).
    + now injection H as <-.
  - intros s [H|[H|[H|[]]]]; discriminate.
  - intros s [H|[]]; discriminate.
  - intros [H|[]]; discriminate.
  - intros vs IH. cbn [tokens]. now apply end_not_void_list.
Qed.

Corollary void_no_end_tag ns l t : wf_list ns = true -> tokenize (render_view ns) = Some l -> In (TEnd t) l -> is_void t = false.
Proof.
  intros H T Hin. rewrite (render_roundtrip ns H) in T. injection T as <-.
  assert (H1 : In (TEnd t) (filter structural (norm (flat_map tokens ns)))) by (apply filter_In; now split).
  rewrite filter_norm in H1. apply filter_In in H1 as [H1 _].
  apply (end_not_void_list t ns); [|exact H1]. apply Forall_forall. intros n _. apply end_not_void.
Qed.

(* ---------- (c) false boolean attributes and None attributes leave no trace ---------- *)
Lemma false_battr_no_token tag ss n bs hk ch :
  tokens (SEl tag ss ((n, false) :: bs) hk ch) = tokens (SEl tag ss bs hk ch)
  /\ render (SEl tag ss ((n, false) :: bs) hk ch) = render (SEl tag ss bs hk ch).
Proof. split; [reflexivity|]. rewrite !render_SEl. cbn [map]. now rewrite concat_cons. Qed.

(* the value-less attributes of a start tag are exactly the true boolean attributes *)
Lemma flag_tokens_exact tag ss bs hk ch al a :
  tokens (SEl tag ss bs hk ch) = TStart tag al :: (if is_void tag then [] else (flat_map tokens ch ++ [TEnd tag])%list) ->
  In (a, None) al <-> In (a, true) bs.
Proof.
  rewrite tokens_SEl. intros E. injection E as <-. rewrite !in_app_iff. split.
  - intros [H|[H|H]].
    + apply in_map_iff in H as ([n v] & Hp & _). discriminate.
    + apply in_flat_map in H as ([n b] & Hin & Hp). destruct b; [|destruct Hp]. destruct Hp as [Hp|[]]. now injection Hp as ->.
    + destruct hk; [destruct H as [H|[]]; discriminate|destruct H].
  - intros H. right. left. apply in_flat_map. exists (a, true). split; [exact H|now left].
Qed.

(* what build_attrs keeps: a None signal contributes nothing, a boolean attribute keeps its current value *)
Lemma build_attrs_cons st a l :
  build_attrs st (a :: l) =
  (let '(ss, bs) := build_attrs st l in
   match a with
   | AStr n v => ((n, v) :: ss, bs)
   | ADyn n k => (match get_str st k with Some v => (n, v) :: ss | None => ss end, bs)
   | ABool n b => (ss, (n, b) :: bs)
   | ABoolDyn n k => (ss, (n, get_bool st k) :: bs)
   end).
Proof. reflexivity. Qed.

Lemma build_attrs_str st l n v :
  In (n, v) (fst (build_attrs st l)) <-> In (AStr n v) l \/ exists k, In (ADyn n k) l /\ get_str st k = Some v.
Proof.
  induction l as [|a l IH]; [cbn; split; [intros []|intros [[]|(k & [] & _)]]|].
  rewrite build_attrs_cons. destruct (build_attrs st l) as [ss bs]. cbn [fst] in IH. cbn [In].
  destruct a as [n' v'|n' k'|n' b'|n' k']; cbn [fst].
  - cbn [In]. rewrite IH. split.
    + intros [H|[H|(k & H1 & H2)]]; [injection H as -> ->; now left; left|now left; right|right; exists k; now split; [right|]].
    + intros [[H|H]|(k & [H|H1] & H2)]; [injection H as -> ->; now left|right; now left|discriminate|right; right; now exists k].
  - destruct (get_str st k') as [v''|] eqn:G; cbn [In]; rewrite IH; split.
    + intros [H|[H|(k & H1 & H2)]]; [injection H as -> ->; right; exists k'; split; [now left|exact G]|now left; right|right; exists k; now split; [right|]].
    + intros [[H|H]|(k & [H|H1] & H2)]; [discriminate|right; now left| |right; right; now exists k].
      injection H as -> ->. rewrite G in H2. injection H2 as ->. now left.
    + intros [H|(k & H1 & H2)]; [now left; right|right; exists k; now split; [right|]].
    + intros [[H|H]|(k & [H|H1] & H2)]; [discriminate|now left| |right; now exists k].
      injection H as -> ->. rewrite G in H2. discriminate.
  - rewrite IH. split.
    + intros [H|(k & H1 & H2)]; [now left; right|right; exists k; now split; [right|]].
    + intros [[H|H]|(k & [H|H1] & H2)]; [discriminate|now left|discriminate|right; now exists k].
  - rewrite IH. split.
    + intros [H|(k & H1 & H2)]; [now left; right|right; exists k; now split; [right|]].
    + intros [[H|H]|(k & [H|H1] & H2)]; [discriminate|now left|discriminate|right; now exists k].
Qed.

Lemma build_attrs_none st n k l : get_str st k = None -> build_attrs st (ADyn n k :: l) = build_attrs st l.
Proof. intros G. rewrite build_attrs_cons, G. now destruct (build_attrs st l). Qed.

(* at the level of render_to_string: the output does not depend on the presence (or the name) of such attributes *)
Lemma build_VEl st f hyd sus item tag attrs ch cnt :
  build st (S f) hyd sus item (VEl tag attrs ch) cnt =
  (let '(ss, bs) := build_attrs st attrs in
   let '(ch', cnt2) := build_list_with (build st f hyd sus item) ch (if hyd then S cnt else cnt) in
   ([SEl tag ss bs (if hyd then Some (sus, cnt) else None) ch'], cnt2)).
Proof. reflexivity. Qed.

Theorem none_attr_omitted st tag n k attrs ch : get_str st k = None ->
  render_to_string st (VEl tag (ADyn n k :: attrs) ch) = render_to_string st (VEl tag attrs ch).
Proof.
  intros G. unfold render_to_string. change build_fuel with (S 63). now rewrite !build_VEl, build_attrs_none.
Qed.

Theorem false_bool_attr_omitted st tag n attrs ch :
  render_to_string st (VEl tag (ABool n false :: attrs) ch) = render_to_string st (VEl tag attrs ch).
Proof.
  unfold render_to_string. change build_fuel with (S 63). rewrite !build_VEl, build_attrs_cons.
  destruct (build_attrs st attrs) as [ss bs]. destruct (build_list_with _ ch 1) as [ch' c2].
  cbn [fst]. unfold render_view. cbn [map]. rewrite !concat_cons. f_equal. apply false_battr_no_token.
Qed.

Theorem false_dyn_bool_attr_omitted st tag n k attrs ch : get_bool st k = false ->
  render_to_string st (VEl tag (ABoolDyn n k :: attrs) ch) = render_to_string st (VEl tag attrs ch).
Proof.
  intros G. unfold render_to_string. change build_fuel with (S 63). rewrite !build_VEl, build_attrs_cons, G.
  destruct (build_attrs st attrs) as [ss bs]. destruct (build_list_with _ ch 1) as [ch' c2].
  cbn [fst]. unfold render_view. cbn [map]. rewrite !concat_cons. f_equal. apply false_battr_no_token.
Qed.

(* ---------- instances (non-vacuity) and the necessity of the hypotheses ---------- *)
Definition nasty : list string :=
  ["&amp;"; "<!--"; "-->"; """"; "'"; "&lt"; "x&"; "</p><script>alert(1)</script>"; "<!-->"; "a=""b"" c"; "&quot;"; ""; "&"; ">"].

Definition nasty_tree : list ssr :=
  [ STextStatic "&lt"; STextStatic ";"; SMarker; STextDyn "-->"; STextStatic "<!--";
    SEl "p" (map (fun s => ("title", s)) nasty) [("hidden", true); ("a b", false); ("x-y", true)] (Some (3, 14))
        ([STextStatic ""; SDynamic (map STextDyn nasty); SEl "br" [("id", """>")] [] None [STextStatic "never rendered"; SEl "" [] [] None []]]
         ++ map STextStatic nasty);
    SEl "!-" [] [("!--", true)] None [];
    STextStatic "&" ].

Example nasty_tree_wf : wf_list nasty_tree = true.
Proof. vm_compute. reflexivity. Qed.
Example nasty_tree_roundtrip : tokenize (render_view nasty_tree) = Some (norm (flat_map tokens nasty_tree)).
Proof. vm_compute. reflexivity. Qed.
Example nasty_tree_nontrivial :
  List.length (norm (flat_map tokens nasty_tree)) = 54 /\
  In (TText "</p><script>alert(1)</script>") (norm (flat_map tokens nasty_tree)) /\
  In (TStart "br" [("id", Some """>")]) (norm (flat_map tokens nasty_tree)) /\
  In (TText "&lt;") (norm (flat_map tokens nasty_tree)).
Proof. vm_compute. repeat split; tauto. Qed.

Definition nasty_state : vstate :=
  VState [(0, Some "<b>&amp;</b>"); (1, None); (2, Some """ onclick=""x")] [(0, true); (1, false)] [(0, [1; -2; 3]%Z)].
Definition nasty_view : view :=
  VEl "div" [AStr "class" "a""b"; ADyn "title" 2; ADyn "lang" 1; ABool "hidden" true; ABool "inert" false; ABoolDyn "open" 1]
    [ VText "<!--"; VDynText 0; VDyn 0 [VText "-->"] []; VShow 1 [VEl "i" [] []];
      VList true 0 [VEl "li" [ADyn "data-x" 0] [VItem; VText "&"]];
      VEl "input" [AStr "value" "'>"] [VEl "bad tag" [] []]; VNoSsr [VEl "" [] []]; VNoHydrate [VComp [VFrag [VEl "p" [] [VDynText 2]]]] ].

Example nasty_view_wf : wf_view nasty_view = true.
Proof. vm_compute. reflexivity. Qed.
Example nasty_view_roundtrip :
  tokenize (render_to_string nasty_state nasty_view)
  = Some (norm (flat_map tokens (fst (build nasty_state build_fuel true 0 None nasty_view 0)))).
Proof. vm_compute. reflexivity. Qed.

Definition roundtrips (ns : list ssr) : Prop := tokenize (render_view ns) = Some (norm (flat_map tokens ns)).

(* every clause of [wf] is needed: names are written verbatim by the renderer *)
Example tag_bang_refuted : ~ roundtrips [SEl "!--a" [] [] None []].
Proof. unfold roundtrips. vm_compute. discriminate. Qed.
Example tag_empty_refuted : ~ roundtrips [SEl "" [] [] None []].
Proof. unfold roundtrips. vm_compute. discriminate. Qed.
Example tag_space_refuted : ~ roundtrips [SEl "a b" [] [] None []].
Proof. unfold roundtrips. vm_compute. discriminate. Qed.
(* a tag holding a delimiter parses as other elements *)
Example tag_gt_refuted :
  tokenize (render_view [SEl "a><script" [] [] None []]) = Some [TStart "a" []; TStart "script" []; TEnd "a"; TStart "script" []] /\
  ~ roundtrips [SEl "a><script" [] [] None []].
Proof. split; [vm_compute; reflexivity|]. unfold roundtrips. vm_compute. discriminate. Qed.
Example attr_name_empty_refuted : ~ roundtrips [SEl "a" [("", "v")] [] None []].
Proof. unfold roundtrips. vm_compute. discriminate. Qed.
Example attr_name_space_refuted :
  tokenize (render_view [SEl "a" [("x onclick", "v")] [] None []]) = Some [TStart "a" [("x", None); ("onclick", Some "v")]; TEnd "a"] /\
  ~ roundtrips [SEl "a" [("x onclick", "v")] [] None []].
Proof. split; [vm_compute; reflexivity|]. unfold roundtrips. vm_compute. discriminate. Qed.
Example battr_name_refuted : ~ roundtrips [SEl "a" [] [("x=y", true)] None []].
Proof. unfold roundtrips. vm_compute. discriminate. Qed.
(* ... but names that are never written are unconstrained *)
Example unrendered_names_free :
  wf_list [SEl "br" [] [("x=y", false)] None [SEl "" [] [] None []]] = true.
Proof. reflexivity. Qed.

(* bounded converse (a test, with the bound in the statement): over all names of length <= 3 on an alphabet holding
   every delimiter, a tag (as a non-void element without attributes), an attribute name and a true boolean attribute
   name round-trip exactly when [wf_tag] / [wf_name] hold *)
Definition alphabet : list ascii := ["a"; " "; ">"; "/"; "="; """"; "<"; "'"; "&"; "!"; "-"]%char.
Fixpoint words (n : nat) : list string :=
  match n with
  | O => [""]
  | S m => "" :: flat_map (fun w => map (fun c => String c w) alphabet) (words m)
  end.
Definition roundtrips_b (ns : list ssr) : bool :=
  match tokenize (render_view ns) with
  | Some l => if list_eq_dec (fun a b : token => ltac:(repeat decide equality)) l (norm (flat_map tokens ns)) then true else false
  | None => false
  end.

Definition tag_case (w : string) : bool := Bool.eqb (roundtrips_b [SEl w [] [] None [STextStatic "x"]]) (wf_tag w).
Definition attr_case (w : string) : bool := Bool.eqb (roundtrips_b [SEl "a" [(w, "v")] [] None []]) (wf_name w).
Definition battr_case (w : string) : bool := Bool.eqb (roundtrips_b [SEl "a" [] [(w, true)] (Some (0, 0)) []]) (wf_name w).
Example wf_is_necessary_upto_3 :
  forallb (fun w => tag_case w && attr_case w && battr_case w) (words 3) = true.
Proof. vm_compute. reflexivity. Qed.

Print Assumptions structure_roundtrip.
Print Assumptions injection_safe.
Print Assumptions injection_safe_2.
Print Assumptions void_no_end_tag.
Print Assumptions flag_tokens_exact.
Print Assumptions build_attrs_str.
Print Assumptions none_attr_omitted.
Print Assumptions false_bool_attr_omitted.
Print Assumptions false_dyn_bool_attr_omitted.
Print Assumptions wf_is_necessary_upto_3.
