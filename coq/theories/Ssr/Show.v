(* Ssr/Show.v -- evaluation entry points for the SSR correspondence; byte strings travel as hex *)
From Coq Require Import List String ZArith.
From Syc Require Import Common.Show Ssr.Html Ssr.View.
Import ListNotations.
Open Scope string_scope.

Definition H := of_hex.

(* render each (state, view) and print the bytes as hex, one per line *)
Definition run_render (cases : list (vstate * view)) : string :=
  lines (map (fun '(st, v) => to_hex (render_to_string st v)) cases).

(* the parse-back specification applied to an arbitrary byte string (hex in), against the tokens of the tree *)
Definition show_attr (a : string * option string) : string :=
  to_hex (fst a) ++ match snd a with Some v => "=" ++ to_hex v | None => "" end.
Definition show_token (t : token) : string :=
  match t with
  | TStart tag attrs => "S:" ++ to_hex tag ++ ":" ++ join "," (map show_attr attrs)
  | TEnd tag => "E:" ++ to_hex tag
  | TText s => "T:" ++ to_hex s
  | TComment s => "C:" ++ to_hex s
  end.
Definition show_tokens (o : option (list token)) : string :=
  match o with Some l => join " " (map show_token l) | None => "UNPARSEABLE" end.
Definition run_tokenize (outputs : list string) : string :=
  lines (map (fun h => show_tokens (tokenize (of_hex h))) outputs).
Definition run_expected_tokens (cases : list (vstate * view)) : string :=
  lines (map (fun '(st, v) => show_tokens (Some (norm (flat_map tokens (fst (build st build_fuel true 0 None v 0)))))) cases).
