(* Ssr/View.v -- the view vocabulary shared by the SSR / DOM / hydration properties, the SsrNode tree,
   the server-side build (element creation order = hydration key order) and render_recursive.
   Mirrors sycamore-web: view.rs, elements.rs (builder), components.rs (Show, NoHydrate, NoSsr),
   iter.rs (Keyed / Indexed in SSR mode), node/ssr_node.rs. Definitions only. *)
From Coq Require Import List String Ascii Bool Arith ZArith.
From Syc Require Import Common.Show Ssr.Html.
Import ListNotations.
Open Scope string_scope.

Inductive attr :=
| AStr (name value : string)            (* .attr(name, "value") *)
| ADyn (name : string) (sig : nat)      (* .attr(name, move || sig.get_clone())  : Option<String> *)
| ABool (name : string) (b : bool)      (* .bool_attr(name, b) *)
| ABoolDyn (name : string) (sig : nat). (* .bool_attr(name, move || sig.get()) *)

Inductive view :=
| VEl (tag : string) (attrs : list attr) (children : list view)
| VText (s : string)                           (* static text *)
| VDynText (sig : nat)                         (* move || sig.get_clone() : String *)
| VDyn (sig : nat) (a b : list view)           (* move || if sig.get() { a } else { b } *)
| VFrag (vs : list view)
| VShow (sig : nat) (vs : list view)
| VList (keyed : bool) (sig : nat) (tmpl : list view)
| VItem                                        (* the current list item, as text *)
| VComp (vs : list view)
| VNoHydrate (vs : list view)
| VNoSsr (vs : list view).

(* signal values *)
Record vstate := VState {
  strs : list (nat * option string);
  bools : list (nat * bool);
  lists : list (nat * list Z) }.

Fixpoint alookup {A} (l : list (nat * A)) (k : nat) : option A :=
  match l with [] => None | (k', v) :: r => if Nat.eqb k k' then Some v else alookup r k end.
Definition get_str (st : vstate) (k : nat) : option string := match alookup (strs st) k with Some v => v | None => None end.
Definition get_bool (st : vstate) (k : nat) : bool := match alookup (bools st) k with Some b => b | None => false end.
Definition get_list (st : vstate) (k : nat) : list Z := match alookup (lists st) k with Some l => l | None => [] end.

Inductive ssr :=
| SEl (tag : string) (attrs : list (string * string)) (battrs : list (string * bool)) (hk : option (nat * nat))
      (children : list ssr)
| STextDyn (s : string) | STextStatic (s : string) | SMarker | SDynamic (vs : list ssr).

Definition opt_str (o : option string) : string := match o with Some s => s | None => "" end.

Section Build.
Variable st : vstate.

Definition build_attrs (l : list attr) : list (string * string) * list (string * bool) :=
  fold_right (fun a '(ss, bs) =>
                match a with
                | AStr n v => ((n, v) :: ss, bs)
                | ADyn n k => (match get_str st k with Some v => (n, v) :: ss | None => ss end, bs)
                | ABool n b => (ss, (n, b) :: bs)
                | ABoolDyn n k => (ss, (n, get_bool st k) :: bs)
                end) ([], []) l.

(* a list of views built left to right with one counter *)
Fixpoint build_list_with (b : view -> nat -> list ssr * nat) (vs : list view) (cnt : nat) : list ssr * nat :=
  match vs with
  | [] => ([], cnt)
  | x :: r => let '(a, c1) := b x cnt in let '(bs, c2) := build_list_with b r c1 in ((a ++ bs)%list, c2)
  end.

(* [hyd] = IS_HYDRATING (false inside NoHydrate), [sus] = suspense key, [cnt] = next element key;
   [f] bounds the nesting depth of the view (any f greater than the depth gives the same result) *)
Fixpoint build (f : nat) (hyd : bool) (sus : nat) (item : option Z) (v : view) (cnt : nat) {struct f} : list ssr * nat :=
  match f with
  | O => ([], cnt)
  | S f' =>
      let bl := build_list_with (build f' hyd sus item) in
      match v with
      | VEl tag attrs children =>
          let hk := if hyd then Some (sus, cnt) else None in
          let cnt1 := if hyd then S cnt else cnt in
          let '(ss, bs) := build_attrs attrs in
          let '(ch, cnt2) := bl children cnt1 in
          ([SEl tag ss bs hk ch], cnt2)
      | VText s => ([STextStatic s], cnt)
      | VDynText k => ([STextDyn (opt_str (get_str st k))], cnt)
      | VDyn k a b =>
          let '(ch, cnt1) := bl (if get_bool st k then a else b) cnt in
          ([SMarker; SDynamic ch; SMarker], cnt1)
      | VFrag vs => bl vs cnt
      | VShow k vs =>
          (* the children are evaluated up front, then shown or dropped *)
          let '(ch, cnt1) := bl vs cnt in
          ([SMarker; SDynamic (if get_bool st k then ch else []); SMarker], cnt1)
      | VList _ k tmpl =>
          (* SSR: a static view, one instance of the template per item *)
          fold_left (fun '(acc, c) it =>
                       let '(n, c') := build_list_with (build f' hyd sus (Some it)) tmpl c in ((acc ++ n)%list, c'))
                    (get_list st k) ([], cnt)
      | VItem => ([STextStatic (match item with Some z => show_Z z | None => "" end)], cnt)
      | VComp vs => bl vs cnt
      | VNoHydrate vs => build_list_with (build f' false sus item) vs cnt
      | VNoSsr _ =>
          ([SEl "no-ssr" [] [] (if hyd then Some (sus, cnt) else None) []], if hyd then S cnt else cnt)
      end
  end.
End Build.

Definition void_elements : list string :=
  ["area"; "base"; "br"; "col"; "embed"; "hr"; "img"; "input"; "link"; "meta"; "param";
   "source"; "track"; "wbr"; "command"; "keygen"; "menuitem"].
Definition is_void (tag : string) : bool := existsb (String.eqb tag) void_elements.

Definition show_hk (k : nat * nat) : string := show_nat (fst k) ++ "." ++ show_nat (snd k).

(* node/ssr_node.rs render_recursive (elements without inner_html; a void element has no children) *)
Fixpoint render (n : ssr) : string :=
  match n with
  | SEl tag attrs battrs hk children =>
      "<" ++ tag
      ++ concat "" (map (fun '(n, v) => " " ++ n ++ "=""" ++ escape_dq v ++ """") attrs)
      ++ concat "" (map (fun '(n, b) => if (b : bool) then " " ++ n else "") battrs)
      ++ match hk with Some k => " data-hk=""" ++ show_hk k ++ """" | None => "" end
      ++ ">"
      ++ (if is_void tag then ""
          else concat "" (map render children) ++ "</" ++ tag ++ ">")
  | STextDyn s => "<!--t-->" ++ escape_text s ++ "<!-->"
  | STextStatic s => escape_text s
  | SMarker => "<!--/-->"
  | SDynamic vs => concat "" (map render vs)
  end.
Definition render_view (vs : list ssr) : string := concat "" (map render vs).

(* render_to_string: a fresh registry (suspense key 0, element key 0) *)
Definition build_fuel : nat := 64.
Definition render_to_string (st : vstate) (v : view) : string :=
  render_view (fst (build st build_fuel true 0 None v 0)).

(* the tokens a tree stands for: what "the view that was built" means for the parse-back property *)
Fixpoint tokens (n : ssr) : list token :=
  match n with
  | SEl tag attrs battrs hk children =>
      TStart tag (map (fun '(n, v) => (n, Some v)) attrs
                  ++ flat_map (fun '(n, b) => if (b : bool) then [(n, None)] else []) battrs
                  ++ match hk with Some k => [("data-hk", Some (show_hk k))] | None => [] end)%list
      :: (if is_void tag then [] else (flat_map tokens children ++ [TEnd tag])%list)
  | STextDyn s => [TComment "t"; TText s; TComment ""]
  | STextStatic s => [TText s]
  | SMarker => [TComment "/"]
  | SDynamic vs => flat_map tokens vs
  end.
