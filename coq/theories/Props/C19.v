(* Props/C19.v -- property C19: interpolation helpers are total and hit their endpoints.
   Integer lerp is proved for all a, b of magnitude <= 2^23 and all finite binary32 scalars through Flocq's
   correctness theorems; it is total by construction (the model has no error result and mirrors a Rust
   expression made of float operations and saturating casts only). Easing: endpoints of the 19 libm-free
   functions by evaluation. PARTIAL: finiteness of the easing functions on all of [0,1] is not proved (it is
   checked on a grid by the correspondence run); the six libm-based functions are outside the model. *)
From Coq Require Import ZArith Reals Bool List.
From Flocq Require Import Core IEEE754.BinarySingleNaN.
From Syc Require Import Motion.F32 Motion.Lerp Motion.LerpFacts Motion.Easing Motion.EasingFacts.
Import ListNotations.

Theorem C19_lerp_int_start : forall lo hi a b s,
  small a -> small b -> (lo <= a <= hi)%Z -> is_finite s = true -> B2R s = 0%R -> lerp_int lo hi a b s = a.
Proof. exact lerp_int_start. Qed.

Theorem C19_lerp_int_end : forall lo hi a b s,
  small a -> small b -> (lo <= b <= hi)%Z -> is_finite s = true -> B2R s = 1%R -> lerp_int lo hi a b s = b.
Proof. exact lerp_int_end. Qed.

Theorem C19_lerp_int_between : forall lo hi a b s,
  small a -> small b -> (lo <= a <= hi)%Z -> (lo <= b <= hi)%Z ->
  is_finite s = true -> (0 <= B2R s <= 1)%R ->
  (Z.min a b <= lerp_int lo hi a b s <= Z.max a b)%Z.
Proof. exact lerp_int_between. Qed.

Theorem C19_ease_endpoints : forallb endpoints_ok E.all = true.
Proof. exact ease_endpoints. Qed.

(* the code as pinned subtracted in the integer type: 200u8.lerp(&100, 0.5) and (-128i8).lerp(&127, 0.5) overflow *)
Theorem C19_pinned_refuted :
  lerp_int_pinned 0 255 200 100 (F32.cst 1 (-1)) = None /\ lerp_int_pinned (-128) 127 (-128) 127 (F32.cst 1 (-1)) = None.
Proof. split; vm_compute; reflexivity. Qed.

(* non-vacuity: the hypotheses are satisfiable and the result is a genuine interpolation *)
Example C19_nonvacuous : lerp_int 0 255 200 100 (F32.cst 1 (-1)) = 150%Z /\ small 200 /\ small 100.
Proof. split; [vm_compute; reflexivity|]. unfold small; split; vm_compute; discriminate. Qed.
