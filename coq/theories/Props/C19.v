(* Props/C19.v -- property C19: interpolation helpers are total and hit their endpoints.
   Integer lerp is proved for all a, b of magnitude <= 2^23 and all finite binary32 scalars through Flocq's
   correctness theorems; it is total by construction (the model has no error result and mirrors a Rust
   expression made of float operations and saturating casts only). Easing: endpoints of the 19 libm-free
   functions by evaluation (exact: f 0 = 0, f 1 = 1); finiteness (no infinity, no NaN) for every finite binary32
   of [0,1] by an interval calculus over Flocq's correctness theorems (Motion/EasingFinite.v), and the range
   [0,1] for all nineteen (Motion/EasingUnit.v). f32 lerp
   (Motion/LerpFloat.v): finite for endpoints of magnitude <= 2^98, exact at 0, monotone in the scalar; it is
   not exact at 1 and can leave [a, b] (witness below). PARTIAL: the six libm-based functions are outside
   the model. *)
From Coq Require Import ZArith Reals Bool List.
From Flocq Require Import Core IEEE754.BinarySingleNaN.
From Syc Require Import Motion.F32 Motion.Lerp Motion.LerpFacts Motion.Easing Motion.EasingFacts.
From Syc Require Import Motion.EasingFinite Motion.EasingUnit Motion.LerpFloat.
Import ListNotations.

Theorem C19_lerp_int_start : forall lo hi a b s,
  small a -> small b -> (lo <= a <= hi)%Z -> is_finite s = true -> B2R s = 0%R -> lerp_int lo hi a b s = a.
Proof. exact lerp_int_start. Qed.

Theorem C19_lerp_int_end : forall lo hi a b s,
  small a -> small b -> (lo <= b <= hi)%Z -> is_finite s = true -> B2R s = 1%R -> lerp_int lo hi a b s = b.
Proof. exact lerp_int_end. Qed.

Theorem C19_lerp_int_between : forall lo hi a b s,
  small a -> small b -> (lo <= a <= hi)%Z -> (lo <= b <= hi)%Z ->
  is_finite s = true -> (0 <= B2R s <= 1)%R ->
  (Z.min a b <= lerp_int lo hi a b s <= Z.max a b)%Z.
Proof. exact lerp_int_between. Qed.

Theorem C19_ease_endpoints : forallb endpoints_ok E.all = true.
Proof. exact ease_endpoints. Qed.

Theorem C19_ease_finite : forall f, In f E.all ->
  forall x, is_finite x = true -> (0 <= B2R x <= 1)%R -> is_finite (f x) = true.
Proof. exact ease_finite. Qed.

(* in binary32 arithmetic every one of the nineteen functions maps [0,1] into [0,1] *)
Theorem C19_ease_unit_interval : forall f, In f E.all ->
  forall x, is_finite x = true -> (0 <= B2R x <= 1)%R ->
  is_finite (f x) = true /\ (0 <= B2R (f x) <= 1)%R.
Proof. exact ease_unit_all. Qed.

(* f (+0) = +0 and f 1 = 1 exactly *)
Theorem C19_ease_endpoints_exact : forall f, In f E.all ->
  B2R (f (F32.of_Z 0)) = 0%R /\ B2R (f (F32.of_Z 1)) = 1%R.
Proof. exact ease_endpoints_exact. Qed.

(* outside [0,1] the functions are not finite in general *)
Theorem C19_ease_finite_needs_range :
  is_finite E.two = true /\ is_nan (E.circ_in E.two) = true /\
  is_finite (E.c 1 100) = true /\ is_finite (E.quint_in (E.c 1 100)) = false.
Proof. exact ease_finite_needs_range. Qed.

Theorem C19_lerp_f32_finite : forall a b s,
  is_finite a = true -> is_finite b = true -> is_finite s = true ->
  (Rabs (B2R a) <= bpow radix2 98)%R -> (Rabs (B2R b) <= bpow radix2 98)%R -> (0 <= B2R s <= 1)%R ->
  is_finite (lerp_f32 a b s) = true /\ (Rabs (B2R (lerp_f32 a b s)) <= bpow radix2 100)%R.
Proof. exact lerp_f32_finite. Qed.

Theorem C19_lerp_f32_start : forall a b s,
  is_finite a = true -> is_finite b = true -> is_finite s = true ->
  (Rabs (B2R a) <= bpow radix2 98)%R -> (Rabs (B2R b) <= bpow radix2 98)%R -> B2R s = 0%R ->
  B2R (lerp_f32 a b s) = B2R a.
Proof. exact lerp_f32_start. Qed.

Theorem C19_lerp_f32_end : forall a b s,
  is_finite a = true -> is_finite b = true -> is_finite s = true ->
  (Rabs (B2R a) <= bpow radix2 98)%R -> (Rabs (B2R b) <= bpow radix2 98)%R -> B2R s = 1%R ->
  generic_format radix2 fexp32 (B2R b - B2R a)%R ->
  B2R (lerp_f32 a b s) = B2R b.
Proof. exact lerp_f32_end. Qed.

Theorem C19_lerp_f32_from_start : forall a b s,
  is_finite a = true -> is_finite b = true -> is_finite s = true ->
  (Rabs (B2R a) <= bpow radix2 98)%R -> (Rabs (B2R b) <= bpow radix2 98)%R -> (0 <= B2R s <= 1)%R ->
  (B2R a <= B2R b -> B2R a <= B2R (lerp_f32 a b s))%R /\
  (B2R b <= B2R a -> B2R (lerp_f32 a b s) <= B2R a)%R.
Proof. exact lerp_f32_from_start. Qed.

(* f32 lerp at scalar 1 does not return the target and overshoots it: lerp (-1) (3 * 2^-25) 1 = 2^-23 *)
Theorem C19_lerp_f32_end_refuted :
  let a := F32.of_Z (-1) in let b := F32.cst 3 (-25) in let r := lerp_f32 a b (F32.of_Z 1) in
  bits32 r = bits32 (F32.cst 1 (-23)) /\ F32.ltb b r = true /\ bits32 r <> bits32 b.
Proof. exact lerp_f32_end_refuted. Qed.

(* f32 lerp of two finite values can be NaN or infinite when the difference overflows *)
Theorem C19_lerp_f32_overflow_refuted :
  is_finite (F32.cst (-1) 127) = true /\ is_finite (F32.cst 1 127) = true /\
  is_nan (lerp_f32 (F32.cst (-1) 127) (F32.cst 1 127) (F32.of_Z 0)) = true /\
  is_finite (lerp_f32 (F32.cst (-1) 127) (F32.cst 1 127) (F32.cst 1 (-1))) = false.
Proof. exact lerp_f32_overflow_refuted. Qed.

(* the code as pinned subtracted in the integer type: 200u8.lerp(&100, 0.5) and (-128i8).lerp(&127, 0.5) overflow *)
Theorem C19_pinned_refuted :
  lerp_int_pinned 0 255 200 100 (F32.cst 1 (-1)) = None /\ lerp_int_pinned (-128) 127 (-128) 127 (F32.cst 1 (-1)) = None.
Proof. split; vm_compute; reflexivity. Qed.

(* non-vacuity: the hypotheses are satisfiable and the result is a genuine interpolation *)
Example C19_nonvacuous : lerp_int 0 255 200 100 (F32.cst 1 (-1)) = 150%Z /\ small 200 /\ small 100.
Proof. split; [vm_compute; reflexivity|]. unfold small; split; vm_compute; discriminate. Qed.
