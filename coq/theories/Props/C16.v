(* Props/C16.v -- property C16: context lookup is lexical over the scope tree (on Reactive/Interp.v) *)
From stdpp Require Import gmap list.
From Coq Require Import ZArith.
From Syc Require Import Reactive.Syntax Reactive.Interp Reactive.ContextFacts.

(* use_context returns the nearest enclosing provision (and nothing if the current scope is gone) *)
Theorem C16_use_context_nearest : forall fx s ty r s',
  try_use_context fx ty s = Ok r s' ->
  s' = s /\ match current s with
            | Some c => (is_Some (nodes s !! c) -> nearest s ty c r) /\ (nodes s !! c = None -> r = None)
            | None => r = None
            end.
Proof. exact try_use_context_nearest. Qed.

Theorem C16_nearest_functional : forall s ty id r1 r2, nearest s ty id r1 -> nearest s ty id r2 -> r1 = r2.
Proof. exact nearest_functional. Qed.

(* the walk terminates with an answer whenever parents are older than children *)
Theorem C16_lookup_total : forall fx s ty, parents_older s ->
  forall g id first, (id < g)%nat -> is_Some (nodes s !! id) -> exists r, use_ctx_from fx g ty id first s = Ok r s.
Proof. exact use_ctx_from_total. Qed.

Theorem C16_shadow_local : forall s ty id nd v,
  nodes s !! id = Some nd -> ctx_find ty (n_context nd) = Some v -> forall r, nearest s ty id r -> r = Some v.
Proof. exact shadow_local. Qed.

Theorem C16_duplicate_panics : forall fx ty v s c nd,
  current s = Some c -> nodes s !! c = Some nd -> ctx_find ty (n_context nd) <> None ->
  provide fx ty v s = Err DupContext s.
Proof. exact provide_duplicate. Qed.

Theorem C16_provide_visible : forall fx ty v s c nd,
  current s = Some c -> nodes s !! c = Some nd -> ctx_find ty (n_context nd) = None ->
  exists s', provide fx ty v s = Ok tt s' /\ nearest s' ty c (Some v).
Proof. exact provide_fresh. Qed.

(* re-running or disposing the children of a computation clears what it provided *)
Theorem C16_context_cleared : forall fx f id s s',
  dispose_children fx f id s = Ok tt s' -> forall nd, nodes s' !! id = Some nd -> n_context nd = [].
Proof. exact dispose_children_clears. Qed.
