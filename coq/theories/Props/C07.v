(* Props/C07.v -- property C07: list mapping preserves per-item results and scopes across updates.
   BOUNDED: the refinement of the keyed diff to its specification is established by computation for all
   pairs over 5 keys and all chains of 3 over 4 keys; the bound is part of the statement. The unbounded
   refinement theorem is not proved. *)
From Coq Require Import List Arith Bool.
From Syc Require Import ListMap.Keyed ListMap.KeyedFacts.
Import ListNotations.

Theorem C07_keyed_bounded : all_pairs_ok [1; 2; 3; 4; 5] = true.
Proof. exact keyed_bounded_5. Qed.

Theorem C07_keyed_chain_bounded : all_triples_ok [1; 2; 3; 4] = true.
Proof. exact keyed_chain_bounded_4. Qed.

(* indexed: every pair of lists of length <= 4 over 3 items (value equality decides reuse) *)
Theorem C07_indexed_bounded : all_ipairs_ok [(1, 0); (1, 1); (2, 0)] 4 = true.
Proof. exact indexed_bounded. Qed.
