(* Props/C07.v -- property C07: list mapping preserves per-item results and scopes across updates.
   UNBOUNDED: one update of map_keyed (unique keys) and of map_indexed refines its specification for every
   state satisfying the state invariant and every new list; the invariants are re-established, so every
   chain of updates from the initial state is panic-free and refines the specification step by step; the
   event log of every chain is a legal history (each call id created once, each scope disposed at most
   once and only after its creation, live scopes = scopes of the current output).
   Proofs: ListMap/IndexedProof.v, IndexedExact.v, KeyedProof.v, KeyedHistory.v.
   The earlier bounded statements (by computation) are superseded; their file is kept in coq/attic. *)
From Coq Require Import List Arith Bool.
From Syc Require Import ListMap.Keyed ListMap.IndexedProof ListMap.IndexedExact
                        ListMap.KeyedProof ListMap.KeyedHistory.
Import ListNotations.

(* --- map_indexed --- *)
Theorem C07_indexed_refines : forall st new, ist_ok st = true -> istep_refines st new = true.
Proof. exact indexed_refines. Qed.

Theorem C07_indexed_chain : forall updates, irun iinit updates = true.
Proof. exact indexed_chain. Qed.

(* --- map_keyed --- *)
Theorem C07_keyed_refines : forall st new,
  kst_ok st = true -> nodup_keys (items st) = true -> nodup_keys new = true -> step_refines st new = true.
Proof. exact keyed_refines. Qed.

Theorem C07_keyed_chain : forall updates,
  forallb nodup_keys updates = true -> krun kinit updates = true.
Proof. exact keyed_chain. Qed.

Theorem C07_keyed_history : forall updates, forallb nodup_keys updates = true ->
  exists stf log,
    klog kinit updates = Some (stf, log) /\
    created log = seq 0 (next_id stf) /\
    NoDup (disposed log) /\
    (forall id, In id (disposed log) -> id < next_id stf) /\
    (forall l1 d l2, log = l1 ++ Dispose d :: l2 -> In d (created l1)) /\
    (forall id, In id (mapped stf) <-> id < next_id stf /\ ~ In id (disposed log)).
Proof. exact keyed_history. Qed.

Print Assumptions C07_indexed_refines.
Print Assumptions C07_keyed_refines.
Print Assumptions C07_keyed_chain.
Print Assumptions C07_keyed_history.
