(* Props/C04a.v -- property C04, clause 'destroyed signals report not alive': node IDENTITIES.
   Interp.v draws node ids from a fresh supply; the code draws them from a slot map that re-uses slots (Reactive/Arena.v:
   the slot map of `Root::nodes`, literal, with the u32 wrap of versions).  These theorems are what makes the fresh supply a
   sound abstraction: for every history of insertions / removals / drains with fewer than 2^31-1 insertions (`bound`; beyond
   it a slot's version can wrap -- a limit of the crate) and removals of keys with an odd version (`odd_rems`: every key the
   crate can construct has one, `KeyData::new` sets the low bit), a destroyed key is never alive again, every key handed
   out is new, and liveness of handed-out keys is membership in the abstract set of live keys.  The old Root::reinit (a
   fresh map instead of a drain) is refuted: finding F28.  Statements only; proofs in Reactive/ArenaFacts.v. *)
From Coq Require Import List NArith Arith Bool.
From Syc Require Import Reactive.Arena Reactive.ArenaFacts Reactive.ArenaDriver Reactive.ArenaSpec.
Import ListNotations.
Open Scope N_scope.

(* a handle whose node was destroyed stays dead whatever is created, destroyed or re-initialised afterwards *)
Theorem C04a_removed_never_alive : forall ops1 k ops2,
  bound (ops1 ++ ARem k :: ops2) -> odd_rems (ops1 ++ ARem k :: ops2) ->
  In k (snd (arun ops1)) ->
  contains (fst (arun (ops1 ++ ARem k :: ops2))) k = false.
Proof. exact removed_never_alive. Qed.

(* after RootHandle::dispose (reinit = drain) every handle handed out before stays dead *)
Theorem C04a_drained_never_alive : forall ops1 k ops2,
  bound (ops1 ++ ADrain :: ops2) -> odd_rems (ops1 ++ ADrain :: ops2) ->
  In k (snd (arun ops1)) ->
  contains (fst (arun (ops1 ++ ADrain :: ops2))) k = false.
Proof. exact drained_never_alive. Qed.

(* no key is handed out twice: two handles never name the same node *)
Theorem C04a_keys_fresh : forall ops, bound ops -> odd_rems ops -> NoDup (snd (arun ops)).
Proof. exact keys_fresh. Qed.

(* the arena IS the abstract set of live keys: the refinement behind Interp.v's fresh ids *)
Theorem C04a_arena_refines_set : forall ops k,
  bound ops -> odd_rems ops -> In k (snd (arun ops)) ->
  (contains (fst (arun ops)) k = true <-> In k (spec ops)).
Proof. exact arena_refines_set. Qed.

(* the free list: a duplicate-free chain of vacant non-sentinel slots ending at the end of the slot vector, holding
   every vacant non-sentinel slot *)
Theorem C04a_free_list_complete : forall ops, bound ops -> odd_rems ops -> exists l, free_list (fst (arun ops)) l.
Proof. exact free_list_complete. Qed.

(* the reinit before fix 548555a (a fresh map): the first key handed out afterwards IS the first key handed out before *)
Theorem C04a_fresh_arena_resurrects :
  ~ (forall ops1 k ops2,
       bound (ops1 ++ ADrain :: ops2) -> odd_rems (ops1 ++ ADrain :: ops2) ->
       In k (snd (arun_old ops1)) ->
       contains (fst (arun_old (ops1 ++ ADrain :: ops2))) k = false).
Proof. exact drained_never_alive_old_false. Qed.

(* the hypothesis on removed keys is needed on the model (a forged even-version key corrupts the free list) *)
Theorem C04a_odd_rems_needed : ~ (forall ops, bound ops -> NoDup (snd (arun ops))).
Proof. exact keys_fresh_refuted_without_odd_rems. Qed.

(* ---- the same facts on the DRIVER semantics, i.e. on the very function (`dstep`, `dobs`) whose output is compared with the
   real create_signal / create_child_scope / dispose / RootHandle::dispose on every run (Reactive/ArenaDriver.v): every driver
   state is a history state, so the two clauses of the correspondence oracle are theorems about the model ---- *)

Theorem C04a_driver_is_history : forall dops,
  exists ops, ar (dfold dops) = fst (arun ops) /\ handles (dfold dops) = snd (arun ops) /\ odd_rems ops /\
              n_ins ops = length (handles (dfold dops)).
Proof. exact D1_simulation. Qed.

(* no raw key is ever printed for two handles *)
Theorem C04a_driver_keys_distinct : forall dops,
  N.of_nat (length (handles (dfold dops))) < 2147483647 -> NoDup (map fst (dobs (dfold dops))).
Proof. exact D2_obs_nodup. Qed.

(* a handle seen dead is dead after any continuation *)
Theorem C04a_driver_dead_stays_dead : forall dops1 dops2 h,
  N.of_nat (length (handles (dfold (dops1 ++ dops2)))) < 2147483647 ->
  alive_h (dfold dops1) h = false -> (h < length (handles (dfold dops1)))%nat ->
  alive_h (dfold (dops1 ++ dops2)) h = false.
Proof. exact D3_dead_stays_dead. Qed.

(* RootHandle::dispose leaves every earlier handle dead and the new root scope alive *)
Theorem C04a_driver_reinit_kills : forall dops,
  N.of_nat (length (handles (dfold (dops ++ [DReinit])))) < 2147483647 ->
  forall h, (h < length (handles (dfold dops)))%nat -> alive_h (dfold (dops ++ [DReinit])) h = false.
Proof. exact D4_reinit_kills. Qed.

Theorem C04a_driver_new_root_alive : forall dops,
  alive_h (dfold (dops ++ [DReinit])) (length (handles (dfold dops))) = true.
Proof. intro dops. exact (proj1 (D4_new_root_alive dops)). Qed.

(* ---- the printed observable itself (`drun dinit dops`, one line per step: what tools/arena.py compares with the real driver's
   output) and an ARENA-FREE specification of liveness (`live_spec`: numbers of the handles that are alive, computed from the
   ownership table alone) -- Reactive/ArenaSpec.v ---- *)

(* every printed line has pairwise distinct raw keys *)
Theorem C04a_lines_keys_distinct : forall dops,
  N.of_nat (length (handles (dfold dops))) < 2147483647 ->
  Forall (fun line => NoDup (map fst line)) (drun dinit dops).
Proof. exact S3a_lines_nodup. Qed.

(* an entry printed dead on some line is printed dead, with the same raw key, on every later line *)
Theorem C04a_lines_dead_stays_dead : forall dops i i' j li li' x,
  N.of_nat (length (handles (dfold dops))) < 2147483647 ->
  (i <= i')%nat ->
  nth_error (drun dinit dops) i = Some li ->
  nth_error (drun dinit dops) i' = Some li' ->
  nth_error li j = Some (x, false) ->
  nth_error li' j = Some (x, false).
Proof. exact S3b_dead_stays_dead_lines. Qed.

(* liveness of every handle = membership in the arena-free specification: created, and neither disposed (itself, with its
   owner or its owner's owner) nor swept by a re-initialisation since *)
Theorem C04a_alive_iff_spec : forall dops h,
  N.of_nat (length (handles (dfold dops))) < 2147483647 ->
  (alive_h (dfold dops) h = true <-> In h (live_spec dops)).
Proof. exact driver_alive_iff_spec_all. Qed.

(* a disposal kills the handle, what it owns and what that owns -- and nothing else *)
Theorem C04a_dispose_exact : forall dops h,
  N.of_nat (length (handles (dfold (dops ++ [DDel h])))) < 2147483647 ->
  alive_h (dfold dops) h = true ->
  alive_h (dfold (dops ++ [DDel h])) h = false /\
  (forall x, In x (kill_set (owned (dfold dops)) h) -> alive_h (dfold (dops ++ [DDel h])) x = false) /\
  (forall x, ~ In x (kill_set (owned (dfold dops)) h) -> alive_h (dfold (dops ++ [DDel h])) x = alive_h (dfold dops) x).
Proof. exact S2_del_exact. Qed.

(* non-vacuity: a history that re-uses a slot meets the hypotheses; the re-used slot's old key is dead, its new key alive *)
Example C04a_example :
  let ops := [AIns; AIns; ARem (1%nat, 1); AIns] in
  bound ops /\ odd_rems ops /\ snd (arun ops) = [(1%nat, 1); (2%nat, 1); (1%nat, 3)] /\
  map (contains (fst (arun ops))) (snd (arun ops)) = [false; true; true].
Proof. repeat split; try (vm_compute; reflexivity); try (unfold bound; vm_compute; reflexivity). repeat constructor. Qed.
