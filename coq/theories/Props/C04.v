(* Props/C04.v -- property C04: scopes own what they create; disposal is complete, exactly-once and leak-free
   (on Reactive/Interp.v with fx = true; proofs in Reactive/Own.v, DisposeFacts.v, Isolation.v). *)
From stdpp Require Import gmap list.
From Coq Require Import ZArith.
From Syc Require Import Reactive.Syntax Reactive.Interp Reactive.Show Reactive.Frame Reactive.WF Reactive.Own Reactive.DisposeFacts Reactive.Isolation Reactive.RerunGuard.

(* after ANY history (program) that completes: the graph is well formed, ownership is a tree (children lists and owner
   pointers mirror each other, every live node reaches the root through live owners: nothing is orphaned), and per
   cleanup label: emitted + still registered on live nodes = registered -- nothing is lost, nothing runs twice *)
Theorem C04_program_final_state : forall f prog en s,
  exec true f root_env prog init_state = Ok en s ->
  WF s /\ OWN none s /\ (forall n, is_Some (nodes s !! n) -> rooted s n) /\
  (forall l, (cntE l (log s) + pend l s = cntR l (log s))%nat).
Proof. exact program_final_state. Qed.

(* disposing a scope (no other disposal in progress): the scope is gone, every survivor was alive before and lies outside
   its subtree (or was created meanwhile) and is owned through live owners; no survivor mentions it in an edge *)
Theorem C04_dispose_not_alive : forall f id s s', dispose true f id s = Ok tt s' -> nodes s' !! id = None.
Proof. exact dispose_not_alive. Qed.
Theorem C04_dispose_leak_free : forall f id s s', OWN none s -> dispose true f id s = Ok tt s' ->
  OWN none s' /\
  (forall n, is_Some (nodes s' !! n) -> (n < next s)%nat -> is_Some (nodes s !! n) /\ ~ desc s id n) /\
  (forall n, is_Some (nodes s' !! n) -> rooted s' n).
Proof. exact dispose_leak_free. Qed.
Theorem C04_dispose_no_edges : forall f id s s', WF s -> dispose true f id s = Ok tt s' ->
  forall x xx, nodes s' !! x = Some xx -> ~ In id (n_deps xx) /\ ~ In id (n_dependents xx).
Proof. exact dispose_no_edges. Qed.

(* cleanups: conservation law of one disposal, as an equality per label *)
Theorem C04_dispose_cleanups_exact : forall f P id s s', OWN P s -> dispose true f id s = Ok tt s' ->
  exists d, log s' = d ++ log s /\ forall l, (cntE l d + pend l s' = pend l s + cntR l d)%nat.
Proof. exact dispose_cleanups_exact. Qed.
Theorem C04_cleanups_conserved : forall f P en ss s en' s', OWN P s -> env_ok (next s) en ->
  exec true f en ss s = Ok en' s' ->
  forall l, (cntE l (log s') + pend l s' + cntR l (log s) = cntE l (log s) + pend l s + cntR l (log s'))%nat.
Proof. exact cleanups_conserved. Qed.

(* a node that is being disposed is never run again (it is unsubscribed first and stays clean) *)
Theorem C04_disposed_node_stays_clean : forall f id s nd s1, WF s -> nodes s !! id = Some nd -> n_dirty nd = false ->
  dispose_children true f id (unsubscribe true id s) = Ok tt s1 ->
  Jc id (unsubscribe true id s) /\ Jc id s1 /\ (forall this, nodes s1 !! id = Some this -> n_deps this = []).
Proof. exact disposed_node_stays_clean. Qed.

(* a memo / effect that a cleanup callback of its previous run has disposed (itself, or a scope that owns it) is not run
   again: [run_node_update] ends in the state [s4] that [dispose_children] returned -- no callback, no link, no mark.
   The hypotheses only name the intermediate states of [run_node_update]: the node is alive with its callback and value
   in place ([loop], the only caller, checks the first; WF gives the other two for a dirty node), [s2] is the state after
   the old dependency edges are removed, [s4] the state after the cleanups of the previous run. *)
Theorem C04_disposed_by_cleanup_not_rerun : forall f n s nd c old s2 s4,
  nodes s !! n = Some nd -> n_cb nd = Some c -> n_value nd = Some old ->
  unlink_deps n (n_deps nd) (upd n (nd_deps (fun _ => [])) s) = Ok tt s2 ->
  dispose_children true f n (upd n (fun x => nd_cb None (nd_value None x)) s2) = Ok tt s4 ->
  alive n s4 = false ->
  run_node_update true (S f) n s = Ok tt s4.
Proof. exact run_node_update_disposed_by_cleanup. Qed.

(* in terms of the log: the callback's [EvRun] is emitted by this update iff the node survived those cleanups *)
Theorem C04_rerun_iff_survived : forall f n s nd c old s2 s4,
  nodes s !! n = Some nd -> n_cb nd = Some c -> n_value nd = Some old ->
  unlink_deps n (n_deps nd) (upd n (nd_deps (fun _ => [])) s) = Ok tt s2 ->
  dispose_children true (S f) n (upd n (fun x => nd_cb None (nd_value None x)) s2) = Ok tt s4 ->
  let r := run_node_update true (S (S f)) n s in
  (alive n s4 = false -> r = Ok tt s4 /\ runs (c_name c) (log (st_of r)) = runs (c_name c) (log s4)) /\
  (alive n s4 = true -> (runs (c_name c) (log (st_of r)) > runs (c_name c) (log s4))%nat).
Proof. exact destroyed_computation_not_rerun. Qed.

(* an effect whose cleanup disposes the effect itself, then two writes to the signal it read: one run, at creation *)
Example C04_self_disposing_effect_runs_once :
  rg_events (exec true 400 root_env
    [SSignal 1 (Lit 0);
     SEffect 3 (Body None [SCurScope 4; SOnCleanup 1 [SDispose 4]] (Get 1));
     SSet 1 (Lit 1);
     SSet 1 (Lit 2)] init_state)
  = Some [EvRun 3; EvReg 1; EvRead 1 0 true; EvEff 3 0; EvEnd 3; EvCleanup 1].
Proof. vm_compute. reflexivity. Qed.

Print Assumptions C04_disposed_by_cleanup_not_rerun.
Print Assumptions C04_rerun_iff_survived.
