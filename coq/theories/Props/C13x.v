(* Props/C13x.v -- property C13, rendering half: the translation of the generated view vocabulary (Async/StreamX.v)
   into the views the theorems of Props/C13r.v are about. Every generated view is rendered by the real code and by
   Stream.v THROUGH this translation on every run; the theorems below pin what the translation claims. *)
From Coq Require Import List Arith Bool String.
From Syc Require Import Async.Stream Async.StreamFacts Async.StreamX Async.StreamXFacts.
From Syc Require Export Props.C13r.
Import ListNotations.

Theorem C13x_translation_conservative :
  (forall v, translate (embed v) = [v]) /\ (forall l, translate_list (map embed l) = l).
Proof. exact translate_embed. Qed.

Theorem C13x_dynamic_blocks_transparent : forall l1 ch l2,
  translate_list (l1 ++ XDyn ch :: l2) = translate_list (l1 ++ ch ++ l2).
Proof. exact dyn_transparent. Qed.

Theorem C13x_transition_is_boundary : forall i fb ch, translate (XTrans i fb ch) = translate (XSus i fb ch).
Proof. exact transition_is_boundary. Qed.

Theorem C13x_until_contributes_nothing : forall g vs F parent,
  translate (XUnless g vs) = [] /\
  boundaries_list F parent (translate (XResu g vs)) = [] /\
  pending_list F (translate (XResu g vs)) = (if fired F g then 0 else 1).
Proof. exact until_contributes_nothing. Qed.

Theorem C13x_flip_when_after : forall g vs F, fired F g = true ->
  pending_list F (translate (XFlip g) ++ translate (XWhen g vs)) = pending_list F (translate_list vs) /\
  content_list F (translate (XFlip g) ++ translate (XWhen g vs)) = content_list F (translate_list vs).
Proof. exact flip_when_after. Qed.

(* the streaming theorem, for every view of the vocabulary: once all tasks that survive in the translation have finished,
   every boundary has been streamed exactly once and shell + fragments = the blocking result = everything resolved *)
Theorem C13x_stream_equals_blocking : forall xs sched,
  let vs := wrap xs in
  uniq_idsb vs = true -> no_top_asyncb vs = true -> global_pending sched vs = 0 ->
  (forall i, In i (ids_list vs) <-> In i (s_sent (reach vs sched))) /\
  NoDup (s_sent (reach vs sched)) /\
  s_doc (reach vs sched) = Some (full_list vs) /\
  s_doc (reach vs sched) = Some (deep_list sched vs).
Proof. intros xs sched vs. exact (C13r_stream_equals_blocking vs sched). Qed.
