(* Props/C08.v -- property C08: server rendering is faithful and injection-safe (on Ssr/View.v, Ssr/Html.v).
   For EVERY view and state (no size bound), with arbitrary byte strings as texts and attribute values, and tag /
   attribute names that are names (non-empty, name characters; the hypothesis wf_view: sycamore takes them from
   static identifiers and never escapes them -- RoundTrip.v shows by counterexample that each clause is needed). *)
From Coq Require Import List String Bool.
From Syc Require Import Ssr.Html Ssr.View Ssr.RoundTrip.
Import ListNotations.

(* the output parses back to exactly the view that was built *)
Theorem C08_render_roundtrip : forall ns : list ssr, wf_list ns = true ->
  tokenize (render_view ns) = Some (norm (flat_map tokens ns)).
Proof. exact render_roundtrip. Qed.

Theorem C08_render_to_string_roundtrip : forall st v, wf_view v = true ->
  tokenize (render_to_string st v) = Some (norm (flat_map tokens (fst (build st build_fuel true 0 None v 0)))).
Proof. exact render_to_string_roundtrip. Qed.

(* text and attribute values never introduce elements, attributes or comments: the structural tokens the parser
   sees depend only on the tree with every string erased *)
Theorem C08_injection_safe : forall ns, wf_list ns = true ->
  exists l, tokenize (render_view ns) = Some l /\ skeleton l = skeleton (flat_map tokens (map blank ns)).
Proof. exact injection_safe. Qed.

Theorem C08_injection_safe_2 : forall ns ns' l l', wf_list ns = true -> wf_list ns' = true -> map blank ns = map blank ns' ->
  tokenize (render_view ns) = Some l -> tokenize (render_view ns') = Some l' -> skeleton l = skeleton l'.
Proof. exact injection_safe_2. Qed.

(* void elements get no end tag *)
Theorem C08_void_no_end_tag : forall ns l t, wf_list ns = true -> tokenize (render_view ns) = Some l -> In (TEnd t) l -> is_void t = false.
Proof. exact void_no_end_tag. Qed.

(* false boolean and None attributes are omitted *)
Theorem C08_none_attr_omitted : forall st tag n k attrs ch, get_str st k = None ->
  render_to_string st (VEl tag (ADyn n k :: attrs) ch) = render_to_string st (VEl tag attrs ch).
Proof. exact none_attr_omitted. Qed.

Theorem C08_false_bool_attr_omitted : forall st tag n attrs ch,
  render_to_string st (VEl tag (ABool n false :: attrs) ch) = render_to_string st (VEl tag attrs ch).
Proof. exact false_bool_attr_omitted. Qed.

Theorem C08_false_dyn_bool_attr_omitted : forall st tag n k attrs ch, get_bool st k = false ->
  render_to_string st (VEl tag (ABoolDyn n k :: attrs) ch) = render_to_string st (VEl tag attrs ch).
Proof. exact false_dyn_bool_attr_omitted. Qed.
