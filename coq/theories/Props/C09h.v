(* Props/C09h.v -- property C09 "Hydration adopts the server DOM and leaves it reactive", the adoption walk itself
   (HydrateNode in hydrating mode: Dom/Hydrate.v): for EVERY view of the class [hydratable] and every state, hydrating
   the server DOM of the view ([server_dom], what an HTML parser builds from the server output) with fresh identities
   above those of the server nodes succeeds, and
   (a) the element skeleton (identities, tags, nesting, attributes) is the server's, with the stamp added to exactly the
       elements that carry a hydration key: every server element is still there, at its place, none re-created or moved;
   (c) the visible tree (comments, identities, data-hk / data-hydrated dropped, adjacent text merged) is unchanged;
   (b), (d) the layout read back from the result is the layout of the view in which every slot the client walk hydrates
       has been adopted: a dynamic text is a fresh text node holding the current value of its signal (its `t` comment
       gone), a marker is a fresh `#` comment; every slot under NoHydrate is still in server form; the server DOM itself
       reads as the layout with nothing adopted.
   [hydrate_nodes]: every old text node / comment of the result is a server node; when nothing of the view is under
   NoHydrate no `t` and no `/` comment is left and every `#` comment is fresh.
   Each restriction in [hydratable] is justified below by a witness evaluated on the model, and [hydratable] is compared
   with the four clauses, by computation, on two explicit enumerations of small views. *)
From Coq Require Import List String Ascii Bool Arith ZArith.
From Syc Require Import Common.Show Ssr.Html Ssr.View Dom.Hydrate Dom.HydrateSpec Dom.HydrateFacts.
Import ListNotations.
Open Scope string_scope.
Open Scope list_scope.

Theorem C09_hydrate_ok : forall vst v fresh,
  hydratable vst v = true -> above fresh (server_dom vst v) ->
  exists d, hydrate vst v (server_dom vst v) fresh = HOk d
    /\ els d = map stamp_keyed (els (server_dom vst v))
    /\ vis d = vis (server_dom vst v)
    /\ map forget_ids (read_lay fresh d) = map (expect true) (fst (lay hyd_fuel vst true v 0))
    /\ map forget_ids (read_lay fresh (server_dom vst v)) = map (expect false) (fst (lay hyd_fuel vst true v 0)).
Proof. exact hydrate_ok. Qed.

Print Assumptions C09_hydrate_ok.

Theorem C09_hydrate_nodes : forall vst v fresh,
  hydratable vst v = true -> above fresh (server_dom vst v) ->
  exists d, hydrate vst v (server_dom vst v) fresh = HOk d
    /\ (forall i s, In (i, s) (texts d) -> i < fresh -> In (i, s) (texts (server_dom vst v)))
    /\ (forall i c, In (i, c) (coms d) -> i < fresh -> In (i, c) (coms (server_dom vst v)))
    /\ (forallb full_i (fst (lay hyd_fuel vst true v 0)) = true -> Forall (com_done fresh) (coms d)).
Proof. exact hydrate_nodes. Qed.

Print Assumptions C09_hydrate_nodes.

(* [above] from a computation *)
Lemma above_b fresh l : forallb (fun id => Nat.ltb id fresh) (ids l) = true -> above fresh l.
Proof. intros H id Hin. rewrite forallb_forall in H. apply Nat.ltb_lt. exact (H id Hin). Qed.

(* ---- a non-trivial instance: static and dynamic text (one empty), attributes, a void element, nested dynamic views,
   Show on and off, a component, SVG, and NoHydrate content with its own markers at the end of its DOM parents ---- *)
Definition demo9h_st : vstate := VState [(0, Some "a"); (1, Some "b"); (2, Some "")] [(0, true); (1, false)] [].
Definition demo9h : view :=
  VFrag [
    VEl "div" [AStr "class" "c"; ADyn "title" 0; ABool "hidden" true]
        [VText "hello"; VDynText 0; VEl "br" [] []; VDynText 2; VText "!"];
    VDyn 0 [VEl "p" [] [VDynText 0]; VDyn 1 [] [VText "inner"]] [VText "off"];
    VShow 0 [VEl "span" [] [VText "shown"]];
    VShow 1 [];
    VComp [VText "comp"; VDynText 1];
    VEl "svg" [] [VEl "circle" [] []];
    VNoHydrate [VEl "i" [] [VDynText 0; VDyn 0 [VText "q"] []]; VDynText 0]
  ].

Example demo9h_hydratable : hydratable demo9h_st demo9h = true /\ above 1000 (server_dom demo9h_st demo9h).
Proof. split; [vm_compute; reflexivity|apply above_b; vm_compute; reflexivity]. Qed.

Example demo9h_layout :
  fst (lay hyd_fuel demo9h_st true demo9h 0)
  = [LEl (Some 0) [LText true "a"; LEl (Some 1) []; LText true ""];
     LMark true; LEl (Some 2) [LText true "a"]; LMark true; LMark true; LMark true; LMark true;
     LEl (Some 3) []; LMark true; LMark true; LMark true;
     LText true "b"; LEl (Some 4) [LEl (Some 5) []];
     LEl None [LText false "a"; LMark false; LMark false];
     LText false "a"].
Proof. vm_compute. reflexivity. Qed.

Example demo9h_result :
  hydrate demo9h_st demo9h (server_dom demo9h_st demo9h) 1000
  = HOk [HEl 0 "div" [("class", "c"); ("title", "a"); ("hidden", ""); ("data-hk", "0.0"); ("data-hydrated", "")]
           [HText 1 "hello"; HText 1000 "a"; HCom 4 "";
            HEl 5 "br" [("data-hk", "0.1"); ("data-hydrated", "")] [];
            HText 1001 ""; HText 8 "!"];
         HCom 1002 "#";
         HEl 10 "p" [("data-hk", "0.2"); ("data-hydrated", "")] [HText 1004 "a"; HCom 13 ""];
         HCom 1005 "#"; HText 15 "inner"; HCom 1006 "#"; HCom 1003 "#";
         HCom 1007 "#";
         HEl 19 "span" [("data-hk", "0.3"); ("data-hydrated", "")] [HText 20 "shown"];
         HCom 1008 "#"; HCom 1009 "#"; HCom 1010 "#";
         HText 24 "comp"; HText 1011 "b"; HCom 27 "";
         HEl 28 "svg" [("data-hk", "0.4"); ("data-hydrated", "")]
           [HEl 29 "circle" [("data-hk", "0.5"); ("data-hydrated", "")] []];
         HEl 30 "i" [] [HCom 31 "t"; HText 32 "a"; HCom 33 ""; HCom 34 "/"; HText 35 "q"; HCom 36 "/"];
         HCom 37 "t"; HText 38 "a"; HCom 39 ""].
Proof. vm_compute. reflexivity. Qed.

(* a view without NoHydrate: the premise of the last clause of [C09_hydrate_nodes] holds *)
Example demo9h_full :
  let v := VEl "div" [] [VDynText 0; VDyn 0 [VEl "p" [] [VDynText 2]] []; VShow 0 [VEl "b" [] []]] in
  hydratable demo9h_st v = true /\ forallb full_i (fst (lay hyd_fuel demo9h_st true v 0)) = true
  /\ hydrate demo9h_st v (server_dom demo9h_st v) 1000
     = HOk [HEl 0 "div" [("data-hk", "0.0"); ("data-hydrated", "")]
              [HText 1000 "a"; HCom 3 ""; HCom 1001 "#";
               HEl 5 "p" [("data-hk", "0.1"); ("data-hydrated", "")] [HText 1003 ""];
               HCom 1002 "#"; HCom 1004 "#"; HEl 10 "b" [("data-hk", "0.2"); ("data-hydrated", "")] []; HCom 1005 "#"]].
Proof. vm_compute. repeat split; reflexivity. Qed.

(* ---------------------------------------------------------------------------------- *)
(* Why each restriction of [hydratable] is there: witnesses, evaluated on the model. *)

(* F10: a Show that is off over an element. The server counts the element and drops it; the client asks for its key. *)
Example C09h_show_off_refuted :
  let st := VState [] [(0, false)] [] in
  let v := VFrag [VShow 0 [VEl "p" [] []]; VEl "div" [] []] in
  hydratable st v = false
  /\ server_dom st v = [HCom 0 "/"; HCom 1 "/"; HEl 2 "div" [("data-hk", "0.1")] []]
  /\ hydrate st v (server_dom st v) 1000 = HErr (HKeyNotFound "0.0").
Proof. vm_compute. repeat split; reflexivity. Qed.

(* F16, text: NoHydrate content puts a dynamic text into a DOM parent before a hydrated dynamic text of the same parent.
   The hydrated text adopts the `t` comment of the NoHydrate text: hydration "succeeds" with a WRONG visible tree
   (the NoHydrate text now shows the other signal), and a `t` comment is left where the hydrated text should be. *)
Example C09h_nohydrate_text_refuted :
  let v := VEl "div" [] [VNoHydrate [VDynText 0]; VDynText 1] in
  hydratable demo9h_st v = false
  /\ hydrate demo9h_st v (server_dom demo9h_st v) 1000
     = HOk [HEl 0 "div" [("data-hk", "0.0"); ("data-hydrated", "")]
              [HText 1000 "b"; HCom 3 ""; HCom 4 "t"; HText 5 "b"; HCom 6 ""]]
  /\ vis (server_dom demo9h_st v) = [VtEl "div" [] [VtText "ab"]]
  /\ (forall d, hydrate demo9h_st v (server_dom demo9h_st v) 1000 = HOk d -> vis d = [VtEl "div" [] [VtText "bb"]]).
Proof.
  cbv zeta. split; [vm_compute; reflexivity|]. split; [vm_compute; reflexivity|]. split; [vm_compute; reflexivity|].
  intros d H. vm_compute in H. inversion H; subst d. vm_compute. reflexivity.
Qed.

(* F16, markers: the same with a dynamic view (or Show) under NoHydrate before a hydrated dynamic view: the hydrated
   view takes the two `/` comments of the NoHydrate view as its markers (its content is then NOT between its markers:
   later updates go to the wrong place), its own `/` comments are left. *)
Example C09h_nohydrate_marker_refuted :
  let v := VEl "div" [] [VNoHydrate [VDyn 0 [VText "x"] []]; VDyn 0 [VEl "p" [] []] []] in
  hydratable demo9h_st v = false
  /\ hydrate demo9h_st v (server_dom demo9h_st v) 1000
     = HOk [HEl 0 "div" [("data-hk", "0.0"); ("data-hydrated", "")]
              [HCom 1000 "#"; HText 2 "x"; HCom 1001 "#"; HCom 4 "/";
               HEl 5 "p" [("data-hk", "0.1"); ("data-hydrated", "")] []; HCom 6 "/"]]
  /\ map (expect true) (fst (lay hyd_fuel demo9h_st true v 0))
     = [REl 0 true [RMark false; RMark false; RMark true; REl 0 true []; RMark true]].
Proof. vm_compute. repeat split; reflexivity. Qed.

(* the other order is fine: NoHydrate slots AFTER the hydrated slots of the same kind in the parent (the search takes the
   first one), and slots of the other kind anywhere *)
Example C09h_nohydrate_after_ok :
  let v := VEl "div" [] [VNoHydrate [VDynText 0]; VDyn 0 [VDynText 1] []; VNoHydrate [VDyn 0 [VText "x"] []]] in
  hydratable demo9h_st v = false
  /\ (let w := VEl "div" [] [VDyn 0 [VDynText 1] []; VNoHydrate [VDynText 0; VDyn 0 [VText "x"] []]] in
      hydratable demo9h_st w = true)
  /\ (let w := VEl "div" [] [VNoHydrate [VDynText 0]; VDyn 0 [VText "y"] []; VNoHydrate [VDyn 0 [VText "x"] []]] in
      hydratable demo9h_st w = true).
Proof. vm_compute. repeat split; reflexivity. Qed.

(* lists (F11), NoSsr, Show over anything but elements (F12, F13): outside the model of the walk *)
Example C09h_unsupported :
  let st := VState [] [(0, true)] [(0, [1; 2]%Z)] in
  (hydratable st (VList true 0 [VItem]) = false
   /\ hydrate st (VList true 0 [VItem]) (server_dom st (VList true 0 [VItem])) 1000 = HErr HUnsupported)
  /\ (hydratable st (VNoSsr [VText "x"]) = false
      /\ hydrate st (VNoSsr [VText "x"]) (server_dom st (VNoSsr [VText "x"])) 1000 = HErr HUnsupported)
  /\ (hydratable st (VShow 0 [VText "x"]) = false
      /\ hydrate st (VShow 0 [VText "x"]) (server_dom st (VShow 0 [VText "x"])) 1000 = HErr HUnsupported)
  /\ (hydratable st (VShow 0 [VDyn 0 [] []]) = false
      /\ hydrate st (VShow 0 [VDyn 0 [] []]) (server_dom st (VShow 0 [VDyn 0 [] []])) 1000 = HErr HUnsupported).
Proof. vm_compute. repeat split; reflexivity. Qed.

(* the view sets the attribute the registry is built from: the parser keeps the first `data-hk`, the key is not found;
   under NoHydrate a literal key makes the registry hand out the wrong element *)
Example C09h_reserved_attr_refuted :
  let st := demo9h_st in
  let v := VEl "div" [AStr "data-hk" "9.9"] [] in
  let w := VFrag [VNoHydrate [VEl "i" [AStr "data-hk" "0.0"] []]; VEl "p" [] [VDynText 0]] in
  hydratable st v = false
  /\ server_dom st v = [HEl 0 "div" [("data-hk", "9.9"); ("data-hk", "0.0")] []]
  /\ hydrate st v (server_dom st v) 1000 = HErr (HKeyNotFound "0.0")
  /\ hydratable st w = false
  /\ hydrate st w (server_dom st w) 1000 = HErr HTextNotFound.
Proof. vm_compute. repeat split; reflexivity. Qed.

(* `data-hydrated` set by the view does not disturb the walk; it is excluded because the stamp is how clause (b) tells a
   hydrated element from one that was left alone *)
Example C09h_stamp_attr :
  let st := demo9h_st in
  let v := VNoHydrate [VEl "i" [AStr "data-hydrated" ""] []] in
  hydratable st v = false
  /\ hydrate st v (server_dom st v) 1000 = HOk [HEl 0 "i" [("data-hydrated", "")] []]
  /\ map forget_ids (read_lay 1000 (server_dom st v)) = [REl 0 true []]
  /\ map (expect false) (fst (lay hyd_fuel st true v 0)) = [REl 0 false []].
Proof. vm_compute. repeat split; reflexivity. Qed.

(* a void element with children: the server model counts the children's keys and renders nothing (the real renderer
   panics), the client skips them *)
Example C09h_void_children_refuted :
  let st := demo9h_st in
  let v := VFrag [VEl "br" [] [VEl "p" [] []]; VEl "div" [] []] in
  hydratable st v = false
  /\ server_dom st v = [HEl 0 "br" [("data-hk", "0.0")] []; HEl 1 "div" [("data-hk", "0.2")] []]
  /\ hydrate st v (server_dom st v) 1000 = HErr (HKeyNotFound "0.1").
Proof. vm_compute. repeat split; reflexivity. Qed.

(* the identities handed out must not collide with server identities: with [fresh] inside the server range the stamp /
   child-list update by identity is still correct here, but "fresh" nodes are then indistinguishable from server nodes;
   the hypothesis [above] is what gives clause (b), (d) their meaning *)
Example C09h_above_needed :
  let st := demo9h_st in
  let v := VEl "div" [] [VDynText 0] in
  hydrate st v (server_dom st v) 0 = HOk [HEl 0 "div" [("data-hk", "0.0"); ("data-hydrated", "")] [HText 0 "a"; HCom 3 ""]].
Proof. vm_compute. reflexivity. Qed.

(* ---------------------------------------------------------------------------------- *)
(* [hydratable] against the clauses, by computation on explicit enumerations (none of the enumerated views has a void
   element with children or a reserved attribute name): on these views the class is EXACT -- a view is hydratable
   if and only if hydration of its server DOM succeeds and the four clauses of [C09_hydrate_ok] hold. *)
Inductive tok := TN (n : nat) | TS (s : string) | TB (b : bool) | TO | TC.
Definition tok_dec : forall a b : tok, {a = b} + {a <> b}.
Proof. decide equality; [apply Nat.eq_dec|apply string_dec|apply bool_dec]. Defined.
Definition toks_eqb (a b : list tok) : bool := if list_eq_dec tok_dec a b then true else false.
Definition tattrs (l : list (string * string)) : list tok := flat_map (fun p => [TS (fst p); TS (snd p)]) l.
Fixpoint t_esk (e : esk) : list tok :=
  match e with Esk id t a ch => TO :: TN id :: TS t :: tattrs a ++ TO :: flat_map t_esk ch ++ [TC; TC] end.
Fixpoint t_vt (e : vtree) : list tok :=
  match e with VtEl t a ch => TO :: TS t :: tattrs a ++ TO :: flat_map t_vt ch ++ [TC; TC] | VtText s => [TS s] end.
Fixpoint t_r (e : ritem) : list tok :=
  match e with REl i h ch => TO :: TN i :: TB h :: flat_map t_r ch ++ [TC] | RText a s => [TB a; TS s] | RMark a => [TB a] end.

Definition clauses (st : vstate) (v : view) : bool :=
  let s := server_dom st v in
  let fresh := S (fold_right Nat.max 0 (ids s)) in
  match hydrate st v s fresh with
  | HErr _ => false
  | HOk d =>
      toks_eqb (flat_map t_esk (els d)) (flat_map t_esk (map stamp_keyed (els s)))
      && toks_eqb (flat_map t_vt (vis d)) (flat_map t_vt (vis s))
      && toks_eqb (flat_map t_r (map forget_ids (read_lay fresh d))) (flat_map t_r (map (expect true) (fst (lay hyd_fuel st true v 0))))
      && toks_eqb (flat_map t_r (map forget_ids (read_lay fresh s))) (flat_map t_r (map (expect false) (fst (lay hyd_fuel st true v 0))))
  end.

Definition atoms9h : list view := [VText "x"; VText ""; VDynText 0; VDynText 1; VEl "p" [] []; VEl "br" [] []].
Definition upto2 (s : list view) : list (list view) :=
  [] :: map (fun a => [a]) s ++ flat_map (fun a => map (fun b => [a; b]) s) s.
Definition combs9h (cs : list (list view)) : list view :=
  flat_map (fun c => [VEl "div" [] c; VFrag c; VDyn 0 c []; VDyn 1 [VText "no"] c; VShow 0 c; VShow 1 c; VNoHydrate c]) cs.
(* depth 1: 307 views *)
Definition enum9h_1 : list view := atoms9h ++ combs9h (upto2 atoms9h).
(* depth 2 over a selection: 7 * (1 + 24 + 24 * 24) = 4207 views *)
Definition sel9h : list view :=
  [VText "x"; VDynText 0; VDynText 1; VEl "p" [] []; VEl "br" [] [];
   VEl "div" [] [VDynText 0]; VFrag [VDynText 0; VText "x"]; VFrag [];
   VDyn 0 [VDynText 0] []; VDyn 0 [VEl "p" [] []] []; VDyn 1 [VText "no"] [VDynText 1]; VDyn 0 [VDyn 0 [] []] [];
   VShow 0 [VEl "p" [] []]; VShow 1 [VEl "p" [] []]; VShow 1 []; VShow 0 [VText "x"]; VShow 0 [VNoHydrate [VDynText 0]];
   VNoHydrate [VDynText 0]; VNoHydrate [VEl "p" [] []]; VNoHydrate [VDyn 0 [VText "x"] []];
   VNoHydrate [VShow 0 [VEl "p" [] []]]; VNoHydrate [VText "x"]; VNoHydrate [VEl "div" [] [VDynText 0]];
   VNoHydrate [VList true 0 [VItem; VDynText 0]]].
Definition enum9h_2 : list view := combs9h (upto2 sel9h).

Definition st9h_a : vstate := VState [(0, Some "a"); (1, Some "")] [(0, true); (1, false)] [(0, [1; 2]%Z)].
Definition st9h_b : vstate := VState [(0, Some ""); (1, Some "a")] [(0, false); (1, true)] [(0, [1; 2]%Z)].

Theorem C09h_class_exact_on_enumeration :
  forallb (fun st => forallb (fun v => Bool.eqb (hydratable st v) (clauses st v)) (enum9h_1 ++ enum9h_2)) [st9h_a; st9h_b] = true
  /\ List.length enum9h_1 = 307 /\ List.length enum9h_2 = 4207
  /\ List.length (filter (hydratable st9h_a) (enum9h_1 ++ enum9h_2)) = 2762.
Proof. vm_compute. repeat split; reflexivity. Qed.

(* ---------------------------------------------------------------------------------- *)
(* with C09 (1) (Props/C09.v): the hydrated DOM shows what a fresh client render shows (text merged as the parser did) *)
From Syc Require Import Dom.Client Dom.ServerClient Dom.HydrateClient.

Theorem C09_hydrate_client : forall vst v fresh,
  hydratable vst v = true -> no_nossr v = true -> above fresh (server_dom vst v) ->
  exists d, hydrate vst v (server_dom vst v) fresh = HOk d
    /\ vis d = vt_merge (map vt_of (vis_client (dom_of (fst (create client_fuel vst None v 0))))).
Proof. exact hydrate_client. Qed.

Print Assumptions C09_hydrate_client.

Example demo9h_client :
  no_nossr demo9h = true
  /\ vt_merge (map vt_of (vis_client (dom_of (fst (create client_fuel demo9h_st None demo9h 0)))))
     = [VtEl "div" [("class", "c"); ("title", "a"); ("hidden", "")] [VtText "helloa"; VtEl "br" [] []; VtText "!"];
        VtEl "p" [] [VtText "a"]; VtText "inner"; VtEl "span" [] [VtText "shown"]; VtText "compb";
        VtEl "svg" [] [VtEl "circle" [] []]; VtEl "i" [] [VtText "aq"]; VtText "a"].
Proof. vm_compute. split; reflexivity. Qed.

(* Scope. [hydratable] is exact on the enumerations above. It is not the largest class in three harmless respects, each a
   deliberate choice: a void element with children that hand out no key (the real renderer panics on it), the attribute
   name `data-hydrated` (and `data-hk` with a value that collides with no key) set by the view, and views nested deeper
   than the fuel of the three walks (64). Not covered: what the hydrated view does on later writes (the model of the
   walk returns the DOM, not a reactive instance); Show over non-elements, lists and NoSsr, which the model of the
   walk does not describe. *)
