(* Props/C06c.v -- property C06, the link between the client model and the node-diffing routine (Dom/ClientReconcile.v).
   Real code (iter.rs, Keyed and Indexed alike): the first run of the list's effect builds (start, items, end); every later run
   takes old = get_nodes_between(start, end) ++ [end], new = top-level nodes of the new items ++ [end] and calls
   reconcile_fragments(parent, old, new) whenever the start marker has a parent. There is no fast path for an empty old
   or new list: the end marker keeps both sequences non-empty, and the theorems below cover a0 = [] and b0 = [].
   (L1) C06c_list_reconcile / _ok / _in_parent: for every write and every siblings of the list in its parent the call's
        preconditions (child list before and after duplicate-free) hold, the routine raises nothing, and it turns the
        parent's child list [.. tops (dom_of i) ..] into [.. tops (dom_of i') ..] (what the model's [update] prescribes),
        touching only nodes of the old or the new region. Hypothesis: keys_ok (no duplicate key in a Keyed list).
   (L2) C06c_keyed_retained / C06c_indexed_retained: a key present before and after (Indexed: a position whose value is
        unchanged) keeps the very same nodes (whole subtree, same places), for templates that do not read the written
        signal structurally.
   (L3) ex_reconcile: [1;2;3] -> [3;1;4] between two siblings, evaluated. *)
From Coq Require Import List String Ascii Bool Arith ZArith.
From Syc Require Import Common.Show Ssr.Html Ssr.View Dom.Reconcile Dom.ReconcileProof
     Dom.Client Dom.ClientFacts Dom.ClientIds Dom.ClientStable Dom.ClientReconcile.
Import ListNotations.
Open Scope string_scope.
Open Scope list_scope.

(* ---- (L1) ---- *)
Theorem C06c_list_reconcile : forall f st w item kd k tmpl m1 m2 items cnt i' c',
  keys_ok st (VList kd k tmpl) = true ->
  ids_wf (IList m1 m2 items) cnt ->
  update f st w item (VList kd k tmpl) (IList m1 m2 items) cnt = (i', c') ->
  forall pre0 post : list nat,
  NoDup (pre0 ++ post) ->
  (forall x, In x (pre0 ++ post) -> ~ In x (inst_ids (IList m1 m2 items)) /\ ~ cnt <= x < c') ->
  exists items', i' = IList m1 m2 items' /\
    (let a0 := tops (items_dom items) in
     let b0 := tops (items_dom items') in
     NoDup ((pre0 ++ [m1]) ++ (a0 ++ [m2]) ++ post) /\
     NoDup ((pre0 ++ [m1]) ++ (b0 ++ [m2]) ++ post) /\
     pre0 ++ tops (dom_of (IList m1 m2 items)) ++ post = (pre0 ++ [m1]) ++ (a0 ++ [m2]) ++ post /\
     pre0 ++ tops (dom_of i') ++ post = (pre0 ++ [m1]) ++ (b0 ++ [m2]) ++ post /\
     exists t, reconcile (pre0 ++ tops (dom_of (IList m1 m2 items)) ++ post) (a0 ++ [m2]) (b0 ++ [m2])
               = ROk (pre0 ++ tops (dom_of i') ++ post) t
               /\ Forall (fun x => In x (a0 ++ [m2]) \/ In x (b0 ++ [m2])) t).
Proof. exact list_reconcile. Qed.

Theorem C06c_list_reconcile_ok : forall f st w item kd k tmpl m1 m2 items cnt i' c',
  keys_ok st (VList kd k tmpl) = true ->
  ids_wf (IList m1 m2 items) cnt ->
  update f st w item (VList kd k tmpl) (IList m1 m2 items) cnt = (i', c') ->
  forall pre0 post : list nat,
  NoDup (pre0 ++ post) ->
  (forall x, In x (pre0 ++ post) -> ~ In x (inst_ids (IList m1 m2 items)) /\ ~ cnt <= x < c') ->
  exists items', i' = IList m1 m2 items' /\
    reconcile_ok (pre0 ++ [m1]) (tops (items_dom items) ++ [m2]) (tops (items_dom items') ++ [m2]) post = true.
Proof. exact list_reconcile_ok. Qed.

(* the siblings given as instances: the parent's forest before and after *)
Theorem C06c_list_reconcile_in_parent : forall f st w item kd k tmpl m1 m2 items cnt i' c' chl chr,
  keys_ok st (VList kd k tmpl) = true ->
  ids_wf (IGroup (chl ++ [IList m1 m2 items] ++ chr)) cnt ->
  update f st w item (VList kd k tmpl) (IList m1 m2 items) cnt = (i', c') ->
  exists items', i' = IList m1 m2 items' /\
    exists t, reconcile (tops (flat_map dom_of (chl ++ [IList m1 m2 items] ++ chr)))
                        (tops (items_dom items) ++ [m2]) (tops (items_dom items') ++ [m2])
              = ROk (tops (flat_map dom_of (chl ++ [i'] ++ chr))) t
              /\ Forall (fun x => In x (tops (items_dom items) ++ [m2]) \/ In x (tops (items_dom items') ++ [m2])) t.
Proof. exact list_reconcile_in_parent. Qed.

Print Assumptions C06c_list_reconcile.
Print Assumptions C06c_list_reconcile_ok.
Print Assumptions C06c_list_reconcile_in_parent.

(* ---- (L2) ---- *)
Theorem C06c_keyed_retained : forall f st st' w item k tmpl m1 m2 items cnt,
  agree_except w st st' -> faithful f st item (VList true k tmpl) (IList m1 m2 items) -> keys_ok st' (VList true k tmpl) = true ->
  ~ In w (flat_map struct_reads tmpl) ->
  exists items', fst (update f st' w item (VList true k tmpl) (IList m1 m2 items) cnt) = IList m1 m2 items' /\
    forall key, In key (map fst items) -> In key (get_list st' k) ->
      exists is is', find_item key items = Some is /\ find_item key items' = Some is'
        /\ map iskel is' = map iskel is
        /\ map dshape (flat_map dom_of is') = map dshape (flat_map dom_of is)
        /\ dom_ids (flat_map dom_of is') = dom_ids (flat_map dom_of is)
        /\ tops (flat_map dom_of is') = tops (flat_map dom_of is).
Proof. exact keyed_retained. Qed.

Theorem C06c_indexed_retained : forall f st st' w item k tmpl m1 m2 items cnt,
  agree_except w st st' -> faithful f st item (VList false k tmpl) (IList m1 m2 items) -> keys_ok st' (VList false k tmpl) = true ->
  ~ In w (flat_map struct_reads tmpl) ->
  exists items', fst (update f st' w item (VList false k tmpl) (IList m1 m2 items) cnt) = IList m1 m2 items' /\
    forall j val is, nth_error items j = Some (val, is) -> nth_error (get_list st' k) j = Some val ->
      exists is', nth_error items' j = Some (val, is')
        /\ map iskel is' = map iskel is
        /\ map dshape (flat_map dom_of is') = map dshape (flat_map dom_of is)
        /\ dom_ids (flat_map dom_of is') = dom_ids (flat_map dom_of is)
        /\ tops (flat_map dom_of is') = tops (flat_map dom_of is).
Proof. exact indexed_retained. Qed.

Print Assumptions C06c_keyed_retained.
Print Assumptions C06c_indexed_retained.

(* ---- (L3) ---- *)
Definition ex_view : view := VFrag [VText "a"; VList true 0 [VEl "li" [] [VItem]; VText ","]; VEl "hr" [] []].
Definition ex_st : vstate := VState [] [] [(0, [1; 2; 3]%Z)].
Definition ex_w : cwrite := (CL 0, (None, false, [3; 1; 4]%Z)).
Definition ex_old : list (Z * list inst) :=
  [(1%Z, [IEl 3 "li" [] [IText 4 "1"]; IText 5 ","]); (2%Z, [IEl 6 "li" [] [IText 7 "2"]; IText 8 ","]);
   (3%Z, [IEl 9 "li" [] [IText 10 "3"]; IText 11 ","])].
Definition ex_new : list (Z * list inst) :=
  [(3%Z, [IEl 9 "li" [] [IText 10 "3"]; IText 11 ","]); (1%Z, [IEl 3 "li" [] [IText 4 "1"]; IText 5 ","]);
   (4%Z, [IEl 13 "li" [] [IText 14 "4"]; IText 15 ","])].

(* the mount point holds: text 0, the list (markers 1 and 2), element 12 *)
Example ex_instances :
  create client_fuel ex_st None ex_view 0 = (IGroup [IText 0 "a"; IList 1 2 ex_old; IEl 12 "hr" [] []], 13)
  /\ update client_fuel (apply_write ex_st ex_w) (CL 0) None ex_view (IGroup [IText 0 "a"; IList 1 2 ex_old; IEl 12 "hr" [] []]) 13
     = (IGroup [IText 0 "a"; IList 1 2 ex_new; IEl 12 "hr" [] []], 16)
  /\ update client_fuel (apply_write ex_st ex_w) (CL 0) None (VList true 0 [VEl "li" [] [VItem]; VText ","]) (IList 1 2 ex_old) 13
     = (IList 1 2 ex_new, 16).
Proof. vm_compute. repeat split; reflexivity. Qed.

(* the hypotheses of C06c_list_reconcile_in_parent hold for it *)
Example ex_hypotheses :
  keys_ok (apply_write ex_st ex_w) (VList true 0 [VEl "li" [] [VItem]; VText ","]) = true
  /\ ids_wf (IGroup ([IText 0 "a"] ++ [IList 1 2 ex_old] ++ [IEl 12 "hr" [] []])) 13.
Proof.
  split; [vm_compute; reflexivity|].
  exact (create_wf client_fuel ex_st None ex_view 0 _ _ (proj1 ex_instances)).
Qed.

(* and this is what the routine does with the parent's child list *)
Example ex_reconcile :
  let a0 := tops (items_dom ex_old) in
  let b0 := tops (items_dom ex_new) in
  a0 = [3; 5; 6; 8; 9; 11] /\ b0 = [9; 11; 3; 5; 13; 15]
  /\ tops (flat_map dom_of [IText 0 "a"; IList 1 2 ex_old; IEl 12 "hr" [] []]) = [0; 1; 3; 5; 6; 8; 9; 11; 2; 12]
  /\ tops (flat_map dom_of [IText 0 "a"; IList 1 2 ex_new; IEl 12 "hr" [] []]) = [0; 1; 9; 11; 3; 5; 13; 15; 2; 12]
  /\ reconcile [0; 1; 3; 5; 6; 8; 9; 11; 2; 12] (a0 ++ [2]) (b0 ++ [2])
     = ROk [0; 1; 9; 11; 3; 5; 13; 15; 2; 12] [15; 13; 5; 3; 8; 6; 11; 5; 9; 3].
Proof. vm_compute. repeat split; reflexivity. Qed.

(* the empty cases go through the same call *)
Example ex_reconcile_empty :
  reconcile [0; 1; 2; 12] ([] ++ [2]) ([9; 11] ++ [2]) = ROk [0; 1; 9; 11; 2; 12] [11; 9]
  /\ reconcile [0; 1; 9; 11; 2; 12] ([9; 11] ++ [2]) ([] ++ [2]) = ROk [0; 1; 2; 12] [11; 9].
Proof. vm_compute. split; reflexivity. Qed.
