(* Props/C14.v -- property C14: async tasks are cancelled with their scope and release what they hold
   (on the transition system Async/Suspense.v with fx = true, the code after the fix of F5) *)
From Coq Require Import List Arith Bool.
From Syc Require Import Async.Suspense Async.SuspenseFacts Async.CounterFacts.
Import ListNotations.

(* a future spawned in a scope is never polled after that scope (or an enclosing one) is disposed:
   for every state, every disposal, every pending task under it and every continuation of the schedule *)
Theorem C14_no_poll_after_dispose : forall fx st id ti ss,
  mem id (alive st) = true -> NoDup (map t_id (tasks st)) -> In ti (tasks st) ->
  status st (t_id ti) = Some Pending ->
  in_subtree (S (length (scopes st))) st id (t_owner ti) = true ->
  status (fst (step fx st (DisposeS id))) (t_id ti) = Some Cancelled /\
  existsb (mentions (t_id ti)) (trace fx (fst (step fx st (DisposeS id))) ss) = false.
Proof. intros. split; [apply dispose_cancels|apply no_poll_after_dispose]; assumption. Qed.

(* a finished or cancelled task is never polled again *)
Theorem C14_never_polled_again : forall fx ss st t x,
  status st t = Some x -> x <> Pending -> existsb (mentions t) (trace fx st ss) = false.
Proof. exact never_polled_again. Qed.

(* no schedule of task steps and disposals panics: not at disposal, not when the cancelled task and its guard are
   dropped, not at the final disposal of the root *)
Theorem C14_no_panic : forall ss st, ~ In EvPanic (trace true st ss).
Proof. exact no_panic. Qed.

(* counters of surviving boundaries are released: after a disposal the counter of every boundary whose counter is
   alive equals the number of tasks still pending under it *)
Theorem C14_counters_released : forall fx st id s,
  CInv st -> NoDup (map t_id (tasks st)) ->
  let st' := fst (step fx st (DisposeS id)) in
  is_sus_scope st' s = true -> counter_alive st' s = true -> counter st' s = guards st' s.
Proof. exact counters_released. Qed.

(* and the invariant it rests on holds in every reachable state *)
Theorem C14_counter_invariant_reachable : forall fx p ss,
  NoDup (map t_id (tasks (fst (init p)))) -> CInv (run_state fx (fst (init p)) ss).
Proof. intros fx p ss Hnd. apply cinv_run; [apply cinv_init; exact Hnd|exact Hnd]. Qed.

(* after the disposal of the root nothing is loading any more, whatever was pending: the flag the blocking render (and a
   render that re-uses the root) looks at is false in the state the final disposal leaves *)
Theorem C14_nothing_loading_after_root_disposal : forall fx st, global_loading (fst (step_end fx st)) = false.
Proof. exact global_idle_after_end. Qed.
