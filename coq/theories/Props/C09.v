(* Props/C09.v -- property C09 "Hydration adopts the server DOM and leaves it reactive": the static agreement between
   the server walk (Ssr/View.v [build]) and the client walk (Dom/Client.v [create]) that hydration relies on.
   (1) Visible tree: for every view without NoSsr and every state, what the server renders (hydration keys, marker
       comments and the comment pair around dynamic text dropped; attributes as the DOM holds them) is what a client
       render builds (markers and identities dropped). No other hypothesis.
   (2) Keys: the n-th element the client creates outside NoHydrate is the server element stamped with key (0, n), and the
       server's final counter is the number of such elements: every stamped element is requested exactly once.
       Hypothesis [adoptable]: no NoSsr, void elements without children (the real renderer asserts it), no element under
       a Show that is off (finding F10: hydration fails there) -- each shown necessary by a witness below.
   (3) After any sequence of writes the client DOM shows what a server render of the current state would show
       (with C05: the hydrated view reacts like a client-rendered one).
   Not covered here: the adoption walk of HydrateNode itself (marker search, text splicing), which has no Gallina model. *)
From Coq Require Import List String Ascii Bool Arith ZArith.
From Syc Require Import Common.Show Ssr.Html Ssr.View Ssr.KeysFacts Dom.Client Dom.ClientFacts Dom.ServerClient.
Import ListNotations.
Open Scope string_scope.
Open Scope list_scope.

Definition demo9_view : view :=
  VFrag [
    VEl "div" [AStr "class" "c"; ADyn "title" 0; ADyn "lang" 1; ABool "hidden" false; ABool "open" true; ABoolDyn "disabled" 1]
        [VText "hello"; VDynText 1; VEl "br" [] []];
    VDyn 0 [VEl "p" [] [VDynText 0]] [VText "off"];
    VShow 1 [VEl "span" [] [VText "shown"; VDyn 0 [VText "t"] [VEl "b" [] []]]];
    VShow 2 [VText "hidden text"];
    VList true 0 [VEl "li" [] [VItem; VDynText 0]];
    VList false 1 [VItem; VShow 0 [VText "!"]];
    VComp [VText "comp"];
    VNoHydrate [VEl "i" [] [VDynText 0]]
  ].
Definition demo9_st : vstate :=
  VState [(0, Some "a"); (1, None)] [(0, true); (1, true)] [(0, [1; 2; 3]%Z); (1, [7; 8]%Z)].

(* ---- (1) ---- *)
Theorem C09_visible_tree : forall st v, no_nossr v = true ->
  vis_server (fst (build st build_fuel true 0 None v 0)) = vis_client (dom_of (fst (create client_fuel st None v 0))).
Proof. exact server_client_vis. Qed.

Print Assumptions C09_visible_tree.

Example demo9_visible :
  no_nossr demo9_view = true
  /\ vis_server (fst (build demo9_st build_fuel true 0 None demo9_view 0))
     = [NEl "div" [("class", "c"); ("title", "a"); ("open", ""); ("disabled", "")] [NText "hello"; NText ""; NEl "br" [] []];
        NEl "p" [] [NText "a"]; NEl "span" [] [NText "shown"; NText "t"];
        NEl "li" [] [NText "1"; NText "a"]; NEl "li" [] [NText "2"; NText "a"]; NEl "li" [] [NText "3"; NText "a"];
        NText "7"; NText "!"; NText "8"; NText "!"; NText "comp"; NEl "i" [] [NText "a"]].
Proof. vm_compute. split; reflexivity. Qed.

(* NoSsr has to be excluded: the server renders a placeholder element, the client the children *)
Example C09_nossr_refuted :
  let v := VNoSsr [VText "x"] in
  vis_server (fst (build demo9_st build_fuel true 0 None v 0)) = [NEl "no-ssr" [] []]
  /\ vis_client (dom_of (fst (create client_fuel demo9_st None v 0))) = [NText "x"].
Proof. vm_compute. split; reflexivity. Qed.

(* ---- (2) ---- *)
Theorem C09_keys : forall st v, adoptable build_fuel st true None v = true ->
  hk_elsl (fst (build st build_fuel true 0 None v 0))
  = number 0 0 (hyd_tags client_fuel st v (fst (create client_fuel st None v 0)))
  /\ snd (build st build_fuel true 0 None v 0)
     = List.length (hyd_tags client_fuel st v (fst (create client_fuel st None v 0))).
Proof. exact server_client_keys. Qed.

Print Assumptions C09_keys.

Example demo9_keys :
  adoptable build_fuel demo9_st true None demo9_view = true
  /\ hk_elsl (fst (build demo9_st build_fuel true 0 None demo9_view 0))
     = [(0, 0, "div"); (0, 1, "br"); (0, 2, "p"); (0, 3, "span"); (0, 4, "li"); (0, 5, "li"); (0, 6, "li")]
  /\ hyd_tags client_fuel demo9_st demo9_view (fst (create client_fuel demo9_st None demo9_view 0))
     = ["div"; "br"; "p"; "span"; "li"; "li"; "li"].
Proof. vm_compute. repeat split; reflexivity. Qed.

(* a Show that is off over an element: the server counts the element and drops it, the client creates it (F10) *)
Example C09_show_off_refuted :
  let v := VFrag [VShow 0 [VEl "p" [] []]; VEl "div" [] []] in
  let st := VState [] [(0, false)] [] in
  adoptable build_fuel st true None v = false
  /\ hk_elsl (fst (build st build_fuel true 0 None v 0)) = [(0, 1, "div")]
  /\ hyd_tags client_fuel st v (fst (create client_fuel st None v 0)) = ["p"; "div"].
Proof. vm_compute. repeat split; reflexivity. Qed.

(* a void element with children: the server model stamps the children (the real renderer panics), the client has none *)
Example C09_void_children_refuted :
  let v := VFrag [VEl "br" [] [VEl "p" [] []]; VEl "div" [] []] in
  let st := VState [] [] [] in
  adoptable build_fuel st true None v = false
  /\ hk_elsl (fst (build st build_fuel true 0 None v 0)) = [(0, 0, "br"); (0, 1, "p"); (0, 2, "div")]
  /\ hyd_tags client_fuel st v (fst (create client_fuel st None v 0)) = ["br"; "div"].
Proof. vm_compute. repeat split; reflexivity. Qed.

(* ---- (3) ---- *)
Theorem C09_updates_agree : forall st v ws, no_nossr v = true ->
  vis_client (last (run_client st v ws) [])
  = vis_server (fst (build (fold_left apply_write ws st) build_fuel true 0 None v 0)).
Proof. exact server_client_after_writes. Qed.

Print Assumptions C09_updates_agree.
