(* Props/C17.v -- property C17: route matching is sound, lazy and total.
   This file contains only the property theorems, each closed by [exact], pinned by [Check]. *)
From Coq Require Import List String Ascii.
From Syc Require Import Router.Match Router.MatchFacts Router.UrlFacts.
Import ListNotations.

(* matching succeeds exactly when the path fits the pattern, with exactly those captures *)
Theorem C17_match_iff_fits : forall p path c,
  wf p = true -> (match_path p path = MSome c <-> fits p (strip_last path) c).
Proof. exact match_iff_fits. Qed.

(* total: no panic for well-formed patterns *)
Theorem C17_match_total : forall p path, wf p = true -> match_path p path <> MPanic.
Proof. exact (match_total true). Qed.

(* one capture per dynamic segment, of the matching kind *)
Theorem C17_captures_count : forall p path c,
  wf p = true -> match_path p path = MSome c ->
  kinds_ok (dyn_segs p) c = true /\ List.length c = List.length (dyn_segs p).
Proof. exact captures_count. Qed.

(* the captures reproduce the (query/fragment-stripped) path *)
Theorem C17_captures_reproduce : forall p path c,
  wf p = true -> match_path p path = MSome c -> subst p c = Some (strip_last path).
Proof. exact captures_reproduce. Qed.

(* lazy: a <p..> capture never contains its static terminator *)
Theorem C17_dyn_segments_lazy : forall t p q run c,
  wf (DynSegments :: Param t :: p) = true ->
  match_path (DynSegments :: Param t :: p) q = MSome (CSegs run :: c) -> ~ In t run.
Proof. exact dyn_segments_lazy. Qed.

(* the derived enum never panics ... *)
Theorem C17_route_enum_total : forall e url,
  forallb variant_ok e = true -> match_route e url <> EPanic.
Proof. exact route_enum_total. Qed.

(* ... and returns the first variant that fits and whose captures parse, else not_found *)
Theorem C17_route_enum_first_match : forall i vs segs,
  forallb variant_ok vs = true ->
  match match_route_from true i vs segs with
  | EPanic => False
  | ENotFound => forall k v vals, nth_error vs k = Some v -> ~ variant_hits v segs vals
  | EVariant j vals =>
      exists k v, j = i + k /\ nth_error vs k = Some v /\ variant_hits v segs vals /\
        forall k' v' vals', k' < k -> nth_error vs k' = Some v' -> ~ variant_hits v' segs vals'
  end.
Proof. exact match_route_from_spec. Qed.

(* the code as pinned (before the fix: commit) violated the property *)
Theorem C17_pinned_refuted :
  wf refute_pat = true /\ match_path_pinned refute_pat refute_path = MSome [] /\
  ~ (exists c, fits refute_pat (strip_last refute_path) c).
Proof. exact pinned_refuted. Qed.

(* "ignoring query and fragment", for URL strings: whatever follows the first '?' or '#' -- '/' included -- has no influence on
   what the derived enum returns *)
Theorem C17_query_ignored : forall e path rest,
  has_char "?"%char path = false -> has_char "#"%char path = false ->
  match_route e (path ++ String "?"%char rest)%string = match_route e path.
Proof. intros e. exact (query_ignored true e). Qed.

Theorem C17_fragment_ignored : forall e path rest,
  has_char "?"%char path = false -> has_char "#"%char path = false ->
  match_route e (path ++ String "#"%char rest)%string = match_route e path.
Proof. intros e. exact (fragment_ignored true e). Qed.

Example C17_query_with_slash :
  let e := [{| vpat := [Param "login"%string]; vfields := [] |}; {| vpat := [Param "home"%string]; vfields := [] |}] in
  match_route e "/login?next=/home"%string = EVariant 0 [] /\ match_route e "/#top"%string = ENotFound
  /\ match_route [{| vpat := []; vfields := [] |}] "/#top"%string = EVariant 0 [].
Proof. vm_compute. repeat split. Qed.
