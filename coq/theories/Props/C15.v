(* Props/C15.v -- property C15: a resource holds the result of the latest fetch only (on Async/Resource.v) *)
From Coq Require Import List ZArith Bool Arith.
From Syc Require Import Async.Resource Async.ResourceFacts.
Import ListNotations.

Theorem C15_loading_iff_latest_outstanding : forall es,
  exists older d, r_fetches (rrun es) = older ++ [(d, r_loading (rrun es))] /\ Forall (fun p => snd p = false) older.
Proof. exact loading_iff_latest_outstanding. Qed.

Theorem C15_stale_completion_ignored : forall es k older d b,
  r_fetches (rrun es) = older ++ [(d, b)] -> k <> length older -> rstep_fn (rrun es) (RComplete k) = rrun es.
Proof. exact stale_completion_ignored. Qed.

Theorem C15_latest_completion_wins : forall es older d,
  r_fetches (rrun es) = older ++ [(d, true)] ->
  let s' := rstep_fn (rrun es) (RComplete (length older)) in r_value s' = Some d /\ r_loading s' = false.
Proof. exact latest_completion_wins. Qed.

Theorem C15_old_value_readable : forall es v,
  r_value (rstep_fn (rrun es) (RWrite v)) = r_value (rrun es) /\ r_loading (rstep_fn (rrun es) (RWrite v)) = true.
Proof. exact old_value_readable. Qed.

Theorem C15_value_is_some_fetch : forall es v, r_value (rrun es) = Some v -> In v (map fst (r_fetches (rrun es))).
Proof. exact value_is_some_fetch. Qed.

(* an effect that feeds the value back into the dependency (behind a selector) only adds dependency writes: every history with
   such a feedback edge is a plain history of writes and completions, so the theorems above cover it *)
Theorem C15_feedback_is_plain : forall es, exists es', fold_left rstep_fb es rinit = rrun es'.
Proof. intros es. exact (fb_is_plain es rinit). Qed.

(* a fetch that writes the dependency itself in its last poll, before returning, is superseded before it can deliver: such a
   history is the plain history in which that completion is replaced by the dependency write, so the theorems above cover it
   (in particular the superseded fetch never installs its value and is_loading stays true) *)
Theorem C15_self_write_is_plain : forall es, exists es', fold_left rstep_self es rinit = rrun es'.
Proof. intros es. exact (self_is_plain es rinit). Qed.

Example C15_self_write_example :
  let s := fold_left rstep_self [RWrite 7; RComplete 1]%Z rinit in
  r_value s = None /\ r_loading s = true /\ List.length (r_fetches s) = 3.
Proof. vm_compute. repeat split. Qed.
