(* Props/C05.v -- property C05 "Client view equals a fresh render of the current state, updated in place", on the
   instance-tree model of the client back end (Dom/Client.v, compared with the real DomNode code on every run).
   All statements are for every view (any nesting), every state, every sequence of writes; no bound.

   T1 "equals a fresh render" (Dom/ClientFacts.v): after every write of every run the DOM equals, identities erased,
      the DOM of a fresh render in the state reached. Needs no hypothesis (neither on the fuel nor on duplicate keys).
   T2 "updated in place" (Dom/ClientIds.v, Dom/ClientStable.v):
      (a) identities are fresh: a step only keeps identities of the previous instance or takes new ones from the counter;
      (b) the identities of the DOM are pairwise distinct after every step, provided the Keyed lists of the view have no
          duplicate key in the states reached by a write (needed: C05_duplicate_keys_refuted);
      (c) a write that no dynamic view / Show / list of the view reads -- in particular every string write (dynamic text,
          dynamic attribute) -- changes no identity: same nodes at the same places; in general the nodes listed by
          [stable] survive, in order. *)
From Coq Require Import List String Ascii Bool Arith ZArith.
From Syc Require Import Common.Show Ssr.Html Ssr.View Dom.Client Dom.ClientFacts Dom.ClientIds Dom.ClientStable.
Import ListNotations.
Open Scope string_scope.
Open Scope list_scope.

(* ---- a view with every constructor, and a run that writes every kind of signal ---- *)
Definition demo_view : view :=
  VFrag [
    VEl "div" [AStr "class" "c"; ADyn "title" 0; ABool "hidden" false; ABool "open" true; ABoolDyn "disabled" 1]
        [VText "hello"; VDynText 1; VEl "br" [] []];
    VDyn 0 [VEl "p" [] [VDynText 0]] [VText "off"];
    VShow 1 [VEl "span" [] [VText "shown"; VDyn 0 [VText "t"] [VEl "b" [] []]]];
    VList true 0 [VEl "li" [] [VItem; VDynText 0]];
    VList false 1 [VItem; VShow 0 [VText "!"]];
    VComp [VText "comp"];
    VNoHydrate [VEl "i" [] []];
    VNoSsr [VText "client only"]
  ].
Definition demo_st : vstate :=
  VState [(0, Some "a"); (1, None)] [(0, true); (1, true)] [(0, [1; 2; 3]%Z); (1, [7; 8]%Z)].
Definition demo_ws : list cwrite :=
  [ (CS 0, (Some "b", false, []));          (* dynamic text / attribute *)
    (CB 0, (None, false, []));              (* dynamic view, Show inside list items *)
    (CB 1, (None, false, []));              (* Show off, boolean attribute *)
    (CL 0, (None, false, [3; 1; 4]%Z));     (* Keyed: reorder, remove, insert *)
    (CL 1, (None, false, [7; 9; 8]%Z));     (* Indexed: insert in the middle *)
    (CS 1, (Some "x", false, []));
    (CB 1, (None, true, []));               (* Show on again *)
    (CS 7, (Some "unread", false, [])) ].   (* a signal nothing reads *)

(* ================================================================================================ *)
(* T1 *)

(* a fresh render is a faithful instance *)
Theorem C05_create_faithful : forall f st item v cnt, faithful f st item v (fst (create f st item v cnt)).
Proof. exact create_faithful. Qed.

(* the frame condition of one write, and what [update] does with a faithful instance *)
Theorem C05_write_frame : forall st w, agree_except (fst w) st (apply_write st w).
Proof. exact apply_write_agree. Qed.

Theorem C05_update_faithful : forall f st st' w item v i cnt,
  agree_except w st st' -> faithful f st item v i -> faithful f st' item v (fst (update f st' w item v i cnt)).
Proof. exact update_faithful. Qed.

(* faithful instances of the same view and state have the same DOM up to identities *)
Theorem C05_faithful_dom : forall f st item v i, faithful f st item v i ->
  forall cnt, map erase (dom_of i) = map erase (dom_of (fst (create f st item v cnt))).
Proof. exact faithful_dom. Qed.

Theorem C05_fresh_render_last : forall st v ws,
  map erase (last (run_client st v ws) [])
  = map erase (dom_of (fst (create client_fuel (fold_left apply_write ws st) None v 0))).
Proof. exact run_client_last_fresh. Qed.

Theorem C05_fresh_render_every_step : forall st v ws n, n <= List.length ws ->
  map erase (nth n (run_client st v ws) [])
  = map erase (dom_of (fst (create client_fuel (fold_left apply_write (firstn n ws) st) None v 0))).
Proof. exact run_client_nth_fresh. Qed.

Theorem C05_run_length : forall st v ws, List.length (run_client st v ws) = S (List.length ws).
Proof. exact run_client_length. Qed.

Print Assumptions C05_update_faithful.
Print Assumptions C05_fresh_render_last.
Print Assumptions C05_fresh_render_every_step.

(* non-vacuity: the demo run has nine outputs with six different identity lists, and the faithfulness hypotheses are met at each step *)
Example demo_run_outputs :
  List.length (run_client demo_st demo_view demo_ws) = 9
  /\ List.length (nodup (list_eq_dec Nat.eq_dec) (map dom_ids (run_client demo_st demo_view demo_ws))) = 6
  /\ map (fun d => List.length (dom_ids d)) (run_client demo_st demo_view demo_ws) = [39; 39; 36; 31; 31; 34; 34; 39; 39].
Proof. vm_compute. repeat split; reflexivity. Qed.

Example demo_step_faithful :
  let i0 := fst (create client_fuel demo_st None demo_view 0) in
  let w := (CB 0, (None, false, @nil Z)) in
  ierase i0 = pcreate client_fuel demo_st None demo_view
  /\ ierase (fst (update client_fuel (apply_write demo_st w) (CB 0) None demo_view i0 39))
     = pcreate client_fuel (apply_write demo_st w) None demo_view
  /\ pcreate client_fuel (apply_write demo_st w) None demo_view <> pcreate client_fuel demo_st None demo_view.
Proof. vm_compute. repeat split; try reflexivity. discriminate. Qed.

(* ================================================================================================ *)
(* T2 (a), (b) *)

Theorem C05_create_ids : forall f st item v cnt i c',
  create f st item v cnt = (i, c') -> cnt <= c' /\ NoDup (inst_ids i) /\ Forall (fun x => cnt <= x < c') (inst_ids i).
Proof. intros f st item v cnt i c' H. destruct (create_ids f st item v cnt i c' H) as [L [Hn Hf]]. repeat split; assumption. Qed.

Theorem C05_update_ids : forall f st w item v i cnt i' c',
  keys_ok st v = true -> NoDup (inst_ids i) -> Forall (fun x => x < cnt) (inst_ids i) ->
  update f st w item v i cnt = (i', c') ->
  cnt <= c' /\ NoDup (inst_ids i') /\ Forall (fun x => In x (inst_ids i) \/ cnt <= x < c') (inst_ids i').
Proof.
  intros f st w item v i cnt i' c' HQ Hn Hlt H. destruct (update_ids f st w item v i cnt i' c' HQ Hn Hlt H) as [L [Hn' Hf]].
  repeat split; assumption.
Qed.

Theorem C05_dom_ids_of_instance : forall i, subseq (dom_ids (dom_of i)) (inst_ids i).
Proof. exact dom_ids_subseq. Qed.

Theorem C05_run_ids : forall st v ws, Forall (fun s => keys_ok s v = true) (tl (states st ws)) ->
  Forall (fun t => ids_wf (snd (fst t)) (snd t)) (trace st v ws) /\ chain id_step (trace st v ws).
Proof. exact trace_ids. Qed.

Theorem C05_run_dom_nodup : forall st v ws, Forall (fun s => keys_ok s v = true) (tl (states st ws)) ->
  Forall (fun d => NoDup (dom_ids d)) (run_client st v ws).
Proof. exact run_client_nodup. Qed.

Print Assumptions C05_update_ids.
Print Assumptions C05_run_ids.
Print Assumptions C05_run_dom_nodup.

Example demo_keys_ok : Forall (fun s => keys_ok s demo_view = true) (tl (states demo_st demo_ws)).
Proof. apply Forall_forall. apply forallb_forall. vm_compute. reflexivity. Qed.

(* without the hypothesis: a duplicate key makes the model reuse the nodes of the first match twice *)
Example C05_duplicate_keys_refuted :
  map dom_ids (run_client dup_st dup_view dup_ws) = [[0; 2; 3; 1]; [0; 2; 3; 2; 3; 1]]
  /\ keys_ok (apply_write dup_st (CL 0, (None, false, [1%Z; 1%Z]))) dup_view = false.
Proof. exact dup_keys_refuted. Qed.

(* ================================================================================================ *)
(* T2 (c) *)

Theorem C05_nonstructural_update : forall f st st' w item v i cnt,
  agree_except w st st' -> faithful f st item v i -> keys_ok st' v = true -> ~ In w (struct_reads v) ->
  iskel (fst (update f st' w item v i cnt)) = iskel i /\ snd (update f st' w item v i cnt) = cnt.
Proof. exact update_nonstruct. Qed.

Theorem C05_nonstructural_write : forall st v ws w,
  keys_ok (apply_write (fst (fst (tlast (trace st v ws)))) w) v = true -> nonstruct (fst w) v = true ->
  map dshape (last (run_client st v (ws ++ [w])) []) = map dshape (last (run_client st v ws) [])
  /\ map dnode_ids (last (run_client st v (ws ++ [w])) []) = map dnode_ids (last (run_client st v ws) []).
Proof. exact last_write_nonstruct. Qed.

Theorem C05_string_write_is_nonstructural : forall k v, nonstruct (CS k) v = true.
Proof. exact nonstruct_CS. Qed.

Theorem C05_stable_nodes_survive : forall st v ws w,
  let t := tlast (trace st v ws) in
  subseq (stable client_fuel (apply_write (fst (fst t)) w) (fst w) v (snd (fst t))) (dom_ids (last (run_client st v (ws ++ [w])) []))
  /\ incl (stable client_fuel (apply_write (fst (fst t)) w) (fst w) v (snd (fst t))) (dom_ids (last (run_client st v ws) [])).
Proof. exact last_write_stable. Qed.

Print Assumptions C05_nonstructural_write.
Print Assumptions C05_stable_nodes_survive.

(* non-vacuity: the first and last writes of the demo run are non-structural and meet the key hypothesis;
   for the write of boolean 0 the stable nodes are 34 of the 39 nodes (the five under the regions that read it go) *)
Example demo_nonstructural :
  nonstruct (CS 0) demo_view = true
  /\ keys_ok (apply_write (fst (fst (tlast (trace demo_st demo_view [])))) (CS 0, (Some "b", false, [])) ) demo_view = true
  /\ map (fun w => nonstruct (fst w) demo_view) demo_ws = [true; false; false; false; false; true; false; true].
Proof. vm_compute. repeat split; reflexivity. Qed.

Example demo_stable :
  let t := tlast (trace demo_st demo_view []) in
  let w := (CB 0, (None, false, @nil Z)) in
  stable client_fuel (apply_write (fst (fst t)) w) (fst w) demo_view (snd (fst t))
  = [0; 1; 2; 3; 4; 5; 8; 10; 11; 12; 13; 9; 15; 17; 18; 19; 20; 21; 22; 23; 24; 25; 16; 26; 28; 29; 30; 32; 33; 34; 27; 36; 37; 38]
  /\ dom_ids (last (run_client demo_st demo_view [w]) [])
  = [0; 1; 2; 3; 4; 39; 5; 8; 10; 11; 12; 40; 13; 9; 15; 17; 18; 19; 20; 21; 22; 23; 24; 25; 16; 26; 28; 29; 30; 32; 33; 34; 27; 36; 37; 38].
Proof. vm_compute. split; reflexivity. Qed.

(* for a string write every node is stable *)
Example demo_stable_string_write :
  let t := tlast (trace demo_st demo_view []) in
  let w := (CS 0, (Some "b", false, @nil Z)) in
  stable client_fuel (apply_write (fst (fst t)) w) (fst w) demo_view (snd (fst t)) = dom_ids (last (run_client demo_st demo_view []) [])
  /\ List.length (dom_ids (last (run_client demo_st demo_view []) [])) = 39.
Proof. vm_compute. split; reflexivity. Qed.
