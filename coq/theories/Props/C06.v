(* Props/C06.v -- property C06 (the node-diffing routine): BOUNDED theorem, the bound is part of the statement.
   For every duplicate-free old sequence over 5 nodes and every duplicate-free new sequence over those 5 and a new
   node (326 x 1957 pairs), called the way Keyed / Indexed call it (with the end marker appended to both), between
   arbitrary siblings: the children afterwards are pre ++ new ++ post, and every node the routine touches belongs
   to the old or the new sequence. The unbounded theorem is not proved. *)
From Coq Require Import List Arith Bool.
From Syc Require Import Dom.Reconcile Dom.ReconcileFacts.
Import ListNotations.

Theorem C06_reconcile_correct_bounded : all_ok [1; 2; 3; 4; 5] [11] [100] [200] 99 = true.
Proof. exact reconcile_bounded_5. Qed.

Theorem C06_reconcile_correct_bounded_raw : all_ok_raw [1; 2; 3; 4] [11; 12] [100] [200] = true.
Proof. exact reconcile_bounded_raw_4. Qed.
