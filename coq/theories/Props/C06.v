(* Props/C06.v -- property C06 (the node-diffing routine).
   UNBOUNDED theorems (proved in Dom/ReconcileProof.v by a loop invariant, for all old / new node sequences and all
   siblings around the region): whenever the child list before (pre ++ a ++ post) and the demanded child list after
   (pre ++ b ++ post) are duplicate-free and a is non-empty, the routine raises no DOM exception, terminates within its
   fuel, leaves exactly pre ++ b ++ post as children, and touches only nodes of a or b. Keyed / Indexed append the end
   marker to both sequences, which makes a non-empty.
   The earlier bounded theorems (by computation over 5 nodes) are superseded; their file is kept in coq/attic. *)
From Coq Require Import List Arith Bool.
From Syc Require Import Dom.Reconcile Dom.ReconcileProof.
Import ListNotations.

Theorem C06_reconcile_correct : forall pre a b post,
  a <> [] -> NoDup (pre ++ a ++ post) -> NoDup b -> (forall x, In x b -> ~ In x pre /\ ~ In x post) ->
  reconcile_ok pre a b post = true.
Proof. exact reconcile_correct. Qed.

Theorem C06_reconcile_spec : forall pre a b post,
  a <> [] -> NoDup (pre ++ a ++ post) -> NoDup b -> (forall x, In x b -> ~ In x pre /\ ~ In x post) ->
  exists t, reconcile (pre ++ a ++ post) a b = ROk (pre ++ b ++ post) t /\ Forall (fun x => In x a \/ In x b) t.
Proof. exact reconcile_spec. Qed.

(* the call pattern of Keyed / Indexed: the end marker m closes both sequences *)
Theorem C06_reconcile_correct_marker : forall pre a0 b0 m post,
  NoDup (pre ++ (a0 ++ [m]) ++ post) -> NoDup (pre ++ (b0 ++ [m]) ++ post) ->
  reconcile_ok pre (a0 ++ [m]) (b0 ++ [m]) post = true.
Proof. exact reconcile_correct_marker. Qed.

Print Assumptions C06_reconcile_correct.
Print Assumptions C06_reconcile_spec.
Print Assumptions C06_reconcile_correct_marker.
