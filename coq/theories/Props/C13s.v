(* Props/C13s.v -- property C13, for a Resource read under the boundary (Async/ResourceSus.v): after every history of
   dependency writes and fetch completions the boundary reports loading exactly while the resource's latest fetch is
   outstanding (every refetch registers with the boundary again; a superseded or finished fetch releases what it held). *)
From Coq Require Import List ZArith Bool Arith.
From Syc Require Import Async.Resource Async.ResourceFacts Async.ResourceSus Async.ResourceSusFacts.
Import ListNotations.

Theorem C13s_boundary_loading_iff_resource_loading : forall es, sus_loading (srun es) = r_loading (rrun es).
Proof. exact boundary_loading_iff_resource_loading. Qed.

Print Assumptions C13s_boundary_loading_iff_resource_loading.

(* with C15: the boundary is loading iff the most recently started fetch has not completed *)
Theorem C13s_boundary_loading_iff_latest_outstanding : forall es,
  exists older d, r_fetches (rrun es) = older ++ [(d, sus_loading (srun es))] /\ Forall (fun p => snd p = false) older.
Proof. intros es. rewrite boundary_loading_iff_resource_loading. exact (loading_iff_latest_outstanding es). Qed.

Print Assumptions C13s_boundary_loading_iff_latest_outstanding.

(* the bookkeeping really moves: three writes while loading pile up guards, one completion releases them all *)
Example C13s_counters :
  let s := srun [RWrite 1; RWrite 2; RComplete 0; RWrite 3]%Z in (s_counter s, s_guards s, s_scopes s) = (5, 4, 0)
  /\ let s' := srun [RWrite 1; RWrite 2; RComplete 0; RWrite 3; RComplete 3; RWrite 4]%Z in (s_counter s', s_guards s', s_scopes s') = (3, 2, 0).
Proof. vm_compute. split; reflexivity. Qed.
