(* Props/C12.v -- property C12: server renders are deterministic, key-disciplined and isolated.
   Sync renders: the model's render_to_string is a function of (signal values, view) alone -- that the real one is
   too, whatever was rendered before on the thread, is what the correspondence run checks; the theorems are about
   key discipline (Ssr/View.v) and about the reset between renders (Reactive/Interp.v). *)
From stdpp Require Import gmap.
From Coq Require Import List String Arith Sorting.Sorted.
From Syc Require Import Ssr.Html Ssr.View Ssr.KeysFacts Reactive.Syntax Reactive.Interp Reactive.Show.
Import ListNotations.

(* within one build and one suspense scope the keys in the output are strictly increasing in element-creation order,
   carry the scope's suspense number and lie between the counter before and after *)
Theorem C12_keys_in_creation_order : forall st f hyd sus item v cnt ns cnt',
  build st f hyd sus item v cnt = (ns, cnt') ->
  (cnt <= cnt')%nat /\ StronglySorted lt (map snd (keysl ns)) /\
  Forall (fun k => fst k = sus /\ (cnt <= snd k < cnt')%nat) (keysl ns).
Proof.
  intros st f hyd sus item v cnt ns cnt' H.
  destruct (build_keys st f hyd sus item v cnt ns cnt' H) as [L [S F]]. exact (conj L (conj S F)).
Qed.

Theorem C12_keys_unique : forall st v, NoDup (map snd (keysl (fst (build st build_fuel true 0 None v 0)))).
Proof. exact render_keys_unique. Qed.

(* whatever the state of the runtime, reinit leaves exactly one live node (the new root), an empty queue,
   no tracker, no pending batch, and fresh ids: nothing of an earlier render survives *)
Theorem C12_reinit_fresh : forall fx fuel s s',
  reinit fx fuel s = Ok tt s' ->
  nodes s' = nodes init_state /\ size (nodes s') = 1%nat /\ next s' = next init_state /\ tracker s' = None /\
  queue s' = [] /\ batching s' = false /\ current s' = current init_state.
Proof.
  intros fx fuel s s' H. unfold reinit in H.
  destruct (dispose fx fuel 0 s) as [[] s1|e s1]; cbn in H; [|discriminate].
  inversion H; subst; cbn. repeat split; reflexivity.
Qed.
