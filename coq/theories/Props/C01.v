(* Props/C01.v -- property C01: derived state is consistent with signals after every write.
   Proved on the pure-callback propagation model ReactivePure (the loop of propagate_node_updates with
   run_node_update, unlink/link, mark_dependents_dirty); [Inv order s] is what the depth-first pass has to
   establish (topological order closed under dependents, every dirty node scheduled, symmetric edges);
   [LRF] excludes late subscription -- without it the statement is false of the code, see
   C01_late_read_refuted (known finding F1).
   End to end (Props/C01Write.v): [Quiescent] is what holds between writes; the depth-first pass
   establishes [Inv] from it (C01_dfs_establishes_inv), so a whole late-read-free write leads from a quiescent
   state to a quiescent state (C01_write_consistent), for any history of writes (C01_writes_consistent);
   quiescent states are closed under node creation (C01_create_empty, C01_create_signal, C01_create_memo). *)
From stdpp Require Import gmap list.
From Coq Require Import ZArith.
From Syc.ReactivePure Require Import Pure Loop LoopInv Ops Spec Step Extra.
From Syc Require Import Reactive.Syntax Reactive.Interp Reactive.Show Reactive.Witness.

(* at the end of a propagation nothing is dirty, every computation holds what its function yields from the
   current values (selectors: up to their equality) with exactly the dependencies it read, edges symmetric *)
Theorem C01_loop_consistent_partial : forall order (s s' : st) tr,
  Loop.loop order s = Some (s', tr) -> Inv order s -> LRF order tr ->
  (forall n, dirtyOf s' n = false) /\ (forall n, cons s' n) /\
  (forall n m, m ∈ dependentsOf s' n <-> n ∈ depsOf s' m).
Proof. exact loop_consistent. Qed.

(* the invariant is inductive for any remaining order *)
Theorem C01_loop_invariant : forall order (s s' : st) tr,
  Loop.loop order s = Some (s', tr) -> Inv order s -> LRF order tr -> Inv [] s'.
Proof. exact loop_inv. Qed.

(* without the late-read hypothesis the statement fails on the faithful runtime model: known finding F1 *)
Theorem C01_late_read_refuted :
  match exec true 400 root_env f1_prog init_state with
  | Ok _ s => value_of s 1 = Some 1%Z /\ value_of s 2 = Some 2%Z /\ value_of s 3 = Some 0%Z /\ dirty_of s 3 = Some true
  | Err _ _ => False
  end.
Proof. exact f1_stale. Qed.
