(* Props/C13.v -- property C13, first sentence: a suspense boundary reports loading exactly while some task
   registered under it or under an enclosing boundary is unfinished, for every order in which tasks finish
   (on Async/Suspense.v). The rendering half of C13 is stated in Props/C13r.v (re-exported here). *)
From Coq Require Import List Arith Bool.
From Syc Require Import Async.Suspense Async.SuspenseFacts Async.CounterFacts.
From Syc Require Export Props.C13r.   (* the rendering half: blocking / streaming *)
Import ListNotations.

(* in every state reached from a program by any schedule (any order of task steps, any disposals) *)
Theorem C13_is_loading_iff_pending : forall fx p ss fuel s,
  NoDup (map t_id (tasks (fst (init p)))) ->
  let st := run_state fx (fst (init p)) ss in
  (forall b, In b (chain fuel st s) -> is_sus_scope st b = true /\ counter_alive st b = true) ->
  is_loading fuel st s = existsb (fun b => Nat.ltb 0 (guards st b)) (chain fuel st s).
Proof.
  intros fx p ss fuel s Hnd st Hal. apply is_loading_iff; [|exact Hal].
  apply cinv_run; [apply cinv_init; exact Hnd|exact Hnd].
Qed.

(* use_is_loading_global (what the blocking render waits on), in every reachable state: true exactly while some unfinished task
   holds a guard of a boundary whose counter is alive *)
Theorem C13_global_loading_iff : forall fx p ss,
  NoDup (map t_id (tasks (fst (init p)))) ->
  let st := run_state fx (fst (init p)) ss in
  (global_loading st = true <->
   exists s ti, is_sus_scope st s = true /\ counter_alive st s = true /\
                In ti (tasks st) /\ holds s ti = true /\ pendingb st ti = true).
Proof.
  intros fx p ss Hnd st. apply global_loading_iff.
  apply cinv_run; [apply cinv_init; exact Hnd|exact Hnd].
Qed.

(* is_loading looks at the boundary's own counter and at the enclosing boundaries' counters, nothing else *)
Theorem C13_is_loading_chain : forall fuel st s,
  is_loading fuel st s = existsb (fun b => Nat.ltb 0 (counter st b)) (chain fuel st s).
Proof. exact is_loading_chain. Qed.

(* the number of unfinished guards of a boundary changes only by the task that is stepped: a step of task t that
   does not finish it leaves every count unchanged (order independence is a corollary of the invariant: the
   report is a function of the set of unfinished tasks) *)
Theorem C13_report_depends_on_pending_set : forall fuel st st' s,
  CInv st -> CInv st' ->
  chain fuel st s = chain fuel st' s ->
  (forall b, In b (chain fuel st s) -> is_sus_scope st b = true /\ counter_alive st b = true) ->
  (forall b, In b (chain fuel st' s) -> is_sus_scope st' b = true /\ counter_alive st' b = true) ->
  (forall b, In b (chain fuel st s) -> guards st b = guards st' b) ->
  is_loading fuel st s = is_loading fuel st' s.
Proof.
  intros fuel st st' s HI HI' Hc Ha Ha' Hg. rewrite (is_loading_iff fuel st s HI Ha), (is_loading_iff fuel st' s HI' Ha'), <- Hc.
  clear Ha Ha' Hc. induction (chain fuel st s) as [|b l IH]; [reflexivity|]. cbn.
  rewrite (Hg b (or_introl eq_refl)). f_equal. apply IH. intros b' Hb'. apply Hg. right. exact Hb'.
Qed.
