(* Props/C09i.v -- property C09 "Hydration adopts the server DOM and leaves it reactive", LAST SENTENCE:
   "Afterwards the view reacts to updates exactly as a client-rendered one."
   [hydratei] (Dom/HydrateInst.v) is the hydration walk of Dom/Hydrate.v returning also the reactive instance it builds:
   the same view function as a client render, every node taken from where hydrate_node.rs takes it (elements: the server
   node claimed by key; dynamic text, markers: a fresh node; static text: no node of its own; NoHydrate: nothing).
   (1) [C09i_agreement]: its DOM is the DOM of [hydrate], the function that is compared with the real code.
   (2) [C09i_hydrated]: for every hydratable view, every state, fresh identities above the server's:
       (a) the part of the hydrated DOM the view owns (keyed elements, fresh text nodes, fresh `#` comments: identities and
           nesting) IS the DOM of the instance (static text, which has a synthetic identity, dropped);
       (b) when the view is live (no NoHydrate content in the part that is built) the instance is, identities erased, the
           instance of a fresh client render ([faithful]);
       (d) the elements of the instance are pairwise distinct server elements.
   (3) [C09i_reacts]: (c) hence after ANY sequence of writes the hydrated view shows, output by output, what the
       client-rendered view shows: the fresh client render of the state reached.
   (4) [C09i_keeps]: (d) which adopted nodes a write keeps.
   NoHydrate content is inert on the client ([C09i_nohydrate_inert]): the restriction [live] is necessary. *)
From Coq Require Import List String Ascii Bool Arith ZArith.
From Syc Require Import Common.Show Ssr.Html Ssr.View Dom.Client Dom.ClientFacts Dom.ClientIds Dom.ClientStable.
From Syc Require Import Dom.Hydrate Dom.HydrateSpec Dom.HydrateFacts Dom.HydrateForest Dom.HydrateInst Dom.HydrateInstFacts
  Dom.HydrateOwn Dom.HydrateOwnWalk Dom.HydrateIds Dom.HydrateReact Props.C09h.
Import ListNotations.
Open Scope string_scope.
Open Scope list_scope.

(* ---- (1) ---- *)
Theorem C09i_agreement : forall vst v server fresh sbase,
  hydrate vst v server fresh
  = match hydratei vst v server fresh sbase with HOk (d, _, _) => HOk d | HErr e => HErr e end.
Proof. exact hydratei_hydrate. Qed.

Print Assumptions C09i_agreement.

(* the walk itself: kinds, state and counters are those of [hyd], for every view, state and fuel *)
Theorem C09i_agreement_walk : forall f vst item v st sn, hyd f vst item v st = proj_h (hydi f vst item v st sn).
Proof. exact hydi_hyd. Qed.

Print Assumptions C09i_agreement_walk.

(* ---- (2) ---- *)
(* [sbase]: where the synthetic identities of static text start; [hyd_next]: the first identity hydration does not use
   (computable from [hyd]); (a) needs the two ranges apart. [c]: what a later [update] allocates from. *)
Theorem C09i_hydrated : forall vst v fresh sbase,
  hydratable vst v = true -> above fresh (server_dom vst v) ->
  exists d i c,
    hydratei vst v (server_dom vst v) fresh sbase = HOk (d, i, c)
    /\ hydrate vst v (server_dom vst v) fresh = HOk d
    /\ fresh <= hyd_next vst v (server_dom vst v) fresh <= c /\ sbase <= c
    /\ NoDup (iel_ids i) /\ Forall (fun e => In e (elids (server_dom vst v))) (iel_ids i)                       (* (d) *)
    /\ (hyd_next vst v (server_dom vst v) fresh <= sbase -> owns fresh d = flat_map (down sbase) (dom_of i))     (* (a) *)
    /\ (live vst v = true -> faithful client_fuel vst None v i).                                                (* (b) *)
Proof. exact hydratei_ok. Qed.

Print Assumptions C09i_hydrated.

(* ---- (3) ---- *)
Theorem C09i_reacts : forall vst v fresh sbase,
  hydratable vst v = true -> live vst v = true -> above fresh (server_dom vst v) ->
  exists d i c,
    hydratei vst v (server_dom vst v) fresh sbase = HOk (d, i, c)
    /\ hydrate vst v (server_dom vst v) fresh = HOk d
    /\ ierase i = ierase (fst (create client_fuel vst None v 0))
    /\ forall ws,
         map (map erase) (run_from vst v i c ws) = map (map erase) (run_client vst v ws)
         /\ map erase (last (run_from vst v i c ws) [])
            = map erase (dom_of (fst (create client_fuel (fold_left apply_write ws vst) None v 0)))
         /\ forall n, n <= List.length ws ->
              map erase (nth n (run_from vst v i c ws) [])
              = map erase (dom_of (fst (create client_fuel (fold_left apply_write (firstn n ws) vst) None v 0))).
Proof. exact hydratei_reacts. Qed.

Print Assumptions C09i_reacts.

(* the same for ANY instance that is faithful, from any counter: what (3) rests on *)
Theorem C09i_run_from : forall st v i0 c0 ws, faithful client_fuel st None v i0 ->
  map (map erase) (run_from st v i0 c0 ws) = map (map erase) (run_client st v ws).
Proof. exact run_from_client. Qed.

Print Assumptions C09i_run_from.

(* ---- (4) ---- *)
Theorem C09i_keeps : forall vst v fresh sbase,
  hydratable vst v = true -> above fresh (server_dom vst v) ->
  exists d i c,
    hydratei vst v (server_dom vst v) fresh sbase = HOk (d, i, c)
    /\ NoDup (iel_ids i) /\ Forall (fun e => In e (elids (server_dom vst v)) /\ e < fresh) (iel_ids i)
    /\ (forall st' w c',
          subseq (stable client_fuel st' w v i) (dom_ids (dom_of (fst (update client_fuel st' w None v i c'))))
          /\ incl (stable client_fuel st' w v i) (dom_ids (dom_of i)))
    /\ (live vst v = true -> forall st' w c', agree_except w vst st' -> keys_ok st' v = true -> ~ In w (struct_reads v) ->
          map dshape (dom_of (fst (update client_fuel st' w None v i c'))) = map dshape (dom_of i)
          /\ snd (update client_fuel st' w None v i c') = c').
Proof. exact hydratei_keeps. Qed.

Print Assumptions C09i_keeps.

(* (d), identities: the hydrated instance holds no identity twice and none at or above the counter [c] it hands to later
   updates -- elements below [fresh] (server nodes), dynamic text and markers in [fresh, hyd_next), static text synthetic
   from [sbase] on -- so that Dom/ClientIds.v applies: a later update keeps identities or takes new ones from [c] on; an
   adopted server identity is never handed out again. *)
Theorem C09i_ids : forall vst v fresh sbase,
  hydratable vst v = true -> above fresh (server_dom vst v) -> hyd_next vst v (server_dom vst v) fresh <= sbase ->
  exists d i c,
    hydratei vst v (server_dom vst v) fresh sbase = HOk (d, i, c)
    /\ ids_wf i c
    /\ Forall (fun e => e < fresh) (iel_ids i)
    /\ Forall (fun x => fresh <= x < hyd_next vst v (server_dom vst v) fresh \/ sbase <= x < c) (nids i).
Proof. exact hydratei_wf. Qed.

Print Assumptions C09i_ids.

Theorem C09i_run_ids : forall vst v fresh sbase ws,
  hydratable vst v = true -> above fresh (server_dom vst v) -> hyd_next vst v (server_dom vst v) fresh <= sbase ->
  Forall (fun s => keys_ok s v = true) (tl (states vst ws)) ->
  exists d i c,
    hydratei vst v (server_dom vst v) fresh sbase = HOk (d, i, c)
    /\ Forall (fun t => ids_wf (snd (fst t)) (snd t)) (steps client_fuel v vst i c ws)
    /\ chain id_step ((vst, i, c) :: steps client_fuel v vst i c ws).
Proof. exact hydratei_run_ids. Qed.

Print Assumptions C09i_run_ids.

(* ---------------------------------------------------------------------------------- *)
(* a non-trivial instance: the view of Props/C09h.v without its NoHydrate part (static and dynamic text, one of them
   empty, attributes, a void element, nested dynamic views, Show on and off, a component, SVG) *)
Definition demo9i : view :=
  VFrag [
    VEl "div" [AStr "class" "c"; ADyn "title" 0; ABool "hidden" true]
        [VText "hello"; VDynText 0; VEl "br" [] []; VDynText 2; VText "!"];
    VDyn 0 [VEl "p" [] [VDynText 0]; VDyn 1 [] [VText "inner"]] [VText "off"];
    VShow 0 [VEl "span" [] [VText "shown"]];
    VShow 1 [];
    VComp [VText "comp"; VDynText 1];
    VEl "svg" [] [VEl "circle" [] []]
  ].

Example demo9i_hyps :
  hydratable demo9h_st demo9i = true /\ live demo9h_st demo9i = true /\ above 1000 (server_dom demo9h_st demo9i)
  /\ hyd_next demo9h_st demo9i (server_dom demo9h_st demo9i) 1000 = 1012.
Proof. split; [vm_compute; reflexivity|]. split; [vm_compute; reflexivity|]. split; [apply above_b; vm_compute; reflexivity|vm_compute; reflexivity]. Qed.

Definition demo9i_dom : list hnode :=
  [HEl 0 "div" [("class", "c"); ("title", "a"); ("hidden", ""); ("data-hk", "0.0"); ("data-hydrated", "")]
     [HText 1 "hello"; HText 1000 "a"; HCom 4 ""; HEl 5 "br" [("data-hk", "0.1"); ("data-hydrated", "")] [];
      HText 1001 ""; HText 8 "!"];
   HCom 1002 "#"; HEl 10 "p" [("data-hk", "0.2"); ("data-hydrated", "")] [HText 1004 "a"; HCom 13 ""];
   HCom 1005 "#"; HText 15 "inner"; HCom 1006 "#"; HCom 1003 "#";
   HCom 1007 "#"; HEl 19 "span" [("data-hk", "0.3"); ("data-hydrated", "")] [HText 20 "shown"]; HCom 1008 "#";
   HCom 1009 "#"; HCom 1010 "#"; HText 24 "comp"; HText 1011 "b"; HCom 27 "";
   HEl 28 "svg" [("data-hk", "0.4"); ("data-hydrated", "")] [HEl 29 "circle" [("data-hk", "0.5"); ("data-hydrated", "")] []]].

(* elements carry the SERVER identities 0 5 10 19 28 29; dynamic text and markers the fresh ones 1000..1011;
   static text the synthetic ones 2000..2004 *)
Definition demo9i_inst : inst :=
  IGroup
    [IEl 0 "div" [("class", "c"); ("title", "a"); ("hidden", "")]
       [IText 2000 "hello"; IText 1000 "a"; IEl 5 "br" [] []; IText 1001 ""; IText 2001 "!"];
     IDyn 1002 1003 [IEl 10 "p" [] [IText 1004 "a"]; IDyn 1005 1006 [IText 2002 "inner"]];
     IShow 1007 1008 true [IEl 19 "span" [] [IText 2003 "shown"]];
     IShow 1009 1010 false [];
     IGroup [IText 2004 "comp"; IText 1011 "b"];
     IEl 28 "svg" [] [IEl 29 "circle" [] []]].

Example demo9i_result :
  hydratei demo9h_st demo9i (server_dom demo9h_st demo9i) 1000 2000 = HOk (demo9i_dom, demo9i_inst, 2005)
  /\ hydrate demo9h_st demo9i (server_dom demo9h_st demo9i) 1000 = HOk demo9i_dom.
Proof. split; vm_compute; reflexivity. Qed.

(* (a): the owned part of the hydrated DOM is the DOM of the instance *)
Example demo9i_owned :
  owns 1000 demo9i_dom = flat_map (down 2000) (dom_of demo9i_inst)
  /\ owns 1000 demo9i_dom
     = [OEl 0 [OText 1000 "a"; OEl 5 []; OText 1001 ""]; OMark 1002; OEl 10 [OText 1004 "a"]; OMark 1005; OMark 1006;
        OMark 1003; OMark 1007; OEl 19 []; OMark 1008; OMark 1009; OMark 1010; OText 1011 "b"; OEl 28 [OEl 29 []]].
Proof. split; vm_compute; reflexivity. Qed.

(* identities *)
Example demo9i_ids :
  inst_ids demo9i_inst
  = [0; 2000; 1000; 5; 1001; 2001; 1002; 10; 1004; 1005; 2002; 1006; 1003; 1007; 19; 2003; 1008; 1009; 1010; 2004; 1011; 28; 29]
  /\ nids demo9i_inst = [2000; 1000; 1001; 2001; 1002; 1004; 1005; 2002; 1006; 1003; 1007; 2003; 1008; 1009; 1010; 2004; 1011]
  /\ keys_ok (apply_write demo9h_st (CS 0, (Some "z", false, []))) demo9i = true.
Proof. vm_compute. repeat split; reflexivity. Qed.

(* (b): faithful *)
Example demo9i_faithful : ierase demo9i_inst = ierase (fst (create client_fuel demo9h_st None demo9i 0)).
Proof. vm_compute. reflexivity. Qed.

(* (c): hydrate, then two writes through [update] -- signal 0 := "z" (dynamic text, dynamic attribute), then boolean 0 :=
   false (the dynamic view switches branch, the Show goes off) -- against the client-rendered view *)
Definition ws9i : list cwrite := [(CS 0, (Some "z", false, [])); (CB 0, (None, false, []))].

Example demo9i_run :
  run_from demo9h_st demo9i demo9i_inst 2005 ws9i
  = [dom_of demo9i_inst;
     [DEl 0 "div" [("class", "c"); ("title", "z"); ("hidden", "")]
        [DText 2000 "hello"; DText 1000 "z"; DEl 5 "br" [] []; DText 1001 ""; DText 2001 "!"];
      DMark 1002; DEl 10 "p" [] [DText 1004 "z"]; DMark 1005; DText 2002 "inner"; DMark 1006; DMark 1003;
      DMark 1007; DEl 19 "span" [] [DText 2003 "shown"]; DMark 1008; DMark 1009; DMark 1010;
      DText 2004 "comp"; DText 1011 "b"; DEl 28 "svg" [] [DEl 29 "circle" [] []]];
     [DEl 0 "div" [("class", "c"); ("title", "z"); ("hidden", "")]
        [DText 2000 "hello"; DText 1000 "z"; DEl 5 "br" [] []; DText 1001 ""; DText 2001 "!"];
      DMark 1002; DText 2005 "off"; DMark 1003; DMark 1007; DMark 1008; DMark 1009; DMark 1010;
      DText 2004 "comp"; DText 1011 "b"; DEl 28 "svg" [] [DEl 29 "circle" [] []]]]
  /\ map (map erase) (run_from demo9h_st demo9i demo9i_inst 2005 ws9i) = map (map erase) (run_client demo9h_st demo9i ws9i)
  /\ map erase (last (run_from demo9h_st demo9i demo9i_inst 2005 ws9i) [])
     = map erase (dom_of (fst (create client_fuel (fold_left apply_write ws9i demo9h_st) None demo9i 0))).
Proof. split; [vm_compute; reflexivity|]. split; vm_compute; reflexivity. Qed.

(* (d): the first write keeps every node (no identity allocated); the second keeps every adopted node outside the dynamic
   view that is re-rendered and the Show that goes off (the adopted `p` 10 and `span` 19 leave the DOM, as on the client) *)
Example demo9i_keeps :
  iel_ids demo9i_inst = [5; 0; 10; 19; 29; 28]
  /\ (let st1 := apply_write demo9h_st (CS 0, (Some "z", false, [])) in
      stable client_fuel st1 (CS 0) demo9i demo9i_inst = dom_ids (dom_of demo9i_inst)
      /\ snd (update client_fuel st1 (CS 0) None demo9i demo9i_inst 2005) = 2005)
  /\ (let st1 := apply_write demo9h_st (CS 0, (Some "z", false, [])) in
      let i1 := fst (update client_fuel st1 (CS 0) None demo9i demo9i_inst 2005) in
      let st2 := apply_write st1 (CB 0, (None, false, [])) in
      stable client_fuel st2 (CB 0) demo9i i1 = [0; 2000; 1000; 5; 1001; 2001; 1002; 1003; 1007; 1008; 1009; 1010; 2004; 1011; 28; 29]).
Proof. split; [vm_compute; reflexivity|]. split; vm_compute; repeat split; reflexivity. Qed.

(* ---------------------------------------------------------------------------------- *)
(* NoHydrate content is INERT on the client (components.rs NoHydrate: while hydrating the component returns the empty
   view, its children are never called): the hydrated instance holds nothing for it, the server nodes stay in the DOM and
   nothing reacts to later writes. "Reacts exactly as a client-rendered one" is FALSE for such a view -- by design of the
   component -- and [live] excludes exactly this. Witness: a dynamic text under NoHydrate. The hydrated DOM keeps the
   server text "a" ([HText 2 "a"], still in server form between its `t` and `""` comments); the instance owns the
   element only and is not faithful; a client render owns a text node that follows signal 0. *)
Example C09i_nohydrate_inert :
  let v := VEl "div" [] [VNoHydrate [VDynText 0]] in
  hydratable demo9h_st v = true /\ live demo9h_st v = false
  /\ hydratei demo9h_st v (server_dom demo9h_st v) 1000 2000
     = HOk ([HEl 0 "div" [("data-hk", "0.0"); ("data-hydrated", "")] [HCom 1 "t"; HText 2 "a"; HCom 3 ""]],
            IEl 0 "div" [] [IGroup []], 2000)
  /\ ierase (IEl 0 "div" [] [IGroup []]) <> ierase (fst (create client_fuel demo9h_st None v 0))
  /\ map erase (dom_of (fst (create client_fuel (apply_write demo9h_st (CS 0, (Some "z", false, []))) None v 0)))
     = [PEl "div" [] [PText "z"]].
Proof.
  cbv zeta. split; [vm_compute; reflexivity|]. split; [vm_compute; reflexivity|]. split; [vm_compute; reflexivity|].
  split; [vm_compute; intros H; discriminate H|vm_compute; reflexivity].
Qed.

(* the view of Props/C09h.v itself (with its NoHydrate part): (a) and (d) hold, the instance holds an empty group for the
   NoHydrate part, so that the first output of a run differs from the client's by exactly that content *)
Example demo9h_hydrated :
  hydratable demo9h_st demo9h = true /\ live demo9h_st demo9h = false
  /\ match hydratei demo9h_st demo9h (server_dom demo9h_st demo9h) 1000 2000 with
     | HOk (d, i, c) =>
         hydrate demo9h_st demo9h (server_dom demo9h_st demo9h) 1000 = HOk d
         /\ owns 1000 d = flat_map (down 2000) (dom_of i)
         /\ i = match demo9i_inst with IGroup l => IGroup (l ++ [IGroup []]) | x => x end
         /\ c = 2005
         /\ map erase (dom_of i) ++ [PEl "i" [] [PText "a"; PMark; PText "q"; PMark]; PText "a"]
            = map erase (dom_of (fst (create client_fuel demo9h_st None demo9h 0)))
     | HErr _ => False
     end.
Proof. split; [vm_compute; reflexivity|]. split; [vm_compute; reflexivity|]. vm_compute. repeat split; reflexivity. Qed.

(* a view with an empty NoHydrate is live *)
Example C09i_nohydrate_empty_live : live demo9h_st (VEl "div" [] [VNoHydrate []; VDynText 0]) = true.
Proof. vm_compute. reflexivity. Qed.

(* (a) needs the synthetic identities of static text apart from the fresh identities of hydration: with [sbase] inside the
   range hydration uses, a static text of the instance is taken for an owned node *)
Example C09i_sbase_needed :
  let v := VEl "p" [] [VText "x"; VDynText 0] in
  hyd_next demo9h_st v (server_dom demo9h_st v) 1000 = 1001
  /\ match hydratei demo9h_st v (server_dom demo9h_st v) 1000 1000 with
     | HOk (d, i, c) => owns 1000 d = [OEl 0 [OText 1000 "a"]] /\ flat_map (down 1000) (dom_of i) = [OEl 0 []]
     | HErr _ => False
     end
  /\ match hydratei demo9h_st v (server_dom demo9h_st v) 1000 1001 with
     | HOk (d, i, c) => owns 1000 d = [OEl 0 [OText 1000 "a"]] /\ flat_map (down 1001) (dom_of i) = [OEl 0 [OText 1000 "a"]]
     | HErr _ => False
     end.
Proof. cbv zeta. split; [vm_compute; reflexivity|]. split; vm_compute; split; reflexivity. Qed.

(* Scope. Proved for every view of the class [hydratable] of Props/C09h.v (elements, static and dynamic text, dynamic
   views, Show over elements, fragments, components, NoHydrate; nesting depth below the fuel 64), every state, every
   sequence of writes. (b), (c) additionally need [live]. Static text has no node of its own in a hydrated view
   (NodeState::TextStatic); its identities in the instance are synthetic and (a) leaves them out: that the visible tree of
   the hydrated DOM (static text included, merged as the parser merged it) is that of a client render is
   [C09_hydrate_client] of Props/C09h.v. Tags and attribute values are not part of (a) for the same reason: they are
   covered by (b) on the instance side and by [C09_hydrate_client] on the DOM side. *)
