(* Props/C03.v -- property C03: subscriptions equal the tracked reads of the latest run (pure-callback model) *)
From stdpp Require Import gmap list.
From Coq Require Import ZArith.
From Syc.ReactivePure Require Import Pure Loop LoopInv Ops Spec Step Extra.

(* complete characterisation of one run: the new dependency list is exactly the list of tracked reads of this
   evaluation, the node is removed from the subscriber lists of its old dependencies and added to those of the
   new ones, nobody else's subscriptions change *)
Theorem C03_run_node_spec : forall n (s s2 : st) t r ch,
  run_node n s = Some (s2, (t, r, ch)) ->
  exists nd f k v,
    s !! n = Some nd /\ cb nd = Some (f,k) /\ eval f (values s) = Some (v,t,r) /\ n ∉ r /\
    ch = negb (eqk k v (val nd)) /\
    (forall x, cbOf s2 x = cbOf s x) /\
    (forall x, valOf s2 x = if decide (x = n) then (if ch then v else val nd) else valOf s x) /\
    (forall x, is_Some (s2 !! x) <-> is_Some (s !! x)) /\
    (forall x, depsOf s2 x = if decide (x = n) then t else depsOf s x) /\
    (forall x m, is_Some (s !! x) ->
        (m ∈ dependentsOf s2 x <-> (m ∈ dependentsOf s x /\ (x ∈ deps nd -> m ≠ n)) \/ (m = n /\ x ∈ t))) /\
    (forall x, dirtyOf s2 x =
       if decide (x = n) then (ch && bool_decide (n ∈ dependentsOf s2 n /\ is_Some (s !! n)))%bool
       else (dirtyOf s x || (ch && bool_decide (x ∈ dependentsOf s2 n /\ is_Some (s !! x))))%bool).
Proof. exact run_node_spec. Qed.

(* tracked reads are a sub-list of all reads: untracked reads never enter the dependency list *)
Theorem C03_untracked_reads_do_not_subscribe : forall e rho v t r, eval e rho = Some (v, t, r) -> t ⊆ r.
Proof. exact eval_tracked_sub. Qed.

(* the value of a run depends only on the nodes it actually read *)
Theorem C03_eval_depends_on_reads_only : forall e rho1 rho2 v t r,
  eval e rho1 = Some (v,t,r) -> (forall x, x ∈ r -> rho1 x = rho2 x) -> eval e rho2 = Some (v,t,r).
Proof. exact eval_agree. Qed.

(* subscriber lists and dependency lists stay mirror images of each other through a whole propagation *)
Theorem C03_edges_symmetric : forall order (s s' : st) tr,
  loop order s = Some (s', tr) -> Inv order s -> LRF order tr ->
  forall n m, m ∈ dependentsOf s' n <-> n ∈ depsOf s' m.
Proof. intros order s s' tr H1 H2 H3. exact (proj2 (proj2 (loop_consistent _ _ _ _ H1 H2 H3))). Qed.
