(* Props/C03.v -- property C03: subscriptions equal the tracked reads of the latest run (pure-callback model) *)
From stdpp Require Import gmap list.
From Coq Require Import ZArith.
From Syc.ReactivePure Require Import Pure Loop LoopInv Ops Spec Step Extra.

(* complete characterisation of one run: the new dependency list is exactly the list of tracked reads of this
   evaluation, the node is removed from the subscriber lists of its old dependencies and added to those of the
   new ones, nobody else's subscriptions change *)
Theorem C03_run_node_spec : forall n (s s2 : st) t r ch,
  run_node n s = Some (s2, (t, r, ch)) ->
  exists nd f k v,
    s !! n = Some nd /\ cb nd = Some (f,k) /\ eval f (values s) = Some (v,t,r) /\ n ∉ r /\
    ch = negb (eqk k v (val nd)) /\
    (forall x, cbOf s2 x = cbOf s x) /\
    (forall x, valOf s2 x = if decide (x = n) then (if ch then v else val nd) else valOf s x) /\
    (forall x, is_Some (s2 !! x) <-> is_Some (s !! x)) /\
    (forall x, depsOf s2 x = if decide (x = n) then t else depsOf s x) /\
    (forall x m, is_Some (s !! x) ->
        (m ∈ dependentsOf s2 x <-> (m ∈ dependentsOf s x /\ (x ∈ deps nd -> m ≠ n)) \/ (m = n /\ x ∈ t))) /\
    (forall x, dirtyOf s2 x =
       if decide (x = n) then (ch && bool_decide (n ∈ dependentsOf s2 n /\ is_Some (s !! n)))%bool
       else (dirtyOf s x || (ch && bool_decide (x ∈ dependentsOf s2 n /\ is_Some (s !! x))))%bool).
Proof. exact run_node_spec. Qed.

(* tracked reads are a sub-list of all reads: untracked reads never enter the dependency list *)
Theorem C03_untracked_reads_do_not_subscribe : forall e rho v t r, eval e rho = Some (v, t, r) -> t ⊆ r.
Proof. exact eval_tracked_sub. Qed.

(* the value of a run depends only on the nodes it actually read *)
Theorem C03_eval_depends_on_reads_only : forall e rho1 rho2 v t r,
  eval e rho1 = Some (v,t,r) -> (forall x, x ∈ r -> rho1 x = rho2 x) -> eval e rho2 = Some (v,t,r).
Proof. exact eval_agree. Qed.

(* subscriber lists and dependency lists stay mirror images of each other through a whole propagation *)
Theorem C03_edges_symmetric : forall order (s s' : st) tr,
  loop order s = Some (s', tr) -> Inv order s -> LRF order tr ->
  forall n m, m ∈ dependentsOf s' n <-> n ∈ depsOf s' m.
Proof. intros order s s' tr H1 H2 H3. exact (proj2 (proj2 (loop_consistent _ _ _ _ H1 H2 H3))). Qed.

(* ---------- the untracked forms, on the full runtime model (Reactive/TrackerFacts.v) ---------- *)
Require Syc.Reactive.TrackerFacts Syc.Reactive.Frame.
Module TF := Syc.Reactive.TrackerFacts.
Module RI := Syc.Reactive.Interp.
Module RS := Syc.Reactive.Syntax.

(* untrack(..) and component bodies give back the tracker they found: nothing read inside subscribes *)
Theorem C03_untrack_never_subscribes : forall f en ss s en' s',
  RI.exec1 true f en (RS.SUntrack ss) s = RI.Ok en' s' -> RI.tracker s' = RI.tracker s.
Proof. exact TF.untrack_restores. Qed.
Theorem C03_component_never_subscribes : forall f en ss s en' s',
  RI.exec1 true f en (RS.SComponent ss) s = RI.Ok en' s' -> RI.tracker s' = RI.tracker s.
Proof. exact TF.component_restores. Qed.
(* disposal (hence every cleanup callback) gives back the tracker it found *)
Theorem C03_cleanups_never_subscribe : forall f id s s', RI.dispose true f id s = RI.Ok tt s' -> RI.tracker s' = RI.tracker s.
Proof. exact TF.dispose_restores. Qed.
Theorem C03_rerun_cleanups_never_subscribe : forall f id s s', RI.dispose_children true f id s = RI.Ok tt s' -> RI.tracker s' = RI.tracker s.
Proof. exact TF.dispose_children_restores. Qed.
(* on(deps, ..): after the body the tracker is the caller's tracker with exactly the ids of deps appended *)
Theorem C03_on_tracks_deps_only : forall f c deps ss ret s v s', RI.c_body c = RS.Body (Some deps) ss ret ->
  RI.run_body true f c s = RI.Ok v s' ->
  exists ids, TF.on_ids (RI.c_env c) deps ids /\ RI.tracker s' = TF.tracked_more ids (RI.tracker s).
Proof. exact TF.on_deps_only. Qed.
(* get_untracked never touches the tracker; a tracked read appends exactly its node *)
Theorem C03_get_untracked_never_subscribes : forall en x s, RI.tracker (Syc.Reactive.Frame.st_of (RI.eval en (RS.GetU x) s)) = RI.tracker s.
Proof. exact TF.getu_tracker. Qed.
Theorem C03_get_subscribes : forall en x id s v s', RI.lookup_env x en = Some (RI.BNode id) ->
  RI.eval en (RS.Get x) s = RI.Ok v s' -> RI.tracker s' = TF.tracked_more [id] (RI.tracker s).
Proof. exact TF.get_tracks. Qed.
