(* Props/C13r.v -- property C13, rendering half (on Async/Stream.v, proved in Async/StreamFacts.v): blocking
   server rendering returns only when all tasks have finished and contains the resolved content of every
   boundary; streaming rendering emits each boundary's resolved content exactly once, never before its
   parent's, and applying the fragments to the shell yields the same visible content as the blocking result
   -- for every view and every order in which the gates open (no bound). *)
From Coq Require Import List Arith Bool.
From Syc Require Import Async.Stream Async.StreamFacts.
Import ListNotations.

(* B1: blocking_step returns the first step at which no boundary has a pending task *)
Theorem C13r_blocking_returns_when_finished : forall vs rest F k k',
  blocking_step vs F rest k = Some k' ->
  k <= k' /\ k' - k <= List.length rest /\
  global_pending (F ++ firstn (k' - k) rest) vs = 0 /\
  forall j, k <= j < k' -> global_pending (F ++ firstn (j - k) rest) vs <> 0.
Proof. exact blocking_step_first. Qed.

(* ... and it hangs only if no prefix of the schedule finishes every task *)
Theorem C13r_blocking_never : forall vs rest F k,
  blocking_step vs F rest k = None ->
  forall j, j <= List.length rest -> global_pending (F ++ firstn j rest) vs <> 0.
Proof. exact blocking_step_none. Qed.

(* B2: the blocking result is the fully resolved content *)
Theorem C13r_blocking_content : forall F vs,
  pending_list F vs = 0 -> global_pending F vs = 0 -> deep_list F vs = full_list vs.
Proof. exact blocking_content_full. Qed.

(* S1: at most once; the per-step emission lists concatenated are the sent list *)
Theorem C13r_stream_once : forall vs sched,
  NoDup (s_sent (reach vs sched)) /\ s_sent (reach vs sched) = concat (emitted vs sched) /\
  s_fired (reach vs sched) = sched.
Proof. exact stream_sent_once. Qed.

(* S2: never before its parent. [parents_list None vs] is the boundary list with every gate fired *)
Theorem C13r_parents_def : forall vs,
  parents_list None vs = map strip (boundaries_list (gates_list vs) None vs).
Proof. exact parents_all_fired. Qed.

Theorem C13r_stream_parent_first : forall vs sched l1 id l2 p,
  uniq_idsb vs = true ->
  s_sent (reach vs sched) = l1 ++ id :: l2 ->
  In (id, Some p) (parents_list None vs) ->
  In p l1.
Proof. intros vs sched l1 id l2 p Hu. apply stream_parent_first. apply uniq_idsb_ok, Hu. Qed.

Theorem C13r_stream_parent_first_any_ids : forall vs sched l1 id l2,
  s_sent (reach vs sched) = l1 ++ id :: l2 ->
  exists par, In (id, par) (parents_list None vs) /\ match par with None => True | Some p => In p l1 end.
Proof. exact stream_parent_first_any. Qed.

(* S3: the inline script always finds its markers ... *)
Theorem C13r_stream_script_never_fails : forall vs sched,
  uniq_idsb vs = true -> no_top_asyncb vs = true ->
  s_doc (reach vs sched) = Some (vis_list (s_sent (reach vs sched)) sched vs).
Proof. intros vs sched Hu Hn. apply stream_doc_defined; [apply uniq_idsb_ok, Hu|apply no_top_asyncb_ok, Hn]. Qed.

(* ... every existing boundary that is not loading has been streamed ... *)
Theorem C13r_stream_live : forall vs sched i,
  In (i, false) (loading_table sched vs) -> In i (s_sent (reach vs sched)).
Proof. exact reach_live. Qed.

(* ... and once all tasks have finished shell + fragments = the blocking result *)
Theorem C13r_stream_equals_blocking : forall vs sched,
  uniq_idsb vs = true -> no_top_asyncb vs = true -> global_pending sched vs = 0 ->
  (forall i, In i (ids_list vs) <-> In i (s_sent (reach vs sched))) /\
  NoDup (s_sent (reach vs sched)) /\
  s_doc (reach vs sched) = Some (full_list vs) /\
  s_doc (reach vs sched) = Some (deep_list sched vs).
Proof. exact stream_equals_blocking. Qed.

Print Assumptions C13r_blocking_returns_when_finished.
Print Assumptions C13r_blocking_content.
Print Assumptions C13r_stream_once.
Print Assumptions C13r_stream_parent_first.
Print Assumptions C13r_stream_script_never_fails.
Print Assumptions C13r_stream_equals_blocking.
