(* Props/C11.v -- property C11: scopes can be disposed at any point without panic or corruption
   (on Reactive/Interp.v with fx = true, the runtime after the fix commits; proofs in Reactive/NoPanic.v, WF.v).
   [Err (Runtime k)] marks every place where the Rust code indexes the node table without a liveness check, i.e.
   where it would panic with "invalid SlotMap key". The scenario language can dispose any scope it can name from
   any callback, cleanup or batch body, so "for every program" covers every disposal point. *)
From stdpp Require Import gmap list.
From Coq Require Import ZArith.
From Syc Require Import Reactive.Syntax Reactive.Interp Reactive.Show Reactive.NoPanic Reactive.WF.

(* no program, started from the initial state, ever reaches such a place -- whatever it disposes, wherever *)
Theorem C11_no_runtime_panic_program : forall f prog e s',
  exec true f root_env prog init_state = Err e s' -> forall k, e <> Runtime k.
Proof. exact no_runtime_panic_program. Qed.

(* the same from any well-formed state, for statement lists, single statements, explicit disposal and root re-initialisation *)
Theorem C11_no_runtime_panic : forall f en ss s e s', WF s -> exec true f en ss s = Err e s' -> forall k, e <> Runtime k.
Proof. exact no_runtime_panic. Qed.
Theorem C11_no_runtime_panic_dispose : forall f id s e s', WF s -> dispose true f id s = Err e s' -> forall k, e <> Runtime k.
Proof. exact no_runtime_panic_dispose. Qed.

(* "without corruption": the well-formedness invariant (ids in order, subscriber and dependency lists mirror each other
   and mention live nodes only, nodes being updated have no edges, the queue is empty outside batches) survives every
   successful run, so later updates start from a sound graph *)
Theorem C11_wf_init : WF init_state.
Proof. exact WF_init. Qed.
Theorem C11_wf_preserved : forall f en ss s en' s', WF s -> exec true f en ss s = Ok en' s' -> WF s'.
Proof. exact WF_exec. Qed.
Theorem C11_no_stale_edges : forall s, WF s ->
  (forall d dd n, nodes s !! d = Some dd -> In n (n_dependents dd) -> exists nn, nodes s !! n = Some nn /\ In d (n_deps nn)) /\
  (forall n nn d, nodes s !! n = Some nn -> In d (n_deps nn) -> exists dd, nodes s !! d = Some dd /\ In n (n_dependents dd)).
Proof. exact no_stale_edges. Qed.

(* most sites need no invariant at all: they are guarded in the code itself *)
Theorem C11_guarded_sites : forall f en ss s e s',
  exec true f en ss s = Err e s' -> forall k, e = Runtime k -> ~ In k [0;1;2;3;4;5;9;10;11;12;13;14]%nat.
Proof. exact no_local_panic. Qed.
