(* Props/C02.v -- property C02: glitch-free propagation, at most one run per change (pure-callback model).
   Second half of this file: the statements for a whole write from a quiescent state (schedule, reads only
   settled values, a node runs only if one of its dependencies fired). Tracked reads only: an untracked read
   may observe a node that is still scheduled (C02_untracked_read_sees_stale_value). *)
From stdpp Require Import gmap list relations.
From Coq Require Import ZArith.
From Syc.ReactivePure Require Import Pure Loop LoopInv Ops Spec Step Extra.
From Syc.ReactivePure Require Import Dfs DfsFacts Propagate Glitch Create PropagateExamples.

(* one trace entry per scheduled node, and the schedule has no duplicates: at most one run per propagation *)
Theorem C02_one_entry_per_scheduled_node : forall order (s s' : st) tr,
  loop order s = Some (s', tr) -> length tr = length order.
Proof. exact loop_trace_length. Qed.

Theorem C02_schedule_has_no_duplicates : forall order (s : st), Inv order s -> NoDup order.
Proof. intros order s H. exact (iF _ _ H). Qed.

(* a node runs only if it was marked dirty, i.e. a dependency it was subscribed to fired *)
Theorem C02_runs_only_if_dirty : forall n rest (s s' : st) ev tr,
  loop (n :: rest) s = Some (s', Some ev :: tr) -> exists nd, s !! n = Some nd /\ dirty nd = true.
Proof. exact loop_head_runs_only_dirty. Qed.

(* one step of the loop: running a dirty node whose tracked reads avoid the rest of the schedule keeps the invariant *)
Theorem C02_step : forall n rest (s s2 : st) t r ch,
  Inv (n :: rest) s -> dirtyOf s n = true -> run_node n s = Some (s2, (t, r, ch)) ->
  (forall x, x ∈ t -> x ∉ rest) -> Inv rest s2.
Proof. exact step. Qed.

(* ---------- a whole write ---------- *)
(* the schedule has no duplicates (at most one run per node and write), one trace entry per scheduled node,
   starts with the written signal and contains only nodes reachable from it through subscriber edges *)
Theorem C02_write_schedule : forall (s s' : st) x v order tr,
  Quiescent s -> write x v s = POk s' order tr ->
  NoDup order /\ length tr = length order /\ order !! 0%nat = Some x /\ (forall n, n ∈ order -> rtc (edge s) x n).
Proof. exact write_schedule. Qed.

(* when a node runs it is dirty; every node it reads with tracking, and every dependency of such a node, is
   settled at that moment: not scheduled any more, not dirty, consistent, holding the value it has when the
   write returns. The same holds for any other read that does not hit a still-scheduled node. *)
Theorem C02_write_reads_settled : forall (s s' : st) x v order tr,
  Quiescent s -> write x v s = POk s' order tr -> LRF order tr ->
  forall i n t r ch, order !! i = Some n -> tr !! i = Some (Some (t, r, ch)) ->
  exists sm nd f k v0,
    sm !! n = Some nd /\ dirty nd = true /\ cb nd = Some (f, k) /\
    eval f (values sm) = Some (v0, t, r) /\ ch = negb (eqk k v0 (val nd)) /\
    valOf s' n = (if ch then v0 else val nd) /\
    (forall d, d ∈ t -> settled (n :: drop (S i) order) sm s' d /\
                        forall e, e ∈ depsOf sm d -> settled (n :: drop (S i) order) sm s' e) /\
    (forall d, d ∈ r -> d ∉ drop (S i) order -> settled (n :: drop (S i) order) sm s' d).
Proof. exact write_reads_settled. Qed.

(* a node runs only if one of the dependencies it had before the write is the written signal or a computation
   that ran earlier in the same propagation and changed (selectors that compare equal do not fire) *)
Theorem C02_write_runs_only_if_fired : forall (s s' : st) x v order tr,
  Quiescent s -> write x v s = POk s' order tr -> LRF order tr ->
  forall i n ev, order !! i = Some n -> tr !! i = Some (Some ev) ->
  exists d, d ∈ depsOf s n /\
    (d = x \/ exists j t r, (j < i)%nat /\ order !! j = Some d /\ tr !! j = Some (Some (t, r, true))).
Proof. exact write_runs_only_if_fired. Qed.

(* conversely, every node with a dependency that fired does run: with the previous theorem, a computation
   re-runs during a write if and only if one of its dependencies is the written signal or a computation that
   ran and changed *)
Theorem C02_write_runs_if_fired : forall (s s' : st) x v order tr,
  Quiescent s -> write x v s = POk s' order tr -> LRF order tr ->
  forall n d, d ∈ depsOf s n ->
  (d = x \/ exists j t r, order !! j = Some d /\ tr !! j = Some (Some (t, r, true))) ->
  exists i ev, order !! i = Some n /\ tr !! i = Some (Some ev).
Proof. exact write_runs_if_fired. Qed.

(* selector cut-off on a closed instance: the selector runs and does not change, its dependent does not run *)
Theorem C02_selector_cut :
  is_lrf (write 0 3 selg) = true /\ ran (write 0 3 selg) = [(1%nat, false)] /\
  is_lrf (write 0 4 selg) = true /\ ran (write 0 4 selg) = [(1%nat, true); (2%nat, true)].
Proof. exact write_selector_cut. Qed.

(* untracked reads are outside the guarantee: c = memo(s + untracked b) is scheduled before b = memo(2s)
   (subscribers of s in creation order), reads b while b is still dirty, and ends with 5+2 while b ends with 10 *)
Theorem C02_untracked_read_sees_stale_value :
  is_lrf (write 0 5 untr) = true /\
  (match write 0 5 untr with POk _ o tr => (o, tr) | _ => ([], []) end)
    = ([0%nat; 2%nat; 1%nat], [None; Some ([0%nat], [0%nat; 1%nat], true); Some ([0%nat], [0%nat], true)]) /\
  final_val (write 0 5 untr) 1 = Some 10%Z /\ final_val (write 0 5 untr) 2 = Some 7%Z.
Proof. exact untracked_read_sees_stale_value. Qed.
