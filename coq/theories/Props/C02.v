(* Props/C02.v -- property C02: glitch-free propagation, at most one run per change (pure-callback model).
   PARTIAL: "reads only settled values" is the [cons] clause of C01 under the late-read hypothesis; the
   characterisation of *which* dependency fired is not stated separately. *)
From stdpp Require Import gmap list.
From Coq Require Import ZArith.
From Syc.ReactivePure Require Import Pure Loop LoopInv Ops Spec Step Extra.

(* one trace entry per scheduled node, and the schedule has no duplicates: at most one run per propagation *)
Theorem C02_one_entry_per_scheduled_node : forall order (s s' : st) tr,
  loop order s = Some (s', tr) -> length tr = length order.
Proof. exact loop_trace_length. Qed.

Theorem C02_schedule_has_no_duplicates : forall order (s : st), Inv order s -> NoDup order.
Proof. intros order s H. exact (iF _ _ H). Qed.

(* a node runs only if it was marked dirty, i.e. a dependency it was subscribed to fired *)
Theorem C02_runs_only_if_dirty : forall n rest (s s' : st) ev tr,
  loop (n :: rest) s = Some (s', Some ev :: tr) -> exists nd, s !! n = Some nd /\ dirty nd = true.
Proof. exact loop_head_runs_only_dirty. Qed.

(* one step of the loop: running a dirty node whose tracked reads avoid the rest of the schedule keeps the invariant *)
Theorem C02_step : forall n rest (s s2 : st) t r ch,
  Inv (n :: rest) s -> dirtyOf s n = true -> run_node n s = Some (s2, (t, r, ch)) ->
  (forall x, x ∈ t -> x ∉ rest) -> Inv rest s2.
Proof. exact step. Qed.
