(* Props/C01Write.v -- property C01, end to end for a whole write on the pure-callback model
   (ReactivePure/Dfs.v: dfs + mark_dependents_dirty + loop = propagate_node_updates; write = Signal::set).
   [Quiescent] is what holds between writes; the depth-first pass establishes the loop invariant [Inv] from it,
   so a whole late-read-free write leads from a quiescent state to a quiescent state, for any history of writes;
   quiescent states are closed under node creation. The late-read hypothesis [LRF] cannot be dropped (F1). *)
From stdpp Require Import gmap list relations.
From Coq Require Import ZArith.
From Syc.ReactivePure Require Import Pure Loop LoopInv Ops Spec Step Extra.
From Syc.ReactivePure Require Import Dfs DfsFacts Propagate Glitch Create Batch PropagateExamples.

(* ---------- a whole write, end to end ---------- *)
(* the depth-first pass of propagate_node_updates, started from a freshly written signal of a quiescent state
   with its fuel S (size s), neither runs out of fuel nor reports a cycle, changes nothing but marks, marks
   exactly the buffer, schedules only nodes reachable from the signal, the signal itself last (first in the
   reversed buffer), and together with mark_dependents_dirty establishes the loop invariant *)
Theorem C01_dfs_establishes_inv : forall (s : st) x sig v,
  Quiescent s -> s !! x = Some sig -> cb sig = None ->
  let s1 := <[x := set_val v sig]> s in
  exists s2 buf,
    dfs (S (size s1)) x (s1, []) = Some (Some (s2, buf)) /\
    erase s2 = erase s1 /\
    (forall n, mkOf s2 n = if decide (n ∈ buf) then MPerm else MNone) /\
    x ∈ buf /\ (forall n, n ∈ buf -> rtc (edge s) x n) /\
    (exists buf', buf = buf' ++ [x]) /\
    Inv (rev buf) (mark_dependents_dirty x s2).
Proof. exact dfs_establishes_inv. Qed.

Theorem C01_write_no_fuel_no_cycle : forall (s : st) x v,
  Quiescent s -> write x v s <> PErr OutOfFuel /\ write x v s <> PErr Cyclic.
Proof. exact write_no_fuel_no_cycle. Qed.

(* when a late-read-free write returns, the state is quiescent again: all marks reset, nothing dirty, edges
   symmetric, every computation consistent with the current values, graph acyclic, signals without deps *)
Theorem C01_write_consistent : forall (s s' : st) x v order tr,
  Quiescent s -> write x v s = POk s' order tr -> LRF order tr -> Quiescent s'.
Proof. exact write_consistent. Qed.

(* the written signal holds the new value, every other signal its old one; no node appears or disappears *)
Theorem C01_write_signals : forall (s s' : st) x v order tr,
  write x v s = POk s' order tr ->
  cbOf s x = None /\ valOf s' x = v /\
  (forall n, cbOf s' n = cbOf s n) /\ (forall n, is_Some (s' !! n) <-> is_Some (s !! n)) /\
  (forall n, cbOf s n = None -> n ≠ x -> valOf s' n = valOf s n).
Proof. exact write_signals. Qed.

Theorem C01_writes_consistent : forall ws (s s' : st) log,
  Quiescent s -> writes ws s = Some (s', log) ->
  Forall (fun ot => LRF (fst ot) (snd ot)) log -> Quiescent s'.
Proof. exact writes_consistent. Qed.

(* [Quiescent] holds by construction: empty graph, create_signal, create_memo/create_selector *)
Theorem C01_create_empty : Quiescent ∅.
Proof. exact Quiescent_empty. Qed.
Theorem C01_create_signal : forall (s : st) n v, Quiescent s -> s !! n = None -> Quiescent (add_signal n v s).
Proof. exact Quiescent_add_signal. Qed.
Theorem C01_create_memo : forall (s : st) n f k, Quiescent s -> s !! n = None -> Quiescent (add_memo n f k s).
Proof. exact Quiescent_add_memo. Qed.

(* [Acyclic] (a duplicate-free listing of the live nodes with every node after its dependencies) implies the
   usual notions: no node reaches itself, and the dependency relation is well-founded *)
Theorem C01_acyclic_no_cycle : forall s n, Acyclic s -> ~ tc (dep_edge s) n n.
Proof. exact Acyclic_no_cycle. Qed.
Theorem C01_acyclic_wf : forall s, Acyclic s -> wf (dep_edge s).
Proof. exact Acyclic_wf. Qed.

(* the late-read hypothesis cannot be dropped, on the pure model too (F1), and without it a write can even
   close a dependency cycle, after which the next write reports Cyclic *)
Theorem C01_write_consistent_without_lrf_refuted :
  exists s' order tr, write 0 1 f1 = POk s' order tr /\ ~ LRF order tr /\ ~ Quiescent s' /\
    order = [0%nat; 2%nat; 1%nat] /\ valOf s' 1 = 2%Z /\ valOf s' 2 = 0%Z /\ dirtyOf s' 2 = true.
Proof. exact write_consistent_without_lrf_refuted. Qed.
Theorem C01_acyclicity_without_lrf_refuted :
  exists s' order tr, write 0 1 cyc = POk s' order tr /\ is_lrf (write 0 1 cyc) = false /\
    2%nat ∈ depsOf s' 3 /\ 3%nat ∈ depsOf s' 2 /\ ~ Acyclic s' /\ write 0 0 s' = PErr Cyclic.
Proof. exact acyclicity_without_lrf_refuted. Qed.

(* what [cons] (hence [Quiescent]) says about a memo that only reads with tracking: it holds exactly what its
   function yields from the current values, and its dependency list is exactly what that evaluation reads *)
Theorem C01_memo_holds_current_value : forall (s : st) n nd f,
  Quiescent s -> s !! n = Some nd -> cb nd = Some (f, KMemo) -> tracked_only f = true ->
  eval f (values s) = Some (val nd, deps nd, deps nd).
Proof. exact Quiescent_memo_current. Qed.
Theorem C01_cons_current : forall (s : st) n nd f k,
  cons s n -> s !! n = Some nd -> cb nd = Some (f, k) -> tracked_only f = true ->
  exists v, eval f (values s) = Some (v, deps nd, deps nd) /\ agrees k v (val nd).
Proof. exact cons_current. Qed.

(* ---------- the end of an outermost batch: several signals written, one propagation ---------- *)
Theorem C01_batch_establishes_inv : forall (s : st) ws,
  Quiescent s -> forallb (is_signal s) (map fst ws) = true ->
  let s1 := stores ws s in
  exists s3 buf,
    schedule (map fst ws) s1 = inr (buf, s3) /\ frame s1 s3 /\
    (forall n, mkOf s3 n = if decide (n ∈ buf) then MPerm else MNone) /\
    (forall x, x ∈ map fst ws -> x ∈ buf) /\
    (forall n, n ∈ buf -> exists x, x ∈ map fst ws /\ rtc (edge s) x n) /\
    (forall n, dirtyOf s3 n = true <-> exists x, x ∈ map fst ws /\ n ∈ dependentsOf s x) /\
    Inv (rev buf) s3.
Proof. exact batch_establishes_inv. Qed.
Theorem C01_batch_no_fuel_no_cycle : forall (s : st) ws,
  Quiescent s -> batch ws s <> PErr OutOfFuel /\ batch ws s <> PErr Cyclic.
Proof. exact batch_no_fuel_no_cycle. Qed.
Theorem C01_batch_consistent : forall (s s' : st) ws order tr,
  Quiescent s -> batch ws s = POk s' order tr -> LRF order tr -> Quiescent s'.
Proof. exact batch_consistent. Qed.
Theorem C01_write_is_batch : forall (s : st) x v, write x v s = batch [(x, v)] s.
Proof. exact write_is_batch. Qed.
