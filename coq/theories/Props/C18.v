(* Props/C18.v -- property C18: view! never treats a reactive interpolation as static.
   [is_dyn] is [classify dyn_rule] where [dyn_rule] (Gen/C18Table.v) is regenerated from
   sycamore-view-parser's codegen.rs on every run of the check. *)
From Coq Require Import List Bool.
From Syc Require Import ViewMacro.Syntax ViewMacro.IsDynFacts ViewMacro.TableOk ViewMacro.Pinned.
Import ListNotations.

Theorem C18_is_dyn_conservative : forall t, contains_eval t = true -> is_dyn t = true.
Proof. exact is_dyn_conservative. Qed.

Theorem C18_static_is_eval_free : forall t, is_dyn t = false -> contains_eval t = false.
Proof. exact static_is_eval_free. Qed.

Theorem C18_codegen_wraps : forall t, contains_eval t = true -> codegen t = Dynamic.
Proof. exact codegen_wraps. Qed.

(* the code as pinned skipped four syntactic positions *)
Theorem C18_pinned_refuted :
  forallb (fun t => wf_tree t && contains_eval t && negb (classify pinned_rule t)) pinned_witnesses = true.
Proof. exact pinned_refuted. Qed.
