(* Props/C10.v -- property C10: batch defers all reactions to the end of the outermost batch
   (on Reactive/Interp.v with fx = true: Reactive/BatchFacts.v; the flush itself on the pure-callback model:
   ReactivePure/Batch.v). *)
From stdpp Require Import gmap list.
From Coq Require Import ZArith.
From Syc Require Import Reactive.Syntax Reactive.Interp Reactive.Show Reactive.BatchFacts.
Require Syc.ReactivePure.Batch Syc.ReactivePure.Propagate Syc.ReactivePure.Step.

(* inside a batch a write only queues its signal *)
Theorem C10_batch_defers : forall fx f id s, batching s = true ->
  propagate_updates fx (S f) id s = Ok tt (set_queue (queue s ++ [id]) s).
Proof. exact batch_defers. Qed.

(* for EVERY body (creating effects, disposing scopes, running cleanups, nesting batches at any depth): while the batch
   flag is set, execution coincides with [bexec], the interpreter from which propagate / loop / run_node_update have been
   removed -- no memo or effect is re-run inside a batch -- and the flag is still set when the body returns *)
Theorem C10_batched_exec : forall f en ss s, batching s = true -> exec true f en ss s = bexec f en ss s.
Proof. exact batched_exec. Qed.
Theorem C10_batching_kept : forall f en ss s en' s', batching s = true -> exec true f en ss s = Ok en' s' -> batching s' = true.
Proof. exact batching_kept. Qed.

(* a nested batch is a pair of brackets around its body; the outermost one is: body without propagation, then ONE
   propagation from everything that was queued *)
Theorem C10_inner_batch : forall f en ss s, batching s = true ->
  exec1 true (S f) en (SBatch ss) s =
  do _, s1 <- bexec f en ss (emit (EvBatch true) s); Ok en (emit (EvBatch false) s1).
Proof. exact inner_batch. Qed.
Theorem C10_outermost_batch : forall f en ss s, batching s = false ->
  exec1 true (S f) en (SBatch ss) s =
  do _, s1 <- bexec f en ss (emit (EvBatch true) (set_batching true s));
  do _, s2 <- propagate true f (queue s1) (set_queue [] (set_batching false (emit (EvBatch false) s1)));
  Ok en s2.
Proof. exact outermost_batch. Qed.

(* on the log: between the brackets of an outermost batch whose body creates no computation and disposes nothing, there
   is no run event at all *)
Theorem C10_batch_quiet_log : forall f en ss s en' s', batching s = false -> forallb quiet ss = true ->
  exec1 true f en (SBatch ss) s = Ok en' s' ->
  exists l1 l2, log s' = l2 ++ EvBatch false :: l1 ++ EvBatch true :: log s /\ Forall quiet_ev l1.
Proof. exact batch_quiet_log. Qed.

(* the flush (pure-callback model): from a quiescent state, storing the batch's writes and propagating once from all
   written signals leads to a quiescent state again -- every computation consistent, as after a single write -- and each
   scheduled node has exactly one trace entry (late-read hypothesis: known finding F1) *)
Theorem C10_flush_consistent : forall (s s' : Syc.ReactivePure.Loop.st) ws order tr,
  Syc.ReactivePure.Propagate.Quiescent s -> Syc.ReactivePure.Dfs.batch ws s = Syc.ReactivePure.Dfs.POk s' order tr ->
  Syc.ReactivePure.Step.LRF order tr -> Syc.ReactivePure.Propagate.Quiescent s'.
Proof. exact Syc.ReactivePure.Batch.batch_consistent. Qed.
