(* ReactivePure/Glitch.v -- property C02 for a whole write on the pure-callback model:
   - the schedule has no duplicates, one trace entry per scheduled node, only nodes reachable from the
     written signal are scheduled ([write_schedule]);
   - a node runs only if it is dirty at that moment, and every node it reads with tracking is settled at that
     moment: not scheduled any more, not dirty, consistent, and holding the value it has when the write
     returns ([write_reads_settled]);
   - a node runs only if one of its dependencies is the written signal or a computation that ran and changed
     earlier in the same propagation ([write_runs_only_if_fired]). *)
From stdpp Require Import gmap list relations.
Require Import ZArith Lia.
From Syc.ReactivePure Require Import Pure Loop LoopInv Ops Spec Step Extra Dfs DfsFacts Propagate.
Open Scope Z_scope.

(* ---------- the loop, cut at a position ---------- *)
Lemma loop_mid o1 : forall o2 (s s':st) tr, loop (o1 ++ o2) s = Some (s', tr) ->
  exists sm t1 t2, loop o1 s = Some (sm, t1) /\ loop o2 sm = Some (s', t2) /\ tr = t1 ++ t2 /\ length t1 = length o1.
Proof.
  induction o1 as [|n o1 IH]; intros o2 s s' tr Hl.
  - exists s, [], tr. done.
  - cbn [app] in Hl. cbn [loop] in Hl |- *.
    destruct (s !! n) as [nd|].
    + destruct (dirty nd).
      * destruct (run_node n _) as [[s2 ev]|]; [|discriminate].
        destruct (loop (o1 ++ o2) s2) as [[s3 tr']|] eqn:Hl2; [|discriminate]. inversion Hl; subst.
        destruct (IH _ _ _ _ Hl2) as (sm & t1 & t2 & -> & H2 & -> & Hlen).
        exists sm, (Some ev :: t1), t2. cbn. repeat split; [done|by rewrite Hlen].
      * destruct (loop (o1 ++ o2) _) as [[s3 tr']|] eqn:Hl2; [|discriminate]. inversion Hl; subst.
        destruct (IH _ _ _ _ Hl2) as (sm & t1 & t2 & -> & H2 & -> & Hlen).
        exists sm, (None :: t1), t2. cbn. repeat split; [done|by rewrite Hlen].
    + destruct (loop (o1 ++ o2) s) as [[s3 tr']|] eqn:Hl2; [|discriminate]. inversion Hl; subst.
      destruct (IH _ _ _ _ Hl2) as (sm & t1 & t2 & -> & H2 & -> & Hlen).
      exists sm, (None :: t1), t2. cbn. repeat split; [done|by rewrite Hlen].
Qed.

(* the state at the moment the node at position [i] runs *)
Lemma loop_at order (s s':st) tr i n ev :
  loop order s = Some (s', tr) -> order !! i = Some n -> tr !! i = Some (Some ev) ->
  exists sm s2 t1 t2,
    loop (take i order) s = Some (sm, t1) /\ dirtyOf sm n = true /\
    run_node n (alter (set_mk MNone) n sm) = Some (s2, ev) /\
    loop (drop (S i) order) s2 = Some (s', t2) /\ tr = t1 ++ Some ev :: t2 /\ length t1 = i.
Proof.
  intros Hl Hi Hti.
  pose proof (take_drop_middle order i n Hi) as Hsplit. rewrite <- Hsplit in Hl.
  destruct (loop_mid _ _ _ _ _ Hl) as (sm & t1 & t2 & H1 & H2 & -> & Hlen).
  rewrite take_length_le in Hlen by (apply lookup_lt_Some in Hi; lia).
  assert (Ht2 : t2 !! 0%nat = Some (Some ev)).
  { rewrite <- Hti, <- Hlen. rewrite lookup_app_r by apply Nat.le_refl. by rewrite Nat.sub_diag. }
  destruct t2 as [|e t2]; [discriminate|]. cbn in Ht2. inversion Ht2; subst e.
  cbn [loop] in H2.
  destruct (sm !! n) as [nd|] eqn:Hn.
  - destruct (dirty nd) eqn:Hd.
    + destruct (run_node n _) as [[s2 ev']|] eqn:Hr; [|discriminate].
      destruct (loop (drop (S i) order) s2) as [[s3 tr']|] eqn:Hl2; [|discriminate]. inversion H2; subst s3 ev' tr'.
      exists sm, s2, t1, t2. split; [done|]. split; [unfold dirtyOf; by rewrite Hn|]. done.
    + destruct (loop (drop (S i) order) _) as [[s3 tr']|]; [|discriminate]. congruence.
  - destruct (loop (drop (S i) order) sm) as [[s3 tr']|]; [|discriminate]. congruence.
Qed.

Lemma LRF_app o1 : forall o2 t1 t2, length t1 = length o1 -> LRF (o1 ++ o2) (t1 ++ t2) ->
  LRF o2 t2 /\ (forall i n t r ch, o1 !! i = Some n -> t1 !! i = Some (Some (t, r, ch)) ->
                  forall x, x ∈ t -> x ∉ drop (S i) o1 ++ o2).
Proof.
  induction o1 as [|n o1 IH]; intros o2 t1 t2 Hlen HL.
  - destruct t1; [|discriminate]. split; [done|]. intros i ? ? ? ? Hc; by rewrite lookup_nil in Hc.
  - destruct t1 as [|e t1]; [discriminate|]. cbn in HL. destruct HL as [HL1 HL2].
    destruct (IH o2 t1 t2 ltac:(cbn in Hlen; lia) HL2) as [H1 H2]. split; [done|].
    intros [|i] m t r ch Hi Hti x Hx; cbn in Hi, Hti.
    + inversion Hti; subst e. cbn. by apply HL1.
    + cbn. eapply H2; eauto.
Qed.

(* the invariant holds at every cut *)
Lemma loop_inv_prefix o1 : forall o2 (s sm:st) t1 t2,
  loop o1 s = Some (sm, t1) -> Inv (o1 ++ o2) s -> LRF (o1 ++ o2) (t1 ++ t2) -> Inv o2 sm.
Proof.
  induction o1 as [|n o1 IH]; intros o2 s sm t1 t2 Hl HI HL; cbn in Hl.
  - by inversion Hl; subst.
  - cbn [app] in HI, HL.
    destruct (s !! n) as [nd|] eqn:Hn.
    + destruct (dirty nd) eqn:Hd.
      * destruct (run_node n _) as [[s2 [[t r] ch]]|] eqn:Hr; [|discriminate].
        destruct (loop o1 s2) as [[s3 tr']|] eqn:Hl2; [|discriminate]. inversion Hl; subst.
        cbn in HL. destruct HL as [HL1 HL2].
        eapply IH; [exact Hl2| |exact HL2].
        eapply step; [apply Inv_set_mk; exact HI| |exact Hr|exact HL1].
        rewrite dirtyOf_proj, projOf_alter_same by done. unfold projOf. by rewrite Hn.
      * destruct (loop o1 _) as [[s3 tr']|] eqn:Hl2; [|discriminate]. inversion Hl; subst.
        cbn in HL. destruct HL as [_ HL2].
        eapply IH; [exact Hl2| |exact HL2]. apply Inv_set_mk. eapply Inv_skip; [exact HI|]. unfold dirtyOf. by rewrite Hn.
    + destruct (loop o1 s) as [[s3 tr']|] eqn:Hl2; [|discriminate]. inversion Hl; subst.
      cbn in HL. destruct HL as [_ HL2].
      eapply IH; [exact Hl2| |exact HL2]. eapply Inv_skip; [exact HI|]. unfold dirtyOf. by rewrite Hn.
Qed.

(* nodes that are not scheduled (any more) keep their value and their dependencies *)
Lemma loop_frame_notin order : forall (s s':st) tr, loop order s = Some (s', tr) ->
  forall d, d ∉ order -> valOf s' d = valOf s d /\ depsOf s' d = depsOf s d.
Proof.
  induction order as [|n rest IH]; intros s s' tr Hl d Hd; cbn in Hl.
  - by inversion Hl; subst.
  - assert (Hdn : d ≠ n) by (intros ->; apply Hd, elem_of_list_here).
    assert (Hdr : d ∉ rest) by (intros ?; apply Hd; by apply elem_of_list_further).
    assert (Mval : valOf (alter (set_mk MNone) n s) d = valOf s d) by (rewrite !valOf_proj; by apply projOf_alter_same).
    assert (Mdeps : depsOf (alter (set_mk MNone) n s) d = depsOf s d) by (rewrite !depsOf_proj; by apply projOf_alter_same).
    destruct (s !! n) as [nd|] eqn:Hn.
    + destruct (dirty nd).
      * destruct (run_node n _) as [[s2 [[t r] ch]]|] eqn:Hr; [|discriminate].
        destruct (loop rest s2) as [[s3 tr']|] eqn:Hl2; [|discriminate]. inversion Hl; subst.
        destruct (IH _ _ _ Hl2 d Hdr) as [Iv Id]. rewrite Iv, Id.
        destruct (run_node_spec _ _ _ _ _ _ Hr) as (nd1 & f & k & v & _ & _ & _ & _ & _ & _ & Sval & _ & Sdeps & _).
        rewrite Sval, Sdeps, !decide_False by done. done.
      * destruct (loop rest _) as [[s3 tr']|] eqn:Hl2; [|discriminate]. inversion Hl; subst.
        destruct (IH _ _ _ Hl2 d Hdr) as [Iv Id]. by rewrite Iv, Id.
    + destruct (loop rest s) as [[s3 tr']|] eqn:Hl2; [|discriminate]. inversion Hl; subst.
      exact (IH _ _ _ Hl2 d Hdr).
Qed.

Lemma values_eq (a b : st) d : (is_Some (a !! d) <-> is_Some (b !! d)) -> valOf a d = valOf b d -> values a d = values b d.
Proof.
  intros Hd Hv. rewrite !values_valOf, Hv. destruct (a !! d), (b !! d); try done.
  - exfalso. destruct Hd as [Hd _]. destruct Hd; eauto; discriminate.
  - exfalso. destruct Hd as [_ Hd]. destruct Hd; eauto; discriminate.
Qed.

(* ---------- reads during a propagation ---------- *)
(* [d] is settled in [sm] with respect to the remaining schedule [rest] and the final state [s']:
   it will not run any more, is not dirty, is consistent, and already holds its final value *)
Definition settled (rest : list id) (sm s' : st) (d : id) : Prop :=
  d ∉ rest /\ dirtyOf sm d = false /\ cons sm d /\ values sm d = values s' d.

Theorem loop_reads_settled order (s s':st) tr i n t r ch :
  loop order s = Some (s', tr) -> Inv order s -> LRF order tr ->
  order !! i = Some n -> tr !! i = Some (Some (t, r, ch)) ->
  exists sm nd f k v0,
    (* the state in which the callback of [n] is evaluated (up to the mark of [n]) *)
    loop (take i order) s = Some (sm, take i tr) /\
    sm !! n = Some nd /\ dirty nd = true /\ cb nd = Some (f, k) /\
    eval f (values sm) = Some (v0, t, r) /\ ch = negb (eqk k v0 (val nd)) /\
    valOf s' n = (if ch then v0 else val nd) /\
    (* every tracked read, and every dependency of a tracked read, is settled *)
    (forall d, d ∈ t -> settled (n :: drop (S i) order) sm s' d /\
                        forall e, e ∈ depsOf sm d -> settled (n :: drop (S i) order) sm s' e) /\
    (* so is any other (untracked) read, provided it does not hit a node that is still scheduled *)
    (forall d, d ∈ r -> d ∉ drop (S i) order -> settled (n :: drop (S i) order) sm s' d).
Proof.
  intros Hl HI HL Hi Hti.
  destruct (loop_at _ _ _ _ _ _ _ Hl Hi Hti) as (sm & s2 & t1 & t2 & H1 & Hdirty & Hrun & H2 & -> & Hlen).
  pose proof (take_drop_middle order i n Hi) as Hsplit.
  assert (HI' : Inv (take i order ++ n :: drop (S i) order) s) by (by rewrite Hsplit).
  assert (HL' : LRF (take i order ++ n :: drop (S i) order) (t1 ++ Some (t, r, ch) :: t2)) by (by rewrite Hsplit).
  pose proof (loop_inv_prefix _ _ _ _ _ _ H1 HI' HL') as HIm.
  assert (Hlen1 : length t1 = length (take i order)).
  { rewrite take_length_le; [done|]. apply lookup_lt_Some in Hi. lia. }
  destruct (LRF_app _ _ _ _ Hlen1 HL') as [HLm _]. cbn in HLm. destruct HLm as [HLt HLrest].
  set (rest := drop (S i) order) in *.
  destruct (run_node_spec _ _ _ _ _ _ Hrun) as
    (nd1 & f & k & v0 & Hn1 & Hcb1 & Hev & Hnr & Hch & _ & Sval & Sdom & Sdeps & _).
  assert (Hv1 : forall d, values (alter (set_mk MNone) n sm) d = values sm d).
  { intros d. unfold values. destruct (decide (n = d)) as [->|?].
    - rewrite lookup_alter, <- option_fmap_compose. by destruct (sm !! d).
    - by rewrite lookup_alter_ne. }
  rewrite (eval_ext f _ (values sm) Hv1) in Hev.
  destruct (sm !! n) as [nd|] eqn:Hn; [|unfold dirtyOf in Hdirty; rewrite Hn in Hdirty; discriminate].
  rewrite lookup_alter, Hn in Hn1. cbn in Hn1. inversion Hn1; subst nd1. cbn in Hcb1, Hch.
  assert (Hndrest : NoDup (n :: rest)) by apply (iF _ _ HIm).
  assert (Hnrest : n ∉ rest) by (by apply NoDup_cons in Hndrest as [? _]).
  (* values outside the remaining schedule are final *)
  assert (Hfinal : forall d, d ∉ n :: rest -> values sm d = values s' d).
  { intros d Hd.
    assert (Hdn : d ≠ n) by (intros ->; apply Hd, elem_of_list_here).
    assert (Hdr : d ∉ rest) by (intros ?; apply Hd; by apply elem_of_list_further).
    destruct (loop_frame_notin _ _ _ _ H2 d Hdr) as [Fv _].
    destruct (loop_frame _ _ _ _ H2) as (_ & Fdom & _).
    rewrite <- Hv1. symmetry. apply values_eq.
    - rewrite Fdom. apply Sdom.
    - rewrite Fv, Sval. by rewrite decide_False. }
  assert (Hsettled : forall d, d ∉ n :: rest -> settled (n :: rest) sm s' d).
  { intros d Hd. split; [done|].
    assert (Hdd : dirtyOf sm d = false).
    { destruct (dirtyOf sm d) eqn:E; [|done]. exfalso. apply Hd. by apply (iB _ _ HIm). }
    split; [done|]. split; [by apply (iA _ _ HIm)|by apply Hfinal]. }
  exists sm, nd, f, k, v0.
  split. { rewrite take_app_alt by done. exact H1. }
  split; [done|]. split. { unfold dirtyOf in Hdirty. by rewrite Hn in Hdirty. }
  split; [done|]. split; [done|]. split; [done|]. split.
  { destruct (loop_frame_notin _ _ _ _ H2 n Hnrest) as [Fv _]. rewrite Fv, Sval. by rewrite decide_True. }
  split.
  - intros d Hd.
    assert (Hdout : d ∉ n :: rest).
    { intros Hc. apply elem_of_cons in Hc as [->|Hc].
      - apply Hnr. eapply eval_tracked_sub; eauto.
      - by apply (HLt d). }
    split; [by apply Hsettled|].
    intros e He. apply Hsettled. intros Hc.
    destruct (before_elem _ _ _ (iDE _ _ HIm d e He Hc)) as [_ ?]. contradiction.
  - intros d Hd Hdr. apply Hsettled. intros Hc. apply elem_of_cons in Hc as [->|Hc]; contradiction.
Qed.

(* ---------- why a node runs ---------- *)
Lemma loop_cause rest : forall (s s':st) tr (C : id -> Prop),
  loop rest s = Some (s', tr) -> Inv rest s -> LRF rest tr ->
  (forall n, dirtyOf s n = true -> C n) ->
  forall i n ev, rest !! i = Some n -> tr !! i = Some (Some ev) ->
    C n \/ exists j d t r, (j < i)%nat /\ rest !! j = Some d /\ tr !! j = Some (Some (t, r, true)) /\ d ∈ depsOf s n.
Proof.
  induction rest as [|n0 rest IH]; intros s s' tr C Hl HI HL HC i n ev Hi Hti; [by rewrite lookup_nil in Hi|].
  cbn in Hl.
  assert (HI1 : Inv (n0 :: rest) (alter (set_mk MNone) n0 s)) by (by apply Inv_set_mk).
  assert (Mdirty : forall y, dirtyOf (alter (set_mk MNone) n0 s) y = dirtyOf s y)
    by (intros; rewrite !dirtyOf_proj; by apply projOf_alter_same).
  assert (Mdeps : forall y, depsOf (alter (set_mk MNone) n0 s) y = depsOf s y)
    by (intros; rewrite !depsOf_proj; by apply projOf_alter_same).
  assert (Hnd : NoDup (n0 :: rest)) by apply (iF _ _ HI).
  assert (Hshift : forall (s1:st) tr' e, loop rest s1 = Some (s', tr') -> Inv rest s1 -> LRF rest tr' ->
             (forall y, dirtyOf s1 y = true -> C y) -> (forall y, y ∈ rest -> depsOf s1 y = depsOf s y) ->
             tr = e :: tr' -> forall i', i = S i' ->
             C n \/ exists j d t r, (j < i)%nat /\ (n0 :: rest) !! j = Some d /\ tr !! j = Some (Some (t, r, true)) /\ d ∈ depsOf s n).
  { intros s1 tr' e Hl1 HI1' HL1 HC1 Hd1 -> i' ->. cbn in Hi, Hti.
    destruct (IH _ _ _ C Hl1 HI1' HL1 HC1 i' n ev Hi Hti) as [?|(j & d & t & r & Hj & Hjd & Hjt & Hdn)]; [by left|].
    right. exists (S j), d, t, r. split; [lia|]. split; [done|]. split; [done|].
    rewrite <- Hd1; [done|]. by eapply elem_of_list_lookup_2. }
  destruct (s !! n0) as [nd|] eqn:Hn0.
  - destruct (dirty nd) eqn:Hd.
    + destruct (run_node n0 _) as [[s2 [[t0 r0] ch0]]|] eqn:Hr; [|discriminate].
      destruct (loop rest s2) as [[s3 tr']|] eqn:Hl2; [|discriminate]. inversion Hl; subst s3 tr; clear Hl.
      cbn in HL. destruct HL as [HL1 HL2].
      assert (Hdirty0 : dirtyOf (alter (set_mk MNone) n0 s) n0 = true).
      { rewrite Mdirty. unfold dirtyOf. by rewrite Hn0. }
      pose proof (step _ _ _ _ _ _ _ HI1 Hdirty0 Hr HL1) as HI2.
      destruct (run_node_spec _ _ _ _ _ _ Hr) as
        (nd1 & f & k & v & _ & _ & _ & _ & _ & _ & _ & _ & Sdeps & _ & Sdirty).
      destruct i as [|i'].
      * cbn in Hi. inversion Hi; subst n. left. apply HC. unfold dirtyOf. by rewrite Hn0.
      * cbn in Hi, Hti.
        assert (Hn_rest : n ∈ rest) by (by eapply elem_of_list_lookup_2).
        assert (Hne : n ≠ n0) by (intros ->; by apply NoDup_cons in Hnd as [? _]).
        destruct (IH _ _ _ (fun m => C m \/ (ch0 = true /\ n0 ∈ depsOf s m)) Hl2 HI2 HL2) with (i := i') (n := n) (ev := ev)
          as [[?|[Hch Hin]]|(j & d & t & r & Hj & Hjd & Hjt & Hdn)]; [|done|done|by left| |].
        -- intros m Hm.
           assert (Hm_rest : m ∈ rest) by (by apply (iB _ _ HI2)).
           assert (Hmne : m ≠ n0) by (intros ->; by apply NoDup_cons in Hnd as [? _]).
           rewrite Sdirty, decide_False in Hm by done. apply orb_true_iff in Hm as [Hm|Hm].
           ++ left. apply HC. by rewrite <- Mdirty.
           ++ right. apply andb_true_iff in Hm as [Hch Hm]. split; [done|].
              apply bool_decide_eq_true in Hm as [Hm _]. apply (iC _ _ HI2) in Hm.
              rewrite Sdeps, decide_False, Mdeps in Hm by done. done.
        -- right. subst ch0. exists 0%nat, n0, t0, r0. split; [lia|]. done.
        -- right. exists (S j), d, t, r. split; [lia|]. split; [done|]. split; [done|].
           rewrite Sdeps, decide_False, Mdeps in Hdn by done. done.
    + destruct (loop rest _) as [[s3 tr']|] eqn:Hl2; [|discriminate]. inversion Hl; subst s3 tr; clear Hl.
      cbn in HL. destruct HL as [_ HL2].
      destruct i as [|i']; [cbn in Hti; discriminate|].
      eapply Hshift; [exact Hl2| |exact HL2| | |reflexivity|reflexivity].
      * eapply Inv_skip; [exact HI1|]. rewrite Mdirty. unfold dirtyOf. by rewrite Hn0.
      * intros y. rewrite Mdirty. apply HC.
      * intros y _. apply Mdeps.
  - destruct (loop rest s) as [[s3 tr']|] eqn:Hl2; [|discriminate]. inversion Hl; subst s3 tr; clear Hl.
    cbn in HL. destruct HL as [_ HL2].
    destruct i as [|i']; [cbn in Hti; discriminate|].
    eapply Hshift; [exact Hl2| |exact HL2|exact HC|done|reflexivity|reflexivity].
    eapply Inv_skip; [exact HI|]. unfold dirtyOf. by rewrite Hn0.
Qed.

Lemma lookup_app_after {A} (l1 l2 : list A) x j i : length l1 = j -> (l1 ++ x :: l2) !! (S j + i)%nat = l2 !! i.
Proof. intros <-. rewrite lookup_app_r by lia. replace (S (length l1) + i - length l1)%nat with (S i) by lia. done. Qed.

(* conversely, a node that is dirty when the loop starts does run *)
Lemma loop_dirty_runs rest : forall (s s':st) tr,
  loop rest s = Some (s', tr) -> Inv rest s -> LRF rest tr ->
  forall n, dirtyOf s n = true -> exists i ev, rest !! i = Some n /\ tr !! i = Some (Some ev).
Proof.
  induction rest as [|n0 rest IH]; intros s s' tr Hl HI HL n Hn.
  { exfalso. pose proof (iB _ _ HI n Hn) as Hc. by apply elem_of_nil in Hc. }
  cbn in Hl.
  assert (Mdirty : forall y, dirtyOf (alter (set_mk MNone) n0 s) y = dirtyOf s y)
    by (intros; rewrite !dirtyOf_proj; by apply projOf_alter_same).
  destruct (s !! n0) as [nd|] eqn:Hn0.
  - destruct (dirty nd) eqn:Hd.
    + destruct (run_node n0 _) as [[s2 [[t0 r0] ch0]]|] eqn:Hr; [|discriminate].
      destruct (loop rest s2) as [[s3 tr']|] eqn:Hl2; [|discriminate]. inversion Hl; subst s3 tr; clear Hl.
      cbn in HL. destruct HL as [HL1 HL2].
      destruct (decide (n = n0)) as [->|Hne]; [by exists 0%nat, (t0, r0, ch0)|].
      assert (Hdirty0 : dirtyOf (alter (set_mk MNone) n0 s) n0 = true).
      { rewrite Mdirty. unfold dirtyOf. by rewrite Hn0. }
      pose proof (step _ _ _ _ _ _ _ (Inv_set_mk _ _ _ _ HI) Hdirty0 Hr HL1) as HI2.
      destruct (run_node_spec _ _ _ _ _ _ Hr) as (nd1 & f & k & v & _ & _ & _ & _ & _ & _ & _ & _ & _ & _ & Sdirty).
      destruct (IH _ _ _ Hl2 HI2 HL2 n) as (i & ev & Hi & Hti).
      { rewrite Sdirty, decide_False, Mdirty, Hn by done. done. }
      by exists (S i), ev.
    + destruct (loop rest _) as [[s3 tr']|] eqn:Hl2; [|discriminate]. inversion Hl; subst s3 tr; clear Hl.
      cbn in HL. destruct HL as [_ HL2].
      assert (Hne : n ≠ n0). { intros ->. unfold dirtyOf in Hn. rewrite Hn0 in Hn. congruence. }
      destruct (IH _ _ _ Hl2 ltac:(apply Inv_set_mk; eapply Inv_skip; [exact HI|unfold dirtyOf; by rewrite Hn0]) HL2 n) as (i & ev & Hi & Hti).
      { by rewrite Mdirty. }
      by exists (S i), ev.
  - destruct (loop rest s) as [[s3 tr']|] eqn:Hl2; [|discriminate]. inversion Hl; subst s3 tr; clear Hl.
    cbn in HL. destruct HL as [_ HL2].
    destruct (IH _ _ _ Hl2 ltac:(eapply Inv_skip; [exact HI|unfold dirtyOf; by rewrite Hn0]) HL2 n Hn) as (i & ev & Hi & Hti).
    by exists (S i), ev.
Qed.

(* ---------- statements about a whole write ---------- *)
Section write.
  Context (s s' : st) (x : id) (v : Z) (order : list id) (tr : list event).
  Context (Q : Quiescent s) (Hw : write x v s = POk s' order tr).

  (* what [write] computed, unpacked: [s3] is the state handed to the loop *)
  Lemma write_inv : exists sig rest s3,
    s !! x = Some sig /\ cb sig = None /\ order = x :: rest /\
    (forall n, n ∈ order -> rtc (edge s) x n) /\
    (forall n, depsOf s3 n = depsOf s n) /\ (forall n, dependentsOf s3 n = dependentsOf s n) /\
    (forall n, dirtyOf s3 n = true <-> n ∈ dependentsOf s x) /\
    Inv order s3 /\ loop order s3 = Some (s', tr).
  Proof.
    pose proof Hw as Hw0. unfold write in Hw0.
    destruct (s !! x) as [sig|] eqn:Hx; [|discriminate].
    destruct (cb sig) as [?|] eqn:Hcb; [discriminate|].
    pose proof (write_unfold s x v sig Hx Hcb) as Hw'. rewrite Hw in Hw'. cbv zeta in Hw'.
    destruct (dfs_establishes_inv s x sig v Q Hx Hcb) as (s2 & buf & Hdfs & Her & Hmk2 & Hxbuf & Hreach & [buf' ->] & HI).
    cbv zeta in Hdfs. rewrite Hdfs in Hw'.
    destruct (loop (rev (buf' ++ [x])) _) as [[s4 tr4]|] eqn:Hl; [|discriminate]. inversion Hw'; subst.
    rewrite rev_app_distr in *. cbn [rev app] in *.
    exists sig, (rev buf'), (mark_dependents_dirty x s2).
    split; [done|]. split; [done|]. split; [done|]. split.
    { intros n Hn. apply Hreach. apply elem_of_cons in Hn as [->|Hn]; [done|].
      apply elem_of_app. left. by rewrite <- elem_of_rev. }
    assert (Hdpt2 : forall n, dependentsOf s2 n = dependentsOf s n).
    { intros n. rewrite (erase_dependents _ _ n Her). rewrite !dependentsOf_proj. by apply (store_proj s x sig v Hx). }
    split. { intros n. rewrite depsOf_proj, mdd_same by done. rewrite <- depsOf_proj.
             rewrite (erase_deps _ _ n Her). rewrite !depsOf_proj. by apply (store_proj s x sig v Hx). }
    split. { intros n. rewrite dependentsOf_proj, mdd_same by done. rewrite <- dependentsOf_proj. apply Hdpt2. }
    split; [|done].
    intros n. rewrite mdd_dirty, (erase_dirty _ _ n Her), Hdpt2.
    assert (Hd1 : dirtyOf (<[x := set_val v sig]> s) n = dirtyOf s n).
    { rewrite !dirtyOf_proj. by apply (store_proj s x sig v Hx). }
    rewrite Hd1, (qD _ Q). cbn. rewrite bool_decide_eq_true. split; [tauto|]. intros H. split; [done|].
    apply (erase_dom _ _ n Her), (store_dom s x sig v Hx). by destruct (Quiescent_edges_live _ _ _ Q H).
  Qed.

  (* the schedule: no duplicates (at most one run per node), one trace entry per scheduled node,
     starts with the written signal, contains only nodes reachable from it through subscriber edges *)
  Theorem write_schedule :
    NoDup order /\ length tr = length order /\ order !! 0%nat = Some x /\ (forall n, n ∈ order -> rtc (edge s) x n).
  Proof.
    destruct write_inv as (sig & rest & s3 & Hx & Hcb & -> & Hreach & _ & _ & _ & HI & Hl).
    split; [apply (iF _ _ HI)|]. split; [by eapply loop_trace_length|]. done.
  Qed.

  Context (HL : LRF order tr).

  (* when a node runs it is dirty, and everything it reads with tracking (and every dependency of what it
     reads) is settled: no longer scheduled, not dirty, consistent, already holding its final value *)
  Theorem write_reads_settled i n t r ch :
    order !! i = Some n -> tr !! i = Some (Some (t, r, ch)) ->
    exists sm nd f k v0,
      sm !! n = Some nd /\ dirty nd = true /\ cb nd = Some (f, k) /\
      eval f (values sm) = Some (v0, t, r) /\ ch = negb (eqk k v0 (val nd)) /\
      valOf s' n = (if ch then v0 else val nd) /\
      (forall d, d ∈ t -> settled (n :: drop (S i) order) sm s' d /\
                          forall e, e ∈ depsOf sm d -> settled (n :: drop (S i) order) sm s' e) /\
      (forall d, d ∈ r -> d ∉ drop (S i) order -> settled (n :: drop (S i) order) sm s' d).
  Proof.
    intros Hi Hti.
    destruct write_inv as (sig & rest & s3 & Hx & Hcb & Ho & Hreach & _ & _ & _ & HI & Hl).
    destruct (loop_reads_settled _ _ _ _ _ _ _ _ _ Hl HI HL Hi Hti) as (sm & nd & f & k & v0 & _ & H).
    exists sm, nd, f, k, v0. exact H.
  Qed.

  (* a node runs only if one of the dependencies it had before the write is the written signal, or a
     computation that ran earlier in this propagation and changed *)
  Theorem write_runs_only_if_fired i n ev :
    order !! i = Some n -> tr !! i = Some (Some ev) ->
    exists d, d ∈ depsOf s n /\
      (d = x \/ exists j t r, (j < i)%nat /\ order !! j = Some d /\ tr !! j = Some (Some (t, r, true))).
  Proof.
    intros Hi Hti.
    destruct write_inv as (sig & rest & s3 & Hx & Hcb & Ho & Hreach & Hdeps3 & Hdpt3 & Hdirty3 & HI & Hl).
    destruct (loop_cause _ _ _ _ (fun m => x ∈ depsOf s m) Hl HI HL) with (i := i) (n := n) (ev := ev)
      as [Hc|(j & d & t & r & Hj & Hjd & Hjt & Hd)]; [|done|done| |].
    - intros m Hm. apply Hdirty3 in Hm. by apply (qC _ Q).
    - exists x. split; [done|by left].
    - exists d. split; [by rewrite <- Hdeps3|]. right. by exists j, t, r.
  Qed.

  (* ... and if: every node with a dependency that fired does run (later than that dependency) *)
  Theorem write_runs_if_fired n d :
    d ∈ depsOf s n ->
    (d = x \/ exists j t r, order !! j = Some d /\ tr !! j = Some (Some (t, r, true))) ->
    exists i ev, order !! i = Some n /\ tr !! i = Some (Some ev).
  Proof.
    intros Hd Hfired.
    destruct write_inv as (sig & rest & s3 & Hx & Hcb & Ho & Hreach & Hdeps3 & Hdpt3 & Hdirty3 & HI & Hl).
    destruct Hfired as [->|(j & t & r & Hj & Htj)].
    { eapply loop_dirty_runs; [exact Hl|exact HI|exact HL|]. apply Hdirty3. by apply (qC _ Q). }
    (* d is before n in the schedule *)
    assert (Hdn : before order d n).
    { apply (iDE _ _ HI); [by rewrite Hdeps3|by eapply elem_of_list_lookup_2]. }
    destruct Hdn as (a & b & Ha & Hb & Hab).
    assert (a = j) by (eapply NoDup_lookup; [apply (iF _ _ HI)|exact Ha|exact Hj]). subst a.
    assert (Hne : n ≠ d).
    { intros ->. assert (b = j) by (eapply NoDup_lookup; [apply (iF _ _ HI)|exact Hb|exact Hj]). lia. }
    assert (Hnpre : n ∉ take j order).
    { intros Hin. apply elem_of_list_lookup in Hin as [c Hc].
      pose proof (lookup_lt_Some _ _ _ Hc) as Hlt. rewrite take_length in Hlt.
      rewrite lookup_take in Hc by lia.
      assert (c = b) by (eapply NoDup_lookup; [apply (iF _ _ HI)|exact Hc|exact Hb]). lia. }
    destruct (loop_at _ _ _ _ _ _ _ Hl Hj Htj) as (sm & s2 & t1 & t2 & H1 & Hdirty & Hrun & H2 & Htr & Hlen).
    pose proof (take_drop_middle order j d Hj) as Hsplit.
    assert (HI' : Inv (take j order ++ d :: drop (S j) order) s3) by (by rewrite Hsplit).
    assert (HL' : LRF (take j order ++ d :: drop (S j) order) (t1 ++ Some (t, r, true) :: t2)) by (by rewrite Hsplit, <- Htr).
    pose proof (loop_inv_prefix _ _ _ _ _ _ H1 HI' HL') as HIm.
    assert (Hlen1 : length t1 = length (take j order)).
    { rewrite take_length_le; [done|]. apply lookup_lt_Some in Hj. lia. }
    destruct (LRF_app _ _ _ _ Hlen1 HL') as [HLm _]. cbn in HLm. destruct HLm as [HLt HLrest].
    assert (Hdirty1 : dirtyOf (alter (set_mk MNone) d sm) d = true).
    { rewrite dirtyOf_proj, projOf_alter_same by done. by rewrite <- dirtyOf_proj. }
    pose proof (step _ _ _ _ _ _ _ (Inv_set_mk _ _ _ _ HIm) Hdirty1 Hrun HLt) as HI2.
    destruct (run_node_spec _ _ _ _ _ _ Hrun) as (nd1 & f & k & v0 & _ & _ & _ & _ & _ & _ & _ & Sdom & Sdeps & _ & Sdirty).
    (* n still has the dependencies it had before the write *)
    assert (Hdeps_n : depsOf s2 n = depsOf s n).
    { rewrite Sdeps, decide_False by done. rewrite depsOf_proj, projOf_alter_same by done. rewrite <- depsOf_proj.
      destruct (loop_frame_notin _ _ _ _ H1 n Hnpre) as [_ ->]. apply Hdeps3. }
    assert (Hn2 : dirtyOf s2 n = true).
    { rewrite Sdirty, decide_False by done. apply orb_true_iff. right. cbn. apply bool_decide_eq_true. split.
      - apply (iC _ _ HI2). by rewrite Hdeps_n.
      - apply Sdom. rewrite <- Hdeps_n in Hd. unfold depsOf in Hd.
        destruct (s2 !! n); [eauto|by apply elem_of_nil in Hd]. }
    destruct (loop_dirty_runs _ _ _ _ H2 HI2 HLrest n Hn2) as (i & ev & Hi & Hti).
    exists (S j + i)%nat, ev. split.
    - by rewrite <- lookup_drop.
    - rewrite Htr, <- Hti. apply lookup_app_after. exact Hlen.
  Qed.
End write.

Print Assumptions write_schedule.
Print Assumptions write_reads_settled.
Print Assumptions write_runs_only_if_fired.
Print Assumptions write_runs_if_fired.
