From stdpp Require Import gmap list.
Require Import ZArith Lia.
From Syc.ReactivePure Require Import Pure Loop LoopInv Ops Spec.
Open Scope Z_scope.

Lemma values_valOf (s:st) x : values s x = match s !! x with Some _ => Some (valOf s x) | None => None end.
Proof. unfold values, valOf. destruct (s !! x); done. Qed.

Lemma before_tail n rest d m : NoDup (n :: rest) -> before (n :: rest) d m -> d ∈ rest -> before rest d m.
Proof.
  intros Hnd (i & j & Hi & Hj & Hlt) Hd.
  destruct i as [|i].
  - cbn in Hi. inversion Hi; subst. apply NoDup_cons in Hnd as [Hn _]. contradiction.
  - destruct j as [|j]; [lia|]. exists i, j. cbn in Hi, Hj. repeat split; [done|done|lia].
Qed.

Lemma before_head_in n rest m : NoDup (n :: rest) -> before (n :: rest) n m -> m ∈ rest.
Proof.
  intros Hnd (i & j & Hi & Hj & Hlt).
  destruct j as [|j]; [lia|]. cbn in Hj. by eapply elem_of_list_lookup_2.
Qed.

Lemma before_irrefl l a : NoDup l -> ~ before l a a.
Proof.
  intros Hnd (i & j & Hi & Hj & Hlt).
  assert (i = j) by (eapply NoDup_lookup; eauto). lia.
Qed.

Lemma agrees_after k v old : agrees k v (if negb (eqk k v old) then v else old).
Proof.
  destruct k as [|k]; cbn.
  - reflexivity.
  - destruct (Z.eqb k 0) eqn:Ek.
    + destruct (Z.eqb v old) eqn:E; cbn; [done|]. apply Z.eqb_refl.
    + destruct (Z.eqb (v mod k) (old mod k)) eqn:E; cbn; [done|]. apply Z.eqb_refl.
Qed.

Lemma step n rest (s s2:st) t r ch :
  Inv (n :: rest) s -> dirtyOf s n = true ->
  run_node n s = Some (s2, (t, r, ch)) ->
  (forall x, x ∈ t -> x ∉ rest) ->
  Inv rest s2.
Proof.
  intros [HA HB HC HDE HF HH] Hdirty Hrun Hlrf.
  destruct (run_node_spec _ _ _ _ _ _ Hrun) as
    (nd & f & k & v & Hn & Hcb & Hev & Hnr & Hch & Scb & Sval & Sdom & Sdeps & Sdpt & Sdirty).
  assert (Hnd' : NoDup rest) by (by apply NoDup_cons in HF as [_ ?]).
  assert (Hnrest : n ∉ rest) by (by apply NoDup_cons in HF as [? _]).
  assert (Hdeps_n : depsOf s n = deps nd) by (unfold depsOf; by rewrite Hn).
  (* n is not among its own dependencies / dependents *)
  assert (Hself : n ∉ deps nd).
  { intros Hin. apply (before_irrefl (n :: rest) n HF). apply HDE; [by rewrite Hdeps_n|set_solver]. }
  assert (Hnt : n ∉ t) by (intros Hin; apply Hnr; eapply eval_tracked_sub; eauto).
  assert (Hdpt_n : forall m, m ∈ dependentsOf s2 n <-> m ∈ dependentsOf s n).
  { intros m. rewrite Sdpt by (rewrite Hn; eauto). split.
    - intros [[? _]|[_ ?]]; [done|contradiction].
    - intros Hm. left. split; [done|]. intros Hc; contradiction. }
  assert (Hn_notin_own : n ∉ dependentsOf s2 n).
  { rewrite Hdpt_n, HC, Hdeps_n. exact Hself. }
  split.
  - (* A *)
    intros x Hx. unfold cons.
    destruct (s2 !! x) as [ndx2|] eqn:Ex2; [|done].
    assert (Hsx : is_Some (s !! x)) by (apply Sdom; rewrite Ex2; eauto).
    destruct Hsx as [ndx Ex].
    pose proof (Scb x) as Hcbx. unfold cbOf in Hcbx. rewrite Ex2, Ex in Hcbx.
    destruct (cb ndx2) as [[fx kx]|] eqn:Ecb2; [|done].
    pose proof (Sdeps x) as Hdx. unfold depsOf in Hdx. rewrite Ex2, Ex in Hdx.
    pose proof (Sval x) as Hvx. unfold valOf in Hvx. rewrite Ex2, Ex in Hvx.
    destruct (decide (x = n)) as [->|Hne].
    + (* the node that just ran *)
      rewrite Hn in Ex. inversion Ex; subst ndx. rewrite Hcb in Hcbx. inversion Hcbx; subst fx kx.
      exists (values s), v, r. split; [|split].
      * intros d Hd. rewrite Hdx in Hd. rewrite !values_valOf.
        assert (d ≠ n) by (intros ->; contradiction).
        pose proof (Sdom d) as Hdd. pose proof (Sval d) as Hvd. rewrite decide_False in Hvd by done.
        destruct (s2 !! d) eqn:E2, (s !! d) eqn:E1; try done.
        -- by rewrite Hvd.
        -- exfalso. destruct Hdd as [Hdd _]. destruct Hdd; eauto; discriminate.
        -- exfalso. destruct Hdd as [_ Hdd]. destruct Hdd; eauto; discriminate.
      * rewrite Hdx. exact Hev.
      * rewrite Hvx, Hch. apply agrees_after.
    + (* another node: keep the old witness *)
      rewrite Sdirty, decide_False in Hx by done. apply orb_false_iff in Hx as [Hxd Hxm].
      specialize (HA x Hxd). unfold cons in HA. rewrite Ex in HA. rewrite <- Hcbx in HA.
      destruct HA as (rho & vx & rx & Hag & Hevx & Hagx).
      exists rho, vx, rx. split; [|split].
      * intros d Hd. rewrite Hdx in Hd. rewrite (Hag d Hd). rewrite !values_valOf.
        pose proof (Sdom d) as Hdd. pose proof (Sval d) as Hvd.
        destruct (decide (d = n)) as [->|Hdn].
        -- (* x depends on n: then x was just marked unless n did not change *)
           rewrite Hn. destruct (s2 !! n) eqn:E2n; [|exfalso; destruct Hdd as [_ Hdd]; destruct Hdd; eauto; discriminate].
           rewrite Hvd. unfold valOf; rewrite Hn.
           destruct ch; [|done].
           exfalso. cbn in Hxm. apply bool_decide_eq_false in Hxm. apply Hxm.
           split; [|rewrite Ex; eauto]. rewrite Hdpt_n, HC. unfold depsOf; by rewrite Ex.
        -- destruct (s2 !! d) eqn:E2, (s !! d) eqn:E1; try done.
           ++ by rewrite Hvd.
           ++ exfalso. destruct Hdd as [Hdd _]. destruct Hdd; eauto; discriminate.
           ++ exfalso. destruct Hdd as [_ Hdd]. destruct Hdd; eauto; discriminate.
      * rewrite Hdx. exact Hevx.
      * by rewrite Hvx.
  - (* B *)
    intros x Hx. rewrite Sdirty in Hx. destruct (decide (x = n)) as [->|Hne].
    + apply andb_true_iff in Hx as [_ Hx]. apply bool_decide_eq_true in Hx as [Hx _]. contradiction.
    + apply orb_true_iff in Hx as [Hx|Hx].
      * specialize (HB x Hx). set_solver.
      * apply andb_true_iff in Hx as [_ Hx]. apply bool_decide_eq_true in Hx as [Hx _].
        rewrite Hdpt_n, HC in Hx. eapply before_head_in; [exact HF|]. apply HDE; [done|set_solver].
  - (* C *)
    intros x m. rewrite Sdeps.
    destruct (s !! x) as [ndx|] eqn:Ex.
    + rewrite Sdpt by (rewrite Ex; eauto). destruct (decide (m = n)) as [->|Hmn].
      * split.
        -- intros [[Hin Himp]|[_ ?]]; [|done]. exfalso. apply HC in Hin. rewrite Hdeps_n in Hin. by apply Himp.
        -- intros Hin. right. done.
      * rewrite HC. split; [intros [[? _]|[? _]]; done|]. intros Hin. left. split; [done|]. intros _. done.
    + (* x dead in s, hence in s2 *)
      assert (Ex2 : s2 !! x = None).
      { destruct (s2 !! x) eqn:E; [|done]. exfalso. assert (is_Some (s !! x)) as [? ?] by (apply Sdom; rewrite E; eauto). congruence. }
      unfold dependentsOf at 1. rewrite Ex2. split; [set_solver|].
      intros Hin. exfalso. destruct (decide (m = n)) as [->|Hmn].
      * (* x ∈ t but x dead: eval read it, so it is live *)
        assert (Hxr : x ∈ r) by (eapply eval_tracked_sub; eauto).
        clear -Hev Hxr Ex. revert v t r Hev Hxr. induction f as [z|tr y|op a IHa b IHb|c IHc a IHa b IHb]; intros v t r Hev Hxr; cbn in Hev.
        -- inversion Hev; subst. set_solver.
        -- destruct (values s y) eqn:Ey; [|discriminate]. inversion Hev; subst.
           apply elem_of_list_singleton in Hxr as ->. unfold values in Ey. rewrite Ex in Ey. discriminate.
        -- destruct (eval a (values s)) as [[[va ta] ra]|]; [|discriminate].
           destruct (eval b (values s)) as [[[vb tb] rb]|]; [|discriminate]. inversion Hev; subst.
           apply elem_of_app in Hxr as [?|?]; eauto.
        -- destruct (eval c (values s)) as [[[vc tc] rc]|]; [|discriminate].
           destruct (Z.eqb vc 0).
           ++ destruct (eval b (values s)) as [[[vb tb] rb]|]; [|discriminate]. inversion Hev; subst.
              apply elem_of_app in Hxr as [?|?]; eauto.
           ++ destruct (eval a (values s)) as [[[va ta] ra]|]; [|discriminate]. inversion Hev; subst.
              apply elem_of_app in Hxr as [?|?]; eauto.
      * apply HC in Hin. unfold dependentsOf in Hin. rewrite Ex in Hin. set_solver.
  - (* DE *)
    intros m d Hd Hdr. rewrite Sdeps in Hd. destruct (decide (m = n)) as [->|Hmn].
    + exfalso. by apply (Hlrf d).
    + eapply before_tail; [exact HF| |done]. apply HDE; [done|set_solver].
  - exact Hnd'.
  - (* H *)
    intros x Hx. rewrite Scb in Hx. destruct (HH x Hx) as [Hxd Hxe].
    assert (x ≠ n). { intros ->. unfold cbOf in Hx. rewrite Hn, Hcb in Hx. discriminate. }
    split.
    + rewrite Sdirty, decide_False by done. rewrite Hxd. cbn.
      destruct ch; [|done]. cbn. apply bool_decide_eq_false. intros [Hq _]. rewrite Hdpt_n, HC, Hxe in Hq. set_solver.
    + rewrite Sdeps, decide_False by done. exact Hxe.
Qed.

(* marks are irrelevant to the invariant *)
Lemma Inv_set_mk rest n m (s:st) : Inv rest s -> Inv rest (alter (set_mk m) n s).
Proof.
  assert (Hd : forall x, dirtyOf (alter (set_mk m) n s) x = dirtyOf s x) by (intros; rewrite !dirtyOf_proj; by apply projOf_alter_same).
  assert (Hp : forall x, depsOf (alter (set_mk m) n s) x = depsOf s x) by (intros; rewrite !depsOf_proj; by apply projOf_alter_same).
  assert (Ht : forall x, dependentsOf (alter (set_mk m) n s) x = dependentsOf s x) by (intros; rewrite !dependentsOf_proj; by apply projOf_alter_same).
  assert (Hc : forall x, cbOf (alter (set_mk m) n s) x = cbOf s x) by (intros; rewrite !cbOf_proj; by apply projOf_alter_same).
  assert (Hv : forall x, values (alter (set_mk m) n s) x = values s x).
  { intros x. unfold values. destruct (decide (n = x)) as [->|?].
    - rewrite lookup_alter, <- option_fmap_compose. by destruct (s !! x).
    - by rewrite lookup_alter_ne. }
  intros [HA HB HC HDE HF HH]. split.
  - intros x Hx. rewrite Hd in Hx. specialize (HA x Hx). unfold cons in *.
    pose proof (Hc x) as Hcx. pose proof (Hp x) as Hpx. unfold cbOf, depsOf in Hcx, Hpx.
    assert (Hvx : valOf (alter (set_mk m) n s) x = valOf s x) by (rewrite !valOf_proj; by apply projOf_alter_same).
    unfold valOf in Hvx.
    destruct (alter (set_mk m) n s !! x) as [nd'|] eqn:E'; [|done].
    assert (is_Some (s !! x)) as [nd E] by (apply (alter_dom (set_mk m) n s x); rewrite E'; eauto).
    rewrite E in *. rewrite Hcx. destruct (cb nd) as [[f k]|]; [|done].
    destruct HA as (rho & v & r & Hag & Hev & Hagr). exists rho, v, r. split; [|split].
    + intros d Hdd. rewrite Hv. apply Hag. by rewrite <- Hpx.
    + by rewrite Hpx.
    + by rewrite Hvx.
  - intros x Hx. rewrite Hd in Hx. by apply HB.
  - intros x y. rewrite Ht, Hp. apply HC.
  - intros x d. rewrite Hp. apply HDE.
  - done.
  - intros x. rewrite Hc, Hd, Hp. apply HH.
Qed.

Lemma Inv_skip n rest (s:st) : Inv (n :: rest) s -> dirtyOf s n = false -> Inv rest s.
Proof.
  intros [HA HB HC HDE HF HH] Hn. split; try done.
  - intros x Hx. specialize (HB x Hx). apply elem_of_cons in HB as [->|?]; [congruence|done].
  - intros m d Hd Hdr. eapply before_tail; [exact HF| |done]. apply HDE; [done|set_solver].
  - by apply NoDup_cons in HF as [_ ?].
Qed.

(* late-read-freedom, structural on the order and the trace *)
Fixpoint LRF (order:list id) (tr:list event) : Prop :=
  match order, tr with
  | n :: rest, ev :: tr' =>
      match ev with Some (t,_,_) => forall x, x ∈ t -> x ∉ rest | None => True end /\ LRF rest tr'
  | _, _ => True
  end.

Theorem loop_inv order : forall (s s':st) tr,
  loop order s = Some (s', tr) -> Inv order s -> LRF order tr -> Inv [] s'.
Proof.
  induction order as [|n rest IH]; intros s s' tr Hl HI HL; cbn in Hl.
  - by inversion Hl; subst.
  - destruct (s !! n) as [nd|] eqn:Hn.
    + destruct (dirty nd) eqn:Hd.
      * destruct (run_node n (alter (set_mk MNone) n s)) as [[s2 [[t r] ch]]|] eqn:Hr; [|discriminate].
        destruct (loop rest s2) as [[s3 tr']|] eqn:Hl2; [|discriminate]. inversion Hl; subst. cbn in HL. destruct HL as [HL1 HL2].
        eapply IH; [exact Hl2| |exact HL2].
        eapply step; [apply Inv_set_mk; exact HI| |exact Hr|exact HL1].
        rewrite dirtyOf_proj, projOf_alter_same by done. unfold projOf. by rewrite Hn.
      * destruct (loop rest (alter (set_mk MNone) n s)) as [[s3 tr']|] eqn:Hl2; [|discriminate]. inversion Hl; subst.
        cbn in HL. destruct HL as [_ HL2].
        eapply IH; [exact Hl2| |exact HL2]. apply Inv_set_mk. eapply Inv_skip; [exact HI|]. unfold dirtyOf. by rewrite Hn.
    + destruct (loop rest s) as [[s3 tr']|] eqn:Hl2; [|discriminate]. inversion Hl; subst.
      cbn in HL. destruct HL as [_ HL2].
      eapply IH; [exact Hl2| |exact HL2]. eapply Inv_skip; [exact HI|]. unfold dirtyOf. by rewrite Hn.
Qed.

(* at the end: nothing is dirty and every computation is consistent *)
Corollary loop_consistent order (s s':st) tr :
  loop order s = Some (s', tr) -> Inv order s -> LRF order tr ->
  (forall n, dirtyOf s' n = false) /\ (forall n, cons s' n) /\ (forall n m, m ∈ dependentsOf s' n <-> n ∈ depsOf s' m).
Proof.
  intros Hl HI HL. destruct (loop_inv _ _ _ _ Hl HI HL) as [HA HB HC _ _ _].
  assert (Hnd : forall n, dirtyOf s' n = false).
  { intros n. destruct (dirtyOf s' n) eqn:E; [|done]. specialize (HB n E). set_solver. }
  split; [done|]. split; [|done]. intros n. apply HA, Hnd.
Qed.
Print Assumptions loop_consistent.
