From stdpp Require Import gmap list.
Require Import ZArith Lia.
From Syc.ReactivePure Require Import Pure Loop LoopInv Ops.
Open Scope Z_scope.

Lemma eval_ext e rho1 rho2 : (forall x, rho1 x = rho2 x) -> eval e rho1 = eval e rho2.
Proof.
  intros H. induction e as [z|tr x|op a IHa b IHb|c IHc a IHa b IHb]; cbn.
  - done.
  - by rewrite H.
  - by rewrite IHa, IHb.
  - by rewrite IHc, IHa, IHb.
Qed.

Lemma values_unlink' n ds (s:st) x : values (unlink n ds s) x = values s x.
Proof.
  unfold values. pose proof (unlink_dom n ds s x) as Hd. pose proof (unlink_val n ds s x) as Hv.
  unfold valOf in Hv. destruct (unlink n ds s !! x) eqn:E1, (s !! x) eqn:E2; cbn; try done.
  - by rewrite Hv.
  - exfalso. destruct Hd as [Hd _]. destruct Hd; eauto; discriminate.
  - exfalso. destruct Hd as [_ Hd]. destruct Hd; eauto; discriminate.
Qed.

Section alter_n.
  Context (g:node->node) (n:id) (s:st).
  Lemma alterg_proj {A} (p:node->A) dflt x : (forall nd, p (g nd) = p nd) -> projOf p dflt (alter g n s) x = projOf p dflt s x.
  Proof. apply projOf_alter_same. Qed.
  Lemma alterg_ne {A} (p:node->A) dflt x : x ≠ n -> projOf p dflt (alter g n s) x = projOf p dflt s x.
  Proof. intros H. unfold projOf. by rewrite lookup_alter_ne. Qed.
  Lemma alterg_eq {A} (p:node->A) dflt nd : s !! n = Some nd -> projOf p dflt (alter g n s) n = p (g nd).
  Proof. intros H. unfold projOf. by rewrite lookup_alter, H. Qed.
End alter_n.

Lemma run_node_spec n (s s2:st) t r ch :
  run_node n s = Some (s2, (t, r, ch)) ->
  exists nd f k v,
    s !! n = Some nd /\ cb nd = Some (f,k) /\ eval f (values s) = Some (v,t,r) /\ n ∉ r /\
    ch = negb (eqk k v (val nd)) /\
    (forall x, cbOf s2 x = cbOf s x) /\
    (forall x, valOf s2 x = if decide (x = n) then (if ch then v else val nd) else valOf s x) /\
    (forall x, is_Some (s2 !! x) <-> is_Some (s !! x)) /\
    (forall x, depsOf s2 x = if decide (x = n) then t else depsOf s x) /\
    (forall x m, is_Some (s !! x) ->
        (m ∈ dependentsOf s2 x <-> (m ∈ dependentsOf s x /\ (x ∈ deps nd -> m ≠ n)) \/ (m = n /\ x ∈ t))) /\
    (forall x, dirtyOf s2 x =
       if decide (x = n) then (ch && bool_decide (n ∈ dependentsOf s2 n /\ is_Some (s !! n)))%bool
       else (dirtyOf s x || (ch && bool_decide (x ∈ dependentsOf s2 n /\ is_Some (s !! x))))%bool).
Proof.
  unfold run_node. intros H.
  destruct (s !! n) as [nd|] eqn:Hn; [|discriminate].
  destruct (cb nd) as [[f k]|] eqn:Hcb; [|discriminate].
  rewrite (eval_ext f _ (values s) (values_unlink' n (deps nd) s)) in H.
  destruct (eval f (values s)) as [[[v t0] r0]|] eqn:Hev; [|discriminate].
  destruct (bool_decide (n ∈ r0)) eqn:Hnr; [discriminate|]. apply bool_decide_eq_false in Hnr.
  set (s1 := unlink n (deps nd) s) in *.
  set (s2' := link n t0 s1) in *.
  set (chg := negb (eqk k v (val nd))) in *.
  set (g := fun x : node => set_dirty false (if chg then set_val v x else x)) in *.
  set (s3 := alter g n s2') in *.
  assert (Hlive1 : is_Some (s1 !! n)) by (apply unlink_dom; rewrite Hn; eauto).
  assert (Hlive2 : is_Some (s2' !! n)) by (apply link_dom; done).
  destruct Hlive2 as [nd2 Hnd2].
  (* facts about s3 *)
  assert (D3 : forall x, is_Some (s3 !! x) <-> is_Some (s !! x)).
  { intros x. unfold s3. rewrite alter_dom. unfold s2'. rewrite link_dom. apply unlink_dom. }
  assert (C3 : forall x, cbOf s3 x = cbOf s x).
  { intros x. unfold s3. rewrite cbOf_proj, alterg_proj by (intros; unfold g; destruct chg; done).
    rewrite <- cbOf_proj. unfold s2'. rewrite link_cb. apply unlink_cb. }
  assert (V2 : forall x, valOf s2' x = valOf s x) by (intros; unfold s2'; rewrite link_val; apply unlink_val).
  assert (V3 : forall x, valOf s3 x = if decide (x = n) then (if chg then v else val nd) else valOf s x).
  { intros x. destruct (decide (x = n)) as [->|Hne].
    - unfold s3. rewrite valOf_proj, (alterg_eq g n s2' val 0 nd2 Hnd2).
      pose proof (V2 n) as Hv. unfold valOf in Hv. rewrite Hnd2, Hn in Hv. unfold g. destruct chg; cbn; done.
    - unfold s3. rewrite valOf_proj, alterg_ne by done. rewrite <- valOf_proj. apply V2. }
  assert (P3 : forall x, depsOf s3 x = if decide (x = n) then t0 else depsOf s x).
  { intros x. unfold s3. rewrite depsOf_proj, alterg_proj by (intros; unfold g; destruct chg; done).
    rewrite <- depsOf_proj. unfold s2'. rewrite link_deps by done. destruct (decide (x = n)); [done|].
    unfold s1. rewrite unlink_deps by (rewrite Hn; eauto). by rewrite decide_False. }
  assert (T3 : forall x m, is_Some (s !! x) ->
       (m ∈ dependentsOf s3 x <-> (m ∈ dependentsOf s x /\ (x ∈ deps nd -> m ≠ n)) \/ (m = n /\ x ∈ t0))).
  { intros x m Hx. unfold s3. rewrite dependentsOf_proj, alterg_proj by (intros; unfold g; destruct chg; done).
    rewrite <- dependentsOf_proj. unfold s2'. rewrite link_dependents by (apply unlink_dom; done).
    unfold s1. rewrite unlink_dependents. done. }
  assert (R3 : forall x, dirtyOf s3 x = if decide (x = n) then false else dirtyOf s x).
  { intros x. destruct (decide (x = n)) as [->|Hne].
    - unfold s3. rewrite dirtyOf_proj, (alterg_eq g n s2' dirty false nd2 Hnd2). unfold g. destruct chg; done.
    - unfold s3. rewrite dirtyOf_proj, alterg_ne by done. rewrite <- dirtyOf_proj. unfold s2'.
      rewrite link_dirty. apply unlink_dirty. }
  destruct chg eqn:Echg; inversion H; subst; clear H.
  - (* changed: mark dependents *)
    assert (Hd : forall y, dependentsOf (mark_dependents_dirty n s3) y = dependentsOf s3 y).
    { intros y. rewrite !dependentsOf_proj. by apply mdd_same. }
    exists nd, f, k, v.
    split; [done|]. split; [done|]. split; [done|]. split; [done|]. split; [done|].
    split. { intros x. rewrite cbOf_proj, mdd_same by done. rewrite <- cbOf_proj. apply C3. }
    split. { intros x. rewrite valOf_proj, mdd_same by done. rewrite <- valOf_proj. apply V3. }
    split. { intros x. rewrite mdd_dom. apply D3. }
    split. { intros x. rewrite depsOf_proj, mdd_same by done. rewrite <- depsOf_proj. apply P3. }
    split. { intros x m Hx. rewrite Hd. by apply T3. }
    intros x. rewrite mdd_dirty, R3, !Hd. destruct (decide (x = n)) as [->|Hne]; cbn.
    + apply bool_decide_ext. split; intros [Hq1 Hq2]; (split; [exact Hq1|]); [eauto | apply D3; rewrite Hn; eauto].
    + f_equal. apply bool_decide_ext. split; intros [Hq1 Hq2]; (split; [exact Hq1|]); [apply (proj1 (D3 _)); exact Hq2 | apply (proj2 (D3 _)); exact Hq2].
  - exists nd, f, k, v.
    split; [done|]. split; [done|]. split; [done|]. split; [done|]. split; [done|].
    split; [exact C3|]. split; [exact V3|]. split; [exact D3|]. split; [exact P3|]. split; [exact T3|].
    intros x. rewrite R3. destruct (decide (x = n)); cbn; [done|by rewrite orb_false_r].
Qed.
Print Assumptions run_node_spec.
