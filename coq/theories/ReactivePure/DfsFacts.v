(* ReactivePure/DfsFacts.v -- the depth-first pass of propagate_node_updates is correct on acyclic graphs:
   it never reports a cycle, never runs out of its fuel S (size s), only changes marks, and returns a buffer
   that is duplicate-free, closed under dependents, lists every node after all of its dependents, and contains
   only nodes reachable from the start node. *)
From stdpp Require Import gmap list relations.
Require Import ZArith Lia.
From Syc.ReactivePure Require Import Pure Loop LoopInv Ops Spec Step Extra Dfs.
Open Scope Z_scope.

Definition mkOf (s:st) (n:id) : mark := match s !! n with Some nd => mk nd | None => MNone end.
Lemma mkOf_proj s x : mkOf s x = projOf mk MNone s x. Proof. reflexivity. Qed.

(* the state with all marks erased: what the depth-first pass leaves unchanged *)
Definition erase (s:st) : st := set_mk MNone <$> s.

Lemma erase_alter_mk m x (s:st) : erase (alter (set_mk m) x s) = erase s.
Proof.
  apply map_eq. intros i. unfold erase. rewrite !lookup_fmap.
  destruct (decide (x = i)) as [->|Hne].
  - rewrite lookup_alter. by destruct (s !! i).
  - by rewrite lookup_alter_ne.
Qed.

Lemma erase_lookup (s s':st) x : erase s = erase s' -> set_mk MNone <$> (s !! x) = set_mk MNone <$> (s' !! x).
Proof. intros H. unfold erase in H. rewrite <- !lookup_fmap. by rewrite H. Qed.

Lemma erase_dom (s s':st) x : erase s = erase s' -> is_Some (s !! x) <-> is_Some (s' !! x).
Proof.
  intros H. apply (erase_lookup _ _ x) in H.
  destruct (s !! x), (s' !! x); cbn in H; try discriminate; split; intros [? ?]; eauto; discriminate.
Qed.

Lemma erase_proj {A} (p:node->A) dflt (s s':st) x :
  (forall m nd, p (set_mk m nd) = p nd) -> erase s = erase s' -> projOf p dflt s x = projOf p dflt s' x.
Proof.
  intros Hp H. apply (erase_lookup _ _ x) in H. unfold projOf.
  destruct (s !! x) as [nd|], (s' !! x) as [nd'|]; cbn in H; try discriminate; [|done].
  assert (H1 : set_mk MNone nd = set_mk MNone nd') by (by apply (inj Some)).
  rewrite <- (Hp MNone nd), <- (Hp MNone nd'). by rewrite H1.
Qed.

Lemma erase_deps s s' x : erase s = erase s' -> depsOf s x = depsOf s' x.
Proof. intros. rewrite !depsOf_proj. by apply erase_proj. Qed.
Lemma erase_dependents s s' x : erase s = erase s' -> dependentsOf s x = dependentsOf s' x.
Proof. intros. rewrite !dependentsOf_proj. by apply erase_proj. Qed.
Lemma erase_dirty s s' x : erase s = erase s' -> dirtyOf s x = dirtyOf s' x.
Proof. intros. rewrite !dirtyOf_proj. by apply erase_proj. Qed.
Lemma erase_cb s s' x : erase s = erase s' -> cbOf s x = cbOf s' x.
Proof. intros. rewrite !cbOf_proj. by apply erase_proj. Qed.
Lemma erase_val s s' x : erase s = erase s' -> valOf s x = valOf s' x.
Proof. intros. rewrite !valOf_proj. by apply erase_proj. Qed.
Lemma erase_values s s' x : erase s = erase s' -> values s x = values s' x.
Proof.
  intros H. rewrite !values_valOf. rewrite (erase_val _ _ x H).
  pose proof (erase_dom _ _ x H) as Hd. destruct (s !! x), (s' !! x); try done.
  - exfalso. destruct Hd as [Hd _]. destruct Hd; eauto; discriminate.
  - exfalso. destruct Hd as [_ Hd]. destruct Hd; eauto; discriminate.
Qed.

Lemma mkOf_alter m x (s:st) n :
  mkOf (alter (set_mk m) x s) n = if decide (n = x) then (if s !! x then m else MNone) else mkOf s n.
Proof.
  unfold mkOf. destruct (decide (n = x)) as [->|Hne].
  - rewrite lookup_alter. by destruct (s !! x).
  - by rewrite lookup_alter_ne.
Qed.

(* ---------- [before] ---------- *)
Lemma before_elem l a b : before l a b -> a ∈ l /\ b ∈ l.
Proof. intros (i & j & Hi & Hj & _). split; eapply elem_of_list_lookup_2; eauto. Qed.

Lemma before_trans l a b c : NoDup l -> before l a b -> before l b c -> before l a c.
Proof.
  intros Hnd (i & j & Hi & Hj & Hij) (j' & k & Hj' & Hk & Hjk).
  assert (j = j') by (eapply NoDup_lookup; eauto). subst j'.
  exists i, k. repeat split; [done|done|lia].
Qed.

Lemma before_app_l l l' a b : before l a b -> before (l ++ l') a b.
Proof.
  intros (i & j & Hi & Hj & Hij). exists i, j.
  repeat split; [by apply lookup_app_l_Some|by apply lookup_app_l_Some|done].
Qed.

Lemma before_snoc l a b : a ∈ l -> before (l ++ [b]) a b.
Proof.
  intros Ha. apply elem_of_list_lookup in Ha as [i Hi].
  exists i, (length l). split; [by apply lookup_app_l_Some|]. split.
  - rewrite lookup_app_r by lia. by rewrite Nat.sub_diag.
  - by eapply lookup_lt_Some.
Qed.

Lemma rev_reverse {A} (l : list A) : rev l = reverse l.
Proof. unfold reverse. by rewrite rev_alt. Qed.

Lemma before_rev l a b : before l a b -> before (rev l) b a.
Proof.
  intros (i & j & Hi & Hj & Hij).
  pose proof (lookup_lt_Some _ _ _ Hi) as Li. pose proof (lookup_lt_Some _ _ _ Hj) as Lj.
  exists (length l - S j)%nat, (length l - S i)%nat.
  rewrite !rev_reverse. rewrite !reverse_lookup by lia.
  replace (length l - S (length l - S j))%nat with j by lia.
  replace (length l - S (length l - S i))%nat with i by lia.
  repeat split; [done|done|lia].
Qed.

Lemma before_app_r_notin l l' a b : a ∈ l -> b ∈ l' -> before (l ++ l') a b.
Proof.
  intros Ha Hb. apply elem_of_list_lookup in Ha as [i Hi]. apply elem_of_list_lookup in Hb as [j Hj].
  exists i, (length l + j)%nat. split; [by apply lookup_app_l_Some|]. split.
  - rewrite lookup_app_r by lia. by replace (length l + j - length l)%nat with j by lia.
  - pose proof (lookup_lt_Some _ _ _ Hi). lia.
Qed.

(* ---------- the depth-first pass ---------- *)
(* unconditionally, it changes nothing but marks *)
Lemma dfs_erase : forall g y (a : st) b (a' : st) b', dfs g y (a, b) = Some (Some (a', b')) -> erase a' = erase a.
Proof.
  induction g as [|g IH]; intros y a b a' b' H; [discriminate|].
  rewrite dfs_S in H. destruct (a !! y) as [nd|]; [|by inversion H].
  destruct (mk nd); [|discriminate|by inversion H]. cbv zeta in H.
  assert (Hc : forall cs (c : st) d (c' : st) d',
    dfs_children g cs (Some (Some (c, d))) = Some (Some (c', d')) -> erase c' = erase c).
  { induction cs as [|z cs IHcs]; intros c d c' d' Hc; cbn in Hc; [by inversion Hc|].
    destruct (dfs g z (c, d)) as [[[c1 d1]|]|] eqn:E.
    - fold (dfs_children g cs (Some (Some (c1, d1)))) in Hc. rewrite (IHcs _ _ _ _ Hc). eapply IH; exact E.
    - exfalso. clear -Hc. induction cs; cbn in Hc; [discriminate|auto].
    - exfalso. clear -Hc. induction cs; cbn in Hc; [discriminate|auto]. }
  destruct (dfs_children g _ _) as [[[c1 d1]|]|] eqn:E; try discriminate.
  inversion H; subst. rewrite erase_alter_mk, (Hc _ _ _ _ _ E). apply erase_alter_mk.
Qed.

(* the pass is specified relative to a reference state [s0] with the same live nodes and subscriber lists
   (marks change during the pass; between two passes of one propagation, dirty flags change as well) *)
Definition same_graph (s s0 : st) : Prop :=
  (forall x, is_Some (s !! x) <-> is_Some (s0 !! x)) /\ (forall x, dependentsOf s x = dependentsOf s0 x).

Lemma same_graph_alter_mk m x (s s0 : st) : same_graph s s0 -> same_graph (alter (set_mk m) x s) s0.
Proof.
  intros [Hd Hp]. split; intros y.
  - rewrite alter_dom. apply Hd.
  - rewrite dependentsOf_proj, projOf_alter_same by done. rewrite <- dependentsOf_proj. apply Hp.
Qed.

Lemma same_graph_erase (s s0 : st) : erase s = erase s0 -> same_graph s s0.
Proof. intros H. split; intros y; [by apply erase_dom|by apply erase_dependents]. Qed.

Section dfs.
  Context (L : list id) (s0 : st).
  Context (HLnd : NoDup L).
  Context (HLlive : forall x, x ∈ L -> is_Some (s0 !! x)).
  Context (Hsucc : forall n m, m ∈ dependentsOf s0 n -> before L n m).

  Definition edge (a b : id) : Prop := b ∈ dependentsOf s0 a.

  Record DI (s:st) (buf:list id) : Prop := {
    di_frame : same_graph s s0;
    di_perm : forall n, mkOf s n = MPerm <-> n ∈ buf;
    di_nodup : NoDup buf;
    di_closed : forall n m, n ∈ buf -> m ∈ dependentsOf s0 n -> before buf m n;
  }.

  Definition dfs_post (x:id) (s:st) (buf:list id) (r : option (option (st * list id))) : Prop :=
    exists s2 new, r = Some (Some (s2, buf ++ new)) /\ DI s2 (buf ++ new) /\
      (forall t, mkOf s2 t = MTemp <-> mkOf s t = MTemp) /\
      x ∈ buf ++ new /\ (forall n, n ∈ new -> rtc edge x n) /\
      (mkOf s x = MNone -> exists new', new = new' ++ [x]).

  Lemma dfs_ok : forall g x (s:st) buf i,
    DI s buf -> L !! i = Some x -> (length L < i + g)%nat ->
    (forall t, mkOf s t = MTemp -> before L t x) ->
    dfs_post x s buf (dfs g x (s, buf)).
  Proof.
    induction g as [|g' IHg]; intros x s buf i HDI Hi Hfuel Htemp.
    { exfalso. apply lookup_lt_Some in Hi. lia. }
    assert (HxL : x ∈ L) by (eapply elem_of_list_lookup_2; eauto).
    destruct HDI as [Her Hperm Hnd Hcl].
    assert (Hlive : is_Some (s !! x)) by (apply (proj1 Her x); auto).
    destruct Hlive as [nd Hx]. rewrite dfs_S, Hx.
    destruct (mk nd) eqn:Hmk.
    - (* MNone: visit *)
      cbv zeta.
      set (s1 := alter (set_mk MTemp) x s).
      assert (Hdeps_nd : dependents nd = dependentsOf s0 x).
      { rewrite <- (proj2 Her x). unfold dependentsOf. by rewrite Hx. }
      assert (Hx_notbuf : x ∉ buf).
      { intros Hin. apply Hperm in Hin. unfold mkOf in Hin. rewrite Hx in Hin. congruence. }
      (* the fold over the children *)
      assert (Hch : forall cs (s':st) buf',
        (forall c, c ∈ cs -> edge x c) ->
        DI s' buf' -> (forall t, mkOf s' t = MTemp <-> (mkOf s t = MTemp \/ t = x)) ->
        exists s2 new, dfs_children g' cs (Some (Some (s', buf'))) = Some (Some (s2, buf' ++ new)) /\
          DI s2 (buf' ++ new) /\ (forall t, mkOf s2 t = MTemp <-> (mkOf s t = MTemp \/ t = x)) /\
          (forall c, c ∈ cs -> c ∈ buf' ++ new) /\ (forall n, n ∈ new -> rtc edge x n)).
      { induction cs as [|c cs IHcs]; intros s' buf' Hcs HDI' Ht'.
        - exists s', []. rewrite app_nil_r. cbn [dfs_children fold_left].
          split; [done|]. split; [done|]. split; [done|]. split; intros ? Hin; by apply elem_of_nil in Hin.
        - cbn [dfs_children fold_left].
          assert (Hxc : before L x c) by (apply Hsucc, Hcs; set_solver).
          destruct Hxc as (i' & j & Hi' & Hj & Hlt).
          assert (i' = i) by exact (NoDup_lookup L i' i x HLnd Hi' Hi). subst i'.
          assert (Hpost : dfs_post c s' buf' (dfs g' c (s', buf'))).
          { apply (IHg c s' buf' j HDI' Hj); [lia|].
            intros t Ht. apply Ht' in Ht as [Ht| ->].
            - eapply before_trans; [done|apply Htemp, Ht|]. exists i, j. done.
            - exists i, j. done. }
          destruct Hpost as (s2 & new1 & -> & HDI2 & Ht2 & Hc2 & Hr2 & _).
          destruct (IHcs s2 (buf' ++ new1)) as (s3 & new2 & Hf & HDI3 & Ht3 & Hc3 & Hr3).
          { intros; apply Hcs; set_solver. }
          { done. }
          { intros t. rewrite Ht2. apply Ht'. }
          fold (dfs_children g' cs (Some (Some (s2, buf' ++ new1)))).
          exists s3, (new1 ++ new2). rewrite app_assoc. split; [done|]. split; [done|]. split; [done|]. split.
          + intros c' Hc'. apply elem_of_cons in Hc' as [->|Hc']; [|by apply Hc3].
            apply elem_of_app. by left.
          + intros n Hn. apply elem_of_app in Hn as [Hn|Hn]; [|by apply Hr3].
            apply (rtc_l edge x c n); [apply Hcs; set_solver|by apply Hr2]. }
      destruct (Hch (dependents nd) s1 buf) as (s2 & new & Hf & HDI2 & Ht2 & Hc2 & Hr2).
      { intros c Hc. unfold edge. by rewrite <- Hdeps_nd. }
      { split.
        - unfold s1. by apply same_graph_alter_mk.
        - intros n. unfold s1. rewrite mkOf_alter, Hx. destruct (decide (n = x)) as [->|Hne]; [|apply Hperm].
          split; [discriminate|]. intros; contradiction.
        - done.
        - done. }
      { intros t. unfold s1. rewrite mkOf_alter, Hx. destruct (decide (t = x)) as [->|Hne].
        - split; [by right|done].
        - split; [by left|]. intros [?|?]; [done|contradiction]. }
      rewrite Hf.
      destruct HDI2 as [Her2 Hperm2 Hnd2 Hcl2].
      assert (Hx2 : is_Some (s2 !! x)) by (apply (proj1 Her2 x); auto).
      assert (Hx2temp : mkOf s2 x = MTemp) by (apply Ht2; by right).
      assert (Hx_notbuf2 : x ∉ buf ++ new).
      { intros Hin. apply Hperm2 in Hin. congruence. }
      exists (alter (set_mk MPerm) x s2), (new ++ [x]). rewrite app_assoc.
      split; [done|]. split; [split|].
      + by apply same_graph_alter_mk.
      + intros n. rewrite mkOf_alter. destruct Hx2 as [nd2 Hnd2']. rewrite Hnd2'.
        destruct (decide (n = x)) as [->|Hne].
        * split; [intros _; set_solver|done].
        * rewrite Hperm2. set_solver.
      + apply NoDup_app. split; [done|]. split; [|apply NoDup_singleton].
        intros y Hy Hy'. apply elem_of_list_singleton in Hy' as ->. contradiction.
      + intros n m Hn Hm. apply elem_of_app in Hn as [Hn|Hn].
        * apply before_app_l. by apply Hcl2.
        * apply elem_of_list_singleton in Hn as ->. apply before_snoc. apply Hc2. by rewrite Hdeps_nd.
      + split; [|split].
        * intros t. rewrite mkOf_alter. destruct Hx2 as [nd2 Hnd2']. rewrite Hnd2'.
          destruct (decide (t = x)) as [->|Hne].
          -- unfold mkOf. rewrite Hx, Hmk. split; discriminate.
          -- rewrite Ht2. split; [intros [?|?]; [done|contradiction]|by left].
        * set_solver.
        * split; [|intros _; by exists new].
          intros n Hn. apply elem_of_app in Hn as [Hn|Hn]; [by apply Hr2|].
          apply elem_of_list_singleton in Hn as ->. apply rtc_refl.
    - (* MTemp: impossible on an acyclic graph *)
      exfalso. assert (Hb : before L x x) by (apply Htemp; unfold mkOf; by rewrite Hx).
      by apply (before_irrefl L x HLnd).
    - (* MPerm: already scheduled *)
      exists s, []. rewrite app_nil_r. split; [done|]. split; [by split|]. split; [done|]. split.
      + apply Hperm. unfold mkOf. by rewrite Hx.
      + split; [set_solver|]. unfold mkOf. rewrite Hx, Hmk. discriminate.
  Qed.
End dfs.

Print Assumptions dfs_ok.
Print Assumptions dfs_erase.
